(* C01 — definitions shared by the round-2 proof files (no proofs here).
   wmatch        : what build_waveform establishes about the waveform of an atom (consumed by the emission lemma)
   tbl_guard     : the executable guard on an instantiated table (refuted class + degenerate linear segment)
   atom_guard    : tbl_guard on every table an atom hands to TableWaveform.from_table; positive duration of a FunctionPT
   guard_C01_tables : the same along the run of _create_program (scopes of loops / mappings followed)
   no_seq_rep    : leaf waveforms built by atoms contain no SequenceWaveform / RepetitionWaveform *)
From Coq Require Import ZArith QArith Qround List Bool.
Require Import QV.common.Util QV.C01.Model QV.C01.Spec QV.C01.Proofs.
Import ListNotations.
Open Scope Q_scope.

Fixpoint nodupb (l : list chan) : bool :=
  match l with [] => true | c :: r => negb (cmem c r) && nodupb r end.

(* a waveform built for an atom plays the atom's piece (closed interval) and its constant_value_dict is coherent *)
Definition wmatch (w : wf) (p : piece) : Prop :=
  leaf_matches w p /\
  match wcvd w with
  | None => True
  | Some d => d <> [] /\ nodupb (map fst d) = true /\
              (forall c, cmem c (map fst d) = cmem c (wchans w)) /\
              (forall c v t, cassoc c d = Some v -> wsample w c t = Some v)
  end.

Definition omatch (ow : option wf) (op : option piece) : Prop :=
  match ow, op with
  | Some w, Some p => wmatch w p
  | None, None => True
  | _, _ => False
  end.

(* ---- tables ---- *)
(* at least three entries carry the final time: TableWaveform._validate_input drops the middle one(s), which changes
   the value at t = duration (refuted class, found by the C08 builder) *)
Definition final_triple (tbl : list tentry) : bool :=
  (3 <=? length (filter (fun e => Qeq_bool (et e) (last_t tbl)) tbl))%nat.

(* a linear entry at the time of its predecessor (division by zero in the interpolation: undefined value) *)
Fixpoint zero_linear (prev : Q) (l : list tentry) : bool :=
  match l with
  | [] => false
  | e :: r => (match ei e with Linear => Qeq_bool (et e) prev | _ => false end) || zero_linear (et e) r
  end.

Definition tbl_guard (tbl : list tentry) : bool :=
  negb (final_triple tbl) && negb (match tbl with e :: r => zero_linear (et e) r | [] => false end).

(* what from_table establishes for one channel *)
Definition from_table_core_statement : Prop :=
  forall c tbl w, tbl_guard tbl = true -> from_table c tbl = Ok w ->
    table_ok tbl = true /\ 0 < last_t tbl /\ wdur w == last_t tbl /\ wchans w = [c] /\
    (forall t, 0 <= t -> t <= last_t tbl -> oeq (wsample w c t) (table_fun tbl t)) /\
    match wcvd w with
    | None => True
    | Some d => exists v, d = [(c, v)] /\ forall t, wsample w c t = Some v
    end.

(* the tables TablePT / PointPT hand to from_table (same computation as build_table / build_point) *)
Definition table_inputs (s : scope) (cm : chanmap) (chs : list (chan * list (expr * expr * interp)))
  : result (list (chan * list tentry)) :=
  inst <- rmap (fun ce => es <- inst_entries s (snd ce) ;; Ok (fst ce, pad_front es)) chs ;;
  let d := qmax_list (map (fun ce => last_t (snd ce)) inst) in
  Ok (flat_map (fun ce => match cm (fst ce) with Some m => [(m, pad_back d (snd ce))] | None => [] end) inst).

Definition point_inputs (s : scope) (cm : chanmap) (entries : list (expr * list expr * interp)) (chs : list chan)
  : result (list (chan * list tentry)) :=
  inst <- rmap (fun e => t <- evals s (fst (fst e)) ;; vs <- rmap (evals s) (snd (fst e)) ;; Ok (t, vs, snd e)) entries ;;
  let n := length chs in
  let per_ch := map (fun k => (nth k chs (ChI 0), transpose_entries n k inst)) (seq 0 n) in
  let front := fun tbl : list tentry =>
                 match tbl with e :: _ => if Qltb' 0 (et e) then (0, ev e, ei e) :: tbl else tbl | [] => tbl end in
  Ok (flat_map (fun ce => match cm (fst ce) with Some m => [(m, front (snd ce))] | None => [] end) per_ch).

Definition inputs_guard (r : result (list (chan * list tentry))) : bool :=
  match r with Ok kept => forallb (fun ce => tbl_guard (snd ce)) kept | Err _ => true end.

(* known finding `multi-zero-duration-part` (C01_multi_zero_refuted): AtomicMultiChannelPT.build_waveform silently drops a
   part that builds no waveform although one of its channels is kept (its duration evaluates to <= 0) while another part
   builds one, instead of rejecting the unequal durations *)
Definition builds_none (s : scope) (cm : chanmap) (x : atom) : bool :=
  match build_waveform x s cm with Ok None => true | _ => false end.
Definition builds_some (s : scope) (cm : chanmap) (x : atom) : bool :=
  match build_waveform x s cm with Ok (Some _) => true | _ => false end.
Definition multi_ghost (s : scope) (cm : chanmap) (l : list atom) : bool :=
  existsb (fun x => kept_any cm (atom_chans x) && builds_none s cm x) l && existsb (builds_some s cm) l.

Fixpoint atom_guard (a : atom) (s : scope) (cm : chanmap) : bool :=
  match a with
  | AConst _ _ => true
  | ATable chs => inputs_guard (table_inputs s cm chs)
  | APoint es chs => inputs_guard (point_inputs s cm es chs)
  | AMulti l => (fix go (l : list atom) : bool := match l with [] => true | x :: r => atom_guard x s cm && go r end) l
                && negb (multi_ghost s cm l)
  | AArith l _ r => atom_guard l s cm && atom_guard r s cm
  | AFunc d c _ _ =>      (* FunctionPT does not drop a non-positive duration *)
      match cm c, evals s d with Some _, Ok dv => Qltb' 0 dv | _, _ => true end
  end.

(* the guard along the run of _create_program: every atom instance, under the scope / channel mapping it is built with *)
Fixpoint guard_C01_tables (p : pt) (s : scope) (cm : chanmap) : bool :=
  match p with
  | PAtom a => atom_guard a s cm
  | PSeq l => (fix go (l : list pt) : bool := match l with [] => true | x :: r => guard_C01_tables x s cm && go r end) l
  | PRep _ b => guard_C01_tables b s cm
  | PFor idx e1 e2 e3 b =>
      match (v <- evals s e1 ;; to_int EValue v), (v <- evals s e2 ;; to_int EValue v), (v <- evals s e3 ;; to_int EValue v) with
      | Ok a, Ok b', Ok c => forallb (fun i => guard_C01_tables b (SRange s idx i) cm) (zrange a b' c)
      | _, _, _ => true
      end
  | PMap pm chm b => guard_C01_tables b (SMapped s pm (map_ids pm b)) (cm_compose cm chm)
  | PRev b => guard_C01_tables b s cm
  | PPar b _ => guard_C01_tables b s cm
  | PArith _ _ _ b => guard_C01_tables b s cm
  end.

(* ---- leaf waveforms: no sequence / repetition inside ---- *)
Fixpoint no_seq_rep (w : wf) : bool :=
  match w with
  | WConst _ _ _ | WTable _ _ => true
  | WSeq _ | WRep _ _ => false
  | WMulti l => (fix go (l : list wf) : bool := match l with [] => true | x :: r => no_seq_rep x && go r end) l
  | WTrans w _ => no_seq_rep w
  | WArith l _ r => no_seq_rep l && no_seq_rep r
  | WNeg w => no_seq_rep w
  | WRev w => no_seq_rep w
  end.

(* piece equivalence (extensional) *)
Definition piece_equiv (p q : piece) : Prop :=
  pdur p == pdur q /\ chans_same (pchans p) (pchans q) /\
  forall c t, cmem c (pchans p) = true -> oeq (pval p c t) (pval q c t).
