(* C01 — the program trees built by create_program are `lgood` (Proofs_sampling): structure of the loops, leaves are
   atomic waveforms with coherent constant_value / constant_value_dict; hence to_waveform + get_sampled = play. *)
From Coq Require Import ZArith QArith Qround List Bool Lia Lqa Setoid.
Require Import QV.common.Util QV.C01.Model QV.C01.Spec QV.C01.Proofs QV.C01.ProofsDefs QV.C01.Proofs_trafo
        QV.C01.Proofs_table QV.C01.Proofs_comp QV.C01.Proofs_atoms QV.C01.Proofs_main QV.C01.Proofs_sampling.
Import ListNotations.
Open Scope Q_scope.
Arguments Qred : simpl never.  Arguments Qplus : simpl never.  Arguments Qminus : simpl never.
Arguments Qmult : simpl never. Arguments Qdiv : simpl never.   Arguments Qopp : simpl never.
Arguments Qinv : simpl never.  Arguments Qle_bool : simpl never. Arguments Qeq_bool : simpl never.
Arguments Qfloor : simpl never. Arguments inject_Z : simpl never. Arguments Z.to_nat : simpl never.

(* ---------------------------------------------------------------------------------------------------------- *)
(* H1. constant_value of an atomic waveform agrees with its samples (all t) *)
Lemma wcv_multi_cons x r c : wcv (WMulti (x :: r)) c = if cmem c (wchans x) then wcv x c else wcv (WMulti r) c.
Proof. reflexivity. Qed.
Lemma wchans_multi_cons x r : wchans (WMulti (x :: r)) = wchans x ++ wchans (WMulti r).
Proof. reflexivity. Qed.
Lemma no_seq_rep_multi_cons x r : no_seq_rep (WMulti (x :: r)) = no_seq_rep x && no_seq_rep (WMulti r).
Proof. reflexivity. Qed.

Lemma leaf_wcv : forall w, no_seq_rep w = true -> forall c v, cmem c (wchans w) = true -> wcv w c = Some v ->
  forall t, oeq (wsample w c t) (Some v).
Proof.
  induction w using wf_ind2; intros Hn ch u Hin Hw t; try (simpl in Hn; discriminate); try (simpl in Hw; discriminate).
  - simpl in *. inversion Hw. reflexivity.
  - (* multi *)
    induction H as [|x r Hx _ IH]; [simpl in Hw; discriminate|].
    rewrite no_seq_rep_multi_cons in Hn. apply andb_prop in Hn as (N1 & N2).
    rewrite wcv_multi_cons in Hw. rewrite wsample_multi_cons. rewrite wchans_multi_cons, cmem_app in Hin.
    destruct (cmem ch (wchans x)) eqn:E.
    + apply Hx; auto.
    + simpl in Hin. apply IH; auto.
  - (* transformed *)
    simpl in Hn. rewrite wsample_trans. simpl in Hw. rewrite trafo_inputs_single in Hw.
    simpl in Hin. rewrite cmem_trafo_outputs in Hin.
    destruct (in_over ch tr) eqn:Eo.
    + simpl in Hw. rewrite dg_trafo in Hw. simpl in Hw. rewrite dg_nil in Hw.
      rewrite (tf_over_const ch tr (wsample w ch t) Eo), Hw. reflexivity.
    + rewrite orb_false_r in Hin. simpl in Hw. destruct (wcv w ch) as [a|] eqn:Ea; simpl in Hw; [|discriminate].
      rewrite dg_trafo, dg_cons, chan_eqb_refl in Hw. rewrite <- Hw. apply tf_oeq. apply IHw; auto.
  - (* arithmetic *)
    simpl in Hn. apply andb_prop in Hn as (N1 & N2). simpl in Hin. rewrite cmem_cunion in Hin.
    simpl in Hw. simpl wsample.
    destruct (cmem ch (wchans w2)) eqn:E2; simpl in Hw.
    + destruct (wcv w2 ch) as [b|] eqn:Eb; [|discriminate].
      pose proof (IHw2 N2 ch b E2 Eb t) as S2.
      destruct (cmem ch (wchans w1)) eqn:E1; simpl.
      * destruct (wcv w1 ch) as [a|] eqn:Ea; [|discriminate].
        pose proof (IHw1 N1 ch a E1 Ea t) as S1. inversion Hw; subst u.
        destruct (wsample w1 ch t) as [a'|]; [|contradiction]. destruct (wsample w2 ch t) as [b'|]; [|contradiction].
        simpl in *. rewrite !Qred_correct. destruct op; rewrite S1, S2; reflexivity.
      * inversion Hw; subst u. destruct (wsample w2 ch t) as [b'|]; [|contradiction]. simpl in *.
        destruct op; [exact S2|rewrite !Qred_correct, S2; reflexivity].
    + rewrite orb_false_r in Hin. rewrite Hin. simpl. apply IHw1; auto.
  - (* negation *)
    simpl in *. destruct (wcv w ch) as [a|] eqn:Ea; [|discriminate]. inversion Hw; subst u.
    pose proof (IHw Hn ch a Hin Ea t) as S. destruct (wsample w ch t) as [a'|]; [|contradiction].
    simpl in *. rewrite !Qred_correct, S. reflexivity.
Qed.

(* ---------------------------------------------------------------------------------------------------------- *)
(* H2. leaves *)
Definition lbase (w : wf) : Prop :=
  no_seq_rep w = true /\ 0 < wdur w /\
  forall d, wcvd w = Some d ->
    d <> [] /\ nodupb (map fst d) = true /\ (forall c, cmem c (map fst d) = cmem c (wchans w)) /\
    forall c v t, cassoc c d = Some v -> wsample w c t = Some v.
Definition not_rev (w : wf) : Prop := match w with WRev _ => False | _ => True end.
Definition leafL (w : wf) : Prop := match w with WRev x => lbase x /\ not_rev x | _ => lbase w end.

Lemma lbase_rev x : lbase x -> lbase (WRev x).
Proof. intros (A & B & _). split; [exact A|]. split; [exact B|]. intros d' H. simpl in H. discriminate. Qed.

Lemma leafL_lbase w : leafL w -> lbase w.
Proof. destruct w; simpl; auto. intros (H & _). apply lbase_rev. exact H. Qed.

Lemma leafL_reversed w : leafL w -> leafL (wreversed w).
Proof.
  destruct w; simpl; auto.
  intros (H & N). destruct w; simpl in *; auto; contradiction.
Qed.

Lemma leafL_LeafG C w : leafL w -> chans_same (wchans w) C -> LeafG C w.
Proof.
  intros HL Hc. apply leafL_lbase in HL. destruct HL as (Hn & Hp & Hd). split; [exact Hp|]. split.
  - assert (Hcc : Cc C w).
    { intros c v Hin Hw t _ _. apply leaf_wcv; auto. rewrite (Hc c). exact Hin. }
    destruct w; auto. simpl in Hn. discriminate.
  - intros d Ed. destruct (Hd d Ed) as (A & B & K & V). repeat split; auto.
    + intro c. rewrite K. apply Hc.
    + intros c v t Hcv. rewrite (V c v t Hcv). reflexivity.
Qed.

Lemma no_seq_rep_multi_const dur : forall d : cdict, no_seq_rep (WMulti (map (fun kv => WConst dur (fst kv) (snd kv)) d)) = true.
Proof. induction d as [|kv d IH]; simpl in *; auto. Qed.

Lemma from_mapping_lbase dur d : 0 < dur -> d <> [] -> nodupb (map fst d) = true -> lbase (from_mapping dur d).
Proof.
  intros Hp Hne Hn. split; [|split].
  - destruct d as [|[k v] [|kv r]]; try reflexivity. unfold from_mapping. apply no_seq_rep_multi_const.
  - rewrite from_mapping_dur; auto.
  - intros d' Hd'. rewrite from_mapping_wcvd in Hd' by assumption. inversion Hd'; subst d'.
    repeat split; auto.
    + intro c. rewrite from_mapping_chans. reflexivity.
    + intros c v t Hcv. rewrite from_mapping_sample by (eapply cassoc_keys_some; eauto). exact Hcv.
Qed.

Lemma from_mapping_not_rev dur d : not_rev (from_mapping dur d).
Proof. destruct d as [|[k v] [|kv r]]; exact I. Qed.

(* the leaf emitted for an atom *)
Lemma emit_leaf w p gt : wmatch w p -> no_seq_rep w = true -> not_rev w ->
  exists x, atomic_emit (Some w) gt = [Leaf 1 x] /\ leafL x.
Proof.
  intros (HL & HC) Hn Hr. pose proof HL as (Ld & Lp & Lc & Ls).
  assert (Hpos : 0 < wdur w) by (rewrite Ld; exact Lp).
  unfold atomic_emit. destruct gt as [tr|].
  - unfold from_transformation. destruct (wcvd w) as [d|] eqn:Ed.
    + destruct HC as (Hne & Hnd & Hk & Hv).
      set (X := trafo_apply tr (cdict_data d)).
      destruct (trafo_keep tr (cdict_data d) (cdict_data_all_some d)) as (XA & XN).
      { rewrite cdict_data_keys. exact Hnd. }
      fold X in XA, XN.
      assert (Hne' : data_cdict X <> []).
      { destruct d as [|[k v] d]; [congruence|]. intro E.
        assert (K : cmem k (map fst (data_cdict X)) = true).
        { rewrite data_cdict_keys by exact XA. unfold X. rewrite keys_trafo, cdict_data_keys. simpl.
          rewrite chan_eqb_refl. reflexivity. }
        rewrite E in K. discriminate. }
      assert (Hn' : nodupb (map fst (data_cdict X)) = true) by (rewrite data_cdict_keys; auto).
      rewrite from_mapping_wcvd by assumption. rewrite from_mapping_dur by assumption. cbv iota.
      eexists. split; [reflexivity|].
      pose proof (from_mapping_lbase (wdur w) (data_cdict X) Hpos Hne' Hn') as B.
      pose proof (from_mapping_not_rev (wdur w) (data_cdict X)) as R.
      destruct (from_mapping (wdur w) (data_cdict X)); auto. contradiction.
    + cbv iota. change (wcvd (WTrans w tr)) with (@None cdict). cbv iota.
      eexists. split; [reflexivity|]. simpl. split; [exact Hn|]. split; [exact Hpos|]. intros d' H. discriminate.
  - destruct (wcvd w) as [d|] eqn:Ed.
    + destruct HC as (Hne & Hnd & Hk & Hv).
      eexists. split; [reflexivity|].
      pose proof (from_mapping_lbase (wdur w) d Hpos Hne Hnd) as B.
      pose proof (from_mapping_not_rev (wdur w) d) as R.
      destruct (from_mapping (wdur w) d); auto. contradiction.
    + eexists. split; [reflexivity|].
      assert (B : lbase w) by (split; [exact Hn|split; [exact Hpos|intros d' H; congruence]]).
      destruct w; auto. contradiction.
Qed.

(* ---------------------------------------------------------------------------------------------------------- *)
(* the shape of what build_waveform returns for ConstantPT / TablePT / PointPT *)
Lemma from_parallel_shape ws w : Forall table_shape ws -> from_parallel ws = Ok w -> no_seq_rep w = true /\ not_rev w.
Proof.
  intros Hs Hp. assert (Hall : Forall (fun x => no_seq_rep x = true /\ not_rev x) ws).
  { clear Hp. induction Hs as [|x r Hx _ IH]; constructor; auto.
    destruct Hx as [(d & c & v & E)|(c & l & E)]; subst; split; simpl; auto. }
  destruct ws as [|w1 [|w2 r]].
  - simpl in Hp. discriminate.
  - simpl in Hp. inversion Hp; subst. inversion Hall; auto.
  - unfold from_parallel in Hp. rewrite flat_multi_id in Hp by exact Hs. unfold mk_multi in Hp.
    match type of Hp with (if ?X then _ else _) = _ => destruct X end; [|discriminate]. inversion Hp; subst w.
    split; [|exact I]. clear - Hall. induction Hall as [|x r' (Hx & _) _ IH]; [reflexivity|].
    rewrite no_seq_rep_multi_cons, Hx. exact IH.
Qed.

Lemma rmap_from_table_shape : forall kept ws,
  rmap (fun ce : chan * list tentry => from_table (fst ce) (snd ce)) kept = Ok ws -> Forall table_shape ws.
Proof.
  induction kept as [|[m tbl] kept IH]; intros ws H; simpl in H.
  - inversion H. constructor.
  - destruct (from_table m tbl) as [w|e] eqn:E; simpl in H; [|discriminate].
    match type of H with (bind ?X _) = _ => destruct X as [ws'|e] eqn:E' end; simpl in H; [|discriminate].
    inversion H; subst. constructor; eauto using from_table_shape.
Qed.

Lemma simple_atom_shape a s cm w : simple_atom a = true -> build_waveform a s cm = Ok (Some w) ->
  no_seq_rep w = true /\ not_rev w.
Proof.
  destruct a; simpl simple_atom; intro Hs; try discriminate; intro Hb.
  - (* constant *)
    change (build_const s cm d amps = Ok (Some w)) in Hb. unfold build_const in Hb.
    destruct (evals s d) as [dv|e]; [|discriminate]. unfold bind in Hb at 1.
    destruct (Qltb' 0 dv); [|discriminate].
    match type of Hb with (bind ?X _) = _ => destruct X as [vals|e] end; [|discriminate]. unfold bind in Hb.
    destruct vals as [|kv vals]; [discriminate|].
    assert (E : w = from_mapping dv (kv :: vals)) by (inversion Hb; reflexivity). subst w.
    split; [|apply from_mapping_not_rev].
    destruct kv as [k v]. destruct vals as [|kv r]; [reflexivity|]. unfold from_mapping. apply no_seq_rep_multi_const.
  - (* table *)
    change (build_table s cm chs = Ok (Some w)) in Hb. rewrite build_table_unfold in Hb.
    destruct (tbl_inst s chs) as [inst|e]; [|discriminate]. unfold bind in Hb at 1.
    destruct (Qeq_bool (tbl_dur inst) 0); [discriminate|].
    destruct (keptm cm (tbl_dur inst) inst) as [|k0 kr] eqn:Ek; [discriminate|]. rewrite <- Ek in Hb.
    destruct (rmap (fun ce : chan * list tentry => from_table (fst ce) (snd ce)) (keptm cm (tbl_dur inst) inst)) as [ws|e] eqn:Er;
      [|discriminate].
    unfold bind in Hb at 1. destruct (from_parallel ws) as [w'|e] eqn:Ep; [|discriminate]. inversion Hb; subst w'.
    apply (from_parallel_shape ws w); [eapply rmap_from_table_shape; exact Er|exact Ep].
  - (* point *)
    change (build_point s cm entries chs = Ok (Some w)) in Hb. rewrite build_point_unfold in Hb.
    destruct (all_dropped cm chs); [discriminate|].
    destruct (pt_dur s entries) as [dur|e]; [|discriminate]. unfold bind in Hb at 1.
    destruct (Qeq_bool dur 0); [discriminate|].
    destruct (pt_rows s entries) as [inst|e]; [|discriminate]. unfold bind in Hb at 1.
    destruct (rmap (fun ce : chan * list tentry => from_table (fst ce) (snd ce)) (pt_keptm cm chs inst)) as [ws|e] eqn:Er;
      [|discriminate].
    unfold bind in Hb at 1. destruct (from_parallel ws) as [w'|e] eqn:Ep; [|discriminate]. inversion Hb; subst w'.
    apply (from_parallel_shape ws w); [eapply rmap_from_table_shape; exact Er|exact Ep].
Qed.

(* ---------------------------------------------------------------------------------------------------------- *)
(* H3. the structure of the program trees built by _create_program *)
Fixpoint lstruct (l : loop) : Prop :=
  match l with
  | Leaf n w => n = 1%Z /\ leafL w
  | Nest n cs => (1 <= n)%Z /\ cs <> [] /\
                 (fix all (cs : list loop) : Prop := match cs with [] => True | x :: r => lstruct x /\ all r end) cs
  end.

Definition lall : list loop -> Prop :=
  fix all (cs : list loop) : Prop := match cs with [] => True | x :: r => lstruct x /\ all r end.

Lemma lall_Forall cs : lall cs <-> Forall lstruct cs.
Proof.
  induction cs as [|x r IH]; simpl; split; intro H; auto.
  - destruct H as (A & B). constructor; auto. apply IH. exact B.
  - inversion H; subst. split; auto. apply IH. assumption.
Qed.

Lemma lstruct_nest n cs : lstruct (Nest n cs) <-> (1 <= n)%Z /\ cs <> [] /\ Forall lstruct cs.
Proof. change (lstruct (Nest n cs)) with ((1 <= n)%Z /\ cs <> [] /\ lall cs). rewrite lall_Forall. tauto. Qed.

Definition rev_children : list loop -> list loop :=
  fix go (cs : list loop) : list loop := match cs with [] => [] | x :: r => go r ++ [reverse_loop x] end.

Lemma reverse_loop_nest n cs : reverse_loop (Nest n cs) = Nest n (rev_children cs).
Proof. reflexivity. Qed.

Lemma lstruct_reverse : forall l, lstruct l -> lstruct (reverse_loop l).
Proof.
  induction l using loop_ind2; intro Hl.
  - destruct Hl as (A & B). simpl. split; auto. apply leafL_reversed. exact B.
  - rewrite reverse_loop_nest. apply lstruct_nest in Hl. destruct Hl as (A & B & D). apply lstruct_nest.
    split; auto. split.
    + destruct cs as [|x r]; [congruence|]. simpl. intro E. apply app_eq_nil in E. destruct E; discriminate.
    + clear A B. induction H as [|x r Hx _ IH]; simpl; [constructor|]. inversion D; subst.
      apply Forall_app. split; auto.
Qed.

Lemma cp_struct : forall p, simple_atoms p = true -> forall s cm gt cs,
  guard_C01_tables p s cm = true -> cp p s cm gt = Ok cs -> Forall lstruct cs.
Proof.
  induction p using pt_ind2; intros Hsa s cm gt cs Ht Hcp.
  - (* atom *)
    simpl in *. destruct (build_waveform a s cm) as [ow|e] eqn:E; simpl in Hcp; [|discriminate].
    inversion Hcp; subst cs. destruct ow as [w|]; [|constructor].
    destruct (atom_sem_simple a Hsa s cm (Some w) Ht E) as (op & _ & Hm).
    destruct op as [p|]; [|contradiction]. simpl in Hm.
    destruct (simple_atom_shape a s cm w Hsa E) as (Hn & Hr).
    destruct (emit_leaf w p gt Hm Hn Hr) as (x & Ex & Lx). rewrite Ex. constructor; [|constructor]. split; auto.
  - (* sequence *)
    revert cs Hsa Ht Hcp. induction H as [|x r Hx _ IH]; intros cs Hsa Ht Hcp.
    + simpl in Hcp. inversion Hcp. constructor.
    + simpl in Hsa, Ht, Hcp. apply andb_prop in Hsa as (S1 & S2). apply andb_prop in Ht as (T1 & T2).
      destruct (cp x s cm gt) as [a|e] eqn:E1; simpl in Hcp; [|discriminate].
      match type of Hcp with (bind ?X _) = _ => destruct X as [b|e] eqn:E2 end; simpl in Hcp; [|discriminate].
      inversion Hcp; subst. apply Forall_app. split; [eapply Hx; eauto|apply IH; auto].
  - (* repetition *)
    simpl in *. destruct (evals s n) as [v|e]; simpl in *; [|discriminate].
    destruct (to_int ENotInt v) as [k|e]; simpl in *; [|discriminate].
    destruct (k <=? 0)%Z eqn:Ek; [inversion Hcp; constructor|].
    destruct (cp p s cm gt) as [cs'|e] eqn:E; simpl in Hcp; [|discriminate].
    pose proof (IHp Hsa s cm gt cs' Ht E) as HF.
    destruct cs' as [|c0 cr]; inversion Hcp; subst; constructor; [|constructor].
    apply lstruct_nest. split; [apply Z.leb_gt in Ek; lia|]. split; [discriminate|exact HF].
  - (* for loop *)
    simpl in *. unfold evals in *.
    destruct (eval (lookup s) a) as [va|e]; simpl in *; [|discriminate].
    destruct (to_int EValue va) as [ka|e]; simpl in *; [|discriminate].
    destruct (eval (lookup s) b) as [vb|e]; simpl in *; [|discriminate].
    destruct (to_int EValue vb) as [kb|e]; simpl in *; [|discriminate].
    destruct (eval (lookup s) c) as [vc|e]; simpl in *; [|discriminate].
    destruct (to_int EValue vc) as [kc|e]; simpl in *; [|discriminate].
    destruct (kc =? 0)%Z; [discriminate|].
    revert cs Hcp Ht. generalize (zrange ka kb kc) as rng. induction rng as [|j r IH]; intros cs Hcp Ht.
    + inversion Hcp. constructor.
    + simpl in Ht. apply andb_prop in Ht as (T1 & T2).
      destruct (cp p (SRange s i j) cm gt) as [x|e] eqn:E1; simpl in Hcp; [|discriminate].
      match type of Hcp with (bind ?X _) = _ => destruct X as [y|e] eqn:E2 end; simpl in Hcp; [|discriminate].
      inversion Hcp; subst. apply Forall_app. split; [eapply IHp; eauto|apply IH; auto].
  - (* mapping *) simpl in *. eapply IHp; eauto.
  - (* time reversal *)
    simpl in *. destruct (cp p s cm gt) as [cs'|e] eqn:E; simpl in Hcp; [|discriminate].
    pose proof (IHp Hsa s cm gt cs' Ht E) as HF.
    destruct cs' as [|c0 cr]; inversion Hcp; subst; constructor; [|constructor].
    apply (lstruct_reverse (Nest 1 (c0 :: cr))). apply lstruct_nest. split; [lia|]. split; [discriminate|exact HF].
  - (* parallel channel *)
    simpl in *. destruct (par_values (lookup s) cm ow []) as [vals|e]; simpl in *; [|discriminate].
    eapply IHp; eauto.
  - (* scalar arithmetic *)
    simpl in *.
    match type of Hcp with (bind ?X _) = _ => destruct X as [[]|e] end; simpl in Hcp; [|discriminate].
    destruct (arith_trafo (lookup s) cm l op sc (pt_chans p)) as [tr|e]; simpl in *; [|discriminate].
    eapply IHp; eauto.
Qed.

Lemma Forall_flat_map_inv {A B} (P : B -> Prop) (f : A -> list B) : forall l, Forall P (flat_map f l) ->
  Forall (fun x => Forall P (f x)) l.
Proof.
  induction l as [|x r IH]; simpl; intro H; constructor.
  - apply Forall_app in H. tauto.
  - apply IH. apply Forall_app in H. tauto.
Qed.

Lemma lstruct_lgood C : forall l, lstruct l -> Forall (fun w => chans_same (wchans w) C) (flatten l) -> lgood C l.
Proof.
  induction l using loop_ind2; intros Hs Hc.
  - destruct Hs as (-> & HL). simpl. split; auto. apply leafL_LeafG; auto.
    change (flatten (Leaf 1 w)) with (repeat_app (Z.to_nat 1) [w]) in Hc. change (Z.to_nat 1) with 1%nat in Hc.
    simpl in Hc. inversion Hc; auto.
  - apply lstruct_nest in Hs. destruct Hs as (Hn & Hne & HF).
    change (lgood C (Nest n cs)) with ((1 <= n)%Z /\ cs <> [] /\
      (fix all (cs : list loop) : Prop := match cs with [] => True | x :: r => lgood C x /\ all r end) cs).
    split; auto. split; auto.
    rewrite flatten_nest in Hc. destruct (Z.to_nat n) as [|m] eqn:Em; [lia|]. cbn [repeat_app] in Hc.
    apply Forall_app in Hc. destruct Hc as (Hc & _). unfold flatten_list in Hc.
    apply Forall_flat_map_inv in Hc. clear Hn Hne Em.
    induction H as [|x r Hx _ IH]; [exact I|]. inversion HF; subst. inversion Hc; subst. split; [apply Hx; auto|apply IH; auto].
Qed.

Theorem sampling_create_program p env cm prog w C :
  simple_atoms p = true -> guard_C01_tables p (SDict env) (cm_of cm) = true ->
  create_program p env cm None = Ok (Some prog) -> to_waveform prog = Ok w ->
  Forall (fun x => chans_same (wchans x) C) (flatten prog) ->
  forall c t, cmem c C = true -> 0 <= t -> t < loop_dur prog -> oeq (sampled prog c t) (play prog c t).
Proof.
  intros Hsa Ht Hcp Hw Hch c t Hc H0 H1. unfold sampled. rewrite Hw.
  apply (sampling_sound C prog w); auto.
  apply lstruct_lgood; auto.
  unfold create_program in Hcp. destruct (cp p (SDict env) (cm_of cm) None) as [cs|e] eqn:E; simpl in Hcp; [|discriminate].
  pose proof (cp_struct p Hsa _ _ _ _ Ht E) as HF.
  destruct cs as [|c0 cr]; inversion Hcp; subst. apply lstruct_nest. split; [lia|]. split; [discriminate|exact HF].
Qed.
