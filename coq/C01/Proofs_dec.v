(* C01 — round 4: the repetition boundaries of the model are EXACT for every rational body duration (1/10, 1/3, ...):
   the k-th pass of a repeated waveform starts exactly at k * duration and restarts the body at local time 0.  This is
   the statement the decimal correspondence stream (Corr.CDec) checks the code against; a RepetitionWaveform that
   accumulates its boundaries in binary64 (0.1 + 0.1 + 0.1 > float(3/10), seeded change C01-5) violates it. *)
From Coq Require Import ZArith QArith Qround Qreduction List Bool Lia Lqa.
Require Import QV.common.Util QV.C01.Model.
Import ListNotations.
Open Scope Q_scope.
Arguments Qfloor : simpl never. Arguments inject_Z : simpl never.

Lemma floor_unique x k : inject_Z k <= x -> x < inject_Z k + 1 -> Qfloor x = k.
Proof.
  intros L U.
  pose proof (Qfloor_le x) as F1. pose proof (Qlt_floor x) as F2.
  rewrite inject_Z_plus in F2. change (inject_Z 1) with 1 in F2.
  assert (A : (k < Qfloor x + 1)%Z).
  { rewrite Zlt_Qlt. rewrite inject_Z_plus. change (inject_Z 1) with 1. lra. }
  assert (B : (Qfloor x < k + 1)%Z).
  { rewrite Zlt_Qlt. rewrite inject_Z_plus. change (inject_Z 1) with 1. lra. }
  lia.
Qed.

Theorem rep_restarts b n c k s : 0 < wdur b -> (0 <= k < n)%Z -> 0 <= s -> s < wdur b ->
  wsample (WRep b n) c (inject_Z k * wdur b + s) = wsample b c (Qred s).
Proof.
  intros Hb Hk H0 H1. cbn [wsample].
  destruct (Qle_bool (wdur b) 0) eqn:E.
  { apply Qle_bool_iff in E. lra. }
  assert (F : Qfloor ((inject_Z k * wdur b + s) / wdur b) = k).
  { apply floor_unique.
    - apply Qle_shift_div_l; [exact Hb|]. lra.
    - apply Qlt_shift_div_r; [exact Hb|]. lra. }
  rewrite F.
  replace ((0 <=? k)%Z && (k <? n)%Z) with true
    by (symmetry; apply andb_true_intro; split; [apply Z.leb_le|apply Z.ltb_lt]; lia).
  f_equal. apply Qred_complete. ring.
Qed.

Corollary rep_boundary b n c k : 0 < wdur b -> (0 <= k < n)%Z ->
  wsample (WRep b n) c (inject_Z k * wdur b) = wsample b c 0.
Proof.
  intros Hb Hk.
  assert (E : wsample (WRep b n) c (inject_Z k * wdur b) = wsample (WRep b n) c (inject_Z k * wdur b + 0)).
  { cbn [wsample]. destruct (Qle_bool (wdur b) 0); [reflexivity|].
    assert (G : Qfloor (inject_Z k * wdur b / wdur b) = Qfloor ((inject_Z k * wdur b + 0) / wdur b)).
    { apply Qfloor_comp. field. lra. }
    rewrite G. destruct ((0 <=? _)%Z && _); [|reflexivity].
    f_equal. apply Qred_complete. ring. }
  rewrite E. rewrite (rep_restarts b n c k 0 Hb Hk); [reflexivity|lra|exact Hb].
Qed.
