(* C01 — round 4: the repetition boundaries of the model are EXACT for every rational body duration (1/10, 1/3, ...):
   the k-th pass of a repeated waveform starts exactly at k * duration and restarts the body at local time 0.  This is
   the statement the decimal correspondence stream (Corr.CDec) checks the code against; a RepetitionWaveform that
   accumulates its boundaries in binary64 (0.1 + 0.1 + 0.1 > float(3/10), seeded change C01-5) violates it. *)
From Coq Require Import ZArith QArith Qround Qreduction List Bool Lia Lqa.
Require Import QV.common.Util QV.C01.Model QV.C01.Proofs QV.C01.Proofs_sampling.
Import ListNotations.
Open Scope Q_scope.
Arguments Qfloor : simpl never. Arguments inject_Z : simpl never.

Lemma floor_unique x k : inject_Z k <= x -> x < inject_Z k + 1 -> Qfloor x = k.
Proof.
  intros L U.
  pose proof (Qfloor_le x) as F1. pose proof (Qlt_floor x) as F2.
  rewrite inject_Z_plus in F2. change (inject_Z 1) with 1 in F2.
  assert (A : (k < Qfloor x + 1)%Z).
  { rewrite Zlt_Qlt. rewrite inject_Z_plus. change (inject_Z 1) with 1. lra. }
  assert (B : (Qfloor x < k + 1)%Z).
  { rewrite Zlt_Qlt. rewrite inject_Z_plus. change (inject_Z 1) with 1. lra. }
  lia.
Qed.

Theorem rep_restarts b n c k s : 0 < wdur b -> (0 <= k < n)%Z -> 0 <= s -> s < wdur b ->
  wsample (WRep b n) c (inject_Z k * wdur b + s) = wsample b c (Qred s).
Proof.
  intros Hb Hk H0 H1. cbn [wsample].
  destruct (Qle_bool (wdur b) 0) eqn:E.
  { apply Qle_bool_iff in E. lra. }
  assert (F : Qfloor ((inject_Z k * wdur b + s) / wdur b) = k).
  { apply floor_unique.
    - apply Qle_shift_div_l; [exact Hb|]. lra.
    - apply Qlt_shift_div_r; [exact Hb|]. lra. }
  rewrite F.
  replace ((0 <=? k)%Z && (k <? n)%Z) with true
    by (symmetry; apply andb_true_intro; split; [apply Z.leb_le|apply Z.ltb_lt]; lia).
  f_equal. apply Qred_complete. ring.
Qed.

Corollary rep_boundary b n c k : 0 < wdur b -> (0 <= k < n)%Z ->
  wsample (WRep b n) c (inject_Z k * wdur b) = wsample b c 0.
Proof.
  intros Hb Hk.
  assert (E : wsample (WRep b n) c (inject_Z k * wdur b) = wsample (WRep b n) c (inject_Z k * wdur b + 0)).
  { cbn [wsample]. destruct (Qle_bool (wdur b) 0); [reflexivity|].
    assert (G : Qfloor (inject_Z k * wdur b / wdur b) = Qfloor ((inject_Z k * wdur b + 0) / wdur b)).
    { apply Qfloor_comp. field. lra. }
    rewrite G. destruct ((0 <=? _)%Z && _); [|reflexivity].
    f_equal. apply Qred_complete. ring. }
  rewrite E. rewrite (rep_restarts b n c k 0 Hb Hk); [reflexivity|lra|exact Hb].
Qed.

(* ---- the same for sequences: a member of a SequenceWaveform starts exactly at the sum of the durations before it ---- *)
Lemma seq_sample_proper_t l : forall start c t t', t == t' -> seq_sample l start c t = seq_sample l start c t'.
Proof.
  induction l as [|x r IH]; intros start c t t' Ht; cbn [seq_sample]; auto.
  rewrite (Qle_bool_compat start start t t'), (Qltb'_compat t t' (Qred (start + wdur x)) (Qred (start + wdur x)));
    auto; try reflexivity.
  destruct (Qle_bool start t' && Qltb' t' (Qred (start + wdur x))).
  - apply wsample_proper. rewrite Ht. reflexivity.
  - apply IH. exact Ht.
Qed.

Lemma seq_sample_restarts pre : forall x post c s start,
  Forall (fun y => 0 <= wdur y) pre -> 0 <= s -> s < wdur x ->
  seq_sample (pre ++ x :: post) start c (start + sdur pre + s) = wsample x c (Qred s).
Proof.
  induction pre as [|y pre IH]; intros x post c s start Hpre H0 H1.
  - cbn [app seq_sample].
    assert (A : Qle_bool start (start + sdur [] + s) = true).
    { apply Qle_bool_iff. rewrite sdur_nil. lra. }
    assert (B : Qltb' (start + sdur [] + s) (Qred (start + wdur x)) = true).
    { apply Qltb'_true. rewrite Qred_correct, sdur_nil. lra. }
    rewrite A, B. cbn [andb]. f_equal. apply Qred_complete. rewrite sdur_nil. ring.
  - inversion Hpre as [|? ? Hy Hpre']; subst.
    assert (Hs : 0 <= sdur pre).
    { clear - Hpre'. induction Hpre' as [|z l Hz _ IHl]; [rewrite sdur_nil; lra|rewrite sdur_cons; lra]. }
    cbn [app seq_sample].
    assert (B : Qltb' (start + sdur (y :: pre) + s) (Qred (start + wdur y)) = false).
    { apply Qltb'_false. rewrite Qred_correct, sdur_cons. lra. }
    rewrite B, andb_false_r.
    rewrite <- (IH x post c s (Qred (start + wdur y)) Hpre' H0 H1).
    apply seq_sample_proper_t. rewrite Qred_correct, sdur_cons. ring.
Qed.

Theorem seq_restarts pre x post c s :
  Forall (fun y => 0 <= wdur y) pre -> 0 <= s -> s < wdur x ->
  wsample (WSeq (pre ++ x :: post)) c (sdur pre + s) = wsample x c (Qred s).
Proof.
  intros Hpre H0 H1. rewrite wsample_seq.
  rewrite <- (seq_sample_restarts pre x post c s 0 Hpre H0 H1).
  apply seq_sample_proper_t. ring.
Qed.
