(* C01 — round 2 assembly: trees whose atoms are ConstantPT / TablePT / PointPT need no atomic hypothesis; the refuted
   table class (triple final time point under time reversal) *)
From Coq Require Import ZArith QArith Qround List Bool Lia Lqa Setoid.
Require Import QV.common.Util QV.C01.Model QV.C01.Spec QV.C01.Proofs QV.C01.ProofsDefs QV.C01.Proofs_trafo
        QV.C01.Proofs_table QV.C01.Proofs_comp QV.C01.Proofs_atoms.
Import ListNotations.
Open Scope Q_scope.

(* the atomic obligation that is still a hypothesis: only AtomicMultiChannelPT / ArithmeticAtomicPT atoms *)
Fixpoint atoms_rest (p : pt) : Prop :=
  match p with
  | PAtom a => if simple_atom a then True else atom_sem a
  | PSeq l => (fix go (l : list pt) : Prop := match l with [] => True | x :: r => atoms_rest x /\ go r end) l
  | PRep _ b => atoms_rest b
  | PFor _ _ _ _ b => atoms_rest b
  | PMap _ _ b => atoms_rest b
  | PRev b => atoms_rest b
  | PPar b _ => atoms_rest b
  | PArith _ _ _ b => atoms_rest b
  end.

Lemma atoms_rest_sem : forall p, atoms_rest p -> atoms_sem p.
Proof.
  induction p using pt_ind2; simpl; auto.
  - destruct (simple_atom a) eqn:E; auto. intros _. apply atom_sem_simple. exact E.
  - induction H as [|x r Hx _ IH]; simpl; auto. intros (A & B). split; [auto|apply IH; exact B].
Qed.

(* every atom of the tree is a ConstantPT, TablePT or PointPT *)
Fixpoint simple_atoms (p : pt) : bool :=
  match p with
  | PAtom a => simple_atom a
  | PSeq l => (fix go (l : list pt) : bool := match l with [] => true | x :: r => simple_atoms x && go r end) l
  | PRep _ b => simple_atoms b
  | PFor _ _ _ _ b => simple_atoms b
  | PMap _ _ b => simple_atoms b
  | PRev b => simple_atoms b
  | PPar b _ => simple_atoms b
  | PArith _ _ _ b => simple_atoms b
  end.

Lemma simple_atoms_rest : forall p, simple_atoms p = true -> atoms_rest p.
Proof.
  induction p using pt_ind2; simpl; auto.
  - intro E. rewrite E. exact I.
  - induction H as [|x r Hx _ IH]; simpl; auto. intro E. apply andb_prop in E as (A & B). split; [auto|apply IH; exact B].
Qed.

(* ---- refuted: TableWaveform._validate_input drops the middle of three entries at the final time; under time
        reversal the changed end value is played at t = 0 ---- *)
Definition witness_final_triple : pt :=
  PRev (PAtom (ATable [(ChS 1, [(EC 0, EC 0, Hold); (EC 1, EC 1, Hold); (EC 1, EC (2 # 1), Hold); (EC 1, EC (3 # 1), Hold)])])).

Lemma final_triple_play_refuted :
  exists prog pcs, create_program witness_final_triple [] [] None = Ok (Some prog) /\
                   denote_top witness_final_triple [] [] = Ok pcs /\
                   Qeq_bool (total pcs) 1 = true /\
                   play prog (ChS 1) 0 = Some 1 /\ at_ pcs (ChS 1) 0 = Some (2 # 1) /\
                   guard_C01_par_order false witness_final_triple = true /\
                   guard_C01_tables witness_final_triple (SDict []) (cm_of []) = false.
Proof.
  eexists. eexists. split; [vm_compute; reflexivity|]. split; [vm_compute; reflexivity|].
  vm_compute. repeat split; reflexivity.
Qed.
