(* C01 — the atomic obligation `atom_sem` discharged: ConstantPT (any number of channels), TablePT, PointPT *)
From Coq Require Import ZArith QArith Qround List Bool Lia Lqa Setoid.
Require Import QV.common.Util QV.C01.Model QV.C01.Spec QV.C01.Proofs QV.C01.ProofsDefs QV.C01.Proofs_trafo
        QV.C01.Proofs_table QV.C01.Proofs_comp.
Import ListNotations.
Open Scope Q_scope.
Arguments Qred : simpl never.  Arguments Qplus : simpl never.  Arguments Qminus : simpl never.
Arguments Qmult : simpl never. Arguments Qdiv : simpl never.   Arguments Qopp : simpl never.
Arguments Qinv : simpl never.  Arguments Qle_bool : simpl never. Arguments Qeq_bool : simpl never.
Arguments Qfloor : simpl never. Arguments inject_Z : simpl never. Arguments Z.to_nat : simpl never.

(* ---------------------------------------------------------------------------------------------------------- *)
(* dictionaries built with cupdate *)
Definition upd (a : cdict) (kv : chan * Q) : cdict := cupdate (fst kv) (snd kv) a.

Lemma cassoc_cupdate {A} c k (v : A) : forall l, cassoc c (cupdate k v l) = if chan_eqb c k then Some v else cassoc c l.
Proof.
  induction l as [|[k' w] l IH]; simpl.
  - reflexivity.
  - destruct (chan_eqb k k') eqn:E.
    + apply chan_eqb_eq in E. subst k'. simpl. destruct (chan_eqb c k); reflexivity.
    + simpl. rewrite IH. destruct (chan_eqb c k') eqn:E'; auto.
      apply chan_eqb_eq in E'. subst k'. rewrite (chan_eqb_sym c k), E. reflexivity.
Qed.

Lemma cassoc_app {A} c (a b : list (chan * A)) :
  cassoc c (a ++ b) = match cassoc c a with Some v => Some v | None => cassoc c b end.
Proof. induction a as [|[k v] a IH]; simpl; auto. destruct (chan_eqb c k); auto. Qed.

Lemma fold_upd_cassoc c : forall (l : cdict) a,
  cassoc c (fold_left upd l a) = match cassoc c (rev l) with Some v => Some v | None => cassoc c a end.
Proof.
  induction l as [|[k v] l IH]; intros a; simpl; auto.
  rewrite IH, cassoc_app. destruct (cassoc c (rev l)); auto.
  unfold upd. simpl. rewrite cassoc_cupdate. destruct (chan_eqb c k); reflexivity.
Qed.

Lemma fold_upd_nodup : forall (l : cdict) a, nodupb (map fst a) = true -> nodupb (map fst (fold_left upd l a)) = true.
Proof. induction l as [|kv l IH]; intros a H; simpl; auto. apply IH. apply nodup_cupdate. exact H. Qed.

Lemma fold_upd_keys c : forall (l : cdict) a,
  cmem c (map fst (fold_left upd l a)) = cmem c (map fst a) || cmem c (map fst l).
Proof.
  induction l as [|[k v] l IH]; intros a; simpl.
  - rewrite orb_false_r. reflexivity.
  - rewrite IH. unfold upd. simpl. rewrite keys_cupdate. destruct (cmem k (map fst a)) eqn:E.
    + destruct (chan_eqb c k) eqn:E'; simpl; auto. apply chan_eqb_eq in E'. subst. rewrite E. reflexivity.
    + rewrite cmem_app. simpl. rewrite orb_false_r, orb_assoc. reflexivity.
Qed.

Lemma cassoc_some_keys {A} c : forall (d : list (chan * A)) v, cassoc c d = Some v -> cmem c (map fst d) = true.
Proof.
  induction d as [|[k w] d IH]; simpl; intros v H; [discriminate|].
  destruct (chan_eqb c k); simpl; eauto.
Qed.

(* ---------------------------------------------------------------------------------------------------------- *)
(* ConstantPT *)
Definition kept_amps (cm : chanmap) (amps : list (chan * expr)) : list (chan * expr) :=
  flat_map (fun ce => match cm (fst ce) with Some m => [(m, snd ce)] | None => [] end) amps.

Lemma const_go_spec (s : scope) (cm : chanmap) : forall amps acc vals,
  (fix go (l : list (chan * expr)) (acc : cdict) : result cdict :=
     match l with
     | [] => Ok acc
     | (c, e) :: r => match cm c with
                      | Some m => v <- evals s e ;; go r (cupdate m v acc)
                      | None => go r acc
                      end
     end) amps acc = Ok vals ->
  exists vals', rmap (fun ce => v <- eval (lookup s) (snd ce) ;; Ok (fst ce, v)) (kept_amps cm amps) = Ok vals' /\
                vals = fold_left upd vals' acc.
Proof.
  induction amps as [|[c e] amps IH]; intros acc vals H.
  - inversion H; subst. exists []. split; reflexivity.
  - unfold kept_amps. simpl. destruct (cm c) as [m|].
    + unfold evals in H. simpl. destruct (eval (lookup s) e) as [v|er]; simpl in *; [|discriminate].
      destruct (IH _ _ H) as (vals' & Hr & Hv). fold (kept_amps cm amps). rewrite Hr. simpl.
      exists ((m, v) :: vals'). split; auto.
    + simpl. apply IH. exact H.
Qed.

Lemma atom_sem_const d amps : atom_sem (AConst d amps).
Proof.
  intros s cm ow _ Hb. simpl in Hb. unfold build_const, evals in Hb. simpl denote_atom.
  destruct (eval (lookup s) d) as [dv|er]; simpl in *; [|discriminate].
  destruct (Qltb' 0 dv) eqn:Ed; [|inversion Hb; subst; exists None; split; [reflexivity|exact I]].
  match type of Hb with (bind ?X _) = _ => destruct X as [vals|er] eqn:Eg end; simpl in Hb; [|discriminate].
  apply const_go_spec in Eg. destruct Eg as (vals' & Hr & Hv).
  fold (kept_amps cm amps). rewrite Hr. simpl.
  assert (Hkeys : forall c, cmem c (map fst vals) = cmem c (map fst vals')).
  { intro c. rewrite Hv, fold_upd_keys. reflexivity. }
  assert (Hnd : nodupb (map fst vals) = true) by (rewrite Hv; apply fold_upd_nodup; reflexivity).
  assert (Hget : forall c, cassoc c vals = cassoc c (rev vals')).
  { intro c. rewrite Hv, fold_upd_cassoc. simpl. destruct (cassoc c (rev vals')); reflexivity. }
  destruct vals' as [|kv' vals'].
  - simpl in Hv. subst vals. inversion Hb; subst. exists None. split; [reflexivity|exact I].
  - assert (Hne : vals <> []).
    { intro E. pose proof (Hkeys (fst kv')) as K. rewrite E in K. simpl in K. rewrite chan_eqb_refl in K. discriminate. }
    assert (Hb' : ow = Some (from_mapping dv vals)) by (destruct vals; [congruence|inversion Hb; reflexivity]).
    subst ow. clear Hb.
    eexists. split; [reflexivity|]. apply Qltb'_true in Ed.
    match goal with |- omatch (Some ?w) (Some ?p) => change (wmatch w p) end.
    split.
    + apply from_mapping_matches; auto.
      * reflexivity.
      * intros c v t Hc _ _. simpl. rewrite <- Hget, Hc. reflexivity.
    + rewrite from_mapping_wcvd by assumption. repeat split; auto.
      * intro c. rewrite from_mapping_chans. reflexivity.
      * intros c v t Hc. rewrite from_mapping_sample; auto. eapply cassoc_some_keys; eauto.
Qed.

(* ---------------------------------------------------------------------------------------------------------- *)
(* several single-channel table waveforms in parallel *)
Definition chan_rel (d : Q) (ce : chan * list tentry) (w : wf) : Prop :=
  wchans w = [fst ce] /\ wdur w == d /\
  (forall t, 0 <= t -> t <= d -> oeq (wsample w (fst ce) t) (table_fun (snd ce) t)) /\
  match wcvd w with
  | None => True
  | Some dd => exists v, dd = [(fst ce, v)] /\ forall t, wsample w (fst ce) t = Some v
  end.

Definition tables_val (kept : list (chan * list tentry)) (c : chan) (t : Q) : option Q :=
  match cassoc c kept with Some tbl => table_fun tbl t | None => None end.

Lemma multi_chans d : forall kept ws, Forall2 (chan_rel d) kept ws -> wchans (WMulti ws) = map fst kept.
Proof.
  induction 1 as [|ce w kept ws (Hc & _) _ IH]; [reflexivity|].
  simpl in *. rewrite Hc, IH. reflexivity.
Qed.

Lemma wsample_multi_cons w ws c t :
  wsample (WMulti (w :: ws)) c t = if cmem c (wchans w) then wsample w c t else wsample (WMulti ws) c t.
Proof. reflexivity. Qed.

Lemma multi_sample d c t : 0 <= t -> t <= d -> forall kept ws, Forall2 (chan_rel d) kept ws ->
  cmem c (map fst kept) = true -> oeq (wsample (WMulti ws) c t) (tables_val kept c t).
Proof.
  intros H0 H1. induction 1 as [|[m tbl] w kept ws (Hc & _ & Hs & _) _ IH]; intro Hin; [discriminate|].
  rewrite wsample_multi_cons. simpl in Hc. rewrite Hc. unfold tables_val. simpl.
  rewrite orb_false_r. simpl in Hin.
  destruct (chan_eqb c m) eqn:E.
  - apply chan_eqb_eq in E. subst. apply Hs; auto.
  - simpl in Hin. apply IH. exact Hin.
Qed.

Lemma wcvd_multi_cons w ws :
  wcvd (WMulti (w :: ws)) = match wcvd w, wcvd (WMulti ws) with
                            | Some a, Some b => Some (fold_left (fun acc kv => cupdate (fst kv) (snd kv) acc) b a)
                            | _, _ => None
                            end.
Proof. reflexivity. Qed.

Lemma multi_wcvd d : forall kept ws, Forall2 (chan_rel d) kept ws -> nodupb (map fst kept) = true ->
  match wcvd (WMulti ws) with
  | None => True
  | Some dd => map fst dd = map fst kept /\ forall c v t, cassoc c dd = Some v -> wsample (WMulti ws) c t = Some v
  end.
Proof.
  induction 1 as [|[m tbl] w kept ws (Hc & _ & _ & Hv) _ IH]; intro Hn.
  - simpl. split; auto; intros; discriminate.
  - simpl in Hn. apply andb_prop in Hn as (Hm & Hn). specialize (IH Hn).
    rewrite wcvd_multi_cons. destruct (wcvd w) as [a|]; [|exact I].
    destruct (wcvd (WMulti ws)) as [b|]; [|exact I].
    destruct Hv as (v0 & Ea & Hv0). destruct IH as (Kb & Sb). simpl in Ea, Hv0, Hc. subst a.
    rewrite fold_cupdate_fresh.
    + split; [simpl; rewrite Kb; reflexivity|].
      intros c v t Hcv. rewrite wsample_multi_cons, Hc. simpl in *. rewrite orb_false_r.
      destruct (chan_eqb c m) eqn:E.
      * apply chan_eqb_eq in E. subst. inversion Hcv; subst. apply Hv0.
      * apply Sb. exact Hcv.
    + rewrite Kb. exact Hn.
    + intros c Hcb. rewrite Kb in Hcb. simpl. rewrite orb_false_r.
      destruct (chan_eqb c m) eqn:E; auto. apply chan_eqb_eq in E. subst.
      apply negb_true_iff in Hm. congruence.
Qed.

(* from_parallel on single-channel table waveforms *)
Definition table_shape (w : wf) : Prop := (exists d c v, w = WConst d c v) \/ (exists c l, w = WTable c l).

Lemma from_table_shape c tbl w : from_table c tbl = Ok w -> table_shape w.
Proof.
  unfold from_table. destruct (validate_input tbl) as [[d v|l]|]; simpl; intro H; inversion H; [left|right]; eauto.
Qed.

Lemma flat_multi_id : forall ws, Forall table_shape ws ->
  flat_map (fun w => match w with WMulti l => l | _ => [w] end) ws = ws.
Proof.
  induction 1 as [|w ws Hw _ IH]; simpl; auto.
  rewrite IH. destruct Hw as [(d & c & v & E)|(c & l & E)]; subst; reflexivity.
Qed.

Lemma disjoint_nodup d : forall kept ws, Forall2 (chan_rel d) kept ws -> forall seen, disjoint_chans ws seen = true ->
  nodupb (map fst kept) = true /\ forall c, cmem c (map fst kept) = true -> cmem c seen = false.
Proof.
  induction 1 as [|[m tbl] w kept ws (Hc & _) _ IH]; intros seen H; simpl in *.
  - split; auto. intros; discriminate.
  - apply andb_prop in H as (H1 & H2). apply negb_true_iff in H1. rewrite Hc in H1, H2. simpl in H1.
    rewrite orb_false_r in H1. destruct (IH _ H2) as (N & D). split.
    + rewrite N, andb_true_r. apply negb_true_iff. destruct (cmem m (map fst kept)) eqn:E; auto.
      specialize (D m E). rewrite cmem_app in D. simpl in D. rewrite chan_eqb_refl in D.
      rewrite orb_true_r in D. discriminate.
    + intros c Hin. destruct (chan_eqb c m) eqn:E.
      * apply chan_eqb_eq in E. subst. exact H1.
      * simpl in Hin. specialize (D c Hin). rewrite cmem_app in D. apply orb_false_elim in D. tauto.
Qed.

Lemma tables_parallel d kept ws w :
  0 < d -> kept <> [] -> Forall2 (chan_rel d) kept ws -> Forall table_shape ws -> from_parallel ws = Ok w ->
  wmatch w (mkPiece d (map fst kept) (tables_val kept)).
Proof.
  intros Hd Hne HF Hsh Hp.
  destruct HF as [|[m tbl] w1 kept ws R1 HF]; [congruence|].
  destruct HF as [|ce2 w2 kept ws R2 HF].
  - (* one channel *)
    simpl in Hp. inversion Hp; subst w. destruct R1 as (Hc & Hdur & Hs & Hv). simpl in *.
    split.
    + repeat split; simpl; auto.
      * intro c. rewrite Hc. reflexivity.
      * intros c t Hin H0 H1. rewrite orb_false_r in Hin. apply chan_eqb_eq in Hin. subst c.
        unfold tables_val. simpl. rewrite chan_eqb_refl. apply Hs; auto.
    + destruct (wcvd w1) as [dd|]; [|exact I]. destruct Hv as (v & Edd & Hv). subst dd.
      split; [discriminate|]. split; [reflexivity|]. split; [intro c; rewrite Hc; reflexivity|].
      intros c v' t Hcv. simpl in Hcv. destruct (chan_eqb c m) eqn:E; [|discriminate].
      apply chan_eqb_eq in E. subst. inversion Hcv; subst. apply Hv.
  - (* several channels *)
    assert (HF' : Forall2 (chan_rel d) ((m, tbl) :: ce2 :: kept) (w1 :: w2 :: ws)) by (constructor; [exact R1|constructor; [exact R2|exact HF]]).
    unfold from_parallel in Hp. rewrite flat_multi_id in Hp by exact Hsh.
    unfold mk_multi in Hp.
    destruct (disjoint_chans (w1 :: w2 :: ws) []) eqn:Edis; simpl in Hp; [|discriminate].
    match type of Hp with (if ?X then _ else _) = _ => destruct X eqn:Edur end; [|discriminate].
    inversion Hp; subst w. clear Hp.
    destruct (disjoint_nodup d _ _ HF' [] Edis) as (Hn & _).
    pose proof (multi_chans d _ _ HF') as Hch.
    split.
    + repeat split; auto.
      * destruct R1 as (_ & Hdur & _). exact Hdur.
      * intro c. rewrite Hch. reflexivity.
      * intros c t Hin H0 H1. apply (multi_sample d c t H0 H1 _ _ HF'). exact Hin.
    + pose proof (multi_wcvd d _ _ HF' Hn) as Hw.
      destruct (wcvd (WMulti (w1 :: w2 :: ws))) as [dd|]; [|exact I]. destruct Hw as (Hk & Hv).
      split; [intro E; rewrite E in Hk; discriminate|]. split; [rewrite Hk; exact Hn|].
      split; [intro c; rewrite Hk, Hch; reflexivity|]. exact Hv.
Qed.

Lemma from_tables_rel d : forall kept ws,
  rmap (fun ce : chan * list tentry => from_table (fst ce) (snd ce)) kept = Ok ws ->
  forallb (fun ce => tbl_guard (snd ce)) kept = true ->
  (forall ce, In ce kept -> last_t (snd ce) == d) ->
  Forall2 (chan_rel d) kept ws /\ Forall table_shape ws /\ forallb (fun ce => table_ok (snd ce)) kept = true /\
  (kept <> [] -> 0 < d).
Proof.
  induction kept as [|[m tbl] kept IH]; intros ws Hr Hg Hl; simpl in Hr.
  - inversion Hr; subst. repeat split; auto. congruence.
  - destruct (from_table m tbl) as [w|er] eqn:Ef; simpl in Hr; [|discriminate].
    match type of Hr with (bind ?X _) = _ => destruct X as [ws'|er] eqn:Er end; simpl in Hr; [|discriminate].
    inversion Hr; subst ws. simpl in Hg. apply andb_prop in Hg as (Hg1 & Hg2).
    destruct (IH ws' eq_refl Hg2) as (A & B & C & _); [intros; apply Hl; right; auto|].
    destruct (from_table_core m tbl w Hg1 Ef) as (Hok & Hpos & Hdur & Hch & Hs & Hv).
    assert (Ed : last_t tbl == d) by (apply (Hl (m, tbl)); left; reflexivity).
    split; [|split; [|split]].
    + constructor; auto. unfold chan_rel. simpl. split; [exact Hch|]. split; [rewrite Hdur; exact Ed|]. split.
      * intros t H0 H1. apply Hs; auto. rewrite Ed. exact H1.
      * destruct (wcvd w); auto.
    + constructor; auto. eapply from_table_shape; eauto.
    + simpl. rewrite Hok. exact C.
    + intros _. rewrite <- Ed. exact Hpos.
Qed.

(* ---------------------------------------------------------------------------------------------------------- *)
(* TablePT *)
Definition qmaxf (a b : Q) : Q := if Qle_bool a b then b else a.

Lemma fold_max_ge : forall r a, a <= fold_left qmaxf r a /\ forall x, In x r -> x <= fold_left qmaxf r a.
Proof.
  induction r as [|b r IH]; intros a; simpl.
  - split; [lra|tauto].
  - destruct (IH (qmaxf a b)) as (A & B).
    assert (M : a <= qmaxf a b /\ b <= qmaxf a b).
    { unfold qmaxf. destruct (Qle_bool a b) eqn:E; [apply Qle_bool_iff in E|apply Qle_bool_false in E]; lra. }
    destruct M as (M1 & M2). split; [lra|]. intros x [<-|Hx]; [lra|auto].
Qed.

Lemma qmax_list_ge l x : In x l -> x <= qmax_list l.
Proof.
  destruct l as [|a r]; [intros []|]. unfold qmax_list. change (fun a b : Q => if Qle_bool a b then b else a) with qmaxf.
  destruct (fold_max_ge r a) as (A & B). intros [->|H]; auto.
Qed.

Lemma last_t_snoc l e : last_t (l ++ [e]) = et e.
Proof. unfold last_t. rewrite rev_app_distr. reflexivity. Qed.

Lemma pad_back_trail d tbl : tbl <> [] -> pad_back d tbl = trail d tbl.
Proof.
  intro H. unfold pad_back, trail, last_t, last_v. destruct (rev tbl) eqn:E; auto.
  apply (f_equal (@rev _)) in E. rewrite rev_involutive in E. simpl in E. contradiction.
Qed.

Lemma pad_back_last d tbl : last_t tbl <= d -> last_t (pad_back d tbl) == d.
Proof.
  intro H. unfold pad_back. destruct (Qltb' (last_t tbl) d) eqn:E.
  - rewrite last_t_snoc. reflexivity.
  - apply Qltb'_false in E. lra.
Qed.

Lemma from_table_nonempty m d : forall tbl w, from_table m (pad_back d tbl) = Ok w -> tbl <> [].
Proof.
  intros tbl w H E. subst tbl. unfold pad_back in H. destruct (Qltb' (last_t []) d); simpl in H.
  - unfold from_table, validate_input in H. simpl in H.
    destruct (negb (Qeq_bool d 0)); discriminate.
  - discriminate.
Qed.

Definition keptm (cm : chanmap) (d : Q) (inst : list (chan * list tentry)) : list (chan * list tentry) :=
  flat_map (fun ce => match cm (fst ce) with Some m => [(m, pad_back d (snd ce))] | None => [] end) inst.
Definition kepts (cm : chanmap) (d : Q) (tabs : list (chan * list tentry)) : list (chan * list tentry) :=
  kept_tables cm (map (fun ce => (fst ce, trail d (snd ce))) tabs).

Lemma kept_align cm d : forall inst,
  (keptm cm d inst = [] -> kepts cm d inst = []) /\
  (forall ws, rmap (fun ce : chan * list tentry => from_table (fst ce) (snd ce)) (keptm cm d inst) = Ok ws ->
              keptm cm d inst = kepts cm d inst).
Proof.
  unfold keptm, kepts, kept_tables. induction inst as [|[c tbl] inst (IH1 & IH2)]; simpl.
  - split; auto.
  - destruct (cm c) as [m|]; simpl.
    + split; [discriminate|]. intros ws H.
      destruct (from_table m (pad_back d tbl)) as [w|er] eqn:Ef; simpl in H; [|discriminate].
      match type of H with (bind ?X _) = _ => destruct X as [ws'|er] eqn:Er end; simpl in H; [|discriminate].
      rewrite (IH2 ws' eq_refl). rewrite pad_back_trail; auto. eapply from_table_nonempty; eauto.
    + split; auto.
Qed.

Lemma keptm_last cm d : forall inst, (forall ce, In ce inst -> last_t (snd ce) <= d) ->
  forall ce, In ce (keptm cm d inst) -> last_t (snd ce) == d.
Proof.
  unfold keptm. induction inst as [|[c tbl] inst IH]; intros Hl ce Hin; simpl in Hin; [contradiction|].
  apply in_app_or in Hin. destruct Hin as [Hin|Hin].
  - destruct (cm c) as [m|]; simpl in Hin; [|contradiction]. destruct Hin as [<-|[]]. simpl.
    apply pad_back_last. apply (Hl (c, tbl)). left. reflexivity.
  - apply IH; auto. intros; apply Hl; right; auto.
Qed.

Definition tbl_inst (s : scope) (chs : list (chan * list (expr * expr * interp))) : result (list (chan * list tentry)) :=
  rmap (fun ce => es <- inst_entries s (snd ce) ;; Ok (fst ce, pad_front es)) chs.
Definition tbl_dur (inst : list (chan * list tentry)) : Q := qmax_list (map (fun ce => last_t (snd ce)) inst).

Lemma denote_table_unfold s cm chs :
  denote_atom (ATable chs) (lookup s) cm =
  (tabs <- tbl_inst s chs ;;
   if Qeq_bool (tbl_dur tabs) 0 then Ok None else tables_piece (tbl_dur tabs) (kepts cm (tbl_dur tabs) tabs)).
Proof. reflexivity. Qed.

Lemma build_table_unfold s cm chs :
  build_table s cm chs =
  (inst <- tbl_inst s chs ;;
   if Qeq_bool (tbl_dur inst) 0 then Ok None else
   match keptm cm (tbl_dur inst) inst with
   | [] => Ok None
   | _ => ws <- rmap (fun ce : chan * list tentry => from_table (fst ce) (snd ce)) (keptm cm (tbl_dur inst) inst) ;;
          w <- from_parallel ws ;; Ok (Some w)
   end).
Proof. reflexivity. Qed.

Lemma table_inputs_unfold s cm chs :
  table_inputs s cm chs = (inst <- tbl_inst s chs ;; Ok (keptm cm (tbl_dur inst) inst)).
Proof. reflexivity. Qed.

Lemma atom_sem_table chs : atom_sem (ATable chs).
Proof.
  intros s cm ow Hg Hb.
  change (build_table s cm chs = Ok ow) in Hb. change (inputs_guard (table_inputs s cm chs) = true) in Hg.
  rewrite build_table_unfold in Hb. rewrite table_inputs_unfold in Hg. rewrite denote_table_unfold.
  destruct (tbl_inst s chs) as [inst|er]; [|discriminate].
  unfold bind in Hb at 1. unfold bind in Hg. unfold bind at 1. unfold inputs_guard in Hg.
  set (d := tbl_dur inst) in *.
  destruct (Qeq_bool d 0) eqn:Ed0.
  { inversion Hb; subst. exists None. split; [reflexivity|exact I]. }
  destruct (kept_align cm d inst) as (Hempty & Halign).
  destruct (keptm cm d inst) as [|k0 kr] eqn:Ek.
  { inversion Hb; subst. rewrite (Hempty eq_refl). exists None. split; [reflexivity|exact I]. }
  rewrite <- Ek in *.
  destruct (rmap (fun ce : chan * list tentry => from_table (fst ce) (snd ce)) (keptm cm d inst)) as [ws|er] eqn:Er;
    [|discriminate].
  unfold bind in Hb at 1.
  destruct (from_parallel ws) as [w|er] eqn:Ep; [|discriminate]. inversion Hb; subst ow.
  rewrite <- (Halign ws eq_refl).
  assert (Hlast : forall ce, In ce (keptm cm d inst) -> last_t (snd ce) == d).
  { apply keptm_last. intros ce Hin. unfold d, tbl_dur. apply qmax_list_ge. apply in_map_iff. exists ce. auto. }
  destruct (from_tables_rel d _ ws Er Hg Hlast) as (HF & Hsh & Hok & Hpos).
  assert (Hne : keptm cm d inst <> []) by (rewrite Ek; discriminate).
  unfold tables_piece. rewrite Hok.
  destruct (keptm cm d inst) as [|k0' kr'] eqn:Ek'; [congruence|].
  eexists. split; [reflexivity|].
  apply (tables_parallel d (k0' :: kr') ws w); auto.
Qed.

(* ---------------------------------------------------------------------------------------------------------- *)
(* PointPT *)
Definition pt_rows (s : scope) (entries : list (expr * list expr * interp)) : result (list (Q * list Q * interp)) :=
  rmap (fun e => t <- evals s (fst (fst e)) ;; vs <- rmap (evals s) (snd (fst e)) ;; Ok (t, vs, snd e)) entries.
Definition pt_front (tbl : list tentry) : list tentry :=
  match tbl with e :: _ => if Qltb' 0 (et e) then (0, ev e, ei e) :: tbl else tbl | [] => tbl end.
Definition pt_keptm (cm : chanmap) (chs : list chan) (inst : list (Q * list Q * interp)) : list (chan * list tentry) :=
  flat_map (fun ce : chan * list tentry => match cm (fst ce) with Some m => [(m, pt_front (snd ce))] | None => [] end)
           (map (fun k => (nth k chs (ChI 0), transpose_entries (length chs) k inst)) (seq 0 (length chs))).
Definition pt_dur (s : scope) (entries : list (expr * list expr * interp)) : result Q :=
  match rev entries with e :: _ => evals s (fst (fst e)) | [] => Err EValue end.
Definition pt_col (rows : list (Q * list Q * interp)) (k : nat) : list tentry :=
  map (fun row : Q * list Q * interp =>
         (fst (fst row), match snd (fst row) with [x] => x | vs => nth k vs 0 end, snd row)) rows.
Definition pt_kepts (cm : chanmap) (chs : list chan) (rows : list (Q * list Q * interp)) : list (chan * list tentry) :=
  kept_tables cm (map (fun k => (nth k chs (ChI 0), lead false (pt_col rows k))) (seq 0 (length chs))).
Definition all_dropped (cm : chanmap) (chs : list chan) : bool :=
  forallb (fun c => match cm c with None => true | Some _ => false end) chs.

Lemma build_point_unfold s cm entries chs :
  build_point s cm entries chs =
  (if all_dropped cm chs then Ok None else
   dur <- pt_dur s entries ;;
   if Qeq_bool dur 0 then Ok None else
   inst <- pt_rows s entries ;;
   ws <- rmap (fun ce : chan * list tentry => from_table (fst ce) (snd ce)) (pt_keptm cm chs inst) ;;
   w <- from_parallel ws ;; Ok (Some w)).
Proof. reflexivity. Qed.

Lemma denote_point_unfold s cm entries chs :
  denote_atom (APoint entries chs) (lookup s) cm =
  (if all_dropped cm chs then Ok None else
   d <- pt_dur s entries ;;
   if Qeq_bool d 0 then Ok None else
   rows <- pt_rows s entries ;;
   tables_piece d (pt_kepts cm chs rows)).
Proof. reflexivity. Qed.

Lemma point_inputs_unfold s cm entries chs :
  point_inputs s cm entries chs = (inst <- pt_rows s entries ;; Ok (pt_keptm cm chs inst)).
Proof. reflexivity. Qed.

Lemma transpose_col n k : forall inst, transpose_entries n k inst = pt_col inst k.
Proof.
  induction inst as [|[[t vs] i] inst IH]; simpl; auto. rewrite IH. destruct vs as [|x [|y l]]; reflexivity.
Qed.

Lemma pt_kept_same cm chs inst : pt_keptm cm chs inst = pt_kepts cm chs inst.
Proof.
  unfold pt_keptm, pt_kepts, kept_tables. generalize (seq 0 (length chs)) as ks.
  induction ks as [|k ks IH]; simpl; auto.
  rewrite IH, transpose_col. destruct (cm (nth k chs (ChI 0))); reflexivity.
Qed.

Lemma rmap_app {A B} (f : A -> result B) : forall l1 l2 r,
  rmap f (l1 ++ l2) = Ok r -> exists r1 r2, rmap f l1 = Ok r1 /\ rmap f l2 = Ok r2 /\ r = r1 ++ r2.
Proof.
  induction l1 as [|a l1 IH]; intros l2 r H; simpl in *.
  - exists [], r. auto.
  - destruct (f a) as [y|e]; simpl in *; [|discriminate].
    destruct (rmap f (l1 ++ l2)) as [ys|e] eqn:E; simpl in *; [|discriminate]. inversion H; subst.
    destruct (IH l2 ys E) as (r1 & r2 & H1 & H2 & H3). rewrite H1. simpl. exists (y :: r1), r2. subst. auto.
Qed.

Lemma pt_col_app a b k : pt_col (a ++ b) k = pt_col a k ++ pt_col b k.
Proof. unfold pt_col. apply map_app. Qed.

Lemma pt_rows_last s entries dur inst k :
  pt_dur s entries = Ok dur -> pt_rows s entries = Ok inst -> last_t (pt_col inst k) = dur /\ pt_col inst k <> [].
Proof.
  unfold pt_dur, pt_rows. intros Hd Hr. destruct (rev entries) as [|e r] eqn:E; [discriminate|].
  assert (Een : entries = rev r ++ [e]).
  { apply (f_equal (@rev _)) in E. rewrite rev_involutive in E. simpl in E. exact E. }
  rewrite Een in Hr. apply rmap_app in Hr. destruct Hr as (r1 & r2 & H1 & H2 & H3). subst inst.
  simpl in H2. rewrite Hd in H2. simpl in H2.
  destruct (rmap (evals s) (snd (fst e))) as [vs|er]; simpl in H2; [|discriminate]. inversion H2; subst r2.
  rewrite pt_col_app. simpl. split; [apply last_t_snoc|]. intro X. apply app_eq_nil in X. destruct X; discriminate.
Qed.

Lemma pt_front_last tbl : tbl <> [] -> last_t (pt_front tbl) = last_t tbl.
Proof.
  intro H. unfold pt_front. destruct tbl as [|e r]; auto. destruct (Qltb' 0 (et e)); auto.
  apply last_t_cons. discriminate.
Qed.

Lemma pt_keptm_last s cm chs entries dur inst :
  pt_dur s entries = Ok dur -> pt_rows s entries = Ok inst ->
  forall ce, In ce (pt_keptm cm chs inst) -> last_t (snd ce) == dur.
Proof.
  intros Hd Hr ce. unfold pt_keptm. generalize (seq 0 (length chs)) as ks.
  induction ks as [|k ks IH]; simpl; [tauto|]. intro Hin. apply in_app_or in Hin. destruct Hin as [Hin|Hin]; auto.
  destruct (cm (nth k chs (ChI 0))) as [m|]; simpl in Hin; [|contradiction]. destruct Hin as [<-|[]]. simpl.
  rewrite transpose_col. destruct (pt_rows_last s entries dur inst k Hd Hr) as (L & N).
  rewrite pt_front_last by exact N. rewrite L. reflexivity.
Qed.

Lemma atom_sem_point entries chs : atom_sem (APoint entries chs).
Proof.
  intros s cm ow Hg Hb.
  change (build_point s cm entries chs = Ok ow) in Hb.
  change (inputs_guard (point_inputs s cm entries chs) = true) in Hg.
  rewrite build_point_unfold in Hb. rewrite point_inputs_unfold in Hg. rewrite denote_point_unfold.
  destruct (all_dropped cm chs).
  { inversion Hb; subst. exists None. split; [reflexivity|exact I]. }
  destruct (pt_dur s entries) as [dur|er] eqn:Ed; [|discriminate].
  unfold bind in Hb at 1. unfold bind at 1.
  destruct (Qeq_bool dur 0).
  { inversion Hb; subst. exists None. split; [reflexivity|exact I]. }
  destruct (pt_rows s entries) as [inst|er] eqn:Er; [|discriminate].
  unfold bind in Hb at 1. unfold bind in Hg. unfold bind at 1. unfold inputs_guard in Hg.
  rewrite <- pt_kept_same.
  destruct (rmap (fun ce : chan * list tentry => from_table (fst ce) (snd ce)) (pt_keptm cm chs inst)) as [ws|er] eqn:Ew;
    [|discriminate].
  unfold bind in Hb at 1.
  destruct (from_parallel ws) as [w|er] eqn:Ep; [|discriminate]. inversion Hb; subst ow.
  destruct (from_tables_rel dur _ ws Ew Hg (pt_keptm_last s cm chs entries dur inst Ed Er)) as (HF & Hsh & Hok & Hpos).
  destruct (pt_keptm cm chs inst) as [|k0 kr] eqn:Ek.
  { inversion HF; subst. simpl in Ep. discriminate. }
  unfold tables_piece. rewrite Hok.
  eexists. split; [reflexivity|].
  apply (tables_parallel dur (k0 :: kr) ws w); auto; try discriminate. apply Hpos. discriminate.
Qed.

(* ---------------------------------------------------------------------------------------------------------- *)
(* the atom kinds whose obligation is discharged *)
Definition simple_atom (a : atom) : bool :=
  match a with AConst _ _ | ATable _ | APoint _ _ => true | _ => false end.

Lemma atom_sem_simple a : simple_atom a = true -> atom_sem a.
Proof.
  destruct a; simpl; intro H; try discriminate.
  - apply atom_sem_const.
  - apply atom_sem_table.
  - apply atom_sem_point.
Qed.
