(* C01 round 5 — what the operator table `arith_trafo` and `par_values` (Model.v) MEAN.  Spec.denote uses these two functions of
   Model.v (a scaling / offset / overwrite chain is both how the code works and how the denotation is written down); here the
   chain is related to the plain arithmetic on one sample, so that the shared functions are not taken on trust:
     pulse + s, s + pulse -> x + s     pulse - s -> x - s     s - pulse -> s - x     pulse * s, s * pulse -> x * s
     pulse / s -> x / s  (s <> 0)      s / pulse -> rejected
   for every kept channel of the pulse (scalar given as one expression), and for a parallel-channel node: the channel
   plays the value of the LAST entry that is mapped to it. *)
From Coq Require Import ZArith QArith Qround Qreduction List Bool Lia Lqa Setoid.
Require Import QV.common.Util QV.C01.Model QV.C01.Spec QV.C01.Proofs QV.C01.ProofsDefs QV.C01.Proofs_trafo.
Import ListNotations.
Open Scope Q_scope.
Arguments Qred : simpl never.  Arguments Qplus : simpl never.  Arguments Qminus : simpl never.
Arguments Qmult : simpl never. Arguments Qdiv : simpl never.   Arguments Qopp : simpl never.
Arguments Qinv : simpl never.

(* the mathematical meaning of `pulse op scalar` (lhs = true) / `scalar op pulse` (lhs = false) on one sample x *)
Definition scalar_meaning (lhs : bool) (op : sop) (x v : Q) : Q :=
  match op, lhs with
  | SAdd, _ => x + v
  | SSub, true => x - v
  | SSub, false => v - x
  | SMul, _ => x * v
  | SDiv, _ => x / v
  end.

Lemma cassoc_cupdate {A} c k (v : A) : forall l, cassoc c (cupdate k v l) = if chan_eqb c k then Some v else cassoc c l.
Proof.
  induction l as [|[k' w] l IH]; simpl.
  - destruct (chan_eqb c k); reflexivity.
  - destruct (chan_eqb k k') eqn:E.
    + apply chan_eqb_eq in E. subst k'. simpl. destruct (chan_eqb c k); reflexivity.
    + simpl. rewrite IH. destruct (chan_eqb c k') eqn:E'; auto.
      apply chan_eqb_eq in E'. subst k'. rewrite (chan_eqb_sym c k), E. reflexivity.
Qed.

(* the dictionary {mapped channel: v} of a scalar given as one expression: every kept channel of the pulse gets v *)
Lemma uniform_get (cm : chanmap) (v : Q) m : forall chans (acc : cdict),
  (cassoc m acc = Some v \/ exists c, In c chans /\ cm c = Some m) ->
  cassoc m (fold_left (fun acc c => match cm c with Some m' => cupdate m' v acc | None => acc end) chans acc) = Some v.
Proof.
  induction chans as [|c0 chans IH]; intros acc H; simpl.
  - destruct H as [H|(c & [] & _)]. exact H.
  - apply IH. destruct H as [H|(c & [Hc|Hc] & Hm)].
    + left. destruct (cm c0) as [m'|]; auto. rewrite cassoc_cupdate. destruct (chan_eqb m m'); auto.
    + subst c0. left. rewrite Hm. rewrite cassoc_cupdate, chan_eqb_refl. reflexivity.
    + right. exists c. auto.
Qed.

Lemma cassoc_In {A} m (v : A) : forall l, cassoc m l = Some v -> In (m, v) l.
Proof.
  induction l as [|[k w] l IH]; simpl; intros H; [discriminate H|].
  destruct (chan_eqb m k) eqn:E.
  - inversion H; subst. apply chan_eqb_eq in E. subst. left. reflexivity.
  - right. auto.
Qed.

Lemma cassoc_map_snd (f : Q -> Q) m : forall d : cdict,
  cassoc m (map (fun kv => (fst kv, f (snd kv))) d) = match cassoc m d with Some x => Some (f x) | None => None end.
Proof.
  induction d as [|[k w] d IH]; simpl; auto. destruct (chan_eqb m k); auto.
Qed.

Lemma arith_meaning look cm lhs op e chans tr v c m x :
  eval look e = Ok v -> arith_trafo look cm lhs op (inl e) chans = Ok tr ->
  In c chans -> cm c = Some m ->
  oeq (tf tr m (Some x)) (Some (scalar_meaning lhs op x v)) /\ (op = SDiv -> lhs = true /\ ~ v == 0).
Proof.
  intros Hv Ht Hin Hm. unfold arith_trafo, scalar_values in Ht. rewrite Hv in Ht. simpl in Ht.
  assert (G : forall w : Q, cassoc m (fold_left (fun (acc : cdict) c => match cm c with Some m' => cupdate m' w acc | None => acc end) chans [])
                        = Some w).
  { intros w. apply uniform_get. right. exists c. auto. }
  destruct lhs, op; simpl in Ht.
  - inversion Ht; subst. unfold tf. simpl. rewrite G. simpl. split; [|discriminate]. apply Qred_correct.
  - inversion Ht; subst. unfold tf. simpl. rewrite (cassoc_map_snd (fun q => Qred (- q))), G. simpl. split; [|discriminate].
    rewrite Qred_correct, Qred_correct. unfold Qminus. reflexivity.
  - inversion Ht; subst. unfold tf. simpl. rewrite G. simpl. split; [|discriminate]. apply Qred_correct.
  - match type of Ht with (if ?b then _ else _) = _ => destruct b eqn:Ez end; [discriminate|].
    inversion Ht; subst. unfold tf. simpl. rewrite (cassoc_map_snd (fun q => Qred (/ q))), G. simpl. split.
    + rewrite Qred_correct, Qred_correct. unfold Qdiv. reflexivity.
    + intros _. split; auto. intro Hz.
      assert (E : existsb (fun kv : chan * Q => Qeq_bool (snd kv) 0)
                    (fold_left (fun acc c => match cm c with Some m' => cupdate m' v acc | None => acc end) chans []) = true).
      { apply existsb_exists. exists (m, v). split.
        - apply cassoc_In. apply G.
        - simpl. apply Qeq_bool_iff. exact Hz. }
      rewrite E in Ez. discriminate.
  - inversion Ht; subst. unfold tf. simpl. rewrite G. simpl. split; [|discriminate]. apply Qred_correct.
  - inversion Ht; subst. unfold tf. simpl. rewrite !G. simpl. split; [|discriminate].
    rewrite Qred_correct, Qred_correct. ring.
  - inversion Ht; subst. unfold tf. simpl. rewrite G. simpl. split; [|discriminate]. apply Qred_correct.
  - discriminate.
Qed.

(* scalar / pulse is never instantiated *)
Lemma arith_scalar_div_rejected look cm sc chans v :
  scalar_values look cm sc chans = Ok v -> arith_trafo look cm false SDiv sc chans = Err EValue.
Proof. intros H. unfold arith_trafo. rewrite H. reflexivity. Qed.

(* through the pieces: what `denote` says for `pulse op scalar` on a channel of the body *)
Lemma arith_piece_meaning look cm lhs op e chans tr v c m (p : piece) t x :
  eval look e = Ok v -> arith_trafo look cm lhs op (inl e) chans = Ok tr ->
  In c chans -> cm c = Some m -> cmem m (pchans p) = true -> pval p m t = Some x ->
  oeq (pval (piece_trafo tr p) m t) (Some (scalar_meaning lhs op x v)).
Proof.
  intros Hv Ht Hin Hm Hc Hx.
  destruct (arith_meaning look cm lhs op e chans tr v c m x Hv Ht Hin Hm) as (A & _).
  unfold piece_trafo. simpl. rewrite dg_trafo.
  rewrite (dg_map_mk m (fun ic => pval p ic t)). rewrite Hc, Hx. exact A.
Qed.

(* parallel-channel values: the last entry mapped to a channel decides; a channel nobody is mapped to is untouched *)
Lemma par_values_get look cm m : forall l acc d,
  par_values look cm l acc = Ok d ->
  (forall c e, In (c, e) l -> cm c <> Some m) -> cassoc m d = cassoc m acc.
Proof.
  induction l as [|[c e] l IH]; intros acc d H Hno; simpl in H.
  - inversion H; subst. reflexivity.
  - destruct (cm c) as [m'|] eqn:Ec.
    + destruct (eval look e) as [v|er]; simpl in H; [|discriminate].
      rewrite (IH _ _ H); [|intros c' e' Hi; apply (Hno c' e'); right; exact Hi].
      rewrite cassoc_cupdate. destruct (chan_eqb m m') eqn:E; auto.
      apply chan_eqb_eq in E. subst m'. exfalso. apply (Hno c e); [left; reflexivity|exact Ec].
    + apply (IH _ _ H). intros c' e' Hi. apply (Hno c' e'). right. exact Hi.
Qed.

Lemma par_values_last look cm m c e v : forall pre post acc d,
  par_values look cm (pre ++ (c, e) :: post) acc = Ok d -> cm c = Some m -> eval look e = Ok v ->
  (forall c' e', In (c', e') post -> cm c' <> Some m) -> cassoc m d = Some v.
Proof.
  induction pre as [|[c0 e0] pre IH]; intros post acc d H Hm Hv Hno; simpl in H.
  - rewrite Hm, Hv in H. simpl in H. rewrite (par_values_get look cm m _ _ _ H Hno).
    rewrite cassoc_cupdate, chan_eqb_refl. reflexivity.
  - destruct (cm c0) as [m'|].
    + destruct (eval look e0) as [v0|er]; simpl in H; [|discriminate]. apply (IH _ _ _ H Hm Hv Hno).
    + apply (IH _ _ _ H Hm Hv Hno).
Qed.
