(* C01 — TableWaveform.from_table: _validate_input (entry de-duplication + constant detection) and the pairwise
   sampler against the table's denotation (Spec.table_fun), under tbl_guard (no triple final time point — the refuted
   class — and no zero-length linear segment). *)
From Coq Require Import ZArith QArith Qround List Bool Lia Lqa Setoid.
Require Import QV.common.Util QV.C01.Model QV.C01.Spec QV.C01.Proofs QV.C01.ProofsDefs.
Import ListNotations.
Open Scope Q_scope.
Arguments Qred : simpl never.  Arguments Qplus : simpl never.  Arguments Qminus : simpl never.
Arguments Qmult : simpl never. Arguments Qdiv : simpl never.   Arguments Qopp : simpl never.
Arguments Qinv : simpl never.  Arguments Qle_bool : simpl never. Arguments Qeq_bool : simpl never.
Arguments Qfloor : simpl never. Arguments inject_Z : simpl never. Arguments Z.to_nat : simpl never.

(* ---------------------------------------------------------------------------------------------------------- *)
(* booleans on Q *)
Lemma Qle_bool_false a b : Qle_bool a b = false <-> b < a.
Proof.
  split; intro H.
  - apply Qnot_le_lt. intro L. apply Qle_bool_iff in L. congruence.
  - destruct (Qle_bool a b) eqn:E; auto. apply Qle_bool_iff in E. exfalso. lra.
Qed.
Lemma Qeq_bool_true a b : Qeq_bool a b = true <-> a == b.
Proof. apply Qeq_bool_iff. Qed.
Lemma Qeq_bool_false a b : Qeq_bool a b = false <-> ~ a == b.
Proof.
  split; intro H.
  - intro E. apply Qeq_bool_iff in E. congruence.
  - destruct (Qeq_bool a b) eqn:E; auto. apply Qeq_bool_iff in E. contradiction.
Qed.

Ltac qb :=
  repeat match goal with
         | H : Qle_bool _ _ = true |- _ => apply Qle_bool_iff in H
         | H : Qle_bool _ _ = false |- _ => apply Qle_bool_false in H
         | H : Qeq_bool _ _ = true |- _ => apply Qeq_bool_iff in H
         | H : Qeq_bool _ _ = false |- _ => apply Qeq_bool_false in H
         | H : Qltb' _ _ = true |- _ => apply Qltb'_true in H
         | H : Qltb' _ _ = false |- _ => apply Qltb'_false in H
         end.

(* ---------------------------------------------------------------------------------------------------------- *)
(* the denotation of a table, unfolded *)
Definition own (prev e : tentry) (x : Q) : option Q :=
  if Qle_bool (et prev) x && Qle_bool x (et e)
  then seg_at (ei e) (et prev) (ev prev) (et e) (ev e) x else None.
Definition first_some (a b : option Q) : option Q := match a with Some v => Some v | None => b end.

Lemma table_at_cons prev e r x : table_at prev (e :: r) x = first_some (table_at e r x) (own prev e x).
Proof. reflexivity. Qed.

Lemma first_some_oeq a a' b b' : oeq a a' -> oeq b b' -> oeq (first_some a b) (first_some a' b').
Proof. destruct a, a'; simpl; auto; tauto. Qed.

Lemma seg_some i t0 v0 t1 v1 x :
  (i = Linear -> ~ t0 == t1) -> exists y, seg_at i t0 v0 t1 v1 x = Some y.
Proof.
  intro H. destruct i; simpl; eauto.
  destruct (Qeq_bool t0 t1) eqn:E; eauto. qb. exfalso. apply H; auto.
Qed.

Lemma seg_const i t0 v0 t1 v1 x :
  v0 == v1 -> (i = Linear -> ~ t0 == t1) -> oeq (seg_at i t0 v0 t1 v1 x) (Some v0).
Proof.
  intros Hv H. destruct i; simpl; try reflexivity.
  - symmetry. exact Hv.
  - destruct (Qeq_bool t0 t1) eqn:E; qb; [exfalso; apply H; auto|].
    simpl. assert (Z : v1 - v0 == 0) by lra. rewrite Z. unfold Qdiv. ring.
Qed.

(* ---------------------------------------------------------------------------------------------------------- *)
(* the de-duplication of _validate_input as a forward function *)
Definition keepb (pt pv t v nt nv : Q) : bool :=
  (negb (Qeq_bool pt t) || negb (Qeq_bool t nt)) && (negb (Qeq_bool pv v) || negb (Qeq_bool v nv)).

Fixpoint dd (pt pv : Q) (cur : tentry) (rest : list tentry) : list tentry :=
  match rest with
  | [] => [cur]
  | n :: r => if keepb pt pv (et cur) (ev cur) (et n) (ev n)
              then cur :: dd (et cur) (ev cur) n r else dd pt pv n r
  end.

Lemma vl_table : forall rest pt pv t v i cv acc l,
  validate_loop pt pv t v i cv acc rest = Ok (VTable l) -> l = rev acc ++ dd pt pv (t, v, i) rest.
Proof.
  induction rest as [|[[nt nv] ni] rest IH]; intros pt pv t v i cv acc l H; simpl in H.
  - destruct (Qeq_bool t 0); [discriminate|]. destruct cv; inversion H. reflexivity.
  - destruct (Qltb' nt t); [discriminate|].
    simpl. unfold keepb, et, ev. simpl.
    destruct ((negb (Qeq_bool pt t) || negb (Qeq_bool t nt)) && (negb (Qeq_bool pv v) || negb (Qeq_bool v nv))).
    + apply IH in H. rewrite H. simpl. rewrite <- app_assoc. reflexivity.
    + apply IH in H. exact H.
Qed.

Lemma vl_sorted : forall rest pt pv t v i cv acc res,
  validate_loop pt pv t v i cv acc rest = Ok res -> nondecreasing t rest = true.
Proof.
  induction rest as [|[[nt nv] ni] rest IH]; intros pt pv t v i cv acc res H; simpl in *; auto.
  destruct (Qltb' nt t) eqn:E; [discriminate|]. qb.
  assert (L : Qle_bool t nt = true) by (apply Qle_bool_iff; exact E).
  unfold et at 1. simpl. rewrite L. simpl.
  destruct ((negb (Qeq_bool pt t) || negb (Qeq_bool t nt)) && (negb (Qeq_bool pv v) || negb (Qeq_bool v nv)));
    eapply IH; eauto.
Qed.

Lemma last_t_cons a l : l <> [] -> last_t (a :: l) = last_t l.
Proof.
  intro H. unfold last_t. simpl. destruct (rev l) eqn:E.
  - apply (f_equal (@rev _)) in E. rewrite rev_involutive in E. simpl in E. contradiction.
  - reflexivity.
Qed.
Lemma last_t_single a : last_t [a] = et a.
Proof. reflexivity. Qed.

Lemma vl_last : forall rest pt pv t v i cv acc res,
  validate_loop pt pv t v i cv acc rest = Ok res -> Qeq_bool (last_t ((t, v, i) :: rest)) 0 = false.
Proof.
  induction rest as [|[[nt nv] ni] rest IH]; intros pt pv t v i cv acc res H; simpl in H.
  - rewrite last_t_single. unfold et. simpl. destruct (Qeq_bool t 0); [discriminate|reflexivity].
  - destruct (Qltb' nt t); [discriminate|]. rewrite last_t_cons by discriminate.
    destruct ((negb (Qeq_bool pt t) || negb (Qeq_bool t nt)) && (negb (Qeq_bool pv v) || negb (Qeq_bool v nv)));
      eapply IH; eauto.
Qed.

(* every segment of the table is constant at c *)
Fixpoint segs_const (c : Q) (prev : tentry) (l : list tentry) : Prop :=
  match l with
  | [] => True
  | e :: r => (exists c', interp_cv (ei e) (ev prev) (ev e) = Some c' /\ c' == c) /\ segs_const c e r
  end.

Lemma ocv_step_some cv seg c : ocv_step cv seg = Some c -> cv = Some c /\ exists c', seg = Some c' /\ c' == c.
Proof.
  unfold ocv_step. destruct cv as [c0|]; [|discriminate]. destruct seg as [c'|]; [|discriminate].
  destruct (Qeq_bool c' c0) eqn:E; [|discriminate]. intro H. inversion H; subst. qb. eauto.
Qed.

Lemma vl_const : forall rest pt pv t v i cv acc d c,
  validate_loop pt pv t v i cv acc rest = Ok (VConst d c) ->
  cv = Some c /\ segs_const c (t, v, i) rest /\ d = last_t ((t, v, i) :: rest).
Proof.
  induction rest as [|[[nt nv] ni] rest IH]; intros pt pv t v i cv acc d c H; simpl in H.
  - destruct (Qeq_bool t 0); [discriminate|]. destruct cv; inversion H; subst. repeat split.
  - destruct (Qltb' nt t); [discriminate|]. rewrite last_t_cons by discriminate.
    destruct ((negb (Qeq_bool pt t) || negb (Qeq_bool t nt)) && (negb (Qeq_bool pv v) || negb (Qeq_bool v nv)));
      apply IH in H; destruct H as (Hcv & Hs & Hd); apply ocv_step_some in Hcv; destruct Hcv as (Hcv & c' & Hi & Hc);
      (split; [exact Hcv|split; [|exact Hd]]); simpl; split; eauto.
Qed.

(* ---------------------------------------------------------------------------------------------------------- *)
(* guards on sub-tables *)
Lemma filter_len_cons {A} (f : A -> bool) a l : (length (filter f l) <= length (filter f (a :: l)))%nat.
Proof. simpl. destruct (f a); simpl; lia. Qed.

Lemma ft_tail a b l : final_triple (a :: b :: l) = false -> final_triple (b :: l) = false.
Proof.
  unfold final_triple. rewrite (last_t_cons a (b :: l)) by discriminate.
  intro H. apply Nat.leb_gt in H. apply Nat.leb_gt.
  pose proof (filter_len_cons (fun e => Qeq_bool (et e) (last_t (b :: l))) a (b :: l)). lia.
Qed.

Lemma ft_drop a b c l : final_triple (a :: b :: c :: l) = false -> final_triple (a :: c :: l) = false.
Proof.
  unfold final_triple. rewrite (last_t_cons a (b :: c :: l)), (last_t_cons b (c :: l)), (last_t_cons a (c :: l)) by discriminate.
  intro H. apply Nat.leb_gt in H. apply Nat.leb_gt.
  simpl in *. destruct (Qeq_bool (et a) (last_t (c :: l))), (Qeq_bool (et b) (last_t (c :: l))); simpl in *; lia.
Qed.

Lemma zero_linear_compat : forall l a a', a == a' -> zero_linear a l = zero_linear a' l.
Proof.
  destruct l as [|e r]; intros a a' H; simpl; auto.
  destruct (ei e); auto. rewrite (Qeq_bool_compat (et e) (et e) a a'); auto. reflexivity.
Qed.

(* ---------------------------------------------------------------------------------------------------------- *)
(* dropping the current entry does not change the denotation *)
Lemma drop_sem pe cur n r x :
  et pe <= et cur -> et cur <= et n -> nondecreasing (et n) r = true ->
  zero_linear (et pe) (cur :: n :: r) = false -> final_triple (pe :: cur :: n :: r) = false ->
  keepb (et pe) (ev pe) (et cur) (ev cur) (et n) (ev n) = false ->
  oeq (table_at pe (n :: r) x) (table_at pe (cur :: n :: r) x).
Proof.
  intros L1 L2 Hs Hz Hf Hk.
  rewrite !table_at_cons.
  destruct (table_at n r x) as [y|] eqn:ER; [apply oeq_refl|]. simpl first_some.
  simpl in Hz. apply orb_false_elim in Hz as (Hz1 & Hz). apply orb_false_elim in Hz as (Hz2 & Hz3).
  assert (Zc : ei cur = Linear -> ~ et pe == et cur).
  { intro E. rewrite E in Hz1. qb. intro X. apply Hz1. symmetry. exact X. }
  assert (Zn : ei n = Linear -> ~ et cur == et n).
  { intro E. rewrite E in Hz2. qb. intro X. apply Hz2. symmetry. exact X. }
  unfold keepb in Hk. apply andb_false_elim in Hk. destruct Hk as [Hk|Hk].
  - (* three entries at one time *)
    apply orb_false_elim in Hk as (K1 & K2). apply negb_false_iff in K1, K2. qb.
    unfold own.
    rewrite (Qle_bool_compat (et cur) (et pe) x x), (Qle_bool_compat x x (et cur) (et n)); try reflexivity;
      try (symmetry; assumption); try assumption.
    destruct (Qle_bool (et pe) x && Qle_bool x (et n)) eqn:EB; [|simpl; exact I].
    exfalso. apply andb_prop in EB as (B1 & B2). qb.
    destruct r as [|e r'].
    + unfold final_triple in Hf. apply Nat.leb_gt in Hf.
      rewrite !last_t_cons in Hf by discriminate. rewrite last_t_single in Hf. simpl in Hf.
      assert (E1 : Qeq_bool (et pe) (et n) = true) by (apply Qeq_bool_iff; rewrite K1; exact K2).
      assert (E2 : Qeq_bool (et cur) (et n) = true) by (apply Qeq_bool_iff; exact K2).
      assert (E3 : Qeq_bool (et n) (et n) = true) by (apply Qeq_bool_iff; reflexivity).
      rewrite E1, E2, E3 in Hf. simpl in Hf. lia.
    + rewrite table_at_cons in ER. simpl in Hs. apply andb_prop in Hs as (S1 & S2). qb.
      simpl in Hz3. apply orb_false_elim in Hz3 as (Hz3 & _).
      assert (Ze : ei e = Linear -> ~ et n == et e).
      { intro E. rewrite E in Hz3. qb. intro X. apply Hz3. symmetry. exact X. }
      destruct (seg_some (ei e) (et n) (ev n) (et e) (ev e) x Ze) as (y & Ey).
      unfold own in ER.
      assert (C1 : Qle_bool (et n) x = true) by (apply Qle_bool_iff; lra).
      assert (C2 : Qle_bool x (et e) = true) by (apply Qle_bool_iff; lra).
      rewrite C1, C2, Ey in ER. simpl in ER. destruct (table_at e r' x); discriminate.
  - (* three entries with one value *)
    apply orb_false_elim in Hk as (K1 & K2). apply negb_false_iff in K1, K2. qb.
    assert (Vn : oeq (seg_at (ei n) (et pe) (ev pe) (et n) (ev n) x) (Some (ev pe))).
    { apply seg_const; [rewrite K1; exact K2|]. intros E X. apply (Zn E). lra. }
    assert (Vc : oeq (seg_at (ei cur) (et pe) (ev pe) (et cur) (ev cur) x) (Some (ev pe))).
    { apply seg_const; auto. }
    assert (Vm : oeq (seg_at (ei n) (et cur) (ev cur) (et n) (ev n) x) (Some (ev pe))).
    { eapply oeq_trans; [apply seg_const; auto|]. simpl. symmetry. exact K1. }
    unfold own.
    destruct (Qle_bool (et pe) x) eqn:B1, (Qle_bool x (et n)) eqn:B2, (Qle_bool (et cur) x) eqn:B3,
             (Qle_bool x (et cur)) eqn:B4; simpl; qb; try (exfalso; lra); try exact I.
    + eapply oeq_trans; [exact Vn|]. apply oeq_sym.
      destruct (seg_at (ei n) (et cur) (ev cur) (et n) (ev n) x); [exact Vm|contradiction].
    + eapply oeq_trans; [exact Vn|]. apply oeq_sym.
      destruct (seg_at (ei n) (et cur) (ev cur) (et n) (ev n) x); [exact Vm|contradiction].
    + eapply oeq_trans; [exact Vn|]. apply oeq_sym. exact Vc.
Qed.

Lemma dd_sem : forall rest pe cur,
  et pe <= et cur -> nondecreasing (et cur) rest = true ->
  zero_linear (et pe) (cur :: rest) = false -> final_triple (pe :: cur :: rest) = false ->
  forall x, oeq (table_at pe (dd (et pe) (ev pe) cur rest) x) (table_at pe (cur :: rest) x).
Proof.
  induction rest as [|n r IH]; intros pe cur L Hs Hz Hf x; simpl dd.
  - apply oeq_refl.
  - simpl in Hs. apply andb_prop in Hs as (S1 & S2). qb.
    pose proof Hz as Hz'. simpl in Hz'. apply orb_false_elim in Hz' as (Hz1 & Hz2).
    destruct (keepb (et pe) (ev pe) (et cur) (ev cur) (et n) (ev n)) eqn:Ek.
    + rewrite (table_at_cons pe cur), (table_at_cons pe cur (n :: r)).
      apply first_some_oeq; [|apply oeq_refl].
      apply IH; auto. apply (ft_tail pe). exact Hf.
    + eapply oeq_trans; [|apply drop_sem; auto].
      apply IH; auto; try lra.
      * simpl. apply orb_false_elim in Hz2 as (Hz2 & Hz3). rewrite Hz3, orb_false_r.
        destruct (ei n) eqn:En; auto. apply Qeq_bool_false. intro X.
        cbv iota in Hz2. qb. apply Hz2. lra.
      * apply (ft_drop pe cur). exact Hf.
Qed.

Lemma dd_nozl : forall rest pe cur,
  et pe <= et cur -> nondecreasing (et cur) rest = true ->
  zero_linear (et pe) (cur :: rest) = false ->
  zero_linear (et pe) (dd (et pe) (ev pe) cur rest) = false.
Proof.
  induction rest as [|n r IH]; intros pe cur L Hs Hz; simpl dd; auto.
  simpl in Hs. apply andb_prop in Hs as (S1 & S2). qb.
  pose proof Hz as Hz'. simpl in Hz'. apply orb_false_elim in Hz' as (Hz1 & Hz2).
  destruct (keepb (et pe) (ev pe) (et cur) (ev cur) (et n) (ev n)) eqn:Ek.
  - simpl. rewrite Hz1. simpl. apply IH; auto.
  - apply IH; auto; try lra.
    simpl. apply orb_false_elim in Hz2 as (Hz2 & Hz3). rewrite Hz3, orb_false_r.
    destruct (ei n) eqn:En; auto. apply Qeq_bool_false. intro X.
    cbv iota in Hz2. qb. apply Hz2. lra.
Qed.

Lemma dd_last : forall rest pt pv cur a, last_t (a :: dd pt pv cur rest) = last_t (cur :: rest).
Proof.
  induction rest as [|n r IH]; intros pt pv cur a; simpl dd.
  - rewrite last_t_cons by discriminate. reflexivity.
  - rewrite (last_t_cons cur (n :: r)) by discriminate.
    destruct (keepb pt pv (et cur) (ev cur) (et n) (ev n)).
    + rewrite last_t_cons by discriminate. apply IH.
    + apply IH.
Qed.

(* ---------------------------------------------------------------------------------------------------------- *)
(* the pairwise sampler (later pair overwrites) against "the last containing segment decides" *)
Lemma interp_seg i t0 v0 t1 v1 x :
  (i = Linear -> ~ t0 == t1) -> oeq (interp_at i t0 v0 t1 v1 x) (seg_at i t0 v0 t1 v1 x).
Proof.
  intro H. destruct i; simpl; try reflexivity.
  destruct (Qeq_bool t1 t0) eqn:E1; qb; [exfalso; apply H; auto; symmetry; auto|].
  destruct (Qeq_bool t0 t1) eqn:E2; qb; [exfalso; apply H; auto|].
  simpl. rewrite Qred_correct. field. intro X. apply E1. lra.
Qed.

Lemma table_sample_at : forall rest prev x acc acc',
  zero_linear (et prev) rest = false -> oeq acc acc' ->
  oeq (table_sample prev rest x acc) (first_some (table_at prev rest x) acc').
Proof.
  induction rest as [|e r IH]; intros prev x acc acc' Hz Ha; simpl table_sample.
  - simpl. exact Ha.
  - simpl in Hz. apply orb_false_elim in Hz as (Hz1 & Hz2).
    assert (Ze : ei e = Linear -> ~ et prev == et e).
    { intro E. rewrite E in Hz1. qb. intro X. apply Hz1. symmetry. exact X. }
    rewrite table_at_cons.
    eapply oeq_trans; [apply (IH e x _ (first_some (own prev e x) acc') Hz2)|].
    + unfold own. destruct (Qle_bool (et prev) x && Qle_bool x (et e)).
      * destruct (seg_some (ei e) (et prev) (ev prev) (et e) (ev e) x Ze) as (y & Ey).
        pose proof (interp_seg (ei e) (et prev) (ev prev) (et e) (ev e) x Ze) as Hi.
        rewrite Ey in *. simpl. exact Hi.
      * simpl. exact Ha.
    + destruct (table_at e r x); simpl; [reflexivity|]. apply oeq_refl.
Qed.

(* ---------------------------------------------------------------------------------------------------------- *)
(* a table all of whose segments are constant at c *)
Lemma interp_cv_seg i t0 v0 t1 v1 c' x :
  interp_cv i v0 v1 = Some c' -> (i = Linear -> ~ t0 == t1) -> oeq (seg_at i t0 v0 t1 v1 x) (Some c').
Proof.
  intros H Hz. destruct i; simpl in *.
  - inversion H. reflexivity.
  - inversion H. reflexivity.
  - destruct (Qeq_bool v0 v1) eqn:E; [|discriminate]. inversion H; subst. qb.
    apply (seg_const Linear); auto.
Qed.

Lemma const_table_at : forall rest prev c x,
  segs_const c prev rest -> zero_linear (et prev) rest = false -> nondecreasing (et prev) rest = true ->
  et prev <= x -> x <= last_t (prev :: rest) -> rest <> [] ->
  oeq (table_at prev rest x) (Some c).
Proof.
  induction rest as [|e r IH]; intros prev c x Hc Hz Hs L1 L2 Hne; [congruence|].
  simpl in Hc. destruct Hc as ((c' & Hi & Hcc) & Hc).
  simpl in Hz. apply orb_false_elim in Hz as (Hz1 & Hz2).
  simpl in Hs. apply andb_prop in Hs as (S1 & S2). qb.
  assert (Ze : ei e = Linear -> ~ et prev == et e).
  { intro E. rewrite E in Hz1. qb. intro X. apply Hz1. symmetry. exact X. }
  rewrite table_at_cons.
  rewrite last_t_cons in L2 by discriminate.
  destruct (Qle_bool x (et e)) eqn:B.
  - (* x inside this segment: a later segment, if it contains x, is constant at c as well *)
    qb. assert (Hown : oeq (own prev e x) (Some c)).
    { unfold own. assert (C1 : Qle_bool (et prev) x = true) by (apply Qle_bool_iff; lra).
      assert (C2 : Qle_bool x (et e) = true) by (apply Qle_bool_iff; lra). rewrite C1, C2. simpl.
      eapply oeq_trans; [apply (interp_cv_seg _ _ _ _ _ c'); auto|]. simpl. exact Hcc. }
    destruct r as [|e' r'].
    + simpl. exact Hown.
    + destruct (Qle_bool (et e) x) eqn:B'.
      * qb. assert (Hr : oeq (table_at e (e' :: r') x) (Some c)) by (apply IH; auto; try discriminate; lra).
        destruct (table_at e (e' :: r') x); simpl in Hr |- *; [exact Hr|contradiction].
      * (* x strictly before et e: no later segment contains x *)
        qb. assert (N : table_at e (e' :: r') x = None).
        { clear - S2 B'. revert e S2 B'. generalize (e' :: r') as l.
          induction l as [|a l IHl]; intros e S2 B'; simpl; auto.
          simpl in S2. apply andb_prop in S2 as (S1 & S2). qb.
          rewrite IHl; auto; [|lra].
          assert (C : Qle_bool (et e) x = false) by (apply Qle_bool_false; lra). rewrite C. reflexivity. }
        rewrite N. simpl. exact Hown.
  - qb. destruct r as [|e' r']; [rewrite last_t_single in L2; lra|].
    assert (Hr : oeq (table_at e (e' :: r') x) (Some c)) by (apply IH; auto; try discriminate; lra).
    destruct (table_at e (e' :: r') x); simpl in Hr |- *; [exact Hr|contradiction].
Qed.

(* ---------------------------------------------------------------------------------------------------------- *)
(* assembly: from_table *)
Lemma sorted_last : forall l e, nondecreasing (et e) l = true -> et e <= last_t (e :: l).
Proof.
  induction l as [|a l IH]; intros e H.
  - rewrite last_t_single. lra.
  - simpl in H. apply andb_prop in H as (H1 & H2). qb. rewrite last_t_cons by discriminate.
    specialize (IH a H2). lra.
Qed.

Lemma first_some_none a : first_some a None = a.
Proof. destruct a; reflexivity. Qed.

Lemma seg_at_t0_compat i t0 t0' v0 t1 v1 x : t0 == t0' -> oeq (seg_at i t0 v0 t1 v1 x) (seg_at i t0' v0 t1 v1 x).
Proof.
  intro H. destruct i; simpl; try reflexivity.
  rewrite (Qeq_bool_compat t0 t0' t1 t1) by (auto; reflexivity).
  destruct (Qeq_bool t0' t1); simpl; auto. rewrite H. reflexivity.
Qed.

Lemma table_at_prev_compat p p' l x : et p == et p' -> ev p = ev p' -> oeq (table_at p l x) (table_at p' l x).
Proof.
  intros Ht Hv. destruct l as [|e r]; [exact I|]. rewrite !table_at_cons.
  apply first_some_oeq; [apply oeq_refl|]. unfold own.
  rewrite (Qle_bool_compat (et p) (et p') x x) by (auto; reflexivity).
  destruct (Qle_bool (et p') x && Qle_bool x (et e)); [|exact I].
  rewrite Hv. apply seg_at_t0_compat. exact Ht.
Qed.

Lemma ft_head_compat p p' l : et p == et p' -> l <> [] -> final_triple (p :: l) = final_triple (p' :: l).
Proof.
  intros H Hne. unfold final_triple. rewrite !last_t_cons by exact Hne. simpl.
  rewrite (Qeq_bool_compat (et p) (et p') (last_t l) (last_t l)) by (auto; reflexivity).
  destruct (Qeq_bool (et p') (last_t l)); reflexivity.
Qed.

Theorem from_table_core : from_table_core_statement.
Proof.
  intros c tbl w Hg Hf. unfold from_table in Hf.
  destruct (validate_input tbl) as [res|er] eqn:Ev; simpl in Hf; [|discriminate].
  unfold validate_input in Ev.
  destruct tbl as [|[[t0 v0] i0] [|[[t v] i] r']]; try discriminate;
    try (destruct (negb (Qeq_bool t0 0)); discriminate).
  destruct (Qeq_bool t0 0) eqn:E0; simpl in Ev; [|discriminate].
  destruct (Qltb' t 0) eqn:E1; [discriminate|]. qb.
  change (t0, v0, i0) with ((t0, v0, i0) : tentry) in *. change (t, v, i) with ((t, v, i) : tentry) in *.
  set (e0 := ((t0, v0, i0) : tentry)) in *. set (e1 := ((t, v, i) : tentry)) in *. set (pe := (0, v0, i0) : tentry).
  pose proof (vl_sorted _ _ _ _ _ _ _ _ _ Ev) as Hs.
  pose proof (vl_last _ _ _ _ _ _ _ _ _ Ev) as Hl. fold e1 in Hl.
  unfold tbl_guard in Hg. apply andb_prop in Hg as (Hft & Hzl). apply negb_true_iff in Hft, Hzl.
  change (zero_linear (et e0) (e1 :: r') = false) in Hzl.
  assert (Hlast : last_t (e0 :: e1 :: r') = last_t (e1 :: r')) by (apply last_t_cons; discriminate).
  assert (Hpos : 0 < last_t (e0 :: e1 :: r')).
  { rewrite Hlast. pose proof (sorted_last r' e1 Hs) as L. unfold e1 at 1 in L. unfold et at 1 in L. simpl in L.
    qb. destruct (Qlt_le_dec 0 (last_t (e1 :: r'))) as [G|G]; auto. exfalso. apply Hl.
    apply Qle_antisym; [exact G|]. eapply Qle_trans; [exact E1|exact L]. }
  assert (Hok : table_ok (e0 :: e1 :: r') = true).
  { unfold table_ok. unfold e0 at 1. unfold et at 1. simpl fst.
    assert (A : Qeq_bool t0 0 = true) by (apply Qeq_bool_iff; exact E0). rewrite A. simpl.
    unfold e1 at 1. unfold et at 1. simpl fst.
    assert (B : Qle_bool 0 t = true) by (apply Qle_bool_iff; exact E1). rewrite B. exact Hs. }
  assert (Hzl0 : zero_linear 0 (e1 :: r') = false).
  { rewrite <- (zero_linear_compat (e1 :: r') (et e0) 0); auto. }
  split; [exact Hok|]. split; [exact Hpos|].
  destruct res as [d cc|l]; inversion Hf; subst w; clear Hf.
  - (* detected constant *)
    apply vl_const in Ev. destruct Ev as (Hcv & Hsc & Hd). fold e1 in Hsc, Hd.
    split; [rewrite Hlast, Hd; reflexivity|]. split; [reflexivity|]. split.
    + intros x X0 X1. simpl wsample. apply oeq_sym. change (table_fun (e0 :: e1 :: r') x) with (table_at e0 (e1 :: r') x).
      apply (const_table_at (e1 :: r') e0 cc x); auto; try discriminate.
      * simpl. split; auto. exists cc. split; [exact Hcv|reflexivity].
      * simpl. unfold e0 at 1, e1 at 1. unfold et. simpl.
        assert (B : Qle_bool t0 t = true) by (apply Qle_bool_iff; lra). rewrite B. exact Hs.
      * unfold e0, et. simpl. lra.
    + simpl. exists cc. split; auto.
  - (* table *)
    apply vl_table in Ev. simpl in Ev. fold pe e1 in Ev. subst l.
    change (dd 0 v0 e1 r') with (dd (et pe) (ev pe) e1 r').
    assert (Lpe : et pe <= et e1) by (unfold pe, e1, et; simpl; exact E1).
    split; [rewrite Hlast; change (last_t (pe :: dd (et pe) (ev pe) e1 r') == last_t (e1 :: r')); rewrite dd_last; reflexivity|].
    split; [reflexivity|]. split; [|exact I].
    intros x X0 X1. change (wsample (WTable c (pe :: dd (et pe) (ev pe) e1 r')) c x) with (table_sample pe (dd (et pe) (ev pe) e1 r') x None). change (table_fun (e0 :: e1 :: r') x) with (table_at e0 (e1 :: r') x).
    eapply oeq_trans; [apply (table_sample_at _ pe x None None)|].
    + apply dd_nozl; auto.
    + exact I.
    + rewrite first_some_none.
      eapply oeq_trans; [apply dd_sem; auto|].
      * rewrite <- (ft_head_compat e0 pe) by (try discriminate; unfold e0, pe, et; simpl; exact E0). exact Hft.
      * apply table_at_prev_compat; [unfold e0, pe, et; simpl; symmetry; exact E0|reflexivity].
Qed.

(* ---- the refuted class: a triple final time point; the degenerate class: zero-length linear final segment ---- *)
Example final_triple_refuted :
  let tbl := [(0, 0, Hold); (1, 1, Hold); (1, 2 # 1, Hold); (1, 3 # 1, Hold)] in
  exists w, from_table (ChS 1) tbl = Ok w /\ wsample w (ChS 1) 1 = Some 1 /\ table_fun tbl 1 = Some (2 # 1) /\
            tbl_guard tbl = false.
Proof. eexists. repeat split; vm_compute; reflexivity. Qed.

Example tbl_guard_nonvacuous :
  tbl_guard [(0, 0, Hold); (1, 1, Linear); (1, 2 # 1, Jump); (2 # 1, 2 # 1, Hold); (3 # 1, 2 # 1, Linear)] = true.
Proof. reflexivity. Qed.
