(* C01 — round 3: (1) the LoopBuilder's frame stack never influences the program (cpb = cp, create_program_b =
   create_program); (2) the refutation behind known finding `multi-zero-duration-part`. *)
From Coq Require Import ZArith QArith Qround List Bool.
Require Import QV.common.Util QV.C01.Model QV.C01.Spec QV.C01.Proofs QV.C01.ProofsDefs.
Import ListNotations.
Open Scope Q_scope.

Lemma cpb_cp : forall p s cm gt st, cpb p s cm gt st = cp p s cm gt.
Proof.
  induction p using pt_ind2; intros s cm gt st.
  - reflexivity.
  - simpl. induction H as [|x r Hx _ IH]; [reflexivity|]. rewrite Hx, IH. reflexivity.
  - simpl. destruct (evals s n) as [v|e]; [|reflexivity]. simpl. destruct (to_int ENotInt v) as [k|e]; [|reflexivity]. simpl.
    destruct (k <=? 0)%Z; [reflexivity|]. rewrite IHp. reflexivity.
  - simpl.
    destruct (v <- evals s a ;; to_int EValue v) as [x|e]; [|reflexivity]. simpl.
    destruct (v <- evals s b ;; to_int EValue v) as [y|e]; [|reflexivity]. simpl.
    destruct (v <- evals s c ;; to_int EValue v) as [z|e]; [|reflexivity]. simpl.
    destruct (z =? 0)%Z; [reflexivity|].
    induction (zrange x y z) as [|j r IH]; [reflexivity|]. rewrite IHp, IH. reflexivity.
  - simpl. apply IHp.
  - simpl. rewrite IHp. reflexivity.
  - simpl. destruct (par_values (lookup s) cm ow []) as [vals|e]; [|reflexivity]. simpl. apply IHp.
  - simpl. match goal with |- (_ <- ?X ;; _) = _ => destruct X as [u|e]; [|reflexivity] end. simpl.
    destruct (arith_trafo (lookup s) cm l op sc (pt_chans p)) as [tr|e]; [|reflexivity]. simpl. apply IHp.
Qed.

Lemma create_program_b_eq p env cm gt : create_program_b p env cm gt = create_program p env cm gt.
Proof. unfold create_program_b, create_program. rewrite cpb_cp. reflexivity. Qed.

(* what a frame that inherits the enclosing iteration would do (the class of seeded change C01-4): a repetition whose
   frame carries (idx, i) re-injects the RAW index above a mapping that rebinds the index name.  The correct builder
   plays the mapped value 10 - 3*i, the raw index is what the inheriting frame would hand to the body. *)
Definition witness_rebind : pt :=
  PFor 1%N (EC 0) (EC 2) (EC 1)
    (PMap [(1%N, ESub (EC (10 # 1)) (EMul (EC (3 # 1)) (EV 1%N)))] []
       (PRep (EC (2 # 1)) (PAtom (AConst (EC 1) [(ChS 1, EV 1%N)])))).

Lemma rebind_witness :
  exists prog, create_program_b witness_rebind [] [] None = Ok (Some prog) /\
    play prog (ChS 1) 0 = Some (10 # 1) /\ play prog (ChS 1) (2 # 1) = Some (7 # 1) /\
    (* the body under the raw index (what an inheriting repetition frame produces) is a different program *)
    cpb (PAtom (AConst (EC 1) [(ChS 1, EV 1%N)]))
        (inner_scope [Some (1%N, 1%Z)] (SMapped (SRange (SDict []) 1%N 1%Z) [(1%N, ESub (EC (10 # 1)) (EMul (EC (3 # 1)) (EV 1%N)))] [])) (cm_of []) None []
      = Ok [Leaf 1 (WConst 1 (ChS 1) 1)].
Proof. eexists. repeat split; vm_compute; reflexivity. Qed.

(* ---- refuted: AtomicMultiChannelPT drops a part of duration 0 whose channel is kept, next to a part of positive
        duration (unequal durations).  The template denotes nothing (Err), the code plays the other part alone ---- *)
Definition witness_multi_zero : pt :=
  PAtom (AMulti [AConst (EV 1%N) [(ChS 1, EC 1)]; AConst (EC 1) [(ChS 2, EC (2 # 1))]]).

Lemma multi_zero_refuted :
  exists prog, create_program witness_multi_zero [(1%N, 0)] [] None = Ok (Some prog) /\
    denote_top witness_multi_zero [(1%N, 0)] [] = Err EValue /\
    loop_chans prog = [ChS 2] /\ pt_chans witness_multi_zero = [ChS 1; ChS 2] /\
    guard_C01_par_order false witness_multi_zero = true /\
    guard_C01_tables witness_multi_zero (SDict [(1%N, 0)]) (cm_of []) = false.
Proof. eexists. repeat split; vm_compute; reflexivity. Qed.

(* ... and inside a loop over the duration the program's leaves define different channel sets: it cannot be turned into
   a waveform (qupulse: SequenceWaveform raises ValueError in to_waveform / render) *)
Definition witness_multi_zero_loop : pt :=
  PFor 1%N (EC 0) (EC (2 # 1)) (EC 1)
    (PAtom (AMulti [AConst (EV 1%N) [(ChS 1, EC 1)]; AConst (EC 1) [(ChS 2, EC (2 # 1))]])).

Lemma multi_zero_unplayable :
  exists prog, create_program witness_multi_zero_loop [] [] None = Ok (Some prog) /\
    to_waveform prog = Err EValue /\
    guard_C01_tables witness_multi_zero_loop (SDict []) (cm_of []) = false.
Proof. eexists. repeat split; vm_compute; reflexivity. Qed.

(* the guard is not vacuous on AtomicMultiChannelPT: parts all of whose channels are dropped, and templates whose parts
   ALL have duration 0, pass it *)
Example multi_guard_nonvacuous :
  let a := AMulti [AConst (EV 1%N) [(ChS 1, EC 1)]; AConst (EC 1) [(ChS 2, EC (2 # 1))]] in
  atom_guard a (SDict [(1%N, 1)]) (cm_of []) = true /\
  atom_guard a (SDict [(1%N, 0)]) (cm_of [(ChS 1, None)]) = true /\
  atom_guard (AMulti [AConst (EV 1%N) [(ChS 1, EC 1)]; AConst (EC 0) [(ChS 2, EC 1)]]) (SDict [(1%N, 0)]) (cm_of []) = true /\
  atom_guard a (SDict [(1%N, 0)]) (cm_of []) = false.
Proof. repeat split; vm_compute; reflexivity. Qed.
