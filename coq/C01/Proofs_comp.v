(* C01 — the compositional theorem, round 2: any nesting of transformation-creating nodes (composition lemma), only the
   known finding's own guard; the atomic obligation is `atom_sem` (build_waveform establishes `wmatch`), the emission
   (global transformation + constant short-cut) is proved once for all atoms (Proofs_trafo.emit_ok). *)
From Coq Require Import ZArith QArith Qround List Bool Lia Lqa Setoid.
Require Import QV.common.Util QV.C01.Model QV.C01.Spec QV.C01.Proofs QV.C01.ProofsDefs QV.C01.Proofs_trafo.
Import ListNotations.
Open Scope Q_scope.
Arguments Qred : simpl never.  Arguments Qplus : simpl never.  Arguments Qminus : simpl never.
Arguments Qmult : simpl never. Arguments Qdiv : simpl never.   Arguments Qopp : simpl never.
Arguments Qinv : simpl never.  Arguments Qle_bool : simpl never. Arguments Qeq_bool : simpl never.
Arguments Qfloor : simpl never. Arguments inject_Z : simpl never. Arguments Z.to_nat : simpl never.

(* the atomic obligation of round 2: under the table guard, build_waveform yields a waveform that plays the atom's
   piece and whose constant_value_dict is coherent *)
Definition atom_sem (a : atom) : Prop :=
  forall s cm ow, atom_guard a s cm = true -> build_waveform a s cm = Ok ow ->
  exists op, denote_atom a (lookup s) cm = Ok op /\ omatch ow op.

Fixpoint atoms_sem (p : pt) : Prop :=
  match p with
  | PAtom a => atom_sem a
  | PSeq l => (fix go (l : list pt) : Prop := match l with [] => True | x :: r => atoms_sem x /\ go r end) l
  | PRep _ b => atoms_sem b
  | PFor _ _ _ _ b => atoms_sem b
  | PMap _ _ b => atoms_sem b
  | PRev b => atoms_sem b
  | PPar b _ => atoms_sem b
  | PArith _ _ _ b => atoms_sem b
  end.

Lemma atom_sem_ok a : atom_sem a -> forall s cm gt ow, atom_guard a s cm = true -> build_waveform a s cm = Ok ow ->
  exists op, denote_atom a (lookup s) cm = Ok op /\
             Forall2 leaf_matches (flatten_list (atomic_emit ow gt)) (map (ptr gt) (olist op)).
Proof.
  intros Ha s cm gt ow Hg Hb. destruct (Ha s cm ow Hg Hb) as (op & Hd & Hm).
  exists op. split; auto. destruct ow as [w|], op as [p|]; simpl in Hm; try contradiction.
  - apply emit_ok. exact Hm.
  - constructor.
Qed.

Lemma cp_denote2 : forall p, atoms_sem p -> forall s cm gt cs,
  guard_C01_tables p s cm = true -> guard_C01_par_order (is_some gt) p = true -> cp p s cm gt = Ok cs ->
  exists pcs, denote p (lookup s) cm = Ok pcs /\ Forall2 leaf_matches (flatten_list cs) (map (ptr gt) pcs).
Proof.
  induction p using pt_ind2; intros Hok s cm gt cs Ht Hg Hcp.
  - (* atom *)
    simpl in *. destruct (build_waveform a s cm) as [ow|e] eqn:E; simpl in Hcp; [|discriminate].
    inversion Hcp; subst. destruct (atom_sem_ok a Hok s cm gt ow Ht E) as (op & Hd & HF).
    rewrite Hd. simpl. exists (olist op). split; [destruct op; reflexivity|exact HF].
  - (* sequence *)
    revert cs Hok Ht Hg Hcp. induction H as [|x r Hx _ IH]; intros cs Hok Ht Hg Hcp.
    + simpl in *. inversion Hcp; subst. exists []. split; [reflexivity|constructor].
    + simpl in Hok, Hg, Hcp, Ht. destruct Hok as (Hok1 & Hok2). apply andb_prop in Hg as (Hg1 & Hg2).
      apply andb_prop in Ht as (Ht1 & Ht2).
      destruct (cp x s cm gt) as [a|e] eqn:E1; simpl in Hcp; [|discriminate].
      match type of Hcp with (bind ?X _) = _ => destruct X as [b|e] eqn:E2 end; simpl in Hcp; [|discriminate].
      inversion Hcp; subst.
      destruct (Hx Hok1 s cm gt a Ht1 Hg1 E1) as (pa & Hda & HFa).
      destruct (IH b Hok2 Ht2 Hg2 E2) as (pb & Hdb & HFb).
      exists (pa ++ pb). split.
      * simpl. rewrite Hda. simpl. simpl in Hdb. rewrite Hdb. reflexivity.
      * unfold flatten_list in *. rewrite flat_map_app, map_app. apply Forall2_app; auto.
  - (* repetition *)
    simpl in *. unfold evals in Hcp.
    destruct (eval (lookup s) n) as [v|e]; simpl in *; [|discriminate].
    destruct (to_int ENotInt v) as [k|e]; simpl in *; [|discriminate].
    destruct (k <=? 0)%Z.
    + inversion Hcp; subst. exists []. split; [reflexivity|constructor].
    + destruct (cp p s cm gt) as [cs'|e] eqn:E; simpl in Hcp; [|discriminate].
      destruct (IHp Hok s cm gt cs' Ht Hg E) as (pcs & Hd & HF). rewrite Hd. simpl.
      exists (repeat_app (Z.to_nat k) pcs). split; [reflexivity|].
      destruct cs' as [|c0 cr]; inversion Hcp; subst.
      * apply Forall2_nil_map in HF. subst. clear. induction (Z.to_nat k); simpl; auto; constructor.
      * unfold flatten_list at 1. simpl. rewrite app_nil_r. rewrite repeat_app_map.
        apply Forall2_repeat_app. exact HF.
  - (* for loop *)
    simpl in *. unfold evals in Hcp, Ht.
    destruct (eval (lookup s) a) as [va|e]; simpl in *; [|discriminate].
    destruct (to_int EValue va) as [ka|e]; simpl in *; [|discriminate].
    destruct (eval (lookup s) b) as [vb|e]; simpl in *; [|discriminate].
    destruct (to_int EValue vb) as [kb|e]; simpl in *; [|discriminate].
    destruct (eval (lookup s) c) as [vc|e]; simpl in *; [|discriminate].
    destruct (to_int EValue vc) as [kc|e]; simpl in *; [|discriminate].
    destruct (kc =? 0)%Z; [discriminate|].
    revert cs Hcp Ht. generalize (zrange ka kb kc) as rng. induction rng as [|j r IH]; intros cs Hcp Ht.
    + inversion Hcp; subst. exists []. split; [reflexivity|constructor].
    + simpl in Ht. apply andb_prop in Ht as (Ht1 & Ht2).
      destruct (cp p (SRange s i j) cm gt) as [x|e] eqn:E1; simpl in Hcp; [|discriminate].
      match type of Hcp with (bind ?X _) = _ => destruct X as [y|e] eqn:E2 end; simpl in Hcp; [|discriminate].
      inversion Hcp; subst.
      destruct (IHp Hok (SRange s i j) cm gt x Ht1 Hg E1) as (px & Hdx & HFx).
      destruct (IH y eq_refl Ht2) as (py & Hdy & HFy).
      exists (px ++ py). split.
      * change (lookup (SRange s i j)) with (env_idx (lookup s) i j) in Hdx. rewrite Hdx. simpl. rewrite Hdy. reflexivity.
      * unfold flatten_list in *. rewrite flat_map_app, map_app. apply Forall2_app; auto.
  - (* mapping *)
    simpl in *. destruct (IHp Hok (SMapped s pm (map_ids pm p)) (cm_compose cm chm) gt cs Ht Hg Hcp) as (pcs & Hd & HF).
    exists pcs. split; auto.
  - (* time reversal *)
    simpl in *. destruct (cp p s cm gt) as [cs'|e] eqn:E; simpl in Hcp; [|discriminate].
    destruct (IHp Hok s cm gt cs' Ht Hg E) as (pcs & Hd & HF). rewrite Hd. simpl.
    exists (rev (map mirror pcs)). split; [reflexivity|].
    destruct cs' as [|c0 cr]; inversion Hcp; subst.
    + apply Forall2_nil_map in HF. subst. constructor.
    + unfold flatten_list at 1. cbn [flat_map]. rewrite app_nil_r.
      change (flatten (Nest 1 _)) with (flatten (reverse_loop (Nest 1 (c0 :: cr)))). rewrite flatten_reverse.
      rewrite flatten_nest. change (Z.to_nat 1) with 1%nat. cbn [repeat_app]. rewrite app_nil_r.
      rewrite map_rev. apply Forall2_rev. apply Forall2_rev_leaves. exact HF.
  - (* parallel channel: only outside every transformation (the known finding's guard) *)
    simpl in *. apply andb_prop in Hg as (Hu & Hg). destruct gt; [discriminate|].
    destruct (par_values (lookup s) cm ow []) as [vals|e]; simpl in *; [|discriminate].
    destruct (IHp Hok s cm (Some [TOver vals]) cs Ht Hg Hcp) as (pcs & Hd & HF). rewrite Hd. simpl.
    eexists. split; [reflexivity|]. rewrite map_ptr_none. exact HF.
  - (* scalar arithmetic: under any enclosing chain, by the composition lemma *)
    simpl in *.
    match type of Hcp with (bind ?X _) = _ => destruct X as [[]|e] end; simpl in Hcp; [|discriminate].
    destruct (arith_trafo (lookup s) cm l op sc (pt_chans p)) as [tr|e]; simpl in *; [|discriminate].
    destruct (IHp Hok s cm (Some (chain tr gt)) cs Ht Hg Hcp) as (pcs & Hd & HF). rewrite Hd. simpl.
    eexists. split; [reflexivity|]. apply Forall2_ptr_chain. exact HF.
Qed.

Lemma create_program_denote2 p env cm :
  atoms_sem p -> guard_C01_tables p (SDict env) (cm_of cm) = true -> guard_C01_par_order false p = true ->
  forall r, create_program p env cm None = Ok r ->
  exists pcs, denote_top p env cm = Ok pcs /\
              match r with
              | None => pcs = []
              | Some prog => plays prog pcs
              end.
Proof.
  intros Hok Ht Hg r Hcp. unfold create_program in Hcp.
  destruct (cp p (SDict env) (cm_of cm) None) as [cs|e] eqn:E; simpl in Hcp; [|discriminate].
  destruct (cp_denote2 p Hok (SDict env) (cm_of cm) None cs Ht Hg E) as (pcs & Hd & HF).
  rewrite map_ptr_none in HF.
  exists pcs. split; [exact Hd|].
  destruct cs as [|c0 cr]; inversion Hcp; subst.
  - inversion HF. reflexivity.
  - assert (HF' : Forall2 leaf_matches (flatten (Nest 1 (c0 :: cr))) pcs).
    { rewrite flatten_nest. change (Z.to_nat 1) with 1%nat. cbn [repeat_app]. rewrite app_nil_r. exact HF. }
    split; [exact HF'|]. split.
    + apply leaves_dur_total. exact HF'.
    + intros c t Hc H0 Ht'. apply play_at; auto.
Qed.
