(* C01 — to_waveform(program).get_sampled against the program meaning `play` (unrolled leaves, half-open junctions) *)
From Coq Require Import ZArith QArith Qround List Bool Lia Lqa Setoid.
Require Import QV.common.Util QV.C01.Model QV.C01.Spec QV.C01.Proofs QV.C01.ProofsDefs QV.C01.Proofs_trafo
        QV.C01.Proofs_table.
Import ListNotations.
Open Scope Q_scope.
Arguments Qred : simpl never.  Arguments Qplus : simpl never.  Arguments Qminus : simpl never.
Arguments Qmult : simpl never. Arguments Qdiv : simpl never.   Arguments Qopp : simpl never.
Arguments Qinv : simpl never.  Arguments Qle_bool : simpl never. Arguments Qeq_bool : simpl never.
Arguments Qfloor : simpl never. Arguments inject_Z : simpl never. Arguments Z.to_nat : simpl never.

Definition nonneg (w : wf) : Prop := 0 <= wdur w.

(* ---------------------------------------------------------------------------------------------------------- *)
(* A. play_leaves *)
Lemma play_proper c : forall ws t t', t == t' -> play_leaves ws c t = play_leaves ws c t'.
Proof.
  induction ws as [|w ws IH]; intros t t' H; simpl; auto.
  rewrite (Qltb'_compat t t' (wdur w) (wdur w)) by (auto; reflexivity).
  destruct (Qltb' t' (wdur w)).
  - apply wsample_proper. exact H.
  - apply IH. rewrite H. reflexivity.
Qed.

Lemma leaves_dur_cons w ws : leaves_dur (w :: ws) == wdur w + leaves_dur ws.
Proof. unfold leaves_dur. simpl. apply Qred_correct. Qed.

Lemma leaves_dur_app a b : leaves_dur (a ++ b) == leaves_dur a + leaves_dur b.
Proof.
  induction a as [|w a IH].
  - change (leaves_dur b == 0 + leaves_dur b). rewrite Qplus_0_l. reflexivity.
  - change ((w :: a) ++ b) with (w :: (a ++ b)). rewrite !leaves_dur_cons, IH. ring.
Qed.

Lemma leaves_dur_nonneg a : Forall nonneg a -> 0 <= leaves_dur a.
Proof.
  induction 1 as [|w a Hw _ IH]; [unfold leaves_dur; simpl; lra|].
  rewrite leaves_dur_cons. unfold nonneg in Hw. lra.
Qed.

Lemma play_app_l c b : forall a t, Forall nonneg a -> 0 <= t -> t < leaves_dur a ->
  play_leaves (a ++ b) c t = play_leaves a c t.
Proof.
  induction a as [|w a IH]; intros t Hn H0 H1.
  - unfold leaves_dur in H1. simpl in H1. lra.
  - inversion Hn; subst. simpl. destruct (Qltb' t (wdur w)) eqn:E; auto.
    apply Qltb'_false in E. rewrite leaves_dur_cons in H1.
    apply IH; auto; rewrite Qred_correct; lra.
Qed.

Lemma play_app_r c b : forall a t, Forall nonneg a -> leaves_dur a <= t ->
  play_leaves (a ++ b) c t = play_leaves b c (Qred (t - leaves_dur a)).
Proof.
  induction a as [|w a IH]; intros t Hn H1.
  - simpl. apply play_proper. rewrite Qred_correct. unfold leaves_dur. simpl. ring.
  - inversion Hn; subst. rewrite leaves_dur_cons in H1. pose proof (leaves_dur_nonneg a H3) as Ha.
    change ((w :: a) ++ b) with (w :: (a ++ b)). cbn [play_leaves].
    assert (E : Qltb' t (wdur w) = false) by (apply Qltb'_false; lra). rewrite E.
    rewrite IH; auto; [|rewrite Qred_correct; lra].
    apply play_proper. rewrite !Qred_correct, leaves_dur_cons. ring.
Qed.

Lemma leaves_dur_repeat n l : leaves_dur (repeat_app n l) == inject_Z (Z.of_nat n) * leaves_dur l.
Proof.
  induction n as [|n IH].
  - simpl. unfold leaves_dur. simpl. unfold inject_Z. ring.
  - cbn [repeat_app]. rewrite leaves_dur_app, IH, Nat2Z.inj_succ. unfold Z.succ. rewrite inject_Z_plus. ring.
Qed.

Lemma Forall_repeat_app {A} (P : A -> Prop) n l : Forall P l -> Forall P (repeat_app n l).
Proof. intro H. induction n; simpl; auto. apply Forall_app. auto. Qed.

Lemma play_repeat c l : Forall nonneg l -> forall n k t, (k < n)%nat ->
  inject_Z (Z.of_nat k) * leaves_dur l <= t -> t < (inject_Z (Z.of_nat k) + 1) * leaves_dur l ->
  play_leaves (repeat_app n l) c t = play_leaves l c (Qred (t - inject_Z (Z.of_nat k) * leaves_dur l)).
Proof.
  intros Hn. pose proof (leaves_dur_nonneg l Hn) as HD.
  induction n as [|n IH]; intros k t Hk H0 H1; [lia|].
  cbn [repeat_app]. destruct k as [|k].
  - change (inject_Z (Z.of_nat 0)) with (inject_Z 0) in *. unfold inject_Z in H0, H1 |- *.
    rewrite play_app_l; auto; try lra. apply play_proper. rewrite Qred_correct. ring.
  - rewrite Nat2Z.inj_succ in *. unfold Z.succ in *. rewrite inject_Z_plus in *.
    change (inject_Z 1) with 1 in *.
    assert (Hk' : 0 <= inject_Z (Z.of_nat k)).
    { change 0 with (inject_Z 0). rewrite <- Zle_Qle. lia. }
    rewrite play_app_r; auto; [|nra].
    rewrite (IH k); try lia; try (rewrite Qred_correct; nra).
    apply play_proper. rewrite !Qred_correct. ring.
Qed.

(* ---------------------------------------------------------------------------------------------------------- *)
(* B. SequenceWaveform sampling *)
Fixpoint seq_sample (l : list wf) (start : Q) (c : chan) (t : Q) : option Q :=
  match l with
  | [] => None
  | x :: r => let e := Qred (start + wdur x) in
              if Qle_bool start t && Qltb' t e then wsample x c (Qred (t - start)) else seq_sample r e c t
  end.

Lemma wsample_seq l c t : wsample (WSeq l) c t = seq_sample l 0 c t.
Proof.
  simpl. generalize 0 as start. induction l as [|x r IH]; intros start; simpl; auto.
  rewrite IH. reflexivity.
Qed.

Definition sdur (l : list wf) : Q := wdur (WSeq l).
Lemma sdur_cons x r : sdur (x :: r) == wdur x + sdur r.
Proof. unfold sdur. simpl. apply Qred_correct. Qed.
Lemma sdur_nil : sdur [] == 0.
Proof. reflexivity. Qed.

Lemma sdur_leaves : forall l, sdur l == leaves_dur l.
Proof. induction l as [|x r IH]; [reflexivity|]. rewrite sdur_cons, leaves_dur_cons, IH. reflexivity. Qed.

Lemma seq_shift c : forall l s1 s2 t1 t2, t1 - s1 == t2 - s2 -> seq_sample l s1 c t1 = seq_sample l s2 c t2.
Proof.
  induction l as [|x r IH]; intros s1 s2 t1 t2 H; simpl; auto.
  assert (E1 : Qle_bool s1 t1 = Qle_bool s2 t2).
  { destruct (Qle_bool s1 t1) eqn:A, (Qle_bool s2 t2) eqn:B; auto; qb; exfalso; lra. }
  assert (E2 : Qltb' t1 (Qred (s1 + wdur x)) = Qltb' t2 (Qred (s2 + wdur x))).
  { destruct (Qltb' t1 (Qred (s1 + wdur x))) eqn:A, (Qltb' t2 (Qred (s2 + wdur x))) eqn:B; auto; qb;
      rewrite Qred_correct in *; exfalso; lra. }
  rewrite E1, E2. destruct (Qle_bool s2 t2 && Qltb' t2 (Qred (s2 + wdur x))).
  - apply wsample_proper. rewrite !Qred_correct. exact H.
  - apply IH. rewrite !Qred_correct. lra.
Qed.

Lemma seq_app_l c b : forall a start t, Forall nonneg a -> start <= t -> t < start + sdur a ->
  seq_sample (a ++ b) start c t = seq_sample a start c t.
Proof.
  induction a as [|x a IH]; intros start t Hn H0 H1.
  - rewrite sdur_nil in H1. lra.
  - inversion Hn; subst. simpl.
    destruct (Qle_bool start t && Qltb' t (Qred (start + wdur x))) eqn:E; auto.
    assert (L : Qle_bool start t = true) by (apply Qle_bool_iff; exact H0). rewrite L in E. simpl in E.
    qb. rewrite Qred_correct in E. rewrite sdur_cons in H1.
    apply IH; auto; rewrite Qred_correct; lra.
Qed.

Lemma seq_app_r c b : forall a start t, Forall nonneg a -> start + sdur a <= t ->
  seq_sample (a ++ b) start c t = seq_sample b (Qred (start + sdur a)) c t.
Proof.
  induction a as [|x a IH]; intros start t Hn H1.
  - simpl. apply seq_shift. rewrite Qred_correct, sdur_nil. ring.
  - inversion Hn as [|? ? H2 H3]; subst. rewrite sdur_cons in H1.
    assert (Ha : 0 <= sdur a) by (rewrite sdur_leaves; apply leaves_dur_nonneg; auto).
    unfold nonneg in H2. simpl.
    assert (E : Qltb' t (Qred (start + wdur x)) = false) by (apply Qltb'_false; rewrite Qred_correct; lra).
    rewrite E, andb_false_r. rewrite IH; auto; [|rewrite Qred_correct; lra].
    apply seq_shift. rewrite !Qred_correct, sdur_cons. ring.
Qed.

(* every element plays the constant b on its own interval => the sequence plays b *)
Lemma seq_sample_const c b : forall l start t,
  Forall (fun x => forall t', 0 <= t' -> t' < wdur x -> oeq (wsample x c t') (Some b)) l ->
  start <= t -> t < start + sdur l -> oeq (seq_sample l start c t) (Some b).
Proof.
  induction l as [|x r IH]; intros start t HF H0 H1.
  - rewrite sdur_nil in H1. lra.
  - inversion HF as [|? ? H2 H3]; subst. simpl. rewrite sdur_cons in H1.
    destruct (Qle_bool start t && Qltb' t (Qred (start + wdur x))) eqn:E.
    + apply andb_prop in E as (E1 & E2). qb. rewrite Qred_correct in E2.
      apply H2; rewrite Qred_correct; lra.
    + assert (L : Qle_bool start t = true) by (apply Qle_bool_iff; exact H0). rewrite L in E. simpl in E.
      qb. rewrite Qred_correct in E. apply IH; auto; rewrite Qred_correct; lra.
Qed.

(* ---------------------------------------------------------------------------------------------------------- *)
(* C. constant_value of a sequence; from_mapping *)
Fixpoint wcv_go (c : chan) (l : list wf) (v : option Q) : option Q :=
  match l with
  | [] => v
  | x :: r => match wcv x c with
              | None => None
              | Some a => match v with
                          | None => wcv_go c r (Some a)
                          | Some b => if Qeq_bool a b then wcv_go c r v else None
                          end
              end
  end.

Lemma wcv_seq_gen c : forall l v,
  (fix go (l : list wf) (v : option Q) : option Q :=
     match l with
     | [] => v
     | x :: r => match wcv x c with
                 | None => None
                 | Some a => match v with
                             | None => go r (Some a)
                             | Some b => if Qeq_bool a b then go r v else None
                             end
                 end
     end) l v = wcv_go c l v.
Proof.
  induction l as [|x r IH]; intros v; simpl; auto.
  destruct (wcv x c); auto. destruct v; auto. destruct (Qeq_bool q q0); auto.
Qed.

Lemma wcv_seq l c : wcv (WSeq l) c = wcv_go c l None.
Proof. exact (wcv_seq_gen c l None). Qed.

Lemma wcv_go_some c : forall l b v, wcv_go c l (Some b) = Some v ->
  v = b /\ Forall (fun x => exists a, wcv x c = Some a /\ a == b) l.
Proof.
  induction l as [|x r IH]; intros b v H; simpl in H.
  - inversion H. auto.
  - destruct (wcv x c) as [a|] eqn:E; [|discriminate]. destruct (Qeq_bool a b) eqn:Q; [|discriminate].
    destruct (IH _ _ H) as (A & B). split; auto. constructor; auto. exists a. split; auto. apply Qeq_bool_iff. exact Q.
Qed.

Lemma wcv_go_none c : forall l v, wcv_go c l None = Some v ->
  Forall (fun x => exists a, wcv x c = Some a /\ a == v) l.
Proof.
  destruct l as [|x r]; intros v H; simpl in H; [discriminate|].
  destruct (wcv x c) as [a|] eqn:E; [|discriminate].
  destruct (wcv_go_some c _ _ _ H) as (A & B). subst v. constructor; auto. exists a. split; auto. reflexivity.
Qed.

Lemma wcv_from_mapping dur d c : cmem c (map fst d) = true -> wcv (from_mapping dur d) c = cassoc c d.
Proof.
  destruct d as [|[k v] [|kv r]]; intro H.
  - discriminate.
  - simpl in *. rewrite orb_false_r in H. rewrite H. reflexivity.
  - unfold from_mapping. revert H. generalize ((k, v) :: kv :: r) as d. clear.
    induction d as [|[k v] d IH]; simpl; intro H; [discriminate|].
    rewrite orb_false_r. destruct (chan_eqb c k); auto.
Qed.

Lemma from_mapping_not_seq dur d : match from_mapping dur d with WSeq _ => False | _ => True end.
Proof. destruct d as [|[k v] [|kv r]]; exact I. Qed.

(* ---------------------------------------------------------------------------------------------------------- *)
(* D. the invariant of to_waveform *)
Section Inv.
Variable C : list chan.

Definition Cc (x : wf) : Prop :=
  forall c v, cmem c C = true -> wcv x c = Some v -> forall t, 0 <= t -> t < wdur x -> oeq (wsample x c t) (Some v).
Definition Celems (w : wf) : Prop :=
  match w with WSeq l => Forall (fun x => Cc x /\ nonneg x) l | _ => Cc w end.
Definition Dd (w : wf) : Prop :=
  forall d, wcvd w = Some d ->
    d <> [] /\ nodupb (map fst d) = true /\ (forall c, cmem c (map fst d) = cmem c C) /\
    forall c v t, cassoc c d = Some v -> oeq (wsample w c t) (Some v).
Definition Sinv (w : wf) (L : list wf) : Prop :=
  wdur w == leaves_dur L /\
  (forall c t, cmem c C = true -> 0 <= t -> t < leaves_dur L -> oeq (wsample w c t) (play_leaves L c t)) /\
  Celems w /\ Dd w.

Lemma Cc_seq l : Forall (fun x => Cc x /\ nonneg x) l -> Cc (WSeq l).
Proof.
  intros HF c v Hc Hw t H0 H1. rewrite wsample_seq. rewrite wcv_seq in Hw. apply wcv_go_none in Hw.
  apply seq_sample_const; auto; [|fold (sdur l) in H1; lra].
  rewrite Forall_forall in *. intros x Hx t' T0 T1. destruct (Hw x Hx) as (a & Ea & Eq).
  destruct (HF x Hx) as (Hcc & _). eapply oeq_trans; [apply (Hcc c a); auto|]. simpl. exact Eq.
Qed.

Lemma Celems_Cc w : Celems w -> Cc w.
Proof. destruct w; simpl; auto. apply Cc_seq. Qed.

Lemma from_mapping_Cc dur d : (forall c, cmem c (map fst d) = cmem c C) -> Cc (from_mapping dur d).
Proof.
  intros Hk c v Hc Hw t _ _. rewrite <- Hk in Hc. rewrite wcv_from_mapping in Hw by exact Hc.
  rewrite from_mapping_sample by exact Hc. rewrite Hw. reflexivity.
Qed.

Lemma from_mapping_Celems dur d : (forall c, cmem c (map fst d) = cmem c C) -> Celems (from_mapping dur d).
Proof.
  intro Hk. pose proof (from_mapping_Cc dur d Hk) as H. pose proof (from_mapping_not_seq dur d) as N.
  destruct (from_mapping dur d); auto. contradiction.
Qed.

Lemma cassoc_keys_some {A} c : forall (d : list (chan * A)) v, cassoc c d = Some v -> cmem c (map fst d) = true.
Proof.
  induction d as [|[k w] d IH]; simpl; intros v H; [discriminate|].
  destruct (chan_eqb c k); simpl; eauto.
Qed.

Lemma from_mapping_Dd dur d : d <> [] -> nodupb (map fst d) = true -> (forall c, cmem c (map fst d) = cmem c C) ->
  Dd (from_mapping dur d).
Proof.
  intros Hne Hn Hk d' Hd'. rewrite from_mapping_wcvd in Hd' by assumption. inversion Hd'; subst d'.
  repeat split; auto. intros c v t Hcv. rewrite from_mapping_sample by (eapply cassoc_keys_some; eauto).
  rewrite Hcv. reflexivity.
Qed.

(* ---- E. from_sequence ---- *)
Definition unseq (w : wf) : list wf := match w with WSeq l => l | _ => [w] end.

Lemma sdur_app a b : sdur (a ++ b) == sdur a + sdur b.
Proof. rewrite !sdur_leaves. apply leaves_dur_app. Qed.

Lemma sdur_unseq w : sdur (unseq w) == wdur w.
Proof.
  destruct w; try (unfold unseq; rewrite sdur_cons, sdur_nil; ring).
  reflexivity.
Qed.

Lemma unseq_sample w c t : 0 <= t -> t < wdur w -> seq_sample (unseq w) 0 c t = wsample w c t.
Proof.
  intros H0 H1.
  assert (G : seq_sample [w] 0 c t = wsample w c t).
  { simpl. assert (E1 : Qle_bool 0 t = true) by (apply Qle_bool_iff; exact H0).
    assert (E2 : Qltb' t (Qred (0 + wdur w)) = true) by (apply Qltb'_true; rewrite Qred_correct; lra).
    rewrite E1, E2. simpl. apply wsample_proper. rewrite Qred_correct. ring. }
  destruct w; try exact G. unfold unseq. symmetry. apply wsample_seq.
Qed.

Lemma unseq_nonneg w : Celems w -> 0 <= wdur w -> Forall (fun x => Cc x /\ nonneg x) (unseq w).
Proof.
  intros H Hd. destruct w; try (constructor; [split; [exact H|exact Hd]|constructor]).
  exact H.
Qed.

Lemma Forall_and_r {A} (P R : A -> Prop) l : Forall (fun x => P x /\ R x) l -> Forall R l.
Proof. induction 1; constructor; tauto. Qed.

Definition Lnonneg (L : list wf) : Prop := Forall nonneg L.

Lemma flat_facts : forall ws Ls, Forall2 Sinv ws Ls -> Forall Lnonneg Ls ->
  Forall (fun x => Cc x /\ nonneg x) (flat_map unseq ws) /\
  sdur (flat_map unseq ws) == leaves_dur (concat Ls) /\
  forall c start t, cmem c C = true -> start <= t -> t < start + leaves_dur (concat Ls) ->
    oeq (seq_sample (flat_map unseq ws) start c t) (play_leaves (concat Ls) c (Qred (t - start))).
Proof.
  induction 1 as [|w L ws Ls (Ha & Hb & Hc & Hd) HF IH]; intro HN.
  - simpl. split; [constructor|]. split; [reflexivity|]. intros c start t _ H0 H1.
    unfold leaves_dur in H1. simpl in H1. lra.
  - inversion HN as [|? ? HL HN']; subst. destruct (IH HN') as (I1 & I2 & I3).
    pose proof (leaves_dur_nonneg L HL) as HLn.
    assert (Hw : 0 <= wdur w) by lra.
    pose proof (unseq_nonneg w Hc Hw) as U1.
    cbn [flat_map concat]. split; [apply Forall_app; auto|]. split.
    + rewrite sdur_app, leaves_dur_app, sdur_unseq, I2, Ha. reflexivity.
    + intros c start t Hin H0 H1. rewrite leaves_dur_app in H1.
      pose proof (Forall_and_r _ _ _ U1) as U2.
      destruct (Qlt_le_dec t (start + wdur w)) as [Lt|Ge].
      * rewrite seq_app_l; auto; [|rewrite sdur_unseq; exact Lt].
        rewrite (seq_shift c (unseq w) start 0 t (Qred (t - start))) by (rewrite Qred_correct; ring).
        rewrite unseq_sample by (rewrite Qred_correct; lra).
        rewrite play_app_l; auto; try (rewrite Qred_correct; lra).
        apply Hb; auto; rewrite Qred_correct; lra.
      * rewrite seq_app_r; auto; [|rewrite sdur_unseq; exact Ge].
        rewrite play_app_r; auto; [|rewrite Qred_correct; lra].
        eapply oeq_trans; [apply I3; auto; rewrite Qred_correct, sdur_unseq; lra|].
        rewrite (play_proper c (concat Ls) _ (Qred (Qred (t - start) - leaves_dur L))); [apply oeq_refl|].
        rewrite !Qred_correct, sdur_unseq, Ha. ring.
Qed.

Definition cvF (cv : option cdict) (w : wf) : option cdict :=
  if nonempty_dict cv && negb (ocdict_eqb cv (wcvd w)) then None else cv.

Lemma fold_cv_none : forall ws, fold_left cvF ws None = None.
Proof. induction ws; simpl; auto. Qed.

Lemma fold_cv_some : forall ws cv0 d, fold_left cvF ws cv0 = Some d ->
  cv0 = Some d /\ (nonempty_dict (Some d) = true -> Forall (fun w => ocdict_eqb (Some d) (wcvd w) = true) ws).
Proof.
  induction ws as [|w ws IH]; intros cv0 d H; simpl in H.
  - split; auto.
  - destruct (IH _ _ H) as (A & B). unfold cvF in A.
    destruct (nonempty_dict cv0 && negb (ocdict_eqb cv0 (wcvd w))) eqn:E; [discriminate|]. subst cv0.
    split; auto. intro Hn. constructor; auto. rewrite Hn in E. simpl in E. apply negb_false_iff in E. exact E.
Qed.

Lemma cassoc_in c : forall (d : cdict) v, cassoc c d = Some v -> In (c, v) d.
Proof.
  induction d as [|[k w] d IH]; simpl; intros v H; [discriminate|].
  destruct (chan_eqb c k) eqn:E; auto. apply chan_eqb_eq in E. inversion H; subst. auto.
Qed.

Lemma play_concat_const c v : forall ws Ls,
  Forall2 (fun w L => Sinv w L /\ Lnonneg L /\ forall t, oeq (wsample w c t) (Some v)) ws Ls ->
  cmem c C = true -> forall t, 0 <= t -> t < leaves_dur (concat Ls) -> oeq (play_leaves (concat Ls) c t) (Some v).
Proof.
  induction 1 as [|w L ws Ls ((Ha & Hb & _) & HL & Hv) _ IH]; intros Hc t H0 H1.
  - unfold leaves_dur in H1. simpl in H1. lra.
  - cbn [concat] in *. rewrite leaves_dur_app in H1. destruct (Qlt_le_dec t (leaves_dur L)) as [Lt|Ge].
    + rewrite play_app_l; auto. eapply oeq_trans; [apply oeq_sym; apply Hb; auto|]. apply Hv.
    + rewrite play_app_r; auto. apply IH; auto; rewrite Qred_correct; lra.
Qed.

Lemma from_sequence_inv : forall ws Ls sw, Forall2 Sinv ws Ls -> Forall Lnonneg Ls ->
  from_sequence ws = Ok sw -> Sinv sw (concat Ls).
Proof.
  intros ws Ls sw HF HN Hs.
  destruct (flat_facts ws Ls HF HN) as (F1 & F2 & F3).
  destruct HF as [|w0 L0 ws Ls S0 HF]; [discriminate|].
  destruct HF as [|w1 L1 ws Ls S1 HF].
  - (* a single part *)
    simpl in Hs. inversion Hs; subst sw. cbn [concat]. rewrite app_nil_r. exact S0.
  - assert (HF' : Forall2 Sinv (w0 :: w1 :: ws) (L0 :: L1 :: Ls)) by (constructor; [exact S0|constructor; [exact S1|exact HF]]).
    remember (w0 :: w1 :: ws) as WS. remember (L0 :: L1 :: Ls) as LS.
    assert (Hs' : match fold_left cvF WS (wcvd w0) with
                  | None => mk_seq (flat_map unseq WS)
                  | Some d => Ok (from_mapping (leaves_dur (flat_map unseq WS)) d)
                  end = Ok sw).
    { subst WS. exact Hs. }
    clear Hs. destruct (fold_left cvF WS (wcvd w0)) as [d|] eqn:Ecv.
    + (* all parts constant with equal values: folded *)
      inversion Hs'; subst sw. clear Hs'.
      apply fold_cv_some in Ecv. destruct Ecv as (E0 & Eall).
      destruct S0 as (_ & _ & _ & D0). destruct (D0 d E0) as (Dne & Dnd & Dk & Dv).
      assert (Hnd : nonempty_dict (Some d) = true) by (destruct d; [congruence|reflexivity]).
      specialize (Eall Hnd).
      split; [rewrite from_mapping_dur by exact Dne; rewrite <- sdur_leaves; exact F2|].
      split; [|split; [apply from_mapping_Celems; exact Dk|apply from_mapping_Dd; auto]].
      intros c t Hc H0 H1.
      assert (Hk : cmem c (map fst d) = true) by (rewrite Dk; exact Hc).
      rewrite from_mapping_sample by exact Hk.
      destruct (cassoc_in_keys c d Hk) as (v & Ev). rewrite Ev. apply oeq_sym.
      apply (play_concat_const c v WS LS); auto.
      clear - HF' HN Eall Ev. revert HN Eall. induction HF' as [|w L ws Ls SI _ IH]; intros HN Eall; constructor.
      * inversion HN; subst. inversion Eall as [|? ? Ew Eall']; subst. split; [exact SI|]. split; [assumption|].
        intro t. destruct (wcvd w) as [dw|] eqn:Edw; [|discriminate]. simpl in Ew.
        unfold cdict_eqb in Ew. apply andb_prop in Ew as (_ & Ew). rewrite forallb_forall in Ew.
        specialize (Ew (c, v) (cassoc_in c d v Ev)). simpl in Ew.
        destruct (cassoc c dw) as [v'|] eqn:Ev'; [|discriminate]. apply Qeq_bool_iff in Ew.
        destruct SI as (_ & _ & _ & Dw). destruct (Dw dw Edw) as (_ & _ & _ & Hv).
        eapply oeq_trans; [apply (Hv c v' t Ev')|]. simpl. symmetry. exact Ew.
      * inversion HN; subst. inversion Eall; subst. apply IH; auto.
    + (* a genuine sequence of the flattened parts *)
      unfold mk_seq in Hs'. destruct (flat_map unseq WS) as [|x r] eqn:Efl; [discriminate|].
      match type of Hs' with (if ?X then _ else _) = _ => destruct X end; [|discriminate].
      inversion Hs'; subst sw. clear Hs'.
      split; [exact F2|]. split; [|split; [exact F1|intros d' Hd'; discriminate]].
      intros c t Hc H0 H1. rewrite wsample_seq.
      eapply oeq_trans; [apply (F3 c 0 t); auto; lra|].
      rewrite (play_proper c _ (Qred (t - 0)) t) by (rewrite Qred_correct; ring). apply oeq_refl.
Qed.

(* ---- F. from_repetition_count ---- *)
Lemma rep_sample sw n c t : 0 < wdur sw -> 0 <= t -> t < wdur sw * inject_Z n ->
  exists k, (0 <= k < n)%Z /\ inject_Z k * wdur sw <= t /\ t < (inject_Z k + 1) * wdur sw /\
            wsample (WRep sw n) c t = wsample sw c (Qred (t - inject_Z k * wdur sw)).
Proof.
  intros Hb H0 H1. set (bd := wdur sw) in *. set (x := t / bd). set (k := Qfloor x).
  assert (T : t == x * bd) by (unfold x; field; lra).
  pose proof (Qfloor_le x) as F1. pose proof (Qlt_floor x) as F2. fold k in F1, F2.
  rewrite inject_Z_plus in F2. change (inject_Z 1) with 1 in F2.
  assert (X0 : 0 <= x).
  { unfold x. apply Qle_shift_div_l; auto. lra. }
  assert (Xn : x < inject_Z n).
  { unfold x. apply Qlt_shift_div_r; auto. lra. }
  assert (K0 : (0 <= k)%Z).
  { assert (A : inject_Z (-1) < inject_Z k).
    { change (inject_Z (-1)) with (-1). lra. }
    rewrite <- Zlt_Qlt in A. lia. }
  assert (Kn : (k < n)%Z).
  { rewrite Zlt_Qlt. lra. }
  exists k. split; [lia|]. split; [rewrite T; apply Qmult_le_compat_r; lra|].
  split; [rewrite T; apply Qmult_lt_compat_r; lra|].
  simpl. fold bd. fold x. fold k.
  assert (E1 : Qle_bool bd 0 = false) by (apply Qle_bool_false; exact Hb). rewrite E1.
  assert (E2 : (0 <=? k)%Z = true) by (apply Z.leb_le; exact K0).
  assert (E3 : (k <? n)%Z = true) by (apply Z.ltb_lt; exact Kn). rewrite E2, E3. reflexivity.
Qed.

Lemma play_const_repeat c v L : Lnonneg L ->
  (forall t, 0 <= t -> t < leaves_dur L -> oeq (play_leaves L c t) (Some v)) ->
  forall N t, 0 <= t -> t < inject_Z (Z.of_nat N) * leaves_dur L -> oeq (play_leaves (repeat_app N L) c t) (Some v).
Proof.
  intros HL Hv. induction N as [|N IH]; intros t H0 H1.
  - change (inject_Z (Z.of_nat 0)) with 0 in H1. lra.
  - cbn [repeat_app]. rewrite Nat2Z.inj_succ in H1. unfold Z.succ in H1. rewrite inject_Z_plus in H1.
    change (inject_Z 1) with 1 in H1.
    destruct (Qlt_le_dec t (leaves_dur L)) as [Lt|Ge].
    + rewrite play_app_l; auto.
    + rewrite play_app_r; auto. apply IH; rewrite Qred_correct; lra.
Qed.

Lemma from_rep_inv sw L n w : Sinv sw L -> Lnonneg L -> 0 < leaves_dur L -> (1 <= n)%Z ->
  from_repetition_count sw n = Ok w -> Sinv w (repeat_app (Z.to_nat n) L).
Proof.
  intros (Ha & Hb & Hc & Hd) HL HD Hn Hr.
  assert (EN : Z.of_nat (Z.to_nat n) = n) by (apply Z2Nat.id; lia).
  pose proof (leaves_dur_repeat (Z.to_nat n) L) as Hdur. rewrite EN in Hdur.
  unfold from_repetition_count in Hr. destruct (wcvd sw) as [d|] eqn:Ed.
  - (* constant body: folded *)
    inversion Hr; subst w. clear Hr. destruct (Hd d Ed) as (Dne & Dnd & Dk & Dv).
    split; [rewrite from_mapping_dur by exact Dne; rewrite Qred_correct, Hdur, Ha; ring|].
    split; [|split; [apply from_mapping_Celems; exact Dk|apply from_mapping_Dd; auto]].
    intros c t Hin H0 H1.
    assert (Hk : cmem c (map fst d) = true) by (rewrite Dk; exact Hin).
    rewrite from_mapping_sample by exact Hk. destruct (cassoc_in_keys c d Hk) as (v & Ev). rewrite Ev.
    apply oeq_sym. apply play_const_repeat; auto; [|rewrite EN, <- Hdur; exact H1].
    intros t' T0 T1. eapply oeq_trans; [apply oeq_sym; apply Hb; auto|]. apply (Dv c v t' Ev).
  - destruct (n <? 1)%Z eqn:En; [discriminate|]. inversion Hr; subst w. clear Hr.
    assert (Hbd : 0 < wdur sw) by lra.
    split; [simpl; rewrite Qred_correct, Hdur, Ha; ring|].
    split; [|split; [|intros d' Hd'; simpl in Hd'; congruence]].
    + intros c t Hin H0 H1. rewrite Hdur in H1.
      destruct (rep_sample sw n c t Hbd H0) as (k & (K0 & Kn) & L1 & L2 & Es); [rewrite Ha; lra|].
      rewrite Es.
      assert (Ek : Z.of_nat (Z.to_nat k) = k) by (apply Z2Nat.id; lia).
      rewrite (play_repeat c L HL (Z.to_nat n) (Z.to_nat k) t); try (rewrite Ek); try lia;
        try (rewrite <- Ha; assumption).
      eapply oeq_trans; [apply Hb; auto; rewrite Qred_correct; lra|].
      rewrite (play_proper c L _ (Qred (t - inject_Z k * leaves_dur L))); [apply oeq_refl|].
      rewrite !Qred_correct, Ha. reflexivity.
    + simpl. intros c v Hin Hw t H0 H1. simpl in Hw. simpl in H1. rewrite Qred_correct in H1.
      destruct (rep_sample sw n c t Hbd H0 H1) as (k & _ & L1 & L2 & Es). rewrite Es.
      apply (Celems_Cc sw Hc c v Hin Hw); rewrite Qred_correct; lra.
Qed.

(* ---- G. to_waveform ---- *)
Definition LeafG (w : wf) : Prop := 0 < wdur w /\ Celems w /\ Dd w.

Fixpoint lgood (l : loop) : Prop :=
  match l with
  | Leaf n w => n = 1%Z /\ LeafG w
  | Nest n cs => (1 <= n)%Z /\ cs <> [] /\
                 (fix all (cs : list loop) : Prop := match cs with [] => True | x :: r => lgood x /\ all r end) cs
  end.

Definition Tinv (l : loop) : Prop :=
  lgood l -> forall w, to_waveform l = Ok w ->
  Sinv w (flatten l) /\ Lnonneg (flatten l) /\ 0 < leaves_dur (flatten l).

Lemma Sinv_leaf w : LeafG w -> Sinv w [w].
Proof.
  intros (Hp & Hc & Hd). split; [rewrite leaves_dur_cons; unfold leaves_dur; simpl; ring|]. split; [|split; auto].
  intros c t _ H0 H1. rewrite leaves_dur_cons in H1. unfold leaves_dur in H1. simpl in H1. simpl.
  assert (E : Qltb' t (wdur w) = true) by (apply Qltb'_true; lra). rewrite E. apply oeq_refl.
Qed.

Definition tw_list : list loop -> result (list wf) :=
  fix go (cs : list loop) : result (list wf) :=
    match cs with
    | [] => Ok []
    | x :: r => w <- to_waveform x ;; ws <- go r ;; Ok (w :: ws)
    end.

Lemma to_waveform_nest n cs :
  to_waveform (Nest n cs) =
  (sw <- match cs with [x] => to_waveform x | _ => ws <- tw_list cs ;; from_sequence ws end ;;
   if (1 <? n)%Z then from_repetition_count sw n else Ok sw).
Proof. reflexivity. Qed.

Lemma tw_list_inv : forall cs, Forall Tinv cs ->
  (fix all (cs : list loop) : Prop := match cs with [] => True | x :: r => lgood x /\ all r end) cs ->
  forall ws, tw_list cs = Ok ws ->
  Forall2 Sinv ws (map flatten cs) /\ Forall Lnonneg (map flatten cs) /\
  Forall (fun L => 0 < leaves_dur L) (map flatten cs).
Proof.
  induction 1 as [|x r Hx _ IH]; intros Hg ws Hw; simpl in Hw.
  - inversion Hw; subst. simpl. repeat split; constructor.
  - destruct Hg as (G1 & G2). destruct (to_waveform x) as [w|e] eqn:E; simpl in Hw; [|discriminate].
    destruct (tw_list r) as [ws'|e] eqn:E'; simpl in Hw; [|discriminate]. inversion Hw; subst ws.
    destruct (Hx G1 w E) as (A & B & D). destruct (IH G2 ws' eq_refl) as (A' & B' & D').
    simpl. repeat split; constructor; auto.
Qed.

Lemma concat_pos : forall Ls, Ls <> [] -> Forall Lnonneg Ls -> Forall (fun L => 0 < leaves_dur L) Ls ->
  Lnonneg (concat Ls) /\ 0 < leaves_dur (concat Ls).
Proof.
  intros Ls Hne HN HP. split.
  - clear Hne HP. induction HN; simpl; [constructor|]. apply Forall_app. auto.
  - destruct Ls as [|L Ls]; [congruence|]. inversion HN; subst. inversion HP; subst. cbn [concat].
    rewrite leaves_dur_app.
    assert (0 <= leaves_dur (concat Ls)); [|lra].
    apply leaves_dur_nonneg. clear - H2. induction H2; simpl; [constructor|]. apply Forall_app. auto.
Qed.

Lemma flatten_nest' n cs : flatten (Nest n cs) = repeat_app (Z.to_nat n) (concat (map flatten cs)).
Proof. rewrite flatten_nest. unfold flatten_list. rewrite flat_map_concat_map. reflexivity. Qed.

Lemma to_waveform_inv : forall l, Tinv l.
Proof.
  induction l using loop_ind2; intros Hg w0 Hw.
  - (* leaf *)
    destruct Hg as (-> & HG). simpl in Hw. inversion Hw; subst w0.
    change (flatten (Leaf 1 w)) with (repeat_app (Z.to_nat 1) [w]). change (Z.to_nat 1) with 1%nat. cbn [repeat_app app].
    split; [apply Sinv_leaf; exact HG|]. destruct HG as (Hp & _). split.
    + constructor; [unfold nonneg; lra|constructor].
    + rewrite leaves_dur_cons. unfold leaves_dur. simpl. lra.
  - (* nest *)
    destruct Hg as (Hn & Hne & Hall). rewrite to_waveform_nest in Hw. rewrite flatten_nest'.
    set (X := concat (map flatten cs)).
    assert (Hsw : forall sw, match cs with [x] => to_waveform x | _ => ws <- tw_list cs ;; from_sequence ws end = Ok sw ->
                             Sinv sw X /\ Lnonneg X /\ 0 < leaves_dur X).
    { intros sw Hs.
      assert (Hgen : forall ws, tw_list cs = Ok ws -> from_sequence ws = Ok sw -> Sinv sw X /\ Lnonneg X /\ 0 < leaves_dur X).
      { intros ws Hws Hfs. destruct (tw_list_inv cs H Hall ws Hws) as (A & B & D).
        split; [apply (from_sequence_inv ws (map flatten cs) sw A B Hfs)|].
        apply concat_pos; auto. destruct cs; [congruence|discriminate]. }
      destruct cs as [|x [|y r]]; [congruence| |].
      - apply (Hgen [sw]); [simpl; rewrite Hs; reflexivity|reflexivity].
      - destruct (tw_list (x :: y :: r)) as [ws|e] eqn:E; simpl in Hs; [|discriminate].
        apply (Hgen ws); auto. }
    match type of Hw with (bind ?S _) = _ => destruct S as [sw|e] eqn:Es end; simpl in Hw; [|discriminate].
    destruct (Hsw sw eq_refl) as (A & B & D).
    destruct (1 <? n)%Z eqn:En.
    + split; [apply (from_rep_inv sw X n w0); auto|]. split.
      * apply Forall_repeat_app. exact B.
      * rewrite leaves_dur_repeat. rewrite Z2Nat.id by lia.
        assert (0 < inject_Z n) by (change 0 with (inject_Z 0); rewrite <- Zlt_Qlt; lia). nra.
    + inversion Hw; subst w0. assert (n = 1%Z) by (apply Z.ltb_ge in En; lia). subst n.
      change (Z.to_nat 1) with 1%nat. cbn [repeat_app]. rewrite app_nil_r. auto.
Qed.

Theorem sampling_sound prog w : lgood prog -> to_waveform prog = Ok w ->
  forall c t, cmem c C = true -> 0 <= t -> t < loop_dur prog -> oeq (get_sampled w c t) (play prog c t).
Proof.
  intros Hg Hw c t Hc H0 H1. destruct (to_waveform_inv prog Hg w Hw) as ((Ha & Hb & Hcc & _) & _ & _).
  unfold get_sampled, play. unfold loop_dur in H1.
  destruct (wcv w c) as [v|] eqn:Ev; [|apply Hb; auto].
  eapply oeq_trans; [|apply Hb; auto]. apply oeq_sym. apply (Celems_Cc w Hcc c v Hc Ev); auto. lra.
Qed.

End Inv.
