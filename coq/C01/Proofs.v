(* C01 — proofs *)
From Coq Require Import ZArith QArith Qround List Bool Lia Lra.
Require Import QV.common.Util QV.C01.Model QV.C01.Spec.
Import ListNotations.
Open Scope Q_scope.

Lemma at_nil : forall c t, at_ [] c t = None.
Proof. reflexivity. Qed.
