(* C01 — proofs *)
From Coq Require Import ZArith QArith Qround List Bool Lia Lqa Setoid.
Require Import QV.common.Util QV.C01.Model QV.C01.Spec.
Import ListNotations.
Open Scope Q_scope.
Arguments Qred : simpl never.
Arguments Qplus : simpl never.
Arguments Qminus : simpl never.
Arguments Qmult : simpl never.
Arguments Qdiv : simpl never.
Arguments Qopp : simpl never.
Arguments Qinv : simpl never.
Arguments Qle_bool : simpl never.
Arguments Qeq_bool : simpl never.
Arguments Qfloor : simpl never.
Arguments inject_Z : simpl never.
Arguments Z.to_nat : simpl never.

(* ---------------------------------------------------------------------------------------------------------- *)
(* rationals *)
Lemma Qle_bool_compat a a' b b' : a == a' -> b == b' -> Qle_bool a b = Qle_bool a' b'.
Proof.
  intros Ha Hb. destruct (Qle_bool a b) eqn:E; symmetry.
  - apply Qle_bool_iff in E. apply Qle_bool_iff. rewrite <- Ha, <- Hb. exact E.
  - destruct (Qle_bool a' b') eqn:E'; auto. apply Qle_bool_iff in E'. rewrite <- Ha, <- Hb in E'.
    apply Qle_bool_iff in E'. congruence.
Qed.
Lemma Qltb'_compat a a' b b' : a == a' -> b == b' -> Qltb' a b = Qltb' a' b'.
Proof. intros. unfold Qltb'. f_equal. apply Qle_bool_compat; auto. Qed.
Lemma Qltb'_true a b : Qltb' a b = true <-> a < b.
Proof.
  unfold Qltb'. rewrite negb_true_iff. split; intro H.
  - apply Qnot_le_lt. intro L. apply Qle_bool_iff in L. congruence.
  - destruct (Qle_bool b a) eqn:E; auto. apply Qle_bool_iff in E. exfalso. lra.
Qed.
Lemma Qltb'_false a b : Qltb' a b = false <-> b <= a.
Proof.
  unfold Qltb'. rewrite negb_false_iff. apply Qle_bool_iff.
Qed.
Lemma Qeq_bool_compat a a' b b' : a == a' -> b == b' -> Qeq_bool a b = Qeq_bool a' b'.
Proof.
  intros Ha Hb. destruct (Qeq_bool a b) eqn:E; symmetry.
  - apply Qeq_bool_iff in E. apply Qeq_bool_iff. rewrite <- Ha, <- Hb. exact E.
  - destruct (Qeq_bool a' b') eqn:E'; auto. apply Qeq_bool_iff in E'. rewrite <- Ha, <- Hb in E'.
    apply Qeq_bool_iff in E'. congruence.
Qed.
Lemma Qred_eq a b : a == b -> Qred a = Qred b.
Proof. apply Qred_complete. Qed.

(* option Q up to Qeq *)
Definition oeq (a b : option Q) : Prop :=
  match a, b with Some x, Some y => x == y | None, None => True | _, _ => False end.
Lemma oeq_refl a : oeq a a.
Proof. destruct a; simpl; auto. reflexivity. Qed.
Lemma oeq_trans a b c : oeq a b -> oeq b c -> oeq a c.
Proof. destruct a, b, c; simpl; intros; try tauto. etransitivity; eauto. Qed.
Lemma oeq_sym a b : oeq a b -> oeq b a.
Proof. destruct a, b; simpl; intros; try tauto. symmetry; auto. Qed.

(* ---------------------------------------------------------------------------------------------------------- *)
(* induction principle for waveforms *)
Section wf_ind2.
  Variable P : wf -> Prop.
  Hypothesis Hc : forall d c v, P (WConst d c v).
  Hypothesis Ht : forall c tbl, P (WTable c tbl).
  Hypothesis Hs : forall l, Forall P l -> P (WSeq l).
  Hypothesis Hm : forall l, Forall P l -> P (WMulti l).
  Hypothesis Hr : forall b n, P b -> P (WRep b n).
  Hypothesis Htr : forall w tr, P w -> P (WTrans w tr).
  Hypothesis Ha : forall l op r, P l -> P r -> P (WArith l op r).
  Hypothesis Hn : forall w, P w -> P (WNeg w).
  Hypothesis Hv : forall w, P w -> P (WRev w).
  Fixpoint wf_ind2 (w : wf) : P w :=
    match w with
    | WConst d c v => Hc d c v
    | WTable c tbl => Ht c tbl
    | WSeq l => Hs l ((fix go (l : list wf) : Forall P l :=
                         match l with [] => Forall_nil _ | x :: r => Forall_cons _ (wf_ind2 x) (go r) end) l)
    | WMulti l => Hm l ((fix go (l : list wf) : Forall P l :=
                           match l with [] => Forall_nil _ | x :: r => Forall_cons _ (wf_ind2 x) (go r) end) l)
    | WRep b n => Hr b n (wf_ind2 b)
    | WTrans w tr => Htr w tr (wf_ind2 w)
    | WArith l op r => Ha l op r (wf_ind2 l) (wf_ind2 r)
    | WNeg w => Hn w (wf_ind2 w)
    | WRev w => Hv w (wf_ind2 w)
    end.
End wf_ind2.

(* sampling depends on the time only up to equality of rationals (Leibniz-equal results) *)
Lemma table_sample_proper : forall rest prev t t' acc, t == t' ->
  table_sample prev rest t acc = table_sample prev rest t' acc.
Proof.
  induction rest as [|e r IH]; intros prev t t' acc H; simpl; auto.
  rewrite (Qle_bool_compat (et prev) (et prev) t t'), (Qle_bool_compat t t' (et e) (et e)); auto; try reflexivity.
  assert (Hi : interp_at (ei e) (et prev) (ev prev) (et e) (ev e) t = interp_at (ei e) (et prev) (ev prev) (et e) (ev e) t').
  { unfold interp_at. destruct (ei e); auto. destruct (Qeq_bool (et e) (et prev)); auto.
    f_equal. apply Qred_eq. rewrite H. reflexivity. }
  rewrite Hi. apply IH; auto.
Qed.

Lemma Qfloor_compat a b : a == b -> Qfloor a = Qfloor b.
Proof. intro H. rewrite H. reflexivity. Qed.

Lemma wsample_proper : forall w c t t', t == t' -> wsample w c t = wsample w c t'.
Proof.
  induction w using wf_ind2; intros ch t t' Ht; simpl; auto.
  - destruct tbl; auto. apply table_sample_proper; auto.
  - generalize 0 as start. induction H as [|x r Hx _ IH]; intros start; simpl; auto.
    rewrite (Qle_bool_compat start start t t'), (Qltb'_compat t t' (Qred (start + wdur x)) (Qred (start + wdur x)));
      auto; try reflexivity.
    destruct (Qle_bool start t' && Qltb' t' (Qred (start + wdur x))).
    + apply Hx. rewrite Ht. reflexivity.
    + apply IH.
  - induction H as [|x r Hx _ IH]; simpl; auto.
    destruct (cmem ch (wchans x)); auto.
  - destruct (Qle_bool (wdur w) 0); auto.
    assert (Hk : Qfloor (t / wdur w) = Qfloor (t' / wdur w)) by (apply Qfloor_compat; rewrite Ht; reflexivity).
    rewrite Hk. destruct ((0 <=? Qfloor (t' / wdur w))%Z && (Qfloor (t' / wdur w) <? n)%Z); auto.
    apply IHw. rewrite Ht. reflexivity.
  - f_equal. f_equal. apply map_ext. intros ic. f_equal. apply IHw; auto.
  - rewrite (IHw1 ch t t' Ht), (IHw2 ch t t' Ht). reflexivity.
  - rewrite (IHw ch t t' Ht). reflexivity.
  - apply IHw. rewrite Ht. reflexivity.
Qed.

(* ---------------------------------------------------------------------------------------------------------- *)
(* lists *)
Lemma repeat_app_comm {A} n (l : list A) : repeat_app n l ++ l = l ++ repeat_app n l.
Proof. induction n; simpl; [rewrite app_nil_r; auto|]. rewrite <- app_assoc, IHn. reflexivity. Qed.
Lemma repeat_app_rev {A} n (l : list A) : rev (repeat_app n l) = repeat_app n (rev l).
Proof. induction n; simpl; auto. rewrite rev_app_distr, IHn, repeat_app_comm. reflexivity. Qed.
Lemma repeat_app_map {A B} (f : A -> B) n l : map f (repeat_app n l) = repeat_app n (map f l).
Proof. induction n; simpl; auto. rewrite map_app, IHn. reflexivity. Qed.
Lemma Forall2_repeat_app {A B} (R : A -> B -> Prop) n l l' :
  Forall2 R l l' -> Forall2 R (repeat_app n l) (repeat_app n l').
Proof. intros H. induction n; simpl; [constructor|]. apply Forall2_app; auto. Qed.
Lemma Forall2_rev {A B} (R : A -> B -> Prop) l l' : Forall2 R l l' -> Forall2 R (rev l) (rev l').
Proof. induction 1; simpl; [constructor|]. apply Forall2_app; auto. Qed.
Lemma Forall2_map {A B C D} (R : C -> D -> Prop) (f : A -> C) (g : B -> D) l l' :
  Forall2 (fun a b => R (f a) (g b)) l l' -> Forall2 R (map f l) (map g l').
Proof. induction 1; simpl; constructor; auto. Qed.
Lemma Forall2_map_inv {A B C D} (R : C -> D -> Prop) (f : A -> C) (g : B -> D) l l' :
  Forall2 R (map f l) (map g l') -> Forall2 (fun a b => R (f a) (g b)) l l'.
Proof.
  revert l'. induction l; intros [|b l'] H; simpl in H; inversion H; subst; constructor; auto.
Qed.

(* ---------------------------------------------------------------------------------------------------------- *)
(* program trees *)
Section loop_ind2.
  Variable P : loop -> Prop.
  Hypothesis Hl : forall n w, P (Leaf n w).
  Hypothesis Hn : forall n cs, Forall P cs -> P (Nest n cs).
  Fixpoint loop_ind2 (l : loop) : P l :=
    match l with
    | Leaf n w => Hl n w
    | Nest n cs => Hn n cs ((fix go (cs : list loop) : Forall P cs :=
                               match cs with [] => Forall_nil _ | x :: r => Forall_cons _ (loop_ind2 x) (go r) end) cs)
    end.
End loop_ind2.

Definition flatten_list (cs : list loop) : list wf := flat_map flatten cs.

Lemma flatten_nest n cs : flatten (Nest n cs) = repeat_app (Z.to_nat n) (flatten_list cs).
Proof.
  reflexivity.
Qed.

Lemma flatten_reverse : forall l, flatten (reverse_loop l) = rev (map wreversed (flatten l)).
Proof.
  induction l using loop_ind2.
  - simpl. rewrite repeat_app_map, repeat_app_rev. reflexivity.
  - change (reverse_loop (Nest n cs)) with
      (Nest n ((fix go (cs : list loop) : list loop := match cs with [] => [] | x :: r => go r ++ [reverse_loop x] end) cs)).
    rewrite !flatten_nest. rewrite repeat_app_map, repeat_app_rev. f_equal.
    unfold flatten_list. induction H as [|x r Hx _ IH]; simpl; auto.
    rewrite flat_map_app. simpl. rewrite app_nil_r. rewrite IH, Hx. rewrite map_app, rev_app_distr. reflexivity.
Qed.

(* ---------------------------------------------------------------------------------------------------------- *)
(* a leaf waveform plays a piece: same duration, same channels, same samples on the CLOSED interval [0, d] *)
Definition chans_same (a b : list chan) : Prop := forall c, cmem c a = cmem c b.

Definition leaf_matches (w : wf) (p : piece) : Prop :=
  wdur w == pdur p /\ 0 < pdur p /\ chans_same (wchans w) (pchans p) /\
  forall c t, cmem c (pchans p) = true -> 0 <= t -> t <= pdur p -> oeq (wsample w c t) (pval p c t).

Definition ptr (gt : option trafo) (p : piece) : piece :=
  match gt with Some tr => piece_trafo tr p | None => p end.

Definition olist {A} (o : option A) : list A := match o with Some a => [a] | None => [] end.

Lemma total_cons p r : total (p :: r) == pdur p + total r.
Proof. unfold total; simpl. apply Qred_correct. Qed.

(* half-open junctions: the unrolled leaves play what the pieces denote *)
Lemma play_at : forall ws pcs, Forall2 leaf_matches ws pcs ->
  forall c t, Forall (fun p => cmem c (pchans p) = true) pcs ->
  0 <= t -> t < total pcs -> oeq (play_leaves ws c t) (at_ pcs c t).
Proof.
  induction 1 as [|w p ws pcs Hm _ IH]; intros c t Hc H0 Ht.
  - simpl. exact I.
  - destruct Hm as (Hd & Hp & _ & Hs). inversion Hc; subst. simpl.
    rewrite (Qltb'_compat t t (wdur w) (pdur p)); [|reflexivity|exact Hd].
    destruct (Qltb' t (pdur p)) eqn:E.
    + apply Qltb'_true in E. apply Hs; auto; lra.
    + apply Qltb'_false in E. rewrite (Qred_eq (t - wdur w) (t - pdur p)) by (rewrite Hd; reflexivity).
      rewrite total_cons in Ht.
      apply IH; auto; rewrite Qred_correct; lra.
Qed.

Lemma leaves_dur_total : forall ws pcs, Forall2 leaf_matches ws pcs -> leaves_dur ws == total pcs.
Proof.
  induction 1 as [|w p ws pcs Hm _ IH]; [reflexivity|].
  unfold leaves_dur, total in *; simpl. rewrite !Qred_correct. destruct Hm as (Hd & _). rewrite Hd, IH. reflexivity.
Qed.

(* time reversal of a leaf = the mirrored piece *)
Lemma leaf_rev w q : leaf_matches w q -> leaf_matches (wreversed w) (mirror q).
Proof.
  intros (Hd & Hp & Hc & Hs).
  assert (G : leaf_matches (WRev w) (mirror q)).
  { repeat split; auto. intros c t Hin H0 H1. simpl in *.
    rewrite (Qred_eq (wdur w - t) (pdur q - t)) by (rewrite Hd; reflexivity).
    apply Hs; auto; rewrite Qred_correct; lra. }
  destruct w; try exact G.
  (* constant waveforms are their own reverse: convertible with G *)
  - (* ReversedWaveform.reversed() is the inner waveform *)
    simpl in *. repeat split; auto. intros ch t Hin H0 H1. simpl.
    assert (E : wsample w ch (Qred (wdur w - Qred (pdur q - t))) = wsample w ch t).
    { apply wsample_proper. rewrite !Qred_correct. rewrite Hd. ring. }
    cbn in H1, Hin. rewrite <- E. apply (Hs ch (Qred (pdur q - t))); auto; rewrite Qred_correct; lra.
Qed.

Lemma ptr_mirror gt p : ptr gt (mirror p) = mirror (ptr gt p).
Proof. destruct gt; reflexivity. Qed.

Lemma Forall2_rev_leaves gt : forall pcs L, Forall2 leaf_matches L (map (ptr gt) pcs) ->
  Forall2 leaf_matches (map wreversed L) (map (ptr gt) (map mirror pcs)).
Proof.
  induction pcs as [|p r IH]; intros L H; simpl in *; inversion H; subst; simpl; constructor.
  - rewrite ptr_mirror. apply leaf_rev; auto.
  - apply IH; auto.
Qed.

Lemma Forall2_nil_map {A B C} (R : A -> C -> Prop) (f : B -> C) l : Forall2 R [] (map f l) -> l = [].
Proof. destruct l; simpl; intro H; auto. inversion H. Qed.

(* ---------------------------------------------------------------------------------------------------------- *)
(* templates *)
Section pt_ind2.
  Variable P : pt -> Prop.
  Hypothesis Ha : forall a, P (PAtom a).
  Hypothesis Hs : forall l, Forall P l -> P (PSeq l).
  Hypothesis Hr : forall n b, P b -> P (PRep n b).
  Hypothesis Hf : forall i a b c body, P body -> P (PFor i a b c body).
  Hypothesis Hm : forall pm chm b, P b -> P (PMap pm chm b).
  Hypothesis Hv : forall b, P b -> P (PRev b).
  Hypothesis Hp : forall b ow, P b -> P (PPar b ow).
  Hypothesis Hx : forall l op sc b, P b -> P (PArith l op sc b).
  Fixpoint pt_ind2 (p : pt) : P p :=
    match p with
    | PAtom a => Ha a
    | PSeq l => Hs l ((fix go (l : list pt) : Forall P l :=
                         match l with [] => Forall_nil _ | x :: r => Forall_cons _ (pt_ind2 x) (go r) end) l)
    | PRep n b => Hr n b (pt_ind2 b)
    | PFor i a b c body => Hf i a b c body (pt_ind2 body)
    | PMap pm chm b => Hm pm chm b (pt_ind2 b)
    | PRev b => Hv b (pt_ind2 b)
    | PPar b ow => Hp b ow (pt_ind2 b)
    | PArith l op sc b => Hx l op sc b (pt_ind2 b)
    end.
End pt_ind2.

(* the atomic obligation: what build_waveform + the atomic emission (global transformation, constant shortcut)
   produce plays the atom's piece *)
Definition atom_ok (G : option trafo -> Prop) (a : atom) : Prop :=
  forall s cm gt ow, G gt -> build_waveform a s cm = Ok ow ->
  exists op, denote_atom a (lookup s) cm = Ok op /\
             Forall2 leaf_matches (flatten_list (atomic_emit ow gt)) (map (ptr gt) (olist op)).

Fixpoint atoms_ok (G : option trafo -> Prop) (p : pt) : Prop :=
  match p with
  | PAtom a => atom_ok G a
  | PSeq l => (fix go (l : list pt) : Prop := match l with [] => True | x :: r => atoms_ok G x /\ go r end) l
  | PRep _ b => atoms_ok G b
  | PFor _ _ _ _ b => atoms_ok G b
  | PMap _ _ b => atoms_ok G b
  | PRev b => atoms_ok G b
  | PPar b _ => atoms_ok G b
  | PArith _ _ _ b => atoms_ok G b
  end.

(* guard: at most one transformation-creating node (parallel channel / scalar arithmetic) on every path *)
Fixpoint guard_single_trafo (under : bool) (p : pt) : bool :=
  match p with
  | PAtom _ => true
  | PSeq l => (fix go (l : list pt) : bool := match l with [] => true | x :: r => guard_single_trafo under x && go r end) l
  | PRep _ b => guard_single_trafo under b
  | PFor _ _ _ _ b => guard_single_trafo under b
  | PMap _ _ b => guard_single_trafo under b
  | PRev b => guard_single_trafo under b
  | PPar b _ => negb under && guard_single_trafo true b
  | PArith _ _ _ b => negb under && guard_single_trafo true b
  end.

(* no transformation-creating node at all *)
Fixpoint no_trafo (p : pt) : bool :=
  match p with
  | PAtom _ => true
  | PSeq l => (fix go (l : list pt) : bool := match l with [] => true | x :: r => no_trafo x && go r end) l
  | PRep _ b => no_trafo b
  | PFor _ _ _ _ b => no_trafo b
  | PMap _ _ b => no_trafo b
  | PRev b => no_trafo b
  | PPar _ _ => false
  | PArith _ _ _ _ => false
  end.

Definition is_some {A} (o : option A) : bool := match o with Some _ => true | None => false end.

Lemma map_ptr_none l : map (ptr None) l = l.
Proof. induction l; simpl; congruence. Qed.

Lemma cp_denote (G : option trafo -> Prop) : forall p, atoms_ok G p ->
  ((forall tr, G (Some tr)) \/ no_trafo p = true) -> forall s cm gt cs, G gt ->
  guard_single_trafo (is_some gt) p = true -> cp p s cm gt = Ok cs ->
  exists pcs, denote p (lookup s) cm = Ok pcs /\ Forall2 leaf_matches (flatten_list cs) (map (ptr gt) pcs).
Proof.
  induction p using pt_ind2; intros Hok HG s cm gt cs HGt Hg Hcp.
  - (* atom *)
    simpl in *. destruct (build_waveform a s cm) as [ow|e] eqn:E; simpl in Hcp; [|discriminate].
    inversion Hcp; subst. destruct (Hok s cm gt ow HGt E) as (op & Hd & HF).
    rewrite Hd. simpl. exists (olist op). split; [destruct op; reflexivity|exact HF].
  - (* sequence *)
    revert cs Hok HG Hg Hcp. induction H as [|x r Hx _ IH]; intros cs Hok HG Hg Hcp.
    + simpl in *. inversion Hcp; subst. exists []. split; [reflexivity|constructor].
    + simpl in Hok, Hg, Hcp. destruct Hok as (Hok1 & Hok2). apply andb_prop in Hg as (Hg1 & Hg2).
      destruct (cp x s cm gt) as [a|e] eqn:E1; simpl in Hcp; [|discriminate].
      match type of Hcp with (bind ?X _) = _ => destruct X as [b|e] eqn:E2 end; simpl in Hcp; [|discriminate].
      inversion Hcp; subst.
      assert (HG1 : (forall tr, G (Some tr)) \/ no_trafo x = true).
      { destruct HG as [HG|HG]; [left; auto|right]. simpl in HG. apply andb_prop in HG. tauto. }
      assert (HG2 : (forall tr, G (Some tr)) \/ no_trafo (PSeq r) = true).
      { destruct HG as [HG|HG]; [left; auto|right]. simpl in HG. apply andb_prop in HG. simpl. tauto. }
      destruct (Hx Hok1 HG1 s cm gt a HGt Hg1 E1) as (pa & Hda & HFa).
      destruct (IH b Hok2 HG2 Hg2 E2) as (pb & Hdb & HFb).
      exists (pa ++ pb). split.
      * simpl. rewrite Hda. simpl. simpl in Hdb. rewrite Hdb. reflexivity.
      * unfold flatten_list in *. rewrite flat_map_app, map_app. apply Forall2_app; auto.
  - (* repetition *)
    simpl in *. unfold evals in Hcp.
    destruct (eval (lookup s) n) as [v|e]; simpl in *; [|discriminate].
    destruct (to_int ENotInt v) as [k|e]; simpl in *; [|discriminate].
    destruct (k <=? 0)%Z.
    + inversion Hcp; subst. exists []. split; [reflexivity|constructor].
    + destruct (cp p s cm gt) as [cs'|e] eqn:E; simpl in Hcp; [|discriminate].
      destruct (IHp Hok HG s cm gt cs' HGt Hg E) as (pcs & Hd & HF). rewrite Hd. simpl.
      exists (repeat_app (Z.to_nat k) pcs). split; [reflexivity|].
      destruct cs' as [|c0 cr]; inversion Hcp; subst.
      * apply Forall2_nil_map in HF. subst. clear. induction (Z.to_nat k); simpl; auto; constructor.
      * unfold flatten_list at 1. simpl. rewrite app_nil_r. rewrite repeat_app_map.
        apply Forall2_repeat_app. exact HF.
  - (* for loop *)
    simpl in *. unfold evals in Hcp.
    destruct (eval (lookup s) a) as [va|e]; simpl in *; [|discriminate].
    destruct (to_int EValue va) as [ka|e]; simpl in *; [|discriminate].
    destruct (eval (lookup s) b) as [vb|e]; simpl in *; [|discriminate].
    destruct (to_int EValue vb) as [kb|e]; simpl in *; [|discriminate].
    destruct (eval (lookup s) c) as [vc|e]; simpl in *; [|discriminate].
    destruct (to_int EValue vc) as [kc|e]; simpl in *; [|discriminate].
    destruct (kc =? 0)%Z; [discriminate|].
    revert cs Hcp. generalize (zrange ka kb kc) as rng. induction rng as [|j r IH]; intros cs Hcp.
    + inversion Hcp; subst. exists []. split; [reflexivity|constructor].
    + destruct (cp p (SRange s i j) cm gt) as [x|e] eqn:E1; simpl in Hcp; [|discriminate].
      match type of Hcp with (bind ?X _) = _ => destruct X as [y|e] eqn:E2 end; simpl in Hcp; [|discriminate].
      inversion Hcp; subst.
      destruct (IHp Hok HG (SRange s i j) cm gt x HGt Hg E1) as (px & Hdx & HFx).
      destruct (IH y eq_refl) as (py & Hdy & HFy).
      exists (px ++ py). split.
      * change (lookup (SRange s i j)) with (env_idx (lookup s) i j) in Hdx. rewrite Hdx. simpl. rewrite Hdy. reflexivity.
      * unfold flatten_list in *. rewrite flat_map_app, map_app. apply Forall2_app; auto.
  - (* mapping *)
    simpl in *. destruct (IHp Hok HG (SMapped s pm (map_ids pm p)) (cm_compose cm chm) gt cs HGt Hg Hcp) as (pcs & Hd & HF).
    exists pcs. split; auto.
  - (* time reversal *)
    simpl in *. destruct (cp p s cm gt) as [cs'|e] eqn:E; simpl in Hcp; [|discriminate].
    destruct (IHp Hok HG s cm gt cs' HGt Hg E) as (pcs & Hd & HF). rewrite Hd. simpl.
    exists (rev (map mirror pcs)). split; [reflexivity|].
    destruct cs' as [|c0 cr]; inversion Hcp; subst.
    + apply Forall2_nil_map in HF. subst. constructor.
    + unfold flatten_list at 1. cbn [flat_map]. rewrite app_nil_r.
      change (flatten (Nest 1 _)) with (flatten (reverse_loop (Nest 1 (c0 :: cr)))). rewrite flatten_reverse.
      rewrite flatten_nest. change (Z.to_nat 1) with 1%nat. cbn [repeat_app]. rewrite app_nil_r.
      rewrite map_rev. apply Forall2_rev. apply Forall2_rev_leaves. exact HF.
  - (* parallel channel *)
    simpl in *. apply andb_prop in Hg as (Hu & Hg). destruct gt; [discriminate|].
    destruct (par_values (lookup s) cm ow []) as [vals|e]; simpl in *; [|discriminate].
    destruct HG as [HG|HG]; [|discriminate].
    destruct (IHp Hok (or_introl HG) s cm (Some [TOver vals]) cs (HG _) Hg Hcp) as (pcs & Hd & HF). rewrite Hd. simpl.
    eexists. split; [reflexivity|]. rewrite map_ptr_none. exact HF.
  - (* scalar arithmetic *)
    simpl in *. apply andb_prop in Hg as (Hu & Hg). destruct gt; [discriminate|].
    match type of Hcp with (bind ?X _) = _ => destruct X as [[]|e] end; simpl in Hcp; [|discriminate].
    destruct (arith_trafo (lookup s) cm l op sc (pt_chans p)) as [tr|e]; simpl in *; [|discriminate].
    destruct HG as [HG|HG]; [|discriminate].
    destruct (IHp Hok (or_introl HG) s cm (Some tr) cs (HG _) Hg Hcp) as (pcs & Hd & HF). rewrite Hd. simpl.
    eexists. split; [reflexivity|]. rewrite map_ptr_none. exact HF.
Qed.

(* ---------------------------------------------------------------------------------------------------------- *)
(* top level *)
Definition plays (prog : loop) (pcs : list piece) : Prop :=
  Forall2 leaf_matches (flatten prog) pcs /\ loop_dur prog == total pcs /\
  forall c t, Forall (fun p => cmem c (pchans p) = true) pcs -> 0 <= t -> t < total pcs ->
              oeq (play prog c t) (at_ pcs c t).

Lemma create_program_denote (G : option trafo -> Prop) p env cm :
  atoms_ok G p -> ((forall tr, G (Some tr)) \/ no_trafo p = true) -> G None ->
  guard_single_trafo false p = true ->
  forall r, create_program p env cm None = Ok r ->
  exists pcs, denote_top p env cm = Ok pcs /\
              match r with
              | None => pcs = []
              | Some prog => plays prog pcs
              end.
Proof.
  intros Hok HG HN Hg r Hcp. unfold create_program in Hcp.
  destruct (cp p (SDict env) (cm_of cm) None) as [cs|e] eqn:E; simpl in Hcp; [|discriminate].
  destruct (cp_denote G p Hok HG (SDict env) (cm_of cm) None cs HN Hg E) as (pcs & Hd & HF).
  rewrite map_ptr_none in HF.
  exists pcs. split; [exact Hd|].
  destruct cs as [|c0 cr]; inversion Hcp; subst.
  - inversion HF. reflexivity.
  - assert (HF' : Forall2 leaf_matches (flatten (Nest 1 (c0 :: cr))) pcs).
    { rewrite flatten_nest. change (Z.to_nat 1) with 1%nat. cbn [repeat_app]. rewrite app_nil_r. exact HF. }
    split; [exact HF'|]. split.
    + apply leaves_dur_total. exact HF'.
    + intros c t Hc H0 Ht. apply play_at; auto.
Qed.

(* ---- the atomic obligation discharged for single-channel constant atoms (no enclosing transformation) ---- *)
Lemma atom_ok_const1 d c e : atom_ok (fun gt => gt = None) (AConst d [(c, e)]).
Proof.
  intros s cm gt ow HG Hb. subst gt. simpl in Hb. unfold build_const, evals in Hb. simpl.
  destruct (eval (lookup s) d) as [dv|er]; simpl in *; [|discriminate].
  destruct (Qltb' 0 dv) eqn:Ed.
  - destruct (cm c) as [m|].
    + simpl in *. destruct (eval (lookup s) e) as [v|er]; simpl in *; [|discriminate].
      inversion Hb; subst. eexists. split; [reflexivity|].
      simpl. unfold flatten_list. simpl. change (Z.to_nat 1) with 1%nat. simpl.
      constructor; [|constructor].
      apply Qltb'_true in Ed.
      repeat split; simpl; auto; try reflexivity.
      intros ch t Hin _ _. rewrite orb_false_r in Hin. rewrite Hin. simpl. reflexivity.
    + simpl in *. inversion Hb; subst. eexists. split; [reflexivity|]. constructor.
  - inversion Hb; subst. eexists. split; [reflexivity|]. constructor.
Qed.

(* the core fragment: single-channel constants under sequence / repetition / for-loop / mapping / reversal *)
Fixpoint core (p : pt) : bool :=
  match p with
  | PAtom (AConst _ [_]) => true
  | PAtom _ => false
  | PSeq l => (fix go (l : list pt) : bool := match l with [] => true | x :: r => core x && go r end) l
  | PRep _ b => core b
  | PFor _ _ _ _ b => core b
  | PMap _ _ b => core b
  | PRev b => core b
  | PPar _ _ => false
  | PArith _ _ _ _ => false
  end.

Lemma core_ok : forall p, core p = true ->
  atoms_ok (fun gt => gt = None) p /\ no_trafo p = true /\ guard_single_trafo false p = true.
Proof.
  induction p using pt_ind2; intros Hc; simpl in *; auto; try discriminate.
  - destruct a; try discriminate. destruct amps as [|[c e] [|? ?]]; try discriminate.
    repeat split; auto. apply atom_ok_const1.
  - induction H as [|x r Hx _ IH]; simpl; auto.
    apply andb_prop in Hc as (H1 & H2). destruct (Hx H1) as (A & B & C). destruct (IH H2) as (A' & B' & C').
    rewrite B, C. simpl. repeat split; auto.
Qed.

(* ---- known finding (ii): the faithful model of the unchanged code violates the property ---- *)
Definition witness_par_order : pt :=
  PArith true SMul (inl (EC 2))
         (PPar (PAtom (AConst (EC 1) [(ChS 1, EC (1 # 2))])) [(ChS 2, EC 1)]).

Lemma par_order_refuted :
  exists prog pcs, create_program witness_par_order [] [] None = Ok (Some prog) /\
                   denote_top witness_par_order [] [] = Ok pcs /\
                   Qeq_bool (total pcs) 1 = true /\
                   play prog (ChS 2) 0 = Some 1 /\ at_ pcs (ChS 2) 0 = Some (2 # 1) /\
                   guard_single_trafo false witness_par_order = false.
Proof.
  eexists. eexists. split; [vm_compute; reflexivity|]. split; [vm_compute; reflexivity|].
  vm_compute. repeat split; reflexivity.
Qed.

(* guard of known finding (ii) only: no parallel-channel node inside the body of a transformation-creating node *)
Fixpoint guard_C01_par_order (under : bool) (p : pt) : bool :=
  match p with
  | PAtom _ => true
  | PSeq l => (fix go (l : list pt) : bool := match l with [] => true | x :: r => guard_C01_par_order under x && go r end) l
  | PRep _ b => guard_C01_par_order under b
  | PFor _ _ _ _ b => guard_C01_par_order under b
  | PMap _ _ b => guard_C01_par_order under b
  | PRev b => guard_C01_par_order under b
  | PPar b _ => negb under && guard_C01_par_order true b
  | PArith _ _ _ b => guard_C01_par_order true b
  end.

Lemma atom_ok_zero_const amps : atom_ok (fun _ => True) (AConst (EC 0) amps).
Proof.
  intros s cm gt ow _ Hb. simpl in *. unfold build_const, evals in Hb. simpl in Hb.
  inversion Hb; subst. eexists. split; [reflexivity|]. constructor.
Qed.
