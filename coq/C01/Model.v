(* C01 — operational model (definitions only, executable, total; errors explicit).
   Mirrors /repo/qupulse/pulses/*.py (_create_program/_internal_create_program/build_waveform), the functional form of
   LoopBuilder (DESIGN Appendix D3, measurements left out: they belong to C02), program/waveforms.py (smart
   constructors, constant folding, pointwise reading of unsafe_sample; NaN = None), program/transformation.py
   (time-independent scaling / offset / parallel-channel steps and their chaining), parameter_scope.py
   (DictScope / MappedScope / RangeScope) and loop.py (to_waveform, reverse_inplace).
   Time arguments handed down through a junction are normalised with Qred (Qred x == x): a modelling device that
   makes times Leibniz-equal whenever they are equal as rationals. *)
From Coq Require Import ZArith QArith Qround List Bool.
Require Import QV.common.Util.
Import ListNotations.
Open Scope Q_scope.

(* ------------------------------------------------------------------------------------------------------------ *)
(* results *)
Inductive err := EMissing | ENotInt | EValue.
Inductive result (A : Type) := Ok (a : A) | Err (e : err).
Arguments Ok {A} a.
Arguments Err {A} e.
Definition bind {A B} (r : result A) (f : A -> result B) : result B :=
  match r with Ok a => f a | Err e => Err e end.
Notation "x <- r ;; k" := (bind r (fun x => k)) (at level 61, r at next level, right associativity).

Definition err_eqb (a b : err) : bool :=
  match a, b with EMissing, EMissing | ENotInt, ENotInt | EValue, EValue => true | _, _ => false end.

Definition Qltb' (a b : Q) : bool := negb (Qle_bool b a).

(* ------------------------------------------------------------------------------------------------------------ *)
(* channels: string ids (numbered by the harness) and integer ids; integer 0 is falsy in Python *)
Inductive chan := ChS (n : N) | ChI (z : Z).
Definition chan_eqb (a b : chan) : bool :=
  match a, b with
  | ChS x, ChS y => N.eqb x y
  | ChI x, ChI y => Z.eqb x y
  | _, _ => false
  end.
Definition chan_truthy (c : chan) : bool := match c with ChI 0%Z => false | _ => true end.

Fixpoint cassoc {A} (c : chan) (l : list (chan * A)) : option A :=
  match l with
  | [] => None
  | (k, v) :: r => if chan_eqb c k then Some v else cassoc c r
  end.
Definition cmem (c : chan) (l : list chan) : bool := existsb (chan_eqb c) l.
Fixpoint nassoc {A} (x : N) (l : list (N * A)) : option A :=
  match l with
  | [] => None
  | (k, v) :: r => if N.eqb x k then Some v else nassoc x r
  end.
(* dict update d[k] = v : keeps the position of an existing key, appends a new one *)
Fixpoint cupdate {A} (c : chan) (v : A) (l : list (chan * A)) : list (chan * A) :=
  match l with
  | [] => [(c, v)]
  | (k, w) :: r => if chan_eqb c k then (k, v) :: r else (k, w) :: cupdate c v r
  end.

(* ------------------------------------------------------------------------------------------------------------ *)
(* expressions over Q and scopes *)
Inductive expr := EC (q : Q) | EV (x : N) | EAdd (a b : expr) | ESub (a b : expr) | EMul (a b : expr).

Fixpoint eval (look : N -> result Q) (e : expr) : result Q :=
  match e with
  | EC q => Ok q
  | EV x => look x
  | EAdd a b => x <- eval look a ;; y <- eval look b ;; Ok (Qred (x + y))
  | ESub a b => x <- eval look a ;; y <- eval look b ;; Ok (Qred (x - y))
  | EMul a b => x <- eval look a ;; y <- eval look b ;; Ok (Qred (x * y))
  end.

Inductive scope :=
| SDict (l : list (N * Q))
| SMapped (inner : scope) (m : list (N * expr)) (ids : list N)   (* ids: names MappingPT maps to themselves *)
| SRange (inner : scope) (x : N) (v : Z).

Fixpoint lookup (s : scope) (x : N) : result Q :=
  match s with
  | SDict l => match nassoc x l with Some v => Ok v | None => Err EMissing end
  | SMapped inner m _ => match nassoc x m with Some e => eval (lookup inner) e | None => lookup inner x end
  | SRange inner y v => if N.eqb x y then Ok (inject_Z v) else lookup inner x
  end.

Definition evals (s : scope) (e : expr) : result Q := eval (lookup s) e.

(* evaluate_numeric called with the unpacked scope (ArithmeticPT scalar operand) reads the WHOLE scope: every key is looked up,
   so every visible mapped parameter is evaluated even if the expression does not use it *)
Fixpoint scope_keys (s : scope) : list N :=
  match s with
  | SDict l => map fst l
  | SMapped inner m ids => map fst m ++ ids ++ scope_keys inner
  | SRange inner x _ => x :: scope_keys inner
  end.
Fixpoint scope_force (s : scope) : result unit :=
  match s with
  | SDict _ => Ok tt
  | SMapped inner m ids =>
      (fix go (l : list N) : result unit :=
         match l with [] => Ok tt | x :: r => _ <- lookup s x ;; go r end) (map fst m ++ ids ++ scope_keys inner)
  | SRange inner _ _ => scope_force inner
  end.

(* checked_int_cast (the 1e-6 tolerance is outside the generated dyadic domain) *)
Definition to_int (k : err) (q : Q) : result Z :=
  let r := Qred q in if Pos.eqb (Qden r) 1 then Ok (Qnum r) else Err k.

(* Python range(start, stop, step), step <> 0 *)
Definition range_len (start stop step : Z) : Z :=
  if (0 <? step)%Z then Z.max 0 ((stop - start + step - 1) / step)
  else Z.max 0 ((start - stop - step - 1) / (- step)).
Definition zrange (start stop step : Z) : list Z :=
  map (fun k => (start + Z.of_nat k * step)%Z) (seq 0 (Z.to_nat (range_len start stop step))).

(* ------------------------------------------------------------------------------------------------------------ *)
(* transformations (time independent): a chain is a list of steps applied left to right *)
Inductive tstep :=
| TScale (m : list (chan * Q))
| TOffset (m : list (chan * Q))
| TOver (m : list (chan * Q)).
Definition trafo := list tstep.

Definition data := list (chan * option Q).   (* channel -> sample, None = NaN *)

Definition omap2 (f : Q -> Q -> Q) (a : option Q) (b : Q) : option Q :=
  match a with Some x => Some (Qred (f x b)) | None => None end.

Definition step_apply (st : tstep) (d : data) : data :=
  match st with
  | TScale m => map (fun kv => match cassoc (fst kv) m with Some f => (fst kv, omap2 Qmult (snd kv) f) | None => kv end) d
  | TOffset m => map (fun kv => match cassoc (fst kv) m with Some o => (fst kv, omap2 Qplus (snd kv) o) | None => kv end) d
  | TOver m => fold_left (fun acc kv => cupdate (fst kv) (Some (snd kv)) acc) m d
  end.
Definition trafo_apply (tr : trafo) (d : data) : data := fold_left (fun acc st => step_apply st acc) tr d.

Definition cunion (a b : list chan) : list chan := fold_left (fun acc c => if cmem c acc then acc else acc ++ [c]) b a.
Definition cminus (a b : list chan) : list chan := filter (fun c => negb (cmem c b)) a.

Definition step_outputs (st : tstep) (ins : list chan) : list chan :=
  match st with TOver m => cunion ins (map fst m) | _ => ins end.
Definition step_inputs (st : tstep) (outs : list chan) : list chan :=
  match st with TOver m => cminus outs (map fst m) | _ => outs end.
Definition trafo_outputs (tr : trafo) (ins : list chan) : list chan := fold_left (fun acc st => step_outputs st acc) tr ins.
Definition trafo_inputs (tr : trafo) (outs : list chan) : list chan := fold_right step_inputs outs tr.

(* ------------------------------------------------------------------------------------------------------------ *)
(* waveforms *)
Inductive interp := Hold | Jump | Linear.
Definition tentry := (Q * Q * interp)%type.
Definition et (e : tentry) : Q := fst (fst e).
Definition ev (e : tentry) : Q := snd (fst e).
Definition ei (e : tentry) : interp := snd e.

Inductive aop := OpAdd | OpSub.

Inductive wf :=
| WConst (d : Q) (c : chan) (v : Q)
| WTable (c : chan) (tbl : list tentry)
| WSeq (l : list wf)
| WMulti (l : list wf)
| WRep (body : wf) (n : Z)
| WTrans (w : wf) (tr : trafo)
| WArith (l : wf) (op : aop) (r : wf)
| WNeg (w : wf)
| WRev (w : wf).

Definition last_t (tbl : list tentry) : Q := match rev tbl with e :: _ => et e | [] => 0 end.

Fixpoint wdur (w : wf) : Q :=
  match w with
  | WConst d _ _ => d
  | WTable _ tbl => last_t tbl
  | WSeq l => (fix go (l : list wf) : Q := match l with [] => 0 | x :: r => Qred (wdur x + go r) end) l
  | WMulti l => match l with x :: _ => wdur x | [] => 0 end
  | WRep b n => Qred (wdur b * inject_Z n)
  | WTrans w _ => wdur w
  | WArith l _ _ => wdur l
  | WNeg w => wdur w
  | WRev w => wdur w
  end.

Fixpoint wchans (w : wf) : list chan :=
  match w with
  | WConst _ c _ => [c]
  | WTable c _ => [c]
  | WSeq l => match l with x :: _ => wchans x | [] => [] end
  | WMulti l => (fix go (l : list wf) : list chan := match l with [] => [] | x :: r => wchans x ++ go r end) l
  | WRep b _ => wchans b
  | WTrans w tr => trafo_outputs tr (wchans w)
  | WArith l _ r => cunion (wchans l) (wchans r)
  | WNeg w => wchans w
  | WRev w => wchans w
  end.

(* interpolation strategies (interpolation.py) *)
Definition interp_at (i : interp) (t0 v0 t1 v1 t : Q) : option Q :=
  match i with
  | Hold => Some v0
  | Jump => Some v1
  | Linear => if Qeq_bool t1 t0 then None   (* division by zero: NaN *)
              else Some (Qred ((v1 - v0) / (t1 - t0) * (t - t0) + v0))
  end.
Definition interp_cv (i : interp) (v0 v1 : Q) : option Q :=
  match i with
  | Hold => Some v0
  | Jump => Some v1
  | Linear => if Qeq_bool v0 v1 then Some v0 else None
  end.

(* TableWaveform.unsafe_sample, one time point: consecutive pairs in order, a later pair overwrites *)
Fixpoint table_sample (prev : tentry) (rest : list tentry) (t : Q) (acc : option Q) : option Q :=
  match rest with
  | [] => acc
  | e :: r =>
      let acc' := if Qle_bool (et prev) t && Qle_bool t (et e)
                  then interp_at (ei e) (et prev) (ev prev) (et e) (ev e) t else acc in
      table_sample e r t acc'
  end.

Definition data_get (c : chan) (d : data) : option Q := match cassoc c d with Some v => v | None => None end.

Fixpoint wsample (w : wf) (c : chan) (t : Q) : option Q :=
  match w with
  | WConst _ _ v => Some v
  | WTable _ tbl => match tbl with e :: r => table_sample e r t None | [] => None end
  | WSeq l =>
      (fix go (l : list wf) (start : Q) : option Q :=
         match l with
         | [] => None
         | x :: r => let e := Qred (start + wdur x) in
                     if Qle_bool start t && Qltb' t e then wsample x c (Qred (t - start)) else go r e
         end) l 0
  | WMulti l =>
      (fix go (l : list wf) : option Q :=
         match l with
         | [] => None
         | x :: r => if cmem c (wchans x) then wsample x c t else go r
         end) l
  | WRep b n =>
      let bd := wdur b in
      if Qle_bool bd 0 then None else
      let k := Qfloor (t / bd) in
      if (0 <=? k)%Z && (k <? n)%Z then wsample b c (Qred (t - inject_Z k * bd)) else None
  | WTrans w tr =>
      let ins := trafo_inputs tr [c] in
      data_get c (trafo_apply tr (map (fun ic => (ic, wsample w ic t)) ins))
  | WArith l op r =>
      let inl := cmem c (wchans l) in
      let inr := cmem c (wchans r) in
      if inl && inr then
        match wsample l c t, wsample r c t with
        | Some a, Some b => Some (Qred (match op with OpAdd => a + b | OpSub => a - b end))
        | _, _ => None
        end
      else if inl then wsample l c t
      else match wsample r c t with
           | Some b => Some (match op with OpAdd => b | OpSub => Qred (- b) end)
           | None => None
           end
  | WNeg w => match wsample w c t with Some a => Some (Qred (- a)) | None => None end
  | WRev w => wsample w c (Qred (wdur w - t))
  end.

(* constant_value_dict : None, or the constant value of every defined channel *)
Definition cdict := list (chan * Q).

Fixpoint wcvd (w : wf) : option cdict :=
  match w with
  | WConst _ c v => Some [(c, v)]
  | WMulti l =>
      (fix go (l : list wf) : option cdict :=
         match l with
         | [] => Some []
         | x :: r => match wcvd x, go r with
                     | Some a, Some b => Some (fold_left (fun acc kv => cupdate (fst kv) (snd kv) acc) b a)
                     | _, _ => None
                     end
         end) l
  | WRep b _ => wcvd b
  | _ => None
  end.

(* constant_value(channel) *)
Fixpoint wcv (w : wf) (c : chan) : option Q :=
  match w with
  | WConst _ _ v => Some v
  | WTable _ _ => None
  | WSeq l =>
      (fix go (l : list wf) (v : option Q) : option Q :=
         match l with
         | [] => v
         | x :: r => match wcv x c with
                     | None => None
                     | Some a => match v with
                                 | None => go r (Some a)
                                 | Some b => if Qeq_bool a b then go r v else None
                                 end
                     end
         end) l None
  | WMulti l =>
      (fix go (l : list wf) : option Q :=
         match l with
         | [] => None
         | x :: r => if cmem c (wchans x) then wcv x c else go r
         end) l
  | WRep b _ => wcv b c
  | WTrans w tr =>
      let ins := trafo_inputs tr [c] in
      let vals := map (fun ic => (ic, wcv w ic)) ins in
      if forallb (fun kv => match snd kv with Some _ => true | None => false end) vals
      then data_get c (trafo_apply tr vals) else None
  | WArith l op r =>
      if negb (cmem c (wchans r)) then wcv l c else
      match wcv r c with
      | None => None
      | Some b => if cmem c (wchans l) then
                    match wcv l c with
                    | Some a => Some (Qred (match op with OpAdd => a + b | OpSub => a - b end))
                    | None => None
                    end
                  else Some (match op with OpAdd => b | OpSub => Qred (- b) end)
      end
  | WNeg w => match wcv w c with Some a => Some (Qred (- a)) | None => None end
  | WRev _ => None
  end.

(* Waveform.get_sampled, one time point inside [0, duration]: constant short-cut, else unsafe_sample *)
Definition get_sampled (w : wf) (c : chan) (t : Q) : option Q :=
  match wcv w c with Some v => Some v | None => wsample w c t end.

(* ---- smart constructors ---- *)
Definition from_mapping (d : Q) (vals : cdict) : wf :=
  match vals with
  | [(c, v)] => WConst d c v
  | _ => WMulti (map (fun kv => WConst d (fst kv) (snd kv)) vals)
  end.

Fixpoint disjoint_chans (l : list wf) (seen : list chan) : bool :=
  match l with
  | [] => true
  | x :: r => negb (existsb (fun c => cmem c seen) (wchans x)) && disjoint_chans r (seen ++ wchans x)
  end.

Definition mk_multi (l : list wf) : result wf :=
  match l with
  | [] => Err EValue
  | x :: r => if disjoint_chans l [] && forallb (fun y => Qeq_bool (wdur y) (wdur x)) r
              then Ok (WMulti l) else Err EValue
  end.

Definition from_parallel (ws : list wf) : result wf :=
  match ws with
  | [w] => Ok w
  | _ => mk_multi (flat_map (fun w => match w with WMulti l => l | _ => [w] end) ws)
  end.

Definition cset_eqb (a b : list chan) : bool :=
  forallb (fun c => cmem c b) a && forallb (fun c => cmem c a) b.

Definition cdict_eqb (a b : cdict) : bool :=
  cset_eqb (map fst a) (map fst b) &&
  forallb (fun kv => match cassoc (fst kv) b with Some v => Qeq_bool (snd kv) v | None => false end) a.
Definition ocdict_eqb (a b : option cdict) : bool :=
  match a, b with Some x, Some y => cdict_eqb x y | None, None => true | _, _ => false end.

Definition mk_seq (l : list wf) : result wf :=
  match l with
  | [] => Err EValue
  | x :: r => if forallb (fun y => cset_eqb (wchans y) (wchans x)) r then Ok (WSeq l) else Err EValue
  end.

Definition nonempty_dict (o : option cdict) : bool := match o with Some (_ :: _) => true | _ => false end.

Definition from_sequence (ws : list wf) : result wf :=
  match ws with
  | [] => Err EValue
  | [w] => Ok w
  | w0 :: _ =>
      let cv := fold_left (fun cv w => if nonempty_dict cv && negb (ocdict_eqb cv (wcvd w)) then None else cv)
                          ws (wcvd w0) in
      let flat := flat_map (fun w => match w with WSeq l => l | _ => [w] end) ws in
      match cv with
      | None => mk_seq flat
      | Some d => Ok (from_mapping (fold_right (fun w acc => Qred (wdur w + acc)) 0 flat) d)
      end
  end.

Definition from_repetition_count (body : wf) (n : Z) : result wf :=
  match wcvd body with
  | None => if (n <? 1)%Z then Err EValue else Ok (WRep body n)
  | Some d => Ok (from_mapping (Qred (wdur body * inject_Z n)) d)
  end.

Definition cdict_data (d : cdict) : data := map (fun kv => (fst kv, Some (snd kv))) d.
Definition data_cdict (d : data) : cdict :=
  flat_map (fun kv => match snd kv with Some v => [(fst kv, v)] | None => [] end) d.

Definition from_transformation (w : wf) (tr : trafo) : wf :=
  match wcvd w with
  | None => WTrans w tr
  | Some d => from_mapping (wdur w) (data_cdict (trafo_apply tr (cdict_data d)))
  end.

Definition wreversed (w : wf) : wf :=
  match w with
  | WConst _ _ _ => w
  | WRev x => x
  | _ => WRev w
  end.

Definition from_operator (l : wf) (op : aop) (r : wf) : wf :=
  match wcvd l, wcvd r with
  | Some a, Some b =>
      from_mapping (wdur l)
        (fold_left (fun acc kv =>
                      match cassoc (fst kv) acc with
                      | Some x => cupdate (fst kv) (Qred (match op with OpAdd => x + snd kv | OpSub => x - snd kv end)) acc
                      | None => cupdate (fst kv) (match op with OpAdd => snd kv | OpSub => Qred (- snd kv) end) acc
                      end) b a)
  | _, _ => WArith l op r
  end.

Definition wneg (w : wf) : wf :=
  match wcvd w with
  | None => WNeg w
  | Some d => from_mapping (wdur w) (map (fun kv => (fst kv, Qred (- snd kv))) d)
  end.

(* ---- TableWaveform._validate_input / from_table ---- *)
Inductive vres := VConst (d v : Q) | VTable (l : list tentry).

Definition ocv_step (cv : option Q) (seg : option Q) : option Q :=
  match cv with
  | None => None
  | Some c => match seg with Some c' => if Qeq_bool c' c then cv else None | None => None end
  end.

(* loop of _validate_input.  (pt, pv): last kept entry; (t, v, i): current entry; acc: kept entries, reversed.
   The constancy of the segment (t,v)->(nt,nv) is decided with `ni`, the strategy that samples it
   (repaired in /repo by 01efa2c; before, the strategy `i` of the current entry was used). *)
Fixpoint validate_loop (pt pv t v : Q) (i : interp) (cv : option Q) (acc : list tentry) (rest : list tentry)
  : result vres :=
  match rest with
  | [] => if Qeq_bool t 0 then Err EValue
          else match cv with
               | Some c => Ok (VConst t c)
               | None => Ok (VTable (rev ((t, v, i) :: acc)))
               end
  | (nt, nv, ni) :: rest' =>
      if Qltb' nt t then Err EValue else
      let cv' := ocv_step cv (interp_cv ni v nv) in
      if (negb (Qeq_bool pt t) || negb (Qeq_bool t nt)) && (negb (Qeq_bool pv v) || negb (Qeq_bool v nv))
      then validate_loop t v nt nv ni cv' ((t, v, i) :: acc) rest'
      else validate_loop pt pv nt nv ni cv' acc rest'
  end.

Definition validate_input (tbl : list tentry) : result vres :=
  match tbl with
  | [] => Err EValue
  | (t0, v0, i0) :: r =>
      if negb (Qeq_bool t0 0) then Err EValue else
      match r with
      | [] => Err EValue
      | (t, v, i) :: r' =>
          if Qltb' t 0 then Err EValue
          else validate_loop 0 v0 t v i (interp_cv i v0 v) [(0, v0, i0)] r'
      end
  end.

Definition from_table (c : chan) (tbl : list tentry) : result wf :=
  r <- validate_input tbl ;;
  match r with
  | VConst d v => Ok (WConst d c v)
  | VTable l => Ok (WTable c l)
  end.

(* ------------------------------------------------------------------------------------------------------------ *)
(* pulse templates *)
Definition chanmap := chan -> option chan.

(* atomic templates that are instantiated through build_waveform *)
Inductive atom :=
| AConst (d : expr) (amps : list (chan * expr))                         (* ConstantPT *)
| ATable (chs : list (chan * list (expr * expr * interp)))              (* TablePT *)
| APoint (entries : list (expr * list expr * interp)) (chs : list chan) (* PointPT; one value = broadcast *)
| AMulti (l : list atom)                                                (* AtomicMultiChannelPT (no duration kw) *)
| AArith (l : atom) (op : aop) (r : atom)                               (* ArithmeticAtomicPT *)
| AFunc (d : expr) (c : chan) (a b : expr).                             (* FunctionPT with the affine expression a + b*t *)

Inductive sop := SAdd | SSub | SMul | SDiv.

Inductive pt :=
| PAtom (a : atom)
| PSeq (l : list pt)                                                    (* SequencePT *)
| PRep (n : expr) (body : pt)                                           (* RepetitionPT *)
| PFor (idx : N) (start stop step : expr) (body : pt)                   (* ForLoopPT *)
| PMap (pm : list (N * expr)) (chm : list (chan * option chan)) (body : pt)   (* MappingPT *)
| PRev (body : pt)                                                      (* TimeReversalPT *)
| PPar (body : pt) (ow : list (chan * expr))                            (* ParallelChannelPT *)
| PArith (pt_is_lhs : bool) (op : sop) (scalar : expr + list (chan * expr)) (body : pt). (* ArithmeticPT *)

Definition cm_compose (cm : chanmap) (chm : list (chan * option chan)) : chanmap :=
  fun ic => match cassoc ic chm with
            | Some None => None
            | Some (Some oc) => cm oc
            | None => cm ic
            end.

(* defined_channels *)
Fixpoint atom_chans (a : atom) : list chan :=
  match a with
  | AConst _ amps => map fst amps
  | ATable chs => map fst chs
  | APoint _ chs => chs
  | AMulti l => (fix go (l : list atom) : list chan := match l with [] => [] | x :: r => cunion (atom_chans x) (go r) end) l
  | AArith l _ r => cunion (atom_chans l) (atom_chans r)
  | AFunc _ c _ _ => [c]
  end.
Fixpoint pt_chans (p : pt) : list chan :=
  match p with
  | PAtom a => atom_chans a
  | PSeq l => match l with x :: _ => pt_chans x | [] => [] end
  | PRep _ b => pt_chans b
  | PFor _ _ _ _ b => pt_chans b
  | PMap _ chm b => flat_map (fun c => match cassoc c chm with
                                       | Some None => []
                                       | Some (Some o) => [o]
                                       | None => [c]
                                       end) (pt_chans b)
  | PRev b => pt_chans b
  | PPar b ow => cunion (pt_chans b) (map fst ow)
  | PArith _ _ _ b => pt_chans b
  end.

Fixpoint rmap {A B} (f : A -> result B) (l : list A) : result (list B) :=
  match l with
  | [] => Ok []
  | x :: r => y <- f x ;; ys <- rmap f r ;; Ok (y :: ys)
  end.

(* ---- build_waveform ---- *)
Definition inst_entries (s : scope) (es : list (expr * expr * interp)) : result (list tentry) :=
  rmap (fun e => t <- evals s (fst (fst e)) ;; v <- evals s (snd (fst e)) ;; Ok (t, v, snd e)) es.

Definition first_t (tbl : list tentry) : Q := match tbl with e :: _ => et e | [] => 0 end.
Definition last_v (tbl : list tentry) : Q := match rev tbl with e :: _ => ev e | [] => 0 end.
Definition pad_front (tbl : list tentry) : list tentry :=
  match tbl with
  | e :: _ => if Qltb' 0 (et e) then (0, ev e, Hold) :: tbl else tbl
  | [] => tbl
  end.
Definition pad_back (d : Q) (tbl : list tentry) : list tentry :=
  if Qltb' (last_t tbl) d then tbl ++ [(d, last_v tbl, Hold)] else tbl.
Definition qmax_list (l : list Q) : Q :=
  match l with [] => 0 | x :: r => fold_left (fun a b => if Qle_bool a b then b else a) r x end.

(* TablePulseTemplate.get_entries_instantiated + build_waveform *)
Definition build_table (s : scope) (cm : chanmap) (chs : list (chan * list (expr * expr * interp)))
  : result (option wf) :=
  inst <- rmap (fun ce => es <- inst_entries s (snd ce) ;; Ok (fst ce, pad_front es)) chs ;;
  let d := qmax_list (map (fun ce => last_t (snd ce)) inst) in
  if Qeq_bool d 0 then Ok None else
  let kept := flat_map (fun ce => match cm (fst ce) with Some m => [(m, pad_back d (snd ce))] | None => [] end) inst in
  match kept with
  | [] => Ok None
  | _ => ws <- rmap (fun ce => from_table (fst ce) (snd ce)) kept ;;
         w <- from_parallel ws ;; Ok (Some w)
  end.

Definition build_const (s : scope) (cm : chanmap) (d : expr) (amps : list (chan * expr)) : result (option wf) :=
  dv <- evals s d ;;
  if Qltb' 0 dv then
    vals <- (fix go (l : list (chan * expr)) (acc : cdict) : result cdict :=
               match l with
               | [] => Ok acc
               | (c, e) :: r => match cm c with
                                | Some m => v <- evals s e ;; go r (cupdate m v acc)
                                | None => go r acc
                                end
               end) amps [] ;;
    match vals with [] => Ok None | _ => Ok (Some (from_mapping dv vals)) end
  else Ok None.

Fixpoint transpose_entries (n : nat) (k : nat) (es : list (Q * list Q * interp)) : list tentry :=
  match es with
  | [] => []
  | (t, vs, i) :: r =>
      let v := match vs with [x] => x | _ => nth k vs 0 end in
      (t, v, i) :: transpose_entries n k r
  end.

Definition build_point (s : scope) (cm : chanmap) (entries : list (expr * list expr * interp)) (chs : list chan)
  : result (option wf) :=
  if forallb (fun c => match cm c with None => true | Some _ => false end) chs then Ok None else
  dur <- match rev entries with e :: _ => evals s (fst (fst e)) | [] => Err EValue end ;;
  if Qeq_bool dur 0 then Ok None else
  inst <- rmap (fun e => t <- evals s (fst (fst e)) ;; vs <- rmap (evals s) (snd (fst e)) ;; Ok (t, vs, snd e)) entries ;;
  let n := length chs in
  let per_ch := map (fun k => (nth k chs (ChI 0), transpose_entries n k inst)) (seq 0 n) in
  let front := fun tbl : list tentry =>
                 match tbl with e :: _ => if Qltb' 0 (et e) then (0, ev e, ei e) :: tbl else tbl | [] => tbl end in
  let kept := flat_map (fun ce => match cm (fst ce) with Some m => [(m, front (snd ce))] | None => [] end) per_ch in
  ws <- rmap (fun ce => from_table (fst ce) (snd ce)) kept ;;
  w <- from_parallel ws ;; Ok (Some w).

(* FunctionPulseTemplate.build_waveform + FunctionWaveform.from_expression for the expression  a + b*t :
   a dropped channel gives None before anything is evaluated; evaluate_symbolic(substitutions=scope) reads the WHOLE
   scope (every mapped parameter is evaluated, as in ArithmeticPT); the duration is evaluated next; a parameter of the
   expression that the scope does not provide stays symbolic and FunctionWaveform rejects it with ValueError; an expression
   that no longer contains t (b evaluates to 0) becomes a ConstantWaveform.  No duration check: a non-positive duration is
   instantiated.  On [0, d] the FunctionWaveform  a + b*t  is observationally the two-entry linear TableWaveform
   (0, a) -> (d, a + b*d), which is how it is represented here (modelling device; constant_value is None for both). *)
Definition value_err {A} (r : result A) : result A :=
  match r with Err EMissing => Err EValue | _ => r end.
Definition build_func (s : scope) (cm : chanmap) (d : expr) (c : chan) (a b : expr) : result (option wf) :=
  match cm c with
  | None => Ok None
  | Some m =>
      _ <- scope_force s ;;
      dv <- evals s d ;;
      av <- value_err (evals s a) ;;
      bv <- value_err (evals s b) ;;
      if Qeq_bool bv 0 then Ok (Some (WConst dv m av))
      else Ok (Some (WTable m [(0, av, Hold); (dv, Qred (av + bv * dv), Linear)]))
  end.

Fixpoint build_waveform (a : atom) (s : scope) (cm : chanmap) : result (option wf) :=
  match a with
  | AConst d amps => build_const s cm d amps
  | ATable chs => build_table s cm chs
  | APoint es chs => build_point s cm es chs
  | AMulti l =>
      subs <- (fix go (l : list atom) : result (list wf) :=
                 match l with
                 | [] => Ok []
                 | x :: r => w <- build_waveform x s cm ;; ws <- go r ;;
                             Ok (match w with Some w => w :: ws | None => ws end)
                 end) l ;;
      match subs with
      | [] => Ok None
      | [w] => Ok (Some w)
      | _ => w <- from_parallel subs ;; Ok (Some w)
      end
  | AArith l op r =>
      lw <- build_waveform l s cm ;;
      rw <- build_waveform r s cm ;;
      match lw, rw with
      | _, None => Ok lw
      | None, Some r => Ok (Some (match op with OpAdd => r | OpSub => wneg r end))
      | Some l, Some r => if Qeq_bool (wdur l) (wdur r) then Ok (Some (from_operator l op r)) else Err EValue
      end
  | AFunc d c a b => build_func s cm d c a b
  end.

(* ---- program trees (Loop) ---- *)
Inductive loop := Leaf (n : Z) (w : wf) | Nest (n : Z) (cs : list loop).

Fixpoint reverse_loop (l : loop) : loop :=
  match l with
  | Leaf n w => Leaf n (wreversed w)
  | Nest n cs => Nest n ((fix go (cs : list loop) : list loop :=
                            match cs with [] => [] | x :: r => go r ++ [reverse_loop x] end) cs)
  end.

(* AtomicPulseTemplate._internal_create_program after build_waveform *)
Definition atomic_emit (w : option wf) (gt : option trafo) : list loop :=
  match w with
  | None => []
  | Some w =>
      let w' := match gt with Some tr => from_transformation w tr | None => w end in
      match wcvd w' with
      | None => [Leaf 1 w']
      | Some d => [Leaf 1 (from_mapping (wdur w') d)]
      end
  end.

Definition chain (a : trafo) (g : option trafo) : trafo := match g with Some g => a ++ g | None => a end.

(* ArithmeticPulseTemplate._get_scalar_value / _get_transformation *)
Definition scalar_values (look : N -> result Q) (cm : chanmap) (scalar : expr + list (chan * expr)) (chans : list chan)
  : result cdict :=
  match scalar with
  | inl e => v <- eval look e ;;
             Ok (fold_left (fun acc c => match cm c with
                                         | Some m => cupdate m v acc
                                         | None => acc
                                         end) chans [])
  | inr l => (fix go (l : list (chan * expr)) (acc : cdict) : result cdict :=
                match l with
                | [] => Ok acc
                | (c, e) :: r => match cm c with
                                 | Some m => v <- eval look e ;; go r (cupdate m v acc)
                                 | None => go r acc
                                 end
                end) l []
  end.

Definition arith_trafo (look : N -> result Q) (cm : chanmap) (pt_is_lhs : bool) (op : sop) (scalar : expr + list (chan * expr))
           (chans : list chan) : result trafo :=
  sv <- scalar_values look cm scalar chans ;;
  let neg1 := fold_left (fun acc c => match cm c with
                                      | Some m => cupdate m (-1 # 1) acc
                                      | None => acc
                                      end) chans [] in
  if pt_is_lhs then
    match op with
    | SAdd => Ok [TOffset sv]
    | SSub => Ok [TOffset (map (fun kv => (fst kv, Qred (- snd kv))) sv)]
    | SMul => Ok [TScale sv]
    | SDiv => if existsb (fun kv => Qeq_bool (snd kv) 0) sv then Err EValue
              else Ok [TScale (map (fun kv => (fst kv, Qred (/ snd kv))) sv)]
    end
  else
    match op with
    | SAdd => Ok [TOffset sv]
    | SSub => Ok [TScale neg1; TOffset sv]
    | SMul => Ok [TScale sv]
    | SDiv => Err EValue
    end.

(* ParallelChannelPulseTemplate._get_overwritten_channels_values *)
Fixpoint par_values (look : N -> result Q) (cm : chanmap) (l : list (chan * expr)) (acc : cdict) : result cdict :=
  match l with
  | [] => Ok acc
  | (c, e) :: r => match cm c with
                   | Some m => v <- eval look e ;; par_values look cm r (cupdate m v acc)
                   | None => par_values look cm r acc
                   end
  end.

(* parameter_names: the parameters a template declares *)
Fixpoint expr_vars (e : expr) : list N :=
  match e with
  | EC _ => []
  | EV x => [x]
  | EAdd a b | ESub a b | EMul a b => expr_vars a ++ expr_vars b
  end.
Fixpoint atom_params (a : atom) : list N :=
  match a with
  | AConst d amps => expr_vars d ++ flat_map (fun ce => expr_vars (snd ce)) amps
  | ATable chs => flat_map (fun ce => flat_map (fun e => expr_vars (fst (fst e)) ++ expr_vars (snd (fst e))) (snd ce)) chs
  | APoint es _ => flat_map (fun e => expr_vars (fst (fst e)) ++ flat_map expr_vars (snd (fst e))) es
  | AMulti l => (fix go (l : list atom) : list N := match l with [] => [] | x :: r => atom_params x ++ go r end) l
  | AArith l _ r => atom_params l ++ atom_params r
  | AFunc d _ a b => expr_vars d ++ expr_vars a ++ expr_vars b
  end.
Fixpoint pt_params (p : pt) : list N :=
  match p with
  | PAtom a => atom_params a
  | PSeq l => (fix go (l : list pt) : list N := match l with [] => [] | x :: r => pt_params x ++ go r end) l
  | PRep n b => expr_vars n ++ pt_params b
  | PFor idx a b c body => expr_vars a ++ expr_vars b ++ expr_vars c ++ filter (fun x => negb (N.eqb x idx)) (pt_params body)
  | PMap pm _ b => flat_map (fun x => match nassoc x pm with Some e => expr_vars e | None => [x] end) (pt_params b)
  | PRev b => pt_params b
  | PPar b ow => pt_params b ++ flat_map (fun ce => expr_vars (snd ce)) ow
  | PArith _ _ sc b => pt_params b ++ match sc with inl e => expr_vars e | inr l => flat_map (fun ce => expr_vars (snd ce)) l end
  end.
(* MappingPT completes a partial parameter mapping with the identity on the remaining parameters of its body; these
   names are keys of the MappedScope (they matter only where a scope is read as a whole: ArithmeticPT, FunctionPT) *)
Definition map_ids (pm : list (N * expr)) (body : pt) : list N :=
  filter (fun x => negb (existsb (N.eqb x) (map fst pm))) (pt_params body).

(* _create_program / _internal_create_program of every template class, in the functional form of the LoopBuilder:
   the result is the list of children appended to the current top loop *)
Fixpoint cp (p : pt) (s : scope) (cm : chanmap) (gt : option trafo) : result (list loop) :=
  match p with
  | PAtom a => w <- build_waveform a s cm ;; Ok (atomic_emit w gt)
  | PSeq l =>
      (fix go (l : list pt) : result (list loop) :=
         match l with
         | [] => Ok []
         | x :: r => a <- cp x s cm gt ;; b <- go r ;; Ok (a ++ b)
         end) l
  | PRep n body =>
      v <- evals s n ;;
      k <- to_int ENotInt v ;;
      if (k <=? 0)%Z then Ok [] else
      cs <- cp body s cm gt ;;
      match cs with [] => Ok [] | _ => Ok [Nest k cs] end
  | PFor idx e1 e2 e3 body =>
      a <- (v <- evals s e1 ;; to_int EValue v) ;;
      b <- (v <- evals s e2 ;; to_int EValue v) ;;
      c <- (v <- evals s e3 ;; to_int EValue v) ;;
      if (c =? 0)%Z then Err EValue else
      (fix go (l : list Z) : result (list loop) :=
         match l with
         | [] => Ok []
         | i :: r => x <- cp body (SRange s idx i) cm gt ;; y <- go r ;; Ok (x ++ y)
         end) (zrange a b c)
  | PMap pm chm body => cp body (SMapped s pm (map_ids pm body)) (cm_compose cm chm) gt
  | PRev body =>
      cs <- cp body s cm gt ;;
      match cs with [] => Ok [] | _ => Ok [reverse_loop (Nest 1 cs)] end
  | PPar body ow =>
      vals <- par_values (lookup s) cm ow [] ;;
      (* NOTE (as in the code): the global transformation is chained BEFORE the node's own overwrite *)
      cp body s cm (Some (match gt with Some g => g ++ [TOver vals] | None => [TOver vals] end))
  | PArith lhs op scalar body =>
      _ <- (if match scalar with
                  | inl _ => true
                  | inr l => existsb (fun ce => match cm (fst ce) with Some _ => true | None => false end) l
                  end then scope_force s else Ok tt) ;;
      tr <- arith_trafo (lookup s) cm lhs op scalar (pt_chans body) ;;
      cp body s cm (Some (chain tr gt))
  end.

(* PulseTemplate.create_program: complete channel mapping (identity on unmapped channels), DictScope, root loop *)
Definition cm_of (l : list (chan * option chan)) : chanmap :=
  fun c => match cassoc c l with Some r => r | None => Some c end.

Definition create_program (p : pt) (env : list (N * Q)) (cm : list (chan * option chan)) (gt : option trafo)
  : result (option loop) :=
  cs <- cp p (SDict env) (cm_of cm) gt ;;
  match cs with [] => Ok None | _ => Ok (Some (Nest 1 cs)) end.

(* ---- to_waveform (loop.py) ---- *)
Fixpoint to_waveform (l : loop) : result wf :=
  match l with
  | Leaf n w => if (n =? 1)%Z then Ok w else from_repetition_count w n
  | Nest n cs =>
      sw <- match cs with
            | [x] => to_waveform x
            | _ => ws <- (fix go (cs : list loop) : result (list wf) :=
                            match cs with
                            | [] => Ok []
                            | x :: r => w <- to_waveform x ;; ws <- go r ;; Ok (w :: ws)
                            end) cs ;;
                   from_sequence ws
            end ;;
      if (1 <? n)%Z then from_repetition_count sw n else Ok sw
  end.

(* ---- the meaning of a program tree: its leaves in order, repetition unrolled, half-open junctions ---- *)
Fixpoint repeat_app {A} (n : nat) (l : list A) : list A :=
  match n with O => [] | S k => l ++ repeat_app k l end.

Fixpoint flatten (l : loop) : list wf :=
  match l with
  | Leaf n w => repeat_app (Z.to_nat n) [w]
  | Nest n cs => repeat_app (Z.to_nat n)
                   ((fix go (cs : list loop) : list wf := match cs with [] => [] | x :: r => flatten x ++ go r end) cs)
  end.

Fixpoint play_leaves (ws : list wf) (c : chan) (t : Q) : option Q :=
  match ws with
  | [] => None
  | w :: r => if Qltb' t (wdur w) then wsample w c t else play_leaves r c (Qred (t - wdur w))
  end.

Definition play (l : loop) (c : chan) (t : Q) : option Q := play_leaves (flatten l) c t.

Definition leaves_dur (ws : list wf) : Q := fold_right (fun w acc => Qred (wdur w + acc)) 0 ws.
Definition loop_dur (l : loop) : Q := leaves_dur (flatten l).
Definition loop_chans (l : loop) : list chan := match flatten l with w :: _ => wchans w | [] => [] end.

(* what the harness observes: to_waveform(program).get_sampled(channel, t) *)
Definition sampled (l : loop) (c : chan) (t : Q) : option Q :=
  match to_waveform l with Ok w => get_sampled w c t | Err _ => None end.

(* ---- the LoopBuilder's frame stack (loop.py: StackFrame.iterating, _push/_pop, inner_scope) ----
   `cp` above is the functional form of the builder (DESIGN D3): a loop body is instantiated under RangeScope(scope, index,
   value) and nothing else is remembered.  `cpb` mirrors the code's bookkeeping: a stack of frames, each carrying the
   `iterating` entry (loop-index name, current value) or None;
     with_sequence   pushes StackFrame(LoopGuard(top), None)                          (SequencePT, and first step of with_iteration)
     with_repetition pushes StackFrame(repetition_loop, None)                         (RepetitionPT)
     with_iteration  = with_sequence, then top_frame.iterating = (index, value) per value   (ForLoopPT)
     time_reversed   a NEW LoopBuilder: stack = [StackFrame(root, None)]              (TimeReversalPT)
     inner_scope(scope) = RangeScope(scope, *top.iterating) if the TOP frame iterates, else scope
                          (called by RepetitionPT and ForLoopPT for their body, after pushing their own frame)
   MappingPT / ParallelChannelPT / ArithmeticPT hand the builder on unchanged.  Proofs_builder.cpb_cp: the stack never
   influences the result (cpb = cp); a repetition frame that inherits the enclosing `iterating` entry breaks exactly this. *)
Definition frame := option (N * Z).
Definition inner_scope (st : list frame) (s : scope) : scope :=
  match st with Some (x, v) :: _ => SRange s x v | _ => s end.

Fixpoint cpb (p : pt) (s : scope) (cm : chanmap) (gt : option trafo) (st : list frame) : result (list loop) :=
  match p with
  | PAtom a => w <- build_waveform a s cm ;; Ok (atomic_emit w gt)
  | PSeq l =>
      let st' := None :: st in
      (fix go (l : list pt) : result (list loop) :=
         match l with
         | [] => Ok []
         | x :: r => a <- cpb x s cm gt st' ;; b <- go r ;; Ok (a ++ b)
         end) l
  | PRep n body =>
      v <- evals s n ;;
      k <- to_int ENotInt v ;;
      if (k <=? 0)%Z then Ok [] else
      let st' := None :: st in
      cs <- cpb body (inner_scope st' s) cm gt st' ;;
      match cs with [] => Ok [] | _ => Ok [Nest k cs] end
  | PFor idx e1 e2 e3 body =>
      a <- (v <- evals s e1 ;; to_int EValue v) ;;
      b <- (v <- evals s e2 ;; to_int EValue v) ;;
      c <- (v <- evals s e3 ;; to_int EValue v) ;;
      if (c =? 0)%Z then Err EValue else
      (fix go (l : list Z) : result (list loop) :=
         match l with
         | [] => Ok []
         | i :: r => let st' := Some (idx, i) :: st in
                     x <- cpb body (inner_scope st' s) cm gt st' ;; y <- go r ;; Ok (x ++ y)
         end) (zrange a b c)
  | PMap pm chm body => cpb body (SMapped s pm (map_ids pm body)) (cm_compose cm chm) gt st
  | PRev body =>
      cs <- cpb body s cm gt [None] ;;
      match cs with [] => Ok [] | _ => Ok [reverse_loop (Nest 1 cs)] end
  | PPar body ow =>
      vals <- par_values (lookup s) cm ow [] ;;
      cpb body s cm (Some (match gt with Some g => g ++ [TOver vals] | None => [TOver vals] end)) st
  | PArith lhs op scalar body =>
      _ <- (if match scalar with
                  | inl _ => true
                  | inr l => existsb (fun ce => match cm (fst ce) with Some _ => true | None => false end) l
                  end then scope_force s else Ok tt) ;;
      tr <- arith_trafo (lookup s) cm lhs op scalar (pt_chans body) ;;
      cpb body s cm (Some (chain tr gt)) st
  end.

(* create_program with the builder's initial stack [StackFrame(root, None)] *)
Definition create_program_b (p : pt) (env : list (N * Q)) (cm : list (chan * option chan)) (gt : option trafo)
  : result (option loop) :=
  cs <- cpb p (SDict env) (cm_of cm) gt [None] ;;
  match cs with [] => Ok None | _ => Ok (Some (Nest 1 cs)) end.
