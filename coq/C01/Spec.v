(* C01 — the independent specification: the voltage a pulse template denotes (DESIGN §4.4).
   A piece is a duration d > 0, a channel set and a function on the closed interval [0, d]; a pulse is a list of
   pieces; `at_` reads a pulse at a time with half-open junctions (a junction point belongs to the later piece).
   Nothing here mentions builders, loops, waveform classes, constant folding or transformation chaining order.
   Shared with the model: the syntax (pt, atom, expr), `eval`, the error type, and the elementary application of a
   scaling/offset/overwrite step to a channel->value record (`trafo_apply`). *)
From Coq Require Import ZArith QArith Qround List Bool.
Require Import QV.common.Util QV.C01.Model.
Import ListNotations.
Open Scope Q_scope.

Record piece := mkPiece { pdur : Q; pchans : list chan; pval : chan -> Q -> option Q }.

Definition env := N -> result Q.
Definition env_of (l : list (N * Q)) : env :=
  fun x => match nassoc x l with Some v => Ok v | None => Err EMissing end.
Definition env_map (rho : env) (m : list (N * expr)) : env :=
  fun x => match nassoc x m with Some e => eval rho e | None => rho x end.
Definition env_idx (rho : env) (x : N) (v : Z) : env :=
  fun y => if N.eqb y x then Ok (inject_Z v) else rho y.

(* ---- tables: the last segment whose closed interval contains t decides ---- *)
Definition seg_at (i : interp) (t0 v0 t1 v1 t : Q) : option Q :=
  match i with
  | Hold => Some v0
  | Jump => Some v1
  | Linear => if Qeq_bool t0 t1 then None else Some (v0 + (v1 - v0) * (t - t0) / (t1 - t0))
  end.

Fixpoint table_at (prev : tentry) (l : list tentry) (t : Q) : option Q :=
  match l with
  | [] => None
  | e :: r =>
      match table_at e r t with
      | Some v => Some v
      | None => if Qle_bool (et prev) t && Qle_bool t (et e)
                then seg_at (ei e) (et prev) (ev prev) (et e) (ev e) t else None
      end
  end.
Definition table_fun (tbl : list tentry) (t : Q) : option Q :=
  match tbl with e :: r => table_at e r t | [] => None end.

Fixpoint nondecreasing (prev : Q) (l : list tentry) : bool :=
  match l with [] => true | e :: r => Qle_bool prev (et e) && nondecreasing (et e) r end.
Definition table_ok (tbl : list tentry) : bool :=
  match tbl with e :: r => Qeq_bool (et e) 0 && nondecreasing 0 r | [] => false end.

(* leading (0, v0) and trailing hold up to the common duration are part of the meaning *)
Definition lead (first_interp_hold : bool) (tbl : list tentry) : list tentry :=
  match tbl with
  | e :: _ => if Qltb' 0 (et e) then (0, ev e, if first_interp_hold then Hold else ei e) :: tbl else tbl
  | [] => tbl
  end.
Definition trail (d : Q) (tbl : list tentry) : list tentry :=
  match rev tbl with
  | e :: _ => if Qltb' (et e) d then tbl ++ [(d, ev e, Hold)] else tbl
  | [] => tbl
  end.

Definition kept_tables (cm : chanmap) (tabs : list (chan * list tentry)) : list (chan * list tentry) :=
  flat_map (fun ce => match cm (fst ce) with Some m => [(m, snd ce)] | None => [] end) tabs.

Definition tables_piece (d : Q) (kept : list (chan * list tentry)) : result (option piece) :=
  match kept with
  | [] => Ok None
  | _ => if forallb (fun ce => table_ok (snd ce)) kept
         then Ok (Some (mkPiece d (map fst kept)
                                (fun c t => match cassoc c kept with Some tbl => table_fun tbl t | None => None end)))
         else Err EValue
  end.

Definition eval_entries (rho : env) (es : list (expr * expr * interp)) : result (list tentry) :=
  rmap (fun e => t <- eval rho (fst (fst e)) ;; v <- eval rho (snd (fst e)) ;; Ok (t, v, snd e)) es.

Definition end_t (tbl : list tentry) : Q := match rev tbl with e :: _ => et e | [] => 0 end.

Fixpoint disjointb (l : list (list chan)) : bool :=
  match l with
  | [] => true
  | x :: r => forallb (fun y => negb (existsb (fun c => cmem c y) x)) r && disjointb r
  end.

(* some channel of the list is kept (not mapped to nothing) *)
Definition kept_any (cm : chanmap) (chs : list chan) : bool :=
  existsb (fun c => match cm c with Some _ => true | None => false end) chs.

Fixpoint denote_atom (a : atom) (rho : env) (cm : chanmap) : result (option piece) :=
  match a with
  | AConst d amps =>
      dv <- eval rho d ;;
      if Qltb' 0 dv then
        vals <- rmap (fun ce => v <- eval rho (snd ce) ;; Ok (fst ce, v))
                     (flat_map (fun ce => match cm (fst ce) with Some m => [(m, snd ce)] | None => [] end) amps) ;;
        match vals with
        | [] => Ok None
        | _ => Ok (Some (mkPiece dv (map fst vals) (fun c _ => cassoc c (rev vals))))
        end
      else Ok None
  | ATable chs =>
      tabs <- rmap (fun ce => es <- eval_entries rho (snd ce) ;; Ok (fst ce, lead true es)) chs ;;
      let d := qmax_list (map (fun ce => end_t (snd ce)) tabs) in
      if Qeq_bool d 0 then Ok None
      else tables_piece d (kept_tables cm (map (fun ce => (fst ce, trail d (snd ce))) tabs))
  | APoint es chs =>
      if forallb (fun c => match cm c with None => true | Some _ => false end) chs then Ok None else
      d <- match rev es with e :: _ => eval rho (fst (fst e)) | [] => Err EValue end ;;
      if Qeq_bool d 0 then Ok None else
      rows <- rmap (fun e => t <- eval rho (fst (fst e)) ;; vs <- rmap (eval rho) (snd (fst e)) ;; Ok (t, vs, snd e)) es ;;
      let col := fun k => map (fun row : Q * list Q * interp =>
                                 (fst (fst row), match snd (fst row) with [x] => x | vs => nth k vs 0 end, snd row)) rows in
      tables_piece d (kept_tables cm (map (fun k => (nth k chs (ChI 0), lead false (col k))) (seq 0 (length chs))))
  | AMulti l =>
      (* the parts must have EQUAL durations.  A part that denotes nothing although one of its channels is kept has a
         duration <= 0 (second component of the result: "there is such a part"); next to a part of positive duration
         the durations are unequal and the template denotes nothing (Err), as for two unequal positive durations.
         Parts all of whose channels are dropped do not count. *)
      sg <- (fix go (l : list atom) : result (list piece * bool) :=
               match l with
               | [] => Ok ([], false)
               | x :: r => o <- denote_atom x rho cm ;; pg <- go r ;;
                           Ok (match o with
                               | Some p => (p :: fst pg, snd pg)
                               | None => (fst pg, kept_any cm (atom_chans x) || snd pg)
                               end)
               end) l ;;
      let subs := fst sg in
      match subs with
      | [] => Ok None
      | p0 :: r =>
          if negb (snd sg) && forallb (fun p => Qeq_bool (pdur p) (pdur p0)) r && disjointb (map pchans subs)
          then Ok (Some (mkPiece (pdur p0) (flat_map pchans subs)
                                 (fun c t => match find (fun p => cmem c (pchans p)) subs with
                                             | Some p => pval p c t
                                             | None => None
                                             end)))
          else Err EValue
      end
  | AArith l op r =>
      lp <- denote_atom l rho cm ;;
      rp <- denote_atom r rho cm ;;
      let sgn := fun x : Q => match op with OpAdd => x | OpSub => - x end in
      match lp, rp with
      | _, None => Ok lp
      | None, Some r => Ok (Some (mkPiece (pdur r) (pchans r)
                                          (fun c t => match pval r c t with Some x => Some (sgn x) | None => None end)))
      | Some l, Some r =>
          if Qeq_bool (pdur l) (pdur r) then
            Ok (Some (mkPiece (pdur l) (cunion (pchans l) (pchans r))
                              (fun c t =>
                                 if cmem c (pchans l) && cmem c (pchans r) then
                                   match pval l c t, pval r c t with
                                   | Some x, Some y => Some (x + sgn y)
                                   | _, _ => None
                                   end
                                 else if cmem c (pchans l) then pval l c t
                                 else match pval r c t with Some y => Some (sgn y) | None => None end)))
          else Err EValue
      end
  | AFunc d c a b =>
      match cm c with
      | None => Ok None
      | Some m =>
          dv <- eval rho d ;; av <- eval rho a ;; bv <- eval rho b ;;
          if Qltb' 0 dv then Ok (Some (mkPiece dv [m] (fun _ t => Some (av + bv * t)))) else Ok None
      end
  end.

(* ---- composition ---- *)
Definition mirror (p : piece) : piece :=
  mkPiece (pdur p) (pchans p) (fun c t => pval p c (Qred (pdur p - t))).

(* a list of scaling / offset / overwrite steps applied pointwise to all channels of a piece *)
Definition piece_trafo (tr : trafo) (p : piece) : piece :=
  mkPiece (pdur p) (trafo_outputs tr (pchans p))
          (fun c t => data_get c (trafo_apply tr (map (fun ic => (ic, pval p ic t)) (pchans p)))).

(* the meaning of `scalar op pulse` / `pulse op scalar` (channel-wise on the kept channels the scalar speaks about;
   for `scalar - pulse` every kept channel of the pulse is negated first) and of the values of a parallel-channel
   node are the plain evaluations `arith_trafo` / `par_values` (Model.v) under the environment *)
Fixpoint denote (p : pt) (rho : env) (cm : chanmap) : result (list piece) :=
  match p with
  | PAtom a => o <- denote_atom a rho cm ;; Ok (match o with None => nil | Some pc => cons pc nil end)
  | PSeq l =>
      (fix go (l : list pt) : result (list piece) :=
         match l with
         | [] => Ok []
         | x :: r => a <- denote x rho cm ;; b <- go r ;; Ok (a ++ b)
         end) l
  | PRep n body =>
      v <- eval rho n ;;
      k <- to_int ENotInt v ;;
      if (k <=? 0)%Z then Ok [] else
      pcs <- denote body rho cm ;;
      Ok (repeat_app (Z.to_nat k) pcs)
  | PFor idx e1 e2 e3 body =>
      a <- (v <- eval rho e1 ;; to_int EValue v) ;;
      b <- (v <- eval rho e2 ;; to_int EValue v) ;;
      c <- (v <- eval rho e3 ;; to_int EValue v) ;;
      if (c =? 0)%Z then Err EValue else
      (fix go (l : list Z) : result (list piece) :=
         match l with
         | [] => Ok []
         | i :: r => x <- denote body (env_idx rho idx i) cm ;; y <- go r ;; Ok (x ++ y)
         end) (zrange a b c)
  | PMap pm chm body => denote body (env_map rho pm) (cm_compose cm chm)
  | PRev body => pcs <- denote body rho cm ;; Ok (rev (map mirror pcs))
  | PPar body ow =>
      vals <- par_values rho cm ow [] ;;
      pcs <- denote body rho cm ;;
      Ok (map (piece_trafo [TOver vals]) pcs)
  | PArith lhs op scalar body =>
      tr <- arith_trafo rho cm lhs op scalar (pt_chans body) ;;
      pcs <- denote body rho cm ;;
      Ok (map (piece_trafo tr) pcs)
  end.

Fixpoint at_ (pcs : list piece) (c : chan) (t : Q) : option Q :=
  match pcs with
  | [] => None
  | p :: r => if Qltb' t (pdur p) then pval p c t else at_ r c (Qred (t - pdur p))
  end.

Definition total (pcs : list piece) : Q := fold_right (fun p acc => Qred (pdur p + acc)) 0 pcs.
Definition pulse_chans (pcs : list piece) : list chan := match pcs with p :: _ => pchans p | [] => [] end.

(* the parameter assignment provides every declared parameter (precondition of the property) *)
Definition accepts (p : pt) (env : list (N * Q)) : bool :=
  forallb (fun x => match nassoc x env with Some _ => true | None => false end) (pt_params p).

Definition denote_top (p : pt) (env : list (N * Q)) (cm : list (chan * option chan)) : result (list piece) :=
  denote p (env_of env) (cm_of cm).
