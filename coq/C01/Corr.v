(* C01 — correspondence cases.  A case carries the template tree, the parameter values, the channel mapping and the
   implementation's observation (None | channel set, duration, samples of to_waveform(program).get_sampled | error).
   check_corr: the operational model (create_program + to_waveform + get_sampled, and `play`) reproduces it.
   check_spec: the denotation (Spec.denote / at_) accepts it. *)
From Coq Require Import ZArith QArith Qabs Qround List Bool.
Require Import QV.common.Util QV.C01.Model QV.C01.Spec.
Import ListNotations.
Open Scope Q_scope.

Inductive obs :=
| ONone
| OProg (chans : list chan) (dur : Q) (samples : list (chan * list (Q * option Q)))
| OErr (e : err)
| OUnplayable.     (* create_program returned a program, to_waveform(program) raised ValueError *)

Inductive case :=
| CCase (p : pt) (env : list (N * Q)) (cm : list (chan * option chan)) (o : obs)
| CCaseM (p : pt) (env : list (N * Q)) (cm : list (chan * option chan)) (o : obs)
    (* model side only: inputs of a KNOWN finding are emitted twice, once as CCase (specification oracle; the check skips
       the model comparison of a classified failure) and once as CCaseM (model comparison, oracle not consulted) *)
| CDec (p : pt) (env : list (N * Q)) (cm : list (chan * option chan)) (o : obs)
    (* decimal stream (round 4): durations k/10, k/3, k/12 ... are not binary fractions.  [env] holds the EXACT rationals
       (the code got them as float / decimal string / TimeType), the sample times are the exact rationals whose correctly
       rounded doubles the code was asked for, the observed samples are binary64 results.  Channel set and duration are
       compared exactly, which piece answers a junction is therefore decided exactly (the generated pieces start and end
       at voltages >= 1/2 apart); sample VALUES are compared under the declared absolute tolerance [tol] = 2^-30 *)
| CCrash.

Definition tol : Q := 1 # 1073741824.
Definition approxb (a b : Q) : bool := Qle_bool (Qabs (a - b)) tol.
Definition oq_approxb (a b : option Q) : bool :=
  match a, b with Some x, Some y => approxb x y | None, None => true | _, _ => false end.

Definition oq_eqb (a b : option Q) : bool := opt_eqb Qeq_bool a b.

Definition corr_body (cmp : option Q -> option Q -> bool)
           (p : pt) (env : list (N * Q)) (cm : list (chan * option chan)) (o : obs) : bool :=
      match create_program_b p env cm None, o with     (* the builder form with its frame stack; = create_program (cpb_cp) *)
      | Err e, OErr e' => err_eqb e e'
      | Ok None, ONone => true
      | Ok (Some prog), OProg chans dur samples =>
          match to_waveform prog with
          | Err _ => false
          | Ok w =>
              cset_eqb (wchans w) chans && Qeq_bool (wdur w) dur && Qeq_bool (loop_dur prog) dur &&
              forallb (fun cs =>
                         forallb (fun tv =>
                                    cmp (get_sampled w (fst cs) (fst tv)) (snd tv) &&
                                    (if Qltb' (fst tv) dur then cmp (play prog (fst cs) (fst tv)) (snd tv) else true))
                                 (snd cs)) samples
          end
      | Ok (Some prog), OUnplayable => match to_waveform prog with Err _ => true | Ok _ => false end
      | _, _ => false
      end.

Definition check_corr (c : case) : bool :=
  match c with
  | CCrash => false
  | CCase p env cm o | CCaseM p env cm o => corr_body oq_eqb p env cm o
  | CDec p env cm o => corr_body oq_approxb p env cm o
  end.

Definition spec_body (cmp : option Q -> option Q -> bool)
           (p : pt) (env : list (N * Q)) (cm : list (chan * option chan)) (o : obs) : bool :=
      match denote_top p env cm, o with
      | Err _, OErr _ => true
      | Ok _, OErr EMissing => negb (accepts p env)   (* a declared parameter is not provided: rejecting is allowed *)
      | Ok [], ONone => true
      | Ok (p0 :: r), OProg chans dur samples =>
          let pcs := p0 :: r in
          forallb (fun pc => cset_eqb (pchans pc) chans && Qltb' 0 (pdur pc)) pcs &&
          Qeq_bool (total pcs) dur &&
          forallb (fun ch => existsb (fun cs => chan_eqb (fst cs) ch) samples) chans &&
          forallb (fun cs =>
                     cmem (fst cs) chans &&
                     forallb (fun tv =>
                                if Qle_bool 0 (fst tv) && Qltb' (fst tv) dur
                                then match snd tv with
                                     | Some _ => cmp (at_ pcs (fst cs) (fst tv)) (snd tv)
                                     | None => false     (* no sample is NaN *)
                                     end
                                else true)
                             (snd cs)) samples
      | _, _ => false
      end.

Definition check_spec (c : case) : bool :=
  match c with
  | CCrash => false
  | CCaseM _ _ _ _ => true
  | CCase p env cm o => spec_body oq_eqb p env cm o
  | CDec p env cm o => spec_body oq_approxb p env cm o
  end.
