(* C12 -- the specification check.  Every case carries the inputs and the implementation's observation.
   check_spec evaluates the property's own specification on the observation: the denotation `eval` of the written
   formula (pointwise for arrays, at once in `ext` for partial substitution, the operator on values for builders,
   soundness on sample scopes for comparisons, exactness for exact inputs in the exact mode).
   This file imports Spec.v ONLY (not Model.v / ModelT.v): no substitution, builder, broadcasting or typed-evaluation
   function of the operational model can be called here. *)
From Coq Require Import ZArith QArith Qround Qabs List Bool NArith.
Require Export QV.C12.Spec.
Require Import QV.common.Util.
Import ListNotations.
Inductive ekind := KUnbound | KDivZero | KIndex | KNonNumeric | KOther.
Inductive obs :=
| OVal (q : Q)                      (* a finite number (exact rational value of the int / float / TimeType returned) *)
| OArr (l : list (option Q))        (* an array; None = nan / inf element *)
| ONan                              (* scalar nan / inf *)
| OErr (k : ekind).                 (* expected exception, by kind *)

Record call := mkCall {
  c_sc : list (N * Q);              (* scalar variables *)
  c_vc : list (N * list Q);         (* indexed bases *)
  c_fn : list (N * Q * Q);          (* interpretation table of sin/cos/exp at the arguments that occur *)
  c_tol : bool;                     (* inexact by nature (float division, non-dyadic constant, transcendental) *)
  c_obs : obs }.

Inductive ucase :=
| CEval (e : expr) (ivars : list N) (calls : list call)      (* all access paths / a call history on one object *)
| CArr (e : expr) (sc : list (N * value)) (vc : list (N * list Q)) (fnt : list (N * Q * Q)) (n : nat) (tol : bool)
       (o : obs)                                              (* variables bound to arrays of n sample points *)
| CPartial (e : expr) (s : list (N * expr)) (c : call)       (* evaluate_symbolic(s) then evaluate in c's scope *)
| CBuild (o : bop) (a b : expr) (c : call)                   (* (a <op> b) built by the operators, then evaluated *)
| CNeg (a : expr) (c : call)
| CCmp (op : cmpop) (a b : expr) (impl : option bool) (samples : list (list (N * Q)))
| CVec (es : list expr) (c : call)                           (* ExpressionVector: c_obs is an OArr *)
| CVecPartial (es : list expr) (s : list (N * expr)) (c : call)   (* ExpressionVector.evaluate_symbolic(s), then evaluate *)
| CTyped (ex : bool) (e : expr) (tsc : list (N * (Q * ty))) (tvc : list (N * (list Q * ty))) (tolf : bool) (o : obs)
         (oc : option ty)
    (* a scalar call on the formula the implementation holds (read back from sympy) against the typed model:
       ex = true evaluate_with_exact_rationals, false evaluate_in_scope / evaluate_numeric; typed scope (decimal literals
       are bound to reserved float variables); tolf: some intermediate value is not a double (only used where the
       typed model predicts a float); oc: the observed Python type class of the result *)
| CChain (e : expr) (ss : list (list (N * expr))) (c : call)
    (* round 6: evaluate_symbolic(s1), then evaluate_symbolic(s2) ... on the results, then evaluate in c's scope *)
| CCrash.

Definition eps : Q := 1 # 1073741824.   (* 2^-30, relative to max(1,|v|) *)
Definition close (tol : bool) (v q : Q) : bool :=
  Qeq_bool v q || (tol && Qle_bool (Qabs (v - q)) (eps * (if Qle_bool 1 (Qabs v) then Qabs v else 1))).

Definition is_err (o : obs) : bool := match o with OErr _ => true | _ => false end.

(* scalar agreement of a model result with an observation.
   A division by zero in the written formula has no value: nothing is required there (sympy may have cancelled it). *)
Definition agree (tol : bool) (m : result Q) (o : obs) : bool :=
  match m with
  | Ok v => match o with OVal q => close tol v q | _ => false end
  | Err EUnbound => match o with OErr KUnbound => true | _ => false end
  | Err EFn => false                        (* interpretation table incomplete: a fault of the harness, surfaced *)
  | Err _ => true                           (* the written formula has no value here (division by zero, nan branch,
                                               index out of range): nothing is required; sympy may even have
                                               simplified the offending part away, e.g. x**0 = 1 *)
  end.

Definition env_of (c : call) : env := mk_env (c_sc c) (c_vc c) (c_fn c).

(* a variable of the formula that sympy simplified away (a - a, 0*a) is not required by the implementation *)
Definition agree_call (e : expr) (ivars : list N) (c : call) : bool :=
  let r := env_of c in
  if all_bound r e then agree (c_tol c) (eval r e) (c_obs c)
  else if forallb (fun x => is_some (sc r x) || is_some (vc r x)) ivars then true
  else match c_obs c with OErr KUnbound => true | _ => false end.

Definition elem_agree (tol : bool) (m : result Q) (o : option Q) : bool :=
  match m, o with
  | Ok v, Some q => close tol v q
  | Ok _, None => false
  | Err EFn, _ => false
  | Err _, _ => true
  end.

Definition spec_arr (e : expr) (r : aenv) (n : nat) (tol : bool) (o : obs) : bool :=
  let ms := map (fun j => eval (proj r j) e) (seq 0 n) in
  match o with
  | OArr l => Nat.eqb (length l) n && forallb (fun p => elem_agree tol (fst p) (snd p)) (combine ms l)
  | OVal q => forallb (fun m => elem_agree tol m (Some q)) ms
  | ONan => forallb (fun m => elem_agree tol m None) ms
  | OErr _ => (* an exception for the whole array: only justified if some sample point has no value *)
      existsb (fun m => match m with Err _ => true | Ok _ => false end) ms
  end.

Definition aall_bound (r : aenv) (e : expr) : bool :=
  forallb (fun x => is_some (asc r x)) (fv e) && forallb (fun x => is_some (avc r x)) (fvv e).


Definition bind2 (a b : result Q) (f : Q -> Q -> result Q) : result Q :=
  bind a (fun x => bind b (fun y => f x y)).

(* an ExpressionVector evaluates item by item: the result array holds the value of every item; an exception for the
   whole vector is justified only by an item without a value *)
Definition vec_agree (ev : expr -> result Q) (es : list expr) (c : call) : bool :=
  match c_obs c with
  | OArr l => Nat.eqb (length l) (length es) &&
              forallb (fun p => match snd p with
                                | Some q => agree (c_tol c) (ev (fst p)) (OVal q)
                                | None => agree (c_tol c) (ev (fst p)) ONan
                                end) (combine es l)
  | o => existsb (fun e => agree (c_tol c) (ev e) o) es
  end.

(* every substituted term has a value in the scope (else evaluating at once is not defined: nothing is required) *)
Definition subst_terms_defined (r : env) (s : list (N * expr)) : bool :=
  forallb (fun p => match evaluate r (snd p) with Ok _ => true | Err _ => false end) s.

(* a chain: the terms of every step have a value in the scope the later steps denote *)
Fixpoint chain_defined (r : env) (ss : list (list (N * expr))) : bool :=
  match ss with
  | [] => true
  | s :: rest => chain_defined r rest && subst_terms_defined (ext_chain r rest) s
  end.

Definition ucheck_spec (c : ucase) : bool :=
  match c with
  | CEval e ivars calls => forallb (agree_call e ivars) calls
  | CArr e sc vc fnt n tol o =>
      let r := mk_aenv sc vc fnt in
      if aall_bound r e then spec_arr e r n tol o else match o with OErr KUnbound => true | _ => false end
  | CPartial e s c =>
      (* evaluating at once, in the scope extended by the values of the substituted terms
         (nothing is required when a substituted term has no value in that scope) *)
      if subst_terms_defined (env_of c) s
      then agree (c_tol c) (evaluate (ext (env_of c) s) e) (c_obs c)
      else true
  | CBuild o a b c => agree (c_tol c) (bind2 (evaluate (env_of c) a) (evaluate (env_of c) b) (bop_val o)) (c_obs c)
  | CNeg a c => agree (c_tol c) (bind (evaluate (env_of c) a) (fun x => Ok (- x))) (c_obs c)
  | CCmp op a b impl samples =>
      match impl with
      | None => true
      | Some r =>
          forallb (fun s => let rr := mk_env s [] [] in
                            match evaluate rr a, evaluate rr b with
                            | Ok x, Ok y => Bool.eqb (cmp_eval op x y) r
                            | _, _ => true
                            end) samples
      end
  | CVec es c => vec_agree (evaluate (env_of c)) es c
  | CVecPartial es s c =>
      if subst_terms_defined (env_of c) s then vec_agree (evaluate (ext (env_of c) s)) es c else true
  | CTyped ex e s v tolf o _ =>
      (* exact mode, exact inputs: the exact value.  Otherwise: the value of the formula, exactly unless some
         intermediate value is no double (the result type is not part of the property) *)
      let r := mk_env (untyped s) (untyped v) [] in
      if all_bound r e
      then agree (negb (ex && exact_inputs s v) && tolf) (eval r e) o
      else true
  | CChain e ss c =>
      if chain_defined (env_of c) ss
      then agree (c_tol c) (evaluate (ext_chain (env_of c) ss) e) (c_obs c)
      else true
  | CCrash => false
  end.

(* one generated case = the calls made on ONE expression object, in order (a call history), or -- round 4 -- a SESSION:
   the steps made on SEVERAL objects in one process, in order.  The denotation has no history and no process state:
   every unit is judged on its own, so a session is accepted iff each of its steps is (check_*_app below is that
   statement).  [] is never generated *)
Definition case := list ucase.
Definition nonempty {A} (l : list A) : bool := match l with [] => false | _ => true end.
Definition check_spec (c : case) : bool := nonempty c && forallb ucheck_spec c.

(* a session is judged step by step: the verdict on a concatenation is the conjunction of the verdicts *)
Lemma check_spec_app : forall a b : case, nonempty a = true -> nonempty b = true ->
  check_spec (a ++ b) = check_spec a && check_spec b.
Proof.
  intros a b Ha Hb. unfold check_spec. rewrite Ha, Hb, forallb_app.
  destruct a; [discriminate|]. reflexivity.
Qed.
