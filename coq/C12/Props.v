(* C12 — property theorems (statements only; proofs live in Proofs.v). *)
From Coq Require Import ZArith QArith List Bool NArith.
Require Import QV.C12.Model QV.C12.Proofs.

(* builders: the formula built by `a <op> b` evaluates to the operator applied to the values *)
Theorem C12_builders : forall r o a b,
  eval r (build o a b) = bind2 (eval r a) (eval r b) (bop_val o).
Proof. exact build_correct. Qed.
Print Assumptions C12_builders.
