(* C12 — property theorems (statements only; proofs live in Proofs.v).
   The specification is the denotation `eval` of Spec.v (+ ext / proj / bop_val / cmp_eval); the operations of Model.v /
   ModelT.v (subst, build, cmp_model, evalv, evalT) are related to it (unbounded: every formula, substitution, scope).
   "qupulse's sympy-based evaluation returns `eval`" is NOT a theorem: sympy is the implementation, it is compared with
   `eval` by the correspondence check (Corr.v + harness). *)
From Coq Require Import ZArith QArith List Bool NArith.
Require Import QV.C12.Model QV.C12.Proofs QV.C12.Proofs_vec QV.C12.ModelT QV.C12.ProofsT.
Import ListNotations.

(* evaluation depends only on the names that occur in the formula *)
Theorem C12_eval_free_names : forall e r r',
  (forall x, In x (fv e) -> sc r x = sc r' x) ->
  (forall x, In x (fvv e) -> vc r x = vc r' x) ->
  (forall f, In f (fns e) -> forall q, fn r f q = fn r' f q) ->
  eval r e = eval r' e.
Proof. exact eval_agree. Qed.
Print Assumptions C12_eval_free_names.

(* substitution lemma, simultaneous (swap-safe), under the executable capture guard: evaluating the substituted formula
   = evaluating the formula in the scope extended by the values of the substituted terms (same value, or both none) *)
Theorem C12_subst : forall e s r, capture_free s e = true ->
  rsim (eval r (subst s e)) (eval (ext r s) e).
Proof. exact subst_sim. Qed.
Print Assumptions C12_subst.

Theorem C12_subst_value : forall e s r v, capture_free s e = true ->
  (eval r (subst s e) = Ok v <-> eval (ext r s) e = Ok v).
Proof. exact subst_value. Qed.
Print Assumptions C12_subst_value.

(* the unguarded statement, kept type-checked: it is FALSE for the substitution qupulse/sympy implement *)
Definition C12_subst_unguarded_statement : Prop :=
  forall e s r, rsim (eval r (subst s e)) (eval (ext r s) e).

(* refutation: c := k inside Sum(c*k, (k, 0, 2)) with k = 10 gives 5, evaluation at once gives 30 *)
Theorem C12_subst_refuted :
  exists x y, eval capture_r (subst capture_s capture_e) = Ok x /\ eval (ext capture_r capture_s) capture_e = Ok y /\
              ~ x == y.
Proof. exact subst_capture_witness. Qed.
Print Assumptions C12_subst_refuted.

Theorem C12_guard_excludes_witness : capture_free capture_s capture_e = false.
Proof. exact capture_guard_rejects_witness. Qed.
Print Assumptions C12_guard_excludes_witness.

(* the guard is satisfiable by a non-trivial input (a swap a <-> b under a Sum that really changes the formula) *)
Theorem C12_guard_nonvacuous : capture_free swap_s swap_e = true /\ subst swap_s swap_e <> swap_e.
Proof. exact capture_guard_nonvacuous. Qed.
Print Assumptions C12_guard_nonvacuous.

(* ... both sides have a value there and the substitution changes the value (38 against 32 for the formula as written) *)
Theorem C12_subst_nonvacuous_value :
  capture_free swap_s swap_e = true /\
  eval swap_r (subst swap_s swap_e) = Ok (38 # 1) /\ eval (ext swap_r swap_s) swap_e = Ok (38 # 1) /\
  eval swap_r swap_e = Ok (32 # 1).
Proof. exact subst_nonvacuous_value. Qed.
Print Assumptions C12_subst_nonvacuous_value.

(* substituting NUMBERS never captures: partial-then-full evaluation = evaluation at once (no guard) *)
Theorem C12_partial : forall e l r, rsim (eval r (subst (consts l) e)) (eval (over l r) e).
Proof. exact partial_sim. Qed.
Print Assumptions C12_partial.

(* ... for every split l1 ++ l2 of a scope *)
Theorem C12_partial_split : forall e l1 l2 vcs t v,
  eval (mk_env l2 vcs t) (subst (consts l1) e) = Ok v <-> eval (mk_env (l1 ++ l2) vcs t) e = Ok v.
Proof. exact partial_split. Qed.
Print Assumptions C12_partial_split.

(* round 6 -- SEVERAL substitution steps one after the other (evaluate_symbolic on the result of evaluate_symbolic ...),
   any number of them: evaluating the final formula = evaluating the written formula at once in the scope the steps
   denote (the later steps give the scope the terms of the earlier ones are read in); every step capture free on the
   formula it is applied to *)
Theorem C12_subst_chain : forall ss e r, chain_free ss e = true ->
  rsim (eval r (subst_chain ss e)) (eval (ext_chain r ss) e).
Proof. exact subst_chain_sim. Qed.
Print Assumptions C12_subst_chain.

Theorem C12_subst_chain_value : forall ss e r v, chain_free ss e = true ->
  (eval r (subst_chain ss e) = Ok v <-> eval (ext_chain r ss) e = Ok v).
Proof. exact subst_chain_value. Qed.
Print Assumptions C12_subst_chain_value.

(* ... steps that substitute numbers only: no guard *)
Theorem C12_partial_chain : forall ls e r,
  rsim (eval r (subst_chain (map consts ls) e)) (eval (ext_chain r (map consts ls)) e).
Proof. exact partial_chain_sim. Qed.
Print Assumptions C12_partial_chain.

(* example (the class of seed C12-9: k is free AND the index of the Sum): the chain k := c, then c := 2, n := 3 gives
   14 on both sides; the bound k stays; the joint mapping would give 17 *)
Theorem C12_subst_chain_nonvacuous :
  (chain_free [chain_s1; chain_s2] chain_e = true) /\
  (subst_chain [chain_s1; chain_s2] chain_e =
    Bin BAdd (Const (2 # 1)) (Sum 10%N (Const 0) (Const (3 # 1)) (Bin BMul (Const (2 # 1)) (Var 10%N)))) /\
  (exists v, eval chain_r (subst_chain [chain_s1; chain_s2] chain_e) = Ok v /\ v == 14 # 1) /\
  (exists v, eval (ext_chain chain_r [chain_s1; chain_s2]) chain_e = Ok v /\ v == 14 # 1) /\
  (exists v, eval chain_r (subst (chain_s1 ++ chain_s2) chain_e) = Ok v /\ v == 17 # 1).
Proof. exact chain_nonvacuous. Qed.
Print Assumptions C12_subst_chain_nonvacuous.

(* builders: the formula built by `a <op> b` evaluates to the operator applied to the values (// = floor of quotient) *)
Theorem C12_builders : forall r o a b,
  eval r (build o a b) = bind2 (eval r a) (eval r b) (bop_val o).
Proof. exact build_correct. Qed.
Print Assumptions C12_builders.

Theorem C12_builder_neg : forall r a, eval r (build_neg a) = bind (eval r a) (fun x => Ok (- x)).
Proof. exact build_neg_correct. Qed.
Print Assumptions C12_builder_neg.

(* tri-state comparison: a decision is sound in every scope; formulas with free names are left undecided *)
Theorem C12_cmp_sound : forall f c a b res, cmp_model f c a b = Some res ->
  forall r, (forall g q, fn r g q = f g q) ->
  exists x y, eval r a = Ok x /\ eval r b = Ok y /\ cmp_eval c x y = res.
Proof. exact cmp_sound. Qed.
Print Assumptions C12_cmp_sound.

Theorem C12_cmp_undecided : forall f c a b, closed a && closed b = false -> cmp_model f c a b = None.
Proof. exact cmp_undecided_open. Qed.
Print Assumptions C12_cmp_undecided.

Theorem C12_cmp_nonvacuous :
  cmp_model (fun _ _ => None) OLt cmp_a cmp_b = Some true /\ cmp_model (fun _ _ => None) OGe cmp_a cmp_b = Some false /\
  closed (Var 0%N) && closed cmp_b = false.
Proof. exact cmp_nonvacuous. Qed.
Print Assumptions C12_cmp_nonvacuous.

(* exact-rational closure: `eval` is a function into Q, so every value it returns is the exact rational number the
   formula denotes; for the rational fragment (no sin/cos/exp) that value does not depend on any interpretation of the
   transcendental functions, i.e. it is determined by the rational inputs alone *)
Theorem C12_exact_rational_fragment : forall e r g, fns e = [] ->
  eval r e = eval {| sc := sc r; vc := vc r; fn := g |} e.
Proof. exact rational_fragment. Qed.
Print Assumptions C12_exact_rational_fragment.

(* array evaluation = map of scalar evaluation (numpy broadcasting of scalars against arrays of n sample points,
   numpy.select per element, Sum with a scalar index): whenever the broadcasting evaluation succeeds, its element j is
   the value of the formula in the scope seen by sample point j *)
Theorem C12_vector : forall e r n v,
    (forall x l, asc r x = Some (VArr l) -> length l = n) ->
    evalv r e = Ok v ->
    forall j, (j < n)%nat -> exists q, vget v j = Some q /\ eval (proj r j) e = Ok q.
Proof. exact evalv_pointwise. Qed.
Print Assumptions C12_vector.

(* ... and the result is a scalar or an array of exactly n elements *)
Theorem C12_vector_shape : forall e r n v,
    (forall x l, asc r x = Some (VArr l) -> length l = n) ->
    evalv r e = Ok v -> match v with VQ _ => True | VArr l => length l = n end.
Proof. exact evalv_shape. Qed.
Print Assumptions C12_vector_shape.

(* a scope without arrays: the broadcasting evaluation returns a scalar, the value of the formula *)
Theorem C12_vector_scalar_scope : forall e r v,
    (forall x l, asc r x <> Some (VArr l)) -> evalv r e = Ok v -> exists q, v = VQ q /\ eval (proj r 0) e = Ok q.
Proof. exact evalv_scalar_scope. Qed.
Print Assumptions C12_vector_scalar_scope.

Theorem C12_vector_nonvacuous :
  (forall x l, asc vec_r x = Some (VArr l) -> length l = 3%nat) /\
  exists l, evalv vec_r vec_e = Ok (VArr l) /\ length l = 3%nat.
Proof. exact vec_nonvacuous. Qed.
Print Assumptions C12_vector_nonvacuous.

(* the converse (pointwise values exist => the broadcasting evaluation succeeds) is NOT claimed: numpy evaluates every
   Piecewise branch on the whole array, so shapes/errors of unselected branches matter (finding piecewise-eager) *)

(* ---- value types: exact-rational mode and numeric mode (ModelT.v; the mode is the field `tex` of the scope) ------ *)
(* the typed evaluation computes exactly the value of `eval` (types are a refinement, they never change the value) *)
Theorem C12_typed_erasure : forall e r, rfst (evalT r e) = eval (erase r) e.
Proof. exact evalT_erase. Qed.
Print Assumptions C12_typed_erasure.

(* the static type over-approximation is sound *)
Theorem C12_typed_poss : forall e r s sv v t, env_in r s sv -> evalT r e = Ok (v, t) -> In t (poss (tex r) s sv e).
Proof. exact evalT_poss. Qed.
Print Assumptions C12_typed_poss.

(* exact mode under the executable guard: the result is the exact rational value of the formula, of an exact type *)
Theorem C12_exact_mode : forall e r s sv v t, tex r = true -> env_in r s sv -> exact_guard s sv e = true ->
  evalT r e = Ok (v, t) -> t <> TFloat /\ eval (erase r) e = Ok v.
Proof. exact exact_mode_guarded. Qed.
Print Assumptions C12_exact_mode.

(* the unguarded statement ("exact inputs give an exact result"), kept type-checked: FALSE for Python arithmetic *)
Definition C12_exact_mode_unguarded_statement : Prop :=
  forall e r v t, tex r = true -> exact_inputs_env r -> evalT r e = Ok (v, t) -> t <> TFloat.

(* refutation (finding exact-int-div): a / b with the ints a = 1, b = 3 is the float 1/3 *)
Theorem C12_exact_mode_refuted :
  tex idiv_r = true /\ exact_inputs_env idiv_r /\ exists v, evalT idiv_r idiv_e = Ok (v, TFloat) /\ v == 1 # 3.
Proof. split; [reflexivity | exact exact_int_div_witness]. Qed.
Print Assumptions C12_exact_mode_refuted.

Theorem C12_exact_guard_excludes_witness : exact_guard idiv_s idiv_s idiv_e = false.
Proof. exact exact_guard_rejects_witness. Qed.
Print Assumptions C12_exact_guard_excludes_witness.

Theorem C12_exact_guard_nonvacuous :
  tex exact_r = true /\ exact_guard exact_s exact_s exact_e = true /\ env_in exact_r exact_s exact_s /\
  exists v, evalT exact_r exact_e = Ok (v, TTime) /\ v == 13 # 6.
Proof. exact exact_guard_nonvacuous. Qed.
Print Assumptions C12_exact_guard_nonvacuous.

(* ---- round 3: Piecewise = numpy.select, the two printers, float literals ------------------------------------------ *)
(* numpy.select(conds, choices, default=nan) promotes to float64 (an object array as soon as a TimeType is among the
   choices): the model makes no exactness claim for a Piecewise -- its type is TFloat, which is why exact_guard rejects
   every formula whose result can come out of a Piecewise (TimeType branches: finding timetype-piecewise) *)
Theorem C12_select_float : forall r c a b v t, evalT r (Ite c a b) = Ok (v, t) -> t = TFloat.
Proof. exact evalT_ite_float. Qed.
Print Assumptions C12_select_float.

(* the printer (exact: Rational -> TimeType; numeric: Rational -> p/q) never changes the value, only the type *)
Theorem C12_mode_value : forall e r ex, rfst (evalT (with_mode ex r) e) = rfst (evalT r e).
Proof. exact evalT_mode_value. Qed.
Print Assumptions C12_mode_value.

Theorem C12_mode_example :
  (exists v, evalT (num_r true) num_e = Ok (v, TTime) /\ v == (-3) # 2) /\
  (exists v, evalT (num_r false) num_e = Ok (v, TFloat) /\ v == (-3) # 2) /\
  (exists v, evalT (num_r true) (Bin BMul (Const (1 # 2)) (Var 0%N)) = Ok (v, TTime) /\ v == 3 # 2) /\
  (exists v, evalT (num_r false) (Bin BMul (Const (1 # 2)) (Var 0%N)) = Ok (v, TFloat) /\ v == 3 # 2).
Proof. exact mode_example. Qed.
Print Assumptions C12_mode_example.

(* decimal float literals: the correspondence binds a literal q to a reserved variable x of type float; the typed
   evaluation in that scope has the value of the formula with the literal in place (or both have none) *)
Theorem C12_literal_as_input : forall e r x q t,
  rsim (eval (erase r) (subst (consts [(x, q)]) e)) (rfst (evalT (set_tsc r x (q, t)) e)).
Proof. exact literal_as_input. Qed.
Print Assumptions C12_literal_as_input.

(* check_spec (SpecCheck.v imports Spec.v only) judges a typed unit case in the erasure of the scope the typed model runs
   in: the specification side and the model side of a CTyped case speak about the same formula in the same scope *)
Theorem C12_spec_scope_is_erasure : forall ex s v e,
  eval (mk_env (untyped s) (untyped v) []) e = eval (erase (mk_tenv ex s v [])) e.
Proof. exact spec_scope_is_erasure. Qed.
Print Assumptions C12_spec_scope_is_erasure.
