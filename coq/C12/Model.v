(* C12 -- the OPERATIONAL MODEL of what qupulse builds on the formula language (the language and its denotation are the
   specification, Spec.v): substitution = evaluate_symbolic -> recursive_substitution, builders = ExpressionScalar
   operators, the tri-state comparison, numpy-style broadcasting evaluation.  Definitions only (no proofs): the file
   must still evaluate when a proof breaks.  sympy itself (parser, printer, lambdify) is NOT modelled: it is the
   implementation and is compared with `eval`. *)
From Coq Require Import ZArith QArith Qround Qabs List Bool NArith.
Require Export QV.C12.Spec.
Import ListNotations.

(* ---- substitution (Expression.evaluate_symbolic -> recursive_substitution) ------------------------------------- *)
Definition remove_key {A} (i : N) (l : list (N * A)) : list (N * A) :=
  filter (fun p => negb (N.eqb (fst p) i)) l.

(* simultaneous; a Sum's own index is shadowed (it is not a free symbol of the Sum, so _recursive_substitution drops
   it before descending); NO renaming of the index: a substituted term that mentions the index is captured *)
Fixpoint subst (s : list (N * expr)) (e : expr) : expr :=
  match e with
  | Const q => Const q
  | Nan => Nan
  | Var x => match lookup s x with Some t => t | None => Var x end
  | Un o a => Un o (subst s a)
  | Bin o a b => Bin o (subst s a) (subst s b)
  | Ite c a b => Ite (subst s c) (subst s a) (subst s b)
  | Sum i lo hi body => Sum i (subst s lo) (subst s hi) (subst (remove_key i s) body)
  | Idx x i => Idx x (subst s i)
  | IBc a n i => IBc (subst s a) n (subst s i)
  end.


(* executable guard: no substituted term that reaches the body of a Sum mentions that Sum's index *)
Fixpoint capture_free (s : list (N * expr)) (e : expr) : bool :=
  match e with
  | Const _ | Nan | Var _ => true
  | Un _ a => capture_free s a
  | Bin _ a b => capture_free s a && capture_free s b
  | Ite c a b => capture_free s c && capture_free s a && capture_free s b
  | Sum i lo hi body =>
      capture_free s lo && capture_free s hi &&
      forallb (fun x => match lookup (remove_key i s) x with
                        | Some t => negb (nmem i (fv t))
                        | None => true
                        end) (fv body) &&
      capture_free (remove_key i s) body
  | Idx _ i => capture_free s i
  | IBc a _ i => capture_free s a && capture_free s i
  end.

Definition consts (l : list (N * Q)) : list (N * expr) := map (fun p => (fst p, Const (snd p))) l.

(* evaluate_symbolic called several times in a row (the head of the list first); the guard asks every step to be
   capture free on the formula it is applied to *)
Fixpoint subst_chain (ss : list (list (N * expr))) (e : expr) : expr :=
  match ss with
  | [] => e
  | s :: rest => subst_chain rest (subst s e)
  end.
Fixpoint chain_free (ss : list (list (N * expr))) (e : expr) : bool :=
  match ss with
  | [] => true
  | s :: rest => capture_free s e && chain_free rest (subst s e)
  end.

(* ---- builders (ExpressionScalar.__add__ ... between an expression and an expression / number) ----------------- *)
Definition build (o : bop) (a b : expr) : expr :=
  match o with
  | OpAdd => Bin BAdd a b | OpSub => Bin BSub a b | OpMul => Bin BMul a b | OpDiv => Bin BDiv a b
  | OpFloorDiv => Un UFloor (Bin BDiv a b)         (* sympy: a // b = floor(a / b) *)
  end.
Definition build_neg (a : expr) : expr := Un UNeg a.

(* ---- tri-state comparison ------------------------------------------------------------------------------------- *)
Definition empty_env (f : N -> Q -> option Q) : env := {| sc := fun _ => None; vc := fun _ => None; fn := f |}.
Definition closed (e : expr) : bool := match fv e, fvv e with [], [] => true | _, _ => false end.
(* decided exactly when both sides are closed formulas with a value; sympy decides more (e.g. Abs(a) >= 0),
   the correspondence only requires that it decides at least these and that every decision is sound *)
Definition cmp_model (f : N -> Q -> option Q) (c : cmpop) (a b : expr) : option bool :=
  if closed a && closed b then
    match eval (empty_env f) a, eval (empty_env f) b with
    | Ok x, Ok y => Some (cmp_eval c x y)
    | _, _ => None
    end
  else None.

(* ---- numpy-style evaluation on arrays (broadcasting) ---------------------------------------------------------- *)

Fixpoint seq_res {A} (l : list (result A)) : result (list A) :=
  match l with
  | [] => Ok []
  | r :: t => bind r (fun v => bind (seq_res t) (fun vs => Ok (v :: vs)))
  end.
Fixpoint zip_with {A B C} (f : A -> B -> C) (a : list A) (b : list B) : list C :=
  match a, b with
  | x :: a', y :: b' => f x y :: zip_with f a' b'
  | _, _ => []
  end.
Definition lift1 (f : Q -> result Q) (v : value) : result value :=
  match v with
  | VQ x => bind (f x) (fun y => Ok (VQ y))
  | VArr l => bind (seq_res (map f l)) (fun r => Ok (VArr r))
  end.
Definition lift2 (f : Q -> Q -> result Q) (a b : value) : result value :=
  match a, b with
  | VQ x, VQ y => bind (f x y) (fun z => Ok (VQ z))
  | VArr l, VQ y => bind (seq_res (map (fun x => f x y) l)) (fun r => Ok (VArr r))
  | VQ x, VArr l => bind (seq_res (map (fun y => f x y) l)) (fun r => Ok (VArr r))
  | VArr l, VArr m =>
      if Nat.eqb (length l) (length m) then bind (seq_res (zip_with f l m)) (fun r => Ok (VArr r))
      else Err EShape
  end.

(* array environment: scalar variables may be bound to arrays (sample times) *)
Definition set_asc (r : aenv) (i : N) (v : value) : aenv :=
  {| asc := fun x => if N.eqb x i then Some v else asc r x; avc := avc r; afn := afn r |}.
Definition scalar_of (v : value) : result Q := match v with VQ x => Ok x | VArr _ => Err EType end.

(* numpy.select evaluates every branch on the whole array and picks per element; errors of a branch matter only
   where that branch is selected (a division by zero in an array gives inf, not an exception) *)
Definition select (c a b : result value) : result value :=
  match c with
  | Err e => Err e
  | Ok (VQ t) => if truthy t then a else b
  | Ok (VArr ts) =>
      bind (seq_res (map (fun jt => let '(j, t) := jt in
                            bind (if truthy t then a else b) (fun v =>
                              match vget v j with Some x => Ok x | None => Err EShape end))
                         (combine (seq 0 (length ts)) ts)))
           (fun r => Ok (VArr r))
  end.
Definition vadd (a b : result value) : result value :=
  bind a (fun x => bind b (fun y => lift2 (fun p q => Ok (p + q)) x y)).
Fixpoint vsum_range (f : Z -> result value) (lo : Z) (n : nat) : result value :=
  match n with
  | O => Ok (VQ 0)
  | S n' => vadd (f lo) (vsum_range f (lo + 1)%Z n')
  end.

Fixpoint evalv (r : aenv) (e : expr) {struct e} : result value :=
  match e with
  | Const q => Ok (VQ q)
  | Nan => Err ENan
  | Var x => match asc r x with Some v => Ok v | None => Err EUnbound end
  | Un o a => bind (evalv r a) (lift1 (un_eval (afn r) o))
  | Bin o a b => bind (evalv r a) (fun x => bind (evalv r b) (fun y => lift2 (bin_eval o) x y))
  | Ite c a b => select (evalv r c) (evalv r a) (evalv r b)
  | Sum i lo hi body =>
      bind (bind (evalv r lo) scalar_of) (fun l => bind (bind (evalv r hi) scalar_of) (fun h =>
        match as_int l, as_int h with
        | Some lz, Some hz =>
            vsum_range (fun k => evalv (set_asc r i (VQ (inject_Z k))) body) lz (Z.to_nat (hz - lz + 1))
        | _, _ => Err EType
        end))
  | Idx x i =>
      match avc r x with
      | None => Err EUnbound
      | Some l => bind (evalv r i) (lift1 (fun iv => match as_int iv with Some z => index l z | None => Err EIndex end))
      end
  | IBc a n i =>
      (* numpy.broadcast_to(a, (n,))[i]: with an ARRAY a this indexes the array, it is not a pointwise operation;
         only scalar a and i are modelled (arrays here are rejected, the generators never produce them) *)
      bind (bind (evalv r a) scalar_of) (fun v => bind (bind (evalv r i) scalar_of) (fun iv =>
        match as_int iv with
        | Some z => if (- n <=? z)%Z && (z <? n)%Z then Ok (VQ v) else Err EIndex
        | None => Err EIndex
        end))
  end.


