(* C12 — expressions: the formula language, its denotation over Q, and the operations qupulse builds on it
   (substitution = evaluate_symbolic, builders = ExpressionScalar operators, tri-state comparison, numpy-style
   broadcasting evaluation).  Definitions only (no proofs): the file must still evaluate when a proof breaks.
   sympy itself (parser, printer, lambdify) is NOT modelled: it is the implementation and is compared with `eval`. *)
From Coq Require Import ZArith QArith Qround Qabs List Bool NArith.
Import ListNotations.

Inductive err := EUnbound | EDivZero | EIndex | EType | ENan | EFn | EShape.
Inductive result (A : Type) : Type := Ok (a : A) | Err (e : err).
Arguments Ok {A} a.
Arguments Err {A} e.
Definition bind {A B} (r : result A) (f : A -> result B) : result B :=
  match r with Ok a => f a | Err e => Err e end.

Inductive cmpop := OLt | OLe | OGt | OGe | OEq | ONe.
Inductive binop := BAdd | BSub | BMul | BDiv | BMin | BMax | BFloorDiv | BCmp (c : cmpop) | BAnd | BOr.
Inductive unop := UNeg | UFloor | UCeil | UAbs | UPow (n : Z) | UFn (f : N) | UNot.

(* scalar formulas.  Truth values are 1/0 (conditions of Piecewise); `Nan` is the value of a Piecewise without a
   matching branch; `Idx x i` is `x[i]` for an indexed base `x`; `IBc a n i` is IndexedBroadcast(a, (n,), i). *)
Inductive expr :=
| Const (q : Q)
| Nan
| Var (x : N)
| Un (o : unop) (a : expr)
| Bin (o : binop) (a b : expr)
| Ite (c a b : expr)
| Sum (i : N) (lo hi body : expr)
| Idx (x : N) (i : expr)
| IBc (a : expr) (n : Z) (i : expr).

(* ---- values of the operators ------------------------------------------------------------------------------------ *)
Definition b2q (b : bool) : Q := if b then 1 else 0.
Definition truthy (q : Q) : bool := negb (Qeq_bool q 0).
Definition Qltb (a b : Q) : bool := negb (Qle_bool b a).
Definition cmp_eval (c : cmpop) (x y : Q) : bool :=
  match c with
  | OLt => Qltb x y | OLe => Qle_bool x y | OGt => Qltb y x | OGe => Qle_bool y x
  | OEq => Qeq_bool x y | ONe => negb (Qeq_bool x y)
  end.
Definition qfloor (x : Q) : Q := inject_Z (Qfloor x).
Definition qceil (x : Q) : Q := inject_Z (Qceiling x).

Definition bin_eval (o : binop) (x y : Q) : result Q :=
  match o with
  | BAdd => Ok (x + y) | BSub => Ok (x - y) | BMul => Ok (x * y)
  | BDiv => if Qeq_bool y 0 then Err EDivZero else Ok (x / y)
  | BMin => Ok (if Qle_bool x y then x else y)
  | BMax => Ok (if Qle_bool x y then y else x)
  | BFloorDiv => if Qeq_bool y 0 then Err EDivZero else Ok (qfloor (x / y))
  | BCmp c => Ok (b2q (cmp_eval c x y))
  | BAnd => Ok (b2q (truthy x && truthy y))
  | BOr => Ok (b2q (truthy x || truthy y))
  end.

Definition un_eval (fn : N -> Q -> option Q) (o : unop) (x : Q) : result Q :=
  match o with
  | UNeg => Ok (- x) | UFloor => Ok (qfloor x) | UCeil => Ok (qceil x) | UAbs => Ok (Qabs x)
  | UPow n => if (n <? 0)%Z && Qeq_bool x 0 then Err EDivZero else Ok (Qpower x n)
  | UFn f => match fn f x with Some v => Ok v | None => Err EFn end
  | UNot => Ok (b2q (negb (truthy x)))
  end.

(* a rational that is an integer (Python int index / range bound) *)
Definition as_int (q : Q) : option Z :=
  let r := Qred q in if Pos.eqb (Qden r) 1 then Some (Qnum r) else None.

(* numpy / Python indexing: negative positions count from the end *)
Definition index (l : list Q) (z : Z) : result Q :=
  let n := Z.of_nat (length l) in
  let z' := if (z <? 0)%Z then (z + n)%Z else z in
  if (0 <=? z')%Z && (z' <? n)%Z then
    match nth_error l (Z.to_nat z') with Some v => Ok v | None => Err EIndex end
  else Err EIndex.

(* sum_{k = lo}^{lo+n-1} f k, left to right, first error wins *)
Fixpoint sum_range (f : Z -> result Q) (lo : Z) (n : nat) : result Q :=
  match n with
  | O => Ok 0
  | S n' => bind (f lo) (fun v => bind (sum_range f (lo + 1)%Z n') (fun r => Ok (v + r)))
  end.

(* ---- environments ---------------------------------------------------------------------------------------------- *)
Record env := { sc : N -> option Q;            (* scalar variables *)
                vc : N -> option (list Q);     (* indexed bases *)
                fn : N -> Q -> option Q }.     (* interpretation of the uninterpreted functions (sin, cos, exp) *)
Definition set_sc (r : env) (i : N) (v : Q) : env :=
  {| sc := fun x => if N.eqb x i then Some v else sc r x; vc := vc r; fn := fn r |}.

(* ---- the denotation ------------------------------------------------------------------------------------------- *)
Fixpoint eval (r : env) (e : expr) {struct e} : result Q :=
  match e with
  | Const q => Ok q
  | Nan => Err ENan
  | Var x => match sc r x with Some v => Ok v | None => Err EUnbound end
  | Un o a => bind (eval r a) (un_eval (fn r) o)
  | Bin o a b => bind (eval r a) (fun x => bind (eval r b) (fun y => bin_eval o x y))
  | Ite c a b => bind (eval r c) (fun t => if truthy t then eval r a else eval r b)
  | Sum i lo hi body =>
      bind (eval r lo) (fun l => bind (eval r hi) (fun h =>
        match as_int l, as_int h with
        | Some lz, Some hz => sum_range (fun k => eval (set_sc r i (inject_Z k)) body) lz (Z.to_nat (hz - lz + 1))
        | _, _ => Err EType
        end))
  | Idx x i =>
      match vc r x with
      | None => Err EUnbound
      | Some l => bind (eval r i) (fun iv => match as_int iv with Some z => index l z | None => Err EIndex end)
      end
  | IBc a n i =>
      bind (eval r a) (fun v => bind (eval r i) (fun iv =>
        match as_int iv with
        | Some z => if (- n <=? z)%Z && (z <? n)%Z then Ok v else Err EIndex
        | None => Err EIndex
        end))
  end.

(* ---- free variables -------------------------------------------------------------------------------------------- *)
Definition nmem (x : N) (l : list N) : bool := existsb (N.eqb x) l.
Definition nremove (x : N) (l : list N) : list N := filter (fun y => negb (N.eqb y x)) l.

Fixpoint fv (e : expr) : list N :=       (* scalar variables *)
  match e with
  | Const _ | Nan => []
  | Var x => [x]
  | Un _ a => fv a
  | Bin _ a b => fv a ++ fv b
  | Ite c a b => fv c ++ fv a ++ fv b
  | Sum i lo hi body => fv lo ++ fv hi ++ nremove i (fv body)
  | Idx _ i => fv i
  | IBc a _ i => fv a ++ fv i
  end.
Fixpoint fvv (e : expr) : list N :=      (* indexed bases *)
  match e with
  | Const _ | Nan | Var _ => []
  | Un _ a => fvv a
  | Bin _ a b => fvv a ++ fvv b
  | Ite c a b => fvv c ++ fvv a ++ fvv b
  | Sum _ lo hi body => fvv lo ++ fvv hi ++ fvv body
  | Idx x i => x :: fvv i
  | IBc a _ i => fvv a ++ fvv i
  end.

(* Expression._parse_evaluate_numeric_arguments: every variable of the expression must be in the scope, whether or
   not the value is needed; then the compiled formula is evaluated *)
Definition is_some {A} (o : option A) : bool := match o with Some _ => true | None => false end.
Definition all_bound (r : env) (e : expr) : bool :=
  forallb (fun x => is_some (sc r x)) (fv e) && forallb (fun x => is_some (vc r x)) (fvv e).
Definition evaluate (r : env) (e : expr) : result Q :=
  if all_bound r e then eval r e else Err EUnbound.

(* ---- substitution (Expression.evaluate_symbolic -> recursive_substitution) ------------------------------------- *)
Fixpoint lookup {A} (l : list (N * A)) (x : N) : option A :=
  match l with
  | [] => None
  | (y, v) :: r => if N.eqb x y then Some v else lookup r x
  end.
Definition remove_key {A} (i : N) (l : list (N * A)) : list (N * A) :=
  filter (fun p => negb (N.eqb (fst p) i)) l.

(* simultaneous; a Sum's own index is shadowed (it is not a free symbol of the Sum, so _recursive_substitution drops
   it before descending); NO renaming of the index: a substituted term that mentions the index is captured *)
Fixpoint subst (s : list (N * expr)) (e : expr) : expr :=
  match e with
  | Const q => Const q
  | Nan => Nan
  | Var x => match lookup s x with Some t => t | None => Var x end
  | Un o a => Un o (subst s a)
  | Bin o a b => Bin o (subst s a) (subst s b)
  | Ite c a b => Ite (subst s c) (subst s a) (subst s b)
  | Sum i lo hi body => Sum i (subst s lo) (subst s hi) (subst (remove_key i s) body)
  | Idx x i => Idx x (subst s i)
  | IBc a n i => IBc (subst s a) n (subst s i)
  end.

(* the environment a simultaneous substitution denotes: substituted names get the value of their term in r *)
Definition ext (r : env) (s : list (N * expr)) : env :=
  {| sc := fun x => match lookup s x with
                    | Some t => match eval r t with Ok v => Some v | Err _ => None end
                    | None => sc r x
                    end;
     vc := vc r; fn := fn r |}.

(* executable guard: no substituted term that reaches the body of a Sum mentions that Sum's index *)
Fixpoint capture_free (s : list (N * expr)) (e : expr) : bool :=
  match e with
  | Const _ | Nan | Var _ => true
  | Un _ a => capture_free s a
  | Bin _ a b => capture_free s a && capture_free s b
  | Ite c a b => capture_free s c && capture_free s a && capture_free s b
  | Sum i lo hi body =>
      capture_free s lo && capture_free s hi &&
      forallb (fun x => match lookup (remove_key i s) x with
                        | Some t => negb (nmem i (fv t))
                        | None => true
                        end) (fv body) &&
      capture_free (remove_key i s) body
  | Idx _ i => capture_free s i
  | IBc a _ i => capture_free s a && capture_free s i
  end.

Definition consts (l : list (N * Q)) : list (N * expr) := map (fun p => (fst p, Const (snd p))) l.

(* ---- builders (ExpressionScalar.__add__ ... between an expression and an expression / number) ----------------- *)
Inductive bop := OpAdd | OpSub | OpMul | OpDiv | OpFloorDiv.
Definition build (o : bop) (a b : expr) : expr :=
  match o with
  | OpAdd => Bin BAdd a b | OpSub => Bin BSub a b | OpMul => Bin BMul a b | OpDiv => Bin BDiv a b
  | OpFloorDiv => Un UFloor (Bin BDiv a b)         (* sympy: a // b = floor(a / b) *)
  end.
Definition bop_val (o : bop) (x y : Q) : result Q :=
  match o with
  | OpAdd => Ok (x + y) | OpSub => Ok (x - y) | OpMul => Ok (x * y)
  | OpDiv => if Qeq_bool y 0 then Err EDivZero else Ok (x / y)
  | OpFloorDiv => if Qeq_bool y 0 then Err EDivZero else Ok (qfloor (x / y))
  end.
Definition build_neg (a : expr) : expr := Un UNeg a.

(* ---- tri-state comparison ------------------------------------------------------------------------------------- *)
Definition empty_env (f : N -> Q -> option Q) : env := {| sc := fun _ => None; vc := fun _ => None; fn := f |}.
Definition closed (e : expr) : bool := match fv e, fvv e with [], [] => true | _, _ => false end.
(* decided exactly when both sides are closed formulas with a value; sympy decides more (e.g. Abs(a) >= 0),
   the correspondence only requires that it decides at least these and that every decision is sound *)
Definition cmp_model (f : N -> Q -> option Q) (c : cmpop) (a b : expr) : option bool :=
  if closed a && closed b then
    match eval (empty_env f) a, eval (empty_env f) b with
    | Ok x, Ok y => Some (cmp_eval c x y)
    | _, _ => None
    end
  else None.

(* ---- numpy-style evaluation on arrays (broadcasting) ---------------------------------------------------------- *)
Inductive value := VQ (q : Q) | VArr (l : list Q).

Fixpoint seq_res {A} (l : list (result A)) : result (list A) :=
  match l with
  | [] => Ok []
  | r :: t => bind r (fun v => bind (seq_res t) (fun vs => Ok (v :: vs)))
  end.
Fixpoint zip_with {A B C} (f : A -> B -> C) (a : list A) (b : list B) : list C :=
  match a, b with
  | x :: a', y :: b' => f x y :: zip_with f a' b'
  | _, _ => []
  end.
Definition lift1 (f : Q -> result Q) (v : value) : result value :=
  match v with
  | VQ x => bind (f x) (fun y => Ok (VQ y))
  | VArr l => bind (seq_res (map f l)) (fun r => Ok (VArr r))
  end.
Definition lift2 (f : Q -> Q -> result Q) (a b : value) : result value :=
  match a, b with
  | VQ x, VQ y => bind (f x y) (fun z => Ok (VQ z))
  | VArr l, VQ y => bind (seq_res (map (fun x => f x y) l)) (fun r => Ok (VArr r))
  | VQ x, VArr l => bind (seq_res (map (fun y => f x y) l)) (fun r => Ok (VArr r))
  | VArr l, VArr m =>
      if Nat.eqb (length l) (length m) then bind (seq_res (zip_with f l m)) (fun r => Ok (VArr r))
      else Err EShape
  end.
Definition vget (v : value) (j : nat) : option Q :=
  match v with VQ x => Some x | VArr l => nth_error l j end.

(* array environment: scalar variables may be bound to arrays (sample times) *)
Record aenv := { asc : N -> option value; avc : N -> option (list Q); afn : N -> Q -> option Q }.
Definition set_asc (r : aenv) (i : N) (v : value) : aenv :=
  {| asc := fun x => if N.eqb x i then Some v else asc r x; avc := avc r; afn := afn r |}.
Definition scalar_of (v : value) : result Q := match v with VQ x => Ok x | VArr _ => Err EType end.

(* numpy.select evaluates every branch on the whole array and picks per element; errors of a branch matter only
   where that branch is selected (a division by zero in an array gives inf, not an exception) *)
Definition select (c a b : result value) : result value :=
  match c with
  | Err e => Err e
  | Ok (VQ t) => if truthy t then a else b
  | Ok (VArr ts) =>
      bind (seq_res (map (fun jt => let '(j, t) := jt in
                            bind (if truthy t then a else b) (fun v =>
                              match vget v j with Some x => Ok x | None => Err EShape end))
                         (combine (seq 0 (length ts)) ts)))
           (fun r => Ok (VArr r))
  end.
Definition vadd (a b : result value) : result value :=
  bind a (fun x => bind b (fun y => lift2 (fun p q => Ok (p + q)) x y)).
Fixpoint vsum_range (f : Z -> result value) (lo : Z) (n : nat) : result value :=
  match n with
  | O => Ok (VQ 0)
  | S n' => vadd (f lo) (vsum_range f (lo + 1)%Z n')
  end.

Fixpoint evalv (r : aenv) (e : expr) {struct e} : result value :=
  match e with
  | Const q => Ok (VQ q)
  | Nan => Err ENan
  | Var x => match asc r x with Some v => Ok v | None => Err EUnbound end
  | Un o a => bind (evalv r a) (lift1 (un_eval (afn r) o))
  | Bin o a b => bind (evalv r a) (fun x => bind (evalv r b) (fun y => lift2 (bin_eval o) x y))
  | Ite c a b => select (evalv r c) (evalv r a) (evalv r b)
  | Sum i lo hi body =>
      bind (bind (evalv r lo) scalar_of) (fun l => bind (bind (evalv r hi) scalar_of) (fun h =>
        match as_int l, as_int h with
        | Some lz, Some hz =>
            vsum_range (fun k => evalv (set_asc r i (VQ (inject_Z k))) body) lz (Z.to_nat (hz - lz + 1))
        | _, _ => Err EType
        end))
  | Idx x i =>
      match avc r x with
      | None => Err EUnbound
      | Some l => bind (evalv r i) (lift1 (fun iv => match as_int iv with Some z => index l z | None => Err EIndex end))
      end
  | IBc a n i =>
      (* numpy.broadcast_to(a, (n,))[i]: with an ARRAY a this indexes the array, it is not a pointwise operation;
         only scalar a and i are modelled (arrays here are rejected, the generators never produce them) *)
      bind (bind (evalv r a) scalar_of) (fun v => bind (bind (evalv r i) scalar_of) (fun iv =>
        match as_int iv with
        | Some z => if (- n <=? z)%Z && (z <? n)%Z then Ok (VQ v) else Err EIndex
        | None => Err EIndex
        end))
  end.

(* the scalar environment seen by sample point j *)
Definition proj (r : aenv) (j : nat) : env :=
  {| sc := fun x => match asc r x with Some v => vget v j | None => None end; vc := avc r; fn := afn r |}.

(* ---- environments from association lists (for the generated cases) -------------------------------------------- *)
Fixpoint fn_lookup (t : list (N * Q * Q)) (f : N) (x : Q) : option Q :=
  match t with
  | [] => None
  | (g, a, v) :: r => if N.eqb f g && Qeq_bool a x then Some v else fn_lookup r f x
  end.
Definition mk_env (s : list (N * Q)) (v : list (N * list Q)) (t : list (N * Q * Q)) : env :=
  {| sc := lookup s; vc := lookup v; fn := fn_lookup t |}.
Definition mk_aenv (s : list (N * value)) (v : list (N * list Q)) (t : list (N * Q * Q)) : aenv :=
  {| asc := lookup s; avc := lookup v; afn := fn_lookup t |}.
