(* C12 — proofs about the typed model (ModelT.v): erasure, soundness of the static type over-approximation and of the
   executable guard, the refutation of the unguarded exactness statement (int / int). *)
From Coq Require Import ZArith QArith Qround Qabs List Bool NArith Lia.
Require Import QV.C12.Model QV.C12.Proofs QV.C12.ModelT.
Import ListNotations.

Definition rfst (r : result (Q * ty)) : result Q := match r with Ok p => Ok (fst p) | Err e => Err e end.

(* ---- erasure: the typed evaluation computes the value of `eval` -------------------------------------------------- *)
Lemma sumT_erase : forall F G m lz, (forall k, rfst (F k) = G k) -> rfst (sumT_range F lz m) = sum_range G lz m.
Proof.
  intros F G. induction m as [|m IH]; intros lz H; cbn; [reflexivity|].
  rewrite <- (H lz), <- (IH (lz + 1)%Z H).
  destruct (F lz) as [[v t]|]; cbn; [|reflexivity].
  destruct (sumT_range F (lz + 1) m) as [[w u]|]; reflexivity.
Qed.

Lemma erase_set : forall body r i k t,
  eval (erase (set_tsc r i (k, t))) body = eval (set_sc (erase r) i k) body.
Proof.
  intros. apply eval_agree; try reflexivity. intros x _. cbn. destruct (N.eqb x i); reflexivity.
Qed.

Lemma evalT_erase : forall e r, rfst (evalT r e) = eval (erase r) e.
Proof.
  induction e as [q| |x|o a IHa|o a IHa b IHb|c IHc a IHa b IHb|i lo IHlo hi IHhi body IHbody|x i IHi|a IHa z i IHi];
    intros r; cbn.
  - reflexivity.
  - reflexivity.
  - destruct (tsc r x) as [[v t]|]; reflexivity.
  - rewrite <- IHa. destruct (evalT r a) as [[v t]|]; cbn; [|reflexivity].
    destruct (un_eval (tfn r) o v); reflexivity.
  - rewrite <- IHa, <- IHb. destruct (evalT r a) as [[v t]|]; cbn; [|reflexivity].
    destruct (evalT r b) as [[w u]|]; cbn; [|reflexivity]. destruct (bin_eval o v w); reflexivity.
  - rewrite <- IHc. destruct (evalT r c) as [[v t]|]; cbn; [|reflexivity].
    destruct (truthy v); [rewrite <- IHa; destruct (evalT r a) as [[w u]|] | rewrite <- IHb; destruct (evalT r b) as [[w u]|]];
      reflexivity.
  - rewrite <- IHlo, <- IHhi. destruct (evalT r lo) as [[l tl]|]; cbn; [|reflexivity].
    destruct (evalT r hi) as [[h th]|]; cbn; [|reflexivity].
    destruct (as_int l) as [lz|]; [|reflexivity]. destruct (as_int h) as [hz|]; [|reflexivity].
    apply sumT_erase. intros k. rewrite IHbody. apply erase_set.
  - destruct (tvc r x) as [[l t]|]; cbn; [|reflexivity].
    rewrite <- IHi. destruct (evalT r i) as [[iv ti]|]; cbn; [|reflexivity].
    destruct (as_int iv) as [zz|]; cbn; [|reflexivity]. destruct (index l zz); reflexivity.
  - rewrite <- IHa, <- IHi. destruct (evalT r a) as [[v t]|]; cbn; [|reflexivity].
    destruct (evalT r i) as [[iv ti]|]; cbn; [|reflexivity].
    destruct (as_int iv) as [zz|]; cbn; [|reflexivity]. destruct ((- z <=? zz)%Z && (zz <? z)%Z); reflexivity.
Qed.

Lemma evalT_value : forall e r v t, evalT r e = Ok (v, t) -> eval (erase r) e = Ok v.
Proof. intros e r v t H. rewrite <- evalT_erase, H. reflexivity. Qed.

Lemma evalT_total_on_eval : forall e r v, eval (erase r) e = Ok v -> exists t, evalT r e = Ok (v, t).
Proof.
  intros e r v H. rewrite <- evalT_erase in H. destruct (evalT r e) as [[w t]|]; cbn in H; [|discriminate].
  inversion H; subst. exists t. reflexivity.
Qed.

(* ---- the static over-approximation ------------------------------------------------------------------------------- *)
Definition env_in (r : tenv) (s sv : N -> list ty) : Prop :=
  (forall x v t, tsc r x = Some (v, t) -> In t (s x)) /\ (forall x l t, tvc r x = Some (l, t) -> In t (sv x)).

Lemma tjoin_cases : forall a b, tjoin a b = a \/ tjoin a b = b.
Proof. intros [] []; cbn; auto. Qed.

Lemma env_in_set : forall r s sv i k, env_in r s sv ->
  env_in (set_tsc r i (k, TInt)) (fun x => if N.eqb x i then [TInt] else s x) sv.
Proof.
  intros r s sv i k [H1 H2]. split; [|exact H2]. intros x v t. cbn. destruct (N.eqb x i).
  - intros E. inversion E; subst. left; reflexivity.
  - apply H1.
Qed.

Lemma sumT_poss : forall F P m lz v t,
  (forall k v t, F k = Ok (v, t) -> In t P) -> sumT_range F lz m = Ok (v, t) -> In t (TInt :: P).
Proof.
  intros F P. induction m as [|m IH]; intros lz v t HF H; cbn in H.
  - inversion H; subst. left; reflexivity.
  - destruct (F lz) as [[v1 t1]|] eqn:E1; cbn in H; [|discriminate].
    destruct (sumT_range F (lz + 1) m) as [[v2 t2]|] eqn:E2; cbn in H; [|discriminate].
    inversion H; subst. destruct (tjoin_cases t1 t2) as [-> | ->].
    + right. eapply HF; eauto.
    + eapply IH; eauto.
Qed.

Lemma is_int_true : forall t, is_int t = true -> t = TInt.
Proof. intros []; cbn; congruence. Qed.
Lemma is_float_true : forall t, is_float t = true -> t = TFloat.
Proof. intros []; cbn; congruence. Qed.

Lemma evalT_poss : forall e r s sv v t, env_in r s sv -> evalT r e = Ok (v, t) -> In t (poss (tex r) s sv e).
Proof.
  induction e as [q| |x|o a IHa|o a IHa b IHb|c IHc a IHa b IHb|i lo IHlo hi IHhi body IHbody|x i IHi|a IHa z i IHi];
    intros r s sv v t He H; cbn in H |- *.
  - inversion H; subst. left; reflexivity.
  - discriminate.
  - destruct (tsc r x) as [[v' t']|] eqn:E; [|discriminate]. inversion H; subst. eapply (proj1 He); eauto.
  - destruct (evalT r a) as [[va ta]|] eqn:Ea; cbn in H; [|discriminate].
    destruct (un_eval (tfn r) o va); cbn in H; [|discriminate]. inversion H; subst.
    apply in_map. eapply IHa; eauto.
  - destruct (evalT r a) as [[va ta]|] eqn:Ea; cbn in H; [|discriminate].
    destruct (evalT r b) as [[vb tb]|] eqn:Eb; cbn in H; [|discriminate].
    destruct (bin_eval o va vb); cbn in H; [|discriminate]. inversion H; subst.
    pose proof (IHa _ _ _ _ _ He Ea) as Ia. pose proof (IHb _ _ _ _ _ He Eb) as Ib.
    assert (J : In (tjoin ta tb) (poss (tex r) s sv a ++ poss (tex r) s sv b))
      by (destruct (tjoin_cases ta tb) as [-> | ->]; apply in_or_app; auto).
    destruct o; cbn [bin_ty fst snd]; try exact J; try (left; reflexivity).
    + destruct (is_int ta && is_int tb) eqn:D.
      * apply andb_prop in D as [D1 D2]. apply in_or_app. left.
        replace (existsb is_int (poss (tex r) s sv a)) with true
          by (symmetry; apply existsb_exists; exists ta; auto).
        replace (existsb is_int (poss (tex r) s sv b)) with true
          by (symmetry; apply existsb_exists; exists tb; auto).
        left; reflexivity.
      * apply in_or_app. right. exact J.
    + destruct (is_float ta || is_float tb) eqn:Fl.
      * apply orb_prop in Fl as [Fl | Fl]; apply is_float_true in Fl; subst; apply in_or_app; auto.
      * destruct (Qle_bool va vb); apply in_or_app; auto.
    + destruct (is_float ta || is_float tb) eqn:Fl.
      * apply orb_prop in Fl as [Fl | Fl]; apply is_float_true in Fl; subst; apply in_or_app; auto.
      * destruct (Qle_bool va vb); apply in_or_app; auto.
  - destruct (evalT r c) as [[vc tc]|] eqn:Ec; cbn in H; [|discriminate].
    destruct (truthy vc); [destruct (evalT r a) as [[w u]|] | destruct (evalT r b) as [[w u]|]]; cbn in H;
      try discriminate; inversion H; subst; left; reflexivity.
  - destruct (evalT r lo) as [[l tl]|]; cbn in H; [|discriminate].
    destruct (evalT r hi) as [[h th]|]; cbn in H; [|discriminate].
    destruct (as_int l) as [lz|]; [|discriminate]. destruct (as_int h) as [hz|]; [|discriminate].
    eapply sumT_poss; [|exact H]. intros k v' t' Hk. cbn in Hk.
    change (tex r) with (tex (set_tsc r i (inject_Z k, TInt))).
    eapply IHbody; [|exact Hk]. apply env_in_set. exact He.
  - destruct (tvc r x) as [[l tl]|] eqn:E; [|discriminate]. cbn in H.
    destruct (evalT r i) as [[iv ti]|]; cbn in H; [|discriminate].
    destruct (as_int iv) as [zz|]; cbn in H; [|discriminate].
    destruct (index l zz); cbn in H; [|discriminate]. inversion H; subst. eapply (proj2 He); eauto.
  - destruct (evalT r a) as [[va ta]|] eqn:Ea; cbn in H; [|discriminate].
    destruct (evalT r i) as [[iv ti]|]; cbn in H; [|discriminate].
    destruct (as_int iv) as [zz|]; cbn in H; [|discriminate].
    destruct ((- z <=? zz)%Z && (zz <? z)%Z); [|discriminate]. inversion H; subst. eapply IHa; eauto.
Qed.

(* exact mode: under the guard the result is the exact rational value of the formula, of an exact type *)
Lemma exact_mode_guarded : forall e r s sv v t, tex r = true -> env_in r s sv -> exact_guard s sv e = true ->
  evalT r e = Ok (v, t) -> t <> TFloat /\ eval (erase r) e = Ok v.
Proof.
  intros e r s sv v t Hx He G H. split; [|eapply evalT_value; eauto].
  pose proof (evalT_poss e r s sv v t He H) as I. rewrite Hx in I. unfold exact_guard in G. rewrite forallb_forall in G.
  specialize (G t I). intros ->. discriminate.
Qed.

(* ---- the guard is necessary: int / int -------------------------------------------------------------------------- *)
Definition exact_inputs_env (r : tenv) : Prop :=
  (forall x v t, tsc r x = Some (v, t) -> t <> TFloat) /\ (forall x l t, tvc r x = Some (l, t) -> t <> TFloat).

Definition idiv_e : expr := Bin BDiv (Var 0%N) (Var 1%N).                               (* a / b *)
Definition idiv_r : tenv := mk_tenv true [(0%N, (1, TInt)); (1%N, (3 # 1, TInt))] [] [].   (* a = 1, b = 3 (ints) *)
Definition idiv_s : N -> list ty := fun _ => [TInt].

Lemma exact_int_div_witness :
  exact_inputs_env idiv_r /\ exists v, evalT idiv_r idiv_e = Ok (v, TFloat) /\ v == 1 # 3.
Proof.
  split.
  - split.
    + intros x v t. unfold idiv_r. cbn. destruct (N.eqb x 0); [intros E; inversion E; discriminate|].
      destruct (N.eqb x 1); [intros E; inversion E; discriminate | discriminate].
    + intros x l t. cbn. discriminate.
  - eexists. split; [vm_compute; reflexivity | reflexivity].
Qed.

Lemma exact_guard_rejects_witness : exact_guard idiv_s idiv_s idiv_e = false.
Proof. reflexivity. Qed.

(* a non-trivial input satisfying the guard: (1/3)*a + Sum(n*b, (k, 0, n)) with an int and a TimeType variable,
   the result is a TimeType *)
Definition exact_e : expr :=
  Bin BAdd (Bin BMul (Const (1 # 3)) (Var 0%N)) (Sum 10%N (Const 0) (Var 6%N) (Bin BMul (Var 10%N) (Var 1%N))).
Definition exact_r : tenv := mk_tenv true [(0%N, (2 # 1, TInt)); (1%N, (1 # 2, TTime)); (6%N, (2 # 1, TInt))] [] [].
Definition exact_s : N -> list ty := fun x => if N.eqb x 1 then [TTime] else [TInt].
Lemma exact_guard_nonvacuous :
  tex exact_r = true /\ exact_guard exact_s exact_s exact_e = true /\ env_in exact_r exact_s exact_s /\
  exists v, evalT exact_r exact_e = Ok (v, TTime) /\ v == 13 # 6.
Proof.
  split; [reflexivity|]. split; [reflexivity|]. split.
  - split.
    + intros x v t. unfold exact_r, exact_s. cbn.
      destruct (N.eqb x 0) eqn:E0; [apply N.eqb_eq in E0; subst; cbn; intros E; inversion E; left; reflexivity|].
      destruct (N.eqb x 1) eqn:E1; [intros E; inversion E; left; reflexivity|].
      destruct (N.eqb x 6); [intros E; inversion E; left; reflexivity | discriminate].
    + intros x l t. cbn. discriminate.
  - eexists. split; [vm_compute; reflexivity | reflexivity].
Qed.

(* ---- round 3 ----------------------------------------------------------------------------------------------------- *)
(* a Piecewise is numpy.select with a float default: whatever the branches are, the result is a float *)
Lemma evalT_ite_float : forall r c a b v t, evalT r (Ite c a b) = Ok (v, t) -> t = TFloat.
Proof.
  intros r c a b v t H. cbn in H. destruct (evalT r c) as [[vc tc]|]; cbn in H; [|discriminate].
  destruct (truthy vc); [destruct (evalT r a) as [[w u]|] | destruct (evalT r b) as [[w u]|]]; cbn in H;
    try discriminate; inversion H; reflexivity.
Qed.

(* the mode only matters for the type of non-integer Rational constants: the VALUE is the same in both modes *)
Definition with_mode (ex : bool) (r : tenv) : tenv := {| tsc := tsc r; tvc := tvc r; tfn := tfn r; tex := ex |}.
Lemma evalT_mode_value : forall e r ex, rfst (evalT (with_mode ex r) e) = rfst (evalT r e).
Proof. intros. rewrite !evalT_erase. reflexivity. Qed.

(* the convention of the correspondence: a decimal float literal q is bound to a reserved variable x of type float.
   Evaluating the formula with the literal in place (x := q substituted) has the same value (or both have none) *)
Lemma literal_as_input : forall e r x q t,
  rsim (eval (erase r) (subst (consts [(x, q)]) e)) (rfst (evalT (set_tsc r x (q, t)) e)).
Proof.
  intros e r x q t. rewrite evalT_erase.
  replace (eval (erase (set_tsc r x (q, t))) e) with (eval (over [(x, q)] (erase r)) e).
  - apply partial_sim.
  - apply eval_agree; try reflexivity. intros y _. cbn. destruct (N.eqb y x); reflexivity.
Qed.

(* the two modes on a/2 + floor(b), a = 3 (int), b = -2.5 (float): the exact printer gives the TimeType -3/2, the numpy
   printer the float -1.5; floor of a float is an int in both *)
Definition num_e : expr := Bin BAdd (Bin BMul (Const (1 # 2)) (Var 0%N)) (Un UFloor (Var 1%N)).      (* a/2 + floor(b) *)
Definition num_r (ex : bool) : tenv := mk_tenv ex [(0%N, (3 # 1, TInt)); (1%N, ((-5) # 2, TFloat))] [] [].
Lemma mode_example :
  (exists v, evalT (num_r true) num_e = Ok (v, TTime) /\ v == (-3) # 2) /\
  (exists v, evalT (num_r false) num_e = Ok (v, TFloat) /\ v == (-3) # 2) /\
  (exists v, evalT (num_r true) (Bin BMul (Const (1 # 2)) (Var 0%N)) = Ok (v, TTime) /\ v == 3 # 2) /\
  (exists v, evalT (num_r false) (Bin BMul (Const (1 # 2)) (Var 0%N)) = Ok (v, TFloat) /\ v == 3 # 2).
Proof. repeat split; eexists; (split; [vm_compute; reflexivity | reflexivity]). Qed.

(* the scope check_spec (SpecCheck.v, which does not see this file) builds for a typed unit case is the erasure of the
   typed scope the model runs in: both judge the same formula in the same scope *)
Lemma untyped_lookup : forall A (s : list (N * (A * ty))) x, lookup (untyped s) x = option_map fst (lookup s x).
Proof. induction s as [|[y [a t]] s IH]; intros x; cbn; [reflexivity|]. destruct (N.eqb x y); [reflexivity | apply IH]. Qed.
Lemma spec_scope_is_erasure : forall ex s v e,
  eval (mk_env (untyped s) (untyped v) []) e = eval (erase (mk_tenv ex s v [])) e.
Proof.
  intros. apply eval_agree; intros; cbn; try apply untyped_lookup. reflexivity.
Qed.
