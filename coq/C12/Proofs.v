(* C12 — proof scripts. *)
From Coq Require Import ZArith QArith Qround Qabs List Bool NArith Lia.
Require Import QV.C12.Model.
Import ListNotations.

Definition bind2 (a b : result Q) (f : Q -> Q -> result Q) : result Q :=
  bind a (fun x => bind b (fun y => f x y)).

Lemma build_correct : forall r o a b,
  eval r (build o a b) = bind2 (eval r a) (eval r b) (bop_val o).
Proof.
  intros r o a b. unfold bind2. destruct o; cbn; try reflexivity.
  destruct (eval r a) as [x|]; cbn; [|reflexivity].
  destruct (eval r b) as [y|]; cbn; [|reflexivity].
  destruct (Qeq_bool y 0); reflexivity.
Qed.
