(* C12 — proof scripts (the model is in Model.v; statements are collected in Props.v). *)
From Coq Require Import ZArith QArith Qround Qabs List Bool NArith Lia.
Require Import QV.C12.Model.
Import ListNotations.

Definition bind2 (a b : result Q) (f : Q -> Q -> result Q) : result Q :=
  bind a (fun x => bind b (fun y => f x y)).

(* ---- builders ---------------------------------------------------------------------------------------------------- *)
Lemma build_correct : forall r o a b,
  eval r (build o a b) = bind2 (eval r a) (eval r b) (bop_val o).
Proof.
  intros r o a b. unfold bind2. destruct o; cbn; try reflexivity.
  destruct (eval r a) as [x|]; cbn; [|reflexivity].
  destruct (eval r b) as [y|]; cbn; [|reflexivity].
  destruct (Qeq_bool y 0); reflexivity.
Qed.

Lemma build_neg_correct : forall r a, eval r (build_neg a) = bind (eval r a) (fun x => Ok (- x)).
Proof. reflexivity. Qed.

(* ---- small facts about lists of names ----------------------------------------------------------------------------- *)
Lemma nmem_In : forall x l, nmem x l = true <-> In x l.
Proof.
  intros x l. unfold nmem. rewrite existsb_exists. split.
  - intros [y [Hy E]]. apply N.eqb_eq in E. subst; assumption.
  - intros H. exists x. split; [assumption | apply N.eqb_refl].
Qed.

Lemma In_nremove : forall x i l, In x (nremove i l) <-> In x l /\ x <> i.
Proof.
  intros x i l. unfold nremove. rewrite filter_In. split; intros [H1 H2]; split; auto.
  - intros ->. rewrite N.eqb_refl in H2. discriminate.
  - apply negb_true_iff. apply N.eqb_neq. assumption.
Qed.

Lemma lookup_remove_same : forall A i (l : list (N * A)), lookup (remove_key i l) i = None.
Proof.
  intros A i l. induction l as [|[y v] l IH]; cbn; [reflexivity|].
  destruct (N.eqb y i) eqn:E; cbn; [assumption|].
  rewrite N.eqb_sym, E. assumption.
Qed.

Lemma lookup_remove_other : forall A i x (l : list (N * A)), x <> i -> lookup (remove_key i l) x = lookup l x.
Proof.
  intros A i x l Hx. induction l as [|[y v] l IH]; cbn; [reflexivity|].
  destruct (N.eqb y i) eqn:E; cbn.
  - apply N.eqb_eq in E. subst y. destruct (N.eqb x i) eqn:E2; [apply N.eqb_eq in E2; contradiction | assumption].
  - destruct (N.eqb x y); [reflexivity | assumption].
Qed.

(* ---- evaluation only depends on the free names -------------------------------------------------------------------- *)
Fixpoint fns (e : expr) : list N :=
  match e with
  | Const _ | Nan | Var _ => []
  | Un (UFn f) a => f :: fns a
  | Un _ a => fns a
  | Bin _ a b => fns a ++ fns b
  | Ite c a b => fns c ++ fns a ++ fns b
  | Sum _ lo hi body => fns lo ++ fns hi ++ fns body
  | Idx _ i => fns i
  | IBc a _ i => fns a ++ fns i
  end.

Lemma sum_range_ext : forall f g n lo, (forall k, f k = g k) -> sum_range f lo n = sum_range g lo n.
Proof.
  intros f g n. induction n as [|n IH]; intros lo H; cbn; [reflexivity|].
  rewrite H, (IH (lo + 1)%Z H). reflexivity.
Qed.

Lemma eval_agree : forall e r r',
  (forall x, In x (fv e) -> sc r x = sc r' x) ->
  (forall x, In x (fvv e) -> vc r x = vc r' x) ->
  (forall f, In f (fns e) -> forall q, fn r f q = fn r' f q) ->
  eval r e = eval r' e.
Proof.
  induction e as [q| |x|o a IHa|o a IHa b IHb|c IHc a IHa b IHb|i lo IHlo hi IHhi body IHbody|x i IHi|a IHa n i IHi];
    intros r r' Hs Hv Hf; cbn in *.
  - reflexivity.
  - reflexivity.
  - rewrite (Hs x) by (left; reflexivity). reflexivity.
  - assert (E : eval r a = eval r' a).
    { apply IHa; auto. intros f H q. apply Hf. destruct o; auto. right; assumption. }
    rewrite E. destruct (eval r' a) as [v|]; cbn; [|reflexivity].
    destruct o; cbn; try reflexivity. rewrite (Hf f) by (left; reflexivity). reflexivity.
  - rewrite (IHa r r'), (IHb r r'); auto; intros; (apply Hs || apply Hv || apply Hf); apply in_or_app; auto.
  - rewrite (IHc r r'), (IHa r r'), (IHb r r'); auto; intros; (apply Hs || apply Hv || apply Hf);
      apply in_or_app; auto; right; apply in_or_app; auto.
  - rewrite (IHlo r r'), (IHhi r r');
      try (intros; (apply Hs || apply Hv || apply Hf); apply in_or_app; auto; right; apply in_or_app; auto; fail).
    destruct (eval r' lo) as [l|]; cbn; [|reflexivity].
    destruct (eval r' hi) as [h|]; cbn; [|reflexivity].
    destruct (as_int l) as [lz|]; [|reflexivity].
    destruct (as_int h) as [hz|]; [|reflexivity].
    apply sum_range_ext. intros k. apply IHbody.
    + intros x Hx. cbn. destruct (N.eqb x i) eqn:E; [reflexivity|].
      apply Hs. apply in_or_app; right. apply in_or_app; right. apply In_nremove. split; [assumption|].
      apply N.eqb_neq; assumption.
    + intros x Hx. cbn. apply Hv. apply in_or_app; right. apply in_or_app; right. assumption.
    + intros f Hx q. cbn. apply Hf. apply in_or_app; right. apply in_or_app; right. assumption.
  - rewrite (Hv x) by (left; reflexivity). destruct (vc r' x) as [l|]; [|reflexivity].
    rewrite (IHi r r'); auto; intros y Hy; apply Hv; right; assumption.
  - rewrite (IHa r r'), (IHi r r'); auto; intros; (apply Hs || apply Hv || apply Hf); apply in_or_app; auto.
Qed.

(* ---- the substitution lemma -------------------------------------------------------------------------------------- *)
(* equal values, or both without a value (the kind of error may differ: a term that fails inside the substituted
   formula shows up as an unbound name in the extended scope) *)
Definition rsim {A} (a b : result A) : Prop :=
  match a, b with
  | Ok x, Ok y => x = y
  | Err _, Err _ => True
  | _, _ => False
  end.

Lemma rsim_refl : forall A (a : result A), rsim a a.
Proof. intros A [x|e]; cbn; auto. Qed.

Lemma rsim_bind : forall A B (a b : result A) (f g : A -> result B),
  rsim a b -> (forall x, rsim (f x) (g x)) -> rsim (bind a f) (bind b g).
Proof.
  intros A B [x|e] [y|e'] f g H Hf; cbn in *; try contradiction; auto. subst. apply Hf.
Qed.

Lemma rsim_sum_range : forall f g n lo, (forall k, rsim (f k) (g k)) -> rsim (sum_range f lo n) (sum_range g lo n).
Proof.
  intros f g n. induction n as [|n IH]; intros lo H; cbn; [reflexivity|].
  apply rsim_bind; [apply H|]. intros v. apply rsim_bind; [apply IH; assumption|]. intros w. cbn. reflexivity.
Qed.

Lemma subst_sim : forall e s r, capture_free s e = true -> rsim (eval r (subst s e)) (eval (ext r s) e).
Proof.
  induction e as [q| |x|o a IHa|o a IHa b IHb|c IHc a IHa b IHb|i lo IHlo hi IHhi body IHbody|x i IHi|a IHa n i IHi];
    intros s r Hc; cbn in Hc |- *.
  - reflexivity.
  - exact I.
  - destruct (lookup s x) as [t|]; cbn.
    + destruct (eval r t); cbn; auto.
    + destruct (sc r x); cbn; auto.
  - apply rsim_bind; [apply IHa; assumption|]. intros v. apply rsim_refl.
  - apply andb_prop in Hc as [H1 H2].
    apply rsim_bind; [apply IHa; assumption|]. intros v.
    apply rsim_bind; [apply IHb; assumption|]. intros w. apply rsim_refl.
  - apply andb_prop in Hc as [H12 H3]. apply andb_prop in H12 as [H1 H2].
    apply rsim_bind; [apply IHc; assumption|]. intros t.
    destruct (truthy t); [apply IHa | apply IHb]; assumption.
  - apply andb_prop in Hc as [H123 H4]. apply andb_prop in H123 as [H12 H3]. apply andb_prop in H12 as [H1 H2].
    apply rsim_bind; [apply IHlo; assumption|]. intros l.
    apply rsim_bind; [apply IHhi; assumption|]. intros h.
    destruct (as_int l) as [lz|]; [|exact I].
    destruct (as_int h) as [hz|]; [|exact I].
    apply rsim_sum_range. intros k.
    specialize (IHbody (remove_key i s) (set_sc r i (inject_Z k)) H4).
    replace (eval (set_sc (ext r s) i (inject_Z k)) body)
      with (eval (ext (set_sc r i (inject_Z k)) (remove_key i s)) body); [exact IHbody|].
    apply eval_agree; [| reflexivity | reflexivity].
    intros x Hx. cbn. destruct (N.eqb x i) eqn:E.
    + apply N.eqb_eq in E. subst x. rewrite lookup_remove_same. cbn. rewrite ?N.eqb_refl. reflexivity.
    + apply N.eqb_neq in E. rewrite forallb_forall in H3. specialize (H3 x Hx).
      rewrite (lookup_remove_other _ i x s E) in *.
      destruct (lookup s x) as [t|].
      * rewrite (eval_agree t (set_sc r i (inject_Z k)) r); [reflexivity | | reflexivity | reflexivity].
        intros y Hy. cbn. destruct (N.eqb y i) eqn:E2; [|reflexivity].
        apply N.eqb_eq in E2. subst y. apply negb_true_iff in H3.
        assert (nmem i (fv t) = true) by (apply nmem_In; assumption). congruence.
      * cbn. apply N.eqb_neq in E. rewrite ?E. reflexivity.
  - destruct (vc r x) as [l|]; [|exact I].
    apply rsim_bind; [apply IHi; assumption|]. intros v. apply rsim_refl.
  - apply andb_prop in Hc as [H1 H2].
    apply rsim_bind; [apply IHa; assumption|]. intros v.
    apply rsim_bind; [apply IHi; assumption|]. intros w. apply rsim_refl.
Qed.

Lemma subst_value : forall e s r v, capture_free s e = true ->
  (eval r (subst s e) = Ok v <-> eval (ext r s) e = Ok v).
Proof.
  intros e s r v Hc. pose proof (subst_sim e s r Hc) as H. unfold rsim in H.
  destruct (eval r (subst s e)) as [x|]; destruct (eval (ext r s) e) as [y|]; try contradiction.
  - subst. reflexivity.
  - split; discriminate.
Qed.

(* the guard is necessary: the summation index is captured *)
Definition capture_e : expr := Sum 10%N (Const 0) (Const 2) (Bin BMul (Var 2%N) (Var 10%N)).   (* Sum(c*k, (k, 0, 2)) *)
Definition capture_s : list (N * expr) := [(2%N, Var 10%N)].                                    (* c := k *)
Definition capture_r : env := mk_env [(10%N, 10 # 1)] [] [].                                    (* k = 10 *)

Lemma subst_capture_witness :
  exists x y, eval capture_r (subst capture_s capture_e) = Ok x /\ eval (ext capture_r capture_s) capture_e = Ok y /\
              ~ x == y.
Proof.
  eexists. eexists. split; [vm_compute; reflexivity|]. split; [vm_compute; reflexivity|].
  intros H. vm_compute in H. discriminate.
Qed.

Lemma capture_guard_rejects_witness : capture_free capture_s capture_e = false.
Proof. reflexivity. Qed.

(* a non-trivial input satisfying the guard: simultaneous swap under a Sum *)
Definition swap_e : expr := Sum 10%N (Const 0) (Var 6%N) (Bin BAdd (Bin BMul (Var 0%N) (Var 10%N)) (Var 1%N)).
Definition swap_s : list (N * expr) := [(0%N, Var 1%N); (1%N, Var 0%N)].
Lemma capture_guard_nonvacuous : capture_free swap_s swap_e = true /\ subst swap_s swap_e <> swap_e.
Proof. split; [reflexivity | discriminate]. Qed.
(* ... on which both sides of the substitution lemma HAVE a value, and the substitution matters:
   Sum(a*k + b, (k, 0, n)) with a := b, b := a, evaluated at a = 2, b = 5, n = 3: 38 (the formula as written: 32) *)
Definition swap_r : env := mk_env [(0%N, 2 # 1); (1%N, 5 # 1); (6%N, 3 # 1)] [] [].
Lemma subst_nonvacuous_value :
  capture_free swap_s swap_e = true /\
  eval swap_r (subst swap_s swap_e) = Ok (38 # 1) /\ eval (ext swap_r swap_s) swap_e = Ok (38 # 1) /\
  eval swap_r swap_e = Ok (32 # 1).
Proof. repeat split; vm_compute; reflexivity. Qed.

(* ---- partial evaluation with numbers ------------------------------------------------------------------------------- *)
Definition over (l : list (N * Q)) (r : env) : env :=
  {| sc := fun x => match lookup l x with Some v => Some v | None => sc r x end; vc := vc r; fn := fn r |}.

Lemma lookup_consts : forall l x, lookup (consts l) x = option_map Const (lookup l x).
Proof.
  induction l as [|[y v] l IH]; intros x; cbn; [reflexivity|]. destruct (N.eqb x y); [reflexivity | apply IH].
Qed.

Lemma remove_key_consts : forall i l, remove_key i (consts l) = consts (remove_key i l).
Proof.
  intros i l. unfold remove_key, consts. induction l as [|[y v] l IH]; cbn; [reflexivity|].
  destruct (N.eqb y i); cbn; rewrite IH; reflexivity.
Qed.

Lemma capture_free_consts : forall e l, capture_free (consts l) e = true.
Proof.
  induction e as [q| |x|o a IHa|o a IHa b IHb|c IHc a IHa b IHb|i lo IHlo hi IHhi body IHbody|x i IHi|a IHa n i IHi];
    intros l; cbn; auto.
  - rewrite IHa, IHb; reflexivity.
  - rewrite IHc, IHa, IHb; reflexivity.
  - rewrite IHlo, IHhi. rewrite remove_key_consts, IHbody. cbn. rewrite andb_true_r.
    apply forallb_forall. intros x _. rewrite lookup_consts.
    destruct (lookup (remove_key i l) x); cbn; reflexivity.
  - rewrite IHa, IHi; reflexivity.
Qed.

Lemma ext_consts_over : forall e l r, eval (ext r (consts l)) e = eval (over l r) e.
Proof.
  intros e l r. apply eval_agree; try reflexivity.
  intros x _. cbn. rewrite lookup_consts. destruct (lookup l x); cbn; reflexivity.
Qed.

Lemma partial_sim : forall e l r, rsim (eval r (subst (consts l) e)) (eval (over l r) e).
Proof.
  intros e l r. rewrite <- ext_consts_over. apply subst_sim. apply capture_free_consts.
Qed.

Lemma partial_value : forall e l r v, eval r (subst (consts l) e) = Ok v <-> eval (over l r) e = Ok v.
Proof.
  intros e l r v. rewrite <- ext_consts_over. apply subst_value. apply capture_free_consts.
Qed.

(* ---- round 6: chains of substitution steps ------------------------------------------------------------------------- *)
Lemma rsim_trans : forall A (a b c : result A), rsim a b -> rsim b c -> rsim a c.
Proof. intros A [x|ea] [y|eb] [z|ec]; cbn; intros H1 H2; try contradiction; auto. congruence. Qed.

Lemma subst_chain_sim : forall ss e r, chain_free ss e = true ->
  rsim (eval r (subst_chain ss e)) (eval (ext_chain r ss) e).
Proof.
  induction ss as [|s rest IH]; intros e r H; cbn in *.
  - apply rsim_refl.
  - apply andb_true_iff in H. destruct H as [H1 H2].
    eapply rsim_trans; [apply IH; exact H2|]. apply subst_sim. exact H1.
Qed.

Lemma subst_chain_value : forall ss e r v, chain_free ss e = true ->
  (eval r (subst_chain ss e) = Ok v <-> eval (ext_chain r ss) e = Ok v).
Proof.
  intros ss e r v Hc. pose proof (subst_chain_sim ss e r Hc) as H. unfold rsim in H.
  destruct (eval r (subst_chain ss e)) as [x|]; destruct (eval (ext_chain r ss) e) as [y|]; try contradiction.
  - subst. reflexivity.
  - split; discriminate.
Qed.

(* steps that substitute NUMBERS only need no guard *)
Lemma chain_free_consts : forall ls e, chain_free (map consts ls) e = true.
Proof.
  induction ls as [|l ls IH]; intros e; cbn; [reflexivity|]. rewrite capture_free_consts, IH. reflexivity.
Qed.

Lemma partial_chain_sim : forall ls e r,
  rsim (eval r (subst_chain (map consts ls) e)) (eval (ext_chain r (map consts ls)) e).
Proof. intros ls e r. apply subst_chain_sim. apply chain_free_consts. Qed.

(* the scope of a chain is NOT the scope of the joint mapping: k + Sum(c*k, (k, 0, n)) with k := c first, then
   c := 2, n := 3, evaluated where c = 5: the chain gives 2 + 2*(0+1+2+3) = 14 (the k bound by the Sum is another
   variable and stays), the joint mapping {k := c, c := 2, n := 3} gives 5 + 12 = 17 *)
Definition chain_e : expr := Bin BAdd (Var 10%N) (Sum 10%N (Const 0) (Var 6%N) (Bin BMul (Var 2%N) (Var 10%N))).
Definition chain_s1 : list (N * expr) := [(10%N, Var 2%N)].
Definition chain_s2 : list (N * expr) := [(2%N, Const (2 # 1)); (6%N, Const (3 # 1))].
Definition chain_r : env := mk_env [(2%N, 5 # 1)] [] [].
Lemma chain_nonvacuous :
  (chain_free [chain_s1; chain_s2] chain_e = true) /\
  (subst_chain [chain_s1; chain_s2] chain_e =
    Bin BAdd (Const (2 # 1)) (Sum 10%N (Const 0) (Const (3 # 1)) (Bin BMul (Const (2 # 1)) (Var 10%N)))) /\
  (exists v, eval chain_r (subst_chain [chain_s1; chain_s2] chain_e) = Ok v /\ v == 14 # 1) /\
  (exists v, eval (ext_chain chain_r [chain_s1; chain_s2]) chain_e = Ok v /\ v == 14 # 1) /\
  (exists v, eval chain_r (subst (chain_s1 ++ chain_s2) chain_e) = Ok v /\ v == 17 # 1).
Proof.
  split; [reflexivity|]. split; [reflexivity|].
  repeat split; eexists; (split; [vm_compute; reflexivity | reflexivity]).
Qed.

(* every split of a scope l1 ++ l2 (a name bound twice: the first binding wins, as in the joint dict) *)
Lemma lookup_app : forall A (l1 l2 : list (N * A)) x,
  lookup (l1 ++ l2) x = match lookup l1 x with Some v => Some v | None => lookup l2 x end.
Proof.
  intros A l1 l2 x. induction l1 as [|[y v] l1 IH]; cbn; [reflexivity|]. destruct (N.eqb x y); [reflexivity | exact IH].
Qed.

Lemma partial_split : forall e l1 l2 vcs t v,
  eval (mk_env l2 vcs t) (subst (consts l1) e) = Ok v <-> eval (mk_env (l1 ++ l2) vcs t) e = Ok v.
Proof.
  intros e l1 l2 vcs t v. rewrite partial_value.
  rewrite (eval_agree e (over l1 (mk_env l2 vcs t)) (mk_env (l1 ++ l2) vcs t)); try reflexivity.
  intros x _. cbn. rewrite lookup_app. reflexivity.
Qed.

(* ---- closed formulas: comparison and the rational fragment ---------------------------------------------------------- *)
Lemma closed_eval : forall e r r', closed e = true -> (forall f q, fn r f q = fn r' f q) -> eval r e = eval r' e.
Proof.
  intros e r r' Hc Hf. unfold closed in Hc.
  destruct (fv e) eqn:E1; [|discriminate]. destruct (fvv e) eqn:E2; [|discriminate].
  apply eval_agree; rewrite ?E1, ?E2; try (intros x []). intros f _ q. apply Hf.
Qed.

Lemma cmp_sound : forall f c a b res, cmp_model f c a b = Some res ->
  forall r, (forall g q, fn r g q = f g q) ->
  exists x y, eval r a = Ok x /\ eval r b = Ok y /\ cmp_eval c x y = res.
Proof.
  intros f c a b res H r Hf. unfold cmp_model in H.
  destruct (closed a) eqn:Ca; [|discriminate]. destruct (closed b) eqn:Cb; [|discriminate]. cbn in H.
  destruct (eval (empty_env f) a) as [x|] eqn:Ea; [|discriminate].
  destruct (eval (empty_env f) b) as [y|] eqn:Eb; [|discriminate].
  inversion H; subst. exists x, y. split; [|split; [|reflexivity]].
  - rewrite <- Ea. apply closed_eval; auto.
  - rewrite <- Eb. apply closed_eval; auto.
Qed.

Lemma cmp_undecided_open : forall f c a b, closed a && closed b = false -> cmp_model f c a b = None.
Proof. intros f c a b H. unfold cmp_model. rewrite H. reflexivity. Qed.
(* non-vacuity of cmp_sound / cmp_undecided: Sum(k, (k, 0, 3)) < 13/2 is decided (true), a < 13/2 is not *)
Definition cmp_a : expr := Sum 10%N (Const 0) (Const (3 # 1)) (Var 10%N).
Definition cmp_b : expr := Const (13 # 2).
Lemma cmp_nonvacuous :
  cmp_model (fun _ _ => None) OLt cmp_a cmp_b = Some true /\ cmp_model (fun _ _ => None) OGe cmp_a cmp_b = Some false /\
  closed (Var 0%N) && closed cmp_b = false.
Proof. repeat split; vm_compute; reflexivity. Qed.

(* the rational fragment (no sin/cos/exp): the value is determined by the rational inputs alone, it is the exact
   rational number computed by + - * / floor ... over Q, whatever the interpretation of the transcendental functions *)
Lemma rational_fragment : forall e r g, fns e = [] ->
  eval r e = eval {| sc := sc r; vc := vc r; fn := g |} e.
Proof.
  intros e r g H. apply eval_agree; try reflexivity. rewrite H. intros f [].
Qed.

(* evaluate = eval once every name of the formula is in the scope; else the missing name is reported *)
Lemma evaluate_bound : forall r e, all_bound r e = true -> evaluate r e = eval r e.
Proof. intros r e H. unfold evaluate. rewrite H. reflexivity. Qed.
Lemma evaluate_unbound : forall r e, all_bound r e = false -> evaluate r e = Err EUnbound.
Proof. intros r e H. unfold evaluate. rewrite H. reflexivity. Qed.
