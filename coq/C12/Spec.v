(* C12 -- the SPECIFICATION: the formula language and its denotation over Q.
   `eval r e` is the value of the written formula e under simultaneous substitution of the scope r (the mathematical
   meaning the property speaks of); `evaluate` adds the scope check; `ext r s` is the scope a simultaneous substitution
   s denotes ("evaluating at once"); `proj r j` is the scope seen by sample point j of an array scope; `bop_val` is the
   arithmetic operator on values; `cmp_eval` the ordering on values; `ty` / `exact_inputs` classify the inputs of the
   exact-rational clause.  Nothing in this file describes HOW qupulse computes (no substitution, no builders, no
   broadcasting, no Python typing): that is Model.v / ModelT.v.  check_spec (SpecCheck.v) imports this file only.
   Definitions only. *)
From Coq Require Import ZArith QArith Qround Qabs List Bool NArith.
Import ListNotations.

Inductive err := EUnbound | EDivZero | EIndex | EType | ENan | EFn | EShape.
Inductive result (A : Type) : Type := Ok (a : A) | Err (e : err).
Arguments Ok {A} a.
Arguments Err {A} e.
Definition bind {A B} (r : result A) (f : A -> result B) : result B :=
  match r with Ok a => f a | Err e => Err e end.

Inductive cmpop := OLt | OLe | OGt | OGe | OEq | ONe.
Inductive binop := BAdd | BSub | BMul | BDiv | BMin | BMax | BFloorDiv | BCmp (c : cmpop) | BAnd | BOr.
Inductive unop := UNeg | UFloor | UCeil | UAbs | UPow (n : Z) | UFn (f : N) | UNot.

(* scalar formulas.  Truth values are 1/0 (conditions of Piecewise); `Nan` is the value of a Piecewise without a
   matching branch; `Idx x i` is `x[i]` for an indexed base `x`; `IBc a n i` is IndexedBroadcast(a, (n,), i). *)
Inductive expr :=
| Const (q : Q)
| Nan
| Var (x : N)
| Un (o : unop) (a : expr)
| Bin (o : binop) (a b : expr)
| Ite (c a b : expr)
| Sum (i : N) (lo hi body : expr)
| Idx (x : N) (i : expr)
| IBc (a : expr) (n : Z) (i : expr).

(* ---- values of the operators ------------------------------------------------------------------------------------ *)
Definition b2q (b : bool) : Q := if b then 1 else 0.
Definition truthy (q : Q) : bool := negb (Qeq_bool q 0).
Definition Qltb (a b : Q) : bool := negb (Qle_bool b a).
Definition cmp_eval (c : cmpop) (x y : Q) : bool :=
  match c with
  | OLt => Qltb x y | OLe => Qle_bool x y | OGt => Qltb y x | OGe => Qle_bool y x
  | OEq => Qeq_bool x y | ONe => negb (Qeq_bool x y)
  end.
Definition qfloor (x : Q) : Q := inject_Z (Qfloor x).
Definition qceil (x : Q) : Q := inject_Z (Qceiling x).

Definition bin_eval (o : binop) (x y : Q) : result Q :=
  match o with
  | BAdd => Ok (x + y) | BSub => Ok (x - y) | BMul => Ok (x * y)
  | BDiv => if Qeq_bool y 0 then Err EDivZero else Ok (x / y)
  | BMin => Ok (if Qle_bool x y then x else y)
  | BMax => Ok (if Qle_bool x y then y else x)
  | BFloorDiv => if Qeq_bool y 0 then Err EDivZero else Ok (qfloor (x / y))
  | BCmp c => Ok (b2q (cmp_eval c x y))
  | BAnd => Ok (b2q (truthy x && truthy y))
  | BOr => Ok (b2q (truthy x || truthy y))
  end.

Definition un_eval (fn : N -> Q -> option Q) (o : unop) (x : Q) : result Q :=
  match o with
  | UNeg => Ok (- x) | UFloor => Ok (qfloor x) | UCeil => Ok (qceil x) | UAbs => Ok (Qabs x)
  | UPow n => if (n <? 0)%Z && Qeq_bool x 0 then Err EDivZero else Ok (Qpower x n)
  | UFn f => match fn f x with Some v => Ok v | None => Err EFn end
  | UNot => Ok (b2q (negb (truthy x)))
  end.

(* a rational that is an integer (Python int index / range bound) *)
Definition as_int (q : Q) : option Z :=
  let r := Qred q in if Pos.eqb (Qden r) 1 then Some (Qnum r) else None.

(* numpy / Python indexing: negative positions count from the end *)
Definition index (l : list Q) (z : Z) : result Q :=
  let n := Z.of_nat (length l) in
  let z' := if (z <? 0)%Z then (z + n)%Z else z in
  if (0 <=? z')%Z && (z' <? n)%Z then
    match nth_error l (Z.to_nat z') with Some v => Ok v | None => Err EIndex end
  else Err EIndex.

(* sum_{k = lo}^{lo+n-1} f k, left to right, first error wins *)
Fixpoint sum_range (f : Z -> result Q) (lo : Z) (n : nat) : result Q :=
  match n with
  | O => Ok 0
  | S n' => bind (f lo) (fun v => bind (sum_range f (lo + 1)%Z n') (fun r => Ok (v + r)))
  end.

(* ---- environments ---------------------------------------------------------------------------------------------- *)
Record env := { sc : N -> option Q;            (* scalar variables *)
                vc : N -> option (list Q);     (* indexed bases *)
                fn : N -> Q -> option Q }.     (* interpretation of the uninterpreted functions (sin, cos, exp) *)
Definition set_sc (r : env) (i : N) (v : Q) : env :=
  {| sc := fun x => if N.eqb x i then Some v else sc r x; vc := vc r; fn := fn r |}.

(* ---- the denotation ------------------------------------------------------------------------------------------- *)
Fixpoint eval (r : env) (e : expr) {struct e} : result Q :=
  match e with
  | Const q => Ok q
  | Nan => Err ENan
  | Var x => match sc r x with Some v => Ok v | None => Err EUnbound end
  | Un o a => bind (eval r a) (un_eval (fn r) o)
  | Bin o a b => bind (eval r a) (fun x => bind (eval r b) (fun y => bin_eval o x y))
  | Ite c a b => bind (eval r c) (fun t => if truthy t then eval r a else eval r b)
  | Sum i lo hi body =>
      bind (eval r lo) (fun l => bind (eval r hi) (fun h =>
        match as_int l, as_int h with
        | Some lz, Some hz => sum_range (fun k => eval (set_sc r i (inject_Z k)) body) lz (Z.to_nat (hz - lz + 1))
        | _, _ => Err EType
        end))
  | Idx x i =>
      match vc r x with
      | None => Err EUnbound
      | Some l => bind (eval r i) (fun iv => match as_int iv with Some z => index l z | None => Err EIndex end)
      end
  | IBc a n i =>
      bind (eval r a) (fun v => bind (eval r i) (fun iv =>
        match as_int iv with
        | Some z => if (- n <=? z)%Z && (z <? n)%Z then Ok v else Err EIndex
        | None => Err EIndex
        end))
  end.

(* ---- free variables -------------------------------------------------------------------------------------------- *)
Definition nmem (x : N) (l : list N) : bool := existsb (N.eqb x) l.
Definition nremove (x : N) (l : list N) : list N := filter (fun y => negb (N.eqb y x)) l.

Fixpoint fv (e : expr) : list N :=       (* scalar variables *)
  match e with
  | Const _ | Nan => []
  | Var x => [x]
  | Un _ a => fv a
  | Bin _ a b => fv a ++ fv b
  | Ite c a b => fv c ++ fv a ++ fv b
  | Sum i lo hi body => fv lo ++ fv hi ++ nremove i (fv body)
  | Idx _ i => fv i
  | IBc a _ i => fv a ++ fv i
  end.
Fixpoint fvv (e : expr) : list N :=      (* indexed bases *)
  match e with
  | Const _ | Nan | Var _ => []
  | Un _ a => fvv a
  | Bin _ a b => fvv a ++ fvv b
  | Ite c a b => fvv c ++ fvv a ++ fvv b
  | Sum _ lo hi body => fvv lo ++ fvv hi ++ fvv body
  | Idx x i => x :: fvv i
  | IBc a _ i => fvv a ++ fvv i
  end.

(* Expression._parse_evaluate_numeric_arguments: every variable of the expression must be in the scope, whether or
   not the value is needed; then the compiled formula is evaluated *)
Definition is_some {A} (o : option A) : bool := match o with Some _ => true | None => false end.
Definition all_bound (r : env) (e : expr) : bool :=
  forallb (fun x => is_some (sc r x)) (fv e) && forallb (fun x => is_some (vc r x)) (fvv e).
Definition evaluate (r : env) (e : expr) : result Q :=
  if all_bound r e then eval r e else Err EUnbound.

(* ---- association lists, scopes of the generated cases -------------------------------------------------------------- *)
Fixpoint lookup {A} (l : list (N * A)) (x : N) : option A :=
  match l with
  | [] => None
  | (y, v) :: r => if N.eqb x y then Some v else lookup r x
  end.
Fixpoint fn_lookup (t : list (N * Q * Q)) (f : N) (x : Q) : option Q :=
  match t with
  | [] => None
  | (g, a, v) :: r => if N.eqb f g && Qeq_bool a x then Some v else fn_lookup r f x
  end.
Definition mk_env (s : list (N * Q)) (v : list (N * list Q)) (t : list (N * Q * Q)) : env :=
  {| sc := lookup s; vc := lookup v; fn := fn_lookup t |}.

(* ---- the scope a simultaneous substitution denotes --------------------------------------------------------------- *)
(* the environment a simultaneous substitution denotes: substituted names get the value of their term in r *)
Definition ext (r : env) (s : list (N * expr)) : env :=
  {| sc := fun x => match lookup s x with
                    | Some t => match eval r t with Ok v => Some v | Err _ => None end
                    | None => sc r x
                    end;
     vc := vc r; fn := fn r |}.
(* several substitution steps made one after the other (the head of the list first): the steps made LATER give the
   scope in which the terms of the earlier ones are read *)
Fixpoint ext_chain (r : env) (ss : list (list (N * expr))) : env :=
  match ss with
  | [] => r
  | s :: rest => ext (ext_chain r rest) s
  end.

(* ---- operators on values (specification of ExpressionScalar.__add__ ... ) ---------------------------------------- *)
Inductive bop := OpAdd | OpSub | OpMul | OpDiv | OpFloorDiv.
Definition bop_val (o : bop) (x y : Q) : result Q :=
  match o with
  | OpAdd => Ok (x + y) | OpSub => Ok (x - y) | OpMul => Ok (x * y)
  | OpDiv => if Qeq_bool y 0 then Err EDivZero else Ok (x / y)
  | OpFloorDiv => if Qeq_bool y 0 then Err EDivZero else Ok (qfloor (x / y))
  end.

(* ---- array scopes: a scalar variable may be bound to an array of sample points ------------------------------------ *)
Inductive value := VQ (q : Q) | VArr (l : list Q).
Definition vget (v : value) (j : nat) : option Q :=
  match v with VQ x => Some x | VArr l => nth_error l j end.
Record aenv := { asc : N -> option value; avc : N -> option (list Q); afn : N -> Q -> option Q }.
(* the scalar environment seen by sample point j *)
Definition proj (r : aenv) (j : nat) : env :=
  {| sc := fun x => match asc r x with Some v => vget v j | None => None end; vc := avc r; fn := afn r |}.
Definition mk_aenv (s : list (N * value)) (v : list (N * list Q)) (t : list (N * Q * Q)) : aenv :=
  {| asc := lookup s; avc := lookup v; afn := fn_lookup t |}.

(* ---- input type classes of the exact-rational clause ("whenever inputs are integers or rationals") ------------- *)
Inductive ty := TInt | TTime | TFloat.
Definition is_int (t : ty) : bool := match t with TInt => true | _ => false end.
Definition is_float (t : ty) : bool := match t with TFloat => true | _ => false end.
Definition exact_inputs (s : list (N * (Q * ty))) (v : list (N * (list Q * ty))) : bool :=
  forallb (fun p => negb (is_float (snd (snd p)))) s && forallb (fun p => negb (is_float (snd (snd p)))) v.
(* the untyped scope of a typed one *)
Definition untyped {A} (s : list (N * (A * ty))) : list (N * A) := map (fun p => (fst p, fst (snd p))) s.
