(* C12 — array evaluation = map of scalar evaluation (proof of C12_vector_statement).
   `evalv` is the numpy-style broadcasting evaluation of Model.v; `proj r j` the scalar scope seen by sample point j. *)
From Coq Require Import ZArith QArith Qround Qabs List Bool NArith Lia.
Require Import QV.C12.Model QV.C12.Proofs.
Import ListNotations.

Definition shape (n : nat) (v : value) : Prop := match v with VQ _ => True | VArr l => length l = n end.

(* ---- lists ------------------------------------------------------------------------------------------------------- *)
Lemma seq_res_nth : forall A (l : list (result A)) r, seq_res l = Ok r ->
  length r = length l /\ forall j x, nth_error l j = Some x -> exists y, nth_error r j = Some y /\ x = Ok y.
Proof.
  induction l as [|a l IH]; intros r H; cbn in H.
  - inversion H; subst. split; [reflexivity|]. intros j x Hj. destruct j; discriminate.
  - destruct a as [b|]; cbn in H; [|discriminate].
    destruct (seq_res l) as [r'|] eqn:E; cbn in H; [|discriminate].
    inversion H; subst. destruct (IH r' eq_refl) as [L P]. split; [cbn; congruence|].
    intros [|j] x Hj; cbn in *.
    + inversion Hj; subst. exists b; auto.
    + apply P; assumption.
Qed.

Lemma nth_map : forall A B (f : A -> B) l j x, nth_error l j = Some x -> nth_error (map f l) j = Some (f x).
Proof.
  induction l as [|a l IH]; intros [|j] x H; cbn in *; try discriminate.
  - inversion H; reflexivity.
  - apply IH; assumption.
Qed.

Lemma nth_zip : forall A B C (f : A -> B -> C) l m j x y,
  nth_error l j = Some x -> nth_error m j = Some y -> nth_error (zip_with f l m) j = Some (f x y).
Proof.
  induction l as [|a l IH]; intros [|b m] [|j] x y H1 H2; cbn in *; try discriminate.
  - inversion H1; inversion H2; reflexivity.
  - apply IH; assumption.
Qed.

Lemma zip_length : forall A B C (f : A -> B -> C) l m, length l = length m -> length (zip_with f l m) = length l.
Proof.
  induction l as [|a l IH]; intros [|b m] H; cbn in *; try discriminate; auto.
Qed.

Lemma nth_combine_seq : forall A (ts : list A) k j t,
  nth_error ts j = Some t -> nth_error (combine (seq k (length ts)) ts) j = Some ((k + j)%nat, t).
Proof.
  induction ts as [|a ts IH]; intros k [|j] t H; cbn in *; try discriminate.
  - inversion H; subst. rewrite Nat.add_0_r. reflexivity.
  - rewrite (IH (S k) j t H). f_equal. f_equal. lia.
Qed.

Lemma vget_shape : forall n v j, shape n v -> (j < n)%nat -> exists q, vget v j = Some q.
Proof.
  intros n [x|l] j S Hj; cbn in *.
  - exists x; reflexivity.
  - subst n. destruct (nth_error l j) as [q|] eqn:E; [exists q; reflexivity|].
    apply nth_error_None in E. lia.
Qed.

(* ---- broadcasting operators -------------------------------------------------------------------------------------- *)
Lemma lift1_spec : forall f v w n, lift1 f v = Ok w -> shape n v ->
  shape n w /\ forall j q, vget v j = Some q -> exists q', vget w j = Some q' /\ f q = Ok q'.
Proof.
  intros f [x|l] w n H S; cbn in H.
  - destruct (f x) as [y|] eqn:E; cbn in H; [|discriminate]. inversion H; subst. split; [exact I|].
    intros j q Hq. cbn in Hq. inversion Hq; subst. exists y. split; [reflexivity | assumption].
  - destruct (seq_res (map f l)) as [r|] eqn:E; cbn in H; [|discriminate]. inversion H; subst.
    destruct (seq_res_nth _ _ _ E) as [L P]. split.
    + cbn in *. rewrite L, map_length. assumption.
    + intros j q Hq. cbn in Hq. destruct (P j (f q) (nth_map _ _ f l j q Hq)) as [y [Hy Fy]].
      exists y. split; assumption.
Qed.

Lemma lift2_spec : forall f a b w n, lift2 f a b = Ok w -> shape n a -> shape n b ->
  shape n w /\ forall j x y, vget a j = Some x -> vget b j = Some y -> exists z, vget w j = Some z /\ f x y = Ok z.
Proof.
  intros f [x|l] [y|m] w n H Sa Sb; cbn in H.
  - destruct (f x y) as [z|] eqn:E; cbn in H; [|discriminate]. inversion H; subst. split; [exact I|].
    intros j x' y' Hx Hy. cbn in Hx, Hy. inversion Hx; inversion Hy; subst. exists z. auto.
  - destruct (seq_res (map (fun y0 => f x y0) m)) as [r|] eqn:E; cbn in H; [|discriminate]. inversion H; subst.
    destruct (seq_res_nth _ _ _ E) as [L P]. split.
    + cbn in *. rewrite L, map_length. assumption.
    + intros j x' y' Hx Hy. cbn in Hx, Hy. inversion Hx; subst.
      destruct (P j _ (nth_map _ _ (fun y0 => f x' y0) m j y' Hy)) as [z [Hz Fz]]. exists z. auto.
  - destruct (seq_res (map (fun x0 => f x0 y) l)) as [r|] eqn:E; cbn in H; [|discriminate]. inversion H; subst.
    destruct (seq_res_nth _ _ _ E) as [L P]. split.
    + cbn in *. rewrite L, map_length. assumption.
    + intros j x' y' Hx Hy. cbn in Hx, Hy. inversion Hy; subst.
      destruct (P j _ (nth_map _ _ (fun x0 => f x0 y') l j x' Hx)) as [z [Hz Fz]]. exists z. auto.
  - destruct (Nat.eqb (length l) (length m)) eqn:EL; [|discriminate]. apply Nat.eqb_eq in EL.
    destruct (seq_res (zip_with f l m)) as [r|] eqn:E; cbn in H; [|discriminate]. inversion H; subst.
    destruct (seq_res_nth _ _ _ E) as [L P]. split.
    + cbn in *. rewrite L, zip_length; assumption.
    + intros j x' y' Hx Hy. cbn in Hx, Hy.
      destruct (P j _ (nth_zip _ _ _ f l m j x' y' Hx Hy)) as [z [Hz Fz]]. exists z. auto.
Qed.

(* the scope of sample point j under a scalar binding of the summation index *)
Lemma proj_set : forall body r i k j,
  eval (proj (set_asc r i (VQ k)) j) body = eval (set_sc (proj r j) i k) body.
Proof.
  intros. apply eval_agree; try reflexivity. intros x _. cbn. destruct (N.eqb x i); reflexivity.
Qed.

Definition arrays_have (r : aenv) (n : nat) : Prop := forall x l, asc r x = Some (VArr l) -> length l = n.

Lemma arrays_set : forall r n i k, arrays_have r n -> arrays_have (set_asc r i (VQ k)) n.
Proof.
  intros r n i k H x l. cbn. destruct (N.eqb x i); [discriminate | apply H].
Qed.

Definition pointwise (r : aenv) (n : nat) (e : expr) (v : value) : Prop :=
  shape n v /\ forall j, (j < n)%nat -> exists q, vget v j = Some q /\ eval (proj r j) e = Ok q.

Lemma vsum_inv : forall body i n,
  (forall r v, arrays_have r n -> evalv r body = Ok v -> pointwise r n body v) ->
  forall r, arrays_have r n ->
  forall m lz v, vsum_range (fun k => evalv (set_asc r i (VQ (inject_Z k))) body) lz m = Ok v ->
  shape n v /\ forall j, (j < n)%nat -> exists q, vget v j = Some q /\
     sum_range (fun k => eval (set_sc (proj r j) i (inject_Z k)) body) lz m = Ok q.
Proof.
  intros body i n IH r Hr. induction m as [|m IHm]; intros lz v H; cbn in H.
  - inversion H; subst. split; [exact I|]. intros j _. exists 0. split; reflexivity.
  - unfold vadd in H.
    destruct (evalv (set_asc r i (VQ (inject_Z lz))) body) as [x|] eqn:Ex; cbn in H; [|discriminate].
    destruct (vsum_range (fun k => evalv (set_asc r i (VQ (inject_Z k))) body) (lz + 1) m) as [y|] eqn:Ey;
      cbn in H; [|discriminate].
    destruct (IH _ _ (arrays_set r n i (inject_Z lz) Hr) Ex) as [Sx Px].
    destruct (IHm _ _ Ey) as [Sy Py].
    destruct (lift2_spec _ _ _ _ n H Sx Sy) as [Sv Pv]. split; [assumption|].
    intros j Hj. destruct (Px j Hj) as [qx [Hqx Eqx]]. destruct (Py j Hj) as [qy [Hqy Eqy]].
    destruct (Pv j qx qy Hqx Hqy) as [z [Hz Fz]]. exists z. split; [assumption|].
    cbn. rewrite <- proj_set, Eqx. cbn. rewrite Eqy. cbn. exact Fz.
Qed.

Lemma scalar_of_ok : forall rv x, bind rv scalar_of = Ok x -> rv = Ok (VQ x).
Proof.
  intros [[q|l]|e] x H; cbn in H; try discriminate. inversion H; reflexivity.
Qed.

(* ---- the invariant ------------------------------------------------------------------------------------------------ *)
Lemma evalv_inv : forall e n r v, arrays_have r n -> evalv r e = Ok v -> pointwise r n e v.
Proof.
  intros e n.
  induction e as [q| |x|o a IHa|o a IHa b IHb|c IHc a IHa b IHb|i lo IHlo hi IHhi body IHbody|x i IHi|a IHa z i IHi];
    intros r v Hr H; cbn in H.
  - inversion H; subst. split; [exact I|]. intros j _. exists q. split; reflexivity.
  - discriminate.
  - destruct (asc r x) as [w|] eqn:E; [|discriminate]. inversion H; subst.
    assert (S : shape n v) by (destruct v; [exact I | eapply Hr; eauto]).
    split; [assumption|]. intros j Hj. destruct (vget_shape n v j S Hj) as [q Hq]. exists q. split; [assumption|].
    cbn. rewrite E, Hq. reflexivity.
  - destruct (evalv r a) as [va|] eqn:Ea; cbn in H; [|discriminate].
    destruct (IHa r va Hr Ea) as [Sa Pa]. destruct (lift1_spec _ _ _ n H Sa) as [Sw Pw]. split; [assumption|].
    intros j Hj. destruct (Pa j Hj) as [q [Hq Eq]]. destruct (Pw j q Hq) as [q' [Hq' Fq]].
    exists q'. split; [assumption|]. cbn. rewrite Eq. cbn. exact Fq.
  - destruct (evalv r a) as [va|] eqn:Ea; cbn in H; [|discriminate].
    destruct (evalv r b) as [vb|] eqn:Eb; cbn in H; [|discriminate].
    destruct (IHa r va Hr Ea) as [Sa Pa]. destruct (IHb r vb Hr Eb) as [Sb Pb].
    destruct (lift2_spec _ _ _ _ n H Sa Sb) as [Sw Pw]. split; [assumption|].
    intros j Hj. destruct (Pa j Hj) as [x [Hx Ex]]. destruct (Pb j Hj) as [y [Hy Ey]].
    destruct (Pw j x y Hx Hy) as [w [Hw Fw]]. exists w. split; [assumption|].
    cbn. rewrite Ex. cbn. rewrite Ey. cbn. exact Fw.
  - unfold select in H. destruct (evalv r c) as [[t|ts]|] eqn:Ec; [| |discriminate].
    + destruct (IHc r (VQ t) Hr Ec) as [_ Pc]. destruct (truthy t) eqn:T.
      * destruct (IHa r v Hr H) as [Sa Pa]. split; [assumption|]. intros j Hj.
        destruct (Pa j Hj) as [q [Hq Eq]]. exists q. split; [assumption|].
        destruct (Pc j Hj) as [qc [Hqc Eqc]]. cbn in Hqc. inversion Hqc; subst.
        cbn. rewrite Eqc. cbn. rewrite T. exact Eq.
      * destruct (IHb r v Hr H) as [Sb Pb]. split; [assumption|]. intros j Hj.
        destruct (Pb j Hj) as [q [Hq Eq]]. exists q. split; [assumption|].
        destruct (Pc j Hj) as [qc [Hqc Eqc]]. cbn in Hqc. inversion Hqc; subst.
        cbn. rewrite Eqc. cbn. rewrite T. exact Eq.
    + destruct (IHc r (VArr ts) Hr Ec) as [Sc Pc]. cbn in Sc.
      match type of H with bind (seq_res ?L) _ = _ => destruct (seq_res L) as [rr|] eqn:Es end; cbn in H; [|discriminate].
      inversion H; subst v. destruct (seq_res_nth _ _ _ Es) as [L P]. split.
      * cbn. rewrite L, map_length, combine_length, seq_length. lia.
      * intros j Hj. destruct (Pc j Hj) as [t [Ht Et]]. cbn in Ht.
        pose proof (nth_combine_seq _ ts 0 j t Ht) as Hc. cbn in Hc.
        match type of Es with seq_res (map ?F _) = _ => pose proof (nth_map _ _ F _ j _ Hc) as Hm end.
        destruct (P j _ Hm) as [y [Hy Fy]]. cbn in Fy.
        exists y. split; [exact Hy|]. cbn. rewrite Et. cbn.
        destruct (truthy t).
        -- destruct (evalv r a) as [va|] eqn:Ea; cbn in Fy; [|discriminate].
           destruct (IHa r va Hr Ea) as [_ Pa]. destruct (Pa j Hj) as [q [Hq Eq]].
           rewrite Hq in Fy. inversion Fy; subst. exact Eq.
        -- destruct (evalv r b) as [vb|] eqn:Eb; cbn in Fy; [|discriminate].
           destruct (IHb r vb Hr Eb) as [_ Pb]. destruct (Pb j Hj) as [q [Hq Eq]].
           rewrite Hq in Fy. inversion Fy; subst. exact Eq.
  - destruct (bind (evalv r lo) scalar_of) as [l|] eqn:El; cbn in H; [|discriminate].
    destruct (bind (evalv r hi) scalar_of) as [h|] eqn:Eh; cbn in H; [|discriminate].
    apply scalar_of_ok in El. apply scalar_of_ok in Eh.
    destruct (as_int l) as [lz|] eqn:Al; [|discriminate].
    destruct (as_int h) as [hz|] eqn:Ah; [|discriminate].
    destruct (IHlo r _ Hr El) as [_ Plo]. destruct (IHhi r _ Hr Eh) as [_ Phi].
    destruct (vsum_inv body i n IHbody r Hr _ _ _ H) as [Sv Pv]. split; [assumption|].
    intros j Hj. destruct (Pv j Hj) as [q [Hq Eq]]. exists q. split; [assumption|].
    destruct (Plo j Hj) as [ql [Hql Eql]]. destruct (Phi j Hj) as [qh [Hqh Eqh]].
    cbn in Hql, Hqh. inversion Hql; inversion Hqh; subst.
    cbn. rewrite Eql. cbn. rewrite Eqh. cbn. rewrite Al, Ah. exact Eq.
  - destruct (avc r x) as [l|] eqn:Ev; [|discriminate].
    destruct (evalv r i) as [vi|] eqn:Ei; cbn in H; [|discriminate].
    destruct (IHi r vi Hr Ei) as [Si Pi]. destruct (lift1_spec _ _ _ n H Si) as [Sw Pw]. split; [assumption|].
    intros j Hj. destruct (Pi j Hj) as [q [Hq Eq]]. destruct (Pw j q Hq) as [q' [Hq' Fq]].
    exists q'. split; [assumption|]. cbn. rewrite Ev, Eq. cbn. exact Fq.
  - destruct (bind (evalv r a) scalar_of) as [va|] eqn:Ea; cbn in H; [|discriminate].
    destruct (bind (evalv r i) scalar_of) as [vi|] eqn:Ei; cbn in H; [|discriminate].
    apply scalar_of_ok in Ea. apply scalar_of_ok in Ei.
    destruct (IHa r _ Hr Ea) as [_ Pa]. destruct (IHi r _ Hr Ei) as [_ Pi].
    destruct (as_int vi) as [iz|] eqn:Ai; [|discriminate].
    destruct ((- z <=? iz)%Z && (iz <? z)%Z) eqn:B; [|discriminate]. inversion H; subst.
    split; [exact I|]. intros j Hj. exists va. split; [reflexivity|].
    destruct (Pa j Hj) as [qa [Hqa Eqa]]. destruct (Pi j Hj) as [qi [Hqi Eqi]].
    cbn in Hqa, Hqi. inversion Hqa; inversion Hqi; subst.
    cbn. rewrite Eqa. cbn. rewrite Eqi. cbn. rewrite Ai, B. reflexivity.
Qed.

(* ---- statements collected in Props.v ------------------------------------------------------------------------------ *)
Lemma evalv_pointwise : forall e r n v,
  (forall x l, asc r x = Some (VArr l) -> length l = n) ->
  evalv r e = Ok v ->
  forall j, (j < n)%nat -> exists q, vget v j = Some q /\ eval (proj r j) e = Ok q.
Proof. intros e r n v Hr H. exact (proj2 (evalv_inv e n r v Hr H)). Qed.

Lemma evalv_shape : forall e r n v,
  (forall x l, asc r x = Some (VArr l) -> length l = n) ->
  evalv r e = Ok v -> match v with VQ _ => True | VArr l => length l = n end.
Proof. intros e r n v Hr H. exact (proj1 (evalv_inv e n r v Hr H)). Qed.

(* broadcasting of scalars: a scope without arrays gives a scalar, the value of the formula *)
Lemma evalv_scalar_scope : forall e r v,
  (forall x l, asc r x <> Some (VArr l)) -> evalv r e = Ok v -> exists q, v = VQ q /\ eval (proj r 0) e = Ok q.
Proof.
  intros e r v Hr H.
  assert (A1 : arrays_have r 1) by (intros x l E; exfalso; exact (Hr x l E)).
  assert (A2 : arrays_have r 2) by (intros x l E; exfalso; exact (Hr x l E)).
  destruct (evalv_inv e 1 r v A1 H) as [S1 P1]. destruct (evalv_inv e 2 r v A2 H) as [S2 _].
  destruct v as [q|l]; [|cbn in S1, S2; congruence].
  exists q. split; [reflexivity|]. destruct (P1 0%nat ltac:(lia)) as [q' [Hq Eq]]. cbn in Hq. inversion Hq; subst. exact Eq.
Qed.

(* non-vacuity: an array-valued scope on which the broadcasting evaluation succeeds, with a scalar broadcast against
   an array, a Piecewise selecting per element and a Sum *)
Definition vec_e : expr :=
  Bin BAdd (Ite (Bin (BCmp OLt) (Var 11%N) (Const 1)) (Bin BMul (Var 0%N) (Var 11%N)) (Const (1 # 2)))
           (Sum 10%N (Const 0) (Const 2) (Bin BMul (Var 10%N) (Var 11%N))).
Definition vec_r : aenv := mk_aenv [(0%N, VQ (3 # 1)); (11%N, VArr [0; 1 # 2; 2 # 1])] [] [].
Lemma vec_nonvacuous :
  (forall x l, asc vec_r x = Some (VArr l) -> length l = 3%nat) /\
  exists l, evalv vec_r vec_e = Ok (VArr l) /\ length l = 3%nat.
Proof.
  split.
  - intros x l. unfold vec_r. cbn. destruct (N.eqb x 0); [discriminate|].
    destruct (N.eqb x 11); [|discriminate]. intros E. inversion E; reflexivity.
  - eexists. split; [vm_compute; reflexivity | reflexivity].
Qed.
