(* C12 -- correspondence cases.  The case type, the observation and check_spec live in SpecCheck.v (which sees the
   specification only).  check_corr evaluates the operational model of what the code does (subst then eval, build then
   eval, broadcasting evaluation, cmp_model, typed evaluation).  Must not import Proofs/Props. *)
From Coq Require Import ZArith QArith Qround Qabs List Bool NArith.
Require Import QV.common.Util.
Require Export QV.C12.Model QV.C12.ModelT QV.C12.SpecCheck.
Import ListNotations.
Definition corr_arr (e : expr) (r : aenv) (n : nat) (tol : bool) (o : obs) : bool :=
  match evalv r e with
  | Ok v =>
      match o with
      | OArr l => Nat.eqb (length l) n &&
                  forallb (fun p => match vget v (fst p), snd p with
                                    | Some x, Some q => close tol x q
                                    | _, _ => false
                                    end) (combine (seq 0 n) l)
      | OVal q => forallb (fun j => match vget v j with Some x => close tol x q | None => false end) (seq 0 n)
      | _ => false
      end
  | Err EFn => false
  | Err _ => true
  end.

Definition ucheck_corr (c : ucase) : bool :=
  match c with
  | CEval e ivars calls =>
      forallb (fun x => nmem x (fv e ++ fvv e)) ivars && forallb (agree_call e ivars) calls
  | CArr e sc vc fnt n tol o =>
      let r := mk_aenv sc vc fnt in
      if aall_bound r e then corr_arr e r n tol o else match o with OErr KUnbound => true | _ => false end
  | CPartial e s c => agree (c_tol c) (evaluate (env_of c) (subst s e)) (c_obs c)
  | CBuild o a b c => agree (c_tol c) (evaluate (env_of c) (build o a b)) (c_obs c)
  | CNeg a c => agree (c_tol c) (evaluate (env_of c) (build_neg a)) (c_obs c)
  | CCmp op a b impl _ =>
      match cmp_model (fun _ _ => None) op a b with
      | Some r => match impl with Some r' => Bool.eqb r r' | None => false end
      | None => true
      end
  | CVec es c => vec_agree (evaluate (env_of c)) es c
  | CVecPartial es s c => vec_agree (fun e => evaluate (env_of c) (subst s e)) es c
  | CTyped ex e s v tolf o oc =>
      (* the typed model: the exact value wherever it computes an exact type (int, TimeType), close where it computes
         a float and some intermediate value is no double; and the Python type class of the result is the computed one *)
      let r := mk_tenv ex s v [] in
      if all_bound (erase r) e then
        match evalT r e with
        | Ok (q, t) => agree (is_float t && tolf) (Ok q) o && ty_agree t oc
        | Err EFn => false
        | Err _ => true
        end
      else true
  | CChain e ss c => agree (c_tol c) (evaluate (env_of c) (subst_chain ss e)) (c_obs c)
  | CCrash => false
  end.

Definition check_corr (c : case) : bool := nonempty c && forallb ucheck_corr c.

Lemma check_corr_app : forall a b : case, nonempty a = true -> nonempty b = true ->
  check_corr (a ++ b) = check_corr a && check_corr b.
Proof.
  intros a b Ha Hb. unfold check_corr. rewrite Ha, Hb, forallb_app.
  destruct a; [discriminate|]. reflexivity.
Qed.
