(* C12 — value TYPES.  `evaluate_with_exact_rationals` compiles the formula with a printer that turns every Rational
   constant into a TimeType and then runs it with Python arithmetic: the result is exact as long as no float appears,
   and a float appears out of exact inputs exactly where two ints are divided (int / int is true division) or an int
   is raised to a negative power.  `evalT` computes the value (as `eval` does) together with the Python type class of
   the result:  TInt (int, numpy integer, bool), TTime (TimeType / Rational constant), TFloat (float, or a TimeType
   built from a float: "inexact").
   Round 3: (a) the environment carries the MODE `tex` -- true: the exact-rational printer (Rational -> TimeType),
   false: the plain numpy printer of evaluate_in_scope (a non-integer Rational is printed p/q = Python int / int, a
   float); (b) a Piecewise is numpy.select(..., default=nan): the float default promotes the result to float64 (with a
   TimeType among the choices the array is an object array and the selected element comes back unchanged, or not at
   all: finding timetype-piecewise) -- `Ite` has type TFloat, the class without any exactness claim;
   (c) a decimal float literal is a float INPUT: the correspondence binds it to a reserved variable of type TFloat
   (theorem C12_literal_as_input: this does not change the value).  Definitions only. *)
From Coq Require Import ZArith QArith Qround Qabs List Bool NArith.
Require Import QV.C12.Model.
Import ListNotations.

(* the type classes `ty` (TInt | TTime | TFloat), is_int, is_float: Spec.v (they classify the INPUTS of the exact clause) *)
(* Python's numeric tower restricted to the three classes: float absorbs, then TimeType, then int *)
Definition tjoin (a b : ty) : ty :=
  match a, b with
  | TFloat, _ | _, TFloat => TFloat
  | TTime, _ | _, TTime => TTime
  | TInt, TInt => TInt
  end.

Record tenv := { tsc : N -> option (Q * ty); tvc : N -> option (list Q * ty); tfn : N -> Q -> option Q;
                 tex : bool }.
Definition set_tsc (r : tenv) (i : N) (v : Q * ty) : tenv :=
  {| tsc := fun x => if N.eqb x i then Some v else tsc r x; tvc := tvc r; tfn := tfn r; tex := tex r |}.
Definition erase (r : tenv) : env :=
  {| sc := fun x => option_map fst (tsc r x); vc := fun x => option_map fst (tvc r x); fn := tfn r |}.

(* an integer-valued Rational is a sympy Integer -> Python int; any other Rational -> TimeType.from_fraction in the
   exact mode, the Python quotient p/q (a float) in the numeric mode *)
Definition const_ty (ex : bool) (q : Q) : ty :=
  match as_int q with Some _ => TInt | None => if ex then TTime else TFloat end.

Definition un_ty (o : unop) (t : ty) : ty :=
  match o with
  | UNeg | UAbs => t
  | UFloor | UCeil | UNot => TInt
  | UPow n => if (n <? 0)%Z && is_int t then TFloat else t       (* 2 ** -1 = 0.5 *)
  | UFn _ => TFloat
  end.

Definition bin_ty (o : binop) (x : Q * ty) (y : Q * ty) : ty :=
  match o with
  | BAdd | BSub | BMul => tjoin (snd x) (snd y)
  | BDiv => if is_int (snd x) && is_int (snd y) then TFloat else tjoin (snd x) (snd y)    (* int / int: true division *)
  | BFloorDiv | BCmp _ | BAnd | BOr => TInt
  | BMin => if is_float (snd x) || is_float (snd y) then TFloat else if Qle_bool (fst x) (fst y) then snd x else snd y
  | BMax => if is_float (snd x) || is_float (snd y) then TFloat else if Qle_bool (fst x) (fst y) then snd y else snd x
  end.

Fixpoint sumT_range (f : Z -> result (Q * ty)) (lo : Z) (n : nat) : result (Q * ty) :=
  match n with
  | O => Ok (0, TInt)
  | S n' => bind (f lo) (fun v => bind (sumT_range f (lo + 1)%Z n') (fun r =>
              Ok (fst v + fst r, tjoin (snd v) (snd r))))
  end.

Fixpoint evalT (r : tenv) (e : expr) {struct e} : result (Q * ty) :=
  match e with
  | Const q => Ok (q, const_ty (tex r) q)
  | Nan => Err ENan
  | Var x => match tsc r x with Some v => Ok v | None => Err EUnbound end
  | Un o a => bind (evalT r a) (fun p => bind (un_eval (tfn r) o (fst p)) (fun v => Ok (v, un_ty o (snd p))))
  | Bin o a b => bind (evalT r a) (fun p => bind (evalT r b) (fun q =>
                   bind (bin_eval o (fst p) (fst q)) (fun v => Ok (v, bin_ty o p q))))
  | Ite c a b =>       (* numpy.select(conds, choices, default=nan): float64 *)
      bind (evalT r c) (fun t => bind (if truthy (fst t) then evalT r a else evalT r b) (fun p => Ok (fst p, TFloat)))
  | Sum i lo hi body =>
      bind (evalT r lo) (fun l => bind (evalT r hi) (fun h =>
        match as_int (fst l), as_int (fst h) with
        | Some lz, Some hz =>
            sumT_range (fun k => evalT (set_tsc r i (inject_Z k, TInt)) body) lz (Z.to_nat (hz - lz + 1))
        | _, _ => Err EType
        end))
  | Idx x i =>
      match tvc r x with
      | None => Err EUnbound
      | Some lt => bind (evalT r i) (fun iv =>
                     match as_int (fst iv) with
                     | Some z => bind (index (fst lt) z) (fun v => Ok (v, snd lt))
                     | None => Err EIndex
                     end)
      end
  | IBc a n i =>
      bind (evalT r a) (fun v => bind (evalT r i) (fun iv =>
        match as_int (fst iv) with
        | Some z => if (- n <=? z)%Z && (z <? n)%Z then Ok v else Err EIndex
        | None => Err EIndex
        end))
  end.

(* ---- static over-approximation of the result type and the executable guard -------------------------------------- *)
(* s x / sv x: the type classes a scalar name / an indexed base may have *)
Fixpoint poss (ex : bool) (s sv : N -> list ty) (e : expr) : list ty :=
  match e with
  | Const q => [const_ty ex q]
  | Nan => []
  | Var x => s x
  | Un o a => map (un_ty o) (poss ex s sv a)
  | Bin o a b =>
      let A := poss ex s sv a in let B := poss ex s sv b in
      match o with
      | BAdd | BSub | BMul | BMin | BMax => A ++ B
      | BDiv => (if existsb is_int A && existsb is_int B then [TFloat] else []) ++ A ++ B
      | BFloorDiv | BCmp _ | BAnd | BOr => [TInt]
      end
  | Ite _ _ _ => [TFloat]
  | Sum i _ _ body => TInt :: poss ex (fun x => if N.eqb x i then [TInt] else s x) sv body
  | Idx x _ => sv x
  | IBc a _ _ => poss ex s sv a
  end.

(* guard_C12_exact_int_div: in the exact mode no division of two ints / negative power of an int / Piecewise can reach
   the result *)
Definition exact_guard (s sv : N -> list ty) (e : expr) : bool :=
  forallb (fun t => negb (is_float t)) (poss true s sv e).

(* association lists (generated cases) *)
Definition mk_tenv (ex : bool) (s : list (N * (Q * ty))) (v : list (N * (list Q * ty))) (t : list (N * Q * Q)) : tenv :=
  {| tsc := lookup s; tvc := lookup v; tfn := fn_lookup t; tex := ex |}.

(* observed Python type class against the model's.  TInt and TTime are claims (the result IS an int / a TimeType);
   TFloat is the class about which nothing exact is claimed: a float, a TimeType built from a float, or -- Min / Max /
   Piecewise over an object array, which numpy builds as soon as a TimeType is among the candidates -- the selected
   element unchanged (possibly an int) *)
Definition ty_agree (t : ty) (o : option ty) : bool :=
  match o with
  | None => true
  | Some c => match t, c with
              | TInt, TInt | TTime, TTime | TFloat, _ => true
              | _, _ => false
              end
  end.
