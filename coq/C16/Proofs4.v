(* C16 — proofs, part 4: the index bookkeeping of the parse / de-duplication stage.
   parse_table / parse_aseq_loop (waveforms.setdefault, sequencer_tables.setdefault) and dedup_segments
   (segments.setdefault) record indices; looking an entry up by its recorded index returns an entry equal to the one
   that was registered.  Consequence: the tables, played through the recorded indices, play the waveform data of the
   leaves of the (restructured) program, and after _calc_sampled_segments the sampled binaries of those leaves.   *)
From Coq Require Import ZArith QArith List Bool Lia ZifyBool.
Require Import QV.C16.Model QV.C16.Spec QV.C16.Proofs QV.C16.Proofs2 QV.C16.Proofs3.
Import ListNotations.
Open Scope Z_scope.

(* ---------------------------------------------------------------------------------------------------------- *)
(* the table player, generic in what an element id resolves to *)

Fixpoint play_tab {X} (res : Z -> option X) (t : list (Z * Z)) : option (list X) :=
  match t with
  | [] => Some []
  | (r, i) :: t' =>
      match res i, play_tab res t' with
      | Some s, Some rest => Some (repeat s (Z.to_nat r) ++ rest)
      | _, _ => None
      end
  end.

Fixpoint play_adv_g {X} (res : Z -> option X) (seqs : list (list (Z * Z))) (adv : list (Z * Z))
  : option (list X) :=
  match adv with
  | [] => Some []
  | (r, n) :: adv' =>
      match nth_z seqs (n - 1), play_adv_g res seqs adv' with
      | Some t, Some rest =>
          match play_tab res t with
          | Some once => Some (rep_concat r once ++ rest)
          | None => None
          end
      | _, _ => None
      end
  end.

Lemma play_seq_tab segs t : play_seq segs t = play_tab (nth_z segs) t.
Proof. induction t as [|[r i] t IH]; cbn [play_seq play_tab]; [reflexivity|]. now rewrite IH. Qed.

Lemma play_adv_gen segs seqs adv : play_adv segs seqs adv = play_adv_g (nth_z segs) seqs adv.
Proof.
  induction adv as [|[r n] adv IH]; cbn [play_adv play_adv_g]; [reflexivity|]. rewrite IH.
  destruct (nth_z seqs (n - 1)); [|reflexivity]. destruct (play_adv_g _ seqs adv); [|reflexivity].
  now rewrite play_seq_tab.
Qed.

(* ---------------------------------------------------------------------------------------------------------- *)
(* nth_z, setdefault, decidable equalities *)

Lemma nth_z_app_l {A} (l e : list A) i x : nth_z l i = Some x -> nth_z (l ++ e) i = Some x.
Proof.
  unfold nth_z. destruct (i <? 0); [discriminate|]. intros H. rewrite nth_error_app1; [exact H|].
  apply nth_error_Some. congruence.
Qed.

Lemma nth_z_len {A} (l : list A) x : nth_z (l ++ [x]) (Z.of_nat (length l)) = Some x.
Proof.
  unfold nth_z. replace (Z.of_nat (length l) <? 0) with false by lia.
  rewrite Nat2Z.id, nth_error_app2, Nat.sub_diag by lia. reflexivity.
Qed.

Lemma nth_z_In {A} (l : list A) i x : nth_z l i = Some x -> In x l.
Proof. unfold nth_z. destruct (i <? 0); [discriminate|]. apply nth_error_In. Qed.

Lemma nth_z_Forall2 {A B} (P : A -> B -> Prop) l1 l2 : Forall2 P l1 l2 ->
  forall i a, nth_z l1 i = Some a -> exists b, nth_z l2 i = Some b /\ P a b.
Proof.
  intros HF i a. unfold nth_z. destruct (i <? 0); [discriminate|]. generalize (Z.to_nat i). clear i.
  induction HF as [|x y l1 l2 Hxy HF IH]; intros [|n] H; cbn in *; try discriminate.
  - injection H as <-. eauto.
  - eauto.
Qed.

Lemma setdefault_spec {A} (eqb : A -> A -> bool) k l i l' :
  (forall x, eqb x x = true) -> setdefault eqb k l = (i, l') ->
  (exists e, l' = l ++ e) /\ exists x, nth_z l' i = Some x /\ eqb k x = true.
Proof.
  intros Hr. unfold setdefault. destruct (find_idx (eqb k) l 0) as [j|] eqn:E; intros H; injection H as <- <-.
  - split; [exists []; now rewrite app_nil_r|]. apply find_idx_spec in E as (Hj & x & Hx & Hp).
    exists x. split; [|exact Hp]. unfold nth_z. replace (j <? 0) with false by lia.
    now rewrite Z.sub_0_r in Hx.
  - split; [now exists [k]|]. exists k. split; [apply nth_z_len|apply Hr].
Qed.

Lemma table_eqb_eq : forall a b, table_eqb a b = true -> a = b.
Proof.
  induction a as [|[x1 x2] a IH]; intros [|[y1 y2] b]; cbn [table_eqb]; try discriminate; [reflexivity|].
  unfold entry_eqb. cbn [fst snd]. intros H. apply andb_prop in H as [H1 H2]. apply andb_prop in H1 as [H0 H1].
  apply IH in H2. subst. f_equal. f_equal; lia.
Qed.

Lemma table_eqb_refl : forall a, table_eqb a a = true.
Proof.
  induction a as [|[x1 x2] a IH]; [reflexivity|]. cbn [table_eqb]. unfold entry_eqb. cbn [fst snd].
  rewrite IH, !Z.eqb_refl. reflexivity.
Qed.

Lemma zlist_eqb_eq : forall a b, zlist_eqb a b = true -> a = b.
Proof.
  induction a as [|x a IH]; intros [|y b]; cbn [zlist_eqb]; try discriminate; [reflexivity|].
  intros H. apply andb_prop in H as [H1 H2]. apply IH in H2. subst. f_equal. lia.
Qed.

Lemma zlist_eqb_refl : forall a, zlist_eqb a a = true.
Proof. induction a as [|x a IH]; [reflexivity|]. cbn [zlist_eqb]. now rewrite IH, Z.eqb_refl. Qed.

Lemma wf_key_eqb_refl : forall a, wf_key_eqb a a = true.
Proof. intros a. unfold wf_key_eqb. apply Z.eqb_refl. Qed.

(* ---------------------------------------------------------------------------------------------------------- *)
(* list helpers *)

Lemma map_opt_app {A B} (f : A -> option B) : forall a b x y,
  map_opt f a = Some x -> map_opt f b = Some y -> map_opt f (a ++ b) = Some (x ++ y).
Proof.
  induction a as [|h a IH]; intros b x y Ha Hb; cbn in *.
  - injection Ha as <-. exact Hb.
  - destruct (f h); [|discriminate]. destruct (map_opt f a) eqn:E; [|discriminate]. injection Ha as <-.
    now rewrite (IH _ _ _ eq_refl Hb).
Qed.

Lemma map_opt_repeat {A B} (f : A -> option B) w wd n : f w = Some wd ->
  map_opt f (repeat w n) = Some (repeat wd n).
Proof. intros H. induction n; cbn; [reflexivity|]. now rewrite H, IHn. Qed.

Lemma map_opt_rep_concat {A B} (f : A -> option B) r l l' : map_opt f l = Some l' ->
  map_opt f (rep_concat r l) = Some (rep_concat r l').
Proof.
  intros H. unfold rep_concat. induction (Z.to_nat r) as [|n IH]; [reflexivity|].
  rewrite !repn_concat_app. now apply map_opt_app.
Qed.

Lemma rep_concat_single {A} r (w : A) : rep_concat r [w] = repeat w (Z.to_nat r).
Proof. unfold rep_concat. induction (Z.to_nat r) as [|n IH]; [reflexivity|]. cbn. now rewrite IH. Qed.

Lemma flatten_good_wf c w : good c = true -> l_wf c = Some w -> flatten c = repeat w (Z.to_nat (l_rep c)).
Proof.
  destruct c as [r m w' ch]. cbn [l_wf l_rep]. intros G ->. apply good_inv in G as (_ & Hw & _).
  destruct ch as [|c0 ch]; [|specialize (Hw ltac:(discriminate)); discriminate].
  cbn [flatten wpart map concat app]. apply rep_concat_single.
Qed.

Lemma Forall2_compose {A B C} (P : A -> B -> Prop) (Q : B -> C -> Prop) l1 l2 : Forall2 P l1 l2 ->
  forall l3, Forall2 Q l2 l3 -> Forall2 (fun a c => exists b, P a b /\ Q b c) l1 l3.
Proof.
  induction 1 as [|a b l1 l2 Hab _ IH]; intros l3 H3; inversion H3; subst; constructor; eauto.
Qed.

Lemma Forall2_Forall_l {A B} (P : A -> Prop) (Q : A -> B -> Prop) l1 l2 : Forall P l1 -> Forall2 Q l1 l2 ->
  Forall2 (fun a b => P a /\ Q a b) l1 l2.
Proof. intros HP HQ. induction HQ; inversion HP; subst; constructor; auto. Qed.

Lemma Forall2_repeat {A B} (R : A -> B -> Prop) x y n : R x y -> Forall2 R (repeat x n) (repeat y n).
Proof. intros H. induction n; cbn; constructor; auto. Qed.

Lemma Forall2_rep_concat {A B} (R : A -> B -> Prop) r l1 l2 : Forall2 R l1 l2 ->
  Forall2 R (rep_concat r l1) (rep_concat r l2).
Proof.
  intros H. unfold rep_concat. induction (Z.to_nat r) as [|n IH]; [constructor|].
  rewrite !repn_concat_app. now apply Forall2_app.
Qed.

(* ---------------------------------------------------------------------------------------------------------- *)
(* parse_table: waveforms.setdefault(waveform, len(waveforms)) *)

(* equal equality class = equal sampled data (the first object of a class is the one that gets sampled) *)
Definition cls_inj (tbl : list wfdata) : Prop :=
  forall w1 w2 d1 d2, nth_error tbl w1 = Some d1 -> nth_error tbl w2 = Some d2 -> wf_cls d1 = wf_cls d2 -> d1 = d2.

(* invariant of the waveform dictionary: every key is the class of the object stored with it *)
Definition known_ok (tbl : list wfdata) (known : list (Z * nat)) : Prop :=
  Forall (fun kw => cls_of tbl (snd kw) = Some (fst kw)) known.

(* what a recorded waveform index stands for *)
Definition wd_of (tbl : list wfdata) (known : list (Z * nat)) (i : Z) : option wfdata :=
  match nth_z known i with Some kw => nth_error tbl (snd kw) | None => None end.

Lemma wd_of_app tbl known e i wd : wd_of tbl known i = Some wd -> wd_of tbl (known ++ e) i = Some wd.
Proof.
  unfold wd_of. destruct (nth_z known i) as [kw|] eqn:E; [|discriminate]. now rewrite (nth_z_app_l _ _ _ _ E).
Qed.

Lemma cls_of_inv tbl w k : cls_of tbl w = Some k -> exists wd, nth_error tbl w = Some wd /\ wf_cls wd = k.
Proof. unfold cls_of. destruct (nth_error tbl w) as [wd|]; [|discriminate]. cbn. intros [= <-]. eauto. Qed.

Lemma setdefault_known tbl known w wd idx known' : cls_inj tbl -> known_ok tbl known ->
  nth_error tbl w = Some wd ->
  setdefault wf_key_eqb (wf_cls wd, w) known = (idx, known') ->
  (exists e, known' = known ++ e) /\ known_ok tbl known' /\ wd_of tbl known' idx = Some wd.
Proof.
  intros Hinj Hk Hw H.
  assert (Hk' : known_ok tbl known').
  { apply Forall_forall. intros x Hx. destruct (setdefault_In _ _ _ _ _ H x Hx) as [Hin| ->].
    - unfold known_ok in Hk. rewrite Forall_forall in Hk. auto.
    - cbn [fst snd]. unfold cls_of. now rewrite Hw. }
  destruct (setdefault_spec _ _ _ _ _ wf_key_eqb_refl H) as (He & x & Hx & Heq).
  split; [exact He|]. split; [exact Hk'|].
  unfold wd_of. rewrite Hx. unfold known_ok in Hk'. rewrite Forall_forall in Hk'.
  specialize (Hk' x (nth_z_In _ _ _ Hx)). apply cls_of_inv in Hk' as (d2 & Hd2 & Hc).
  unfold wf_key_eqb in Heq. cbn [fst] in Heq. rewrite Hd2. f_equal. symmetry.
  apply (Hinj w (snd x) wd d2 Hw Hd2). lia.
Qed.

Lemma parse_table_ok tbl : cls_inj tbl -> forall ch known es known',
  forallb good ch = true -> known_ok tbl known ->
  parse_table tbl ch known = Ok (es, known') ->
  (exists e, known' = known ++ e) /\ known_ok tbl known' /\
  exists wds, play_tab (wd_of tbl known') es = Some wds /\ map_opt (nth_error tbl) (flat_list ch) = Some wds.
Proof.
  intros Hinj. induction ch as [|c r IH]; intros known es known' G Hk H; cbn [parse_table] in H.
  - injection H as <- <-. split; [exists []; now rewrite app_nil_r|]. split; [exact Hk|]. exists []. auto.
  - cbn [forallb] in G. apply andb_prop in G as [Gc Gr].
    destruct (l_wf c) as [w|] eqn:Ew; [|discriminate].
    destruct (cls_of tbl w) as [k|] eqn:Ek; [|discriminate].
    apply cls_of_inv in Ek as (wd & Hwd & <-).
    destruct (setdefault wf_key_eqb (wf_cls wd, w) known) as [idx known1] eqn:Es.
    unfold bind in H. destruct (parse_table tbl r known1) as [[es' known2]|] eqn:Er; [|discriminate].
    injection H as <- <-.
    destruct (setdefault_known _ _ _ _ _ _ Hinj Hk Hwd Es) as ((e1 & ->) & Hk1 & Hi).
    destruct (IH _ _ _ Gr Hk1 Er) as ((e2 & ->) & Hk2 & wds' & Hp & Hm).
    split; [exists (e1 ++ e2); now rewrite app_assoc|]. split; [exact Hk2|].
    exists (repeat wd (Z.to_nat (l_rep c)) ++ wds'). split.
    + cbn [play_tab]. rewrite (wd_of_app _ _ e2 _ _ Hi), Hp. reflexivity.
    + rewrite flat_list_cons, (flatten_good_wf _ _ Gc Ew). apply map_opt_app; [|exact Hm].
      now apply map_opt_repeat.
Qed.

(* ---------------------------------------------------------------------------------------------------------- *)
(* parse_aseq_loop: sequencer_tables.setdefault(table, len(sequencer_tables)) *)

Lemma play_tab_mono {X} (res res' : Z -> option X) : (forall i x, res i = Some x -> res' i = Some x) ->
  forall t v, play_tab res t = Some v -> play_tab res' t = Some v.
Proof.
  intros Hm. induction t as [|[r i] t IH]; intros v H; cbn [play_tab] in *; [exact H|].
  destruct (res i) as [s|] eqn:E; [|discriminate]. destruct (play_tab res t) as [rest|]; [|discriminate].
  now rewrite (Hm _ _ E), (IH _ eq_refl).
Qed.

Lemma play_adv_g_mono {X} (res res' : Z -> option X) seqs e :
  (forall i x, res i = Some x -> res' i = Some x) ->
  forall adv v, play_adv_g res seqs adv = Some v -> play_adv_g res' (seqs ++ e) adv = Some v.
Proof.
  intros Hm. induction adv as [|[r n] adv IH]; intros v H; cbn [play_adv_g] in *; [exact H|].
  destruct (nth_z seqs (n - 1)) as [t|] eqn:E; [|discriminate].
  destruct (play_adv_g res seqs adv) as [rest|]; [|discriminate].
  destruct (play_tab res t) as [once|] eqn:Et; [|discriminate].
  now rewrite (nth_z_app_l _ _ _ _ E), (IH _ eq_refl), (play_tab_mono _ _ Hm _ _ Et).
Qed.

Lemma play_adv_g_snoc {X} (res : Z -> option X) seqs r n t once : nth_z seqs (n - 1) = Some t ->
  play_tab res t = Some once ->
  forall adv v, play_adv_g res seqs adv = Some v ->
  play_adv_g res seqs (adv ++ [(r, n)]) = Some (v ++ rep_concat r once).
Proof.
  intros Hn Ht. induction adv as [|[r' n'] adv IH]; intros v H; cbn [play_adv_g app] in *.
  - injection H as <-. rewrite Hn, Ht. cbn. now rewrite app_nil_r.
  - destruct (nth_z seqs (n' - 1)) as [t'|]; [|discriminate].
    destruct (play_adv_g res seqs adv) as [rest|]; [|discriminate].
    destruct (play_tab res t') as [once'|]; [|discriminate]. injection H as <-.
    rewrite (IH _ eq_refl). now rewrite app_assoc.
Qed.

Lemma vprop_eqb_refl : forall a, vprop_eqb a a = true.
Proof.
  induction a as [k i|k p IHp c IHc]; cbn [vprop_eqb]; rewrite !Z.eqb_refl; cbn [andb].
  - apply orb_true_r.
  - rewrite IHp, IHc. apply orb_true_r.
Qed.

Lemma tags_eqb_refl : forall a, tags_eqb a a = true.
Proof.
  induction a as [|[v|] a IH]; cbn [tags_eqb]; [reflexivity| |exact IH]. now rewrite vprop_eqb_refl, IH.
Qed.

Lemma tkey_eqb_refl : forall a, tkey_eqb a a = true.
Proof. intros [es tg]. unfold tkey_eqb. cbn [fst snd]. now rewrite table_eqb_refl, tags_eqb_refl. Qed.

Lemma nth_z_map {A B} (f : A -> B) l i x : nth_z l i = Some x -> nth_z (map f l) i = Some (f x).
Proof. unfold nth_z. destruct (i <? 0); [discriminate|]. intros H. now rewrite nth_error_map, H. Qed.

Lemma parse_aseq_loop_ok tbl : cls_inj tbl -> forall tables adv (seqs : list tkey) known p pre wds,
  forallb tgood tables = true -> known_ok tbl known ->
  play_adv_g (wd_of tbl known) (map fst seqs) adv = Some wds -> map_opt (nth_error tbl) pre = Some wds ->
  parse_aseq_loop tbl tables adv seqs known = Ok p ->
  known_ok tbl (p_wfs p) /\
  exists wds', play_adv_g (wd_of tbl (p_wfs p)) (p_seqs p) (p_adv p) = Some wds' /\
               map_opt (nth_error tbl) (pre ++ flat_list tables) = Some wds'.
Proof.
  intros Hinj. induction tables as [|t r IH]; intros adv seqs known p pre wds G Hk Hp Hm H;
    cbn [parse_aseq_loop] in H.
  - injection H as <-. cbn [p_wfs p_seqs p_adv]. split; [exact Hk|]. exists wds. split; [exact Hp|].
    cbn. now rewrite app_nil_r.
  - cbn [forallb] in G. apply andb_prop in G as [Gt Gr].
    destruct (tgood_inv _ Gt) as (rr & m & ch & -> & Hrr & Gch). cbn [l_ch l_rep] in H.
    unfold bind in H. destruct (parse_table tbl ch known) as [[es known1]|] eqn:Et; [|discriminate].
    destruct (setdefault tkey_eqb (es, map l_volp ch) seqs) as [sidx seqs'] eqn:Es.
    destruct (parse_table_ok _ Hinj _ _ _ _ Gch Hk Et) as ((e1 & ->) & Hk1 & wt & Hpt & Hmt).
    destruct (setdefault_spec _ _ _ _ _ tkey_eqb_refl Es) as ((e2 & ->) & key' & Hn & Heq).
    unfold tkey_eqb in Heq. cbn [fst] in Heq. apply andb_prop in Heq as [Heq _]. apply table_eqb_eq in Heq.
    apply (nth_z_map fst) in Hn. rewrite <- Heq in Hn. rewrite map_app in Hn.
    assert (Hmono : forall i x, wd_of tbl known i = Some x -> wd_of tbl (known ++ e1) i = Some x)
      by (intros; now apply wd_of_app).
    pose proof (play_adv_g_mono _ _ (map fst seqs) (map fst e2) Hmono _ _ Hp) as Hp1.
    assert (Hn' : nth_z (map fst seqs ++ map fst e2) (sidx + 1 - 1) = Some es)
      by (replace (sidx + 1 - 1) with sidx by lia; exact Hn).
    pose proof (play_adv_g_snoc _ _ rr _ _ _ Hn' Hpt _ _ Hp1) as Hp2. rewrite <- map_app in Hp2.
    assert (Hm2 : map_opt (nth_error tbl) (pre ++ flatten (Loop rr m None ch)) = Some (wds ++ rep_concat rr wt)).
    { apply map_opt_app; [exact Hm|]. rewrite tflatten. now apply map_opt_rep_concat. }
    destruct (IH _ _ _ _ _ _ Gr Hk1 Hp2 Hm2 H) as (Hk' & wds' & Hp' & Hm').
    split; [exact Hk'|]. exists wds'. split; [exact Hp'|]. now rewrite flat_list_cons, app_assoc.
Qed.

(* ---------------------------------------------------------------------------------------------------------- *)
(* dedup_segments: segments.setdefault(segment, len(segments)), and the renumbering of get_sequencer_tables *)

Lemma dedup_segments_ok : forall bins segs w2s segs' w2s',
  dedup_segments bins segs w2s = (segs', w2s') ->
  (exists e, segs' = segs ++ e) /\
  exists we, w2s' = w2s ++ we /\ Forall2 (fun b i => nth_z segs' i = Some b) bins we.
Proof.
  induction bins as [|b r IH]; intros segs w2s segs' w2s' H; cbn [dedup_segments] in H.
  - injection H as <- <-. split; [exists []; now rewrite app_nil_r|]. exists []. split; [now rewrite app_nil_r|constructor].
  - destruct (setdefault zlist_eqb b segs) as [i segs1] eqn:Es.
    destruct (setdefault_spec _ _ _ _ _ zlist_eqb_refl Es) as ((e1 & ->) & x & Hx & Heq).
    apply zlist_eqb_eq in Heq. subst x.
    destruct (IH _ _ _ _ H) as ((e2 & ->) & we & -> & HF).
    split; [exists (e1 ++ e2); now rewrite app_assoc|]. exists (i :: we). split; [now rewrite <- app_assoc|].
    constructor; [now apply nth_z_app_l|exact HF].
Qed.

(* refinement of the player along a relation between what the ids resolve to *)
Definition entry_rel {X Y} (res1 : Z -> option X) (res2 : Z -> option Y) (R : X -> Y -> Prop) (e1 e2 : Z * Z) : Prop :=
  fst e1 = fst e2 /\ forall x, res1 (snd e1) = Some x -> exists y, res2 (snd e2) = Some y /\ R x y.

Lemma play_tab_refine {X Y} (res1 : Z -> option X) (res2 : Z -> option Y) R t1 t2 :
  Forall2 (entry_rel res1 res2 R) t1 t2 ->
  forall xs, play_tab res1 t1 = Some xs -> exists ys, play_tab res2 t2 = Some ys /\ Forall2 R xs ys.
Proof.
  induction 1 as [|[r1 i1] [r2 i2] t1 t2 [Hr Hres] _ IH]; intros xs H; cbn [play_tab] in *.
  - injection H as <-. exists []. split; [reflexivity|constructor].
  - cbn [fst snd] in *. subst r2. destruct (res1 i1) as [x|] eqn:E1; [|discriminate].
    destruct (play_tab res1 t1) as [rest|]; [|discriminate]. injection H as <-.
    destruct (Hres _ eq_refl) as (y & -> & Rxy). destruct (IH _ eq_refl) as (ys & -> & HF).
    eexists. split; [reflexivity|]. apply Forall2_app; [now apply Forall2_repeat|exact HF].
Qed.

Lemma play_adv_g_refine {X Y} (res1 : Z -> option X) (res2 : Z -> option Y) R seqs1 seqs2 :
  Forall2 (Forall2 (entry_rel res1 res2 R)) seqs1 seqs2 ->
  forall adv xs, play_adv_g res1 seqs1 adv = Some xs ->
  exists ys, play_adv_g res2 seqs2 adv = Some ys /\ Forall2 R xs ys.
Proof.
  intros HS. induction adv as [|[r n] adv IH]; intros xs H; cbn [play_adv_g] in *.
  - injection H as <-. exists []. split; [reflexivity|constructor].
  - destruct (nth_z seqs1 (n - 1)) as [t1|] eqn:E1; [|discriminate].
    destruct (play_adv_g res1 seqs1 adv) as [rest|]; [|discriminate].
    destruct (play_tab res1 t1) as [once|] eqn:Et; [|discriminate]. injection H as <-.
    destruct (nth_z_Forall2 _ _ _ HS _ _ E1) as (t2 & -> & Ht).
    destruct (IH _ eq_refl) as (ys & -> & HF).
    destruct (play_tab_refine _ _ _ _ _ Ht _ Et) as (once2 & -> & HF2).
    eexists. split; [reflexivity|]. apply Forall2_app; [now apply Forall2_rep_concat|exact HF].
Qed.

(* what is uploaded for a waveform: its sampled binary; the length was checked *)
Definition seg_rel (c : cfg) (wd : wfdata) (b : list Z) : Prop :=
  sample_segment c wd = Ok b /\ 0 < wf_n wd /\ wf_n wd mod 16 = 0.

Lemma lengths_checked : forall wds ns,
  Forall2 (fun wd n => waveform_length (wf_len wd) = Ok n) wds ns ->
  existsb (fun n => (n mod 16 >? 0) || (n <? 192)) ns = false ->
  forallb (fun wn : wfdata * Z => wf_n (fst wn) =? snd wn) (combine wds ns) = true ->
  Forall (fun wd => 0 < wf_n wd /\ wf_n wd mod 16 = 0) wds.
Proof.
  induction 1 as [|wd n wds ns _ _ IH]; intros E3 E4; [constructor|].
  cbn [existsb combine forallb fst snd] in *. apply orb_false_iff in E3 as [E3a E3b].
  apply andb_prop in E4 as [E4a E4b]. constructor; [|auto].
  apply orb_false_iff in E3a as [Ea Eb]. apply Z.eqb_eq in E4a. rewrite E4a.
  pose proof (Z.mod_pos_bound n 16 ltac:(lia)). lia.
Qed.

Lemma calc_segments_plays c tbl p advd o wds :
  calc_segments c tbl p advd = Ok o ->
  play_adv_g (wd_of tbl (p_wfs p)) (p_seqs p) (p_adv p) = Some wds ->
  (exists bl, play_adv (o_segs o) (o_seqs o) (o_adv o) = Some bl /\ Forall2 (seg_rel c) wds bl) /\
  (exists wd b, sample_segment c wd = Ok b).
Proof.
  unfold calc_segments. destruct (p_wfs p) as [|kw0 kws] eqn:Ew; [discriminate|]. rewrite <- Ew.
  unfold bind. destruct (map_res _ (p_wfs p)) as [wds'|] eqn:E1; [|discriminate].
  destruct (map_res (fun wd => waveform_length (wf_len wd)) wds') as [ns|] eqn:E2; [|discriminate].
  destruct (existsb _ ns) eqn:E3; [discriminate|].
  destruct (negb (forallb _ (combine wds' ns))) eqn:E4; [discriminate|]. apply negb_false_iff in E4.
  destruct (map_res (sample_segment c) wds') as [bins|] eqn:E5; [|discriminate].
  destruct (dedup_segments bins [] []) as [segs w2s] eqn:E6.
  destruct (map_res _ (p_seqs p)) as [seqs|] eqn:E7; [|discriminate].
  intros H Hp. injection H as <-. cbn [o_segs o_seqs o_adv].
  apply map_res_Forall2 in E1, E2, E5, E7.
  pose proof (lengths_checked _ _ E2 E3 E4) as HL.
  destruct (dedup_segments_ok _ _ _ _ _ E6) as (_ & we & Hwe & HD). cbn [app] in Hwe. subst we.
  (* known ~ wds' ~ bins ~ w2s *)
  pose proof (Forall2_compose _ _ _ _ (Forall2_Forall_l _ _ _ _ HL E5) _ HD) as H2. cbn beta in H2.
  pose proof (Forall2_compose _ _ _ _ E1 _ H2) as H3. cbn beta in H3.
  split.
  - rewrite play_adv_gen.
    apply (play_adv_g_refine (wd_of tbl (p_wfs p)) (nth_z segs) (seg_rel c) (p_seqs p) seqs); [|exact Hp].
    clear - E7 H3. induction E7 as [|t t' l l' Ht _ IH]; constructor; [|exact IH].
    apply map_res_Forall2 in Ht. clear - Ht H3. induction Ht as [|e e' t t' He _ IH]; constructor; [|exact IH].
    destruct (nth_z w2s (snd e)) as [s|] eqn:Es; [|discriminate]. injection He as <-.
    split; [reflexivity|]. cbn [snd]. intros wd Hwd. unfold wd_of in Hwd.
    destruct (nth_z (p_wfs p) (snd e)) as [kw|] eqn:Ek; [|discriminate].
    destruct (nth_z_Forall2 _ _ _ H3 _ _ Ek) as (s' & Hs' & wd' & Hkw & b & ((Hn & Hs) & Hb)).
    rewrite Es in Hs'. injection Hs' as <-.
    destruct (nth_error tbl (snd kw)) as [wd''|]; [|discriminate]. injection Hwd as ->. injection Hkw as <-.
    exists b. split; [exact Hb|]. unfold seg_rel. tauto.
  - rewrite Ew in E1. inversion E1; subst. inversion E5; subst. eauto.
Qed.
