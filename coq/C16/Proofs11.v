(* C16 — proofs, part 11 (round 6): piece lengths WITHIN THE TOLERANCE of get_waveform_length.
   The compiler model looks at the exact length of a waveform only through `waveform_length`, and that function gives the
   same answer for a length within the tolerance of wf_n and for wf_n itself (`snap`).  So the compiler model is
   invariant under `map snap` of the table and C16_plays carries over to tables whose lengths are a hair beside an
   integer: what is played is the specification of the pieces taken as wf_n samples (`Spec.spec_tol`). *)
From Coq Require Import ZArith QArith Qround Qabs List Bool Lia ZifyBool Lqa.
Require Import QV.C16.Model QV.C16.Spec QV.C16.Proofs QV.C16.Proofs2 QV.C16.Proofs3 QV.C16.Proofs4 QV.C16.Proofs5
  QV.C16.Proofs10.
Import ListNotations.
Open Scope Z_scope.

(* the nearest integer is unique away from the ties *)
Lemma rint_unique q n : (Qabs (q - inject_Z n) < 1 # 2)%Q -> rint q = n.
Proof.
  intros H. apply Qabs_Qlt_condition in H. destruct H as [Hl Hu].
  unfold rint. set (f := Qfloor q). set (r := (q - inject_Z f)%Q).
  pose proof (Qfloor_le q) as H1. pose proof (Qlt_floor q) as H2. fold f in H1, H2.
  rewrite inject_Z_plus in H2. change (inject_Z 1) with 1%Q in H2.
  assert (Zle : forall a b : Z, (inject_Z a < inject_Z b + 1)%Q -> a <= b).
  { intros a b Hab. assert (Hab' : (inject_Z a < inject_Z (b + 1))%Q) by (rewrite inject_Z_plus; exact Hab).
    rewrite <- Zlt_Qlt in Hab'. lia. }
  destruct (Qcompare r (1 # 2)) eqn:E.
  - exfalso. apply Qeq_alt in E. unfold r in E.
    assert (A : n <= f) by (apply Zle; lra). assert (B : f < n).
    { rewrite Zlt_Qlt. lra. }
    lia.
  - apply Qlt_alt in E. unfold r in E.
    assert (A : n <= f) by (apply Zle; lra). assert (B : f <= n) by (apply Zle; lra). lia.
  - apply Qgt_alt in E. unfold r in E.
    assert (A : n <= f + 1) by (apply Zle; rewrite inject_Z_plus; change (inject_Z 1) with 1%Q; lra).
    assert (B : f < n).
    { rewrite Zlt_Qlt. lra. }
    lia.
Qed.

Lemma tolerance_small : (tolerance < 1 # 2)%Q.
Proof. reflexivity. Qed.

Lemma tolerance_nonneg : (0 <= tolerance)%Q.
Proof. discriminate. Qed.

(* get_waveform_length does not distinguish a length within the tolerance of n from n *)
Lemma waveform_length_near len n : (Qabs (len - inject_Z n) <= tolerance)%Q ->
  waveform_length len = waveform_length (inject_Z n).
Proof.
  intros H. unfold waveform_length.
  assert (R1 : rint len = n) by (apply rint_unique; pose proof tolerance_small; lra).
  assert (R2 : rint (inject_Z n) = n).
  { apply rint_unique. setoid_replace (inject_Z n - inject_Z n)%Q with 0%Q by ring. reflexivity. }
  rewrite R1, R2.
  assert (T1 : Qle_bool (Qabs (len - inject_Z n)) tolerance = true) by (apply Qle_bool_iff; exact H).
  assert (T2 : Qle_bool (Qabs (inject_Z n - inject_Z n)) tolerance = true).
  { apply Qle_bool_iff. setoid_replace (inject_Z n - inject_Z n)%Q with 0%Q by ring. exact tolerance_nonneg. }
  rewrite T1, T2. reflexivity.
Qed.

Lemma waveform_length_snap wd : waveform_length (wf_len (snap wd)) = waveform_length (wf_len wd).
Proof.
  unfold snap. destruct (Qle_bool (Qabs (wf_len wd - inject_Z (wf_n wd))) tolerance) eqn:E; [|reflexivity].
  cbn [wf_len]. symmetry. apply waveform_length_near. now apply Qle_bool_iff.
Qed.

Lemma wf_cls_snap wd : wf_cls (snap wd) = wf_cls wd.
Proof. unfold snap. destruct (Qle_bool _ _); reflexivity. Qed.
Lemma wf_n_snap wd : wf_n (snap wd) = wf_n wd.
Proof. unfold snap. destruct (Qle_bool _ _); reflexivity. Qed.
Lemma wf_data_snap wd : wf_data (snap wd) = wf_data wd.
Proof. unfold snap. destruct (Qle_bool _ _); reflexivity. Qed.

Lemma sample_segment_snap c wd : sample_segment c (snap wd) = sample_segment c wd.
Proof.
  unfold sample_segment, channel_data, marker_data. rewrite !wf_n_snap, !wf_data_snap. reflexivity.
Qed.

Lemma nth_error_snap tbl w : nth_error (map snap tbl) w = option_map snap (nth_error tbl w).
Proof. apply nth_error_map. Qed.

Lemma cls_of_snap tbl w : cls_of (map snap tbl) w = cls_of tbl w.
Proof. unfold cls_of. rewrite nth_error_snap. destruct (nth_error tbl w); cbn [option_map]; [now rewrite wf_cls_snap|reflexivity]. Qed.

Lemma parse_table_snap tbl : forall ch known, parse_table (map snap tbl) ch known = parse_table tbl ch known.
Proof.
  induction ch as [|x r IH]; intros known; [reflexivity|]. cbn [parse_table].
  destruct (l_wf x) as [w|]; [|reflexivity]. rewrite cls_of_snap.
  destruct (cls_of tbl w) as [k|]; [|reflexivity].
  destruct (setdefault wf_key_eqb (k, w) known) as [idx known']. rewrite IH. reflexivity.
Qed.

Lemma parse_aseq_loop_snap tbl : forall tables adv seqs known,
  parse_aseq_loop (map snap tbl) tables adv seqs known = parse_aseq_loop tbl tables adv seqs known.
Proof.
  induction tables as [|t r IH]; intros adv seqs known; [reflexivity|]. cbn [parse_aseq_loop].
  rewrite parse_table_snap. destruct (parse_table tbl (l_ch t) known) as [[es known']|e]; [|reflexivity].
  cbn [bind]. destruct (setdefault tkey_eqb (es, map l_volp (l_ch t)) seqs) as [sidx seqs']. apply IH.
Qed.

Lemma map_res_lookup_snap tbl (kws : list (Z * nat)) :
  map_res (fun kw => match nth_error (map snap tbl) (snd kw) with Some wd => Ok wd | None => Err EBadInput end) kws
  = match map_res (fun kw => match nth_error tbl (snd kw) with Some wd => Ok wd | None => Err EBadInput end) kws with
    | Ok wds => Ok (map snap wds)
    | Err e => Err e
    end.
Proof.
  induction kws as [|kw r IH]; [reflexivity|]. cbn [map_res]. rewrite nth_error_snap.
  destruct (nth_error tbl (snd kw)) as [wd|]; cbn [option_map bind]; [|reflexivity].
  rewrite IH. clear IH.
  destruct (map_res (fun kw0 : Z * nat => match nth_error tbl (snd kw0) with Some wd0 => Ok wd0 | None => Err EBadInput end) r);
    reflexivity.
Qed.

Lemma forallb_ext' {A} (f g : A -> bool) l : (forall x, f x = g x) -> forallb f l = forallb g l.
Proof. intros H. induction l as [|x r IH]; [reflexivity|]. cbn [forallb]. now rewrite H, IH. Qed.

Lemma calc_segments_snap c tbl p adv : calc_segments c (map snap tbl) p adv = calc_segments c tbl p adv.
Proof.
  unfold calc_segments. destruct (p_wfs p) as [|kw kws] eqn:Ep; [reflexivity|].
  rewrite map_res_lookup_snap.
  destruct (map_res _ (kw :: kws)) as [wds|e]; cbn [bind]; [|reflexivity].
  rewrite map_res_map.
  rewrite (map_res_ext _ (fun wd => waveform_length (wf_len wd)) wds waveform_length_snap).
  destruct (map_res (fun wd => waveform_length (wf_len wd)) wds) as [ns|e]; cbn [bind]; [|reflexivity].
  rewrite combine_map_l, forallb_map'. cbn [fst snd].
  rewrite (forallb_ext' (fun x : wfdata * Z => wf_n (snap (fst x)) =? snd x) (fun wn => wf_n (fst wn) =? snd wn) _)
    by (intros x; now rewrite wf_n_snap).
  rewrite map_res_map. rewrite (map_res_ext _ (sample_segment c) wds (sample_segment_snap c)).
  reflexivity.
Qed.

(* the compiler model never sees the difference *)
Lemma compile_with_snap ff pf c tbl prog : compile_with ff pf c (map snap tbl) prog = compile_with ff pf c tbl prog.
Proof.
  unfold compile_with, parse_single, parse_aseq.
  repeat (first
    [ reflexivity
    | apply calc_segments_snap
    | rewrite parse_table_snap
    | rewrite parse_aseq_loop_snap
    | match goal with
      | |- bind ?r _ = bind ?r _ => destruct r as [?|?]; cbn [bind]
      | |- (if ?b then _ else _) = (if ?b then _ else _) => destruct b
      | |- context [let '(_, _) := ?x in _] => destruct x
      end ]).
Qed.

Lemma restrict_snap c wd : restrict c (snap wd) = snap (restrict c wd).
Proof. unfold snap. cbn [restrict wf_len wf_n]. destruct (Qle_bool _ _); reflexivity. Qed.

(* every piece of the table is within the tolerance of its sample count *)
Definition len_tol (tbl : list wfdata) : Prop :=
  forall w d, nth_error tbl w = Some d -> (Qabs (wf_len d - inject_Z (wf_n d)) <= tolerance)%Q.

Lemma len_exact_tol tbl : len_exact tbl -> len_tol tbl.
Proof.
  intros H w d E. rewrite (H w d E). setoid_replace (inject_Z (wf_n d) - inject_Z (wf_n d))%Q with 0%Q by ring.
  exact tolerance_nonneg.
Qed.

Theorem compile_plays_tol c tbl prog o :
  good prog = true -> cls_inj_used c tbl -> len_tol tbl ->
  compile c tbl prog = Ok o ->
  exists s, spec_tol c tbl prog = Some s /\ expand o = Some s.
Proof.
  intros G H1 H2 E. unfold spec_tol.
  apply (compile_plays_used c (map snap tbl) prog o G).
  - intros w1 w2 d1 d2 E1 E2 Hc. rewrite nth_error_snap in E1, E2.
    destruct (nth_error tbl w1) as [x1|] eqn:N1; [|discriminate]. destruct (nth_error tbl w2) as [x2|] eqn:N2; [|discriminate].
    cbn in E1, E2. injection E1 as <-. injection E2 as <-. rewrite !wf_cls_snap in Hc.
    rewrite !restrict_snap. f_equal. apply (H1 w1 w2 x1 x2 N1 N2). exact Hc.
  - intros w d E1. rewrite nth_error_snap in E1. destruct (nth_error tbl w) as [x|] eqn:N; [|discriminate].
    cbn in E1. injection E1 as <-. unfold snap.
    replace (Qle_bool (Qabs (wf_len x - inject_Z (wf_n x))) tolerance) with true
      by (symmetry; apply Qle_bool_iff; exact (H2 w x N)).
    reflexivity.
  - unfold compile. rewrite compile_with_snap. exact E.
Qed.

(* on exact tables the two specifications are the same function *)
Lemma wf_at_snap tbl w : len_exact tbl -> wf_at (map snap tbl) w = option_map snap (wf_at tbl w).
Proof.
  intros HL. unfold wf_at. rewrite nth_error_snap. destruct (nth_error tbl w) as [wd|] eqn:N; cbn [option_map]; [|reflexivity].
  pose proof (HL w wd N) as Hq. apply Qeq_bool_iff in Hq. rewrite Hq. rewrite wf_n_snap.
  assert (Hs : Qeq_bool (wf_len (snap wd)) (inject_Z (wf_n wd)) = true).
  { apply Qeq_bool_iff. unfold snap. destruct (Qle_bool _ _); cbn [wf_len]; [reflexivity|now apply Qeq_bool_iff]. }
  rewrite Hs. destruct (0 <? wf_n wd); reflexivity.
Qed.

Lemma spec_tol_exact c tbl prog : len_exact tbl -> spec_tol c tbl prog = spec c tbl prog.
Proof.
  intros HL. unfold spec_tol, spec.
  assert (S : forall ch d w, src_samples (map snap tbl) ch d w = src_samples tbl ch d w).
  { intros ch d w. unfold src_samples. rewrite (wf_at_snap tbl w HL).
    destruct (wf_at tbl w) as [wd|]; cbn [option_map opt_bind]; [|reflexivity].
    rewrite wf_n_snap, wf_data_snap. reflexivity. }
  assert (St : forall ch d pl, src_stream (map snap tbl) ch d pl = src_stream tbl ch d pl).
  { intros ch d pl. unfold src_stream. f_equal. apply map_ext. intros w. apply S. }
  rewrite !St. reflexivity.
Qed.

(* a piece outside the tolerance has no specification: whatever plays it cannot satisfy check_spec *)
Lemma spec_tol_outside c tbl prog w wd :
  In w (flatten prog) -> nth_error tbl w = Some wd ->
  ~ (Qabs (wf_len wd - inject_Z (wf_n wd)) <= tolerance)%Q -> spec_tol c tbl prog = None.
Proof.
  intros Hin Hw Hout. unfold spec_tol, spec.
  assert (A : forall ch d, src_stream (map snap tbl) ch d (flatten prog) = None).
  { intros ch d. unfold src_stream. induction (flatten prog) as [|x pl IH]; [destruct Hin|].
    cbn [map opt_concat]. destruct Hin as [->|Hin].
    - unfold src_samples at 1, wf_at. rewrite nth_error_snap, Hw. cbn [option_map]. unfold snap.
      destruct (Qle_bool (Qabs (wf_len wd - inject_Z (wf_n wd))) tolerance) eqn:E.
      + exfalso. apply Hout. now apply Qle_bool_iff.
      + destruct (Qeq_bool (wf_len wd) (inject_Z (wf_n wd))) eqn:E2.
        * exfalso. apply Hout. apply Qeq_bool_iff in E2. rewrite E2.
          setoid_replace (inject_Z (wf_n wd) - inject_Z (wf_n wd))%Q with 0%Q by ring. exact tolerance_nonneg.
        * reflexivity.
    - rewrite (IH Hin). destruct (src_samples (map snap tbl) ch d x); reflexivity. }
  rewrite A. reflexivity.
Qed.

(* non-vacuity: the example table with every piece 2^-40 samples too long is not exact, within the tolerance, accepted *)
Definition ex_tbl_near : list wfdata :=
  map (fun wd => {| wf_cls := wf_cls wd; wf_len := (wf_len wd + (1 # 1099511627776))%Q; wf_n := wf_n wd;
                    wf_data := wf_data wd |}) ex_tbl.

Lemma ex_hyps_tol :
  good ex_prog = true /\ cls_inj_used (ex_cfg 3 5) ex_tbl_near /\ len_tol ex_tbl_near /\ ~ len_exact ex_tbl_near /\
  exists o, compile (ex_cfg 3 5) ex_tbl_near ex_prog = Ok o.
Proof.
  split; [reflexivity|]. split; [|split; [|split]].
  - intros [|[|w1]] [|[|w2]] d1 d2 H1 H2; unfold ex_tbl_near, ex_tbl in H1, H2;
      cbn [map nth_error] in H1, H2;
      try (destruct w1; discriminate H1); try (destruct w2; discriminate H2);
      injection H1 as <-; injection H2 as <-; cbn [wf_cls ex_wf]; intros Hc; try discriminate Hc; reflexivity.
  - intros [|[|w]] d H; unfold ex_tbl_near, ex_tbl in H; cbn [map nth_error] in H;
      try (destruct w; discriminate H); injection H as <-; apply Qle_bool_iff; reflexivity.
  - intros H. specialize (H 0%nat _ eq_refl). apply Qeq_bool_iff in H. vm_compute in H. discriminate H.
  - destruct (compile (ex_cfg 3 5) ex_tbl_near ex_prog) as [o|e] eqn:E.
    + exists o. reflexivity.
    + exfalso. revert E. vm_compute. discriminate.
Qed.
