(* C16 — the stateful use: TaborProgram restructures the Loop it is given IN PLACE, so a program that is compiled a
   second time (uploaded to a second channel pair, or again with other limits / another configuration) starts from the
   tree the first compilation left behind.  The specification depends on the played leaf sequence only, and the first
   compilation preserves it, so the second result plays the specification of the ORIGINAL program. *)
From Coq Require Import ZArith QArith List Bool Lia ZifyBool.
Require Import QV.C16.Model QV.C16.Spec QV.C16.Proofs QV.C16.Proofs2 QV.C16.Proofs3 QV.C16.Proofs4 QV.C16.Proofs5.
Import ListNotations.
Open Scope Z_scope.

Lemma spec_flatten c tbl p p' : flatten p = flatten p' -> spec c tbl p = spec c tbl p'.
Proof. unfold spec. intros ->. reflexivity. Qed.

Lemma good_restructured prog ch2 : good prog = true -> depth (root_of prog) >? 1 = true ->
  forallb tgood ch2 = true -> good (set_ch (root_of prog) ch2) = true.
Proof.
  intros G Hd T. destruct (root_of_ok prog G) as [Gr _].
  assert (Hne : l_ch (root_of prog) <> []) by (apply depth_pos_nonleaf; lia).
  destruct (root_of prog) as [r m w ch]. cbn [l_ch] in Hne. cbn [set_ch].
  apply good_inv in Gr as (Hr & Hw & _). apply good_intro; [exact Hr|intros _; now apply Hw|].
  apply forallb_forall. intros t Ht. eapply forallb_forall in T; [|exact Ht]. unfold tgood in T.
  now apply andb_prop in T as [T _].
Qed.

(* first compilation: advanced mode with limits (mn, mx), any fuel, reached the end of prepare (it may still have
   been rejected afterwards); second compilation: any configuration c', accepted *)
Theorem recompile_plays c' tbl prog f1 f2 mn mx ch1 ch2 o :
  good prog = true ->
  (forall w1 w2 d1 d2, nth_error tbl w1 = Some d1 -> nth_error tbl w2 = Some d2 -> wf_cls d1 = wf_cls d2 -> d1 = d2) ->
  (forall w d, nth_error tbl w = Some d -> (wf_len d == inject_Z (wf_n d))%Q) ->
  depth (root_of prog) >? 1 = true -> l_rep (root_of prog) =? 1 = true ->
  fab f1 2 [] (l_ch (root_of prog)) = Ok ch1 ->
  prep f2 mn mx [] ch1 = Ok ch2 ->
  compile c' tbl (set_ch (root_of prog) ch2) = Ok o ->
  exists s, spec c' tbl prog = Some s /\ expand o = Some s.
Proof.
  intros G H1 H2 Hd Hr Hf Hp Hc.
  destruct (restructure_preserves prog f1 f2 mn mx ch1 ch2 G Hd Hr Hf Hp) as (T & Hfl & _).
  pose proof (good_restructured prog ch2 G Hd T) as G'.
  destruct (compile_plays c' tbl _ o G' H1 H2 Hc) as (s & Hs & He).
  exists s. split; [|exact He]. rewrite <- Hs. now apply spec_flatten.
Qed.

(* non-vacuity: the example program, compiled with limits (3, 5), leaves a tree that is accepted again with (2, 8) *)
Lemma ex_recompile : exists ch1 ch2 o,
  depth (root_of ex_prog) >? 1 = true /\ l_rep (root_of ex_prog) =? 1 = true /\
  fab fab_fuel 2 [] (l_ch (root_of ex_prog)) = Ok ch1 /\ prep prep_fuel 3 5 [] ch1 = Ok ch2 /\
  compile (ex_cfg 2 8) ex_tbl (set_ch (root_of ex_prog) ch2) = Ok o.
Proof.
  eexists. eexists. eexists. split; [reflexivity|]. split; [reflexivity|].
  split; [vm_compute; reflexivity|]. split; [vm_compute; reflexivity|]. vm_compute. reflexivity.
Qed.
