(* C16 — the stateful use: TaborProgram restructures the Loop it is given IN PLACE, so a program that is compiled a
   second time (uploaded to a second channel pair, or again with other limits / another configuration) starts from the
   tree the first compilation left behind.  The specification depends on the played leaf sequence only, and the first
   compilation preserves it, so the second result plays the specification of the ORIGINAL program. *)
From Coq Require Import ZArith QArith List Bool Lia ZifyBool.
Require Import QV.C16.Model QV.C16.Spec QV.C16.Proofs QV.C16.Proofs2 QV.C16.Proofs3 QV.C16.Proofs4 QV.C16.Proofs5.
Import ListNotations.
Open Scope Z_scope.

Lemma spec_flatten c tbl p p' : flatten p = flatten p' -> spec c tbl p = spec c tbl p'.
Proof. unfold spec. intros ->. reflexivity. Qed.

Lemma good_restructured prog ch2 : good prog = true -> depth (root_of prog) >? 1 = true ->
  forallb tgood ch2 = true -> good (set_ch (root_of prog) ch2) = true.
Proof.
  intros G Hd T. destruct (root_of_ok prog G) as [Gr _].
  assert (Hne : l_ch (root_of prog) <> []) by (apply depth_pos_nonleaf; lia).
  destruct (root_of prog) as [r m w ch]. cbn [l_ch] in Hne. cbn [set_ch].
  apply good_inv in Gr as (Hr & Hw & _). apply good_intro; [exact Hr|intros _; now apply Hw|].
  apply forallb_forall. intros t Ht. eapply forallb_forall in T; [|exact Ht]. unfold tgood in T.
  now apply andb_prop in T as [T _].
Qed.

(* first compilation: advanced mode with limits (mn, mx), any fuel, reached the end of prepare (it may still have
   been rejected afterwards); second compilation: any configuration c', accepted *)
Theorem recompile_plays c' tbl prog f1 f2 mn mx ch1 ch2 o :
  good prog = true ->
  (forall w1 w2 d1 d2, nth_error tbl w1 = Some d1 -> nth_error tbl w2 = Some d2 -> wf_cls d1 = wf_cls d2 -> d1 = d2) ->
  (forall w d, nth_error tbl w = Some d -> (wf_len d == inject_Z (wf_n d))%Q) ->
  depth (root_of prog) >? 1 = true -> l_rep (root_of prog) =? 1 = true ->
  fab f1 2 [] (l_ch (root_of prog)) = Ok ch1 ->
  prep f2 mn mx [] ch1 = Ok ch2 ->
  compile c' tbl (set_ch (root_of prog) ch2) = Ok o ->
  exists s, spec c' tbl prog = Some s /\ expand o = Some s.
Proof.
  intros G H1 H2 Hd Hr Hf Hp Hc.
  destruct (restructure_preserves prog f1 f2 mn mx ch1 ch2 G Hd Hr Hf Hp) as (T & Hfl & _).
  pose proof (good_restructured prog ch2 G Hd T) as G'.
  destruct (compile_plays c' tbl _ o G' H1 H2 Hc) as (s & Hs & He).
  exists s. split; [|exact He]. rewrite <- Hs. now apply spec_flatten.
Qed.

(* non-vacuity: the example program, compiled with limits (3, 5), leaves a tree that is accepted again with (2, 8) *)
Lemma ex_recompile : exists ch1 ch2 o,
  depth (root_of ex_prog) >? 1 = true /\ l_rep (root_of ex_prog) =? 1 = true /\
  fab fab_fuel 2 [] (l_ch (root_of ex_prog)) = Ok ch1 /\ prep prep_fuel 3 5 [] ch1 = Ok ch2 /\
  compile (ex_cfg 2 8) ex_tbl (set_ch (root_of ex_prog) ch2) = Ok o.
Proof.
  eexists. eexists. eexists. split; [reflexivity|]. split; [reflexivity|].
  split; [vm_compute; reflexivity|]. split; [vm_compute; reflexivity|]. vm_compute. reflexivity.
Qed.

(* ---------------------------------------------------------------------------------------------------------------- *)
(* EVERY tree a first TaborProgram(...) can leave behind.  The real code changes the Loop in place: the root is
   encapsulated (root_of) unless the tuple-length checks fail first; flatten_and_balance runs to its end (it never
   raises); prepare works iteration by iteration on the root's children and raises only at the START of an iteration,
   before it changed anything in that iteration (or returns); the asserts, the parsers and the sampling that follow
   do not touch the tree.  So the tree left behind is the program itself, its encapsulated root, or the root over
   `rev before ++ after` of prepare's state after some number k of completed iterations. *)

Fixpoint prep_state (k : nat) (mn mx : Z) (before after : list loop) : list loop * list loop :=
  match k with
  | O => (before, after)
  | S k' =>
      match prep_step mn mx before after with
      | PNext b a => prep_state k' mn mx b a
      | _ => (before, after)
      end
  end.

Inductive left_behind (prog : loop) : loop -> Prop :=
| LB_self : left_behind prog prog
| LB_root : left_behind prog (root_of prog)
| LB_prep f1 ch1 k mn mx b a :
    depth (root_of prog) >? 1 = true -> l_rep (root_of prog) =? 1 = true ->
    fab f1 2 [] (l_ch (root_of prog)) = Ok ch1 ->
    prep_state k mn mx [] ch1 = (b, a) ->
    left_behind prog (set_ch (root_of prog) (rev b ++ a)).

Lemma prep_state_ok : forall k mn mx before after b a,
  forallb tgood before = true -> forallb tgood after = true ->
  prep_state k mn mx before after = (b, a) ->
  forallb tgood b = true /\ forallb tgood a = true /\ tables_flat b a = tables_flat before after.
Proof.
  induction k as [|k IH]; intros mn mx before after b a Gb Ga H; cbn [prep_state] in H.
  - injection H as <- <-. auto.
  - destruct (prep_step mn mx before after) as [b' a'|r|e] eqn:E; try (injection H as <- <-; auto).
    destruct (prep_step_ok _ _ _ _ _ _ Gb Ga E) as (G1 & G2 & F). rewrite <- F. eapply IH; eauto.
Qed.

Theorem left_behind_ok prog prog' : good prog = true -> left_behind prog prog' ->
  good prog' = true /\ flatten prog' = flatten prog.
Proof.
  intros G H. destruct H as [| |f1 ch1 k mn mx b a Hd Hr Hf Hs]; [auto|now apply root_of_ok|].
  destruct (root_of_ok _ G) as [G1 F1].
  assert (Hne : l_ch (root_of prog) <> []) by (apply depth_pos_nonleaf; lia).
  assert (T : forallb tgood (rev b ++ a) = true /\ flat_list (rev b ++ a) = flat_list (l_ch (root_of prog))).
  { destruct (root_of prog) as [r m w ch] eqn:E. cbn [l_ch] in *.
    pose proof (good_inv _ _ _ _ G1) as (_ & _ & Hch).
    pose proof (fab_ok f1 2 [] ch ch1 eq_refl Hch Hf) as [Gc1 Fc1]. cbn in Fc1.
    pose proof (fab_nonleaf f1 2 [] ch ch1 ltac:(lia) eq_refl Hf) as Nc1.
    assert (Tc1 : forallb tgood ch1 = true).
    { apply forallb_forall. intros t Ht. apply good_nonleaf_tgood.
      - eapply forallb_forall in Gc1; eauto.
      - eapply forallb_forall in Nc1; eauto. }
    destruct (prep_state_ok k mn mx [] ch1 b a eq_refl Tc1 Hs) as (Tb & Ta & F).
    split; [now rewrite forallb_app, forallb_rev', Tb, Ta|].
    rewrite flat_list_app. unfold tables_flat in F. cbn in F. now rewrite F, Fc1. }
  destruct T as [T F]. split; [now apply good_restructured|].
  rewrite <- F1. destruct (root_of prog) as [r m w ch] eqn:E. cbn [l_ch l_rep set_ch] in *.
  pose proof (good_inv _ _ _ _ G1) as (_ & Hw & _). rewrite (Hw Hne). now rewrite !tflatten, F.
Qed.

(* whatever the first compilation did, the second one (any configuration), if it accepts, plays the original program *)
Theorem recompile_plays_any c' tbl prog prog' o :
  good prog = true ->
  (forall w1 w2 d1 d2, nth_error tbl w1 = Some d1 -> nth_error tbl w2 = Some d2 -> wf_cls d1 = wf_cls d2 -> d1 = d2) ->
  (forall w d, nth_error tbl w = Some d -> (wf_len d == inject_Z (wf_n d))%Q) ->
  left_behind prog prog' ->
  compile c' tbl prog' = Ok o ->
  exists s, spec c' tbl prog = Some s /\ expand o = Some s.
Proof.
  intros G H1 H2 HL Hc. destruct (left_behind_ok prog prog' G HL) as [G' F].
  destruct (compile_plays c' tbl prog' o G' H1 H2 Hc) as (s & Hs & He).
  exists s. split; [|exact He]. rewrite <- Hs. symmetry. now apply spec_flatten.
Qed.

(* the model of the in-place effect (Model.tree_after_with, compared with the tree read back from the real Loop object
   in the `compiled_twice` cases) only ever produces `left_behind` trees *)
Lemma prep_last_state : forall k mn mx before after,
  prep_last k mn mx before after = rev (fst (prep_state k mn mx before after)) ++ snd (prep_state k mn mx before after).
Proof.
  induction k as [|k IH]; intros mn mx before after; cbn [prep_last prep_state]; [reflexivity|].
  destruct (prep_step mn mx before after); [apply IH|reflexivity|reflexivity].
Qed.

Theorem tree_after_left_behind ff pf c prog : left_behind prog (tree_after_with ff pf c prog).
Proof.
  unfold tree_after_with. fold (root_of prog).
  destruct (negb (c_nchan c =? c_cpp c)); [constructor|].
  destruct (negb (c_nmark c =? c_cpp c)); [constructor|].
  destruct (negb (c_nchan c =? 2)); [constructor|].
  destruct (negb (match c_mode c with Some m => m | None => depth (root_of prog) >? 1 end)); [constructor|].
  destruct (depth (root_of prog) >? 1) eqn:Hd; cbn [negb]; [|constructor].
  destruct (l_rep (root_of prog) =? 1) eqn:Hr; cbn [negb]; [|constructor].
  destruct (fab ff 2 [] (l_ch (root_of prog))) as [ch1|e] eqn:Ef; [|constructor].
  rewrite prep_last_state.
  destruct (prep_state pf (c_min c) (c_max c) [] ch1) as [b a] eqn:Es. cbn [fst snd].
  eapply LB_prep; eauto.
Qed.

Corollary tree_after_ok c prog : good prog = true ->
  good (tree_after c prog) = true /\ flatten (tree_after c prog) = flatten prog.
Proof. intros G. apply left_behind_ok; [exact G|apply tree_after_left_behind]. Qed.
