(* C16 — proofs *)
From Coq Require Import ZArith QArith List Bool Lia.
Require Import QV.C16.Model QV.C16.Spec.
Import ListNotations.

Lemma reject_no_tables : forall c tbl p e, compile c tbl p = Err e -> forall o, compile c tbl p <> Ok o.
Proof. intros c tbl p e H o H'. rewrite H in H'. discriminate. Qed.
