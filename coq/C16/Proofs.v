(* C16 — proofs, part 1: the tree rewrites preserve what is played *)
From Coq Require Import ZArith QArith List Bool Lia ZifyBool.
Require Import QV.C16.Model QV.C16.Spec.
Import ListNotations.
Open Scope Z_scope.

Lemma reject_no_tables : forall c tbl p e, compile c tbl p = Err e -> forall o, compile c tbl p <> Ok o.
Proof. intros c tbl p e H o H'. rewrite H in H'. discriminate. Qed.

(* ---------------------------------------------------------------------------------------------------------- *)
(* rep_concat algebra *)

Definition flat_list (l : list loop) : list nat := concat (map flatten l).

Lemma flat_list_app a b : flat_list (a ++ b) = flat_list a ++ flat_list b.
Proof. unfold flat_list. now rewrite map_app, concat_app. Qed.

Lemma flat_list_cons x l : flat_list (x :: l) = flatten x ++ flat_list l.
Proof. reflexivity. Qed.

Lemma flat_list_rev_cons x l : flat_list (rev (x :: l)) = flat_list (rev l) ++ flatten x.
Proof. cbn [rev]. rewrite flat_list_app. cbn. now rewrite app_nil_r. Qed.

Lemma repn_concat_app {A} n (x : list A) : concat (repeat x (S n)) = x ++ concat (repeat x n).
Proof. reflexivity. Qed.

Lemma repn_concat_snoc {A} n (x : list A) : concat (repeat x (S n)) = concat (repeat x n) ++ x.
Proof.
  induction n; [cbn; now rewrite app_nil_r|].
  change (concat (repeat x (S (S n)))) with (x ++ concat (repeat x (S n))).
  rewrite IHn at 1. change (concat (repeat x (S n))) with (x ++ concat (repeat x n)). now rewrite app_assoc.
Qed.

Lemma repn_concat_add {A} n m (x : list A) :
  concat (repeat x (n + m)) = concat (repeat x n) ++ concat (repeat x m).
Proof. induction n; cbn; [reflexivity|]. now rewrite IHn, app_assoc. Qed.

Lemma repn_concat_mul {A} n m (x : list A) :
  concat (repeat x (n * m)) = concat (repeat (concat (repeat x m)) n).
Proof. induction n; cbn; [reflexivity|]. now rewrite repn_concat_add, IHn. Qed.

Lemma rep_concat_1 {A} (x : list A) : rep_concat 1 x = x.
Proof. unfold rep_concat. change (Z.to_nat 1) with 1%nat. cbn. now rewrite app_nil_r. Qed.

Lemma rep_concat_mul {A} a b (x : list A) : 0 <= a -> 0 <= b ->
  rep_concat (a * b) x = rep_concat a (rep_concat b x).
Proof. intros. unfold rep_concat. rewrite Z2Nat.inj_mul by lia. apply repn_concat_mul. Qed.

Lemma rep_concat_succ_l {A} n (x : list A) : 1 <= n -> rep_concat n x = x ++ rep_concat (n - 1) x.
Proof.
  intros. unfold rep_concat. replace (Z.to_nat n) with (S (Z.to_nat (n - 1))) by lia. apply repn_concat_app.
Qed.

Lemma rep_concat_succ_r {A} n (x : list A) : 1 <= n -> rep_concat n x = rep_concat (n - 1) x ++ x.
Proof.
  intros. unfold rep_concat. replace (Z.to_nat n) with (S (Z.to_nat (n - 1))) by lia. apply repn_concat_snoc.
Qed.

Lemma flat_list_rep_concat n l : flat_list (rep_concat n l) = rep_concat n (flat_list l).
Proof.
  unfold rep_concat. induction (Z.to_nat n) as [|k IHk]; [reflexivity|].
  now rewrite !repn_concat_app, flat_list_app, IHk.
Qed.

Lemma forallb_rep_concat {A} (p : A -> bool) n l : forallb p l = true -> forallb p (rep_concat n l) = true.
Proof.
  intros H. unfold rep_concat. induction (Z.to_nat n) as [|k IHk]; [reflexivity|].
  now rewrite repn_concat_app, forallb_app, H, IHk.
Qed.

Lemma forallb_rev' {A} (p : A -> bool) l : forallb p (rev l) = forallb p l.
Proof.
  induction l; cbn; [reflexivity|]. rewrite forallb_app, IHl. cbn. rewrite andb_true_r. apply andb_comm.
Qed.

(* ---------------------------------------------------------------------------------------------------------- *)
(* good trees *)

Lemma good_inv r m w ch : good (Loop r m w ch) = true ->
  0 <= r /\ (ch <> [] -> w = None) /\ forallb good ch = true.
Proof.
  cbn. intros H. apply andb_prop in H as [H H3]. apply andb_prop in H as [H1 H2].
  repeat split; [lia| |exact H3]. intros Hne. destruct ch; [congruence|]. now destruct w.
Qed.

Lemma good_intro r m w ch : 0 <= r -> (ch <> [] -> w = None) -> forallb good ch = true ->
  good (Loop r m w ch) = true.
Proof.
  intros H1 H2 H3. cbn. rewrite H3. replace (0 <=? r) with true by lia.
  destruct ch; [reflexivity|]. rewrite H2 by congruence. reflexivity.
Qed.

Lemma flatten_node r m w ch : good (Loop r m w ch) = true -> ch <> [] ->
  flatten (Loop r m w ch) = rep_concat r (flat_list ch).
Proof. intros G Hne. apply good_inv in G as (_ & Hw & _). rewrite (Hw Hne). reflexivity. Qed.

Lemma leaf_depth l : is_leaf l = true -> depth l = 0.
Proof. destruct l as [r m w [|c ch]]; cbn; [reflexivity|discriminate]. Qed.

Lemma balanced_leaf l : is_leaf l = true -> balanced l = true.
Proof. destruct l as [r m w [|c ch]]; cbn; [reflexivity|discriminate]. Qed.

(* ---------------------------------------------------------------------------------------------------------- *)
(* flatten_and_balance preserves what is played (for every fuel, depth, cursor position) *)

Lemma encapsulate_ok l : good l = true -> good (encapsulate l) = true /\ flatten (encapsulate l) = flatten l.
Proof.
  intros G. split.
  - unfold encapsulate. cbn. now rewrite G.
  - unfold encapsulate. cbn [flatten wpart map concat app]. now rewrite rep_concat_1, app_nil_r.
Qed.

Lemma merge_child_ok l : good l = true -> can_merge l = true ->
  good (merge_child l) = true /\ flatten (merge_child l) = flatten l.
Proof.
  destruct l as [r m w ch]. unfold can_merge. cbn [l_ch].
  destruct ch as [|c [|c2 ch]]; try discriminate. intros G _.
  pose proof (good_inv _ _ _ _ G) as (Hr & Hw & Hch). rewrite Hw by congruence.
  cbn in Hch. rewrite andb_true_r in Hch. destruct c as [cr cm cw cch].
  pose proof (good_inv _ _ _ _ Hch) as (Hcr & Hcw & Hcch).
  split.
  - cbn [merge_child]. apply good_intro; auto. lia.
  - cbn [merge_child flatten wpart map concat app]. rewrite app_nil_r.
    now rewrite rep_concat_mul by lia.
Qed.

Lemma unroll_ok l : good l = true -> is_leaf l = false ->
  forallb good (unroll l) = true /\ flat_list (unroll l) = flatten l.
Proof.
  destruct l as [r m w ch]. intros G NL. unfold unroll. cbn [l_rep l_ch].
  pose proof (good_inv _ _ _ _ G) as (Hr & Hw & Hch).
  split; [now apply forallb_rep_concat|].
  rewrite flat_list_rep_concat. rewrite flatten_node; auto. destruct ch; [discriminate|congruence].
Qed.

Lemma fab_ok : forall fuel d done todo r,
  forallb good done = true -> forallb good todo = true ->
  fab fuel d done todo = Ok r ->
  forallb good r = true /\ flat_list r = flat_list (rev done) ++ flat_list todo.
Proof.
  induction fuel as [|f IH]; intros d done todo r Gd Gt H; [discriminate|].
  cbn [fab] in H. destruct todo as [|sub rest].
  - injection H as <-. split; [now rewrite forallb_rev'|]. cbn. now rewrite app_nil_r.
  - cbn [forallb] in Gt. apply andb_prop in Gt as [Gs Gr].
    destruct (depth sub <? d - 1).
    { (* encapsulate *)
      destruct (encapsulate_ok _ Gs) as [G' F'].
      apply IH in H; [|assumption|cbn [forallb]; now rewrite G', Gr].
      destruct H as [H1 H2]. split; [assumption|]. rewrite H2, !flat_list_cons, F'. reflexivity. }
    destruct (negb (balanced sub)) eqn:Eb.
    { (* recursive call on the children of sub *)
      destruct sub as [sr sm sw sch].
      destruct (fab f (d - 1) [] sch) as [ch'|e] eqn:Erec; [|discriminate].
      pose proof (good_inv _ _ _ _ Gs) as (Hr & Hw & Hch).
      apply IH in Erec; [|reflexivity|assumption]. destruct Erec as [Gch' Fch']. cbn in Fch'.
      assert (Hne : sch <> []).
      { intros ->. cbn in Eb. discriminate. }
      assert (G' : good (Loop sr sm sw ch') = true).
      { apply good_intro; auto. }
      apply IH in H; [|assumption|cbn [forallb]; now rewrite G', Gr].
      destruct H as [H1 H2]. split; [assumption|]. rewrite H2, !flat_list_cons. f_equal. f_equal.
      rewrite (Hw Hne). cbn [flatten wpart app]. fold (flat_list ch'). fold (flat_list sch). now rewrite Fch'. }
    destruct (depth sub =? d - 1).
    { apply IH in H; [|cbn [forallb]; now rewrite Gs, Gd|assumption].
      destruct H as [H1 H2]. split; [assumption|]. rewrite H2, flat_list_rev_cons, flat_list_cons.
      now rewrite app_assoc. }
    destruct (can_merge sub) eqn:Ec.
    { destruct (merge_child_ok _ Gs Ec) as [G' F'].
      apply IH in H; [|assumption|cbn [forallb]; now rewrite G', Gr].
      destruct H as [H1 H2]. split; [assumption|]. rewrite H2, !flat_list_cons, F'. reflexivity. }
    destruct (negb (is_leaf sub)) eqn:El.
    { apply negb_true_iff in El. destruct (unroll_ok _ Gs El) as [G' F'].
      apply IH in H; [|assumption|now rewrite forallb_app, G', Gr].
      destruct H as [H1 H2]. split; [assumption|]. rewrite H2, flat_list_app, flat_list_cons, F'. reflexivity. }
    apply IH in H; [|cbn [forallb]; now rewrite Gs, Gd|assumption].
    destruct H as [H1 H2]. split; [assumption|]. rewrite H2, flat_list_rev_cons, flat_list_cons.
    now rewrite app_assoc.
Qed.

Definition nonleaf (l : loop) : bool := negb (is_leaf l).

Lemma fab_nonleaf : forall fuel d done todo r, 2 <= d ->
  forallb nonleaf done = true -> fab fuel d done todo = Ok r -> forallb nonleaf r = true.
Proof.
  induction fuel as [|f IH]; intros d done todo r Hd Nd H; [discriminate|].
  cbn [fab] in H. destruct todo as [|sub rest].
  - injection H as <-. now rewrite forallb_rev'.
  - destruct (depth sub <? d - 1) eqn:E1; [eapply IH; eauto|].
    destruct (negb (balanced sub)).
    { destruct sub as [sr sm sw sch]. destruct (fab f (d - 1) [] sch); [|discriminate]. eapply IH; eauto. }
    destruct (depth sub =? d - 1) eqn:E3.
    { eapply IH; [exact Hd| |exact H]. cbn [forallb]. rewrite Nd, andb_true_r.
      unfold nonleaf. destruct (is_leaf sub) eqn:El; [|reflexivity]. apply leaf_depth in El. lia. }
    destruct (can_merge sub); [eapply IH; eauto|].
    destruct (negb (is_leaf sub)) eqn:El; [eapply IH; eauto|].
    apply negb_false_iff in El. apply leaf_depth in El. lia.
Qed.

(* ---------------------------------------------------------------------------------------------------------- *)
(* prepare_program_for_advanced_sequence_mode preserves what is played *)

(* a sequence table: a good node without a waveform of its own *)
Definition tgood (t : loop) : bool := good t && match l_wf t with None => true | Some _ => false end.

Lemma tgood_inv t : tgood t = true ->
  exists r m ch, t = Loop r m None ch /\ 0 <= r /\ forallb good ch = true.
Proof.
  unfold tgood. intros H. apply andb_prop in H as [G W]. destruct t as [r m [w|] ch]; [discriminate|].
  apply good_inv in G as (Hr & _ & Hch). now exists r, m, ch.
Qed.

Lemma tgood_intro r m ch : 0 <= r -> forallb good ch = true -> tgood (Loop r m None ch) = true.
Proof. intros. unfold tgood. cbn [l_wf]. rewrite andb_true_r. apply good_intro; auto. Qed.

Lemma tflatten r m ch : flatten (Loop r m None ch) = rep_concat r (flat_list ch).
Proof. reflexivity. Qed.

Lemma good_nonleaf_tgood t : good t = true -> nonleaf t = true -> tgood t = true.
Proof.
  intros G N. unfold tgood. rewrite G. destruct t as [r m w ch]. apply good_inv in G as (_ & Hw & _).
  unfold nonleaf in N. cbn in N. destruct ch; [discriminate|]. now rewrite Hw by congruence.
Qed.

Lemma good_set_rep c r : good c = true -> 0 <= r -> good (set_rep c r) = true.
Proof.
  destruct c as [r0 m w ch]. intros G Hr. apply good_inv in G as (_ & Hw & Hch). now apply good_intro.
Qed.

Lemma flatten_set_rep c r : flatten (set_rep c r) = rep_concat r (wpart (l_wf c) ++ flat_list (l_ch c)).
Proof. destruct c; reflexivity. Qed.

Lemma flatten_as_rep c : flatten c = rep_concat (l_rep c) (wpart (l_wf c) ++ flat_list (l_ch c)).
Proof. destruct c; reflexivity. Qed.

Lemma split_last_p_ok p : forall l l', forallb good l = true -> split_last_p p l = Some l' ->
  forallb good l' = true /\ flat_list l' = flat_list l /\ length l' = S (length l).
Proof.
  induction l as [|c t IH]; intros l' G H; [discriminate|].
  cbn [forallb] in G. apply andb_prop in G as [Gc Gt]. cbn [split_last_p] in H.
  destruct (split_last_p p t) as [t'|] eqn:E.
  - injection H as <-. destruct (IH _ Gt eq_refl) as (G' & F' & L').
    repeat split; [cbn [forallb]; now rewrite Gc, G'|now rewrite !flat_list_cons, F'|cbn; now rewrite L'].
  - destruct ((l_rep c >? 1) && p c) eqn:Er; [|discriminate]. injection H as <-.
    split; [|split].
    + cbn [forallb]. rewrite !good_set_rep, Gt by (auto; lia). reflexivity.
    + rewrite !flat_list_cons, !flatten_set_rep, (flatten_as_rep c), rep_concat_1.
      rewrite (rep_concat_succ_r (l_rep c)) by lia. now rewrite app_assoc.
    + reflexivity.
Qed.

Lemma split_last_ok : forall l l', forallb good l = true -> split_last l = Some l' ->
  forallb good l' = true /\ flat_list l' = flat_list l /\ length l' = S (length l).
Proof.
  intros l l' G H. unfold split_last in H.
  destruct (split_last_p (fun c => negb (l_vol c)) l) as [l1|] eqn:E.
  - injection H as <-. eapply split_last_p_ok; eauto.
  - eapply split_last_p_ok; eauto.
Qed.

Lemma split_until_ok : forall k mn st st', tgood st = true -> split_until k mn st = Ok st' ->
  tgood st' = true /\ flatten st' = flatten st /\ l_rep st' = l_rep st.
Proof.
  induction k as [|k IH]; intros mn st st' G H; cbn [split_until] in H.
  - destruct (l_len st <? mn); [discriminate|]. injection H as <-. auto.
  - destruct (l_len st <? mn); [|injection H as <-; auto].
    destruct (split_last (l_ch st)) as [ch'|] eqn:E; [|discriminate].
    destruct (tgood_inv _ G) as (r & m & ch & -> & Hr & Hch). cbn [l_ch] in E.
    destruct (split_last_ok _ _ Hch E) as (G' & F' & _).
    apply IH in H; [|cbn [set_ch]; now apply tgood_intro].
    destruct H as (H1 & H2 & H3). repeat split; [assumption| |assumption].
    rewrite H2. cbn [set_ch]. now rewrite !tflatten, F'.
Qed.

Lemma partial_unroll_ok st mn st' : tgood st = true -> partial_unroll st mn = Some (Ok st') ->
  tgood st' = true /\ flatten st' = flatten st.
Proof.
  intros G H. unfold partial_unroll in H. destruct (l_vol st); [discriminate|].
  destruct (sum_reps (l_ch st) * l_rep st >=? mn); [|discriminate].
  injection H as H. destruct (tgood_inv _ G) as (r & m & ch & -> & Hr & Hch).
  destruct (sum_reps (l_ch (Loop r m None ch)) <? mn).
  - apply split_until_ok in H.
    + destruct H as (H1 & H2 & _). split; [assumption|]. rewrite H2. cbn [unroll_children].
      rewrite !tflatten, flat_list_rep_concat, rep_concat_1. reflexivity.
    + cbn [unroll_children]. apply tgood_intro; [lia|]. now apply forallb_rep_concat.
  - apply split_until_ok in H; [|assumption]. destruct H as (H1 & H2 & _). auto.
Qed.

Definition tables_flat (before after : list loop) : list nat := flat_list (rev before) ++ flat_list after.

Lemma append_children_ok a b : tgood a = true -> tgood b = true -> l_rep b = 1 ->
  tgood (append_children a b) = true /\
  flatten (append_children a b) = rep_concat (l_rep a) (flat_list (l_ch a) ++ flat_list (l_ch b)) /\
  l_rep (append_children a b) = l_rep a.
Proof.
  intros Ga Gb Hb. destruct (tgood_inv _ Ga) as (r & m & ch & -> & Hr & Hch).
  destruct (tgood_inv _ Gb) as (r2 & m2 & ch2 & -> & Hr2 & Hch2).
  unfold append_children. cbn [l_ch set_ch l_rep]. repeat split.
  - apply tgood_intro; auto. now rewrite forallb_app, Hch, Hch2.
  - now rewrite tflatten, flat_list_app.
Qed.

Lemma prepend_children_ok a b : tgood a = true -> tgood b = true ->
  tgood (prepend_children a b) = true /\
  flatten (prepend_children a b) = rep_concat (l_rep b) (flat_list (l_ch a) ++ flat_list (l_ch b)).
Proof.
  intros Ga Gb. destruct (tgood_inv _ Ga) as (r & m & ch & -> & Hr & Hch).
  destruct (tgood_inv _ Gb) as (r2 & m2 & ch2 & -> & Hr2 & Hch2).
  unfold prepend_children. cbn [l_ch set_ch l_rep]. split.
  - apply tgood_intro; auto. now rewrite forallb_app, Hch, Hch2.
  - now rewrite tflatten, flat_list_app.
Qed.

Lemma dec_rep_ok a : tgood a = true -> 1 < l_rep a ->
  tgood (dec_rep a) = true /\ flatten (dec_rep a) = rep_concat (l_rep a - 1) (flat_list (l_ch a)).
Proof.
  intros Ga H. destruct (tgood_inv _ Ga) as (r & m & ch & -> & Hr & Hch). cbn [l_rep] in *.
  unfold dec_rep. cbn [set_rep l_rep l_ch]. split; [apply tgood_intro; auto; lia|apply tflatten].
Qed.

Lemma tflatten' t : tgood t = true -> flatten t = rep_concat (l_rep t) (flat_list (l_ch t)).
Proof. intros G. destruct (tgood_inv _ G) as (r & m & ch & -> & _). reflexivity. Qed.

Lemma tables_flat_cons_l x before after :
  tables_flat (x :: before) after = flat_list (rev before) ++ flatten x ++ flat_list after.
Proof. unfold tables_flat. now rewrite flat_list_rev_cons, app_assoc. Qed.

Lemma tables_flat_cons_r x before after :
  tables_flat before (x :: after) = flat_list (rev before) ++ flatten x ++ flat_list after.
Proof. reflexivity. Qed.

Lemma move_skip cur cur' before rest : flatten cur' = flatten cur ->
  tables_flat (cur' :: before) rest = tables_flat before (cur :: rest).
Proof. intros H. now rewrite tables_flat_cons_l, tables_flat_cons_r, H. Qed.

Lemma move_merge_prev p cur bt rest : tgood p = true -> tgood cur = true -> l_rep p = 1 -> l_rep cur = 1 ->
  tables_flat (append_children p cur :: bt) rest = tables_flat (p :: bt) (cur :: rest).
Proof.
  intros Gp Gc Hp Hc. destruct (append_children_ok _ _ Gp Gc Hc) as (_ & F & _).
  rewrite !tables_flat_cons_l, flat_list_cons, F, (tflatten' p), (tflatten' cur), Hp, Hc by assumption.
  now rewrite !rep_concat_1, <- !app_assoc.
Qed.

Lemma move_merge_next cur nx before rt : tgood cur = true -> tgood nx = true -> l_rep cur = 1 -> l_rep nx = 1 ->
  tables_flat before (append_children cur nx :: rt) = tables_flat before (cur :: nx :: rt).
Proof.
  intros Gc Gn Hc Hn. destruct (append_children_ok _ _ Gc Gn Hn) as (_ & F & _).
  rewrite !tables_flat_cons_r, flat_list_cons, F, (tflatten' cur), (tflatten' nx), Hc, Hn by assumption.
  now rewrite !rep_concat_1, <- !app_assoc.
Qed.

Lemma move_nb_prev p cur bt rest : tgood p = true -> tgood cur = true -> l_rep cur = 1 -> 1 < l_rep p ->
  tables_flat (dec_rep p :: bt) (prepend_children p cur :: rest) = tables_flat (p :: bt) (cur :: rest).
Proof.
  intros Gp Gc Hc Hp. destruct (prepend_children_ok _ _ Gp Gc) as (_ & F).
  destruct (dec_rep_ok _ Gp Hp) as (_ & F2).
  rewrite !tables_flat_cons_l, !flat_list_cons, F, F2, (tflatten' p), (tflatten' cur), Hc by assumption.
  rewrite !rep_concat_1, (rep_concat_succ_r (l_rep p)) by lia. now rewrite <- !app_assoc.
Qed.

Lemma move_nb_next cur nx before rt : tgood cur = true -> tgood nx = true -> l_rep cur = 1 -> 1 < l_rep nx ->
  tables_flat before (append_children cur nx :: dec_rep nx :: rt) = tables_flat before (cur :: nx :: rt).
Proof.
  intros Gc Gn Hc Hn.
  destruct (tgood_inv _ Gc) as (r & m & ch & -> & Hr & Hch).
  destruct (tgood_inv _ Gn) as (r2 & m2 & ch2 & -> & Hr2 & Hch2). cbn [l_rep] in *. subst r.
  unfold append_children, dec_rep. cbn [l_ch set_ch set_rep l_rep].
  rewrite !tables_flat_cons_r, !flat_list_cons, !tflatten, flat_list_app, !rep_concat_1.
  rewrite (rep_concat_succ_l r2) by lia. now rewrite <- !app_assoc.
Qed.

Lemma merge_ok_inv a b mx : merge_ok a b mx = true -> l_rep a = 1 /\ l_rep b = 1.
Proof. unfold merge_ok. lia. Qed.

Lemma tgood_append a b : tgood a = true -> tgood b = true -> tgood (append_children a b) = true.
Proof.
  intros Ga Gb. destruct (tgood_inv _ Ga) as (r & m & ch & -> & Hr & Hch).
  destruct (tgood_inv _ Gb) as (r2 & m2 & ch2 & -> & Hr2 & Hch2).
  unfold append_children. cbn [l_ch set_ch]. apply tgood_intro; auto. now rewrite forallb_app, Hch, Hch2.
Qed.

Ltac fb := cbn [forallb] in *; repeat match goal with H : andb _ _ = true |- _ => apply andb_prop in H as [? ?] end.
Ltac fbs := cbn [forallb]; repeat match goal with |- andb _ _ = true => apply andb_true_intro; split end; auto.

Lemma after_unroll_ok cur mn before rest other b a :
  tgood cur = true -> forallb tgood before = true -> forallb tgood rest = true ->
  after_unroll (partial_unroll cur mn) before rest other = PNext b a ->
  (forallb tgood b = true /\ forallb tgood a = true /\ tables_flat b a = tables_flat before (cur :: rest))
  \/ other = PNext b a.
Proof.
  intros Gc Gb Gr H. unfold after_unroll in H.
  destruct (partial_unroll cur mn) as [[cur'|e]|] eqn:E; [|discriminate|now right].
  left. injection H as <- <-. destruct (partial_unroll_ok _ _ _ Gc E) as [G' F'].
  split; [fbs|]. split; [assumption|]. now apply move_skip.
Qed.

Lemma prep_step_ok mn mx before after b a :
  forallb tgood before = true -> forallb tgood after = true ->
  prep_step mn mx before after = PNext b a ->
  forallb tgood b = true /\ forallb tgood a = true /\ tables_flat b a = tables_flat before after.
Proof.
  intros Gb Ga H. unfold prep_step in H. destruct after as [|cur rest]; [discriminate|].
  fb. rename H0 into Gc. rename H1 into Gr.
  destruct (l_len cur >? mx); [discriminate|].
  destruct (l_len cur <? mn).
  2:{ injection H as <- <-. split; [fbs|]. split; [assumption|]. now apply move_skip. }
  destruct (negb (l_rep cur >? 0)); [discriminate|].
  destruct ((l_rep cur =? 1) && negb (l_vol cur)) eqn:E1.
  2:{ apply after_unroll_ok in H; auto. destruct H as [H|H]; [exact H|discriminate]. }
  assert (Hc : l_rep cur = 1) by lia.
  assert (NBN : forall nx rt, rest = nx :: rt ->
            (if (l_rep nx >? 1) && (l_len cur + l_len nx <? mx)
             then PNext before (append_children cur nx :: dec_rep nx :: rt) else PErr ETooShort) = PNext b a ->
            forallb tgood b = true /\ forallb tgood a = true /\ tables_flat b a = tables_flat before (cur :: rest)).
  { intros nx rt -> H'. fb. destruct ((l_rep nx >? 1) && (l_len cur + l_len nx <? mx)) eqn:E; [|discriminate].
    injection H' as <- <-. assert (1 < l_rep nx) by lia.
    split; [assumption|]. split; [|now apply move_nb_next].
    fbs. now apply tgood_append. now apply dec_rep_ok. }
  destruct before as [|p bt].
  - destruct rest as [|nx rt].
    + apply after_unroll_ok in H; auto. destruct H as [H|H]; [exact H|discriminate].
    + destruct (merge_ok cur nx mx) eqn:Em.
      * injection H as <- <-. fb. apply merge_ok_inv in Em as [? ?].
        split; [reflexivity|]. split; [fbs; now apply tgood_append|]. now apply move_merge_next.
      * apply after_unroll_ok in H; auto. destruct H as [H|H]; [exact H|]. eapply NBN; eauto.
  - fb. rename H0 into Gp. rename H1 into Gbt.
    assert (NBP : forall other,
              (if (l_rep p >? 1) && (l_len cur + l_len p <? mx)
               then PNext (dec_rep p :: bt) (prepend_children p cur :: rest) else other) = PNext b a ->
              (forallb tgood b = true /\ forallb tgood a = true /\
               tables_flat b a = tables_flat (p :: bt) (cur :: rest)) \/ other = PNext b a).
    { intros other H'. destruct ((l_rep p >? 1) && (l_len cur + l_len p <? mx)) eqn:E; [|now right].
      left. injection H' as <- <-. assert (1 < l_rep p) by lia.
      split; [fbs; now apply dec_rep_ok|]. split; [fbs; now apply prepend_children_ok|].
      now apply move_nb_prev. }
    destruct (merge_ok p cur mx) eqn:Em.
    + injection H as <- <-. apply merge_ok_inv in Em as [? ?].
      split; [fbs; now apply tgood_append|]. split; [assumption|]. now apply move_merge_prev.
    + destruct rest as [|nx rt].
      * apply after_unroll_ok in H; auto; [|fbs]. destruct H as [H|H]; [exact H|].
        apply NBP in H. destruct H as [H|H]; [exact H|discriminate].
      * destruct (merge_ok cur nx mx) eqn:Em2.
        { injection H as <- <-. fb. apply merge_ok_inv in Em2 as [? ?].
          split; [fbs|]. split; [fbs; now apply tgood_append|]. now apply move_merge_next. }
        apply after_unroll_ok in H; auto; [|fbs]. destruct H as [H|H]; [exact H|].
        apply NBP in H. destruct H as [H|H]; [exact H|].
        destruct (NBN nx rt eq_refl H) as (X1 & X2 & X3). auto.
Qed.

Lemma prep_ok : forall fuel mn mx before after r,
  forallb tgood before = true -> forallb tgood after = true ->
  prep fuel mn mx before after = Ok r ->
  forallb tgood r = true /\ flat_list r = tables_flat before after.
Proof.
  induction fuel as [|f IH]; intros mn mx before after r Gb Ga H; [discriminate|].
  cbn [prep] in H. destruct (prep_step mn mx before after) as [b a|r'|e] eqn:E; [| |discriminate].
  - destruct (prep_step_ok _ _ _ _ _ _ Gb Ga E) as (G1 & G2 & F). rewrite <- F. eapply IH; eauto.
  - injection H as <-. unfold prep_step in E. destruct after as [|cur rest].
    + injection E as <-. split; [now rewrite forallb_rev'|]. unfold tables_flat. cbn. now rewrite app_nil_r.
    + exfalso. fb.
      destruct (l_len cur >? mx); [discriminate|]. destruct (l_len cur <? mn); [|discriminate].
      destruct (negb (l_rep cur >? 0)); [discriminate|].
      unfold after_unroll in E.
      repeat match type of E with
             | context [match ?x with _ => _ end] => destruct x; try discriminate
             end.
Qed.
