(* C16 — proofs, part 5: from the played binaries to the specification's streams, and the assembled statement
   compile = Ok o -> expand o = spec.                                                                            *)
From Coq Require Import ZArith QArith List Bool Lia ZifyBool.
Require Import QV.C16.Model QV.C16.Spec QV.C16.Proofs QV.C16.Proofs2 QV.C16.Proofs3 QV.C16.Proofs4.
Import ListNotations.
Open Scope Z_scope.

Definition len_exact (tbl : list wfdata) : Prop :=
  forall w d, nth_error tbl w = Some d -> (wf_len d == inject_Z (wf_n d))%Q.

Lemma streams_concat_proj l :
  streams_concat l = {| s_a := concat (map s_a l); s_b := concat (map s_b l);
                        s_ma := concat (map s_ma l); s_mb := concat (map s_mb l) |}.
Proof. induction l as [|x l IH]; [reflexivity|]. cbn [streams_concat fold_right map concat]. fold (streams_concat l). now rewrite IH. Qed.

Lemma map_evens {A B} (f : A -> B) : forall l, map f (evens l) = evens (map f l).
Proof. fix IH 1. intros [|x [|y l]]; cbn [evens map]; [reflexivity|reflexivity|]. now rewrite IH. Qed.

Lemma map_opt_nth_cons {A B} (f : A -> option B) x l r : map_opt f (x :: l) = Some r ->
  exists y r', f x = Some y /\ map_opt f l = Some r' /\ r = y :: r'.
Proof.
  cbn. destruct (f x) as [y|]; [|discriminate]. destruct (map_opt f l) as [r'|]; [|discriminate].
  intros [= <-]. eauto.
Qed.

Lemma wf_at_ok tbl w wd : len_exact tbl -> nth_error tbl w = Some wd -> 0 < wf_n wd -> wf_at tbl w = Some wd.
Proof.
  intros HL Hw Hn. unfold wf_at. rewrite Hw. apply HL in Hw. apply Qeq_bool_iff in Hw. rewrite Hw.
  replace (0 <? wf_n wd) with true by lia. reflexivity.
Qed.

Lemma map_repeat {A B} (f : A -> B) x n : map f (repeat x n) = repeat (f x) n.
Proof. induction n; cbn; [reflexivity|]. now rewrite IHn. Qed.

(* ---------------------------------------------------------------------------------------------------------- *)
(* one output channel *)

Lemma quantise_nil ch amp off tr : (ch <> None -> Qle_bool amp 0 = false) -> quantise_channel ch amp off tr [] = Some [].
Proof. intros H. unfold quantise_channel. destruct ch; [|reflexivity]. now rewrite H by discriminate. Qed.

Lemma quantise_app ch amp off tr x y x' y' :
  quantise_channel ch amp off tr x = Some x' -> quantise_channel ch amp off tr y = Some y' ->
  quantise_channel ch amp off tr (x ++ y) = Some (x' ++ y').
Proof.
  unfold quantise_channel. destruct ch.
  - destruct (Qle_bool amp 0); [discriminate|]. apply map_opt_app.
  - intros [= <-] [= <-]. now rewrite map_app.
Qed.

Lemma channel_stream tbl ch amp off tr : len_exact tbl ->
  (ch <> None -> Qle_bool amp 0 = false) ->
  forall played wds cs, map_opt (nth_error tbl) played = Some wds ->
  Forall2 (fun wd a => channel_data wd ch amp off tr = Ok a /\ 0 < wf_n wd) wds cs ->
  exists va, src_stream tbl ch 0 played = Some va /\ quantise_channel ch amp off tr va = Some (concat cs).
Proof.
  intros HL Hamp. induction played as [|w pl IH]; intros wds cs Hm HF.
  - injection Hm as <-. inversion HF; subst. exists []. split; [reflexivity|]. now apply quantise_nil.
  - apply map_opt_nth_cons in Hm as (wd & wds' & Hw & Hm & ->). inversion HF as [|? a ? cs' [Ha Hn] HF']; subst.
    destruct (IH _ _ Hm HF') as (va' & Hs' & Hq').
    unfold src_stream in *. cbn [map opt_concat]. rewrite Hs'.
    unfold src_samples. rewrite (wf_at_ok _ _ _ HL Hw Hn). cbn [opt_bind].
    unfold channel_data in Ha. destruct ch as [cc|].
    + destruct (assoc cc (wf_data wd)) as [vs|]; [|discriminate].
      destruct (negb (Z.of_nat (length vs) =? wf_n wd)) eqn:El; [discriminate|]. apply negb_false_iff in El.
      rewrite El. destruct (Qle_bool amp 0) eqn:Eamp; [discriminate|].
      destruct (map_opt _ vs) as [codes|] eqn:Ec; [|discriminate]. injection Ha as <-.
      eexists. split; [reflexivity|]. cbn [concat]. apply quantise_app; [|exact Hq'].
      unfold quantise_channel. now rewrite Eamp.
    + injection Ha as <-. eexists. split; [reflexivity|]. cbn [concat]. apply quantise_app; [|exact Hq'].
      unfold quantise_channel. now rewrite map_repeat.
Qed.

(* one marker: every second sample of the whole program = every second sample of every segment *)
Lemma marker_stream tbl m : len_exact tbl ->
  forall played wds ms, map_opt (nth_error tbl) played = Some wds ->
  Forall2 (fun wd mm => marker_data wd m = Ok mm /\ 0 < wf_n wd /\ wf_n wd mod 16 = 0) wds ms ->
  exists vm, src_stream tbl m 0 played = Some vm /\ map nonzero (evens vm) = concat ms.
Proof.
  intros HL. induction played as [|w pl IH]; intros wds ms Hm HF.
  - injection Hm as <-. inversion HF; subst. exists []. split; reflexivity.
  - apply map_opt_nth_cons in Hm as (wd & wds' & Hw & Hm & ->).
    inversion HF as [|? mm ? ms' (Ha & Hn & Hmod) HF']; subst.
    destruct (IH _ _ Hm HF') as (vm' & Hs' & Hq').
    unfold src_stream in *. cbn [map opt_concat]. rewrite Hs'.
    unfold src_samples. rewrite (wf_at_ok _ _ _ HL Hw Hn). cbn [opt_bind].
    assert (Hk : exists k, Z.to_nat (wf_n wd) = (2 * k)%nat).
    { apply Z.mod_divide in Hmod as [q Hq]; [|lia]. exists (Z.to_nat (8 * q)). lia. }
    destruct Hk as [k Hk].
    unfold marker_data in Ha. destruct m as [cc|].
    + destruct (assoc cc (wf_data wd)) as [vs|]; [|discriminate].
      destruct (negb (Z.of_nat (length vs) =? wf_n wd)) eqn:El; [discriminate|]. apply negb_false_iff in El.
      rewrite El. injection Ha as <-. eexists. split; [reflexivity|].
      rewrite (evens_app k) by lia. now rewrite map_app, Hq'.
    + injection Ha as <-. eexists. split; [reflexivity|].
      rewrite (evens_app k) by (rewrite repeat_length; lia). rewrite map_app, Hq'. cbn [concat]. f_equal.
      now rewrite map_evens, map_repeat.
Qed.

(* ---------------------------------------------------------------------------------------------------------- *)
(* the played binaries, decoded, are the specification's streams *)

Lemma Forall2_map_r {A B C} (P : A -> C -> Prop) (g : B -> C) l1 l2 :
  Forall2 (fun a b => P a (g b)) l1 l2 -> Forall2 P l1 (map g l2).
Proof. induction 1; cbn; constructor; auto. Qed.

Lemma Forall2_imp {A B} (P Q : A -> B -> Prop) : (forall a b, P a b -> Q a b) ->
  forall l1 l2, Forall2 P l1 l2 -> Forall2 Q l1 l2.
Proof. intros H l1 l2. induction 1; constructor; auto. Qed.

Lemma sample_amp_ok c wd b : sample_segment c wd = Ok b ->
  (c_cha c <> None -> Qle_bool (c_amp_a c) 0 = false) /\ (c_chb c <> None -> Qle_bool (c_amp_b c) 0 = false).
Proof.
  unfold sample_segment, bind.
  destruct (channel_data wd (c_cha c) _ _ _) as [a|] eqn:Ea; [|discriminate].
  destruct (channel_data wd (c_chb c) _ _ _) as [b'|] eqn:Eb; [|discriminate]. intros _.
  split; intros Hne.
  - unfold channel_data in Ea. destruct (c_cha c); [|congruence]. destruct (assoc _ _); [|discriminate].
    destruct (negb _); [discriminate|]. destruct (Qle_bool (c_amp_a c) 0); [discriminate|reflexivity].
  - unfold channel_data in Eb. destruct (c_chb c); [|congruence]. destruct (assoc _ _); [|discriminate].
    destruct (negb _); [discriminate|]. destruct (Qle_bool (c_amp_b c) 0); [discriminate|reflexivity].
Qed.

Lemma segments_play_spec c tbl played wds bl : len_exact tbl ->
  map_opt (nth_error tbl) played = Some wds -> Forall2 (seg_rel c) wds bl ->
  (exists wd b, sample_segment c wd = Ok b) ->
  opt_bind (src_stream tbl (c_cha c) 0 played) (fun va =>
  opt_bind (src_stream tbl (c_chb c) 0 played) (fun vb =>
  opt_bind (src_stream tbl (c_ma c) 0 played) (fun vma =>
  opt_bind (src_stream tbl (c_mb c) 0 played) (fun vmb =>
  opt_bind (quantise_channel (c_cha c) (c_amp_a c) (c_off_a c) (c_tr_a c) va) (fun a =>
  opt_bind (quantise_channel (c_chb c) (c_amp_b c) (c_off_b c) (c_tr_b c) vb) (fun b =>
  Some {| s_a := a; s_b := b; s_ma := map nonzero (evens vma); s_mb := map nonzero (evens vmb) |}))))))
  = Some (streams_concat (map decode_segment bl)).
Proof.
  intros HL Hm HF (wd0 & b0 & Hs0). destruct (sample_amp_ok _ _ _ Hs0) as [HampA HampB].
  assert (HD : Forall2 (fun wd b =>
            (channel_data wd (c_cha c) (c_amp_a c) (c_off_a c) (c_tr_a c) = Ok (s_a (decode_segment b)) /\ 0 < wf_n wd) /\
            (channel_data wd (c_chb c) (c_amp_b c) (c_off_b c) (c_tr_b c) = Ok (s_b (decode_segment b)) /\ 0 < wf_n wd) /\
            (marker_data wd (c_ma c) = Ok (s_ma (decode_segment b)) /\ 0 < wf_n wd /\ wf_n wd mod 16 = 0) /\
            (marker_data wd (c_mb c) = Ok (s_mb (decode_segment b)) /\ 0 < wf_n wd /\ wf_n wd mod 16 = 0)) wds bl).
  { eapply Forall2_imp; [|exact HF]. intros wd b (Hs & Hn & Hmod).
    destruct (sample_segment_decodes _ _ _ Hs ltac:(lia) Hmod) as (a & b' & ma & mb & H1 & H2 & H3 & H4 & _ & ->).
    cbn [s_a s_b s_ma s_mb]. tauto. }
  assert (HA : Forall2 (fun wd a => channel_data wd (c_cha c) (c_amp_a c) (c_off_a c) (c_tr_a c) = Ok a /\ 0 < wf_n wd)
                 wds (map (fun b => s_a (decode_segment b)) bl)).
  { apply Forall2_map_r. eapply Forall2_imp; [|exact HD]. cbn beta. tauto. }
  assert (HB : Forall2 (fun wd a => channel_data wd (c_chb c) (c_amp_b c) (c_off_b c) (c_tr_b c) = Ok a /\ 0 < wf_n wd)
                 wds (map (fun b => s_b (decode_segment b)) bl)).
  { apply Forall2_map_r. eapply Forall2_imp; [|exact HD]. cbn beta. tauto. }
  assert (HMA : Forall2 (fun wd mm => marker_data wd (c_ma c) = Ok mm /\ 0 < wf_n wd /\ wf_n wd mod 16 = 0)
                 wds (map (fun b => s_ma (decode_segment b)) bl)).
  { apply Forall2_map_r. eapply Forall2_imp; [|exact HD]. cbn beta. tauto. }
  assert (HMB : Forall2 (fun wd mm => marker_data wd (c_mb c) = Ok mm /\ 0 < wf_n wd /\ wf_n wd mod 16 = 0)
                 wds (map (fun b => s_mb (decode_segment b)) bl)).
  { apply Forall2_map_r. eapply Forall2_imp; [|exact HD]. cbn beta. tauto. }
  destruct (channel_stream _ _ _ _ _ HL HampA _ _ _ Hm HA) as (va & -> & Hqa).
  destruct (channel_stream _ _ _ _ _ HL HampB _ _ _ Hm HB) as (vb & -> & Hqb).
  destruct (marker_stream _ _ HL _ _ _ Hm HMA) as (vma & -> & Hma).
  destruct (marker_stream _ _ HL _ _ _ Hm HMB) as (vmb & -> & Hmb).
  cbn [opt_bind]. rewrite Hqa, Hqb. cbn [opt_bind]. rewrite Hma, Hmb, streams_concat_proj, !map_map. reflexivity.
Qed.

(* ---------------------------------------------------------------------------------------------------------- *)
(* the assembled statement *)

Lemma good_children prog : good prog = true -> forallb good (l_ch prog) = true.
Proof. destruct prog as [r m w ch]. intros G. now apply good_inv in G as (_ & _ & ?). Qed.

Lemma compile_with_plays ff pf c tbl prog o :
  good prog = true -> cls_inj tbl -> len_exact tbl ->
  compile_with ff pf c tbl prog = Ok o ->
  exists s, spec c tbl prog = Some s /\ expand o = Some s.
Proof.
  intros G Hinj HL. unfold compile_with. fold (root_of prog). set (prog1 := root_of prog).
  destruct (root_of_ok _ G) as [G1 F1]. fold prog1 in G1, F1.
  destruct (negb (c_nchan c =? c_cpp c)); [discriminate|].
  destruct (negb (c_nmark c =? c_cpp c)); [discriminate|].
  destruct (negb (c_nchan c =? 2)); [discriminate|].
  assert (Hfin : forall p advd, calc_segments c tbl p advd = Ok o ->
            forall wds, play_adv_g (wd_of tbl (p_wfs p)) (p_seqs p) (p_adv p) = Some wds ->
            map_opt (nth_error tbl) (flatten prog) = Some wds ->
            exists s, spec c tbl prog = Some s /\ expand o = Some s).
  { intros p advd Hc wds Hp Hm. destruct (calc_segments_plays _ _ _ _ _ _ Hc Hp) as ((bl & Hpl & HF) & Hex).
    exists (streams_concat (map decode_segment bl)). split.
    - unfold spec. now apply (segments_play_spec c tbl (flatten prog) wds bl).
    - unfold expand. rewrite Hpl. reflexivity. }
  destruct (negb (match c_mode c with Some m => m | None => depth prog1 >? 1 end)).
  - (* SINGLE *)
    destruct (negb (depth prog1 =? 1)) eqn:Ed; [discriminate|]. destruct (negb (balanced prog1)); [discriminate|].
    destruct (l_len prog1 >? c_max c); [discriminate|].
    unfold bind. destruct (parse_single tbl prog1) as [p|] eqn:Ep; [|discriminate]. intros Hc.
    assert (Hne : l_ch prog1 <> []) by (apply depth_pos_nonleaf; lia).
    destruct prog1 as [r m w ch] eqn:E1. cbn [l_ch] in Hne.
    pose proof (good_inv _ _ _ _ G1) as (Hr & Hw & Gch). rewrite (Hw Hne) in *.
    unfold parse_single, bind in Ep. cbn [l_ch l_rep] in Ep.
    destruct (parse_table tbl ch []) as [[es known]|] eqn:Et; [|discriminate]. injection Ep as <-.
    destruct (parse_table_ok _ Hinj _ _ _ _ Gch (Forall_nil _) Et) as (_ & _ & wt & Hpt & Hmt).
    apply (Hfin _ _ Hc (rep_concat r wt)).
    + cbn [p_wfs p_seqs p_adv play_adv_g]. change (nth_z [es] (1 - 1)) with (Some es). cbv iota beta. rewrite Hpt.
      now rewrite app_nil_r.
    + rewrite <- F1, tflatten. now apply map_opt_rep_concat.
  - (* ADVANCED *)
    destruct (negb (depth prog1 >? 1)) eqn:Ed; [discriminate|]. destruct (negb (l_rep prog1 =? 1)) eqn:Er; [discriminate|].
    unfold bind. destruct (fab ff 2 [] (l_ch prog1)) as [ch1|] eqn:Ef; [|discriminate].
    destruct (prep pf (c_min c) (c_max c) [] ch1) as [ch2|] eqn:Epr; [|discriminate].
    destruct (negb (forallb _ ch2)); [discriminate|].
    destruct (parse_aseq tbl (set_ch prog1 ch2)) as [p|] eqn:Ep; [|discriminate]. intros Hc.
    apply negb_false_iff in Ed, Er.
    destruct (restructure_preserves prog _ _ _ _ _ _ G Ed Er Ef Epr) as (Tc2 & _ & FL).
    unfold parse_aseq in Ep. replace (l_ch (set_ch prog1 ch2)) with ch2 in Ep by (destruct prog1; reflexivity).
    destruct (parse_aseq_loop_ok _ Hinj ch2 [] [] [] p [] [] Tc2 (Forall_nil _) eq_refl eq_refl Ep)
      as (_ & wds & Hp & Hm).
    apply (Hfin _ _ Hc wds Hp). cbn [app] in Hm. now rewrite FL.
Qed.

Lemma compile_plays c tbl prog o :
  good prog = true -> cls_inj tbl -> len_exact tbl ->
  compile c tbl prog = Ok o ->
  exists s, spec c tbl prog = Some s /\ expand o = Some s.
Proof. apply compile_with_plays. Qed.

(* non-vacuity of the hypotheses of compile_plays: the example table / program of Proofs3 satisfies all of them *)
Lemma ex_hyps : good ex_prog = true /\ cls_inj ex_tbl /\ len_exact ex_tbl /\
  exists o, compile (ex_cfg 3 5) ex_tbl ex_prog = Ok o.
Proof.
  split; [reflexivity|]. split; [|split].
  - intros [|[|[|w1]]] [|[|[|w2]]] d1 d2 H1 H2; cbn in H1, H2; try discriminate;
      injection H1 as <-; injection H2 as <-; cbn; intros; try reflexivity; discriminate.
  - intros [|[|[|w]]] d H; cbn in H; try discriminate; injection H as <-; reflexivity.
  - destruct (compile (ex_cfg 3 5) ex_tbl ex_prog) as [o|e] eqn:E; [eauto|]. exfalso. revert E. vm_compute. discriminate.
Qed.
