(* C16 — property theorems (statements only; proofs live in Proofs.v). *)
From Coq Require Import ZArith QArith List Bool.
Require Import QV.C16.Model QV.C16.Spec QV.C16.Proofs.

Theorem C16_reject : forall c tbl p e, compile c tbl p = Err e -> forall o, compile c tbl p <> Ok o.
Proof. exact reject_no_tables. Qed.
Print Assumptions C16_reject.
