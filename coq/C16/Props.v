(* C16 — property theorems (statements only; proofs live in Proofs*.v). *)
From Coq Require Import ZArith QArith Qabs List Bool.
Require Import QV.C16.Model QV.C16.Spec QV.C16.Proofs QV.C16.Proofs2 QV.C16.Proofs3 QV.C16.Proofs4 QV.C16.Proofs5 QV.C16.Proofs_term QV.C16.Proofs6 QV.C16.Proofs_fuel QV.C16.Proofs7 QV.C16.Proofs8 QV.C16.Proofs9 QV.C16.Proofs10 QV.C16.Proofs11 QV.C16.Gen_tabor QV.C16.GenEq QV.C16.Gen_loop QV.C16.GenEqLoop QV.C16.GenLibParse QV.C16.Gen_parse QV.C16.GenEqParse.
Import ListNotations.
Open Scope Z_scope.

(* (0) THE property, for the model of TaborProgram.__init__: whenever the compiler accepts a program, the tables it
   emits, played by the independent table player `expand` (advanced table -> sequencer tables -> segments, binary
   layout decoded), give exactly the specification's streams: the source program's samples in play order, converted to
   14-bit codes on both channels, and both marker channels as booleans at half rate.  Both modes, every tree shape,
   repetition count, channel / marker assignment (incl. None), amplitude, offset, affine transformation, limits.
   Hypotheses = the modelled input domain: counts >= 0 and inner nodes carry no waveform (`good`); waveforms of one
   equality class have equal sample data (the compiler samples the first object of a class); the exact sample count
   of every waveform is its `wf_n` (no length strictly inside the 1e-10 tolerance of get_waveform_length).
   Proof: restructuring stage (1) + index invariants of the three setdefault de-duplications (waveforms, sequencer
   tables, segments: a recorded index always resolves to an entry equal to the registered one) + segment stage (2) +
   half-rate lemma (2b). *)
Theorem C16_plays : forall c tbl prog o,
  good prog = true ->
  (forall w1 w2 d1 d2, nth_error tbl w1 = Some d1 -> nth_error tbl w2 = Some d2 -> wf_cls d1 = wf_cls d2 -> d1 = d2) ->
  (forall w d, nth_error tbl w = Some d -> (wf_len d == inject_Z (wf_n d))%Q) ->
  compile c tbl prog = Ok o ->
  exists s, spec c tbl prog = Some s /\ expand o = Some s.
Proof. exact compile_plays. Qed.
Print Assumptions C16_plays.

(* (0') the fuel of the two restructuring loops is a model artefact: there is fuel (n1, n2) from which on the result
   of the compiler model is the same for every larger fuel, it is never the fuel error, and if it is `Ok o` then o
   plays the specification *)
Theorem C16_plays_total : forall c tbl prog,
  good prog = true ->
  (forall w1 w2 d1 d2, nth_error tbl w1 = Some d1 -> nth_error tbl w2 = Some d2 -> wf_cls d1 = wf_cls d2 -> d1 = d2) ->
  (forall w d, nth_error tbl w = Some d -> (wf_len d == inject_Z (wf_n d))%Q) ->
  exists n1 n2 r, r <> Err EFuel /\
    (forall k1 k2, compile_with (n1 + k1) (n2 + k2) c tbl prog = r) /\
    (forall o, r = Ok o -> exists s, spec c tbl prog = Some s /\ expand o = Some s).
Proof.
  intros c tbl prog G H1 H2. destruct (compile_terminates c tbl prog) as (n1 & n2 & r & Hr & Hk).
  exists n1, n2, r. split; [exact Hr|]. split; [exact Hk|]. intros o ->.
  apply (compile_with_plays (n1 + 0) (n2 + 0) c tbl prog o G H1 H2). apply Hk.
Qed.
Print Assumptions C16_plays_total.

(* (1) restructuring: for EVERY fuel of the two loops, every tree shape, repetition count, measurement flag and device
   limit: whenever flatten_and_balance(2) and prepare_program_for_advanced_sequence_mode return, the tables they leave
   play exactly the leaves of the source program, in order and multiplicity (termination: (1a), (1b)) *)
Theorem C16_plays_restructuring : forall prog f1 f2 mn mx ch1 ch2,
  good prog = true ->
  depth (root_of prog) >? 1 = true -> l_rep (root_of prog) =? 1 = true ->
  fab f1 2 [] (l_ch (root_of prog)) = Ok ch1 ->
  prep f2 mn mx [] ch1 = Ok ch2 ->
  forallb tgood ch2 = true /\ flatten (set_ch (root_of prog) ch2) = flatten prog /\ flatten prog = flat_list ch2.
Proof. exact restructure_preserves. Qed.
Print Assumptions C16_plays_restructuring.

(* (1a) flatten_and_balance terminates: for every level, finished prefix and work list (any trees, any counts) some
   fuel suffices, and a result other than the fuel error is the same with more fuel *)
Theorem C16_fab_terminates : forall d done todo,
  (exists n, forall k, fab (n + k) d done todo <> Err EFuel) /\
  (forall n r, fab n d done todo = r -> r <> Err EFuel -> forall k, fab (n + k) d done todo = r).
Proof. intros d done todo. split; [apply fab_terminates|intros n r; apply fab_fuel_mono]. Qed.
Print Assumptions C16_fab_terminates.

(* (1a') ... with an EXPLICIT bound:  fab_bound d l = 1 + (2 max(d,0) + 4) * sum_{t in l} W t,
   W (Loop r ch) = 1 + 3 max(1,|r|) (1 + sum_{c in ch} W c)  (a weighted size of the fully unrolled tree);
   with at least that much fuel flatten_and_balance never returns the fuel error, for every level, prefix, work list *)
Theorem C16_fab_fuel_bound : forall d done todo k, fab (fab_bound d todo + k) d done todo <> Err EFuel.
Proof. exact fab_bound_ok. Qed.
Print Assumptions C16_fab_fuel_bound.

(* consequence for the compiler model: fuel >= fab_bound for the first loop and > prep_measure (of its result) for the
   second loop excludes the fuel error; the fixed fuel of `compile` satisfies both for the example program *)
Theorem C16_compile_fuel_explicit : forall ff pf c tbl prog,
  (fab_bound 2 (l_ch (root_of prog)) <= ff)%nat ->
  (forall ch1, fab ff 2 [] (l_ch (root_of prog)) = Ok ch1 -> (prep_measure [] ch1 < pf)%nat) ->
  compile_with ff pf c tbl prog <> Err EFuel.
Proof. exact compile_fuel_explicit. Qed.
Print Assumptions C16_compile_fuel_explicit.

Theorem C16_compile_fuel_nonvacuous :
  (fab_bound 2 (l_ch (root_of ex_prog)) <= fab_fuel)%nat /\
  forall ch1, fab fab_fuel 2 [] (l_ch (root_of ex_prog)) = Ok ch1 -> (prep_measure [] ch1 < prep_fuel)%nat.
Proof. exact ex_fuel_ok. Qed.
Print Assumptions C16_compile_fuel_nonvacuous.

(* (1b) prepare_program_for_advanced_sequence_mode terminates, with the explicit measure
   prep_measure before after = #tables not yet passed + sum of the repetition counts of all tables:
   more fuel than the measure is always enough (incl. the inner split_one_child loop), for every limit pair *)
Theorem C16_prep_terminates : forall fuel mn mx before after,
  (prep_measure before after < fuel)%nat ->
  prep fuel mn mx before after <> Err EFuel /\
  (forall k, prep (fuel + k) mn mx before after = prep fuel mn mx before after).
Proof.
  intros fuel mn mx before after H. pose proof (prep_terminates fuel mn mx before after H) as Hn.
  split; [exact Hn|]. intros k. now apply prep_fuel_mono.
Qed.
Print Assumptions C16_prep_terminates.

Theorem C16_prep_step_decreases : forall mn mx before after b a,
  prep_step mn mx before after = PNext b a -> (prep_measure b a < prep_measure before after)%nat.
Proof. exact prep_step_measure. Qed.
Print Assumptions C16_prep_step_decreases.

(* (2) one segment: the uploaded binary of a sampled waveform, decoded by the table player's `decode_segment`
   (channel B | channel A with marker bits 14/15 in words 8..15 of every quantum), is exactly the 14-bit codes of both
   channels and the marker booleans at half rate; its size is twice the number of samples *)
Theorem C16_plays_segment_partial : forall c wd bin,
  sample_segment c wd = Ok bin -> 0 <= wf_n wd -> wf_n wd mod 16 = 0 ->
  exists a b ma mb,
    channel_data wd (c_cha c) (c_amp_a c) (c_off_a c) (c_tr_a c) = Ok a /\
    channel_data wd (c_chb c) (c_amp_b c) (c_off_b c) (c_tr_b c) = Ok b /\
    marker_data wd (c_ma c) = Ok ma /\ marker_data wd (c_mb c) = Ok mb /\
    Z.of_nat (length bin) = 2 * wf_n wd /\
    decode_segment bin = {| s_a := a; s_b := b; s_ma := ma; s_mb := mb |}.
Proof. exact sample_segment_decodes. Qed.
Print Assumptions C16_plays_segment_partial.

(* (2b) half rate: every second sample of the whole program = every second sample of each piece, when all pieces have
   an even number of samples (they have: multiples of 16) *)
Theorem C16_half_rate_concat : forall (A : Type) (l : list (list A)),
  Forall (fun a => exists k, length a = (2 * k)%nat) l -> evens (concat l) = concat (map evens l).
Proof. exact @evens_concat. Qed.
Print Assumptions C16_half_rate_concat.

(* (3) quantisation: the code is a nearest integer, ties go to the even one, and it fits in 14 bits *)
Theorem C16_quantise_nearest_even : forall q,
  (Qabs (q - inject_Z (rint q)) <= 1 # 2)%Q /\
  ((Qabs (q - inject_Z (rint q)) == 1 # 2)%Q -> Z.even (rint q) = true).
Proof. intros q. split; [apply rint_nearest|apply rint_tie_even]. Qed.
Print Assumptions C16_quantise_nearest_even.

Theorem C16_codes_14bit : forall amp off v w, (0 < amp)%Q -> v2u amp off v = Some w -> 0 <= w < 16384.
Proof. exact v2u_code_ok. Qed.
Print Assumptions C16_codes_14bit.

(* (4) limits: whatever the compiler emits, every segment has >= 192 points, a multiple of 16, and the reported
   length; every sequencer table has at most max_seq_len entries (both modes; SINGLE mode since the repair of
   setup_single_sequence_mode); in ADVANCED mode every sequencer table also has at least min_seq_len entries *)
Theorem C16_limits : forall c tbl prog o, compile c tbl prog = Ok o ->
  segments_ok o = true /\ (o_advanced o = true -> tables_ok c o = true) /\ tables_max_ok c o = true.
Proof. exact compile_limits. Qed.
Print Assumptions C16_limits.

(* ... and in SINGLE mode the table length is not compared with min_seq_len (known finding
   single_mode_table_length_unchecked, lower bound: short tables are intended, the driver pads them with idle
   entries); guard of the lower bound in C16_limits = `o_advanced o = true` *)
Theorem C16_limits_single_mode_refuted :
  exists c tbl prog o, compile c tbl prog = Ok o /\ o_advanced o = false /\ tables_ok c o = false.
Proof. exists (ex_cfg 3 4), ex_tbl, ex_single. exact single_mode_tables_unchecked. Qed.
Print Assumptions C16_limits_single_mode_refuted.

(* (5) "accepted and plays, or rejected with an error" as ONE statement (round 5; the former C16_reject —
   `compile = Err e -> compile <> Ok o` — was a tautology and is gone).  For every good program within the two closed
   fuel bounds of (1c) (so that the evaluated `compile` stands for the unbounded loops), every configuration and table
   satisfying the hypotheses of C16_plays: EITHER the compiler model emits tables that play exactly the specification
   and respect the limits (lower table bound in advanced mode only, see the refuted clause above), OR it returns an
   error that is neither the model's name for an unexpected exception (ECrash) nor the fuel artefact — i.e. one of
   TaborException / ValueError / AssertionError.  Nothing in between: no output that plays something else. *)
Theorem C16_accepts_or_rejects : forall c tbl prog,
  good prog = true ->
  (forall w1 w2 d1 d2, nth_error tbl w1 = Some d1 -> nth_error tbl w2 = Some d2 -> wf_cls d1 = wf_cls d2 -> d1 = d2) ->
  (forall w d, nth_error tbl w = Some d -> (wf_len d == inject_Z (wf_n d))%Q) ->
  (fab_bound 2 (l_ch (root_of prog)) <= fab_fuel)%nat ->
  (prep_bound (l_ch (root_of prog)) <= prep_fuel)%nat ->
  (exists o s, compile c tbl prog = Ok o /\ spec c tbl prog = Some s /\ expand o = Some s /\
               segments_ok o = true /\ tables_max_ok c o = true /\ (o_advanced o = true -> tables_ok c o = true))
  \/ (exists e, compile c tbl prog = Err e /\ e <> ECrash /\ e <> EFuel).
Proof. exact compile_accepts_or_rejects. Qed.
Print Assumptions C16_accepts_or_rejects.

(* (6) "rejected with an error", not with a crash: for EVERY program of the input domain (`good`: repetition counts
   >= 0 — zero counts included —, inner nodes carry no waveform), every fuel, configuration and waveform table, the
   compiler model never returns ECrash (the model's name for a RuntimeError / IndexError of the real code):
   split_one_child always finds a child to split when _check_partial_unroll calls it (the counts of the table add up to
   at least min_seq_len and are >= 0), every recorded waveform index lies inside waveform_to_segment; a sequence table
   entry without waveform is the parsers' TaborException (ENoWaveform) since the repair of
   parse_aseq_program / parse_single_seq_program (it was an AttributeError: former known finding
   zero_count_empties_table, former guard `pos` = counts >= 1) *)
Theorem C16_no_crash : forall ff pf c tbl prog, good prog = true -> compile_with ff pf c tbl prog <> Err ECrash.
Proof. exact compile_no_crash_good. Qed.
Print Assumptions C16_no_crash.

(* the same for the round-2 guard (counts >= 1, nodes without waveform have children; inner nodes may carry a waveform) *)
Theorem C16_no_crash_pos : forall ff pf c tbl prog, pos prog = true -> compile_with ff pf c tbl prog <> Err ECrash.
Proof. exact compile_no_crash. Qed.
Print Assumptions C16_no_crash_pos.

(* the former crash witness: a good program in which a repetition count 0 leaves a node without children is rejected
   with the parsers' TaborException (regression witness of the repair; corpus/C16/zero_count_crash.json) *)
Theorem C16_zero_count_rejected :
  exists c tbl prog, good prog = true /\ pos prog = false /\ compile c tbl prog = Err ENoWaveform.
Proof. exists (ex_cfg 1 4), ex_tbl, ex_zero. exact zero_count_rejected. Qed.
Print Assumptions C16_zero_count_rejected.

Theorem C16_no_crash_nonvacuous : pos ex_prog = true /\ good ex_prog = true.
Proof. split; reflexivity. Qed.
Print Assumptions C16_no_crash_nonvacuous.

(* non-vacuity: a good depth-3 program that needs encapsulation, merging, neighbour unrolling and partial unrolling is
   accepted in advanced mode with limits (3, 5); its tables played by `expand` equal `spec`, all limits hold *)
Theorem C16_example_accepted : good ex_prog = true /\ ex_accepts = true.
Proof. split; [exact ex_good|exact ex_accepts_true]. Qed.
Print Assumptions C16_example_accepted.

(* non-vacuity of C16_plays: the example satisfies every hypothesis (good tree, injective classes, exact lengths) and is
   accepted *)
Theorem C16_plays_nonvacuous :
  good ex_prog = true /\
  (forall w1 w2 d1 d2, nth_error ex_tbl w1 = Some d1 -> nth_error ex_tbl w2 = Some d2 -> wf_cls d1 = wf_cls d2 -> d1 = d2) /\
  (forall w d, nth_error ex_tbl w = Some d -> (wf_len d == inject_Z (wf_n d))%Q) /\
  exists o, compile (ex_cfg 3 5) ex_tbl ex_prog = Ok o.
Proof. exact ex_hyps. Qed.
Print Assumptions C16_plays_nonvacuous.

(* (7) the evaluation form of the specification used by Corr.check_spec (codes / marker booleans computed once per
   waveform of the table, then concatenated in play order; markers still every second sample of the whole program) is
   the specification, for every configuration, table and program (no hypotheses) *)
Theorem C16_spec_cached_eq : forall c tbl prog, spec_cached c tbl prog = spec c tbl prog.
Proof. exact spec_cached_eq. Qed.
Print Assumptions C16_spec_cached_eq.

(* (1c) the fuel of prepare from the INPUT alone.  R (Loop r ch) = max(1,|r|) * max(1, sum_{c in ch} R c) (the
   repetition weight of the fully unrolled tree), prep_bound l = 1 + 2 * sum_{t in l} R t.  No step of
   flatten_and_balance increases the total weight of its work list, so whatever it returns (for any fuel, any level
   2) has a prepare-measure below prep_bound of what it was given *)
Theorem C16_prep_measure_closed : forall n l ch1,
  fab n 2 [] l = Ok ch1 -> (prep_measure [] ch1 < prep_bound l)%nat.
Proof. exact prep_measure_closed. Qed.
Print Assumptions C16_prep_measure_closed.

(* ... so both hypotheses of C16_compile_fuel_explicit follow from two closed formulas of the source program *)
Theorem C16_compile_fuel_closed : forall ff pf c tbl prog,
  (fab_bound 2 (l_ch (root_of prog)) <= ff)%nat ->
  (prep_bound (l_ch (root_of prog)) <= pf)%nat ->
  compile_with ff pf c tbl prog <> Err EFuel.
Proof. exact compile_fuel_closed. Qed.
Print Assumptions C16_compile_fuel_closed.

(* more fuel never changes a result other than the fuel error (every configuration, table, program) *)
Theorem C16_compile_fuel_mono : forall ff pf c tbl prog r,
  compile_with ff pf c tbl prog = r -> r <> Err EFuel ->
  forall k1 k2, compile_with (ff + k1) (pf + k2) c tbl prog = r.
Proof. exact compile_with_fuel_mono. Qed.
Print Assumptions C16_compile_fuel_mono.

(* within the two closed bounds the fixed fuel (4000, 4000) of `compile` — the function the correspondence check
   evaluates — stands for unbounded loops: no fuel error, and the same result for every larger fuel *)
Theorem C16_compile_fixed_fuel_stable : forall c tbl prog,
  (fab_bound 2 (l_ch (root_of prog)) <= fab_fuel)%nat ->
  (prep_bound (l_ch (root_of prog)) <= prep_fuel)%nat ->
  compile c tbl prog <> Err EFuel /\
  forall k1 k2, compile_with (fab_fuel + k1) (prep_fuel + k2) c tbl prog = compile c tbl prog.
Proof. exact compile_fixed_fuel_stable. Qed.
Print Assumptions C16_compile_fixed_fuel_stable.

Theorem C16_compile_fuel_closed_nonvacuous :
  (fab_bound 2 (l_ch (root_of ex_prog)) <= fab_fuel)%nat /\ (prep_bound (l_ch (root_of ex_prog)) <= prep_fuel)%nat.
Proof. exact ex_fuel_closed. Qed.
Print Assumptions C16_compile_fuel_closed_nonvacuous.

(* (8) the stateful use (TaborProgram restructures its argument in place): a Loop that was compiled before — advanced
   mode, any limits (mn, mx), any fuel, up to the end of prepare — and is compiled again with ANY configuration c' plays
   the specification of the ORIGINAL program (the specification depends on the played leaf sequence only, which the
   first compilation preserves; the tree left behind is again in the input domain) *)
Theorem C16_recompile_plays : forall c' tbl prog f1 f2 mn mx ch1 ch2 o,
  good prog = true ->
  (forall w1 w2 d1 d2, nth_error tbl w1 = Some d1 -> nth_error tbl w2 = Some d2 -> wf_cls d1 = wf_cls d2 -> d1 = d2) ->
  (forall w d, nth_error tbl w = Some d -> (wf_len d == inject_Z (wf_n d))%Q) ->
  depth (root_of prog) >? 1 = true -> l_rep (root_of prog) =? 1 = true ->
  fab f1 2 [] (l_ch (root_of prog)) = Ok ch1 ->
  prep f2 mn mx [] ch1 = Ok ch2 ->
  compile c' tbl (set_ch (root_of prog) ch2) = Ok o ->
  exists s, spec c' tbl prog = Some s /\ expand o = Some s.
Proof. exact recompile_plays. Qed.
Print Assumptions C16_recompile_plays.

(* (8') ... for EVERY tree a first TaborProgram(...) can leave behind (`left_behind prog prog'`: the program itself
   — tuple-length error —, its encapsulated root — single mode, failed asserts —, or the root over prepare's state
   after ANY number k of completed iterations, any limits, any fuel — prepare raised at iteration k+1 or returned, the
   final asserts / parsers / sampling do not touch the tree): the tree is in the input domain again and plays the
   same leaf sequence, so an accepted second compilation (any configuration) plays the original specification *)
Theorem C16_left_behind_ok : forall prog prog', good prog = true -> left_behind prog prog' ->
  good prog' = true /\ flatten prog' = flatten prog.
Proof. exact left_behind_ok. Qed.
Print Assumptions C16_left_behind_ok.

Theorem C16_recompile_plays_any : forall c' tbl prog prog' o,
  good prog = true ->
  (forall w1 w2 d1 d2, nth_error tbl w1 = Some d1 -> nth_error tbl w2 = Some d2 -> wf_cls d1 = wf_cls d2 -> d1 = d2) ->
  (forall w d, nth_error tbl w = Some d -> (wf_len d == inject_Z (wf_n d))%Q) ->
  left_behind prog prog' ->
  compile c' tbl prog' = Ok o ->
  exists s, spec c' tbl prog = Some s /\ expand o = Some s.
Proof. exact recompile_plays_any. Qed.
Print Assumptions C16_recompile_plays_any.

(* (8'') the executable model of the in-place effect, Model.tree_after_with — which the correspondence check compares
   with the tree found in the real Loop object after a first TaborProgram(...) (cases CTwice) — only produces
   `left_behind` trees; so for a good program the tree after any first compilation is good and plays the same leaves *)
Theorem C16_tree_after_left_behind : forall ff pf c prog, left_behind prog (tree_after_with ff pf c prog).
Proof. exact tree_after_left_behind. Qed.
Print Assumptions C16_tree_after_left_behind.

Theorem C16_tree_after_ok : forall c prog, good prog = true ->
  good (tree_after c prog) = true /\ flatten (tree_after c prog) = flatten prog.
Proof. exact tree_after_ok. Qed.
Print Assumptions C16_tree_after_ok.

Theorem C16_recompile_nonvacuous : exists ch1 ch2 o,
  depth (root_of ex_prog) >? 1 = true /\ l_rep (root_of ex_prog) =? 1 = true /\
  fab fab_fuel 2 [] (l_ch (root_of ex_prog)) = Ok ch1 /\ prep prep_fuel 3 5 [] ch1 = Ok ch2 /\
  compile (ex_cfg 2 8) ex_tbl (set_ch (root_of ex_prog) ch2) = Ok o.
Proof. exact ex_recompile. Qed.
Print Assumptions C16_recompile_nonvacuous.

(* (9) tie to the CURRENT source of qupulse/_program/tabor.py (Gen_tabor.v is regenerated by
   translate/py2gallina_c16.py on every check: one Gallina boolean per if / elif / while / assert test, over declared
   observations of the Loop objects).  Each model function is the same function as a skeleton — the order of the
   branches and their actions — that takes ALL its decisions from the generated tests. *)
Theorem C16_source_merge_test : forall a b mx,
  merge_ok a b mx
  = gen_check_merge_with_next_t1 (l_rep a) (l_rep b) (negb (l_vol a)) (negb (l_vol b)) (l_len a) (l_len b) mx.
Proof. exact gen_merge_ok_eq. Qed.
Print Assumptions C16_source_merge_test.

Theorem C16_source_partial_unroll_tests : forall st mn,
  partial_unroll st mn =
  if pu_obs gen_check_partial_unroll_t1 st mn then None
  else if pu_obs gen_check_partial_unroll_t2 st mn then
    let st1 := if pu_obs gen_check_partial_unroll_t3 st mn then unroll_children st else st in
    Some (split_until (Z.to_nat (mn - l_len st1)) mn st1)
  else None.
Proof. exact gen_partial_unroll_eq. Qed.
Print Assumptions C16_source_partial_unroll_tests.

Theorem C16_source_prepare_tests : forall mn mx before after,
  prep_step mn mx before after = prep_step_gen mn mx before after.
Proof. exact gen_prep_step_eq. Qed.
Print Assumptions C16_source_prepare_tests.

Theorem C16_source_segment_length_test : forall ns : list Z,
  existsb (fun n => (n mod 16 >? 0) || (n <? 192)) ns
  = existsb (fun n => gen_calc_sampled_segments_t1 n 0 0 0 0 0) ns.
Proof. exact gen_segment_length_eq. Qed.
Print Assumptions C16_source_segment_length_test.

Theorem C16_source_init_tests : forall ff pf c tbl prog,
  compile_with ff pf c tbl prog = compile_with_gen ff pf c tbl prog.
Proof. exact gen_compile_with_eq. Qed.
Print Assumptions C16_source_init_tests.

(* ... and qupulse/program/loop.py: one iteration of Loop.flatten_and_balance (for every level, prefix, work list, and
   for the recursive call) and Loop._has_single_child_that_can_be_merged, with all decisions taken from Gen_loop.v *)
Theorem C16_source_can_merge_test : forall l,
  can_merge l = if merge_obs gen_has_single_child_that_can_be_merged_t1 l
                then merge_obs gen_has_single_child_that_can_be_merged_t2 l
                else merge_obs gen_has_single_child_that_can_be_merged_t3 l.
Proof. exact gen_can_merge_eq. Qed.
Print Assumptions C16_source_can_merge_test.

Theorem C16_source_flatten_and_balance_tests : forall f d done todo,
  fab (S f) d done todo =
  if negb (fab_obs gen_flatten_and_balance_t1 d done todo) then Ok (rev done)
  else
    let sub := hd dummy_l todo in let rest := tl todo in
    if fab_obs gen_flatten_and_balance_t2 d done todo then fab f d done (encapsulate sub :: rest)
    else if fab_obs gen_flatten_and_balance_t3 d done todo then
      match fab f (d - 1) [] (l_ch sub) with
      | Ok ch' => fab f d done (set_ch sub ch' :: rest)
      | Err e => Err e
      end
    else if fab_obs gen_flatten_and_balance_t4 d done todo then fab f d (sub :: done) rest
    else if fab_obs gen_flatten_and_balance_t5 d done todo then fab f d done (merge_child sub :: rest)
    else if fab_obs gen_flatten_and_balance_t6 d done todo then fab f d done (unroll sub ++ rest)
    else fab f d (sub :: done) rest.
Proof. exact gen_fab_eq. Qed.
Print Assumptions C16_source_flatten_and_balance_tests.

(* ---- round 4: the BOOKKEEPING of the two parsers, translated statement by statement from the current source
   (translate/py2gallina_c16.py, FuncStateTranslator: the mutable locals advanced_sequencer_table, sequencer_tables,
   waveforms, current_sequencer_table, volatile_parameter_positions become a record threaded through one Fixpoint per
   for loop; OrderedDict = association list in insertion order; Gen_parse.v is regenerated on every check).  The
   generated functions ARE the model's parsers on every input, after forgetting the jump flags (all 0), the grouping
   of the volatile tags and volatile_parameter_positions (C15's subject, not carried by Model.parsed). *)
Theorem C16_source_parse_aseq : forall tbl prog,
  map_result conv_parsed (gen_parse_aseq_program tbl prog) = parse_aseq tbl prog.
Proof. exact gen_parse_aseq_eq. Qed.
Print Assumptions C16_source_parse_aseq.

Theorem C16_source_parse_aseq_jump_flags : forall tbl prog g,
  gen_parse_aseq_program tbl prog = Ok g ->
  Forall (fun d => snd d = 0) (g_adv g) /\ Forall (Forall (fun e => snd (fst e) = 0)) (g_seqs g).
Proof. exact gen_parse_aseq_jump0. Qed.
Print Assumptions C16_source_parse_aseq_jump_flags.

Theorem C16_source_parse_single : forall tbl prog,
  depth prog = 1 ->
  map_result conv_parsed (gen_parse_single_seq_program tbl prog) = parse_single tbl prog.
Proof. exact gen_parse_single_eq. Qed.
Print Assumptions C16_source_parse_single.

Theorem C16_source_parse_single_asserts : forall tbl prog,
  depth prog <> 1 -> gen_parse_single_seq_program tbl prog = Err EAssert.
Proof. exact gen_parse_single_asserts. Qed.
Print Assumptions C16_source_parse_single_asserts.

(* Loop.split_one_child(): the model's choice of the child to split (`split_last`: the last child with a fixed count
   > 1, else the last volatile one) is the reverse scan of the source — `for ... in enumerate(reversed(self))` with
   `break` and `for-else` — taking its four tests from the generated file; `split_at` is the action. *)
Theorem C16_source_split_one_child : forall l,
  split_last l = option_map (fun i => split_at i l) (scan_gen (rev l) None).
Proof. exact gen_split_last_eq. Qed.
Print Assumptions C16_source_split_one_child.

(* ---- round 5 (audit) ---------------------------------------------------------------------------------------------
   The quantiser used by the SPECIFICATION (`Model.v2u`, shared with the compiler model: it is the definition of
   "voltage converted to a 14-bit code") characterised without its formula: defined exactly on the voltages within
   [offset - amplitude, offset + amplitude]; the code is an integer nearest to
   (v - offset + amplitude) / (2 amplitude) * 16383, and on an exact tie it is the even one. *)
Theorem C16_code_is_nearest : forall amp off v w, (0 < amp)%Q -> v2u amp off v = Some w ->
  (Qabs (v - off) <= amp)%Q /\
  (Qabs ((v - off + amp) / ((2 # 1) * amp) * (16383 # 1) - inject_Z w) <= 1 # 2)%Q /\
  ((Qabs ((v - off + amp) / ((2 # 1) * amp) * (16383 # 1) - inject_Z w) == 1 # 2)%Q -> Z.even w = true).
Proof. exact v2u_nearest. Qed.
Print Assumptions C16_code_is_nearest.

Theorem C16_code_defined_iff_in_range : forall amp off v,
  (exists w, v2u amp off v = Some w) <-> (Qabs (v - off) <= amp)%Q.
Proof. exact v2u_defined_iff. Qed.
Print Assumptions C16_code_defined_iff_in_range.

(* C16_plays with the hypothesis the harness inputs actually satisfy: waveforms of one equality class need equal
   length, sample count and equal data only ON THE CHANNELS THE CONFIGURATION USES (`restrict c` drops every other
   channel; Waveform equality in the compiler is taken after get_subset_for_channels(used_channels)).  Compiler
   model and specification are invariant under `restrict c` of the whole table. *)
Theorem C16_plays_used_channels : forall c tbl prog o,
  good prog = true ->
  (forall w1 w2 d1 d2, nth_error tbl w1 = Some d1 -> nth_error tbl w2 = Some d2 -> wf_cls d1 = wf_cls d2 ->
     restrict c d1 = restrict c d2) ->
  (forall w d, nth_error tbl w = Some d -> (wf_len d == inject_Z (wf_n d))%Q) ->
  compile c tbl prog = Ok o ->
  exists s, spec c tbl prog = Some s /\ expand o = Some s.
Proof. exact compile_plays_used. Qed.
Print Assumptions C16_plays_used_channels.

(* non-vacuity: a table with two objects per class that differ on an unused channel (the hypothesis of C16_plays is
   FALSE for it), a program that plays all four objects; accepted, two segments *)
Theorem C16_plays_used_channels_nonvacuous :
  good ex_prog_twins = true /\
  (forall w1 w2 d1 d2, nth_error ex_tbl_unused w1 = Some d1 -> nth_error ex_tbl_unused w2 = Some d2 ->
     wf_cls d1 = wf_cls d2 -> restrict (ex_cfg 3 5) d1 = restrict (ex_cfg 3 5) d2) /\
  (forall w d, nth_error ex_tbl_unused w = Some d -> (wf_len d == inject_Z (wf_n d))%Q) /\
  ~ (forall w1 w2 d1 d2, nth_error ex_tbl_unused w1 = Some d1 -> nth_error ex_tbl_unused w2 = Some d2 ->
       wf_cls d1 = wf_cls d2 -> d1 = d2) /\
  exists o, compile (ex_cfg 3 5) ex_tbl_unused ex_prog_twins = Ok o /\ (length (o_segs o) = 2)%nat.
Proof. exact ex_hyps_used. Qed.
Print Assumptions C16_plays_used_channels_nonvacuous.

(* non-vacuity of the segment stage (2): the first example waveform is packed into 384 words *)
Theorem C16_plays_segment_nonvacuous : exists bin,
  sample_segment (ex_cfg 3 5) (ex_wf 0 (1 # 4) 192) = Ok bin /\ length bin = 384%nat.
Proof. exact ex_segment. Qed.
Print Assumptions C16_plays_segment_nonvacuous.

(* ---- round 6: piece lengths "compatible with the sample rate" = within the tolerance of get_waveform_length ----------
   (clause Q1 of the statement; before: proved for exact integer lengths only, lengths within 1e-10 of an integer were
   decided by the Python harness).  `Spec.spec_tol`: a piece whose exact length is within the tolerance of its sample
   count wf_n is specified as its wf_n samples, a piece outside has no specification.  C16_plays for every table whose
   lengths are within the tolerance (equal data on the used channels as in C16_plays_used_channels): *)
Theorem C16_plays_within_tolerance : forall c tbl prog o,
  good prog = true ->
  (forall w1 w2 d1 d2, nth_error tbl w1 = Some d1 -> nth_error tbl w2 = Some d2 -> wf_cls d1 = wf_cls d2 ->
     restrict c d1 = restrict c d2) ->
  (forall w d, nth_error tbl w = Some d -> (Qabs (wf_len d - inject_Z (wf_n d)) <= tolerance)%Q) ->
  compile c tbl prog = Ok o ->
  exists s, spec_tol c tbl prog = Some s /\ expand o = Some s.
Proof. exact compile_plays_tol. Qed.
Print Assumptions C16_plays_within_tolerance.

(* the compiler model cannot tell a length within the tolerance from the integer itself (every fuel, configuration,
   table — also tables with pieces outside the tolerance, which `snap` leaves alone) ... *)
Theorem C16_tolerance_invisible : forall ff pf c tbl prog,
  compile_with ff pf c (map snap tbl) prog = compile_with ff pf c tbl prog.
Proof. exact compile_with_snap. Qed.
Print Assumptions C16_tolerance_invisible.

(* ... because get_waveform_length is constant on the tolerance interval around an integer (1e-10 < 1/2: the nearest
   integer is unique there) *)
Theorem C16_waveform_length_within_tolerance : forall len n,
  (Qabs (len - inject_Z n) <= tolerance)%Q -> waveform_length len = waveform_length (inject_Z n).
Proof. exact waveform_length_near. Qed.
Print Assumptions C16_waveform_length_within_tolerance.

(* spec_tol is the old specification on tables with exact lengths, and it is undefined as soon as the program plays a
   piece outside the tolerance (so Corr.check_spec, which evaluates spec_tol through spec_cached, fails on an
   implementation that accepts such a program) *)
Theorem C16_spec_tol_exact : forall c tbl prog,
  (forall w d, nth_error tbl w = Some d -> (wf_len d == inject_Z (wf_n d))%Q) -> spec_tol c tbl prog = spec c tbl prog.
Proof. exact spec_tol_exact. Qed.
Print Assumptions C16_spec_tol_exact.

Theorem C16_spec_tol_outside_tolerance : forall c tbl prog w wd,
  In w (flatten prog) -> nth_error tbl w = Some wd ->
  ~ (Qabs (wf_len wd - inject_Z (wf_n wd)) <= tolerance)%Q -> spec_tol c tbl prog = None.
Proof. exact spec_tol_outside. Qed.
Print Assumptions C16_spec_tol_outside_tolerance.

(* what Corr.check_spec evaluates (`spec_eval`) is spec_tol *)
Theorem C16_spec_eval_is_spec_tol : forall c tbl prog, spec_cached c (map snap tbl) prog = spec_tol c tbl prog.
Proof. intros c tbl prog. apply spec_cached_eq. Qed.
Print Assumptions C16_spec_eval_is_spec_tol.

(* non-vacuity: the example table with every piece 2^-40 samples too long — not exact (the hypothesis of C16_plays is
   false), within the tolerance — is accepted *)
Theorem C16_plays_within_tolerance_nonvacuous :
  good ex_prog = true /\
  (forall w1 w2 d1 d2, nth_error ex_tbl_near w1 = Some d1 -> nth_error ex_tbl_near w2 = Some d2 -> wf_cls d1 = wf_cls d2 ->
     restrict (ex_cfg 3 5) d1 = restrict (ex_cfg 3 5) d2) /\
  (forall w d, nth_error ex_tbl_near w = Some d -> (Qabs (wf_len d - inject_Z (wf_n d)) <= tolerance)%Q) /\
  ~ (forall w d, nth_error ex_tbl_near w = Some d -> (wf_len d == inject_Z (wf_n d))%Q) /\
  exists o, compile (ex_cfg 3 5) ex_tbl_near ex_prog = Ok o.
Proof. exact ex_hyps_tol. Qed.
Print Assumptions C16_plays_within_tolerance_nonvacuous.
