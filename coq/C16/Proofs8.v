(* C16 — a closed bound, in terms of the INPUT program alone, for the fuel of the second restructuring loop
   (prepare_program_for_advanced_sequence_mode): the measure of the tables that flatten_and_balance leaves is bounded by
   the "unrolled repetition weight" of the source tree,

       R (Loop r ch) = max(1,|r|) * max(1, sum_{c in ch} R c),

   because no step of flatten_and_balance increases the sum of R over its work list (encapsulation keeps it, merging a
   single child and unrolling can only lower it, the recursive call on the children of an unbalanced node lowers the
   node's own weight), every emitted table has weight >= 1 and >= its repetition count. *)
From Coq Require Import ZArith List Bool Lia ZifyBool.
Require Import QV.C16.Model QV.C16.Spec QV.C16.Proofs QV.C16.Proofs3 QV.C16.Proofs_term QV.C16.Proofs_fuel.
Import ListNotations.
Open Scope Z_scope.

Fixpoint R (t : loop) : nat :=
  match t with Loop r _ _ ch => (rmax r * Nat.max 1 (list_sum (map R ch)))%nat end.

Definition Rs (l : list loop) : nat := list_sum (map R l).

Definition prep_bound (l : list loop) : nat := S (2 * Rs l).

Lemma R_node r m w ch : R (Loop r m w ch) = (rmax r * Nat.max 1 (Rs ch))%nat.
Proof. reflexivity. Qed.

Lemma R_pos t : (1 <= R t)%nat.
Proof.
  destruct t as [r m w ch]. rewrite R_node. pose proof (rmax_pos r).
  set (x := Nat.max 1 (Rs ch)). assert (1 <= x)%nat by lia. nia.
Qed.

Lemma Rs_cons x l : Rs (x :: l) = (R x + Rs l)%nat.
Proof. reflexivity. Qed.

Lemma Rs_app a b : Rs (a ++ b) = (Rs a + Rs b)%nat.
Proof. unfold Rs. now rewrite map_app, list_sum_app. Qed.

Lemma Rs_length l : (length l <= Rs l)%nat.
Proof. induction l as [|x l IH]; [cbn; lia|]. rewrite Rs_cons. pose proof (R_pos x). cbn [length]. lia. Qed.

Lemma R_rep t : (Z.to_nat (l_rep t) <= R t)%nat.
Proof.
  destruct t as [r m w ch]. rewrite R_node. cbn [l_rep]. pose proof (rmax_to_nat r).
  set (x := Nat.max 1 (Rs ch)). assert (1 <= x)%nat by lia.
  apply Nat.le_trans with (rmax r * 1)%nat; [lia|apply Nat.mul_le_mono_l; lia].
Qed.

Lemma Rs_rsum l : (rsum l <= Rs l)%nat.
Proof.
  induction l as [|x l IH]; [cbn; lia|]. rewrite rsum_cons, Rs_cons. pose proof (R_rep x). lia.
Qed.

Lemma R_encapsulate sub : R (encapsulate sub) = R sub.
Proof.
  unfold encapsulate. rewrite R_node. change (Rs [sub]) with (R sub + 0)%nat. pose proof (R_pos sub).
  change (rmax 1) with 1%nat. lia.
Qed.

Lemma R_set_ch sub ch' : (Rs ch' <= Rs (l_ch sub))%nat -> (R (set_ch sub ch') <= R sub)%nat.
Proof.
  destruct sub as [r m w ch]. cbn [set_ch l_ch]. rewrite !R_node. intros H. pose proof (rmax_pos r).
  assert (Nat.max 1 (Rs ch') <= Nat.max 1 (Rs ch))%nat by lia. nia.
Qed.

Lemma R_merge sub : can_merge sub = true -> (R (merge_child sub) <= R sub)%nat.
Proof.
  destruct sub as [r m w [|[cr cm cw cch] [|c2 ch]]]; unfold can_merge; cbn [l_ch]; try discriminate.
  intros _. cbn [merge_child]. rewrite !R_node. rewrite Rs_cons, R_node. change (Rs []) with 0%nat.
  pose proof (rmax_mul r cr). pose proof (rmax_pos r). pose proof (rmax_pos cr).
  set (x := Nat.max 1 (Rs cch)) in *. assert (1 <= x)%nat by lia.
  replace (Nat.max 1 (rmax cr * x + 0)) with (rmax cr * x)%nat by nia. nia.
Qed.

Lemma R_unroll sub : (Rs (unroll sub) <= R sub)%nat.
Proof.
  destruct sub as [r m w ch]. unfold unroll. cbn [l_rep l_ch]. rewrite R_node. unfold Rs.
  rewrite list_sum_map_rep_concat. pose proof (rmax_to_nat r). fold (Rs ch).
  set (x := Nat.max 1 (Rs ch)). assert (Rs ch <= x)%nat by lia. nia.
Qed.

(* no step of flatten_and_balance increases the total weight *)
Theorem fabl_R : forall n d l out, fabl n d l = Ok out -> (Rs out <= Rs l)%nat.
Proof.
  induction n as [|f IH]; intros d l out H; [discriminate|]. rewrite fabl_S in H.
  destruct l as [|sub rest]; [injection H as <-; cbn; lia|].
  assert (K : keep sub (fabl f d rest) = Ok out -> (Rs out <= Rs (sub :: rest))%nat).
  { destruct (fabl f d rest) as [x|] eqn:E; [|discriminate]. cbn [keep]. intros [= <-]. apply IH in E.
    rewrite !Rs_cons. lia. }
  destruct (depth sub <? d - 1).
  { apply IH in H. rewrite Rs_cons, R_encapsulate in H. rewrite Rs_cons. exact H. }
  destruct (negb (balanced sub)).
  { destruct (fabl f (d - 1) (l_ch sub)) as [ch'|] eqn:E; [|discriminate]. apply IH in E. apply IH in H.
    rewrite Rs_cons in *. pose proof (R_set_ch sub ch' E). lia. }
  destruct (depth sub =? d - 1); [now apply K|].
  destruct (can_merge sub) eqn:Em.
  { apply IH in H. rewrite Rs_cons in *. pose proof (R_merge sub Em). lia. }
  destruct (negb (is_leaf sub)); [|now apply K].
  apply IH in H. rewrite Rs_app in H. rewrite Rs_cons. pose proof (R_unroll sub). lia.
Qed.

Lemma fab_R n d l out : fab n d [] l = Ok out -> (Rs out <= Rs l)%nat.
Proof.
  rewrite fab_fabl. unfold with_done. destruct (fabl n d l) as [x|] eqn:E; [|discriminate].
  cbn [rev app]. intros [= <-]. now apply fabl_R in E.
Qed.

(* the measure of prepare's start state is bounded by the weight of the tables it gets ... *)
Lemma prep_measure_Rs l : (prep_measure [] l <= 2 * Rs l)%nat.
Proof.
  unfold prep_measure. change (rsum []) with 0%nat. pose proof (Rs_length l). pose proof (Rs_rsum l). lia.
Qed.

(* ... hence by the weight of the source program's children *)
Theorem prep_measure_closed n l ch1 : fab n 2 [] l = Ok ch1 -> (prep_measure [] ch1 < prep_bound l)%nat.
Proof.
  intros H. apply fab_R in H. pose proof (prep_measure_Rs ch1). unfold prep_bound. lia.
Qed.

(* both fuel hypotheses from the input alone *)
Theorem compile_fuel_closed ff pf c tbl prog :
  (fab_bound 2 (l_ch (root_of prog)) <= ff)%nat ->
  (prep_bound (l_ch (root_of prog)) <= pf)%nat ->
  compile_with ff pf c tbl prog <> Err EFuel.
Proof.
  intros Hff Hpf. apply compile_fuel_explicit; [exact Hff|].
  intros ch1 H. pose proof (prep_measure_closed _ _ _ H). lia.
Qed.

(* `compile` (fixed fuel 4000 / 4000) never reports the fuel error on a program within the two closed bounds, and then
   its result is the result for every larger fuel *)
Theorem compile_fixed_fuel_enough c tbl prog :
  (fab_bound 2 (l_ch (root_of prog)) <= fab_fuel)%nat ->
  (prep_bound (l_ch (root_of prog)) <= prep_fuel)%nat ->
  compile c tbl prog <> Err EFuel.
Proof. apply compile_fuel_closed. Qed.

Lemma ex_fuel_closed :
  (fab_bound 2 (l_ch (root_of ex_prog)) <= fab_fuel)%nat /\ (prep_bound (l_ch (root_of ex_prog)) <= prep_fuel)%nat.
Proof. split; apply Nat.leb_le; vm_compute; reflexivity. Qed.

(* more fuel never changes a result of the compiler model other than the fuel error *)
Theorem compile_with_fuel_mono ff pf c tbl prog r :
  compile_with ff pf c tbl prog = r -> r <> Err EFuel ->
  forall k1 k2, compile_with (ff + k1) (pf + k2) c tbl prog = r.
Proof.
  unfold compile_with.
  set (prog1 := if (l_rep prog >? 1) || l_vol prog || (depth prog =? 0) then Loop 1 plain None [prog] else prog).
  destruct (negb (c_nchan c =? c_cpp c)); [intros <- _ k1 k2; reflexivity|].
  destruct (negb (c_nmark c =? c_cpp c)); [intros <- _ k1 k2; reflexivity|].
  destruct (negb (c_nchan c =? 2)); [intros <- _ k1 k2; reflexivity|].
  destruct (negb (match c_mode c with Some m => m | None => depth prog1 >? 1 end)); [intros <- _ k1 k2; reflexivity|].
  destruct (negb (depth prog1 >? 1)); [intros <- _ k1 k2; reflexivity|].
  destruct (negb (l_rep prog1 =? 1)); [intros <- _ k1 k2; reflexivity|].
  intros H Hr k1 k2.
  destruct (fab ff 2 [] (l_ch prog1)) as [ch1|e] eqn:Ef.
  - rewrite (fab_fuel_mono _ _ _ _ _ Ef ltac:(discriminate) k1). cbn [bind] in *.
    destruct (prep pf (c_min c) (c_max c) [] ch1) as [ch2|e2] eqn:Ep.
    + rewrite (prep_fuel_mono _ _ _ _ _ _ Ep ltac:(discriminate) k2). exact H.
    + assert (He : Err (A := list loop) e2 <> Err EFuel).
      { intros [= ->]. apply Hr. rewrite <- H. reflexivity. }
      rewrite (prep_fuel_mono _ _ _ _ _ _ Ep He k2). exact H.
  - assert (He : Err (A := list loop) e <> Err EFuel).
    { intros [= ->]. apply Hr. rewrite <- H. reflexivity. }
    rewrite (fab_fuel_mono _ _ _ _ _ Ef He k1). exact H.
Qed.

(* within the two closed bounds the fixed fuel of `compile` stands for "no bound at all" *)
Theorem compile_fixed_fuel_stable c tbl prog :
  (fab_bound 2 (l_ch (root_of prog)) <= fab_fuel)%nat ->
  (prep_bound (l_ch (root_of prog)) <= prep_fuel)%nat ->
  compile c tbl prog <> Err EFuel /\
  forall k1 k2, compile_with (fab_fuel + k1) (prep_fuel + k2) c tbl prog = compile c tbl prog.
Proof.
  intros H1 H2. pose proof (compile_fixed_fuel_enough c tbl prog H1 H2) as Hn. split; [exact Hn|].
  intros k1 k2. now apply compile_with_fuel_mono.
Qed.
