(* C16 — proofs, part 3: the restructuring pipeline of TaborProgram.__init__ and the device limits *)
From Coq Require Import ZArith QArith List Bool Lia ZifyBool.
Require Import QV.C16.Model QV.C16.Spec QV.C16.Proofs QV.C16.Proofs2.
Import ListNotations.
Open Scope Z_scope.

(* the root handling of TaborProgram.__init__ *)
Definition root_of (prog : loop) : loop :=
  if (l_rep prog >? 1) || l_vol prog || (depth prog =? 0) then Loop 1 plain None [prog] else prog.

Lemma root_of_ok prog : good prog = true -> good (root_of prog) = true /\ flatten (root_of prog) = flatten prog.
Proof.
  intros G. unfold root_of. destruct ((l_rep prog >? 1) || l_vol prog || (depth prog =? 0)); [|auto].
  apply (encapsulate_ok _ G).
Qed.

Lemma depth_pos_nonleaf l : 0 < depth l -> l_ch l <> [].
Proof. destruct l as [r m w [|c ch]]; cbn; [lia|congruence]. Qed.

(* advanced mode: whatever the two loops do (for every fuel), the tables they leave behind play the source program *)
Lemma restructure_preserves prog f1 f2 mn mx ch1 ch2 :
  good prog = true ->
  let prog1 := root_of prog in
  depth prog1 >? 1 = true -> l_rep prog1 =? 1 = true ->
  fab f1 2 [] (l_ch prog1) = Ok ch1 ->
  prep f2 mn mx [] ch1 = Ok ch2 ->
  forallb tgood ch2 = true /\ flatten (set_ch prog1 ch2) = flatten prog /\
  flatten prog = flat_list ch2.
Proof.
  intros G prog1 Hd Hr Hf Hp. destruct (root_of_ok _ G) as [G1 F1]. fold prog1 in G1, F1.
  assert (Hne : l_ch prog1 <> []) by (apply depth_pos_nonleaf; lia).
  destruct prog1 as [r m w ch] eqn:E. cbn [l_ch l_rep] in *.
  pose proof (good_inv _ _ _ _ G1) as (Hr0 & Hw & Hch). rewrite (Hw Hne) in *.
  assert (r = 1) by lia. subst r.
  pose proof (fab_ok f1 2 [] ch ch1 eq_refl Hch Hf) as [Gc1 Fc1]. cbn in Fc1.
  pose proof (fab_nonleaf f1 2 [] ch ch1 ltac:(lia) eq_refl Hf) as Nc1.
  assert (Tc1 : forallb tgood ch1 = true).
  { apply forallb_forall. intros t Ht. apply good_nonleaf_tgood.
    - eapply forallb_forall in Gc1; eauto.
    - eapply forallb_forall in Nc1; eauto. }
  pose proof (prep_ok f2 mn mx [] ch1 ch2 eq_refl Tc1 Hp) as [Tc2 Fc2]. unfold tables_flat in Fc2. cbn in Fc2.
  split; [exact Tc2|]. cbn [set_ch].
  assert (X : flatten prog = flat_list ch2).
  { rewrite <- F1, tflatten, rep_concat_1, Fc2, Fc1. reflexivity. }
  split; [|exact X]. now rewrite tflatten, rep_concat_1, X.
Qed.

(* ---------------------------------------------------------------------------------------------------------- *)
(* device limits of what is emitted *)

Lemma map_res_Forall2 {A B} (f : A -> result B) : forall l r, map_res f l = Ok r -> Forall2 (fun x y => f x = Ok y) l r.
Proof.
  induction l as [|x l IH]; intros r H; cbn in H; [injection H as <-; constructor|].
  unfold bind in H. destruct (f x) eqn:Ex; [|discriminate]. destruct (map_res f l) eqn:E; [|discriminate].
  injection H as <-. constructor; auto.
Qed.

Lemma find_idx_spec {A} (p : A -> bool) : forall l i j, find_idx p l i = Some j ->
  i <= j /\ exists x, nth_error l (Z.to_nat (j - i)) = Some x /\ p x = true.
Proof.
  induction l as [|x l IH]; intros i j H; cbn in H; [discriminate|].
  destruct (p x) eqn:Ep.
  - injection H as <-. split; [lia|]. exists x. rewrite Z.sub_diag. auto.
  - apply IH in H as (Hi & y & Hy & Hp). split; [lia|]. exists y. split; [|exact Hp].
    replace (Z.to_nat (j - i)) with (S (Z.to_nat (j - (i + 1)))) by lia. exact Hy.
Qed.

Lemma setdefault_In {A} (eqb : A -> A -> bool) k l i l' : setdefault eqb k l = (i, l') ->
  forall x, In x l' -> In x l \/ x = k.
Proof.
  unfold setdefault. destruct (find_idx (eqb k) l 0); intros H; injection H as <- <-; intros x Hx; auto.
  apply in_app_or in Hx as [Hx|Hx]; [auto|]. destruct Hx as [Hx|Hx]; [auto|destruct Hx].
Qed.

Lemma dedup_segments_In : forall bins segs w2s segs' w2s',
  dedup_segments bins segs w2s = (segs', w2s') -> forall s, In s segs' -> In s segs \/ In s bins.
Proof.
  induction bins as [|b r IH]; intros segs w2s segs' w2s' H s Hs; cbn in H.
  - injection H as <- <-. auto.
  - destruct (setdefault zlist_eqb b segs) as [i segs1] eqn:E.
    destruct (IH _ _ _ _ H s Hs) as [H1|H1]; [|right; now right].
    destruct (setdefault_In _ _ _ _ _ E s H1) as [H2| ->]; [now left|right; now left].
Qed.

Lemma forallb2_map_self {A B} (g : A -> B) (f : A -> B -> bool) l :
  (forall x, In x l -> f x (g x) = true) -> forallb2 f l (map g l) = true.
Proof.
  induction l as [|x l IH]; intros H; cbn; [reflexivity|]. rewrite H by now left. apply IH. intros; apply H; now right.
Qed.

Lemma calc_segments_limits c tbl p adv o : calc_segments c tbl p adv = Ok o ->
  segments_ok o = true /\ o_adv o = p_adv p /\ map (@length _) (o_seqs o) = map (@length _) (p_seqs p) /\
  o_advanced o = adv.
Proof.
  unfold calc_segments. destruct (p_wfs p) as [|kw0 kws] eqn:Ew; [discriminate|]. rewrite <- Ew. clear Ew kw0 kws.
  unfold bind. destruct (map_res _ (p_wfs p)) as [wds|] eqn:E1; [|discriminate].
  destruct (map_res (fun wd => waveform_length (wf_len wd)) wds) as [ns|] eqn:E2; [|discriminate].
  destruct (existsb _ ns) eqn:E3; [discriminate|].
  destruct (negb (forallb _ (combine wds ns))) eqn:E4; [discriminate|].
  destruct (map_res (sample_segment c) wds) as [bins|] eqn:E5; [|discriminate].
  destruct (dedup_segments bins [] []) as [segs w2s] eqn:E6.
  destruct (map_res _ (p_seqs p)) as [seqs|] eqn:E7; [|discriminate].
  intros H. injection H as <-. cbn [o_segs o_lens o_seqs o_adv o_advanced segments_ok].
  split; [|split; [reflexivity|split; [|reflexivity]]].
  - (* every emitted segment is the sampled binary of a waveform whose length was checked *)
    apply forallb2_map_self. intros s Hs.
    destruct (dedup_segments_In _ _ _ _ _ E6 s Hs) as [Hb|Hb]; [destruct Hb|].
    apply map_res_Forall2 in E5. apply map_res_Forall2 in E2. apply negb_false_iff in E4.
    assert (Hwd : exists wd, In wd wds /\ sample_segment c wd = Ok s).
    { clear - E5 Hb. induction E5; [destruct Hb|]. destruct Hb as [<-|Hb].
      - eexists; split; [now left|eassumption].
      - destruct (IHE5 Hb) as (wd & ? & ?). exists wd. split; [now right|assumption]. }
    destruct Hwd as (wd & Hin & Hs').
    assert (Hn : wf_n wd mod 16 = 0 /\ 192 <= wf_n wd).
    { clear - E2 E3 E4 Hin. revert E3 E4. induction E2; [destruct Hin|]. cbn [existsb combine forallb].
      intros E3 E4. apply orb_false_iff in E3 as [E3a E3b]. apply andb_prop in E4 as [E4a E4b]. cbn [fst snd] in E4a.
      destruct Hin as [<-|Hin]; [|auto]. apply Z.eqb_eq in E4a. rewrite E4a.
      apply orb_false_iff in E3a as [Ea Eb]. pose proof (Z.mod_pos_bound y 16 ltac:(lia)). lia. }
    destruct Hn as [Hm Hge].
    destruct (sample_segment_decodes _ _ _ Hs' ltac:(lia) Hm) as (a & b & ma & mb & _ & _ & _ & _ & HL & _).
    unfold segment_ok. rewrite HL. replace (2 * wf_n wd / 2) with (wf_n wd) by (rewrite Z.mul_comm, Z.div_mul; lia).
    lia.
  - apply map_res_Forall2 in E7. clear - E7. induction E7; [reflexivity|]. cbn [map]. f_equal; [|assumption].
    apply map_res_Forall2 in H. clear - H. induction H; cbn; auto.
Qed.

Lemma parse_table_length tbl : forall ch known es known', parse_table tbl ch known = Ok (es, known') ->
  length es = length ch.
Proof.
  induction ch as [|c r IH]; intros known es known' H; cbn in H; [injection H as <- <-; reflexivity|].
  destruct (l_wf c); [|discriminate]. destruct (cls_of tbl n); [|discriminate].
  destruct (setdefault wf_key_eqb (z, n) known) as [idx k1]. unfold bind in H.
  destruct (parse_table tbl r k1) as [[es' k2]|] eqn:E; [|discriminate]. injection H as <- <-.
  cbn. f_equal. eapply IH; eauto.
Qed.

Lemma parse_aseq_loop_lengths (P : nat -> Prop) tbl : forall tables adv seqs known p,
  Forall (fun k : tkey => P (length (fst k))) seqs -> Forall (fun t => P (length (l_ch t))) tables ->
  parse_aseq_loop tbl tables adv seqs known = Ok p -> Forall (fun es => P (length es)) (p_seqs p).
Proof.
  induction tables as [|t r IH]; intros adv seqs known p Hs Ht H; cbn in H.
  - injection H as <-. cbn [p_seqs]. apply Forall_map. exact Hs.
  - unfold bind in H. destruct (parse_table tbl (l_ch t) known) as [[es k1]|] eqn:E; [|discriminate].
    destruct (setdefault tkey_eqb (es, map l_volp (l_ch t)) seqs) as [sidx seqs'] eqn:E2.
    inversion Ht as [|? ? Pt Ht']; subst.
    eapply IH; [| exact Ht' | exact H].
    apply Forall_forall. intros x Hx. destruct (setdefault_In _ _ _ _ _ E2 x Hx) as [Hin| ->].
    + eapply Forall_forall in Hs; eauto.
    + cbn [fst]. now rewrite (parse_table_length _ _ _ _ _ E).
Qed.

Lemma tables_ok_max c o : tables_ok c o = true -> tables_max_ok c o = true.
Proof.
  unfold tables_ok, tables_max_ok. intros H. apply forallb_forall. intros t Ht.
  eapply forallb_forall in H; [|exact Ht]. cbn beta zeta in H. lia.
Qed.

Lemma compile_with_limits ff pf c tbl prog o : compile_with ff pf c tbl prog = Ok o ->
  segments_ok o = true /\ (o_advanced o = true -> tables_ok c o = true) /\ tables_max_ok c o = true.
Proof.
  unfold compile_with. fold (root_of prog). set (prog1 := root_of prog).
  destruct (negb (c_nchan c =? c_cpp c)); [discriminate|].
  destruct (negb (c_nmark c =? c_cpp c)); [discriminate|].
  destruct (negb (c_nchan c =? 2)); [discriminate|].
  destruct (negb (match c_mode c with Some m => m | None => depth prog1 >? 1 end)).
  - destruct (negb (depth prog1 =? 1)); [discriminate|]. destruct (negb (balanced prog1)); [discriminate|].
    destruct (l_len prog1 >? c_max c) eqn:Emax; [discriminate|].
    unfold bind. destruct (parse_single tbl prog1) as [p|] eqn:Ep; [|discriminate]. intros H.
    destruct (calc_segments_limits _ _ _ _ _ H) as (S1 & _ & S3 & S4). split; [exact S1|].
    split; [rewrite S4; discriminate|].
    unfold parse_single, bind in Ep. destruct (parse_table tbl (l_ch prog1) []) as [[es known]|] eqn:Et; [|discriminate].
    injection Ep as <-. cbn [p_seqs map] in S3. apply parse_table_length in Et.
    unfold tables_max_ok. destruct (o_seqs o) as [|t [|t2 ts]]; cbn [map] in S3; try discriminate.
    injection S3 as S3. cbn [forallb]. rewrite S3, Et. unfold l_len in Emax. lia.
  - destruct (negb (depth prog1 >? 1)); [discriminate|]. destruct (negb (l_rep prog1 =? 1)); [discriminate|].
    unfold bind. destruct (fab ff 2 [] (l_ch prog1)) as [ch1|]; [|discriminate].
    destruct (prep pf (c_min c) (c_max c) [] ch1) as [ch2|]; [|discriminate].
    destruct (negb (forallb _ ch2)) eqn:Ea; [discriminate|]. apply negb_false_iff in Ea.
    destruct (parse_aseq tbl (set_ch prog1 ch2)) as [p|] eqn:Ep; [|discriminate]. intros H.
    destruct (calc_segments_limits _ _ _ _ _ H) as (S1 & _ & S3 & _). split; [exact S1|].
    assert (T : tables_ok c o = true).
    { unfold parse_aseq in Ep. replace (l_ch (set_ch prog1 ch2)) with ch2 in Ep by (destruct prog1; reflexivity).
      pose (P := fun n : nat => (c_min c <=? Z.of_nat n) && (Z.of_nat n <=? c_max c) = true).
      assert (HP : Forall (fun es => P (length es)) (p_seqs p)).
      { eapply parse_aseq_loop_lengths; [constructor| |exact Ep].
        apply Forall_forall. intros t Ht. eapply forallb_forall in Ea; [|exact Ht]. unfold P, l_len in *. lia. }
      unfold tables_ok. apply forallb_forall. intros t Ht.
      assert (HL : In (length t) (map (@length _) (o_seqs o))) by (apply in_map; exact Ht).
      rewrite S3 in HL. apply in_map_iff in HL as (es & Hes & Hin). eapply Forall_forall in HP; [|exact Hin].
      unfold P in HP. rewrite Hes in HP. exact HP. }
    split; [intros _; exact T|now apply tables_ok_max].
Qed.

Lemma compile_limits c tbl prog o : compile c tbl prog = Ok o ->
  segments_ok o = true /\ (o_advanced o = true -> tables_ok c o = true) /\ tables_max_ok c o = true.
Proof. apply compile_with_limits. Qed.

(* ---------------------------------------------------------------------------------------------------------- *)
(* witnesses (non-vacuity / refutation), evaluated by the kernel's VM *)

Definition ex_wf (cls : Z) (v : Q) (n : nat) : wfdata :=
  {| wf_cls := cls; wf_len := inject_Z (Z.of_nat n); wf_n := Z.of_nat n;
     wf_data := [(0, repeat v n); (2, repeat 1%Q 96 ++ repeat 0%Q (n - 96))] |}.
Definition ex_tbl : list wfdata := [ex_wf 0 (1 # 4) 192; ex_wf 1 (-1 # 2) 208].
Definition ex_cfg (mn mx : Z) : cfg :=
  {| c_nchan := 2; c_nmark := 2; c_cpp := 2; c_cha := Some 0; c_chb := None; c_ma := Some 2; c_mb := None;
     c_amp_a := 1; c_amp_b := 1; c_off_a := 0; c_off_b := 0; c_tr_a := (1, 0)%Q; c_tr_b := (1, 0)%Q;
     c_min := mn; c_max := mx; c_mode := None |}.
Definition ex_leaf (w : nat) (r : Z) : loop := Loop r plain (Some w) [].
Definition ex_prog : loop :=
  Loop 1 plain None [Loop 1 {| has_meas := true; vol := None |} None [Loop 1 plain None [ex_leaf 0 1]];
                     Loop 3 plain None [ex_leaf 1 1; ex_leaf 0 1];
                     ex_leaf 1 2; Loop 1 plain None [ex_leaf 1 1; ex_leaf 0 2; ex_leaf 0 1]].

Definition ex_accepts : bool :=
  match compile (ex_cfg 3 5) ex_tbl ex_prog, spec (ex_cfg 3 5) ex_tbl ex_prog with
  | Ok o, Some s =>
      match expand o with
      | Some s' => zlist_eqb (s_a s) (s_a s') && zlist_eqb (s_b s) (s_b s')
                   && (Nat.eqb (length (s_ma s)) (length (s_ma s'))) && limits_ok (ex_cfg 3 5) o && o_advanced o
                   && Nat.eqb (length (o_seqs o)) 3
      | None => false
      end
  | _, _ => false
  end.

Lemma ex_accepts_true : ex_accepts = true.
Proof. vm_compute. reflexivity. Qed.

Lemma ex_good : good ex_prog = true.
Proof. reflexivity. Qed.

(* SINGLE mode never looks at min_seq_len / max_seq_len *)
Definition ex_single : loop := Loop 1 plain None [ex_leaf 0 1].
Lemma single_mode_tables_unchecked :
  exists o, compile (ex_cfg 3 4) ex_tbl ex_single = Ok o /\ o_advanced o = false /\ tables_ok (ex_cfg 3 4) o = false.
Proof.
  destruct (compile (ex_cfg 3 4) ex_tbl ex_single) as [o|e] eqn:E.
  - exists o. split; [reflexivity|]. revert E. vm_compute. intros E. injection E as <-. split; reflexivity.
  - exfalso. revert E. vm_compute. discriminate.
Qed.
