(* C16 — spec_cached (the specification arranged for evaluation: one quantisation per waveform of the table) equals
   spec for every configuration, waveform table and program. *)
From Coq Require Import ZArith QArith List Bool Lia.
Require Import QV.C16.Model QV.C16.Spec.
Import ListNotations.
Open Scope Z_scope.

(* functions on lists that distribute over concatenation (possibly failing) *)
Definition app_hom {A B} (F : list A -> option (list B)) : Prop :=
  F [] = Some [] /\
  forall a b, F (a ++ b) = match F a, F b with Some x, Some y => Some (x ++ y) | _, _ => None end.

Lemma app_hom_concat {A B} (F : list A -> option (list B)) : app_hom F ->
  forall l : list (option (list A)),
    opt_bind (opt_concat l) F = opt_concat (map (fun x => opt_bind x F) l).
Proof.
  intros [H0 Happ]. induction l as [|x l IH]; simpl; [exact H0|].
  destruct x as [a|]; simpl.
  - rewrite <- IH. destruct (opt_concat l) as [b|]; simpl.
    + apply Happ.
    + now destruct (F a).
  - reflexivity.
Qed.

Lemma map_opt_app_eq {A B} (f : A -> option B) : forall a b,
  map_opt f (a ++ b) = match map_opt f a, map_opt f b with Some x, Some y => Some (x ++ y) | _, _ => None end.
Proof.
  induction a as [|x a IH]; intros b; simpl.
  - now destruct (map_opt f b).
  - rewrite IH. destruct (f x); [|reflexivity].
    destruct (map_opt f a); [|reflexivity]. now destruct (map_opt f b).
Qed.

Lemma app_hom_map_opt {A B} (f : A -> option B) : app_hom (map_opt f).
Proof. split; [reflexivity|apply map_opt_app_eq]. Qed.

Lemma app_hom_map {A B} (g : A -> B) : app_hom (fun vs => Some (map g vs)).
Proof. split; [reflexivity|]. intros a b. now rewrite map_app. Qed.

Lemma nth_error_seq : forall n s w, (w < n)%nat -> nth_error (seq s n) w = Some (s + w)%nat.
Proof.
  induction n as [|n IH]; intros s w H; [lia|]. destruct w as [|w]; simpl.
  - now rewrite Nat.add_0_r.
  - rewrite IH by lia. f_equal. lia.
Qed.

Lemma lookup_cache {A} (f : nat -> option A) n w : (forall k, (n <= k)%nat -> f k = None) ->
  lookup (cache_of f n) w = f w.
Proof.
  intros Hn. unfold lookup, cache_of.
  destruct (Nat.lt_ge_cases w n) as [Hlt|Hge].
  - now rewrite (map_nth_error f w (seq 0 n) (nth_error_seq n 0 w Hlt)).
  - rewrite (proj2 (nth_error_None _ _)); [now rewrite Hn|].
    now rewrite map_length, seq_length.
Qed.

Lemma src_samples_out tbl ch d k : (length tbl <= k)%nat -> src_samples tbl ch d k = None.
Proof.
  intros H. unfold src_samples, wf_at. now rewrite (proj2 (nth_error_None _ _) H).
Qed.

Lemma map_lookup_cache {A} (f : nat -> option A) n played : (forall k, (n <= k)%nat -> f k = None) ->
  map (lookup (cache_of f n)) played = map f played.
Proof. intros H. apply map_ext. intros w. now apply lookup_cache. Qed.

Lemma codes_stream tbl ch amp off tr played : amp_ok ch amp = true ->
  opt_concat (map (piece_codes tbl ch amp off tr) played)
  = opt_bind (src_stream tbl ch 0 played) (quantise_channel ch amp off tr).
Proof.
  intros Ha. unfold src_stream, piece_codes.
  assert (Hh : app_hom (quantise_channel ch amp off tr)).
  { unfold quantise_channel. destruct ch as [c|].
    - simpl in Ha. destruct (Qle_bool amp 0); [discriminate|]. apply app_hom_map_opt.
    - apply (app_hom_map (fun _ : Q => 8192)). }
  rewrite (app_hom_concat _ Hh), map_map. reflexivity.
Qed.

Lemma marks_stream tbl m played :
  opt_concat (map (piece_marks tbl m) played)
  = opt_bind (src_stream tbl m 0 played) (fun vs => Some (map nonzero vs)).
Proof.
  unfold src_stream, piece_marks.
  rewrite (app_hom_concat _ (app_hom_map nonzero)), map_map. reflexivity.
Qed.

Lemma evens_map {A B} (g : A -> B) : forall l, evens (map g l) = map g (evens l).
Proof.
  fix IH 1. intros [|x [|y l]]; simpl; [reflexivity|reflexivity|]. now rewrite IH.
Qed.

Lemma quantise_bad_amp ch amp off tr vs : amp_ok ch amp = false -> quantise_channel ch amp off tr vs = None.
Proof.
  unfold amp_ok, quantise_channel. destruct ch; [|discriminate]. now destruct (Qle_bool amp 0).
Qed.

Theorem spec_cached_eq c tbl prog : spec_cached c tbl prog = spec c tbl prog.
Proof.
  unfold spec_cached, spec.
  set (played := flatten prog).
  rewrite !map_lookup_cache
    by (intros k Hk; unfold piece_codes, piece_marks; now rewrite src_samples_out).
  rewrite !marks_stream.
  destruct (amp_ok (c_cha c) (c_amp_a c)) eqn:Ea; simpl.
  - destruct (amp_ok (c_chb c) (c_amp_b c)) eqn:Eb; simpl.
    + rewrite !codes_stream by assumption.
      destruct (src_stream tbl (c_cha c) 0 played) as [va|]; simpl; [|reflexivity].
      destruct (src_stream tbl (c_chb c) 0 played) as [vb|]; simpl.
      2:{ now destruct (quantise_channel (c_cha c) (c_amp_a c) (c_off_a c) (c_tr_a c) va). }
      destruct (src_stream tbl (c_ma c) 0 played) as [vma|]; simpl.
      2:{ destruct (quantise_channel (c_cha c) (c_amp_a c) (c_off_a c) (c_tr_a c) va); simpl; [|reflexivity].
          now destruct (quantise_channel (c_chb c) (c_amp_b c) (c_off_b c) (c_tr_b c) vb). }
      destruct (src_stream tbl (c_mb c) 0 played) as [vmb|]; simpl.
      2:{ destruct (quantise_channel (c_cha c) (c_amp_a c) (c_off_a c) (c_tr_a c) va); simpl; [|reflexivity].
          now destruct (quantise_channel (c_chb c) (c_amp_b c) (c_off_b c) (c_tr_b c) vb). }
      destruct (quantise_channel (c_cha c) (c_amp_a c) (c_off_a c) (c_tr_a c) va); simpl; [|reflexivity].
      destruct (quantise_channel (c_chb c) (c_amp_b c) (c_off_b c) (c_tr_b c) vb); simpl; [|reflexivity].
      now rewrite !evens_map.
    + destruct (src_stream tbl (c_cha c) 0 played) as [va|]; simpl; [|reflexivity].
      destruct (src_stream tbl (c_chb c) 0 played) as [vb|]; simpl; [|reflexivity].
      destruct (src_stream tbl (c_ma c) 0 played) as [vma|]; simpl; [|reflexivity].
      destruct (src_stream tbl (c_mb c) 0 played) as [vmb|]; simpl; [|reflexivity].
      destruct (quantise_channel (c_cha c) (c_amp_a c) (c_off_a c) (c_tr_a c) va); simpl; [|reflexivity].
      now rewrite quantise_bad_amp.
  - destruct (src_stream tbl (c_cha c) 0 played) as [va|]; simpl; [|reflexivity].
    destruct (src_stream tbl (c_chb c) 0 played) as [vb|]; simpl; [|reflexivity].
    destruct (src_stream tbl (c_ma c) 0 played) as [vma|]; simpl; [|reflexivity].
    destruct (src_stream tbl (c_mb c) 0 played) as [vmb|]; simpl; [|reflexivity].
    now rewrite quantise_bad_amp.
Qed.
