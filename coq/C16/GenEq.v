(* C16 — tie of the model's DECISIONS to the current source of qupulse/_program/tabor.py.
   Gen_tabor.v is regenerated on every check by translate/py2gallina_c16.py: one Gallina boolean per if / elif /
   while / assert test of _check_merge_with_next, _check_partial_unroll, prepare_program_for_advanced_sequence_mode and
   TaborProgram._calc_sampled_segments, over declared observations of the Loop objects.  Here every model function
   is shown to be the same function as a skeleton (the order of the branches and their actions) that takes all its
   decisions from the generated tests.  A change of a test in the source changes Gen_tabor.v and breaks these proofs. *)
From Coq Require Import ZArith List Bool Lia ZifyBool.
Require Import QV.C16.Model QV.C16.Gen_tabor.
Import ListNotations.
Open Scope Z_scope.

(* ---- _check_merge_with_next ---- *)
Theorem gen_merge_ok_eq a b mx :
  merge_ok a b mx
  = gen_check_merge_with_next_t1 (l_rep a) (l_rep b) (negb (l_vol a)) (negb (l_vol b)) (l_len a) (l_len b) mx.
Proof.
  (* by cases on the atoms, not by syntactic identity: a re-ordering of the conjuncts in the source keeps this proof *)
  unfold merge_ok, gen_check_merge_with_next_t1.
  destruct (l_rep a =? 1), (l_rep b =? 1), (l_vol a), (l_vol b), (l_len a + l_len b <? mx) eqn:E; cbn;
    try reflexivity; try (rewrite ?E; reflexivity); try (rewrite Z.add_comm, E || rewrite Z.add_comm in E; rewrite ?E; reflexivity).
Qed.

(* ---- _check_partial_unroll ---- *)
Definition pu_obs {T} (f : bool -> Z -> Z -> Z -> Z -> T) (st : loop) (mn : Z) : T :=
  f (l_vol st) (sum_reps (l_ch st)) (l_rep st) (l_len st) mn.

Theorem gen_partial_unroll_eq st mn :
  partial_unroll st mn =
  if pu_obs gen_check_partial_unroll_t1 st mn then None
  else if pu_obs gen_check_partial_unroll_t2 st mn then
    let st1 := if pu_obs gen_check_partial_unroll_t3 st mn then unroll_children st else st in
    Some (split_until (Z.to_nat (mn - l_len st1)) mn st1)
  else None.
Proof. reflexivity. Qed.

Theorem gen_split_until_eq k mn st :
  split_until k mn st =
  if pu_obs gen_check_partial_unroll_t4 st mn then
    match k with
    | O => Err EFuel
    | S k' => match split_last (l_ch st) with
              | Some ch' => split_until k' mn (set_ch st ch')
              | None => Err ECrash
              end
    end
  else Ok st.
Proof. destruct k; reflexivity. Qed.

(* ---- TaborProgram._calc_sampled_segments: the length test, per waveform ---- *)
Theorem gen_segment_length_eq (ns : list Z) :
  existsb (fun n => (n mod 16 >? 0) || (n <? 192)) ns
  = existsb (fun n => gen_calc_sampled_segments_t1 n 0 0 0 0 0) ns.
Proof. reflexivity. Qed.

(* ---- prepare_program_for_advanced_sequence_mode: one iteration ---- *)
Definition dummy : loop := Loop 0 plain None [].

Definition prep_obs {T}
  (f : Z -> Z -> Z -> Z -> Z -> Z -> Z -> Z -> bool -> bool -> bool -> bool -> bool -> bool -> Z -> Z -> T)
  (mn mx : Z) (before after : list loop) : T :=
  let cur := hd dummy after in
  let p := hd dummy before in
  let nx := hd dummy (tl after) in
  f (Z.of_nat (length before)) (Z.of_nat (length before + length after))
    (l_len cur) (l_len p) (l_len nx) (l_rep cur) (l_rep p) (l_rep nx)
    (negb (l_vol cur)) (l_vol p) (l_vol nx)
    (merge_ok p cur mx) (merge_ok cur nx mx)
    (match partial_unroll cur mn with Some _ => true | None => false end)
    mn mx.

(* what the branch `_check_partial_unroll(...) returned True: i += 1` does (an error inside it is passed on) *)
Definition partial_action (cur : loop) (mn : Z) (before rest : list loop) : pstep :=
  match partial_unroll cur mn with
  | Some (Ok cur') => PNext (cur' :: before) rest
  | Some (Err e) => PErr e
  | None => PErr ECrash          (* not reached: only used under the test *)
  end.

Definition prep_step_gen (mn mx : Z) (before after : list loop) : pstep :=
  let t {T} (f : Z -> Z -> Z -> Z -> Z -> Z -> Z -> Z -> bool -> bool -> bool -> bool -> bool -> bool -> Z -> Z -> T) :=
    prep_obs f mn mx before after in
  if negb (t gen_prepare_program_for_advanced_sequence_mode_t1) then PDone (rev before)
  else
    let cur := hd dummy after in let rest := tl after in
    let p := hd dummy before in let bt := tl before in
    let nx := hd dummy rest in let rt := tl rest in
    if t gen_prepare_program_for_advanced_sequence_mode_t2 then PErr ETooLong
    else if t gen_prepare_program_for_advanced_sequence_mode_t3 then
      if negb (t gen_prepare_program_for_advanced_sequence_mode_t4) then PErr EAssert
      else if t gen_prepare_program_for_advanced_sequence_mode_t5 then
        if t gen_prepare_program_for_advanced_sequence_mode_t6 then PNext (append_children p cur :: bt) rest
        else if t gen_prepare_program_for_advanced_sequence_mode_t7 then PNext before (append_children cur nx :: rt)
        else if t gen_prepare_program_for_advanced_sequence_mode_t8 then partial_action cur mn before rest
        else if t gen_prepare_program_for_advanced_sequence_mode_t9
             then PNext (dec_rep p :: bt) (prepend_children p cur :: rest)
        else if t gen_prepare_program_for_advanced_sequence_mode_t11
             then PNext before (append_children cur nx :: dec_rep nx :: rt)
        else PErr ETooShort
      else if t gen_prepare_program_for_advanced_sequence_mode_t13 then partial_action cur mn before rest
      else PErr ETooShort
    else PNext (cur :: before) rest.

Ltac split_ifs :=
  repeat match goal with
         | |- context [if ?c then _ else _] => destruct c eqn:?
         | |- context [match partial_unroll ?c ?m with _ => _ end] => destruct (partial_unroll c m) as [[?|?]|] eqn:?
         end.

Theorem gen_prep_step_eq mn mx before after : prep_step mn mx before after = prep_step_gen mn mx before after.
Proof.
  unfold prep_step_gen, prep_obs, partial_action, after_unroll,
    gen_prepare_program_for_advanced_sequence_mode_t1, gen_prepare_program_for_advanced_sequence_mode_t2,
    gen_prepare_program_for_advanced_sequence_mode_t3, gen_prepare_program_for_advanced_sequence_mode_t4,
    gen_prepare_program_for_advanced_sequence_mode_t5, gen_prepare_program_for_advanced_sequence_mode_t6,
    gen_prepare_program_for_advanced_sequence_mode_t7, gen_prepare_program_for_advanced_sequence_mode_t8,
    gen_prepare_program_for_advanced_sequence_mode_t9, gen_prepare_program_for_advanced_sequence_mode_t11,
    gen_prepare_program_for_advanced_sequence_mode_t13.
  destruct after as [|cur rest].
  - cbn [prep_step length]. replace (_ <? _) with false by lia. reflexivity.
  - cbn [hd tl length]. replace (Z.of_nat (length before) <? _) with true by lia. cbn [negb].
    unfold prep_step, after_unroll.
    destruct before as [|p bt]; destruct rest as [|nx rt]; cbn [hd tl length];
      repeat match goal with
             | |- context [?x >? ?y] =>
                 match x with context [Z.of_nat] => idtac | _ => match y with context [Z.of_nat] => idtac end end;
                 first [replace (x >? y) with true by lia|replace (x >? y) with false by lia]
             | |- context [?x <? ?y] =>
                 match x with context [Z.of_nat] => idtac | _ => match y with context [Z.of_nat] => idtac end end;
                 first [replace (x <? y) with true by lia|replace (x <? y) with false by lia]
             end; cbn [andb];
      destruct (l_len cur >? mx); try reflexivity;
      destruct (l_len cur <? mn); try reflexivity;
      destruct (l_rep cur >? 0); cbn [negb]; try reflexivity;
      destruct ((l_rep cur =? 1) && negb (l_vol cur)); try reflexivity;
      split_ifs; try reflexivity; try discriminate; try (exfalso; lia).
Qed.

(* ---- TaborProgram.__init__, setup_single_sequence_mode, setup_advanced_sequence_mode ---- *)
Definition init_obs {T} (f : Z -> Z -> Z -> Z -> bool -> Z -> bool -> bool -> bool -> T) (c : cfg) (p : loop)
  (single : bool) : T :=
  f (c_nchan c) (c_nmark c) (c_cpp c) (l_rep p) (l_vol p) (depth p)
    (match c_mode c with None => true | Some _ => false end) true single.

Definition single_obs {T} (f : Z -> bool -> bool -> Z -> Z -> T) (c : cfg) (p : loop) : T :=
  f (depth p) (balanced p) true (l_len p) (c_max c).

Definition adv_obs {T} (f : Z -> Z -> Z -> Z -> Z -> T) (c : cfg) (p t : loop) : T :=
  f (depth p) (l_rep p) (l_len t) (c_min c) (c_max c).

Definition compile_with_gen (ff pf : nat) (c : cfg) (tbl : list wfdata) (prog : loop) : result out :=
  if init_obs gen_init_t1 c prog false then Err EChannels
  else if init_obs gen_init_t2 c prog false then Err EChannels
  else
    let prog1 := if init_obs gen_init_t3 c prog false then Loop 1 plain None [prog] else prog in
    (* `if mode is None: mode = ADVANCED if program.depth() > 1 else SINGLE` *)
    let single := if init_obs gen_init_t4 c prog1 false
                  then negb (init_obs gen_init_t5 c prog1 false)
                  else match c_mode c with Some m => negb m | None => false end in
    if negb (c_nchan c =? 2) then Err EBadInput
    else if negb (init_obs gen_init_t6 c prog1 single) then Err EAssert
    else if init_obs gen_init_t7 c prog1 single then
      if negb (single_obs gen_setup_single_sequence_mode_t1 c prog1) then Err EAssert
      else if negb (single_obs gen_setup_single_sequence_mode_t2 c prog1) then Err EAssert
      else if single_obs gen_setup_single_sequence_mode_t3 c prog1 then Err ETooLong
      else do p <- parse_single tbl prog1; calc_segments c tbl p false
    else
      if negb (adv_obs gen_setup_advanced_sequence_mode_t1 c prog1 prog1) then Err EAssert
      else if negb (adv_obs gen_setup_advanced_sequence_mode_t2 c prog1 prog1) then Err EAssert
      else
        do ch1 <- fab ff 2 [] (l_ch prog1);
        do ch2 <- prep pf (c_min c) (c_max c) [] ch1;
        if negb (forallb (fun t => adv_obs gen_setup_advanced_sequence_mode_t3 c prog1 t
                                   && adv_obs gen_setup_advanced_sequence_mode_t4 c prog1 t) ch2) then Err EAssert
        else do p <- parse_aseq tbl (set_ch prog1 ch2); calc_segments c tbl p true.

Theorem gen_compile_with_eq ff pf c tbl prog : compile_with ff pf c tbl prog = compile_with_gen ff pf c tbl prog.
Proof.
  (* the encapsulation test by cases on its atoms (a re-ordering of the disjuncts in the source keeps the proof) *)
  assert (E3 : init_obs gen_init_t3 c prog false = (l_rep prog >? 1) || l_vol prog || (depth prog =? 0)).
  { unfold init_obs, gen_init_t3. destruct (l_rep prog >? 1), (l_vol prog), (depth prog =? 0); reflexivity. }
  unfold compile_with, compile_with_gen. rewrite E3. clear E3.
  unfold init_obs, single_obs, adv_obs,
    gen_init_t1, gen_init_t2, gen_init_t4, gen_init_t5, gen_init_t6, gen_init_t7,
    gen_setup_single_sequence_mode_t1, gen_setup_single_sequence_mode_t2, gen_setup_single_sequence_mode_t3,
    gen_setup_advanced_sequence_mode_t1, gen_setup_advanced_sequence_mode_t2,
    gen_setup_advanced_sequence_mode_t3, gen_setup_advanced_sequence_mode_t4.
  destruct (negb (c_nchan c =? c_cpp c)); [reflexivity|].
  destruct (negb (c_nmark c =? c_cpp c)); [reflexivity|].
  set (prog1 := if (l_rep prog >? 1) || l_vol prog || (depth prog =? 0) then Loop 1 plain None [prog] else prog).
  destruct (negb (c_nchan c =? 2)); [reflexivity|].
  destruct (c_mode c) as [[|]|]; cbn [negb andb];
    repeat match goal with
           | |- context [if ?b then _ else _] =>
               match b with context [if _ then _ else _] => fail 1 | _ => destruct b eqn:? end
           end; try reflexivity; try discriminate; try (exfalso; lia).
Qed.
