(* C16 — proofs: an EXPLICIT fuel bound for flatten_and_balance.
     fab_bound d l = 1 + (2 max(d,0) + 4) * sum_{t in l} W t,   W (Loop r ch) = 1 + 3 max(1,|r|) (1 + sum_{c in ch} W c)
   (W = a weighted size of the fully unrolled tree).  fab with at least that much fuel never returns the fuel error.
   Fuel accounting: one unit per loop iteration; the recursive call on the children of an unbalanced sub-program and
   the continuation share the same remaining fuel (max, not sum); lists compose additively.                        *)
From Coq Require Import ZArith QArith List Bool Lia ZifyBool Arith ArithRing.
Require Import QV.C16.Model QV.C16.Spec QV.C16.Proofs QV.C16.Proofs_term.
Import ListNotations.
Open Scope Z_scope.

Definition Fin (n : nat) (d : Z) (l : list loop) : Prop := fabl n d l <> Err EFuel.

Lemma Fin_mono n m d l : Fin n d l -> (n <= m)%nat -> Fin m d l.
Proof.
  unfold Fin. intros H Hm. replace m with (n + (m - n))%nat by lia. now rewrite fabl_fuel_mono'.
Qed.

Lemma fabl_mono_eq n m d l : Fin n d l -> (n <= m)%nat -> fabl m d l = fabl n d l.
Proof. unfold Fin. intros H Hm. replace m with (n + (m - n))%nat by lia. now apply fabl_fuel_mono'. Qed.

Lemma fin_nil d : Fin 1 d [].
Proof. unfold Fin. cbn. discriminate. Qed.

Lemma fin_enc n d sub rest : (depth sub <? d - 1) = true -> Fin n d (encapsulate sub :: rest) -> Fin (S n) d (sub :: rest).
Proof. unfold Fin. intros C1 H. now rewrite fabl_S, C1. Qed.

Lemma fin_unbal n d sub rest : (depth sub <? d - 1) = false -> balanced sub = false ->
  Fin n (d - 1) (l_ch sub) ->
  (forall cs, fabl n (d - 1) (l_ch sub) = Ok cs -> Fin n d (set_ch sub cs :: rest)) ->
  Fin (S n) d (sub :: rest).
Proof.
  unfold Fin. intros C1 C2 H1 H2. rewrite fabl_S, C1, C2. cbn [negb].
  destruct (fabl n (d - 1) (l_ch sub)) as [cs|e] eqn:E; [now apply H2|]. intros X. apply H1. congruence.
Qed.

Lemma keep_fuel sub r : keep sub r = Err EFuel -> r = Err EFuel.
Proof. destruct r; cbn; congruence. Qed.

Lemma fin_keep n d sub rest : (depth sub <? d - 1) = false -> balanced sub = true ->
  ((depth sub =? d - 1) = true \/ (can_merge sub = false /\ is_leaf sub = true)) ->
  Fin n d rest -> Fin (S n) d (sub :: rest).
Proof.
  unfold Fin. intros C1 C2 C H. rewrite fabl_S, C1, C2. cbn [negb]. destruct C as [C3|[C4 C5]].
  - rewrite C3. intros X. apply keep_fuel in X. auto.
  - destruct (depth sub =? d - 1); [|rewrite C4, C5; cbn [negb]]; intros X; apply keep_fuel in X; auto.
Qed.

Lemma fin_merge n d sub rest : (depth sub <? d - 1) = false -> balanced sub = true ->
  (depth sub =? d - 1) = false -> can_merge sub = true ->
  Fin n d (merge_child sub :: rest) -> Fin (S n) d (sub :: rest).
Proof. unfold Fin. intros C1 C2 C3 C4 H. now rewrite fabl_S, C1, C2, C3, C4. Qed.

Lemma fin_unroll n d sub rest : (depth sub <? d - 1) = false -> balanced sub = true ->
  (depth sub =? d - 1) = false -> can_merge sub = false -> is_leaf sub = false ->
  Fin n d (unroll sub ++ rest) -> Fin (S n) d (sub :: rest).
Proof. unfold Fin. intros C1 C2 C3 C4 C5 H. now rewrite fabl_S, C1, C2, C3, C4, C5. Qed.

(* lists compose additively *)
Lemma fin_app : forall n d a, Fin n d a -> forall m b, Fin m d b -> Fin (n + m) d (a ++ b).
Proof.
  induction n as [|f IH]; intros d a Ha m b Hb; [exfalso; apply Ha; reflexivity|].
  destruct a as [|sub a'].
  - cbn [app]. eapply Fin_mono; [exact Hb|lia].
  - cbn [app]. change (S f + m)%nat with (S (f + m)). unfold Fin in Ha. rewrite fabl_S in Ha. unfold Fin. rewrite fabl_S.
    destruct (depth sub <? d - 1); [exact (IH d (encapsulate sub :: a') Ha m b Hb)|].
    destruct (negb (balanced sub)).
    { destruct (fabl f (d - 1) (l_ch sub)) as [cs|e] eqn:H1.
      - rewrite (fabl_mono_eq f (f + m)), H1 by (unfold Fin; try rewrite H1; try discriminate; lia).
        exact (IH d (set_ch sub cs :: a') Ha m b Hb).
      - rewrite (fabl_mono_eq f (f + m)), H1 by (unfold Fin; try rewrite H1; try exact Ha; lia). exact Ha. }
    assert (K : keep sub (fabl f d a') <> Err EFuel -> keep sub (fabl (f + m) d (a' ++ b)) <> Err EFuel).
    { intros HK X. apply keep_fuel in X. revert X. apply (IH d a'); [|exact Hb].
      intros E. apply HK. now rewrite E. }
    destruct (depth sub =? d - 1); [now apply K|].
    destruct (can_merge sub); [exact (IH d (merge_child sub :: a') Ha m b Hb)|].
    destruct (negb (is_leaf sub)); [|now apply K].
    rewrite app_assoc. exact (IH d (unroll sub ++ a') Ha m b Hb).
Qed.

Lemma fin_list (g : loop -> nat) d : forall l, (forall c, In c l -> Fin (g c) d [c]) ->
  Fin (1 + list_sum (map g l)) d l.
Proof.
  induction l as [|c l IH]; intros H; [apply fin_nil|].
  assert (E : (1 + list_sum (map g (c :: l)) = g c + (1 + list_sum (map g l)))%nat) by (unfold list_sum; cbn [map fold_right]; lia).
  rewrite E. apply (fin_app (g c) d [c] (H c (or_introl eq_refl)) (1 + list_sum (map g l)) l).
  apply IH. intros; apply H; now right.
Qed.

(* the number of emitted elements is bounded by the fuel that was used *)
Lemma fabl_out_len : forall n d l out, fabl n d l = Ok out -> (length out <= n)%nat.
Proof.
  induction n as [|f IH]; intros d l out H; [discriminate|]. rewrite fabl_S in H.
  destruct l as [|sub rest]; [injection H as <-; cbn; lia|].
  assert (K : keep sub (fabl f d rest) = Ok out -> (length out <= S f)%nat).
  { destruct (fabl f d rest) as [x|] eqn:E; [|discriminate]. cbn. intros [= <-]. apply IH in E. cbn. lia. }
  destruct (depth sub <? d - 1); [apply IH in H; lia|].
  destruct (negb (balanced sub)).
  { destruct (fabl f (d - 1) (l_ch sub)); [|discriminate]. apply IH in H. lia. }
  destruct (depth sub =? d - 1); [now apply K|].
  destruct (can_merge sub); [apply IH in H; lia|].
  destruct (negb (is_leaf sub)); [apply IH in H; lia|now apply K].
Qed.

(* ------------------------------------------------------------------------------------------------------------------ *)
(* the bound *)

Definition rmax (r : Z) : nat := Nat.max 1 (Z.abs_nat r).

Fixpoint W (t : loop) : nat :=
  match t with Loop r _ _ ch => S (3 * rmax r * S (list_sum (map W ch))) end.

Definition A (d : Z) : nat := (2 * Z.to_nat d + 4)%nat.

Definition fab_bound (d : Z) (l : list loop) : nat := (1 + A d * list_sum (map W l))%nat.

Lemma W_pos t : (1 <= W t)%nat.
Proof. destruct t; cbn [W]; lia. Qed.

Lemma rmax_pos r : (1 <= rmax r)%nat.
Proof. unfold rmax. lia. Qed.

Lemma rmax_to_nat r : (Z.to_nat r <= rmax r)%nat.
Proof. unfold rmax. lia. Qed.

Lemma rmax_mul a b : (rmax (a * b) <= rmax a * rmax b)%nat.
Proof. unfold rmax. rewrite Zabs2Nat.inj_mul. nia. Qed.

Lemma A_mono d d' : d' <= d -> (A d' <= A d)%nat.
Proof. unfold A. lia. Qed.

Lemma list_sum_map_rep_concat (g : loop -> nat) r l :
  list_sum (map g (rep_concat r l)) = (Z.to_nat r * list_sum (map g l))%nat.
Proof.
  unfold rep_concat. induction (Z.to_nat r) as [|n IH]; [reflexivity|].
  rewrite repn_concat_app, map_app, list_sum_app, IH. lia.
Qed.

Lemma list_sum_const_le (g : loop -> nat) k l : (forall c, In c l -> (g c <= k)%nat) ->
  (list_sum (map g l) <= k * length l)%nat.
Proof.
  induction l as [|c l IH]; intros H; [cbn; lia|]. cbn [map list_sum fold_right length].
  pose proof (H c (or_introl eq_refl)). specialize (IH (fun x Hx => H x (or_intror Hx))). unfold list_sum in IH. nia.
Qed.

(* a balanced tree of depth <= d-1: wrapped, emitted *)
Lemma fin_balanced_low : forall k s d, balanced s = true -> d - 1 - depth s = Z.of_nat k -> Fin (k + 2) d [s].
Proof.
  induction k as [|k IH]; intros s d Hb Hk.
  - apply (fin_keep 1); [lia|auto|left; lia|apply fin_nil].
  - change (S k + 2)%nat with (S (k + 2)). apply fin_enc; [lia|]. apply IH.
    + now rewrite balanced_encapsulate.
    + rewrite depth_encapsulate. lia.
Qed.

Lemma fin_leaf s d : is_leaf s = true -> Fin (Z.to_nat (d - 1) + 2) d [s].
Proof.
  intros Hl. pose proof (balanced_leaf _ Hl) as Hb. pose proof (leaf_depth _ Hl) as Hd.
  destruct (Z_le_gt_dec 0 (d - 1)).
  - apply fin_balanced_low; auto. lia.
  - eapply Fin_mono; [apply (fin_keep 1); [lia|auto| |apply fin_nil]|lia].
    right. split; auto. now apply can_merge_leaf.
Qed.

(* a balanced tree, given bounds for the merged tree and for the children *)
Lemma fin_balanced_gen t d nm (g : loop -> nat) : balanced t = true ->
  (can_merge t = true -> Fin nm d [merge_child t]) ->
  (forall c, In c (l_ch t) -> Fin (g c) d [c]) ->
  Fin (Z.to_nat d + 2 + S nm + (2 + Z.to_nat (l_rep t) * list_sum (map g (l_ch t)))) d [t].
Proof.
  intros Hb Hm Hc. destruct (Z_le_gt_dec (depth t) (d - 1)).
  - pose proof (depth_nonneg t). eapply Fin_mono; [apply (fin_balanced_low (Z.to_nat (d - 1 - depth t))); auto; lia|lia].
  - destruct (can_merge t) eqn:C4.
    + eapply Fin_mono; [apply fin_merge; [lia|auto|lia|auto|exact (Hm eq_refl)]|lia].
    + destruct (is_leaf t) eqn:C5.
      * eapply Fin_mono; [apply (fin_keep 1); [lia|auto|auto|apply fin_nil]|lia].
      * eapply Fin_mono; [apply fin_unroll; [lia|auto|lia|auto|auto|]|].
        { rewrite app_nil_r. apply (fin_list g). intros c Hin. apply Hc. unfold unroll in Hin.
          eapply In_rep_concat; eauto. }
        unfold unroll. rewrite list_sum_map_rep_concat. lia.
Qed.

(* the node rebuilt over the result cs of the inner call *)
Lemma fin_set_ch_post d s cs :
  Forall (fun c => (balanced c = true /\ depth c = d - 1 - 1) \/ (is_leaf c = true /\ d - 1 - 1 < 0)) cs ->
  Fin (Z.to_nat d + 8 + 2 * Z.to_nat (l_rep s) * length cs) d [set_ch s cs].
Proof.
  intros HF. destruct (Z_lt_ge_dec (d - 1 - 1) 0).
  - (* leaves *)
    assert (HL : forall c, In c cs -> is_leaf c = true).
    { intros c Hc. rewrite Forall_forall in HF. destruct (HF c Hc) as [[_ H]|[H _]]; auto.
      pose proof (depth_nonneg c). lia. }
    assert (Hb : balanced (set_ch s cs) = true).
    { destruct s as [r m w ch]. cbn [set_ch]. destruct cs as [|c0 cs']; [reflexivity|].
      apply (node_balanced_depth r m w c0 cs' 0); [lia|]. apply Forall_forall. intros c Hc.
      split; [apply balanced_leaf|apply leaf_depth]; auto. }
    eapply Fin_mono.
    + apply (fin_balanced_gen (set_ch s cs) d 2 (fun _ => 2%nat) Hb).
      * intros Hm. destruct (can_merge_inv _ Hm) as (r & m & w & cr & cm & cw & cch & E & ->).
        assert (Hcs : cs = [Loop cr cm cw cch]) by (destruct s; cbn [set_ch] in E; congruence).
        specialize (HL (Loop cr cm cw cch)). rewrite Hcs in HL. specialize (HL (or_introl eq_refl)).
        eapply Fin_mono; [apply fin_leaf|lia]. unfold is_leaf in *. cbn [l_ch] in *. exact HL.
      * intros c Hc. rewrite l_ch_set_ch in Hc. eapply Fin_mono; [apply fin_leaf; auto|lia].
    + rewrite l_ch_set_ch, l_rep_set_ch.
      pose proof (list_sum_const_le (fun _ => 2%nat) 2 cs ltac:(intros; cbn; lia)) as HS.
      assert (Hd1 : (Z.to_nat d <= 1)%nat) by lia.
      pose proof (Nat.mul_le_mono_l _ _ (Z.to_nat (l_rep s)) HS). lia.
  - destruct cs as [|c0 cs].
    + eapply Fin_mono; [apply fin_leaf; destruct s; reflexivity|lia].
    + assert (Forall (fun c => balanced c = true /\ depth c = d - 1 - 1) (c0 :: cs)) as HF'.
      { eapply Forall_impl; [|exact HF]. cbn beta. intros c [H|[_ H]]; [auto|lia]. }
      destruct s as [r m w ch]. cbn [set_ch].
      destruct (node_balanced_depth r m w c0 cs (d - 1 - 1) ltac:(lia) HF') as [Hd Hb].
      eapply Fin_mono; [apply (fin_balanced_low 0 _ d); auto; lia|lia].
Qed.

(* an unbalanced tree that is deep enough *)
Lemma fin_unbal_step W0 d n1 : balanced W0 = false -> depth W0 >= d - 1 -> Fin n1 (d - 1) (l_ch W0) ->
  Fin (S (n1 + (Z.to_nat d + 8 + 2 * Z.to_nat (l_rep W0) * n1))) d [W0].
Proof.
  intros Hb Hd H1. set (n := (n1 + (Z.to_nat d + 8 + 2 * Z.to_nat (l_rep W0) * n1))%nat).
  apply fin_unbal; [lia|auto|eapply Fin_mono; [exact H1|lia]|].
  intros cs Hcs. rewrite (fabl_mono_eq n1 n) in Hcs by (auto; lia).
  pose proof (fabl_post _ _ _ _ Hcs) as Hpost. pose proof (fabl_out_len _ _ _ _ Hcs) as Hlen.
  eapply Fin_mono; [apply (fin_set_ch_post d W0 cs Hpost)|]. nia.
Qed.

(* ... exactly at depth d-1 >= 1 (the wrap chain): the rebuilt node is emitted at once *)
Lemma fin_unbal_step_exact W0 d n1 : balanced W0 = false -> depth W0 = d - 1 -> 0 <= d - 1 - 1 ->
  Fin n1 (d - 1) (l_ch W0) -> (Z.to_nat (d - 1) + 2 <= n1)%nat -> Fin (S n1) d [W0].
Proof.
  intros Hb Hd Hd2 H1 Hn. apply fin_unbal; [lia|auto|exact H1|].
  intros cs Hcs. pose proof (fabl_post _ _ _ _ Hcs) as Hpost.
  destruct cs as [|c0 cs].
  - eapply Fin_mono; [apply (fin_balanced_low (Z.to_nat (d - 1)) (set_ch W0 []) d)|lia].
    + destruct W0; reflexivity.
    + destruct W0 as [r m w ch]; cbn [set_ch]. cbn [depth]. lia.
  - assert (Forall (fun c => balanced c = true /\ depth c = d - 1 - 1) (c0 :: cs)) as HF'.
    { eapply Forall_impl; [|exact Hpost]. cbn beta. intros c [H|[_ H]]; [auto|lia]. }
    destruct W0 as [r m w ch]. cbn [set_ch].
    destruct (node_balanced_depth r m w c0 cs (d - 1 - 1) ltac:(lia) HF') as [Hd' Hb'].
    eapply Fin_mono; [apply (fin_balanced_low 0 _ d); auto; lia|lia].
Qed.

(* ------------------------------------------------------------------------------------------------------------------ *)
(* the wrap chain of an unbalanced tree that is not deep enough *)

Lemma depth_wrap j t : depth (wrap j t) = depth t + Z.of_nat j.
Proof. induction j; cbn [wrap]; [lia|]. rewrite depth_encapsulate, IHj. lia. Qed.

Lemma fin_wrap_chain t base : balanced t = false -> (Z.to_nat (depth t + 1) + 2 <= base)%nat ->
  Fin base (depth t + 1) [t] ->
  forall j, Fin (j + base) (depth t + 1 + Z.of_nat j) [wrap j t].
Proof.
  intros Hb Hbase H0. pose proof (depth_nonneg t) as Hd0. induction j as [|j IH].
  - cbn [wrap]. replace (depth t + 1 + Z.of_nat 0) with (depth t + 1) by lia. exact H0.
  - change (S j + base)%nat with (S (j + base)). cbn [wrap].
    apply fin_unbal_step_exact.
    + rewrite balanced_encapsulate, balanced_wrap. exact Hb.
    + rewrite depth_encapsulate, depth_wrap. lia.
    + lia.
    + unfold encapsulate. cbn [l_ch].
      replace (depth t + 1 + Z.of_nat (S j) - 1) with (depth t + 1 + Z.of_nat j) by lia. exact IH.
    + lia.
Qed.

Lemma fin_enc_chain t d : forall j n, depth t + Z.of_nat j <= d - 1 -> Fin n d [wrap j t] -> Fin (j + n) d [t].
Proof.
  induction j as [|j IH]; intros n Hj H; [exact H|]. cbn [wrap] in H.
  replace (S j + n)%nat with (j + S n)%nat by lia. apply IH; [lia|].
  apply fin_enc; [rewrite depth_wrap; lia|exact H].
Qed.

(* ------------------------------------------------------------------------------------------------------------------ *)
(* arithmetic *)

Lemma unbal_arith (a a' dn R r S0 : nat) : (2 * dn + 4 <= a)%nat -> (1 <= R)%nat -> (r <= R)%nat -> (a' <= a)%nat ->
  (dn + 2 + S ((1 + a' * S0) + (dn + 8 + 2 * r * (1 + a' * S0))) <= a * S (3 * R * S S0))%nat.
Proof.
  intros Ha HR Hr Ha'.
  assert (H1 : (a' * S0 <= a * S0)%nat) by (apply Nat.mul_le_mono_r; exact Ha').
  set (P := (a * S0)%nat) in *. set (Q := (a' * S0)%nat) in *.
  assert (H2 : (r * (1 + Q) <= R * (1 + P))%nat) by (apply Nat.mul_le_mono; lia).
  replace (S (3 * R * S S0)) with (1 + 3 * R * (1 + S0))%nat by lia.
  replace (a * (1 + 3 * R * (1 + S0)))%nat with (a + 3 * (R * a) + 3 * (R * P))%nat by (unfold P; ring).
  assert (H3 : (a <= R * a)%nat) by nia.
  assert (H4 : (R * (1 + P) = R + R * P)%nat) by ring.
  assert (H5 : (P <= R * P)%nat) by nia.
  assert (H6 : (4 * R <= R * a)%nat) by nia.
  assert (H7 : (2 * r * (1 + Q) <= 2 * (R + R * P))%nat) by nia. lia.
Qed.

Lemma merge_arith (a dn R C r X Wm Wc Sg Sw : nat) :
  (2 * dn + 4 <= a)%nat -> (1 <= R)%nat -> (1 <= C)%nat -> (r <= R)%nat ->
  (Wm <= S (3 * (R * C) * X))%nat -> Wc = S (3 * C * X) -> Sg = (a * Wc)%nat -> Sw = Wc ->
  (dn + 2 + S (a * Wm) + (2 + r * Sg) <= a * S (3 * R * S Sw))%nat.
Proof.
  intros Ha HR HC Hr HW -> -> ->.
  assert (H1 : (a * Wm <= a * S (3 * (R * C) * X))%nat) by (apply Nat.mul_le_mono_l; exact HW).
  assert (H2 : (r * (a * S (3 * C * X)) <= R * (a * S (3 * C * X)))%nat) by (apply Nat.mul_le_mono_r; exact Hr).
  set (Y := (C * X)%nat). set (P := (R * a)%nat). set (Q := (P * Y)%nat).
  replace (S (3 * (R * C) * X)) with (1 + 3 * (R * C) * X)%nat in H1 by lia.
  replace (S (3 * C * X))%nat with (1 + 3 * C * X)%nat in * by lia.
  replace (S (3 * R * S (1 + 3 * C * X))) with (1 + 3 * R * (1 + (1 + 3 * C * X)))%nat by lia.
  replace (a * (1 + 3 * (R * C) * X))%nat with (a + 3 * Q)%nat in H1 by (unfold Q, P, Y; ring).
  replace (R * (a * (1 + 3 * C * X)))%nat with (P + 3 * Q)%nat in H2 by (unfold Q, P, Y; ring).
  replace (a * (1 + 3 * R * (1 + (1 + 3 * C * X))))%nat with (a + 6 * P + 9 * Q)%nat by (unfold Q, P, Y; ring).
  assert (H3 : (a <= P)%nat) by (unfold P; nia). lia.
Qed.

Lemma plain_arith (a dn R r S0 : nat) : (2 * dn + 4 <= a)%nat -> (1 <= R)%nat -> (r <= R)%nat ->
  (dn + 2 + 1 + (2 + r * (a * S0)) <= a * S (3 * R * S S0))%nat.
Proof.
  intros Ha HR Hr.
  assert (H2 : (r * (a * S0) <= R * (a * S0))%nat) by (apply Nat.mul_le_mono_r; exact Hr).
  set (P := (R * (a * S0))%nat) in *.
  replace (S (3 * R * S S0)) with (1 + 3 * R * (1 + S0))%nat by lia.
  replace (a * (1 + 3 * R * (1 + S0)))%nat with (a + 3 * (R * a) + 3 * P)%nat by (unfold P; ring).
  assert (H3 : (a <= R * a)%nat) by nia. lia.
Qed.

Lemma list_sum_map_mul (g : loop -> nat) (k : nat) l :
  list_sum (map (fun c => (k * g c)%nat) l) = (k * list_sum (map g l))%nat.
Proof. induction l as [|c l IH]; cbn [map list_sum fold_right]; [lia|]. unfold list_sum in IH. rewrite IH. lia. Qed.

(* ------------------------------------------------------------------------------------------------------------------ *)
(* the induction on the number of nodes *)

Lemma W_node r m w ch : W (Loop r m w ch) = S (3 * rmax r * S (list_sum (map W ch))).
Proof. reflexivity. Qed.

Lemma fin_single : forall n t, (tsize t <= n)%nat -> forall d, Fin (A d * W t) d [t].
Proof.
  induction n as [|n IH]; intros t Hn d.
  - destruct t. rewrite tsize_node in Hn. lia.
  - assert (Hc : forall c, In c (l_ch t) -> forall d', Fin (A d' * W c) d' [c]).
    { intros c Hin d'. apply IH. destruct t as [r m w ch]. cbn [l_ch] in Hin. rewrite tsize_node in Hn.
      pose proof (tsize_child c ch Hin). lia. }
    assert (HA : (2 * Z.to_nat d + 4 <= A d)%nat) by (unfold A; lia).
    destruct (balanced t) eqn:Hb.
    + destruct (can_merge t) eqn:Hm.
      * destruct (can_merge_inv _ Hm) as (r & m & w & cr & cm & cw & cch & -> & Em).
        assert (Hmerged : Fin (A d * W (merge_child (Loop r m w [Loop cr cm cw cch]))) d
                            [merge_child (Loop r m w [Loop cr cm cw cch])]).
        { apply IH. rewrite Em. rewrite !tsize_node in *. cbn [map list_sum fold_right] in Hn.
          rewrite tsize_node in Hn. lia. }
        eapply Fin_mono.
        { apply (fin_balanced_gen _ d _ (fun c => (A d * W c)%nat) Hb (fun _ => Hmerged)).
          intros c Hin. now apply Hc. }
        rewrite Em. cbn [l_rep l_ch]. rewrite (W_node r), (W_node (r * cr)).
        apply (merge_arith (A d) (Z.to_nat d) (rmax r) (rmax cr) (Z.to_nat r) (S (list_sum (map W cch)))
                 _ (W (Loop cr cm cw cch))); auto using rmax_pos, rmax_to_nat.
        { apply le_n_S. apply Nat.mul_le_mono_r. apply Nat.mul_le_mono_l. apply rmax_mul. }
        { unfold list_sum. cbn [map fold_right]. lia. }
        { unfold list_sum. cbn [map fold_right]. lia. }
      * eapply Fin_mono.
        { apply (fin_balanced_gen t d 0 (fun c => (A d * W c)%nat) Hb); [congruence|].
          intros c Hin. now apply Hc. }
        destruct t as [r m w ch]. cbn [l_rep l_ch]. rewrite W_node, list_sum_map_mul.
        apply (plain_arith (A d) (Z.to_nat d) (rmax r) (Z.to_nat r)); auto using rmax_pos, rmax_to_nat.
    + (* unbalanced *)
      assert (Hlist : forall d', Fin (1 + A d' * list_sum (map W (l_ch t))) d' (l_ch t)).
      { intros d'. rewrite <- list_sum_map_mul. apply (fin_list (fun c => (A d' * W c)%nat)). intros c Hin. now apply Hc. }
      pose proof (depth_nonneg t) as Hd0.
      destruct (Z_lt_ge_dec (depth t) (d - 1)) as [Hlow|Hdeep].
      * (* wrapped j times, then rebuilt level by level *)
        set (d0 := depth t + 1). set (j := Z.to_nat (d - d0)).
        set (n1 := (1 + A (d0 - 1) * list_sum (map W (l_ch t)))%nat).
        set (base := (Z.to_nat d0 + 2 + S (n1 + (Z.to_nat d0 + 8 + 2 * Z.to_nat (l_rep t) * n1)))%nat).
        assert (Hbase : Fin base d0 [t]).
        { eapply Fin_mono; [apply (fin_unbal_step t d0 n1 Hb); [unfold d0; lia|apply Hlist]|unfold base; lia]. }
        assert (Hb2 : (Z.to_nat (depth t + 1) + 2 <= base)%nat) by (fold d0; unfold base; lia).
        pose proof (fin_wrap_chain t base Hb Hb2 Hbase j) as Hchain. fold d0 in Hchain.
        replace (d0 + Z.of_nat j) with d in Hchain by (unfold j, d0; lia).
        pose proof (fin_enc_chain t d j _ ltac:(unfold j, d0; lia) Hchain) as Hfin.
        eapply Fin_mono; [exact Hfin|].
        destruct t as [r m w ch]. cbn [l_rep l_ch] in *. rewrite W_node.
        assert (HA0 : (2 * Z.to_nat d0 + 4 <= A d0)%nat) by (unfold A; lia).
        pose proof (unbal_arith (A d0) (A (d0 - 1)) (Z.to_nat d0) (rmax r) (Z.to_nat r) (list_sum (map W ch))
                      HA0 (rmax_pos r) (rmax_to_nat r) (A_mono d0 (d0 - 1) ltac:(lia))) as HU.
        assert (HAd : (A d = A d0 + 2 * j)%nat) by (unfold A, j, d0; lia).
        rewrite HAd. unfold base, n1. set (WW := S (3 * rmax r * S (list_sum (map W ch)))) in *. nia.
      * eapply Fin_mono; [apply (fin_unbal_step t d (1 + A (d - 1) * list_sum (map W (l_ch t))) Hb); [lia|apply Hlist]|].
        destruct t as [r m w ch]. cbn [l_rep l_ch]. rewrite W_node.
        pose proof (unbal_arith (A d) (A (d - 1)) (Z.to_nat d) (rmax r) (Z.to_nat r) (list_sum (map W ch))
                      HA (rmax_pos r) (rmax_to_nat r) (A_mono d (d - 1) ltac:(lia))) as HU. lia.
Qed.

Theorem fabl_bound : forall d l k, fabl (fab_bound d l + k) d l <> Err EFuel.
Proof.
  intros d l k. unfold fab_bound. rewrite <- list_sum_map_mul.
  apply (Fin_mono (1 + list_sum (map (fun c => (A d * W c)%nat) l))); [|lia].
  apply (fin_list (fun c => (A d * W c)%nat)). intros c _. apply (fin_single (tsize c)). lia.
Qed.

Theorem fab_bound_ok : forall d done todo k, fab (fab_bound d todo + k) d done todo <> Err EFuel.
Proof. intros d done todo k. rewrite fab_fabl. intros E. apply with_done_fuel in E. exact (fabl_bound d todo k E). Qed.

(* ------------------------------------------------------------------------------------------------------------------ *)
(* the compiler with explicit fuel: enough for flatten_and_balance by fab_bound, enough for prepare by prep_measure *)
Require Import QV.C16.Proofs3.

Theorem compile_fuel_explicit ff pf c tbl prog :
  (fab_bound 2 (l_ch (root_of prog)) <= ff)%nat ->
  (forall ch1, fab ff 2 [] (l_ch (root_of prog)) = Ok ch1 -> (prep_measure [] ch1 < pf)%nat) ->
  compile_with ff pf c tbl prog <> Err EFuel.
Proof.
  intros Hff Hpf. unfold compile_with. fold (root_of prog). set (prog1 := root_of prog) in *.
  destruct (negb (c_nchan c =? c_cpp c)); [discriminate|].
  destruct (negb (c_nmark c =? c_cpp c)); [discriminate|].
  destruct (negb (c_nchan c =? 2)); [discriminate|].
  destruct (negb (match c_mode c with Some m => m | None => depth prog1 >? 1 end)).
  - destruct (negb (depth prog1 =? 1)); [discriminate|]. destruct (negb (balanced prog1)); [discriminate|].
    destruct (l_len prog1 >? c_max c); [discriminate|].
    apply bind_nf; [|intros; apply calc_segments_nf]. unfold parse_single.
    apply bind_nf; [apply parse_table_nf|]. intros [es known]. discriminate.
  - destruct (negb (depth prog1 >? 1)); [discriminate|]. destruct (negb (l_rep prog1 =? 1)); [discriminate|].
    assert (Hf : fab ff 2 [] (l_ch prog1) <> Err EFuel).
    { replace ff with (fab_bound 2 (l_ch prog1) + (ff - fab_bound 2 (l_ch prog1)))%nat by lia. apply fab_bound_ok. }
    destruct (fab ff 2 [] (l_ch prog1)) as [ch1|e] eqn:Ef; cbn [bind]; [|intros E; apply Hf; congruence].
    apply bind_nf; [apply prep_terminates; now apply Hpf|]. intros ch2. destruct (negb _); [discriminate|].
    apply bind_nf; [apply parse_aseq_loop_nf|intros; apply calc_segments_nf].
Qed.

(* the fixed fuel of `compile` is enough for the example program (non-vacuity of the two fuel hypotheses) *)
Lemma ex_fuel_ok : (fab_bound 2 (l_ch (root_of ex_prog)) <= fab_fuel)%nat /\
  forall ch1, fab fab_fuel 2 [] (l_ch (root_of ex_prog)) = Ok ch1 -> (prep_measure [] ch1 < prep_fuel)%nat.
Proof.
  split; [apply Nat.leb_le; vm_compute; reflexivity|].
  intros ch1 H. vm_compute in H. injection H as <-. apply Nat.ltb_lt. vm_compute. reflexivity.
Qed.
