(* C16 — round 5 (audit):
   (a) the "accepted and plays / rejected with a proper error" alternative as ONE statement (replaces the tautological
       C16_reject of earlier rounds);
   (b) the quantiser of the specification characterised WITHOUT its formula: the code is an integer nearest to
       (v - offset + amplitude) / (2 amplitude) * 16383, defined exactly on the voltages within the range;
   (c) the hypothesis "waveforms of one equality class have equal data" of C16_plays weakened to "... equal data ON THE
       CHANNELS THE CONFIGURATION USES" (Waveform equality is taken after get_subset_for_channels(used_channels)):
       compiler model and specification only ever look at the used channels. *)
From Coq Require Import ZArith QArith Qabs Qround Qfield List Bool Lia ZifyBool.
Require Import QV.C16.Model QV.C16.Spec QV.C16.Proofs QV.C16.Proofs2 QV.C16.Proofs3 QV.C16.Proofs4 QV.C16.Proofs5
  QV.C16.Proofs_term QV.C16.Proofs6 QV.C16.Proofs_fuel QV.C16.Proofs8.
Import ListNotations.
Open Scope Z_scope.

(* ---------------------------------------------------------------------------------------------------------- *)
(* (a) *)

Definition proper_error (e : err) : Prop := e <> ECrash /\ e <> EFuel.

Theorem compile_accepts_or_rejects c tbl prog :
  good prog = true -> cls_inj tbl -> len_exact tbl ->
  (fab_bound 2 (l_ch (root_of prog)) <= fab_fuel)%nat ->
  (prep_bound (l_ch (root_of prog)) <= prep_fuel)%nat ->
  (exists o s, compile c tbl prog = Ok o /\ spec c tbl prog = Some s /\ expand o = Some s /\
               segments_ok o = true /\ tables_max_ok c o = true /\ (o_advanced o = true -> tables_ok c o = true))
  \/ (exists e, compile c tbl prog = Err e /\ proper_error e).
Proof.
  intros G H1 H2 F1 F2. destruct (compile c tbl prog) as [o|e] eqn:E.
  - left. destruct (compile_plays c tbl prog o G H1 H2 E) as (s & Hs & He).
    destruct (compile_limits c tbl prog o E) as (L1 & L2 & L3).
    exists o, s. repeat split; auto.
  - right. exists e. split; [reflexivity|]. split.
    + intros ->. exact (compile_no_crash_good fab_fuel prep_fuel c tbl prog G E).
    + intros ->. exact (proj1 (compile_fixed_fuel_stable c tbl prog F1 F2) E).
Qed.

(* ---------------------------------------------------------------------------------------------------------- *)
(* (b) *)

Lemma v2u_nearest amp off v w : (0 < amp)%Q -> v2u amp off v = Some w ->
  (Qabs (v - off) <= amp)%Q /\
  (Qabs ((v - off + amp) / ((2 # 1) * amp) * (16383 # 1) - inject_Z w) <= 1 # 2)%Q /\
  ((Qabs ((v - off + amp) / ((2 # 1) * amp) * (16383 # 1) - inject_Z w) == 1 # 2)%Q -> Z.even w = true).
Proof.
  intros Hamp H. unfold v2u in H. destruct (Qle_bool (Qabs (v - off)) amp) eqn:E; [|discriminate].
  injection H as <-.
  assert (Hq : ((v - off + amp) / ((2 # 1) * amp) * (16383 # 1) == (v - off + amp) * ((16383 # 1) / ((2 # 1) * amp)))%Q).
  { field. intros Hz. rewrite Hz in Hamp. now apply Qlt_irrefl in Hamp. }
  split; [now apply Qle_bool_iff|]. split.
  - rewrite Hq. apply rint_nearest.
  - rewrite Hq. apply rint_tie_even.
Qed.

Lemma v2u_defined_iff amp off v : (exists w, v2u amp off v = Some w) <-> (Qabs (v - off) <= amp)%Q.
Proof.
  unfold v2u. split.
  - intros [w H]. destruct (Qle_bool (Qabs (v - off)) amp) eqn:E; [now apply Qle_bool_iff|discriminate].
  - intros H. apply Qle_bool_iff in H. rewrite H. eexists. reflexivity.
Qed.

(* ---------------------------------------------------------------------------------------------------------- *)
(* (c) *)

Definition opt_is (o : option Z) (k : Z) : bool := match o with Some c => c =? k | None => false end.

Definition used (c : cfg) (k : Z) : bool :=
  opt_is (c_cha c) k || opt_is (c_chb c) k || opt_is (c_ma c) k || opt_is (c_mb c) k.

(* the waveform as the compiler sees it: only the channels the configuration uses *)
Definition restrict (c : cfg) (wd : wfdata) : wfdata :=
  {| wf_cls := wf_cls wd; wf_len := wf_len wd; wf_n := wf_n wd;
     wf_data := filter (fun kv => used c (fst kv)) (wf_data wd) |}.

Lemma assoc_filter {A} (p : Z -> bool) k : p k = true -> forall l : list (Z * A),
  assoc k (filter (fun kv => p (fst kv)) l) = assoc k l.
Proof.
  intros Hk. induction l as [|[k' v] l IH]; [reflexivity|]. cbn [filter fst assoc].
  destruct (p k') eqn:Ep; cbn [assoc].
  - destruct (k =? k'); [reflexivity|exact IH].
  - destruct (k =? k') eqn:Ek; [|exact IH]. apply Z.eqb_eq in Ek. subst k'. congruence.
Qed.

Lemma channel_data_restrict c wd ch amp off tr : (forall k, ch = Some k -> used c k = true) ->
  channel_data (restrict c wd) ch amp off tr = channel_data wd ch amp off tr.
Proof.
  intros H. destruct ch as [k|]; [|reflexivity]. unfold channel_data, restrict. cbn [wf_data wf_n].
  rewrite (assoc_filter (used c) k (H k eq_refl)). reflexivity.
Qed.

Lemma marker_data_restrict c wd m : (forall k, m = Some k -> used c k = true) ->
  marker_data (restrict c wd) m = marker_data wd m.
Proof.
  intros H. destruct m as [k|]; [|reflexivity]. unfold marker_data, restrict. cbn [wf_data wf_n].
  rewrite (assoc_filter (used c) k (H k eq_refl)). reflexivity.
Qed.

Lemma used_cha c k : c_cha c = Some k -> used c k = true.
Proof. intros H. unfold used. rewrite H. cbn. rewrite Z.eqb_refl. reflexivity. Qed.
Lemma used_chb c k : c_chb c = Some k -> used c k = true.
Proof. intros H. unfold used. rewrite H. cbn. rewrite Z.eqb_refl. now rewrite orb_true_r. Qed.
Lemma used_ma c k : c_ma c = Some k -> used c k = true.
Proof. intros H. unfold used. rewrite H. cbn. rewrite Z.eqb_refl. now rewrite !orb_true_r. Qed.
Lemma used_mb c k : c_mb c = Some k -> used c k = true.
Proof. intros H. unfold used. rewrite H. cbn. rewrite Z.eqb_refl. now rewrite !orb_true_r. Qed.

Lemma sample_segment_restrict c wd : sample_segment c (restrict c wd) = sample_segment c wd.
Proof.
  unfold sample_segment.
  rewrite !channel_data_restrict by (intros k Hk; first [now apply used_cha|now apply used_chb]).
  rewrite !marker_data_restrict by (intros k Hk; first [now apply used_ma|now apply used_mb]).
  reflexivity.
Qed.

Lemma nth_error_restrict c tbl w : nth_error (map (restrict c) tbl) w = option_map (restrict c) (nth_error tbl w).
Proof. apply nth_error_map. Qed.

Lemma cls_of_restrict c tbl w : cls_of (map (restrict c) tbl) w = cls_of tbl w.
Proof. unfold cls_of. rewrite nth_error_restrict. destruct (nth_error tbl w); reflexivity. Qed.

Lemma parse_table_restrict c tbl : forall ch known,
  parse_table (map (restrict c) tbl) ch known = parse_table tbl ch known.
Proof.
  induction ch as [|x r IH]; intros known; [reflexivity|]. cbn [parse_table].
  destruct (l_wf x) as [w|]; [|reflexivity]. rewrite cls_of_restrict.
  destruct (cls_of tbl w) as [k|]; [|reflexivity].
  destruct (setdefault wf_key_eqb (k, w) known) as [idx known']. rewrite IH. reflexivity.
Qed.

Lemma parse_aseq_loop_restrict c tbl : forall tables adv seqs known,
  parse_aseq_loop (map (restrict c) tbl) tables adv seqs known = parse_aseq_loop tbl tables adv seqs known.
Proof.
  induction tables as [|t r IH]; intros adv seqs known; [reflexivity|]. cbn [parse_aseq_loop].
  rewrite parse_table_restrict. destruct (parse_table tbl (l_ch t) known) as [[es known']|e]; [|reflexivity].
  cbn [bind]. destruct (setdefault tkey_eqb (es, map l_volp (l_ch t)) seqs) as [sidx seqs']. apply IH.
Qed.

Lemma map_res_ext {A B} (f g : A -> result B) l : (forall x, f x = g x) -> map_res f l = map_res g l.
Proof. intros H. induction l as [|x r IH]; [reflexivity|]. cbn [map_res]. rewrite H, IH. reflexivity. Qed.

Lemma map_res_lookup_restrict c tbl (kws : list (Z * nat)) :
  map_res (fun kw => match nth_error (map (restrict c) tbl) (snd kw) with Some wd => Ok wd | None => Err EBadInput end) kws
  = match map_res (fun kw => match nth_error tbl (snd kw) with Some wd => Ok wd | None => Err EBadInput end) kws with
    | Ok wds => Ok (map (restrict c) wds)
    | Err e => Err e
    end.
Proof.
  induction kws as [|kw r IH]; [reflexivity|]. cbn [map_res]. rewrite nth_error_restrict.
  destruct (nth_error tbl (snd kw)) as [wd|]; cbn [option_map bind]; [|reflexivity].
  rewrite IH. clear IH.
  destruct (map_res (fun kw0 : Z * nat => match nth_error tbl (snd kw0) with Some wd0 => Ok wd0 | None => Err EBadInput end) r);
    reflexivity.
Qed.

Lemma map_res_map {A B C} (f : B -> result C) (g : A -> B) l : map_res f (map g l) = map_res (fun x => f (g x)) l.
Proof. induction l as [|x r IH]; [reflexivity|]. cbn [map map_res]. rewrite IH. reflexivity. Qed.

Lemma combine_map_l {A B C} (g : A -> B) (l : list A) (m : list C) :
  combine (map g l) m = map (fun p => (g (fst p), snd p)) (combine l m).
Proof. revert m. induction l as [|x r IH]; intros [|y m]; cbn; [reflexivity..|]. now rewrite IH. Qed.

Lemma forallb_map' {A B} (f : B -> bool) (g : A -> B) l : forallb f (map g l) = forallb (fun x => f (g x)) l.
Proof. induction l as [|x r IH]; [reflexivity|]. cbn [map forallb]. now rewrite IH. Qed.

Lemma calc_segments_restrict c tbl p adv : calc_segments c (map (restrict c) tbl) p adv = calc_segments c tbl p adv.
Proof.
  unfold calc_segments. destruct (p_wfs p) as [|kw kws] eqn:Ep; [reflexivity|].
  rewrite map_res_lookup_restrict.
  destruct (map_res _ (kw :: kws)) as [wds|e]; cbn [bind]; [|reflexivity].
  rewrite map_res_map. cbn [restrict wf_len].
  destruct (map_res (fun wd => waveform_length (wf_len wd)) wds) as [ns|e]; cbn [bind]; [|reflexivity].
  rewrite combine_map_l, forallb_map'. cbn [fst snd restrict wf_n].
  rewrite map_res_map. rewrite (map_res_ext _ (sample_segment c) wds (sample_segment_restrict c)).
  reflexivity.
Qed.

Lemma compile_with_restrict ff pf c tbl prog :
  compile_with ff pf c (map (restrict c) tbl) prog = compile_with ff pf c tbl prog.
Proof.
  unfold compile_with, parse_single, parse_aseq.
  repeat (first
    [ reflexivity
    | apply calc_segments_restrict
    | rewrite parse_table_restrict
    | rewrite parse_aseq_loop_restrict
    | match goal with
      | |- bind ?r _ = bind ?r _ => destruct r as [?|?]; cbn [bind]
      | |- (if ?b then _ else _) = (if ?b then _ else _) => destruct b
      | |- context [let '(_, _) := ?x in _] => destruct x
      end ]).
Qed.

Lemma src_samples_restrict c tbl ch d w : (forall k, ch = Some k -> used c k = true) ->
  src_samples (map (restrict c) tbl) ch d w = src_samples tbl ch d w.
Proof.
  intros H. unfold src_samples, wf_at. rewrite nth_error_restrict.
  destruct (nth_error tbl w) as [wd|]; cbn [option_map opt_bind]; [|reflexivity].
  cbn [restrict wf_len wf_n].
  destruct (Qeq_bool (wf_len wd) (inject_Z (wf_n wd)) && (0 <? wf_n wd)); cbn [opt_bind]; [|reflexivity].
  destruct ch as [k|]; [|reflexivity]. cbn [restrict wf_data wf_n].
  rewrite (assoc_filter (used c) k (H k eq_refl)). reflexivity.
Qed.

Lemma src_stream_restrict c tbl ch d played : (forall k, ch = Some k -> used c k = true) ->
  src_stream (map (restrict c) tbl) ch d played = src_stream tbl ch d played.
Proof.
  intros H. unfold src_stream. f_equal. apply map_ext. intros w. now apply src_samples_restrict.
Qed.

Lemma spec_restrict c tbl prog : spec c (map (restrict c) tbl) prog = spec c tbl prog.
Proof.
  unfold spec.
  rewrite (src_stream_restrict c tbl (c_cha c)) by (intros k Hk; now apply used_cha).
  rewrite (src_stream_restrict c tbl (c_chb c)) by (intros k Hk; now apply used_chb).
  rewrite (src_stream_restrict c tbl (c_ma c)) by (intros k Hk; now apply used_ma).
  rewrite (src_stream_restrict c tbl (c_mb c)) by (intros k Hk; now apply used_mb).
  reflexivity.
Qed.

(* equal class => equal length, sample count and equal data on the USED channels *)
Definition cls_inj_used (c : cfg) (tbl : list wfdata) : Prop :=
  forall w1 w2 d1 d2, nth_error tbl w1 = Some d1 -> nth_error tbl w2 = Some d2 -> wf_cls d1 = wf_cls d2 ->
    restrict c d1 = restrict c d2.

Theorem compile_plays_used c tbl prog o :
  good prog = true -> cls_inj_used c tbl -> len_exact tbl ->
  compile c tbl prog = Ok o ->
  exists s, spec c tbl prog = Some s /\ expand o = Some s.
Proof.
  intros G H1 H2 E. rewrite <- spec_restrict.
  apply (compile_plays c (map (restrict c) tbl) prog o G).
  - intros w1 w2 d1 d2 E1 E2 Hc. rewrite nth_error_restrict in E1, E2.
    destruct (nth_error tbl w1) as [x1|] eqn:N1; [|discriminate]. destruct (nth_error tbl w2) as [x2|] eqn:N2; [|discriminate].
    cbn in E1, E2. injection E1 as <-. injection E2 as <-. apply (H1 w1 w2 x1 x2 N1 N2). exact Hc.
  - intros w d E1. rewrite nth_error_restrict in E1. destruct (nth_error tbl w) as [x|] eqn:N; [|discriminate].
    cbn in E1. injection E1 as <-. cbn [restrict wf_len wf_n]. exact (H2 w x N).
  - unfold compile. rewrite compile_with_restrict. exact E.
Qed.

(* non-vacuity, with a table on which the OLD hypothesis (cls_inj: equal class => equal data on ALL channels) fails:
   two waveforms of one class that differ on a channel the configuration does not use *)
Definition ex_tbl_unused : list wfdata :=
  map (fun wd => {| wf_cls := wf_cls wd; wf_len := wf_len wd; wf_n := wf_n wd; wf_data := (77, []) :: wf_data wd |}) ex_tbl
  ++ ex_tbl.

(* a program that plays both twins of each class (waveform indices 0..3) *)
Definition ex_prog_twins : loop :=
  Loop 1 plain None [Loop 2 plain None [ex_leaf 0 1; ex_leaf 1 1; ex_leaf 2 1];
                     Loop 1 plain None [ex_leaf 3 2; ex_leaf 2 1; ex_leaf 0 1]].

Lemma ex_hyps_used :
  good ex_prog_twins = true /\ cls_inj_used (ex_cfg 3 5) ex_tbl_unused /\ len_exact ex_tbl_unused /\
  ~ cls_inj ex_tbl_unused /\
  exists o, compile (ex_cfg 3 5) ex_tbl_unused ex_prog_twins = Ok o /\ (length (o_segs o) = 2)%nat.
Proof.
  split; [reflexivity|]. split; [|split; [|split]].
  - intros [|[|[|[|w1]]]] [|[|[|[|w2]]]] d1 d2 H1 H2; unfold ex_tbl_unused, ex_tbl in H1, H2;
      cbn [map app nth_error] in H1, H2;
      try (destruct w1; discriminate H1); try (destruct w2; discriminate H2);
      injection H1 as <-; injection H2 as <-; cbn [wf_cls ex_wf]; intros Hc; try discriminate Hc; reflexivity.
  - intros [|[|[|[|w]]]] d H; unfold ex_tbl_unused, ex_tbl in H; cbn [map app nth_error] in H;
      try (destruct w; discriminate H); injection H as <-; reflexivity.
  - intros H. specialize (H 0%nat 2%nat _ _ eq_refl eq_refl eq_refl).
    apply (f_equal (fun d => length (wf_data d))) in H. vm_compute in H. discriminate H.
  - destruct (compile (ex_cfg 3 5) ex_tbl_unused ex_prog_twins) as [o|e] eqn:E.
    + exists o. split; [reflexivity|]. revert E. vm_compute. intros E. injection E as <-. reflexivity.
    + exfalso. revert E. vm_compute. discriminate.
Qed.

Lemma ex_segment : exists bin, sample_segment (ex_cfg 3 5) (ex_wf 0 (1 # 4) 192) = Ok bin /\ length bin = 384%nat.
Proof.
  destruct (sample_segment (ex_cfg 3 5) (ex_wf 0 (1 # 4) 192)) as [bin|e] eqn:E.
  - exists bin. split; [reflexivity|]. revert E. vm_compute. intros E. injection E as <-. reflexivity.
  - exfalso. revert E. vm_compute. discriminate.
Qed.
