(* C16 — proofs: termination of the two restructuring loops.
   (a) prepare_program_for_advanced_sequence_mode (`prep`): explicit measure
         prep_measure before after = #tables not yet passed + sum of the tables' repetition counts;
       every iteration lowers it, the inner `split_one_child` loop never runs out of its own fuel.
   (b) flatten_and_balance (`fab`): for every level and work list some fuel suffices (induction on the number of
       nodes, left-to-right compositionality of the work list, the loop's own post-condition for the node rebuilt
       over the result of the recursive call); more fuel never changes a result.
   (The technique of (b) follows the termination proof of C06's model; nothing is imported from there.)        *)
From Coq Require Import ZArith QArith List Bool Lia ZifyBool.
Require Import QV.C16.Model QV.C16.Spec QV.C16.Proofs.
Import ListNotations.
Open Scope Z_scope.

(* ================================================================================================================ *)
(* (a) prep                                                                                                          *)

Definition rsum (l : list loop) : nat := list_sum (map (fun t => Z.to_nat (l_rep t)) l).

Definition prep_measure (before after : list loop) : nat := (length after + rsum before + rsum after)%nat.

Lemma rsum_cons x l : rsum (x :: l) = (Z.to_nat (l_rep x) + rsum l)%nat.
Proof. reflexivity. Qed.

Lemma l_rep_set_ch a c : l_rep (set_ch a c) = l_rep a.
Proof. destruct a; reflexivity. Qed.

Lemma l_rep_set_rep a r : l_rep (set_rep a r) = r.
Proof. destruct a; reflexivity. Qed.

Lemma l_len_set_ch a c : l_len (set_ch a c) = Z.of_nat (length c).
Proof. destruct a; reflexivity. Qed.

Lemma split_last_p_length p : forall l l', split_last_p p l = Some l' -> length l' = S (length l).
Proof.
  induction l as [|c t IH]; intros l' H; cbn [split_last_p] in H; [discriminate|].
  destruct (split_last_p p t) as [t'|] eqn:E.
  - injection H as <-. cbn. now rewrite (IH _ eq_refl).
  - destruct ((l_rep c >? 1) && p c); [|discriminate]. injection H as <-. reflexivity.
Qed.

Lemma split_last_length : forall l l', split_last l = Some l' -> length l' = S (length l).
Proof.
  intros l l' H. unfold split_last in H. destruct (split_last_p (fun c => negb (l_vol c)) l) as [l1|] eqn:E.
  - injection H as <-. eapply split_last_p_length; eauto.
  - eapply split_last_p_length; eauto.
Qed.

Lemma split_until_no_fuel_error : forall k mn st, (Z.to_nat (mn - l_len st) <= k)%nat -> split_until k mn st <> Err EFuel.
Proof.
  induction k as [|k IH]; intros mn st Hk; cbn [split_until].
  - destruct (l_len st <? mn) eqn:E; [lia|discriminate].
  - destruct (l_len st <? mn) eqn:E; [|discriminate].
    destruct (split_last (l_ch st)) as [ch'|] eqn:Es; [|discriminate].
    apply IH. rewrite l_len_set_ch, (split_last_length _ _ Es). unfold l_len in *. lia.
Qed.

Lemma split_until_rep : forall k mn st st', split_until k mn st = Ok st' -> l_rep st' = l_rep st.
Proof.
  induction k as [|k IH]; intros mn st st' H; cbn [split_until] in H.
  - destruct (l_len st <? mn); [discriminate|]. now injection H as <-.
  - destruct (l_len st <? mn); [|now injection H as <-].
    destruct (split_last (l_ch st)) as [ch'|]; [|discriminate]. apply IH in H. now rewrite H, l_rep_set_ch.
Qed.

Lemma partial_unroll_no_fuel st mn : partial_unroll st mn <> Some (Err EFuel).
Proof.
  unfold partial_unroll. destruct (l_vol st); [discriminate|].
  destruct (_ >=? mn); [|discriminate]. intros H. injection H as H. revert H.
  apply split_until_no_fuel_error. lia.
Qed.

Lemma partial_unroll_rep st mn st' : 0 < l_rep st -> partial_unroll st mn = Some (Ok st') ->
  (Z.to_nat (l_rep st') <= Z.to_nat (l_rep st))%nat.
Proof.
  unfold partial_unroll. intros Hr. destruct (l_vol st); [discriminate|].
  destruct (_ >=? mn); [|discriminate]. intros H. injection H as H.
  apply split_until_rep in H. rewrite H. destruct (sum_reps (l_ch st) <? mn); [|lia].
  destruct st as [r m w ch]. cbn [unroll_children l_rep] in *. lia.
Qed.

Ltac prep_simpl :=
  unfold prep_measure, append_children, prepend_children, dec_rep;
  cbn [length]; rewrite ?rsum_cons, ?l_rep_set_ch, ?l_rep_set_rep.

Lemma after_unroll_measure cur mn before rest other b a : 0 < l_rep cur ->
  after_unroll (partial_unroll cur mn) before rest other = PNext b a ->
  (prep_measure b a < prep_measure before (cur :: rest))%nat \/ other = PNext b a.
Proof.
  intros Hr. unfold after_unroll. destruct (partial_unroll cur mn) as [[cur'|e]|] eqn:E; [|discriminate|now right].
  intros H. injection H as <- <-. left. pose proof (partial_unroll_rep _ _ _ Hr E). prep_simpl. lia.
Qed.

Lemma after_unroll_no_fuel cur mn before rest other :
  other <> PErr EFuel -> after_unroll (partial_unroll cur mn) before rest other <> PErr EFuel.
Proof.
  intros Ho. unfold after_unroll. pose proof (partial_unroll_no_fuel cur mn) as Hn.
  destruct (partial_unroll cur mn) as [[cur'|e]|]; [discriminate| |exact Ho]. congruence.
Qed.

Lemma prep_step_no_fuel mn mx before after : prep_step mn mx before after <> PErr EFuel.
Proof.
  unfold prep_step. destruct after as [|cur rest]; [discriminate|].
  repeat match goal with
         | |- after_unroll _ _ _ _ <> _ => apply after_unroll_no_fuel
         | |- (if ?c then _ else _) <> _ => destruct c
         | |- match ?x with _ => _ end <> _ => destruct x
         | |- _ => discriminate
         end.
Qed.

Lemma prep_step_measure mn mx before after b a : prep_step mn mx before after = PNext b a ->
  (prep_measure b a < prep_measure before after)%nat.
Proof.
  unfold prep_step. destruct after as [|cur rest]; [discriminate|].
  destruct (l_len cur >? mx); [discriminate|].
  destruct (l_len cur <? mn).
  2:{ intros H. injection H as <- <-. prep_simpl. lia. }
  destruct (negb (l_rep cur >? 0)) eqn:E0; [discriminate|]. assert (Hr : 0 < l_rep cur) by lia.
  assert (NBN : forall nx rt,
            (if (l_rep nx >? 1) && (l_len cur + l_len nx <? mx)
             then PNext before (append_children cur nx :: dec_rep nx :: rt) else PErr ETooShort) = PNext b a ->
            (prep_measure b a < prep_measure before (cur :: nx :: rt))%nat).
  { intros nx rt H. destruct ((l_rep nx >? 1) && (l_len cur + l_len nx <? mx)) eqn:E; [|discriminate].
    injection H as <- <-. prep_simpl. lia. }
  assert (NBP : forall p bt rest' other,
            (if (l_rep p >? 1) && (l_len cur + l_len p <? mx)
             then PNext (dec_rep p :: bt) (prepend_children p cur :: rest') else other) = PNext b a ->
            (prep_measure b a < prep_measure (p :: bt) (cur :: rest'))%nat \/ other = PNext b a).
  { intros p bt rest' other H. destruct ((l_rep p >? 1) && (l_len cur + l_len p <? mx)) eqn:E; [|now right].
    left. injection H as <- <-. prep_simpl. lia. }
  destruct ((l_rep cur =? 1) && negb (l_vol cur)).
  2:{ intros H. apply after_unroll_measure in H as [H|H]; [exact H|discriminate|exact Hr]. }
  destruct before as [|p bt].
  - destruct rest as [|nx rt].
    + intros H. apply after_unroll_measure in H as [H|H]; [exact H|discriminate|exact Hr].
    + destruct (merge_ok cur nx mx).
      * intros H. injection H as <- <-. prep_simpl. lia.
      * intros H. apply after_unroll_measure in H as [H|H]; [exact H| |exact Hr]. now apply NBN.
  - destruct (merge_ok p cur mx).
    + intros H. injection H as <- <-. prep_simpl. lia.
    + destruct rest as [|nx rt].
      * intros H. apply after_unroll_measure in H as [H|H]; [exact H| |exact Hr].
        apply NBP in H as [H|H]; [exact H|discriminate].
      * destruct (merge_ok cur nx mx).
        { intros H. injection H as <- <-. prep_simpl. lia. }
        intros H. apply after_unroll_measure in H as [H|H]; [exact H| |exact Hr].
        apply NBP in H as [H|H]; [exact H|]. now apply NBN.
Qed.

Theorem prep_terminates : forall fuel mn mx before after, (prep_measure before after < fuel)%nat ->
  prep fuel mn mx before after <> Err EFuel.
Proof.
  induction fuel as [|f IH]; intros mn mx before after Hm; [lia|]. cbn [prep].
  destruct (prep_step mn mx before after) as [b a|r|e] eqn:E.
  - apply IH. apply prep_step_measure in E. lia.
  - discriminate.
  - intros H. injection H as ->. exact (prep_step_no_fuel _ _ _ _ E).
Qed.

Lemma prep_fuel_mono : forall n mn mx before after r, prep n mn mx before after = r -> r <> Err EFuel ->
  forall k, prep (n + k) mn mx before after = r.
Proof.
  induction n as [|n IH]; intros mn mx before after r H Hr k; [cbn in H; congruence|].
  change (S n + k)%nat with (S (n + k)). cbn [prep] in *.
  destruct (prep_step mn mx before after); [now apply IH|exact H|exact H].
Qed.

(* the loop has a fuel-independent result *)
Corollary prep_total mn mx before after : exists r, r <> Err EFuel /\
  forall fuel, (prep_measure before after < fuel)%nat -> prep fuel mn mx before after = r.
Proof.
  set (n := S (prep_measure before after)). exists (prep n mn mx before after).
  assert (Hn : prep n mn mx before after <> Err EFuel) by (apply prep_terminates; lia).
  split; [exact Hn|]. intros fuel Hf. replace fuel with (n + (fuel - n))%nat by lia. now apply prep_fuel_mono.
Qed.

(* ================================================================================================================ *)
(* (b) fab                                                                                                           *)

(* the loop without the accumulator *)
Definition keep (sub : loop) (r : result (list loop)) : result (list loop) :=
  match r with Ok x => Ok (sub :: x) | Err e => Err e end.

Fixpoint fabl (fuel : nat) (d : Z) (todo : list loop) : result (list loop) :=
  match fuel with
  | O => Err EFuel
  | S f =>
      match todo with
      | [] => Ok []
      | sub :: rest =>
          if depth sub <? d - 1 then fabl f d (encapsulate sub :: rest)
          else if negb (balanced sub) then
            match fabl f (d - 1) (l_ch sub) with
            | Ok ch' => fabl f d (set_ch sub ch' :: rest)
            | Err e => Err e
            end
          else if depth sub =? d - 1 then keep sub (fabl f d rest)
          else if can_merge sub then fabl f d (merge_child sub :: rest)
          else if negb (is_leaf sub) then fabl f d (unroll sub ++ rest)
          else keep sub (fabl f d rest)
      end
  end.

Definition with_done (done : list loop) (r : result (list loop)) : result (list loop) :=
  match r with Ok x => Ok (rev done ++ x) | Err e => Err e end.

Lemma fab_fabl : forall n d done todo, fab n d done todo = with_done done (fabl n d todo).
Proof.
  induction n as [|f IH]; intros d done todo; [reflexivity|]. cbn [fab fabl].
  destruct todo as [|sub rest]; [cbn; now rewrite app_nil_r|].
  assert (K : forall dn, fab f d (sub :: dn) rest = with_done dn (keep sub (fabl f d rest))).
  { intros dn. rewrite IH. destruct (fabl f d rest); cbn; [|reflexivity]. now rewrite <- app_assoc. }
  destruct (depth sub <? d - 1); [apply IH|].
  destruct (negb (balanced sub)).
  { destruct sub as [r m w ch]. cbn [l_ch set_ch]. rewrite (IH (d - 1) [] ch).
    destruct (fabl f (d - 1) ch); cbn; [apply IH|reflexivity]. }
  destruct (depth sub =? d - 1); [apply K|].
  destruct (can_merge sub); [apply IH|].
  destruct (negb (is_leaf sub)); [apply IH|apply K].
Qed.

Lemma with_done_fuel done r : with_done done r = Err EFuel <-> r = Err EFuel.
Proof. destruct r; cbn; split; congruence. Qed.

Lemma fabl_S f d todo : fabl (S f) d todo =
  match todo with
  | [] => Ok []
  | sub :: rest =>
      if depth sub <? d - 1 then fabl f d (encapsulate sub :: rest)
      else if negb (balanced sub) then
        match fabl f (d - 1) (l_ch sub) with
        | Ok ch' => fabl f d (set_ch sub ch' :: rest)
        | Err e => Err e
        end
      else if depth sub =? d - 1 then keep sub (fabl f d rest)
      else if can_merge sub then fabl f d (merge_child sub :: rest)
      else if negb (is_leaf sub) then fabl f d (unroll sub ++ rest)
      else keep sub (fabl f d rest)
  end.
Proof. reflexivity. Qed.

Lemma fabl_fuel_mono' : forall n d todo, fabl n d todo <> Err EFuel -> forall k, fabl (n + k) d todo = fabl n d todo.
Proof.
  induction n as [|f IH]; intros d todo H k; [exfalso; apply H; reflexivity|].
  change (S f + k)%nat with (S (f + k)). rewrite fabl_S in H. rewrite !fabl_S.
  destruct todo as [|sub rest]; [reflexivity|].
  destruct (depth sub <? d - 1); [apply IH; auto|].
  destruct (negb (balanced sub)).
  { destruct (fabl f (d - 1) (l_ch sub)) as [cs|e] eqn:H1.
    - rewrite (IH (d - 1) (l_ch sub)), H1 by (rewrite H1; discriminate). apply IH; auto.
    - rewrite (IH (d - 1) (l_ch sub)), H1 by (rewrite H1; exact H). reflexivity. }
  assert (K : keep sub (fabl f d rest) <> Err EFuel -> keep sub (fabl (f + k) d rest) = keep sub (fabl f d rest)).
  { intros HK. rewrite (IH d rest); [reflexivity|]. intros E. apply HK. now rewrite E. }
  destruct (depth sub =? d - 1); [now apply K|].
  destruct (can_merge sub); [apply IH; auto|].
  destruct (negb (is_leaf sub)); [apply IH; auto|now apply K].
Qed.

Lemma fabl_fuel_mono : forall n d todo r, fabl n d todo = r -> r <> Err EFuel -> forall k, fabl (n + k) d todo = r.
Proof. intros n d todo r <- H k. apply fabl_fuel_mono'; auto. Qed.

Lemma fab_fuel_mono : forall n d done todo r, fab n d done todo = r -> r <> Err EFuel ->
  forall k, fab (n + k) d done todo = r.
Proof.
  intros n d done todo r H Hr k. rewrite fab_fabl in *. subst r.
  rewrite fabl_fuel_mono'; [reflexivity|]. intros E. apply Hr. now rewrite E.
Qed.

(* ------------------------------------------------------------------------------------------------------------------ *)
(* depth / balance facts, post-condition of the loop *)

Lemma zmax_list_nonneg l : 0 <= zmax_list l.
Proof. induction l; cbn [zmax_list fold_right]; [lia|]. fold (zmax_list l). lia. Qed.

Lemma depth_cons r m w c ch : depth (Loop r m w (c :: ch)) = 1 + zmax_list (map depth (c :: ch)).
Proof. reflexivity. Qed.

Lemma balanced_cons r m w c ch :
  balanced (Loop r m w (c :: ch)) = forallb (fun e => (depth e =? depth c) && balanced e) (c :: ch).
Proof. reflexivity. Qed.

Lemma depth_nonneg t : 0 <= depth t.
Proof.
  destruct t as [r m w [|c ch]]; [cbn; lia|]. rewrite depth_cons.
  pose proof (zmax_list_nonneg (map depth (c :: ch))). lia.
Qed.

Lemma zmax_list_const l x : 0 <= x -> l <> [] -> Forall (fun y => y = x) l -> zmax_list l = x.
Proof.
  intros Hx Hne H. induction H as [|y l Hy Hl IHl]; [congruence|].
  cbn [zmax_list fold_right]. fold (zmax_list l). destruct l as [|z l].
  - cbn. lia.
  - rewrite IHl by discriminate. lia.
Qed.

Lemma fabl_post : forall fuel d todo out, fabl fuel d todo = Ok out ->
  Forall (fun c => (balanced c = true /\ depth c = d - 1) \/ (is_leaf c = true /\ d - 1 < 0)) out.
Proof.
  induction fuel as [|f IH]; intros d todo out H; [discriminate|].
  rewrite fabl_S in H. destruct todo as [|sub rest]; [inversion H; constructor|].
  destruct (depth sub <? d - 1) eqn:E1; [eapply IH; eauto|].
  destruct (negb (balanced sub)) eqn:Hb.
  { destruct (fabl f (d - 1) (l_ch sub)) as [cs|]; [|discriminate]. eapply IH; eauto. }
  apply negb_false_iff in Hb.
  destruct (depth sub =? d - 1) eqn:E2.
  { destruct (fabl f d rest) as [r|] eqn:H1; [|discriminate]. cbn [keep] in H. inversion H; subst out.
    constructor; [left; split; auto; lia|eapply IH; eauto]. }
  destruct (can_merge sub); [eapply IH; eauto|].
  destruct (negb (is_leaf sub)) eqn:Hl; [eapply IH; eauto|].
  apply negb_false_iff in Hl.
  destruct (fabl f d rest) as [r|] eqn:H1; [|discriminate]. cbn [keep] in H. inversion H; subst out.
  constructor; [|eapply IH; eauto]. right. split; auto. pose proof (leaf_depth _ Hl). lia.
Qed.

(* ------------------------------------------------------------------------------------------------------------------ *)
(* fuel-free view: [Runs d l r] — the loop on [l] at level [d] finishes with the (non-fuel) result [r] *)

Definition Runs (d : Z) (l : list loop) (r : result (list loop)) : Prop :=
  r <> Err EFuel /\ exists n, fabl n d l = r.

Definition Term (d : Z) (l : list loop) : Prop := exists r, Runs d l r.

Lemma keep_noof sub r : r <> Err EFuel -> keep sub r <> Err EFuel.
Proof. destruct r; cbn; congruence. Qed.

Lemma runs_nil d : Runs d [] (Ok []).
Proof. split; [discriminate|]. exists 1%nat. reflexivity. Qed.

Lemma runs_enc d sub rest r : (depth sub <? d - 1) = true ->
  Runs d (encapsulate sub :: rest) r -> Runs d (sub :: rest) r.
Proof. intros C1 [Hr [n H]]. split; auto. exists (S n). rewrite fabl_S, C1. exact H. Qed.

Lemma runs_unbal_ok d sub rest cs r : (depth sub <? d - 1) = false -> balanced sub = false ->
  Runs (d - 1) (l_ch sub) (Ok cs) -> Runs d (set_ch sub cs :: rest) r -> Runs d (sub :: rest) r.
Proof.
  intros C1 C2 [Hr1 [n1 H1]] [Hr [n2 H2]]. split; auto. exists (S (n1 + n2)).
  rewrite fabl_S, C1, C2. cbn [negb].
  rewrite (fabl_fuel_mono _ _ _ _ H1 Hr1 n2).
  rewrite Nat.add_comm. apply fabl_fuel_mono; auto.
Qed.

Lemma runs_unbal_err d sub rest e : (depth sub <? d - 1) = false -> balanced sub = false ->
  Runs (d - 1) (l_ch sub) (Err e) -> Runs d (sub :: rest) (Err e).
Proof.
  intros C1 C2 [Hr1 [n1 H1]]. split; auto. exists (S n1).
  rewrite fabl_S, C1, C2. cbn [negb]. rewrite H1. reflexivity.
Qed.

Lemma runs_keep d sub rest r : (depth sub <? d - 1) = false -> balanced sub = true ->
  ((depth sub =? d - 1) = true \/ (can_merge sub = false /\ is_leaf sub = true)) ->
  Runs d rest r -> Runs d (sub :: rest) (keep sub r).
Proof.
  intros C1 C2 C [Hr [n H]]. split; [apply keep_noof; auto|]. exists (S n).
  rewrite fabl_S, C1, C2. cbn [negb]. destruct C as [C3|[C4 C5]].
  - rewrite C3, H. reflexivity.
  - destruct (depth sub =? d - 1); [|rewrite C4, C5; cbn [negb]]; rewrite H; reflexivity.
Qed.

Lemma runs_merge d sub rest r : (depth sub <? d - 1) = false -> balanced sub = true ->
  (depth sub =? d - 1) = false -> can_merge sub = true ->
  Runs d (merge_child sub :: rest) r -> Runs d (sub :: rest) r.
Proof.
  intros C1 C2 C3 C4 [Hr [n H]]. split; auto. exists (S n).
  rewrite fabl_S, C1, C2, C3, C4. cbn [negb]. exact H.
Qed.

Lemma runs_unroll d sub rest r : (depth sub <? d - 1) = false -> balanced sub = true ->
  (depth sub =? d - 1) = false -> can_merge sub = false -> is_leaf sub = false ->
  Runs d (unroll sub ++ rest) r -> Runs d (sub :: rest) r.
Proof.
  intros C1 C2 C3 C4 C5 [Hr [n H]]. split; auto. exists (S n).
  rewrite fabl_S, C1, C2, C3, C4, C5. cbn [negb]. exact H.
Qed.

(* ------------------------------------------------------------------------------------------------------------------ *)
(* left-to-right compositionality *)

Definition comb (ra rb : result (list loop)) : result (list loop) :=
  match ra with
  | Ok oa => match rb with Ok x => Ok (oa ++ x) | Err e => Err e end
  | Err e => Err e
  end.

Lemma runs_app_fuel : forall n d a ra, fabl n d a = ra -> ra <> Err EFuel ->
  forall b rb, Runs d b rb -> Runs d (a ++ b) (comb ra rb).
Proof.
  induction n as [|f IH]; intros d a ra H Hra b rb Hb; [cbn in H; congruence|].
  rewrite fabl_S in H. destruct a as [|sub a'].
  - subst ra. replace (comb (Ok []) rb) with rb by (destruct rb; reflexivity). exact Hb.
  - cbn [app].
    assert (forall ra', fabl f d a' = ra' -> keep sub ra' = ra -> Runs d (sub :: a' ++ b) (keep sub (comb ra' rb)) ->
                        Runs d (sub :: a' ++ b) (comb ra rb)) as Hkeep.
    { intros ra' _ E HR. rewrite <- E. destruct ra', rb; exact HR. }
    assert (forall ra', keep sub ra' = ra -> ra' <> Err EFuel) as Hnoof.
    { intros ra' E1 E2. apply Hra. rewrite <- E1, E2. reflexivity. }
    destruct (depth sub <? d - 1) eqn:C1.
    { apply runs_enc; auto. exact (IH d (encapsulate sub :: a') ra H Hra b rb Hb). }
    destruct (balanced sub) eqn:C2; cbn [negb] in H.
    2:{ destruct (fabl f (d - 1) (l_ch sub)) as [cs|e] eqn:H1.
        - eapply runs_unbal_ok; eauto.
          + split; [discriminate|eauto].
          + exact (IH d (set_ch sub cs :: a') ra H Hra b rb Hb).
        - subst ra. cbn [comb]. apply runs_unbal_err; auto. split; eauto. }
    destruct (depth sub =? d - 1) eqn:C3.
    { apply (Hkeep _ eq_refl H). apply runs_keep; [auto|auto|auto|]. exact (IH d a' _ eq_refl (Hnoof _ H) b rb Hb). }
    destruct (can_merge sub) eqn:C4.
    { eapply runs_merge; eauto. exact (IH d (merge_child sub :: a') ra H Hra b rb Hb). }
    destruct (is_leaf sub) eqn:C5; cbn [negb] in H.
    { apply (Hkeep _ eq_refl H). apply runs_keep; [auto|auto|auto|]. exact (IH d a' _ eq_refl (Hnoof _ H) b rb Hb). }
    apply runs_unroll; auto. rewrite app_assoc. eapply IH; eauto.
Qed.

Lemma Term_nil d : Term d [].
Proof. exists (Ok []). apply runs_nil. Qed.

Lemma Term_app d a b : Term d a -> Term d b -> Term d (a ++ b).
Proof. intros [ra [Hra [n H]]] [rb Hb]. exists (comb ra rb). eapply runs_app_fuel; eauto. Qed.

Lemma Term_Forall d l : Forall (fun t => Term d [t]) l -> Term d l.
Proof.
  induction 1 as [|x l Hx _ IH]; [apply Term_nil|]. change (x :: l) with ([x] ++ l). apply Term_app; auto.
Qed.

(* ------------------------------------------------------------------------------------------------------------------ *)
(* balanced trees *)

Lemma depth_encapsulate s : depth (encapsulate s) = 1 + depth s.
Proof.
  pose proof (depth_nonneg s). unfold encapsulate. rewrite depth_cons. cbn [map zmax_list fold_right]. lia.
Qed.

Lemma balanced_encapsulate s : balanced (encapsulate s) = balanced s.
Proof.
  unfold encapsulate. rewrite balanced_cons. cbn [forallb]. rewrite Z.eqb_refl, andb_true_r. reflexivity.
Qed.

Lemma l_ch_set_ch s cs : l_ch (set_ch s cs) = cs.
Proof. destruct s; reflexivity. Qed.

Lemma can_merge_leaf s : is_leaf s = true -> can_merge s = false.
Proof. unfold is_leaf, can_merge. destruct (l_ch s); [reflexivity|discriminate]. Qed.

Lemma In_rep_concat {A} (x : A) n l : In x (rep_concat n l) -> In x l.
Proof.
  unfold rep_concat. induction (Z.to_nat n) as [|k IH]; cbn [repeat concat]; [intros []|].
  intros H. apply in_app_or in H. tauto.
Qed.

Lemma can_merge_inv t : can_merge t = true ->
  exists r m w cr cm cw cch, t = Loop r m w [Loop cr cm cw cch] /\ merge_child t = Loop (r * cr) (merge_meta r m cr cm) cw cch.
Proof.
  destruct t as [r m w [|[cr cm cw cch] [|c2 ch]]]; unfold can_merge; cbn [l_ch]; try discriminate.
  intros _. repeat eexists.
Qed.

(* a balanced tree that is not too deep is wrapped until it has depth d-1 and emitted *)
Lemma term_balanced_low : forall k s d, balanced s = true -> d - 1 - depth s = Z.of_nat k -> Term d [s].
Proof.
  induction k as [|k IH]; intros s d Hb Hk.
  - exists (keep s (Ok [])). apply runs_keep; [lia|auto|left; lia|apply runs_nil].
  - destruct (IH (encapsulate s) d) as [r Hr].
    + rewrite balanced_encapsulate; auto.
    + rewrite depth_encapsulate. lia.
    + exists r. apply runs_enc; [lia|auto].
Qed.

Lemma term_leaf s d : is_leaf s = true -> Term d [s].
Proof.
  intros Hl. pose proof (balanced_leaf _ Hl) as Hb. pose proof (leaf_depth _ Hl) as Hd.
  destruct (Z_le_gt_dec 0 (d - 1)).
  - apply (term_balanced_low (Z.to_nat (d - 1)) s d); auto. lia.
  - exists (keep s (Ok [])). apply runs_keep; [lia|auto| |apply runs_nil].
    right. split; auto. apply can_merge_leaf; auto.
Qed.

Lemma term_balanced_gen t d : balanced t = true ->
  (can_merge t = true -> Term d [merge_child t]) ->
  (forall c, In c (l_ch t) -> Term d [c]) -> Term d [t].
Proof.
  intros Hb Hm Hc. destruct (Z_le_gt_dec (depth t) (d - 1)).
  - apply (term_balanced_low (Z.to_nat (d - 1 - depth t)) t d); auto. lia.
  - destruct (can_merge t) eqn:C4.
    + destruct (Hm eq_refl) as [r Hr]. exists r. eapply runs_merge; eauto; lia.
    + destruct (is_leaf t) eqn:C5.
      * exists (keep t (Ok [])). apply runs_keep; [lia|auto|auto|apply runs_nil].
      * assert (Term d (unroll t ++ [])) as [r Hr].
        { rewrite app_nil_r. apply Term_Forall. unfold unroll. apply Forall_forall. intros c Hin.
          apply Hc. eapply In_rep_concat; eauto. }
        exists r. apply runs_unroll; auto; lia.
Qed.

Lemma node_balanced_depth r m w c0 cs x : 0 <= x ->
  Forall (fun c => balanced c = true /\ depth c = x) (c0 :: cs) ->
  depth (Loop r m w (c0 :: cs)) = 1 + x /\ balanced (Loop r m w (c0 :: cs)) = true.
Proof.
  intros Hx HF. split.
  - rewrite depth_cons. rewrite (zmax_list_const _ x); [lia|lia|discriminate|].
    apply Forall_map. eapply Forall_impl; [|exact HF]. cbn beta. tauto.
  - rewrite balanced_cons. apply forallb_forall. intros e He.
    rewrite Forall_forall in HF. destruct (HF e He) as [Hb Hde]. destruct (HF c0 (or_introl eq_refl)) as [_ Hd0].
    rewrite Hb, andb_true_r. lia.
Qed.

(* a node over leaves *)
Lemma term_over_leaves s d : forallb is_leaf (l_ch s) = true -> Term d [s].
Proof.
  intros Hl. rewrite forallb_forall in Hl.
  assert (balanced s = true) as Hb.
  { destruct s as [r m w [|c0 cs]]; [reflexivity|]. cbn [l_ch] in Hl.
    apply (node_balanced_depth r m w c0 cs 0); [lia|]. apply Forall_forall. intros c Hc.
    split; [apply balanced_leaf|apply leaf_depth]; auto. }
  apply term_balanced_gen; auto.
  - intros Hm. destruct (can_merge_inv _ Hm) as (r & m & w & cr & cm & cw & cch & -> & ->).
    cbn [l_ch] in Hl. specialize (Hl _ (or_introl eq_refl)). apply term_leaf.
    unfold is_leaf in *. cbn [l_ch] in *. exact Hl.
  - intros c Hc. apply term_leaf; auto.
Qed.

(* the node rebuilt over the result of the inner call *)
Lemma term_set_ch_post d s cs :
  Forall (fun c => (balanced c = true /\ depth c = d - 1 - 1) \/ (is_leaf c = true /\ d - 1 - 1 < 0)) cs ->
  Term d [set_ch s cs].
Proof.
  intros HF. destruct (Z_lt_ge_dec (d - 1 - 1) 0).
  - apply term_over_leaves. rewrite l_ch_set_ch. apply forallb_forall. intros c Hc.
    rewrite Forall_forall in HF. destruct (HF c Hc) as [[_ H]|[H _]]; auto.
    pose proof (depth_nonneg c). lia.
  - destruct cs as [|c0 cs].
    + apply term_leaf. destruct s; reflexivity.
    + assert (Forall (fun c => balanced c = true /\ depth c = d - 1 - 1) (c0 :: cs)) as HF'.
      { eapply Forall_impl; [|exact HF]. cbn beta. intros c [H|[_ H]]; [auto|lia]. }
      destruct s as [r m w ch]. cbn [set_ch].
      destruct (node_balanced_depth r m w c0 cs (d - 1 - 1) ltac:(lia) HF') as [Hd Hb].
      apply (term_balanced_low 0 _ d); auto. lia.
Qed.

(* ------------------------------------------------------------------------------------------------------------------ *)
(* unbalanced trees *)

Lemma unbal_step W d : balanced W = false -> depth W >= d - 1 -> Term (d - 1) (l_ch W) -> Term d [W].
Proof.
  intros Hb Hd [r [Hr [n Hn]]]. destruct r as [cs|e].
  - pose proof (fabl_post _ _ _ _ Hn) as Hpost.
    destruct (term_set_ch_post d W cs Hpost) as [r' Hr']. exists r'.
    eapply runs_unbal_ok; eauto; [lia|]. split; eauto.
  - exists (Err e). apply runs_unbal_err; auto; [lia|]. split; eauto.
Qed.

Fixpoint wrap (j : nat) (t : loop) : loop :=
  match j with O => t | S j' => encapsulate (wrap j' t) end.

Lemma balanced_wrap j t : balanced (wrap j t) = balanced t.
Proof. induction j; cbn [wrap]; auto. rewrite balanced_encapsulate. auto. Qed.

Lemma wrap_deep t : balanced t = false -> (forall d, Term d (l_ch t)) ->
  forall j d, depth (wrap j t) >= d - 1 -> Term d [wrap j t].
Proof.
  intros Hb Hch. induction j as [|j IH]; intros d Hd.
  - cbn [wrap] in *. apply unbal_step; auto.
  - apply unbal_step; auto.
    + rewrite balanced_wrap. auto.
    + cbn [wrap] in *. unfold encapsulate at 1. cbn [l_ch]. apply IH. rewrite depth_encapsulate in Hd. lia.
Qed.

Lemma wrap_any t : balanced t = false -> (forall d, Term d (l_ch t)) ->
  forall k j d, d - 1 - depth (wrap j t) <= Z.of_nat k -> Term d [wrap j t].
Proof.
  intros Hb Hch. induction k as [|k IH]; intros j d H.
  - apply wrap_deep; auto; lia.
  - destruct (Z_lt_ge_dec (depth (wrap j t)) (d - 1)).
    + destruct (IH (S j) d) as [r Hr].
      { cbn [wrap]. rewrite depth_encapsulate. lia. }
      exists r. apply runs_enc; [lia|exact Hr].
    + apply wrap_deep; auto; lia.
Qed.

Lemma term_unbalanced t : balanced t = false -> (forall d, Term d (l_ch t)) -> forall d, Term d [t].
Proof. intros Hb Hch d. apply (wrap_any t Hb Hch (Z.to_nat (d - 1 - depth t)) 0%nat d). cbn [wrap]. lia. Qed.

(* ------------------------------------------------------------------------------------------------------------------ *)
(* the induction on the number of nodes *)

Fixpoint tsize (t : loop) : nat :=
  match t with Loop _ _ _ ch => S (list_sum (map tsize ch)) end.

Lemma tsize_node r m w ch : tsize (Loop r m w ch) = S (list_sum (map tsize ch)).
Proof. reflexivity. Qed.

Lemma tsize_child c ch : In c ch -> (tsize c <= list_sum (map tsize ch))%nat.
Proof.
  induction ch as [|a ch IH]; intros H; [destruct H|]. cbn [map list_sum fold_right]. destruct H as [->|H].
  - lia.
  - specialize (IH H). unfold list_sum in IH. lia.
Qed.

Lemma term_single : forall n t, (tsize t <= n)%nat -> forall d, Term d [t].
Proof.
  induction n as [|n IH]; intros t Hn d.
  - destruct t. rewrite tsize_node in Hn. lia.
  - assert (forall c, In c (l_ch t) -> forall d', Term d' [c]) as Hc.
    { intros c Hin d'. apply IH. destruct t as [r m w ch]. cbn [l_ch] in Hin. rewrite tsize_node in Hn.
      pose proof (tsize_child c ch Hin). lia. }
    destruct (balanced t) eqn:Hb.
    + apply term_balanced_gen; auto.
      intros Hm. apply IH.
      destruct (can_merge_inv _ Hm) as (r & m & w & cr & cm & cw & cch & -> & ->).
      rewrite !tsize_node in *. cbn [map list_sum fold_right] in Hn. rewrite tsize_node in Hn. lia.
    + apply term_unbalanced; auto. intros d'. apply Term_Forall. apply Forall_forall. intros c Hin. apply Hc; auto.
Qed.

Lemma Term_all d todo : Term d todo.
Proof. apply Term_Forall. apply Forall_forall. intros t _. apply (term_single (tsize t)). lia. Qed.

Theorem fabl_terminates : forall d todo, exists n, forall k, fabl (n + k) d todo <> Err EFuel.
Proof.
  intros d todo. destruct (Term_all d todo) as [r [Hr [n Hn]]]. exists n. intros k.
  rewrite (fabl_fuel_mono _ _ _ _ Hn Hr k). exact Hr.
Qed.

Theorem fab_terminates : forall d done todo, exists n, forall k, fab (n + k) d done todo <> Err EFuel.
Proof.
  intros d done todo. destruct (fabl_terminates d todo) as [n Hn]. exists n. intros k.
  rewrite fab_fabl. intros E. apply with_done_fuel in E. exact (Hn k E).
Qed.

(* the loop has a fuel-independent result *)
Corollary fab_total d done todo : exists n r, r <> Err EFuel /\ forall k, fab (n + k) d done todo = r.
Proof.
  destruct (fab_terminates d done todo) as [n Hn]. exists n, (fab n d done todo).
  assert (H0 : fab n d done todo <> Err EFuel) by (specialize (Hn 0%nat); now rewrite Nat.add_0_r in Hn).
  split; [exact H0|]. intros k. now apply fab_fuel_mono.
Qed.

(* ================================================================================================================ *)
(* (c) the compiler as a whole: with enough fuel for the two loops the result does not depend on the fuel and is   *)
(*     never the fuel error (no other stage can produce it)                                                         *)

Definition nf {A} (r : result A) : Prop := r <> Err EFuel.

Lemma bind_nf {A B} (r : result A) (f : A -> result B) : nf r -> (forall a, nf (f a)) -> nf (bind r f).
Proof. unfold nf. intros Hr Hf. destruct r as [a|e]; cbn [bind]; [apply Hf|]. intros E. apply Hr. congruence. Qed.

Lemma map_res_nf {A B} (f : A -> result B) l : (forall x, nf (f x)) -> nf (map_res f l).
Proof.
  intros Hf. induction l as [|x l IH]; cbn [map_res]; [discriminate|].
  apply bind_nf; [apply Hf|]. intros y. apply bind_nf; [exact IH|]. discriminate.
Qed.

Lemma parse_table_nf tbl : forall ch known, nf (parse_table tbl ch known).
Proof.
  induction ch as [|c r IH]; intros known; cbn [parse_table]; [discriminate|].
  destruct (l_wf c); [|discriminate]. destruct (cls_of tbl n); [|discriminate].
  destruct (setdefault wf_key_eqb (z, n) known) as [idx k1]. apply bind_nf; [apply IH|]. intros [es k2]. discriminate.
Qed.

Lemma parse_aseq_loop_nf tbl : forall tables adv seqs known, nf (parse_aseq_loop tbl tables adv seqs known).
Proof.
  induction tables as [|t r IH]; intros adv seqs known; cbn [parse_aseq_loop]; [discriminate|].
  apply bind_nf; [apply parse_table_nf|]. intros [es k1]. destruct (setdefault tkey_eqb (es, map l_volp (l_ch t)) seqs). apply IH.
Qed.

Lemma sample_segment_nf c wd : nf (sample_segment c wd).
Proof.
  assert (HC : forall ch amp off tr, nf (channel_data wd ch amp off tr)).
  { intros ch amp off tr. unfold channel_data. destruct ch; [|discriminate]. destruct (assoc _ _); [|discriminate].
    destruct (negb _); [discriminate|]. destruct (Qle_bool amp 0); [discriminate|].
    destruct (map_opt _ _); discriminate. }
  assert (HM : forall m, nf (marker_data wd m)).
  { intros m. unfold marker_data. destruct m; [|discriminate]. destruct (assoc _ _); [|discriminate].
    destruct (negb _); discriminate. }
  unfold sample_segment. repeat (apply bind_nf; [auto|intros ?]). discriminate.
Qed.

Lemma calc_segments_nf c tbl p advd : nf (calc_segments c tbl p advd).
Proof.
  unfold calc_segments. destruct (p_wfs p) as [|kw0 kws]; [discriminate|].
  apply bind_nf; [apply map_res_nf; intros kw; destruct (nth_error tbl (snd kw)); discriminate|]. intros wds.
  apply bind_nf.
  { apply map_res_nf. intros wd. unfold waveform_length. destruct (Qle_bool _ _); [|discriminate].
    destruct (_ <=? 0); discriminate. }
  intros ns. destruct (existsb _ ns); [discriminate|]. destruct (negb _); [discriminate|].
  apply bind_nf; [apply map_res_nf; intros wd; apply sample_segment_nf|]. intros bins.
  destruct (dedup_segments bins [] []) as [segs w2s].
  apply bind_nf; [|discriminate].
  apply map_res_nf. intros t. apply map_res_nf. intros e. destruct (nth_z w2s (snd e)); discriminate.
Qed.

Theorem compile_terminates c tbl prog : exists n1 n2 r, r <> Err EFuel /\
  forall k1 k2, compile_with (n1 + k1) (n2 + k2) c tbl prog = r.
Proof.
  unfold compile_with.
  set (prog1 := if (l_rep prog >? 1) || l_vol prog || (depth prog =? 0) then Loop 1 plain None [prog] else prog).
  destruct (fab_total 2 [] (l_ch prog1)) as (n1 & r1 & Hr1 & Hf).
  assert (Hp : exists n2, forall ch1, r1 = Ok ch1 -> exists r2, r2 <> Err EFuel /\
             forall k2, prep (n2 + k2) (c_min c) (c_max c) [] ch1 = r2).
  { destruct r1 as [ch1|e].
    - destruct (prep_total (c_min c) (c_max c) [] ch1) as (r2 & Hr2 & H2).
      exists (S (prep_measure [] ch1)). intros ch1' [= <-]. exists r2. split; [exact Hr2|]. intros k2. apply H2. lia.
    - exists 0%nat. intros ch1 [=]. }
  destruct Hp as (n2 & Hp). exists n1, n2.
  destruct (negb (c_nchan c =? c_cpp c)); [exists (Err EChannels); split; [discriminate|reflexivity]|].
  destruct (negb (c_nmark c =? c_cpp c)); [exists (Err EChannels); split; [discriminate|reflexivity]|].
  destruct (negb (c_nchan c =? 2)); [exists (Err EBadInput); split; [discriminate|reflexivity]|].
  destruct (negb (match c_mode c with Some m => m | None => depth prog1 >? 1 end)).
  - eexists. split; [|intros; reflexivity].
    destruct (negb (depth prog1 =? 1)); [discriminate|]. destruct (negb (balanced prog1)); [discriminate|].
    destruct (l_len prog1 >? c_max c); [discriminate|].
    apply bind_nf; [|intros; apply calc_segments_nf]. unfold parse_single.
    apply bind_nf; [apply parse_table_nf|]. intros [es known]. discriminate.
  - destruct (negb (depth prog1 >? 1)); [exists (Err EAssert); split; [discriminate|reflexivity]|].
    destruct (negb (l_rep prog1 =? 1)); [exists (Err EAssert); split; [discriminate|reflexivity]|].
    destruct r1 as [ch1|e].
    + destruct (Hp ch1 eq_refl) as (r2 & Hr2 & H2).
      exists (bind r2 (fun ch2 =>
                if negb (forallb (fun t => (l_len t >=? c_min c) && (l_len t <=? c_max c)) ch2) then Err EAssert
                else bind (parse_aseq tbl (set_ch prog1 ch2)) (fun p => calc_segments c tbl p true))).
      split.
      * apply bind_nf; [exact Hr2|]. intros ch2. destruct (negb _); [discriminate|].
        apply bind_nf; [apply parse_aseq_loop_nf|intros; apply calc_segments_nf].
      * intros k1 k2. rewrite Hf. cbn [bind]. rewrite H2. reflexivity.
    + exists (Err e). split; [intros E; apply Hr1; congruence|]. intros k1 k2. rewrite Hf. reflexivity.
Qed.
