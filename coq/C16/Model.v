(* C16 — operational model of qupulse/_program/tabor.py (TaborProgram.__init__ and everything it calls),
   qupulse/hardware/util.py (voltage_to_uint16, get_waveform_length) and the Loop rewrites of program/loop.py that the
   Tabor compiler uses.  Definitions only (no proofs), executable, total; errors are explicit.

   Source program  : `loop` tree (repetition count, flags "has measurements" / "count is volatile", optional waveform
                     reference, children)
                     + a waveform table `list wfdata` (equality class under Waveform.__eq__ after
                     get_subset_for_channels, length in samples as exact rational, samples per channel at k/rate).
   Compiler        : `compile cfg tbl prog : result out`
   Table player    : `expand out` (independent of the compiler: plays advanced table -> sequencer tables -> segments
                     and decodes the uploaded binary layout).                                                        *)
From Coq Require Import ZArith QArith Qround Qabs List Bool.
Import ListNotations.
Open Scope Z_scope.

Inductive err :=
| EChannels      (* TaborException: wrong number of channels / markers *)
| EAssert        (* AssertionError (mode / depth / repetition count / table length asserts) *)
| ETooLong       (* TaborException: sequence table longer than max_seq_len *)
| ETooShort      (* TaborException: sequence table cannot be made longer *)
| ENonInteger    (* ValueError: waveform length not an integer number of samples / not positive *)
| ESegLen        (* TaborException: segment shorter than 192 or not a multiple of 16 *)
| EVoltage       (* ValueError: voltage out of range *)
| EBadInput      (* input outside the modelled domain (missing channel, amplitude <= 0, inconsistent sample list) *)
| ENoWaveform    (* TaborException: a sequence table entry has neither waveform nor children (repaired code; it was
                    an AttributeError = ECrash before) *)
| ECrash         (* the real code would fail with an unexpected exception (RuntimeError, IndexError) *)
| EFuel.         (* loop fuel exhausted (model artefact) *)

Inductive result (A : Type) := Ok (a : A) | Err (e : err).
Arguments Ok {A} a.
Arguments Err {A} e.

Definition bind {A B} (r : result A) (f : A -> result B) : result B :=
  match r with Ok a => f a | Err e => Err e end.
Notation "'do' x <- r ; k" := (bind r (fun x => k)) (at level 200, x pattern, r at level 100, k at level 200).

(* ------------------------------------------------------------------------------------------------------------- *)
(* Loop trees (program/loop.py, utils/tree.py)                                                                     *)

(* the VolatileProperty (expression, dependencies) of a volatile repetition count, up to what the compiler can build:
   k * <volatile parameter i>   or   k * (parent count * child count)   (VolatileRepetitionCount.operation);
   equality as decided by the expression's canonical form: same factor, same core; factor 0 = the constant 0 *)
Inductive vprop := VId (k : Z) (i : Z) | VOp (k : Z) (p c : vprop).

Fixpoint vprop_eqb (a b : vprop) : bool :=
  match a, b with
  | VId k i, VId k' i' => (k =? k') && ((k =? 0) || (i =? i'))
  | VOp k p c, VOp k' p' c' => (k =? k') && ((k =? 0) || (vprop_eqb p p' && vprop_eqb c c'))
  | VId k _, VOp k' _ _ | VOp k _ _, VId k' _ => (k =? 0) && (k' =? 0)
  end.

(* VolatileValue.__mul__(int) *)
Definition vscale (v : vprop) (n : Z) : vprop :=
  match v with VId k i => VId (k * n) i | VOp k p c => VOp (k * n) p c end.

(* per-node flags: measurements attached; the repetition count is a VolatileRepetitionCount with this property (its
   CURRENT value is `rep`) *)
Record nmeta := { has_meas : bool; vol : option vprop }.
Definition is_vol (m : nmeta) : bool := match vol m with Some _ => true | None => false end.
Definition plain : nmeta := {| has_meas := false; vol := None |}.
Definition clear_vol (m : nmeta) : nmeta := {| has_meas := has_meas m; vol := None |}.
(* Loop._merge_single_child: parent (count r, flags p) over child (count cr, flags c) *)
Definition merge_meta (r : Z) (p : nmeta) (cr : Z) (c : nmeta) : nmeta :=
  {| has_meas := has_meas p || has_meas c;
     vol := match vol p, vol c with
            | None, None => None
            | None, Some vc => Some (vscale vc r)
            | Some vp, None => Some (vscale vp cr)
            | Some vp, Some vc => Some (VOp 1 vp vc)
            end |}.

Inductive loop := Loop (rep : Z) (meta : nmeta) (wf : option nat) (ch : list loop).

Definition l_rep (l : loop) : Z := match l with Loop r _ _ _ => r end.
Definition l_meas (l : loop) : bool := match l with Loop _ m _ _ => has_meas m end.
Definition l_vol (l : loop) : bool := match l with Loop _ m _ _ => is_vol m end.
Definition l_volp (l : loop) : option vprop := match l with Loop _ m _ _ => vol m end.
Definition l_wf (l : loop) : option nat := match l with Loop _ _ w _ => w end.
Definition l_ch (l : loop) : list loop := match l with Loop _ _ _ c => c end.
Definition l_len (l : loop) : Z := Z.of_nat (length (l_ch l)).
Definition is_leaf (l : loop) : bool := match l_ch l with [] => true | _ => false end.
(* the repetition_count setter stores an int: a volatile count becomes a fixed one *)
Definition set_rep (l : loop) (r : Z) : loop := match l with Loop _ m w c => Loop r (clear_vol m) w c end.
Definition set_ch (l : loop) (c : list loop) : loop := match l with Loop r m w _ => Loop r m w c end.

Definition zmax_list (l : list Z) : Z := fold_right Z.max 0 l.

(* Node.depth *)
Fixpoint depth (l : loop) : Z :=
  match l with
  | Loop _ _ _ ch => match ch with [] => 0 | _ => 1 + zmax_list (map depth ch) end
  end.

(* Node.is_balanced *)
Fixpoint balanced (l : loop) : bool :=
  match l with
  | Loop _ _ _ ch =>
      match ch with
      | [] => true
      | c0 :: _ => forallb (fun e => (depth e =? depth c0) && balanced e) ch
      end
  end.

(* `range(n)`-fold concatenation of a list of copies (copy_tree_structure is the identity on pure trees) *)
Definition rep_concat {A} (n : Z) (l : list A) : list A := concat (repeat l (Z.to_nat n)).

(* Loop.encapsulate (on a node that stays in place): the node's content moves one level down *)
Definition encapsulate (l : loop) : loop := Loop 1 plain None [l].

(* Loop._has_single_child_that_can_be_merged *)
Definition can_merge (l : loop) : bool :=
  match l_ch l with
  | [c] => negb (l_meas l) || ((l_rep c =? 1) && negb (l_vol c))
  | _ => false
  end.

(* Loop._merge_single_child *)
Definition merge_child (l : loop) : loop :=
  match l with
  | Loop r m _ [Loop cr cm cw cch] => Loop (r * cr) (merge_meta r m cr cm) cw cch   (* volatile if either count is *)
  | _ => l
  end.

(* Loop.unroll: the node is replaced in its parent by repetition_count copies of its children *)
Definition unroll (l : loop) : list loop := rep_concat (l_rep l) (l_ch l).

(* Loop.flatten_and_balance(depth) acting on the children list of `self`; `done` is the reversed prefix [0,i) *)
Fixpoint fab (fuel : nat) (d : Z) (done todo : list loop) : result (list loop) :=
  match fuel with
  | O => Err EFuel
  | S f =>
      match todo with
      | [] => Ok (rev done)
      | sub :: rest =>
          if depth sub <? d - 1 then fab f d done (encapsulate sub :: rest)
          else if negb (balanced sub) then
            match sub with
            | Loop r m w ch =>
                match fab f (d - 1) [] ch with
                | Ok ch' => fab f d done (Loop r m w ch' :: rest)
                | Err e => Err e
                end
            end
          else if depth sub =? d - 1 then fab f d (sub :: done) rest
          else if can_merge sub then fab f d done (merge_child sub :: rest)
          else if negb (is_leaf sub) then fab f d done (unroll sub ++ rest)
          else fab f d (sub :: done) rest
      end
  end.

(* ------------------------------------------------------------------------------------------------------------- *)
(* prepare_program_for_advanced_sequence_mode (+ _check_merge_with_next, _check_partial_unroll,                    *)
(* Loop.unroll_children, Loop.split_one_child)                                                                     *)

Definition sum_reps (l : list loop) : Z := fold_right (fun c s => l_rep c + s) 0 l.

(* Loop.unroll_children *)
Definition unroll_children (l : loop) : loop :=
  match l with Loop r m w ch => Loop 1 (clear_vol m) w (rep_concat r ch) end.

(* Loop.split_one_child(child_index=None): the LAST child with repetition count > 1 whose count is not volatile —
   if there is none, the last child with (volatile) count > 1 — is split into (n-1, 1); both parts get fixed counts *)
Fixpoint split_last_p (p : loop -> bool) (l : list loop) : option (list loop) :=
  match l with
  | [] => None
  | c :: t =>
      match split_last_p p t with
      | Some t' => Some (c :: t')
      | None => if (l_rep c >? 1) && p c then Some (set_rep c (l_rep c - 1) :: set_rep c 1 :: t) else None
      end
  end.

Definition split_last (l : list loop) : option (list loop) :=
  match split_last_p (fun c => negb (l_vol c)) l with
  | Some l' => Some l'
  | None => split_last_p (fun _ => true) l
  end.

(* `while len(st) < min_seq_len: st.split_one_child()`; k bounds the number of iterations (each adds one child) *)
Fixpoint split_until (k : nat) (mn : Z) (st : loop) : result loop :=
  if l_len st <? mn then
    match k with
    | O => Err EFuel
    | S k' =>
        match split_last (l_ch st) with
        | Some ch' => split_until k' mn (set_ch st ch')
        | None => Err ECrash      (* RuntimeError('There is no child with repetition count > 1') *)
        end
    end
  else Ok st.

(* _check_partial_unroll: None = returned False *)
Definition partial_unroll (st : loop) (mn : Z) : option (result loop) :=
  let s := sum_reps (l_ch st) in
  if l_vol st then None                                    (* if st.volatile_repetition: return False *)
  else if s * l_rep st >=? mn then
    let st1 := if s <? mn then unroll_children st else st in
    Some (split_until (Z.to_nat (mn - l_len st1)) mn st1)
  else None.

Definition merge_ok (a b : loop) (mx : Z) : bool :=
  (l_rep a =? 1) && (l_rep b =? 1) && negb (l_vol a) && negb (l_vol b) && (l_len a + l_len b <? mx).
Definition append_children (a b : loop) : loop := set_ch a (l_ch a ++ l_ch b).
Definition prepend_children (a b : loop) : loop := set_ch b (l_ch a ++ l_ch b).
Definition dec_rep (a : loop) : loop := set_rep a (l_rep a - 1).

(* one iteration of the while loop; `before` = reversed tables [0,i), `after` = tables [i,...) *)
Inductive pstep := PNext (before after : list loop) | PDone (r : list loop) | PErr (e : err).

Definition after_unroll (r : option (result loop)) (before rest : list loop) (otherwise : pstep) : pstep :=
  match r with
  | Some (Ok cur') => PNext (cur' :: before) rest          (* i += 1 *)
  | Some (Err e) => PErr e
  | None => otherwise
  end.

Definition prep_step (mn mx : Z) (before after : list loop) : pstep :=
  match after with
  | [] => PDone (rev before)
  | cur :: rest =>
      if l_len cur >? mx then PErr ETooLong
      else if l_len cur <? mn then
        if negb (l_rep cur >? 0) then PErr EAssert
        else if (l_rep cur =? 1) && negb (l_vol cur) then
          match before with
          | p :: bt => if merge_ok p cur mx then PNext (append_children p cur :: bt) rest else
              match rest with
              | nx :: rt => if merge_ok cur nx mx then PNext before (append_children cur nx :: rt) else
                  after_unroll (partial_unroll cur mn) before rest
                    (if (l_rep p >? 1) && (l_len cur + l_len p <? mx)
                     then PNext (dec_rep p :: bt) (prepend_children p cur :: rest)
                     else if (l_rep nx >? 1) && (l_len cur + l_len nx <? mx)
                     then PNext before (append_children cur nx :: dec_rep nx :: rt)
                     else PErr ETooShort)
              | [] =>
                  after_unroll (partial_unroll cur mn) before rest
                    (if (l_rep p >? 1) && (l_len cur + l_len p <? mx)
                     then PNext (dec_rep p :: bt) (prepend_children p cur :: rest)
                     else PErr ETooShort)
              end
          | [] =>
              match rest with
              | nx :: rt => if merge_ok cur nx mx then PNext before (append_children cur nx :: rt) else
                  after_unroll (partial_unroll cur mn) before rest
                    (if (l_rep nx >? 1) && (l_len cur + l_len nx <? mx)
                     then PNext before (append_children cur nx :: dec_rep nx :: rt)
                     else PErr ETooShort)
              | [] => after_unroll (partial_unroll cur mn) before rest (PErr ETooShort)
              end
          end
        else after_unroll (partial_unroll cur mn) before rest (PErr ETooShort)
      else PNext (cur :: before) rest
  end.

Fixpoint prep (fuel : nat) (mn mx : Z) (before after : list loop) : result (list loop) :=
  match fuel with
  | O => Err EFuel
  | S f =>
      match prep_step mn mx before after with
      | PNext b a => prep f mn mx b a
      | PDone r => Ok r
      | PErr e => Err e
      end
  end.

(* ------------------------------------------------------------------------------------------------------------- *)
(* Waveform table and device configuration                                                                          *)

Record wfdata := {
  wf_cls : Z;                       (* equality class of waveform.get_subset_for_channels(used_channels) *)
  wf_len : Q;                       (* duration * sample_rate, exact *)
  wf_n : Z;                         (* number of samples of every list in wf_data *)
  wf_data : list (Z * list Q)       (* channel id -> voltage at k / sample_rate, 0 <= k < wf_n *)
}.

Record cfg := {
  c_nchan : Z; c_nmark : Z; c_cpp : Z;            (* len(channels), len(markers), device_properties['chan_per_part'] *)
  c_cha : option Z; c_chb : option Z;             (* channels[0], channels[1] *)
  c_ma : option Z; c_mb : option Z;               (* markers[0], markers[1] *)
  c_amp_a : Q; c_amp_b : Q; c_off_a : Q; c_off_b : Q;
  c_tr_a : Q * Q; c_tr_b : Q * Q;                 (* voltage transformation v |-> fst * v + snd *)
  c_min : Z; c_max : Z;                           (* min_seq_len, max_seq_len *)
  c_mode : option bool                            (* None = automatic, Some false = SINGLE, Some true = ADVANCED *)
}.

Fixpoint assoc {A} (k : Z) (l : list (Z * A)) : option A :=
  match l with
  | [] => None
  | (k', v) :: r => if k =? k' then Some v else assoc k r
  end.

(* ------------------------------------------------------------------------------------------------------------- *)
(* parse_aseq_program / parse_single_seq_program                                                                   *)

Fixpoint find_idx {A} (p : A -> bool) (l : list A) (i : Z) : option Z :=
  match l with
  | [] => None
  | x :: r => if p x then Some i else find_idx p r (i + 1)
  end.

(* OrderedDict.setdefault(key, len(dict)) on a list of keys in insertion order *)
Definition setdefault {A} (eqb : A -> A -> bool) (k : A) (l : list A) : Z * list A :=
  match find_idx (eqb k) l 0 with
  | Some i => (i, l)
  | None => (Z.of_nat (length l), l ++ [k])
  end.

Definition cls_of (tbl : list wfdata) (w : nat) : option Z := option_map wf_cls (nth_error tbl w).

(* waveforms are keyed by their equality class; the first object of a class is the one that gets sampled *)
Definition wf_key_eqb (a b : Z * nat) : bool := fst a =? fst b.

Definition entry_eqb (a b : Z * Z) : bool := (fst a =? fst b) && (snd a =? snd b).
Fixpoint table_eqb (a b : list (Z * Z)) : bool :=
  match a, b with
  | [], [] => true
  | x :: a', y :: b' => entry_eqb x y && table_eqb a' b'
  | _, _ => false
  end.

(* one sequencer table: every child must be a leaf carrying a waveform *)
Fixpoint parse_table (tbl : list wfdata) (children : list loop) (known : list (Z * nat))
  : result (list (Z * Z) * list (Z * nat)) :=
  match children with
  | [] => Ok ([], known)
  | c :: r =>
      match l_wf c with
      | None => Err ENoWaveform                             (* _get_used_waveform: TaborException *)
      | Some w =>
          match cls_of tbl w with
          | None => Err EBadInput
          | Some k =>
              let '(idx, known') := setdefault wf_key_eqb (k, w) known in
              do (es, known'') <- parse_table tbl r known';
              Ok ((l_rep c, idx) :: es, known'')
          end
      end
  end.

Record parsed := { p_adv : list (Z * Z); p_seqs : list (list (Z * Z)); p_wfs : list (Z * nat) }.

(* the key of sequencer_tables: the tuple of (TableDescription, volatile_repetition) pairs — two tables with the same
   entries are distinct when the volatile properties of their entries differ *)
Definition tkey : Type := list (Z * Z) * list (option vprop).

Fixpoint tags_eqb (a b : list (option vprop)) : bool :=
  match a, b with
  | [], [] => true
  | x :: a', y :: b' =>
      (match x, y with None, None => true | Some u, Some v => vprop_eqb u v | _, _ => false end) && tags_eqb a' b'
  | _, _ => false
  end.

Definition tkey_eqb (a b : tkey) : bool := table_eqb (fst a) (fst b) && tags_eqb (snd a) (snd b).

Fixpoint parse_aseq_loop (tbl : list wfdata) (tables : list loop) (adv : list (Z * Z)) (seqs : list tkey)
  (known : list (Z * nat)) : result parsed :=
  match tables with
  | [] => Ok {| p_adv := adv; p_seqs := map fst seqs; p_wfs := known |}
  | t :: r =>
      do (es, known') <- parse_table tbl (l_ch t) known;
      let '(sidx, seqs') := setdefault tkey_eqb (es, map l_volp (l_ch t)) seqs in
      parse_aseq_loop tbl r (adv ++ [(l_rep t, sidx + 1)]) seqs' known'
  end.

Definition parse_aseq (tbl : list wfdata) (root : loop) : result parsed :=
  parse_aseq_loop tbl (l_ch root) [] [] [].

Definition parse_single (tbl : list wfdata) (root : loop) : result parsed :=
  do (es, known) <- parse_table tbl (l_ch root) [];
  Ok {| p_adv := [(l_rep root, 1)]; p_seqs := [es]; p_wfs := known |}.

(* ------------------------------------------------------------------------------------------------------------- *)
(* hardware/util.py: voltage_to_uint16 (numpy variant, exact arithmetic), get_waveform_length                      *)

(* numpy.rint / Python round(): round half to even *)
Definition rint (q : Q) : Z :=
  let f := Qfloor q in
  let r := (q - inject_Z f)%Q in
  match Qcompare r (1 # 2) with
  | Lt => f
  | Gt => f + 1
  | Eq => if Z.even f then f else f + 1
  end.

Definition tolerance : Q := 7737125245533627 # 77371252455336267181195264.   (* float 1e-10, exactly *)

(* get_waveform_length *)
Definition waveform_length (len : Q) : result Z :=
  let n := rint len in
  if Qle_bool (Qabs (len - inject_Z n)) tolerance then
    if n <=? 0 then Err ENonInteger else Ok n
  else Err ENonInteger.

(* _voltage_to_uint16_numpy on one value, resolution 14 *)
Definition v2u (amp off v : Q) : option Z :=
  let x := (v - off)%Q in
  if Qle_bool (Qabs x) amp then Some (rint ((x + amp) * ((16383 # 1) / ((2 # 1) * amp))))
  else None.

Fixpoint map_opt {A B} (f : A -> option B) (l : list A) : option (list B) :=
  match l with
  | [] => Some []
  | x :: r => match f x, map_opt f r with Some y, Some ys => Some (y :: ys) | _, _ => None end
  end.

Definition affine (tr : Q * Q) (v : Q) : Q := (fst tr * v + snd tr)%Q.

(* TaborProgram._channel_data *)
Definition channel_data (wd : wfdata) (ch : option Z) (amp off : Q) (tr : Q * Q) : result (list Z) :=
  match ch with
  | None => Ok (repeat 8192 (Z.to_nat (wf_n wd)))
  | Some c =>
      match assoc c (wf_data wd) with
      | None => Err EBadInput
      | Some vs =>
          if negb (Z.of_nat (length vs) =? wf_n wd) then Err EBadInput
          else if Qle_bool amp 0 then Err EBadInput
          else match map_opt (fun v => v2u amp off (affine tr v)) vs with
               | Some codes => Ok codes
               | None => Err EVoltage
               end
      end
  end.

(* t[::2] *)
Fixpoint evens {A} (l : list A) : list A :=
  match l with
  | x :: _ :: r => x :: evens r
  | [x] => [x]
  | [] => []
  end.

Definition nonzero (v : Q) : bool := negb (Qeq_bool v 0).

(* TaborProgram._marker_data *)
Definition marker_data (wd : wfdata) (m : option Z) : result (list bool) :=
  match m with
  | None => Ok (evens (repeat false (Z.to_nat (wf_n wd))))
  | Some c =>
      match assoc c (wf_data wd) with
      | None => Err EBadInput
      | Some vs =>
          if negb (Z.of_nat (length vs) =? wf_n wd) then Err EBadInput
          else Ok (map nonzero (evens vs))
      end
  end.

(* ------------------------------------------------------------------------------------------------------------- *)
(* TaborSegment.from_sampled + get_as_binary: the uploaded layout.  Per quantum of 16 samples:                      *)
(*   16 words channel B, then 16 words channel A; the 8 marker samples of the quantum sit in bits 14 (marker A)     *)
(*   and 15 (marker B) of words 8..15 of the channel-A half.                                                        *)

Definition mark_word (w : Z) (ma mb : bool) : Z :=
  Z.lor (Z.lor w (Z.shiftl (Z.b2z ma) 14)) (Z.shiftl (Z.b2z mb) 15).

Fixpoint mark_words (ws : list Z) (ma mb : list bool) : list Z :=
  match ws, ma, mb with
  | w :: ws', a :: ma', b :: mb' => mark_word w a b :: mark_words ws' ma' mb'
  | _, _, _ => []
  end.

Fixpoint pack (quanta : nat) (a b : list Z) (ma mb : list bool) : list Z :=
  match quanta with
  | O => []
  | S q =>
      firstn 16 b ++ firstn 8 a ++ mark_words (firstn 8 (skipn 8 a)) (firstn 8 ma) (firstn 8 mb)
      ++ pack q (skipn 16 a) (skipn 16 b) (skipn 8 ma) (skipn 8 mb)
  end.

(* one waveform -> binary segment *)
Definition sample_segment (c : cfg) (wd : wfdata) : result (list Z) :=
  do a <- channel_data wd (c_cha c) (c_amp_a c) (c_off_a c) (c_tr_a c);
  do b <- channel_data wd (c_chb c) (c_amp_b c) (c_off_b c) (c_tr_b c);
  do ma <- marker_data wd (c_ma c);
  do mb <- marker_data wd (c_mb c);
  Ok (pack (Z.to_nat (wf_n wd / 16)) a b ma mb).

Fixpoint zlist_eqb (a b : list Z) : bool :=
  match a, b with
  | [], [] => true
  | x :: a', y :: b' => (x =? y) && zlist_eqb a' b'
  | _, _ => false
  end.

Fixpoint map_res {A B} (f : A -> result B) (l : list A) : result (list B) :=
  match l with
  | [] => Ok []
  | x :: r => do y <- f x; do ys <- map_res f r; Ok (y :: ys)
  end.

(* segments.setdefault(segment, len(segments)) for every waveform, in order *)
Fixpoint dedup_segments (bins : list (list Z)) (segs : list (list Z)) (w2s : list Z) : list (list Z) * list Z :=
  match bins with
  | [] => (segs, w2s)
  | b :: r => let '(i, segs') := setdefault zlist_eqb b segs in dedup_segments r segs' (w2s ++ [i])
  end.

Record out := {
  o_segs : list (list Z);          (* get_sampled_segments()[0], each as get_as_binary() *)
  o_lens : list Z;                 (* get_sampled_segments()[1] *)
  o_seqs : list (list (Z * Z));    (* get_sequencer_tables(): (repetition_count, element_id) *)
  o_adv : list (Z * Z);            (* get_advanced_sequencer_table(): (repetition_count, element_number) *)
  o_advanced : bool                (* waveform_mode *)
}.

Definition nth_z {A} (l : list A) (i : Z) : option A := if i <? 0 then None else nth_error l (Z.to_nat i).

(* TaborProgram._calc_sampled_segments + get_sequencer_tables *)
Definition calc_segments (c : cfg) (tbl : list wfdata) (p : parsed) (advanced : bool) : result out :=
  match p_wfs p with
  | [] => Err EAssert                                       (* get_sample_times: empty waveform list *)
  | _ =>
    do wds <- map_res (fun kw => match nth_error tbl (snd kw) with Some wd => Ok wd | None => Err EBadInput end)
                      (p_wfs p);
    do ns <- map_res (fun wd => waveform_length (wf_len wd)) wds;
    if existsb (fun n => (n mod 16 >? 0) || (n <? 192)) ns then Err ESegLen
    else if negb (forallb (fun wn => wf_n (fst wn) =? snd wn) (combine wds ns)) then Err EBadInput
    else
      do bins <- map_res (sample_segment c) wds;
      let '(segs, w2s) := dedup_segments bins [] [] in
      do seqs <- map_res (fun t => map_res (fun e : Z * Z =>
                                     match nth_z w2s (snd e) with
                                     | Some s => Ok (fst e, s)
                                     | None => Err ECrash
                                     end) t) (p_seqs p);
      Ok {| o_segs := segs; o_lens := map (fun s => Z.of_nat (length s) / 2) segs;
            o_seqs := seqs; o_adv := p_adv p; o_advanced := advanced |}
  end.

(* ------------------------------------------------------------------------------------------------------------- *)
(* TaborProgram.__init__                                                                                           *)

Definition fab_fuel : nat := (200 * 200)%nat.   (* 40000; written as a product: no huge unary literal *)
Definition prep_fuel : nat := 4000.

(* ff / pf: fuel of the two restructuring loops (a model artefact; Proofs_term.v: both loops terminate, and with
   enough fuel the result does not depend on the fuel) *)
Definition compile_with (ff pf : nat) (c : cfg) (tbl : list wfdata) (prog : loop) : result out :=
  if negb (c_nchan c =? c_cpp c) then Err EChannels
  else if negb (c_nmark c =? c_cpp c) then Err EChannels
  else
    let prog1 := if (l_rep prog >? 1) || l_vol prog || (depth prog =? 0)
                 then Loop 1 plain None [prog] else prog in
    let advanced := match c_mode c with Some m => m | None => depth prog1 >? 1 end in
    if negb (c_nchan c =? 2) then Err EBadInput          (* ProgramEntry asserts equal tuple lengths; only pairs modelled *)
    else if negb advanced then
      (* setup_single_sequence_mode *)
      if negb (depth prog1 =? 1) then Err EAssert
      else if negb (balanced prog1) then Err EAssert
      else if l_len prog1 >? c_max c then Err ETooLong   (* repaired code: the single table must fit max_seq_len *)
      else do p <- parse_single tbl prog1; calc_segments c tbl p false
    else
      (* setup_advanced_sequence_mode *)
      if negb (depth prog1 >? 1) then Err EAssert
      else if negb (l_rep prog1 =? 1) then Err EAssert
      else
        do ch1 <- fab ff 2 [] (l_ch prog1);
        do ch2 <- prep pf (c_min c) (c_max c) [] ch1;
        if negb (forallb (fun t => (l_len t >=? c_min c) && (l_len t <=? c_max c)) ch2) then Err EAssert
        else do p <- parse_aseq tbl (set_ch prog1 ch2); calc_segments c tbl p true.

Definition compile : cfg -> list wfdata -> loop -> result out := compile_with fab_fuel prep_fuel.

(* ------------------------------------------------------------------------------------------------------------- *)
(* TaborProgram.__init__ works IN PLACE: the tree it leaves behind in its argument (whether it returns or raises).
   The tuple-length checks come before any change; the root is encapsulated; flatten_and_balance runs to its end;
   prepare raises only at the start of an iteration (or returns), so what it leaves is `rev before ++ after` of the
   last state it reached; asserts, parsers and sampling do not touch the tree. *)
Fixpoint prep_last (fuel : nat) (mn mx : Z) (before after : list loop) : list loop :=
  match fuel with
  | O => rev before ++ after
  | S f =>
      match prep_step mn mx before after with
      | PNext b a => prep_last f mn mx b a
      | _ => rev before ++ after
      end
  end.

Definition tree_after_with (ff pf : nat) (c : cfg) (prog : loop) : loop :=
  if negb (c_nchan c =? c_cpp c) then prog
  else if negb (c_nmark c =? c_cpp c) then prog
  else
    let prog1 := if (l_rep prog >? 1) || l_vol prog || (depth prog =? 0)
                 then Loop 1 plain None [prog] else prog in
    let advanced := match c_mode c with Some m => m | None => depth prog1 >? 1 end in
    if negb (c_nchan c =? 2) then prog1
    else if negb advanced then prog1
    else if negb (depth prog1 >? 1) then prog1
    else if negb (l_rep prog1 =? 1) then prog1
    else match fab ff 2 [] (l_ch prog1) with
         | Ok ch1 => set_ch prog1 (prep_last pf (c_min c) (c_max c) [] ch1)
         | Err _ => prog1
         end.

Definition tree_after : cfg -> loop -> loop := tree_after_with fab_fuel prep_fuel.

(* ------------------------------------------------------------------------------------------------------------- *)
(* The table player (independent of the compiler): what the instrument does with the uploaded data                 *)

Record streams := { s_a : list Z; s_b : list Z; s_ma : list bool; s_mb : list bool }.

Definition streams_app (x y : streams) : streams :=
  {| s_a := s_a x ++ s_a y; s_b := s_b x ++ s_b y; s_ma := s_ma x ++ s_ma y; s_mb := s_mb x ++ s_mb y |}.
Definition streams_nil : streams := {| s_a := []; s_b := []; s_ma := []; s_mb := [] |}.
Definition streams_concat (l : list streams) : streams := fold_right streams_app streams_nil l.

(* decode the binary layout of one segment: 14-bit codes of both channels, marker bits at half rate *)
Fixpoint decode (quanta : nat) (bin : list Z) : streams :=
  match quanta with
  | O => streams_nil
  | S q =>
      let b := firstn 16 bin in
      let a := firstn 16 (skipn 16 bin) in
      let mw := skipn 8 a in
      streams_app {| s_a := map (fun w => Z.land w 16383) a;
                     s_b := b;
                     s_ma := map (fun w => Z.testbit w 14) mw;
                     s_mb := map (fun w => Z.testbit w 15) mw |}
                  (decode q (skipn 32 bin))
  end.

Definition decode_segment (bin : list Z) : streams := decode (Nat.div (length bin) 32) bin.

(* sequencer table: entries (repetition_count, element_id = index into the segment list) *)
Fixpoint play_seq (segs : list (list Z)) (t : list (Z * Z)) : option (list (list Z)) :=
  match t with
  | [] => Some []
  | (r, i) :: t' =>
      match nth_z segs i, play_seq segs t' with
      | Some s, Some rest => Some (repeat s (Z.to_nat r) ++ rest)
      | _, _ => None
      end
  end.

(* advanced table: entries (repetition_count, element_number = 1-based index into the sequencer tables) *)
Fixpoint play_adv (segs : list (list Z)) (seqs : list (list (Z * Z))) (adv : list (Z * Z)) : option (list (list Z)) :=
  match adv with
  | [] => Some []
  | (r, n) :: adv' =>
      match nth_z seqs (n - 1), play_adv segs seqs adv' with
      | Some t, Some rest =>
          match play_seq segs t with
          | Some once => Some (rep_concat r once ++ rest)
          | None => None
          end
      | _, _ => None
      end
  end.

Definition expand (o : out) : option streams :=
  option_map (fun played => streams_concat (map decode_segment played)) (play_adv (o_segs o) (o_seqs o) (o_adv o)).
