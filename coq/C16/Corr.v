(* C16 — correspondence cases.  Each case carries the inputs (configuration, waveform table, source tree) and the
   implementation's observation (segments as uploaded binary, segment lengths, sequencer tables, advanced table,
   mode) or the fact that the implementation rejected the program.  Long lists are run-length encoded.            *)
From Coq Require Import ZArith QArith List Bool.
Require Import QV.common.Util QV.C16.Model QV.C16.Spec.
Import ListNotations.
Open Scope Z_scope.

Fixpoint unrle {A} (r : list (A * Z)) : list A :=
  match r with
  | [] => []
  | (x, n) :: r' => repeat x (Z.to_nat n) ++ unrle r'
  end.

Definition mk_wf (cls : Z) (len : Q) (n : Z) (data : list (Z * list (Q * Z))) : wfdata :=
  {| wf_cls := cls; wf_len := len; wf_n := n; wf_data := map (fun cd => (fst cd, unrle (snd cd))) data |}.

Definition mk_cfg (nchan nmark cpp : Z) (cha chb ma mb : option Z) (ampa ampb offa offb : Q) (tra trb : Q * Q)
  (mn mx : Z) (mode : option bool) : cfg :=
  {| c_nchan := nchan; c_nmark := nmark; c_cpp := cpp; c_cha := cha; c_chb := chb; c_ma := ma; c_mb := mb;
     c_amp_a := ampa; c_amp_b := ampb; c_off_a := offa; c_off_b := offb; c_tr_a := tra; c_tr_b := trb;
     c_min := mn; c_max := mx; c_mode := mode |}.

Definition mk_out (segs : list (list (Z * Z))) (lens : list Z) (seqs : list (list (Z * Z))) (adv : list (Z * Z))
  (advanced : bool) : out :=
  {| o_segs := map unrle segs; o_lens := lens; o_seqs := seqs; o_adv := adv; o_advanced := advanced |}.

Inductive case :=
| CProg (c : cfg) (tbl : list wfdata) (prog : loop) (impl : option out)     (* None: the implementation raised *)
| CTwice (c1 c : cfg) (tbl : list wfdata) (prog0 prog1 : loop) (impl : option out)
    (* the Loop prog0 was compiled with c1 first (result ignored); prog1 = the tree read back from the Loop object
       afterwards; impl = observation of the second compilation (configuration c) of the same object *)
| CCrash.                                                                  (* unexpected exception / hang *)

(* strict structural equality of trees (volatile properties syntactically; a property scaled by 0 is the constant 0
   in the implementation — its expression no longer names what was scaled — so factor 0 = factor 0) *)
Fixpoint vprop_same (a b : vprop) : bool :=
  match a, b with
  | VId k i, VId k' i' => (k =? k') && ((k =? 0) || (i =? i'))
  | VOp k p c, VOp k' p' c' => (k =? k') && ((k =? 0) || (vprop_same p p' && vprop_same c c'))
  | VId k _, VOp k' _ _ | VOp k _ _, VId k' _ => (k =? 0) && (k' =? 0)
  end.

Definition meta_same (a b : nmeta) : bool :=
  Bool.eqb (has_meas a) (has_meas b) &&
  match vol a, vol b with None, None => true | Some u, Some v => vprop_same u v | _, _ => false end.

Definition optnat_same (a b : option nat) : bool :=
  match a, b with None, None => true | Some x, Some y => Nat.eqb x y | _, _ => false end.

Fixpoint loop_same (a b : loop) : bool :=
  match a, b with
  | Loop r m w ch, Loop r' m' w' ch' =>
      (r =? r') && meta_same m m' && optnat_same w w' &&
      (fix go (x y : list loop) : bool :=
         match x, y with
         | [], [] => true
         | p :: x', q :: y' => loop_same p q && go x' y'
         | _, _ => false
         end) ch ch'
  end.

Definition zz_eqb (a b : Z * Z) : bool := (fst a =? fst b) && (snd a =? snd b).

Definition out_eqb (a b : out) : bool :=
  list_eqb zlist_eqb (o_segs a) (o_segs b) && list_eqb Z.eqb (o_lens a) (o_lens b)
  && list_eqb (list_eqb zz_eqb) (o_seqs a) (o_seqs b) && list_eqb zz_eqb (o_adv a) (o_adv b)
  && Bool.eqb (o_advanced a) (o_advanced b).

Definition streams_eqb (a b : streams) : bool :=
  zlist_eqb (s_a a) (s_a b) && zlist_eqb (s_b a) (s_b b)
  && list_eqb Bool.eqb (s_ma a) (s_ma b) && list_eqb Bool.eqb (s_mb a) (s_mb b).

(* model of the compiler = implementation (tables, segments, numbering, mode, accept/reject) *)
Definition check_corr (k : case) : bool :=
  match k with
  | CProg c tbl prog impl =>
      match compile c tbl prog, impl with
      | Ok o, Some o' => out_eqb o o'
      | Err _, None => true
      | _, _ => false
      end
  | CTwice c1 c tbl prog0 prog1 impl =>
      (* the model of the in-place effect of the first compilation = the tree found in the Loop object, and the model
         of the second compilation (started from that tree) = implementation *)
      loop_same (tree_after c1 prog0) prog1 &&
      match compile c tbl prog1, impl with
      | Ok o, Some o' => out_eqb o o'
      | Err _, None => true
      | _, _ => false
      end
  | CCrash => false
  end.

(* the property on the implementation's observation: the tables played by `expand` give the quantised source
   program, and everything emitted respects the device limits; rejecting is always allowed.
   `spec_cached` = `spec` (Props.C16_spec_cached_eq), evaluated with one quantisation per waveform of the table;
   round 6: on `map snap tbl`, i.e. Spec.spec_tol — the table carries the EXACT length of every piece, a piece within
   the tolerance of get_waveform_length is specified as its wf_n samples, one outside has no specification *)
Definition spec_eval (c : cfg) (tbl : list wfdata) (prog : loop) : option streams := spec_cached c (map snap tbl) prog.

Definition check_spec (k : case) : bool :=
  match k with
  | CProg c tbl prog impl =>
      match impl with
      | None => true
      | Some o' =>
          match spec_eval c tbl prog, expand o' with
          | Some s, Some s' => streams_eqb s s' && limits_ok c o'
          | _, _ => false
          end
      end
  | CTwice c1 c tbl prog0 prog1 impl =>
      (* the specification of the ORIGINAL program (as built, before anything compiled it) *)
      match impl with
      | None => true
      | Some o' =>
          match spec_eval c tbl prog0, expand o' with
          | Some s, Some s' => streams_eqb s s' && limits_ok c o'
          | _, _ => false
          end
      end
  | CCrash => false
  end.

(* finer views used by the harness to classify a rejection of check_spec *)
Definition check_plays (k : case) : bool :=
  match k with
  | CProg c tbl prog (Some o') =>
      match spec_eval c tbl prog, expand o' with Some s, Some s' => streams_eqb s s' | _, _ => false end
  | CProg _ _ _ None => true
  | CTwice _ c tbl prog0 _ (Some o') =>
      match spec_eval c tbl prog0, expand o' with Some s, Some s' => streams_eqb s s' | _, _ => false end
  | CTwice _ _ _ _ _ None => true
  | CCrash => false
  end.
