(* C16 — proofs, part 2: bit packing of segments and the binary layout *)
From Coq Require Import ZArith QArith Qround Qabs List Bool Lia ZifyBool.
Require Import QV.C16.Model QV.C16.Spec.
Import ListNotations.
Open Scope Z_scope.

Definition code_ok (w : Z) : Prop := 0 <= w < 16384.

Lemma testbit_small w n : code_ok w -> 14 <= n -> Z.testbit w n = false.
Proof.
  intros [H0 H1] Hn. destruct (Z.eq_dec w 0) as [->|Hw]; [apply Z.testbit_0_l|].
  apply Z.bits_above_log2; [lia|]. apply Z.log2_lt_pow2; [lia|].
  apply Z.lt_le_trans with (2 ^ 14); [exact H1|]. apply Z.pow_le_mono_r; lia.
Qed.

Lemma land_small w : code_ok w -> Z.land w 16383 = w.
Proof.
  intros [H0 H1]. change 16383 with (Z.ones 14). rewrite Z.land_ones by lia. apply Z.mod_small. lia.
Qed.

Lemma mark_word_land w x y : code_ok w -> Z.land (mark_word w x y) 16383 = w.
Proof.
  intros H. unfold mark_word. rewrite !Z.land_lor_distr_l, land_small by assumption.
  destruct x, y; reflexivity || (cbn; rewrite ?Z.lor_0_r; reflexivity).
Qed.

Lemma mark_word_bit14 w x y : code_ok w -> Z.testbit (mark_word w x y) 14 = x.
Proof.
  intros H. unfold mark_word. rewrite !Z.lor_spec, testbit_small by (auto; lia). destruct x, y; reflexivity.
Qed.

Lemma mark_word_bit15 w x y : code_ok w -> Z.testbit (mark_word w x y) 15 = y.
Proof.
  intros H. unfold mark_word. rewrite !Z.lor_spec, testbit_small by (auto; lia). destruct x, y; reflexivity.
Qed.

Lemma mark_words_length : forall ws ma mb, length ma = length ws -> length mb = length ws ->
  length (mark_words ws ma mb) = length ws.
Proof.
  induction ws as [|w ws IH]; intros [|a ma] [|b mb] H1 H2; cbn in *; try discriminate; auto.
Qed.

Lemma mark_words_decode : forall ws ma mb, Forall code_ok ws -> length ma = length ws -> length mb = length ws ->
  map (fun w => Z.land w 16383) (mark_words ws ma mb) = ws /\
  map (fun w => Z.testbit w 14) (mark_words ws ma mb) = ma /\
  map (fun w => Z.testbit w 15) (mark_words ws ma mb) = mb.
Proof.
  induction ws as [|w ws IH]; intros [|a ma] [|b mb] HF H1 H2; cbn [mark_words map length] in *;
    try discriminate; auto.
  inversion HF as [|? ? Hw HF']; subst.
  destruct (IH ma mb HF') as (I1 & I2 & I3); [lia|lia|].
  rewrite I1, I2, I3, mark_word_land, mark_word_bit14, mark_word_bit15 by assumption. auto.
Qed.

Lemma firstn_app_exact {A} n (l r : list A) : length l = n -> firstn n (l ++ r) = l.
Proof. intros <-. rewrite firstn_app, Nat.sub_diag, firstn_all. cbn. apply app_nil_r. Qed.

Lemma skipn_app_exact {A} n (l r : list A) : length l = n -> skipn n (l ++ r) = r.
Proof. intros <-. rewrite skipn_app, Nat.sub_diag, skipn_all. reflexivity. Qed.

Lemma skipn_add {A} n m (l : list A) : skipn (n + m) l = skipn m (skipn n l).
Proof. revert l; induction n; intros l; [reflexivity|]. destruct l; cbn; [now rewrite skipn_nil|apply IHn]. Qed.

Lemma firstn_add {A} n m (l : list A) : firstn (n + m) l = firstn n l ++ firstn m (skipn n l).
Proof.
  revert l; induction n; intros l; [reflexivity|]. destruct l; cbn; [now rewrite firstn_nil|now rewrite IHn].
Qed.

Lemma map_land_small l : Forall code_ok l -> map (fun w => Z.land w 16383) l = l.
Proof. induction 1; cbn; [reflexivity|]. now rewrite land_small, IHForall. Qed.

Lemma Forall_firstn {A} (P : A -> Prop) n l : Forall P l -> Forall P (firstn n l).
Proof. revert l; induction n; intros [|x l] H; cbn; auto. inversion H; subst. constructor; auto. Qed.

Lemma Forall_skipn {A} (P : A -> Prop) n l : Forall P l -> Forall P (skipn n l).
Proof. revert l; induction n; intros [|x l] H; cbn; auto. inversion H; subst. auto. Qed.

Lemma pack_length : forall q a b ma mb,
  length a = (16 * q)%nat -> length b = (16 * q)%nat -> length ma = (8 * q)%nat -> length mb = (8 * q)%nat ->
  length (pack q a b ma mb) = (32 * q)%nat.
Proof.
  induction q as [|q IH]; intros a b ma mb Ha Hb Hma Hmb; [reflexivity|].
  cbn [pack]. rewrite !app_length, mark_words_length, !firstn_length, !skipn_length, IH;
    rewrite ?firstn_length, ?skipn_length; lia.
Qed.

Lemma decode_pack : forall q a b ma mb, Forall code_ok a ->
  length a = (16 * q)%nat -> length b = (16 * q)%nat -> length ma = (8 * q)%nat -> length mb = (8 * q)%nat ->
  decode q (pack q a b ma mb) = {| s_a := a; s_b := b; s_ma := ma; s_mb := mb |}.
Proof.
  induction q as [|q IH]; intros a b ma mb HF Ha Hb Hma Hmb.
  - destruct a, b, ma, mb; try discriminate. reflexivity.
  - cbn [pack decode].
    set (mw := mark_words (firstn 8 (skipn 8 a)) (firstn 8 ma) (firstn 8 mb)).
    set (rest := pack q (skipn 16 a) (skipn 16 b) (skipn 8 ma) (skipn 8 mb)).
    assert (Lb : length (firstn 16 b) = 16%nat) by (rewrite firstn_length; lia).
    assert (La : length (firstn 8 a) = 8%nat) by (rewrite firstn_length; lia).
    assert (La2 : length (firstn 8 (skipn 8 a)) = 8%nat) by (rewrite firstn_length, skipn_length; lia).
    assert (Lma : length (firstn 8 ma) = 8%nat) by (rewrite firstn_length; lia).
    assert (Lmb : length (firstn 8 mb) = 8%nat) by (rewrite firstn_length; lia).
    assert (Lmw : length mw = 8%nat) by (unfold mw; rewrite mark_words_length; lia).
    rewrite (firstn_app_exact 16 (firstn 16 b)) by assumption.
    rewrite (skipn_app_exact 16 (firstn 16 b)) by assumption.
    replace (skipn 32 (firstn 16 b ++ firstn 8 a ++ mw ++ rest)) with rest.
    2:{ change 32%nat with (16 + 16)%nat. rewrite skipn_add.
        rewrite (skipn_app_exact 16 (firstn 16 b)) by assumption.
        rewrite (app_assoc (firstn 8 a)). rewrite skipn_app_exact; [reflexivity|]. rewrite app_length. lia. }
    rewrite (app_assoc (firstn 8 a)).
    rewrite (firstn_app_exact 16 (firstn 8 a ++ mw)) by (rewrite app_length; lia).
    rewrite (skipn_app_exact 8 (firstn 8 a)) by assumption.
    unfold rest. rewrite IH; try (rewrite skipn_length; lia); [|now apply Forall_skipn].
    destruct (mark_words_decode (firstn 8 (skipn 8 a)) (firstn 8 ma) (firstn 8 mb)) as (D1 & D2 & D3);
      [apply Forall_firstn, Forall_skipn; assumption|lia|lia|].
    fold mw in D1, D2, D3. unfold streams_app. cbn [s_a s_b s_ma s_mb].
    rewrite map_app, D1, D2, D3, map_land_small by (apply Forall_firstn; assumption).
    f_equal.
    + rewrite <- app_assoc. change (firstn 8 a ++ firstn 8 (skipn 8 a)) with (firstn 8 a ++ firstn 8 (skipn 8 a)).
      rewrite app_assoc, <- (firstn_add 8 8 a). apply firstn_skipn.
    + apply firstn_skipn.
    + apply firstn_skipn.
    + apply firstn_skipn.
Qed.

(* ---------------------------------------------------------------------------------------------------------- *)
(* rint is round-half-even: nearest integer, ties to even; the quantised codes are 14-bit *)
From Coq Require Import Lqa.

Lemma rint_nearest q : (Qabs (q - inject_Z (rint q)) <= 1 # 2)%Q.
Proof.
  unfold rint. set (f := Qfloor q). set (r := (q - inject_Z f)%Q).
  pose proof (Qfloor_le q) as H1. pose proof (Qlt_floor q) as H2. fold f in H1, H2.
  rewrite inject_Z_plus in H2. change (inject_Z 1) with 1%Q in H2.
  apply Qabs_Qle_condition.
  destruct (Qcompare r (1 # 2)) eqn:E.
  - apply Qeq_alt in E. destruct (Z.even f); [|rewrite inject_Z_plus; change (inject_Z 1) with 1%Q];
      unfold r in E; split; lra.
  - apply Qlt_alt in E. unfold r in E. split; lra.
  - apply Qgt_alt in E. unfold r in E. rewrite inject_Z_plus. change (inject_Z 1) with 1%Q. split; lra.
Qed.

Lemma rint_tie_even q : (Qabs (q - inject_Z (rint q)) == 1 # 2)%Q -> Z.even (rint q) = true.
Proof.
  unfold rint. set (f := Qfloor q). set (r := (q - inject_Z f)%Q).
  pose proof (Qfloor_le q) as H1. pose proof (Qlt_floor q) as H2. fold f in H1, H2.
  rewrite inject_Z_plus in H2. change (inject_Z 1) with 1%Q in H2.
  destruct (Qcompare r (1 # 2)) eqn:E; intros HA.
  - destruct (Z.even f) eqn:Ev; [exact Ev|]. change (f + 1) with (Z.succ f). rewrite Z.even_succ, <- Z.negb_even, Ev. reflexivity.
  - exfalso. apply Qlt_alt in E. unfold r in E.
    rewrite Qabs_pos in HA by lra. lra.
  - exfalso. apply Qgt_alt in E. unfold r in E. rewrite inject_Z_plus in HA. change (inject_Z 1) with 1%Q in HA.
    rewrite Qabs_neg in HA by lra. lra.
Qed.

Lemma rint_bounds q lo hi : (inject_Z lo <= q)%Q -> (q <= inject_Z hi)%Q -> lo <= rint q <= hi.
Proof.
  intros Hlo Hhi.
  pose proof (Qfloor_resp_le _ _ Hlo) as F1. pose proof (Qfloor_resp_le _ _ Hhi) as F2.
  rewrite Qfloor_Z in F1, F2.
  unfold rint. set (f := Qfloor q) in *. set (r := (q - inject_Z f)%Q).
  pose proof (Qfloor_le q) as H1. fold f in H1.
  assert (Hf : f < hi \/ (r <= 0)%Q).
  { destruct (Z.eq_dec f hi) as [->|]; [right; unfold r; lra|left; lia]. }
  destruct (Qcompare r (1 # 2)) eqn:E.
  - apply Qeq_alt in E. destruct Hf as [Hf|Hf]; [|lra]. destruct (Z.even f); lia.
  - lia.
  - apply Qgt_alt in E. destruct Hf as [Hf|Hf]; [lia|lra].
Qed.

Lemma v2u_code_ok amp off v w : (0 < amp)%Q -> v2u amp off v = Some w -> code_ok w.
Proof.
  intros Hamp H. unfold v2u in H. destruct (Qle_bool (Qabs (v - off)) amp) eqn:E; [|discriminate].
  injection H as <-. apply Qle_bool_iff, Qabs_Qle_condition in E. destruct E as [E1 E2].
  set (x := (v - off)%Q) in *.
  assert (Hk : (0 <= (16383 # 1) / ((2 # 1) * amp))%Q).
  { apply Qle_shift_div_l; lra. }
  assert (B : 0 <= rint ((x + amp) * ((16383 # 1) / ((2 # 1) * amp))) <= 16383).
  { apply rint_bounds.
    - change (inject_Z 0) with 0%Q. apply Qmult_le_0_compat; lra.
    - change (inject_Z 16383) with (16383 # 1)%Q.
      apply Qle_trans with (((2 # 1) * amp) * ((16383 # 1) / ((2 # 1) * amp)))%Q.
      + apply Qmult_le_compat_r; lra.
      + assert (~ amp == 0)%Q by lra. apply Qle_lteq. right. field. lra. }
  unfold code_ok. lia.
Qed.

(* ---------------------------------------------------------------------------------------------------------- *)
(* one sampled segment, decoded from its binary layout, is the quantised leaf *)

Lemma map_opt_length {A B} (f : A -> option B) : forall l r, map_opt f l = Some r -> length r = length l.
Proof.
  induction l as [|x l IH]; intros r H; cbn in H; [injection H as <-; reflexivity|].
  destruct (f x); [|discriminate]. destruct (map_opt f l) eqn:E; [|discriminate]. injection H as <-.
  cbn. now rewrite (IH _ eq_refl).
Qed.

Lemma map_opt_Forall {A B} (f : A -> option B) (P : B -> Prop) :
  (forall x y, f x = Some y -> P y) -> forall l r, map_opt f l = Some r -> Forall P r.
Proof.
  intros HP. induction l as [|x l IH]; intros r H; cbn in H; [injection H as <-; constructor|].
  destruct (f x) eqn:Ex; [|discriminate]. destruct (map_opt f l) eqn:E; [|discriminate]. injection H as <-.
  constructor; eauto.
Qed.

Lemma evens_length : forall k (A : Type) (l : list A), length l = (2 * k)%nat -> length (evens l) = k.
Proof.
  induction k as [|k IH]; intros A l H.
  - destruct l; [reflexivity|discriminate].
  - destruct l as [|x [|y l]]; cbn in H; try lia. cbn [evens length]. rewrite IH; [reflexivity|lia].
Qed.

Lemma channel_data_ok wd ch amp off tr a : channel_data wd ch amp off tr = Ok a -> 0 <= wf_n wd ->
  length a = Z.to_nat (wf_n wd) /\ Forall code_ok a.
Proof.
  unfold channel_data. intros H Hn. destruct ch as [c|].
  - destruct (assoc c (wf_data wd)) as [vs|]; [|discriminate].
    destruct (negb (Z.of_nat (length vs) =? wf_n wd)) eqn:El; [discriminate|].
    destruct (Qle_bool amp 0) eqn:Ea; [discriminate|].
    destruct (map_opt _ vs) as [codes|] eqn:Em; [|discriminate]. injection H as <-.
    split.
    + rewrite (map_opt_length _ _ _ Em). lia.
    + eapply map_opt_Forall; [|exact Em]. intros x y Hxy. eapply v2u_code_ok; [|exact Hxy].
      destruct (Qlt_le_dec 0 amp) as [Hlt|Hle]; [exact Hlt|]. apply Qle_bool_iff in Hle. congruence.
  - injection H as <-. split; [apply repeat_length|]. apply Forall_forall. intros x Hx.
    apply repeat_spec in Hx. subst. unfold code_ok. lia.
Qed.

Lemma marker_data_ok wd m ms k : marker_data wd m = Ok ms -> Z.to_nat (wf_n wd) = (2 * k)%nat -> 0 <= wf_n wd ->
  length ms = k.
Proof.
  unfold marker_data. intros H Hk Hn. destruct m as [c|].
  - destruct (assoc c (wf_data wd)) as [vs|]; [|discriminate].
    destruct (negb (Z.of_nat (length vs) =? wf_n wd)) eqn:El; [discriminate|]. injection H as <-.
    rewrite map_length. apply evens_length. lia.
  - injection H as <-. apply evens_length. now rewrite repeat_length.
Qed.

Lemma sample_segment_decodes c wd bin : sample_segment c wd = Ok bin -> 0 <= wf_n wd -> wf_n wd mod 16 = 0 ->
  exists a b ma mb,
    channel_data wd (c_cha c) (c_amp_a c) (c_off_a c) (c_tr_a c) = Ok a /\
    channel_data wd (c_chb c) (c_amp_b c) (c_off_b c) (c_tr_b c) = Ok b /\
    marker_data wd (c_ma c) = Ok ma /\ marker_data wd (c_mb c) = Ok mb /\
    Z.of_nat (length bin) = 2 * wf_n wd /\
    decode_segment bin = {| s_a := a; s_b := b; s_ma := ma; s_mb := mb |}.
Proof.
  intros H Hn Hmod. unfold sample_segment, bind in H.
  destruct (channel_data wd (c_cha c) _ _ _) as [a|] eqn:Ea; [|discriminate].
  destruct (channel_data wd (c_chb c) _ _ _) as [b|] eqn:Eb; [|discriminate].
  destruct (marker_data wd (c_ma c)) as [ma|] eqn:Ema; [|discriminate].
  destruct (marker_data wd (c_mb c)) as [mb|] eqn:Emb; [|discriminate].
  injection H as <-. exists a, b, ma, mb. repeat (split; [reflexivity|]).
  set (q := Z.to_nat (wf_n wd / 16)).
  assert (Hq : Z.to_nat (wf_n wd) = (16 * q)%nat).
  { unfold q. rewrite <- (Z2Nat.inj_mul 16) by (try apply Z.div_pos; lia).
    f_equal. rewrite (Z.div_mod (wf_n wd) 16) at 1 by lia. lia. }
  destruct (channel_data_ok _ _ _ _ _ _ Ea Hn) as [La Fa].
  destruct (channel_data_ok _ _ _ _ _ _ Eb Hn) as [Lb _].
  assert (Lma : length ma = (8 * q)%nat) by (eapply marker_data_ok; eauto; lia).
  assert (Lmb : length mb = (8 * q)%nat) by (eapply marker_data_ok; eauto; lia).
  assert (LP : length (pack q a b ma mb) = (32 * q)%nat) by (apply pack_length; lia).
  split; [rewrite LP; lia|].
  unfold decode_segment. rewrite LP. replace (Nat.div (32 * q) 32) with q.
  - apply decode_pack; auto; lia.
  - rewrite Nat.mul_comm. symmetry. apply Nat.div_mul. lia.
Qed.

(* ---------------------------------------------------------------------------------------------------------- *)
(* half rate: taking every second sample of the whole program = taking every second sample of every piece,
   because every piece has an even number of samples *)
Lemma evens_app : forall k (A : Type) (a b : list A), length a = (2 * k)%nat -> evens (a ++ b) = evens a ++ evens b.
Proof.
  induction k as [|k IH]; intros A a b H.
  - destruct a; [reflexivity|discriminate].
  - destruct a as [|x [|y a]]; cbn in H; try lia. cbn [app evens]. rewrite IH by lia. reflexivity.
Qed.

Lemma evens_concat {A} (l : list (list A)) :
  Forall (fun a => exists k, length a = (2 * k)%nat) l -> evens (concat l) = concat (map evens l).
Proof.
  induction 1 as [|a l [k Hk] _ IH]; [reflexivity|]. cbn [concat map]. now rewrite (evens_app k), IH.
Qed.
