(* C16 — tie of the model's PARSERS to the current source: Gen_parse.v is regenerated on every check from
   parse_aseq_program / parse_single_seq_program (statement by statement, the mutable locals as a record threaded
   through two Fixpoints).  Here the generated functions are proved equal to Model.parse_aseq / Model.parse_single on
   every input, after forgetting what the model does not carry (jump flags, all proved 0; the volatile tags inside the
   tables; volatile_parameter_positions, characterised separately). *)
From Coq Require Import ZArith List Bool Lia Btauto.
Require Import QV.C16.Model QV.C16.GenLibParse QV.C16.Gen_parse.
Import ListNotations.
Open Scope Z_scope.

(* ---- an OrderedDict whose values are the insertion positions ---- *)
Fixpoint indexed_from {A} (i : Z) (l : list A) : list (A * Z) :=
  match l with [] => [] | x :: r => (x, i) :: indexed_from (i + 1) r end.
Definition indexed {A} (l : list A) := indexed_from 0 l.

Lemma indexed_from_length {A} (l : list A) i : length (indexed_from i l) = length l.
Proof. revert i; induction l; intros; cbn; auto. Qed.
Lemma indexed_from_keys {A} (l : list A) i : map fst (indexed_from i l) = l.
Proof. revert i; induction l; intros; cbn; f_equal; auto. Qed.
Lemma indexed_keys {A} (l : list A) : map fst (indexed l) = l.
Proof. apply indexed_from_keys. Qed.
Lemma indexed_from_app {A} (l : list A) k i :
  indexed_from i (l ++ [k]) = indexed_from i l ++ [(k, i + Z.of_nat (length l))].
Proof.
  revert i; induction l; intros; cbn [app indexed_from length].
  - now rewrite Z.add_0_r.
  - rewrite IHl. replace (i + 1 + Z.of_nat (length l)) with (i + Z.of_nat (S (length l))) by lia. reflexivity.
Qed.
Lemma alookup_indexed {A} (eqb : A -> A -> bool) k l i :
  alookup eqb k (indexed_from i l) = find_idx (eqb k) l i.
Proof. revert i; induction l; intros; cbn; auto. destruct (eqb k a); auto. Qed.

Lemma dsetdefault_indexed {A} (eqb : A -> A -> bool) k l :
  dsetdefault eqb k (Z.of_nat (length (indexed l))) (indexed l)
  = (fst (setdefault eqb k l), indexed (snd (setdefault eqb k l))).
Proof.
  unfold dsetdefault, setdefault, indexed. rewrite alookup_indexed.
  destruct (find_idx (eqb k) l 0); cbn [fst snd]; auto.
  now rewrite indexed_from_app, indexed_from_length.
Qed.

Lemma aset_absent {K V} (eqb : K -> K -> bool) k (v : V) d :
  alookup eqb k d = None -> aset eqb k v d = d ++ [(k, v)].
Proof.
  induction d as [|[k' v'] d IH]; cbn; auto. destruct (eqb k k'); [discriminate|]. intros H; now rewrite IH.
Qed.

Lemma alookup_indexed0 {A} (eqb : A -> A -> bool) k l : alookup eqb k (indexed l) = find_idx (eqb k) l 0.
Proof. apply alookup_indexed. Qed.
Lemma indexed_length {A} (l : list A) : length (indexed l) = length l.
Proof. apply indexed_from_length. Qed.
Lemma aset_absent_indexed {A} (eqb : A -> A -> bool) k l :
  find_idx (eqb k) l 0 = None -> aset eqb k (Z.of_nat (length l)) (indexed l) = indexed (l ++ [k]).
Proof.
  intros H. rewrite aset_absent by (now rewrite alookup_indexed0).
  unfold indexed. now rewrite indexed_from_app.
Qed.

(* ---- forgetting the jump flags / regrouping the volatile tags ---- *)
Definition desc2 (d : gdesc) : Z * Z := (fst (fst d), snd (fst d)).
Definition conv_table (t : list gentry) : tkey := (map (fun e => desc2 (fst e)) t, map snd t).
Definition jump0 (t : list gentry) : Prop := Forall (fun e => snd (fst e) = 0) t.

Definition conv_parsed (g : gparsed) : parsed :=
  {| p_adv := map desc2 (g_adv g); p_seqs := map (fun t => fst (conv_table t)) (g_seqs g); p_wfs := g_wfs g |}.

Definition map_result {A B} (f : A -> B) (r : result A) : result B :=
  match r with Ok a => Ok (f a) | Err e => Err e end.

Lemma gtable_eqb_conv a b : jump0 a -> jump0 b -> gtable_eqb a b = tkey_eqb (conv_table a) (conv_table b).
Proof.
  unfold tkey_eqb, conv_table; cbn [fst snd].
  revert b; induction a as [|x a IH]; intros [|y b] Ha Hb; cbn; auto.
  inversion Ha as [|? ? Hx Ha']; inversion Hb as [|? ? Hy Hb']; subst.
  rewrite (IH b Ha' Hb').
  destruct x as [[[xr xi] xj] xv], y as [[[yr yi] yj] yv]; cbn [fst snd] in *; subst xj yj.
  unfold gentry_eqb, gdesc_eqb, entry_eqb, desc2, optv_eqb; cbn [fst snd]. rewrite Z.eqb_refl.
  set (m := match xv with Some u => _ | None => _ end). btauto.
Qed.

Lemma find_idx_conv k l i :
  jump0 k -> Forall jump0 l ->
  find_idx (gtable_eqb k) l i = find_idx (tkey_eqb (conv_table k)) (map conv_table l) i.
Proof.
  intros Hk; revert i; induction l as [|x l IH]; intros i Hl; cbn; auto.
  inversion Hl; subst. rewrite gtable_eqb_conv by auto. destruct (tkey_eqb _ _); auto.
Qed.

Lemma setdefault_conv k l :
  jump0 k -> Forall jump0 l ->
  fst (setdefault gtable_eqb k l) = fst (setdefault tkey_eqb (conv_table k) (map conv_table l))
  /\ map conv_table (snd (setdefault gtable_eqb k l)) = snd (setdefault tkey_eqb (conv_table k) (map conv_table l))
  /\ Forall jump0 (snd (setdefault gtable_eqb k l)).
Proof.
  intros Hk Hl. unfold setdefault. rewrite (find_idx_conv k l 0 Hk Hl).
  destruct (find_idx _ _ 0); cbn [fst snd]; repeat split; auto.
  - now rewrite map_length.
  - now rewrite map_app.
  - apply Forall_app; split; auto.
Qed.

(* ---- the entries of one table ---- *)
Fixpoint zipentries (l : list loop) (es : list (Z * Z)) : list gentry :=
  match l, es with
  | c :: l', e :: es' => ((fst e, snd e, 0), l_volp c) :: zipentries l' es'
  | _, _ => []
  end.

Lemma zipentries_jump0 l es : jump0 (zipentries l es).
Proof. revert es; induction l; intros [|e es]; cbn; constructor; auto. apply IHl. Qed.

Lemma zipentries_conv tbl l known es known' :
  parse_table tbl l known = Ok (es, known') -> conv_table (zipentries l es) = (es, map l_volp l).
Proof.
  revert known es known'; induction l as [|c l IH]; intros known es known'; cbn.
  - intros H; inversion H; reflexivity.
  - destruct (l_wf c); [|discriminate]. destruct (cls_of tbl n); [|discriminate].
    destruct (setdefault wf_key_eqb (z, n) known) as [idx k1].
    destruct (parse_table tbl l k1) as [[es' k2]|] eqn:E; cbn; [|discriminate].
    intros H; inversion H; subst. specialize (IH _ _ _ E).
    unfold conv_table in *. injection IH as H1 H2. cbn [zipentries map fst snd desc2]. unfold desc2 at 1. cbn [fst snd].
    rewrite H1, H2. reflexivity.
Qed.

(* ---- parse_aseq_program: inner loop ---- *)
Lemma gen_pa_loop2_spec tbl prog advp stl l : forall pos st known,
  pa_waveforms st = indexed known ->
  match parse_table tbl l known with
  | Err e => gen_pa_loop2 tbl l pos st prog advp stl = Err e
  | Ok (es, known') =>
      exists st', gen_pa_loop2 tbl l pos st prog advp stl = Ok st'
        /\ pa_waveforms st' = indexed known'
        /\ pa_current_sequencer_table st' = pa_current_sequencer_table st ++ zipentries l es
        /\ pa_advanced_sequencer_table st' = pa_advanced_sequencer_table st
        /\ pa_sequencer_tables st' = pa_sequencer_tables st
  end.
Proof.
  induction l as [|c l IH]; intros pos st known Hw.
  - cbn. exists st. rewrite app_nil_r. auto.
  - cbn [parse_table gen_pa_loop2]. unfold used_waveform.
    destruct (l_wf c) as [w|]; [|reflexivity]. destruct (cls_of tbl w) as [k|]; [|reflexivity].
    rewrite Hw, dsetdefault_indexed. unfold wfkey_eqb. change wfkey with (Z * nat)%type in *.
    destruct (setdefault wf_key_eqb (k, w) known) as [idx k1] eqn:Es. cbn [fst snd].
    set (entry := ((repdef_int (l_repdef c), idx, 0), l_volp c)).
    assert (Hbranch : forall st1,
      pa_waveforms st1 = indexed k1 ->
      pa_current_sequencer_table st1 = pa_current_sequencer_table st ++ [entry] ->
      pa_advanced_sequencer_table st1 = pa_advanced_sequencer_table st ->
      pa_sequencer_tables st1 = pa_sequencer_tables st ->
      match (do (es, known'') <- parse_table tbl l k1; Ok ((l_rep c, idx) :: es, known'')) with
      | Err e => gen_pa_loop2 tbl l (pos + 1) st1 prog advp stl = Err e
      | Ok (es, known') =>
          exists st', gen_pa_loop2 tbl l (pos + 1) st1 prog advp stl = Ok st'
            /\ pa_waveforms st' = indexed known'
            /\ pa_current_sequencer_table st' = pa_current_sequencer_table st ++ zipentries (c :: l) es
            /\ pa_advanced_sequencer_table st' = pa_advanced_sequencer_table st
            /\ pa_sequencer_tables st' = pa_sequencer_tables st
      end).
    { intros st1 H1 H2 H3 H4. specialize (IH (pos + 1) st1 k1 H1).
      destruct (parse_table tbl l k1) as [[es' k2]|e]; cbn; auto.
      destruct IH as (st' & G & A & B & C & D). exists st'. repeat split; auto; try congruence.
      rewrite B, H2, <- app_assoc. reflexivity. }
    destruct (l_volp c) eqn:Ev; cbn [is_some].
    + unfold repdef_is_int, l_repdef; cbn [snd]. rewrite Ev. cbn [is_some negb].
      apply Hbranch; cbn; auto.
    + apply Hbranch; cbn; auto.
Qed.

(* ---- parse_aseq_program: outer loop ---- *)
Definition st_ok (st : gst_pa) (adv : list (Z * Z)) (seqs : list tkey) (known : list (Z * nat)) : Prop :=
  pa_waveforms st = indexed known
  /\ map desc2 (pa_advanced_sequencer_table st) = adv
  /\ pa_sequencer_tables st = indexed (map fst (pa_sequencer_tables st))
  /\ map conv_table (map fst (pa_sequencer_tables st)) = seqs
  /\ Forall jump0 (map fst (pa_sequencer_tables st))
  /\ Forall (fun d => snd d = 0) (pa_advanced_sequencer_table st).

Definition final_ok (st : gst_pa) (p : parsed) : Prop :=
  map desc2 (pa_advanced_sequencer_table st) = p_adv p
  /\ map (fun t => fst (conv_table t)) (map fst (pa_sequencer_tables st)) = p_seqs p
  /\ map fst (pa_waveforms st) = p_wfs p
  /\ Forall jump0 (map fst (pa_sequencer_tables st))
  /\ Forall (fun d => snd d = 0) (pa_advanced_sequencer_table st).

Lemma gen_pa_loop1_spec tbl prog tables : forall pos st adv seqs known,
  st_ok st adv seqs known ->
  match parse_aseq_loop tbl tables adv seqs known with
  | Err e => gen_pa_loop1 tbl tables pos st prog = Err e
  | Ok p => exists st', gen_pa_loop1 tbl tables pos st prog = Ok st' /\ final_ok st' p
  end.
Proof.
  induction tables as [|t tables IH]; intros pos st adv seqs known (Hw & Ha & Hi & Hs & Hj & Hz).
  - cbn. exists st. split; auto. unfold final_ok; cbn. repeat split; auto.
    + rewrite <- Hs, !map_map. reflexivity.
    + rewrite Hw. apply indexed_from_keys.
  - cbn [parse_aseq_loop gen_pa_loop1].
    set (st0 := mk_gst_pa _ _ _ _ []).
    pose proof (gen_pa_loop2_spec tbl prog pos t (l_ch t) 0 st0 known Hw) as L2.
    destruct (parse_table tbl (l_ch t) known) as [[es k1]|e] eqn:Ep; cbn [bind].
    2:{ rewrite L2. reflexivity. }
    destruct L2 as (st1 & G & A & B & C & D). rewrite G.
    cbn [pa_current_sequencer_table pa_sequencer_tables pa_waveforms pa_advanced_sequencer_table
         pa_volatile_parameter_positions] in *.
    subst st0; cbn in B, C, D.
    pose proof (zipentries_conv _ _ _ _ _ Ep) as Hc.
    pose proof (zipentries_jump0 (l_ch t) es) as Hj0.
    rewrite D, Hi, dsetdefault_indexed.
    destruct (setdefault_conv (pa_current_sequencer_table st1) (map fst (pa_sequencer_tables st))
                (ltac:(rewrite B; exact Hj0)) Hj) as (S1 & S2 & S3).
    rewrite B in S1, S2, S3. rewrite Hc, Hs in S1, S2. rewrite B.
    destruct (setdefault tkey_eqb (es, map l_volp (l_ch t)) seqs) as [sidx seqs'] eqn:Es. cbn [fst snd] in S1, S2.
    destruct (setdefault gtable_eqb (zipentries (l_ch t) es) (map fst (pa_sequencer_tables st))) as [gi gl] eqn:Eg.
    cbn [fst snd] in *. subst gi.
    assert (Hnext : forall st2,
      pa_waveforms st2 = indexed k1 ->
      pa_advanced_sequencer_table st2 = pa_advanced_sequencer_table st ++ [(l_rep t, sidx + 1, 0)] ->
      pa_sequencer_tables st2 = indexed gl ->
      st_ok st2 (adv ++ [(l_rep t, sidx + 1)]) seqs' k1).
    { intros st2 H1 H2 H3. unfold st_ok. rewrite H1, H2, H3, !indexed_keys.
      repeat split; auto.
      - rewrite map_app, Ha. reflexivity.
      - apply Forall_app; split; auto. }
    destruct (l_volp t); cbn [is_some]; apply IH; apply Hnext; cbn; auto; now rewrite C.
Qed.

Theorem gen_parse_aseq_eq tbl prog :
  map_result conv_parsed (gen_parse_aseq_program tbl prog) = parse_aseq tbl prog.
Proof.
  unfold gen_parse_aseq_program, parse_aseq. cbn zeta.
  pose proof (gen_pa_loop1_spec tbl prog (l_ch prog) 0 (mk_gst_pa [] [] [] [] []) [] [] []) as H.
  cbn in H. specialize (H ltac:(unfold st_ok; cbn; repeat split; auto)).
  destruct (parse_aseq_loop tbl (l_ch prog) [] [] []) as [p|e].
  - destruct H as (st' & G & A & B & C & _). cbn. rewrite G. cbn. unfold conv_parsed; cbn.
    destruct p; cbn in *. rewrite A, C. f_equal. rewrite <- B. reflexivity.
  - cbn. rewrite H. reflexivity.
Qed.

(* every jump flag the parser emits is 0 *)
Theorem gen_parse_aseq_jump0 tbl prog g :
  gen_parse_aseq_program tbl prog = Ok g ->
  Forall (fun d => snd d = 0) (g_adv g) /\ Forall jump0 (g_seqs g).
Proof.
  unfold gen_parse_aseq_program. cbn zeta.
  pose proof (gen_pa_loop1_spec tbl prog (l_ch prog) 0 (mk_gst_pa [] [] [] [] []) [] [] []) as H.
  cbn in H. specialize (H ltac:(unfold st_ok; cbn; repeat split; auto)).
  destruct (parse_aseq_loop tbl (l_ch prog) [] [] []) as [p|e].
  - destruct H as (st' & G & _ & _ & _ & J & Z0). cbn. rewrite G. intros E; inversion E; subst; cbn. auto.
  - cbn. rewrite H. discriminate.
Qed.

(* ---- parse_single_seq_program ---- *)
Lemma gen_ps_loop1_spec tbl prog l : forall pos st known,
  ps_waveforms st = indexed known ->
  match parse_table tbl l known with
  | Err e => gen_ps_loop1 tbl l pos st prog = Err e
  | Ok (es, known') =>
      exists st', gen_ps_loop1 tbl l pos st prog = Ok st'
        /\ ps_waveforms st' = indexed known'
        /\ ps_sequencer_table st' = ps_sequencer_table st ++ zipentries l es
  end.
Proof.
  induction l as [|c l IH]; intros pos st known Hw.
  - cbn. exists st. rewrite app_nil_r. auto.
  - cbn [parse_table gen_ps_loop1]. unfold used_waveform.
    destruct (l_wf c) as [w|]; [|reflexivity]. destruct (cls_of tbl w) as [k|]; [|reflexivity].
    rewrite Hw, !alookup_indexed0, !indexed_length.
    unfold setdefault, wfkey_eqb. change wfkey with (Z * nat)%type in *.
    assert (Hbranch : forall idx k1 st1,
      ps_waveforms st1 = indexed k1 ->
      ps_sequencer_table st1 = ps_sequencer_table st ++ [((repdef_int (l_repdef c), idx, 0), l_volp c)] ->
      match (do (es, known'') <- parse_table tbl l k1; Ok ((l_rep c, idx) :: es, known'')) with
      | Err e => gen_ps_loop1 tbl l (pos + 1) st1 prog = Err e
      | Ok (es, known') =>
          exists st', gen_ps_loop1 tbl l (pos + 1) st1 prog = Ok st'
            /\ ps_waveforms st' = indexed known'
            /\ ps_sequencer_table st' = ps_sequencer_table st ++ zipentries (c :: l) es
      end).
    { intros idx k1 st1 H1 H2. specialize (IH (pos + 1) st1 k1 H1).
      destruct (parse_table tbl l k1) as [[es' k2]|e]; cbn; auto.
      destruct IH as (st' & G & A & B). exists st'. repeat split; auto.
      rewrite B, H2, <- app_assoc. reflexivity. }
    destruct (find_idx (wf_key_eqb (k, w)) known 0) as [i|] eqn:Ef; cbn [is_some].
    + destruct (l_volp c) eqn:Ev;
        cbn [is_some ps_sequencer_table ps_waveforms ps_volatile_parameter_positions]; apply Hbranch; cbn; auto.
    + rewrite (aset_absent_indexed wf_key_eqb (k, w) known Ef).
      destruct (l_volp c) eqn:Ev;
        cbn [is_some ps_sequencer_table ps_waveforms ps_volatile_parameter_positions]; apply Hbranch; cbn; auto.
Qed.

Theorem gen_parse_single_eq tbl prog :
  depth prog = 1 ->
  map_result conv_parsed (gen_parse_single_seq_program tbl prog) = parse_single tbl prog.
Proof.
  intros Hd. unfold gen_parse_single_seq_program, parse_single. cbn zeta. rewrite Hd. cbn [Z.eqb Pos.eqb].
  cbn [ps_sequencer_table ps_waveforms ps_volatile_parameter_positions].
  pose proof (gen_ps_loop1_spec tbl prog (l_ch prog) 0 (mk_gst_ps [] [] []) [] eq_refl) as H.
  change wfkey with (Z * nat)%type in *.
  destruct (parse_table tbl (l_ch prog) []) as [[es k1]|e] eqn:Ep; cbn [bind].
  - destruct H as (st' & G & A & B). cbn in G. rewrite G. cbn in B. cbn. unfold conv_parsed; cbn.
    rewrite A, B. unfold indexed. rewrite indexed_from_keys.
    pose proof (zipentries_conv _ _ _ _ _ Ep) as Hc. unfold conv_table in Hc. injection Hc as H1 H2.
    rewrite H1. reflexivity.
  - cbn in H. rewrite H. reflexivity.
Qed.

Theorem gen_parse_single_asserts tbl prog :
  depth prog <> 1 -> gen_parse_single_seq_program tbl prog = Err EAssert.
Proof.
  intros Hd. unfold gen_parse_single_seq_program. cbn zeta.
  destruct (depth prog =? 1) eqn:E; auto. apply Z.eqb_eq in E. contradiction.
Qed.
