(* C16 — the specification: the source program's samples at the sample rate, converted to 14-bit codes on both
   channels, and its marker channels as booleans at half rate (every second sample of the WHOLE program), plus the
   device limits.  Independent of how the compiler restructures, de-duplicates, packs or numbers anything.        *)
From Coq Require Import ZArith QArith Qround Qabs List Bool.
Require Import QV.C16.Model.
Import ListNotations.
Open Scope Z_scope.

(* waveform references in the order in which the source program plays them (repetitions expanded): a node plays its
   own waveform (leaves) followed by its children, repetition_count times *)
Definition wpart (w : option nat) : list nat := match w with Some i => [i] | None => [] end.

Fixpoint flatten (l : loop) : list nat :=
  match l with
  | Loop r _ w ch => rep_concat r (wpart w ++ concat (map flatten ch))
  end.

(* the input domain: repetition counts are not negative, a node with children carries no waveform of its own *)
Fixpoint good (l : loop) : bool :=
  match l with
  | Loop r _ w ch =>
      (0 <=? r) && (match ch with [] => true | _ => match w with None => true | Some _ => false end end)
      && forallb good ch
  end.

Definition opt_bind {A B} (o : option A) (f : A -> option B) : option B :=
  match o with Some a => f a | None => None end.

Fixpoint opt_concat {A} (l : list (option (list A))) : option (list A) :=
  match l with
  | [] => Some []
  | x :: r => match x, opt_concat r with Some a, Some b => Some (a ++ b) | _, _ => None end
  end.

(* a played waveform must have an exact integer length and one sample list of that length per used channel *)
Definition wf_at (tbl : list wfdata) (w : nat) : option wfdata :=
  match nth_error tbl w with
  | Some wd => if Qeq_bool (wf_len wd) (inject_Z (wf_n wd)) && (0 <? wf_n wd) then Some wd else None
  | None => None
  end.

(* voltages of one waveform on one channel; an unused channel (None) plays the given default *)
Definition src_samples (tbl : list wfdata) (ch : option Z) (default : Q) (w : nat) : option (list Q) :=
  opt_bind (wf_at tbl w) (fun wd =>
    match ch with
    | None => Some (repeat default (Z.to_nat (wf_n wd)))
    | Some c => match assoc c (wf_data wd) with
                | Some vs => if Z.of_nat (length vs) =? wf_n wd then Some vs else None
                | None => None
                end
    end).

Definition src_stream (tbl : list wfdata) (ch : option Z) (default : Q) (played : list nat) : option (list Q) :=
  opt_concat (map (src_samples tbl ch default) played).

(* 14-bit code of a voltage: nearest integer (ties to even) to (f(v) - offset + amplitude) / (2 amplitude) * 16383 *)
Definition quantise_channel (ch : option Z) (amp off : Q) (tr : Q * Q) (vs : list Q) : option (list Z) :=
  match ch with
  | None => Some (map (fun _ => 8192) vs)
  | Some _ => if Qle_bool amp 0 then None else map_opt (fun v => v2u amp off (affine tr v)) vs
  end.

Definition spec (c : cfg) (tbl : list wfdata) (prog : loop) : option streams :=
  let played := flatten prog in
  opt_bind (src_stream tbl (c_cha c) 0 played) (fun va =>
  opt_bind (src_stream tbl (c_chb c) 0 played) (fun vb =>
  opt_bind (src_stream tbl (c_ma c) 0 played) (fun vma =>
  opt_bind (src_stream tbl (c_mb c) 0 played) (fun vmb =>
  opt_bind (quantise_channel (c_cha c) (c_amp_a c) (c_off_a c) (c_tr_a c) va) (fun a =>
  opt_bind (quantise_channel (c_chb c) (c_amp_b c) (c_off_b c) (c_tr_b c) vb) (fun b =>
  Some {| s_a := a; s_b := b; s_ma := map nonzero (evens vma); s_mb := map nonzero (evens vmb) |})))))).

(* "every program whose piece lengths are compatible with the sample rate" (round 6): a piece whose exact length
   duration * sample_rate lies within the tolerance of get_waveform_length (the float 1e-10, in samples) of its sample
   count wf_n is SPECIFIED as its wf_n samples (`snap` replaces the length by the count); a piece outside the tolerance
   keeps its length and has no specification (`wf_at` = None: a program that plays it must be rejected).  On tables
   with exact integer lengths spec_tol is spec. *)
Definition snap (wd : wfdata) : wfdata :=
  if Qle_bool (Qabs (wf_len wd - inject_Z (wf_n wd))) tolerance
  then {| wf_cls := wf_cls wd; wf_len := inject_Z (wf_n wd); wf_n := wf_n wd; wf_data := wf_data wd |}
  else wd.

Definition spec_tol (c : cfg) (tbl : list wfdata) (prog : loop) : option streams := spec c (map snap tbl) prog.

(* device limits on what is emitted *)
Definition segment_ok (bin : list Z) (n : Z) : bool :=
  (Z.of_nat (length bin) =? 2 * n) && (n >=? 192) && (n mod 16 =? 0).

Fixpoint forallb2 {A B} (f : A -> B -> bool) (a : list A) (b : list B) : bool :=
  match a, b with
  | [], [] => true
  | x :: a', y :: b' => f x y && forallb2 f a' b'
  | _, _ => false
  end.

Definition segments_ok (o : out) : bool := forallb2 segment_ok (o_segs o) (o_lens o).

Definition tables_ok (c : cfg) (o : out) : bool :=
  forallb (fun t => let n := Z.of_nat (length t) in (c_min c <=? n) && (n <=? c_max c)) (o_seqs o).

(* the upper bound alone (holds in both modes) *)
Definition tables_max_ok (c : cfg) (o : out) : bool :=
  forallb (fun t => Z.of_nat (length t) <=? c_max c) (o_seqs o).

Definition limits_ok (c : cfg) (o : out) : bool := segments_ok o && tables_ok c o.

(* ------------------------------------------------------------------------------------------------------------- *)
(* The same specification, arranged for evaluation: the codes / marker booleans of every waveform of the table are
   computed ONCE (at most length tbl pieces) and the played program concatenates them.  Used by Corr.check_spec only
   because it is cheaper to evaluate (the quantisation is exact rational arithmetic per sample);
   Props.C16_spec_cached_eq: spec_cached = spec for every input.  Markers are still every second sample of the WHOLE
   concatenation (not of the pieces). *)
Definition piece_codes (tbl : list wfdata) (ch : option Z) (amp off : Q) (tr : Q * Q) (w : nat) : option (list Z) :=
  opt_bind (src_samples tbl ch 0 w) (quantise_channel ch amp off tr).

Definition piece_marks (tbl : list wfdata) (m : option Z) (w : nat) : option (list bool) :=
  opt_bind (src_samples tbl m 0 w) (fun vs => Some (map nonzero vs)).

Definition cache_of {A} (f : nat -> option A) (n : nat) : list (option A) := map f (seq 0 n).
Definition lookup {A} (l : list (option A)) (w : nat) : option A :=
  match nth_error l w with Some x => x | None => None end.

Definition amp_ok (ch : option Z) (amp : Q) : bool :=
  match ch with None => true | Some _ => negb (Qle_bool amp 0) end.

Definition spec_cached (c : cfg) (tbl : list wfdata) (prog : loop) : option streams :=
  let played := flatten prog in
  let n := length tbl in
  let ca := cache_of (piece_codes tbl (c_cha c) (c_amp_a c) (c_off_a c) (c_tr_a c)) n in
  let cb := cache_of (piece_codes tbl (c_chb c) (c_amp_b c) (c_off_b c) (c_tr_b c)) n in
  let cma := cache_of (piece_marks tbl (c_ma c)) n in
  let cmb := cache_of (piece_marks tbl (c_mb c)) n in
  if negb (amp_ok (c_cha c) (c_amp_a c) && amp_ok (c_chb c) (c_amp_b c)) then None else
  opt_bind (opt_concat (map (lookup ca) played)) (fun a =>
  opt_bind (opt_concat (map (lookup cb) played)) (fun b =>
  opt_bind (opt_concat (map (lookup cma) played)) (fun ma =>
  opt_bind (opt_concat (map (lookup cmb) played)) (fun mb =>
  Some {| s_a := a; s_b := b; s_ma := evens ma; s_mb := evens mb |})))).
