(* C16 — tie of the decisions of Loop.flatten_and_balance and Loop._has_single_child_that_can_be_merged
   (qupulse/program/loop.py) to the model: Gen_loop.v is regenerated on every check (translate/py2gallina_c16.py). *)
From Coq Require Import ZArith List Bool Lia ZifyBool.
Require Import QV.C16.Model QV.C16.Gen_loop.
Import ListNotations.
Open Scope Z_scope.

Definition dummy_l : loop := Loop 0 plain None [].

(* ---- Loop._has_single_child_that_can_be_merged: `if len(self) == 1: return <t2> else: return <t3>` ---- *)
Definition merge_obs {T} (f : Z -> bool -> Z -> bool -> T) (l : loop) : T :=
  let c := hd dummy_l (l_ch l) in f (l_len l) (l_meas l) (l_rep c) (l_vol c).

Theorem gen_can_merge_eq l :
  can_merge l = if merge_obs gen_has_single_child_that_can_be_merged_t1 l
                then merge_obs gen_has_single_child_that_can_be_merged_t2 l
                else merge_obs gen_has_single_child_that_can_be_merged_t3 l.
Proof.
  unfold can_merge, merge_obs, gen_has_single_child_that_can_be_merged_t1,
    gen_has_single_child_that_can_be_merged_t2, gen_has_single_child_that_can_be_merged_t3, l_len.
  destruct (l_ch l) as [|c [|c2 ch]]; cbn [length hd].
  - reflexivity.
  - cbn. destruct (l_meas l), (l_rep c =? 1), (l_vol c); reflexivity.
  - replace (Z.of_nat (S (S (length ch))) =? 1) with false by lia. reflexivity.
Qed.

(* ---- Loop.flatten_and_balance: one iteration of the while loop ---- *)
Definition fab_obs {T} (f : Z -> Z -> Z -> Z -> bool -> bool -> bool -> T) (d : Z) (done todo : list loop) : T :=
  let sub := hd dummy_l todo in
  f (Z.of_nat (length done)) (Z.of_nat (length done + length todo)) (depth sub) d (balanced sub) (can_merge sub)
    (is_leaf sub).

Theorem gen_fab_eq f d done todo :
  fab (S f) d done todo =
  if negb (fab_obs gen_flatten_and_balance_t1 d done todo) then Ok (rev done)
  else
    let sub := hd dummy_l todo in let rest := tl todo in
    if fab_obs gen_flatten_and_balance_t2 d done todo then fab f d done (encapsulate sub :: rest)
    else if fab_obs gen_flatten_and_balance_t3 d done todo then
      match fab f (d - 1) [] (l_ch sub) with
      | Ok ch' => fab f d done (set_ch sub ch' :: rest)
      | Err e => Err e
      end
    else if fab_obs gen_flatten_and_balance_t4 d done todo then fab f d (sub :: done) rest
    else if fab_obs gen_flatten_and_balance_t5 d done todo then fab f d done (merge_child sub :: rest)
    else if fab_obs gen_flatten_and_balance_t6 d done todo then fab f d done (unroll sub ++ rest)
    else fab f d (sub :: done) rest.
Proof.
  unfold fab_obs, gen_flatten_and_balance_t1, gen_flatten_and_balance_t2, gen_flatten_and_balance_t3,
    gen_flatten_and_balance_t4, gen_flatten_and_balance_t5, gen_flatten_and_balance_t6.
  destruct todo as [|sub rest]; cbn [fab hd tl length].
  - replace (_ <? _) with false by lia. reflexivity.
  - replace (Z.of_nat (length done) <? _) with true by lia. cbn [negb].
    (* by cases on every test of both sides (not by syntactic identity); contradictory combinations by lia *)
    destruct (balanced sub) eqn:?, (can_merge sub) eqn:?, (is_leaf sub) eqn:?; cbn [negb];
      repeat match goal with
             | |- context [if ?b then _ else _] => destruct b eqn:?
             end; try reflexivity; try (exfalso; lia); try discriminate; destruct sub; reflexivity.
Qed.
