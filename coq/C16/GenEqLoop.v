(* C16 — tie of the decisions of Loop.flatten_and_balance and Loop._has_single_child_that_can_be_merged
   (qupulse/program/loop.py) to the model: Gen_loop.v is regenerated on every check (translate/py2gallina_c16.py). *)
From Coq Require Import ZArith List Bool Lia ZifyBool.
Require Import QV.C16.Model QV.C16.Gen_loop.
Import ListNotations.
Open Scope Z_scope.

Definition dummy_l : loop := Loop 0 plain None [].

(* ---- Loop._has_single_child_that_can_be_merged: `if len(self) == 1: return <t2> else: return <t3>` ---- *)
Definition merge_obs {T} (f : Z -> bool -> Z -> bool -> T) (l : loop) : T :=
  let c := hd dummy_l (l_ch l) in f (l_len l) (l_meas l) (l_rep c) (l_vol c).

Theorem gen_can_merge_eq l :
  can_merge l = if merge_obs gen_has_single_child_that_can_be_merged_t1 l
                then merge_obs gen_has_single_child_that_can_be_merged_t2 l
                else merge_obs gen_has_single_child_that_can_be_merged_t3 l.
Proof.
  unfold can_merge, merge_obs, gen_has_single_child_that_can_be_merged_t1,
    gen_has_single_child_that_can_be_merged_t2, gen_has_single_child_that_can_be_merged_t3, l_len.
  destruct (l_ch l) as [|c [|c2 ch]]; cbn [length hd].
  - reflexivity.
  - cbn. destruct (l_meas l), (l_rep c =? 1), (l_vol c); reflexivity.
  - replace (Z.of_nat (S (S (length ch))) =? 1) with false by lia. reflexivity.
Qed.

(* ---- Loop.flatten_and_balance: one iteration of the while loop ---- *)
Definition fab_obs {T} (f : Z -> Z -> Z -> Z -> bool -> bool -> bool -> T) (d : Z) (done todo : list loop) : T :=
  let sub := hd dummy_l todo in
  f (Z.of_nat (length done)) (Z.of_nat (length done + length todo)) (depth sub) d (balanced sub) (can_merge sub)
    (is_leaf sub).

Theorem gen_fab_eq f d done todo :
  fab (S f) d done todo =
  if negb (fab_obs gen_flatten_and_balance_t1 d done todo) then Ok (rev done)
  else
    let sub := hd dummy_l todo in let rest := tl todo in
    if fab_obs gen_flatten_and_balance_t2 d done todo then fab f d done (encapsulate sub :: rest)
    else if fab_obs gen_flatten_and_balance_t3 d done todo then
      match fab f (d - 1) [] (l_ch sub) with
      | Ok ch' => fab f d done (set_ch sub ch' :: rest)
      | Err e => Err e
      end
    else if fab_obs gen_flatten_and_balance_t4 d done todo then fab f d (sub :: done) rest
    else if fab_obs gen_flatten_and_balance_t5 d done todo then fab f d done (merge_child sub :: rest)
    else if fab_obs gen_flatten_and_balance_t6 d done todo then fab f d done (unroll sub ++ rest)
    else fab f d (sub :: done) rest.
Proof.
  unfold fab_obs, gen_flatten_and_balance_t1, gen_flatten_and_balance_t2, gen_flatten_and_balance_t3,
    gen_flatten_and_balance_t4, gen_flatten_and_balance_t5, gen_flatten_and_balance_t6.
  destruct todo as [|sub rest]; cbn [fab hd tl length].
  - replace (_ <? _) with false by lia. reflexivity.
  - replace (Z.of_nat (length done) <? _) with true by lia. cbn [negb].
    (* by cases on every test of both sides (not by syntactic identity); contradictory combinations by lia *)
    destruct (balanced sub) eqn:?, (can_merge sub) eqn:?, (is_leaf sub) eqn:?; cbn [negb];
      repeat match goal with
             | |- context [if ?b then _ else _] => destruct b eqn:?
             end; try reflexivity; try (exfalso; lia); try discriminate; destruct sub; reflexivity.
Qed.

(* ---- Loop.split_one_child(child_index=None): the reverse scan for the child to split (round 4) ----
   `for reverse_idx, child in enumerate(reversed(self))` with `break` and `for ... else`, all four tests (t4..t7) taken
   from the generated file; the action (count - 1, a copy with count 1 inserted behind) is `split_at`.  The tests t1-t3
   guard the explicit-index form, which the Tabor compiler does not use; t8 only issues a warning. *)
Definition so_obs {T} (f : bool -> bool -> Z -> Z -> bool -> Z -> bool -> T) (ci : option nat) (child : loop) : T :=
  f (match ci with Some _ => true | None => false end) (match ci with Some _ => false | None => true end)
    (match ci with Some i => Z.of_nat i | None => 0 end) 0 false (l_rep child) (l_vol child).

(* rl = the children not yet visited, last child first; the forward index of its head is `length (tl rl)`;
   result None = RuntimeError('There is no child with repetition count > 1') *)
Fixpoint scan_gen (rl : list loop) (ci : option nat) : option nat :=
  match rl with
  | [] => if so_obs gen_split_one_child_t7 ci dummy_l then None else ci            (* for-else *)
  | c :: r =>
      if so_obs gen_split_one_child_t4 ci c then
        if so_obs gen_split_one_child_t5 ci c then Some (length r)                  (* child_index = idx; break *)
        else if so_obs gen_split_one_child_t6 ci c then scan_gen r (Some (length r))
        else scan_gen r ci
      else scan_gen r ci
  end.

Fixpoint split_at (i : nat) (l : list loop) : list loop :=
  match l, i with
  | [], _ => []
  | c :: t, O => set_rep c (l_rep c - 1) :: set_rep c 1 :: t
  | c :: t, S j => c :: split_at j t
  end.

Fixpoint first_rev (P : loop -> bool) (rl : list loop) : option nat :=
  match rl with [] => None | c :: r => if P c then Some (length r) else first_rev P r end.

Lemma first_rev_snoc P a c :
  first_rev P (a ++ [c]) = match first_rev P a with
                           | Some i => Some (S i)
                           | None => if P c then Some O else None
                           end.
Proof.
  induction a as [|x a IH]; cbn; auto.
  rewrite app_length; cbn. rewrite Nat.add_1_r. destruct (P x); auto.
Qed.

Lemma split_last_p_first_rev p l :
  split_last_p p l = option_map (fun i => split_at i l) (first_rev (fun c => (l_rep c >? 1) && p c) (rev l)).
Proof.
  induction l as [|c t IH]; cbn [split_last_p rev]; auto.
  rewrite first_rev_snoc, IH.
  destruct (first_rev _ (rev t)); cbn; auto. destruct ((l_rep c >? 1) && p c); reflexivity.
Qed.

Lemma scan_gen_spec rl : forall ci,
  scan_gen rl ci =
  match first_rev (fun c => (l_rep c >? 1) && negb (l_vol c)) rl with
  | Some i => Some i
  | None => match ci with Some j => Some j | None => first_rev (fun c => (l_rep c >? 1) && true) rl end
  end.
Proof.
  induction rl as [|c r IH]; intros ci.
  - cbn. destruct ci; reflexivity.
  - cbn [scan_gen first_rev]. unfold so_obs, gen_split_one_child_t4, gen_split_one_child_t5, gen_split_one_child_t6.
    destruct (l_rep c >? 1); cbn [andb].
    + destruct (l_vol c); cbn [negb].
      * destruct ci; rewrite IH; destruct (first_rev _ r); reflexivity.
      * reflexivity.
    + apply IH.
Qed.

Theorem gen_split_last_eq l :
  split_last l = option_map (fun i => split_at i l) (scan_gen (rev l) None).
Proof.
  unfold split_last. rewrite scan_gen_spec, !split_last_p_first_rev.
  destruct (first_rev (fun c => (l_rep c >? 1) && negb (l_vol c)) (rev l)); reflexivity.
Qed.
