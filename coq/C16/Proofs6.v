(* C16 — proofs, part 6: no unexpected exception.  For a program whose repetition counts are >= 0 (`nn`; every `good`
   program, every `pos` program) the compiler model never returns ECrash (= the real code would fail with a
   RuntimeError / IndexError instead of a TaborException / ValueError / AssertionError):
   - every sequence table that reaches prepare / the parser consists of leaves with counts >= 0 (an entry without
     waveform is a TaborException since the repair of the parsers, ENoWaveform),
   - `split_one_child` always finds a child with count > 1 when `_check_partial_unroll` calls it,
   - every recorded waveform index is inside `waveform_to_segment`.                                              *)
From Coq Require Import ZArith QArith List Bool Lia ZifyBool.
Require Import QV.C16.Model QV.C16.Spec QV.C16.Proofs QV.C16.Proofs3 QV.C16.Proofs4 QV.C16.Proofs_term.
Import ListNotations.
Open Scope Z_scope.

(* counts >= 1, a node without waveform has children *)
Fixpoint pos (l : loop) : bool :=
  match l with
  | Loop r _ w ch =>
      (1 <=? r) && (match w, ch with None, [] => false | _, _ => true end) && forallb pos ch
  end.

Lemma pos_inv r m w ch : pos (Loop r m w ch) = true -> 1 <= r /\ (w = None -> ch <> []) /\ forallb pos ch = true.
Proof.
  cbn [pos]. intros H. apply andb_prop in H as [H H3]. apply andb_prop in H as [H1 H2].
  repeat split; [lia| |exact H3]. intros -> ->. discriminate.
Qed.

Lemma pos_intro r m w ch : 1 <= r -> (w = None -> ch <> []) -> forallb pos ch = true -> pos (Loop r m w ch) = true.
Proof.
  intros H1 H2 H3. cbn [pos]. rewrite H3. replace (1 <=? r) with true by lia.
  destruct w; [reflexivity|]. destruct ch; [now specialize (H2 eq_refl)|reflexivity].
Qed.

(* counts >= 0 *)
Fixpoint nn (l : loop) : bool :=
  match l with Loop r _ _ ch => (0 <=? r) && forallb nn ch end.

Lemma nn_inv r m w ch : nn (Loop r m w ch) = true -> 0 <= r /\ forallb nn ch = true.
Proof. cbn [nn]. intros H. apply andb_prop in H as [H1 H2]. split; [lia|exact H2]. Qed.

Lemma nn_intro r m w ch : 0 <= r -> forallb nn ch = true -> nn (Loop r m w ch) = true.
Proof. intros H1 H2. cbn [nn]. rewrite H2. lia. Qed.

Lemma pos_nn : forall l, pos l = true -> nn l = true.
Proof.
  fix IH 1. intros [r m w ch] H. apply pos_inv in H as (Hr & _ & Hch). apply nn_intro; [lia|].
  induction ch as [|c ch IHl]; [reflexivity|]. cbn [forallb] in *. apply andb_prop in Hch as [Hc Hl].
  now rewrite (IH c Hc), (IHl Hl).
Qed.

Lemma good_nn : forall l, good l = true -> nn l = true.
Proof.
  fix IH 1. intros [r m w ch] H. apply good_inv in H as (Hr & _ & Hch). apply nn_intro; [lia|].
  induction ch as [|c ch IHl]; [reflexivity|]. cbn [forallb] in *. apply andb_prop in Hch as [Hc Hl].
  now rewrite (IH c Hc), (IHl Hl).
Qed.

Definition nc {A} (r : result A) : Prop := r <> Err ECrash.

Lemma bind_nc {A B} (r : result A) (f : A -> result B) : nc r -> (forall a, r = Ok a -> nc (f a)) -> nc (bind r f).
Proof. unfold nc. intros Hr Hf. destruct r as [a|e]; cbn [bind]; [now apply Hf|]. intros E. apply Hr. congruence. Qed.

Lemma map_res_nc {A B} (f : A -> result B) l : (forall x, In x l -> nc (f x)) -> nc (map_res f l).
Proof.
  induction l as [|x l IH]; intros Hf; cbn [map_res]; [discriminate|].
  apply bind_nc; [apply Hf; now left|]. intros y _. apply bind_nc; [apply IH; intros; apply Hf; now right|]. discriminate.
Qed.

(* ---------------------------------------------------------------------------------------------------------- *)
(* flatten_and_balance keeps `pos` and never empties the work list *)

Lemma rev_nonnil {A} (l : list A) : l <> [] -> rev l <> [].
Proof. destruct l; [congruence|]. intros _ E. cbn in E. apply app_eq_nil in E as [_ E]. discriminate. Qed.

Lemma rep_concat_nonnil {A} n (l : list A) : 1 <= n -> l <> [] -> rep_concat n l <> [].
Proof. intros Hn Hl. rewrite rep_concat_succ_l by lia. destruct l; [congruence|discriminate]. Qed.

Lemma fab_err : forall fuel d done todo e, fab fuel d done todo = Err e -> e = EFuel.
Proof.
  induction fuel as [|f IH]; intros d done todo e H; [cbn in H; congruence|].
  cbn [fab] in H. destruct todo as [|sub rest]; [discriminate|].
  destruct (depth sub <? d - 1); [eauto|].
  destruct (negb (balanced sub)).
  { destruct sub as [r m w ch]. destruct (fab f (d - 1) [] ch) eqn:E; [eauto|]. injection H as <-. eauto. }
  destruct (depth sub =? d - 1); [eauto|]. destruct (can_merge sub); [eauto|]. destruct (negb (is_leaf sub)); eauto.
Qed.

Lemma fab_nn : forall fuel d done todo r,
  forallb nn done = true -> forallb nn todo = true -> fab fuel d done todo = Ok r -> forallb nn r = true.
Proof.
  induction fuel as [|f IH]; intros d done todo r Gd Gt H; [discriminate|].
  cbn [fab] in H. destruct todo as [|sub rest].
  - injection H as <-. now rewrite forallb_rev'.
  - cbn [forallb] in Gt. apply andb_prop in Gt as [Gs Gr].
    destruct (depth sub <? d - 1).
    { apply IH in H; [exact H|assumption|]. cbn [forallb]. rewrite Gr, andb_true_r. unfold encapsulate.
      apply nn_intro; [lia|cbn; now rewrite Gs]. }
    destruct (negb (balanced sub)) eqn:Eb.
    { destruct sub as [sr sm sw sch]. destruct (fab f (d - 1) [] sch) as [ch'|e] eqn:Erec; [|discriminate].
      pose proof (nn_inv _ _ _ _ Gs) as (Hr & Hch).
      apply IH in Erec; [|reflexivity|assumption].
      assert (G' : nn (Loop sr sm sw ch') = true) by (apply nn_intro; auto).
      apply IH in H; [exact H|assumption|cbn [forallb]; now rewrite G', Gr]. }
    destruct (depth sub =? d - 1).
    { apply IH in H; [exact H|cbn [forallb]; now rewrite Gs, Gd|assumption]. }
    destruct (can_merge sub) eqn:Ec.
    { destruct (can_merge_inv _ Ec) as (r0 & m & w & cr & cm & cw & cch & -> & Em). rewrite Em in H.
      pose proof (nn_inv _ _ _ _ Gs) as (Hr & Hch). cbn [forallb] in Hch. rewrite andb_true_r in Hch.
      pose proof (nn_inv _ _ _ _ Hch) as (Hcr & Hcch).
      apply IH in H; [exact H|assumption|cbn [forallb]; rewrite Gr, andb_true_r; apply nn_intro; auto; nia]. }
    destruct (negb (is_leaf sub)) eqn:El.
    { destruct sub as [sr sm sw sch]. pose proof (nn_inv _ _ _ _ Gs) as (Hr & Hch).
      apply IH in H; [exact H|assumption|]. unfold unroll. cbn [l_rep l_ch]. rewrite forallb_app, Gr, andb_true_r.
      now apply forallb_rep_concat. }
    apply IH in H; [exact H|cbn [forallb]; now rewrite Gs, Gd|assumption].
Qed.

(* ---------------------------------------------------------------------------------------------------------- *)
(* sequence tables: count >= 0 over leaves with count >= 0 *)

Definition leaf_ok (c : loop) : bool := is_leaf c && (0 <=? l_rep c).
Definition tab_ok (t : loop) : bool := (0 <=? l_rep t) && forallb leaf_ok (l_ch t).

Lemma zmax_list_ge l x : In x l -> x <= zmax_list l.
Proof.
  induction l as [|y l IH]; intros H; [destruct H|]. cbn [zmax_list fold_right]. fold (zmax_list l).
  destruct H as [->|H]; [lia|specialize (IH H); lia].
Qed.

Lemma depth0_leaf t : depth t = 0 -> is_leaf t = true.
Proof.
  destruct t as [r m w [|c ch]]; [reflexivity|]. rewrite depth_cons.
  pose proof (zmax_list_nonneg (map depth (c :: ch))). lia.
Qed.

Lemma depth1_leaves t : depth t = 1 -> forallb is_leaf (l_ch t) = true.
Proof.
  destruct t as [r m w [|c ch]]; [cbn; lia|]. rewrite depth_cons. intros H. cbn [l_ch].
  apply forallb_forall. intros e He. apply depth0_leaf.
  pose proof (zmax_list_ge (map depth (c :: ch)) (depth e) (in_map depth _ _ He)). pose proof (depth_nonneg e). lia.
Qed.

Lemma nn_leaf_ok c : nn c = true -> is_leaf c = true -> leaf_ok c = true.
Proof.
  destruct c as [r m w ch]. unfold leaf_ok. intros P L. rewrite L. apply nn_inv in P as (Hr & _). cbn [l_rep]. lia.
Qed.

Lemma nn_depth1_tab t : nn t = true -> depth t = 1 -> tab_ok t = true.
Proof.
  intros P D. pose proof (depth1_leaves _ D) as L. destruct t as [r m w ch]. cbn [l_ch] in L.
  apply nn_inv in P as (Hr & Hch). unfold tab_ok. cbn [l_rep l_ch]. replace (0 <=? r) with true by lia.
  apply forallb_forall. intros c Hc. apply nn_leaf_ok; [eapply forallb_forall in Hch|eapply forallb_forall in L]; eauto.
Qed.

Lemma tab_ok_inv t : tab_ok t = true -> 0 <= l_rep t /\ forallb leaf_ok (l_ch t) = true.
Proof. unfold tab_ok. intros H. apply andb_prop in H as [H1 H2]. split; [lia|exact H2]. Qed.

Lemma tab_ok_intro t : 0 <= l_rep t -> forallb leaf_ok (l_ch t) = true -> tab_ok t = true.
Proof. intros H1 H2. unfold tab_ok. rewrite H2. lia. Qed.

Lemma tab_ok_append a b : tab_ok a = true -> tab_ok b = true -> tab_ok (append_children a b) = true.
Proof.
  intros Ha Hb. apply tab_ok_inv in Ha as [Ha1 Ha2]. apply tab_ok_inv in Hb as [_ Hb2].
  unfold append_children. apply tab_ok_intro; [now rewrite l_rep_set_ch|]. now rewrite l_ch_set_ch, forallb_app, Ha2, Hb2.
Qed.

Lemma tab_ok_prepend a b : tab_ok a = true -> tab_ok b = true -> tab_ok (prepend_children a b) = true.
Proof.
  intros Ha Hb. apply tab_ok_inv in Ha as [_ Ha2]. apply tab_ok_inv in Hb as [Hb1 Hb2].
  unfold prepend_children. apply tab_ok_intro; [now rewrite l_rep_set_ch|]. now rewrite l_ch_set_ch, forallb_app, Ha2, Hb2.
Qed.

Lemma l_ch_set_rep a r : l_ch (set_rep a r) = l_ch a.
Proof. destruct a; reflexivity. Qed.

Lemma tab_ok_dec_rep p : tab_ok p = true -> 1 < l_rep p -> tab_ok (dec_rep p) = true.
Proof.
  intros Hp H. apply tab_ok_inv in Hp as [_ Hp2]. unfold dec_rep. apply tab_ok_intro; [rewrite l_rep_set_rep; lia|].
  now rewrite l_ch_set_rep.
Qed.

Lemma leaf_ok_set_rep c r : leaf_ok c = true -> 0 <= r -> leaf_ok (set_rep c r) = true.
Proof.
  destruct c as [r0 m w ch]. unfold leaf_ok, is_leaf. cbn [set_rep l_ch l_rep]. intros H Hr.
  apply andb_prop in H as [H1 _]. rewrite H1. lia.
Qed.

(* split_one_child: finds a child whenever the counts add up to more than the number of children *)
Lemma sum_reps_cons c l : sum_reps (c :: l) = l_rep c + sum_reps l.
Proof. reflexivity. Qed.

Lemma leaf_ok_rep c : leaf_ok c = true -> 0 <= l_rep c.
Proof. unfold leaf_ok. intros H. apply andb_prop in H as [_ H]. lia. Qed.

Lemma split_last_p_true_some : forall l, forallb leaf_ok l = true -> Z.of_nat (length l) < sum_reps l ->
  split_last_p (fun _ => true) l <> None.
Proof.
  induction l as [|c l IH]; intros H Hs; [cbn in Hs; lia|]. cbn [forallb] in H. apply andb_prop in H as [Hc Hl].
  cbn [split_last_p]. destruct (split_last_p (fun _ => true) l) eqn:E; [discriminate|].
  destruct (l_rep c >? 1) eqn:Er; [discriminate|]. exfalso.
  rewrite sum_reps_cons in Hs. cbn [length] in Hs. pose proof (leaf_ok_rep _ Hc).
  destruct (Z_lt_ge_dec (Z.of_nat (length l)) (sum_reps l)) as [Hlt|Hge]; [exact (IH Hl Hlt eq_refl)|lia].
Qed.

Lemma split_last_p_keeps p : forall l l', forallb leaf_ok l = true -> split_last_p p l = Some l' ->
  forallb leaf_ok l' = true /\ sum_reps l' = sum_reps l.
Proof.
  induction l as [|c t IH]; intros l' H Hs; [discriminate|]. cbn [forallb] in H. apply andb_prop in H as [Hc Ht].
  cbn [split_last_p] in Hs. destruct (split_last_p p t) as [t'|] eqn:E.
  - injection Hs as <-. destruct (IH _ Ht eq_refl) as [H1 H2]. cbn [forallb]. rewrite Hc, H1, !sum_reps_cons, H2. auto.
  - destruct ((l_rep c >? 1) && p c) eqn:Er; [|discriminate]. injection Hs as <-.
    cbn [forallb]. rewrite !leaf_ok_set_rep, Ht by (auto; lia). split; [reflexivity|].
    rewrite !sum_reps_cons, !l_rep_set_rep. lia.
Qed.

Lemma split_last_keeps l l' : forallb leaf_ok l = true -> split_last l = Some l' ->
  forallb leaf_ok l' = true /\ sum_reps l' = sum_reps l.
Proof.
  unfold split_last. intros H Hs. destruct (split_last_p (fun c => negb (l_vol c)) l) as [l1|] eqn:E.
  - injection Hs as <-. eapply split_last_p_keeps; eauto.
  - eapply split_last_p_keeps; eauto.
Qed.

Lemma split_last_some l : forallb leaf_ok l = true -> Z.of_nat (length l) < sum_reps l -> split_last l <> None.
Proof.
  intros H Hs. unfold split_last. destruct (split_last_p (fun c => negb (l_vol c)) l); [discriminate|].
  now apply split_last_p_true_some.
Qed.

Lemma split_until_tab : forall k mn st, tab_ok st = true -> mn <= sum_reps (l_ch st) ->
  match split_until k mn st with Ok st' => tab_ok st' = true | Err e => e <> ECrash end.
Proof.
  induction k as [|k IH]; intros mn st T Hs; cbn [split_until].
  - destruct (l_len st <? mn); [discriminate|exact T].
  - destruct (l_len st <? mn) eqn:El; [|exact T].
    apply tab_ok_inv in T as [T1 T2].
    destruct (split_last (l_ch st)) as [ch'|] eqn:E.
    + destruct (split_last_keeps _ _ T2 E) as [K1 K2]. apply IH.
      * apply tab_ok_intro; [now rewrite l_rep_set_ch|now rewrite l_ch_set_ch].
      * rewrite l_ch_set_ch, K2. exact Hs.
    + exfalso. revert E. apply split_last_some; [exact T2|]. unfold l_len in El. lia.
Qed.

Lemma sum_reps_app a b : sum_reps (a ++ b) = sum_reps a + sum_reps b.
Proof. induction a as [|c a IH]; [reflexivity|]. cbn [app]. rewrite !sum_reps_cons, IH. lia. Qed.

Lemma sum_reps_rep_concat r l : 0 <= r -> sum_reps (rep_concat r l) = r * sum_reps l.
Proof.
  intros Hr. unfold rep_concat. rewrite <- (Z2Nat.id r) at 2 by lia. induction (Z.to_nat r) as [|n IH]; [reflexivity|].
  rewrite repn_concat_app, sum_reps_app, IH. lia.
Qed.

Inductive ok_unroll : option (result loop) -> Prop :=
| OkU_none : ok_unroll None
| OkU_ok st : tab_ok st = true -> ok_unroll (Some (Ok st))
| OkU_err e : e <> ECrash -> ok_unroll (Some (Err e)).

Lemma partial_unroll_tab st mn : tab_ok st = true -> ok_unroll (partial_unroll st mn).
Proof.
  intros T. unfold partial_unroll. destruct (l_vol st); [constructor|].
  destruct (sum_reps (l_ch st) * l_rep st >=? mn) eqn:E1; [|constructor].
  pose proof (tab_ok_inv _ T) as [T1 T2].
  set (st1 := if sum_reps (l_ch st) <? mn then unroll_children st else st).
  assert (H1 : tab_ok st1 = true /\ mn <= sum_reps (l_ch st1)).
  { unfold st1. destruct (sum_reps (l_ch st) <? mn) eqn:E2; [|split; [exact T|lia]].
    destruct st as [r m w ch]. cbn [unroll_children l_ch l_rep] in *. split.
    - apply tab_ok_intro; cbn [l_rep l_ch]; [lia|]. now apply forallb_rep_concat.
    - rewrite sum_reps_rep_concat by lia. lia. }
  destruct H1 as [H1 H2]. pose proof (split_until_tab (Z.to_nat (mn - l_len st1)) mn st1 H1 H2) as H.
  destruct (split_until _ mn st1); now constructor.
Qed.

Definition ok_step (s : pstep) : Prop :=
  match s with
  | PNext b a => forallb tab_ok b = true /\ forallb tab_ok a = true
  | PDone r => forallb tab_ok r = true
  | PErr e => e <> ECrash
  end.

Lemma after_unroll_tab cur mn before rest other :
  tab_ok cur = true -> forallb tab_ok before = true -> forallb tab_ok rest = true -> ok_step other ->
  ok_step (after_unroll (partial_unroll cur mn) before rest other).
Proof.
  intros Tc Tb Tr Ho. pose proof (partial_unroll_tab cur mn Tc) as H. unfold after_unroll.
  destruct H; cbn [ok_step forallb]; auto. now rewrite H, Tb.
Qed.

Lemma prep_step_tab mn mx before after : forallb tab_ok before = true -> forallb tab_ok after = true ->
  ok_step (prep_step mn mx before after).
Proof.
  intros Tb Ta. unfold prep_step. destruct after as [|cur rest]; [cbn [ok_step]; now rewrite forallb_rev'|].
  cbn [forallb] in Ta. apply andb_prop in Ta as [Tc Tr].
  destruct (l_len cur >? mx); [cbn; discriminate|].
  destruct (l_len cur <? mn); [|cbn [ok_step forallb]; now rewrite Tc, Tb].
  destruct (negb (l_rep cur >? 0)); [cbn; discriminate|].
  assert (NBN : forall nx rt, tab_ok nx = true -> forallb tab_ok rt = true ->
            ok_step (if (l_rep nx >? 1) && (l_len cur + l_len nx <? mx)
                     then PNext before (append_children cur nx :: dec_rep nx :: rt) else PErr ETooShort)).
  { intros nx rt Tn Trt. destruct ((l_rep nx >? 1) && (l_len cur + l_len nx <? mx)) eqn:E; [|cbn; discriminate].
    cbn [ok_step forallb]. rewrite Tb, tab_ok_append, tab_ok_dec_rep, Trt by (auto; lia). auto. }
  assert (NBP : forall p bt other, tab_ok p = true -> forallb tab_ok bt = true -> ok_step other ->
            ok_step (if (l_rep p >? 1) && (l_len cur + l_len p <? mx)
                     then PNext (dec_rep p :: bt) (prepend_children p cur :: rest) else other)).
  { intros p bt other Tp Tbt Ho. destruct ((l_rep p >? 1) && (l_len cur + l_len p <? mx)) eqn:E; [|exact Ho].
    cbn [ok_step forallb]. rewrite tab_ok_dec_rep, Tbt, tab_ok_prepend, Tr by (auto; lia). auto. }
  assert (ES : ok_step (PErr ETooShort)) by (cbn; discriminate).
  destruct ((l_rep cur =? 1) && negb (l_vol cur)); [|now apply after_unroll_tab].
  assert (AU : forall bf rs other, forallb tab_ok bf = true -> forallb tab_ok rs = true -> ok_step other ->
            ok_step (after_unroll (partial_unroll cur mn) bf rs other)).
  { intros. now apply after_unroll_tab. }
  destruct before as [|p bt].
  - destruct rest as [|nx rt]; [now apply AU|].
    pose proof Tr as Tr'. cbn [forallb] in Tr. apply andb_prop in Tr as [Tn Trt].
    destruct (merge_ok cur nx mx).
    + cbn [ok_step forallb]. now rewrite tab_ok_append, Trt.
    + apply AU; [reflexivity|exact Tr'|]. now apply NBN.
  - pose proof Tb as Tb'. cbn [forallb] in Tb. apply andb_prop in Tb as [Tp Tbt].
    destruct (merge_ok p cur mx).
    + cbn [ok_step forallb]. now rewrite tab_ok_append, Tbt, Tr.
    + destruct rest as [|nx rt].
      * apply AU; [exact Tb'|reflexivity|]. now apply NBP.
      * pose proof Tr as Tr'. cbn [forallb] in Tr. apply andb_prop in Tr as [Tn Trt].
        destruct (merge_ok cur nx mx).
        { cbn [ok_step forallb]. now rewrite Tp, Tbt, tab_ok_append, Trt. }
        apply AU; [exact Tb'|exact Tr'|].
        apply NBP; auto.
Qed.

Lemma prep_tab : forall fuel mn mx before after, forallb tab_ok before = true -> forallb tab_ok after = true ->
  match prep fuel mn mx before after with Ok r => forallb tab_ok r = true | Err e => e <> ECrash end.
Proof.
  induction fuel as [|f IH]; intros mn mx before after Tb Ta; [cbn; discriminate|]. cbn [prep].
  pose proof (prep_step_tab mn mx before after Tb Ta) as H.
  destruct (prep_step mn mx before after) as [b a|r|e]; cbn [ok_step] in H; [|exact H|exact H].
  destruct H as [H1 H2]. now apply IH.
Qed.

(* ---------------------------------------------------------------------------------------------------------- *)
(* the parsers: no crash on leaves with waveforms; every recorded waveform index is inside the waveform list *)

Definition idx_ok (n : nat) (es : list (Z * Z)) : Prop := Forall (fun e => 0 <= snd e < Z.of_nat n) es.

Lemma nth_z_Some_lt {A} (l : list A) i x : nth_z l i = Some x -> 0 <= i < Z.of_nat (length l).
Proof.
  unfold nth_z. destruct (i <? 0) eqn:E; [discriminate|]. intros H.
  assert (Z.to_nat i < length l)%nat by (apply nth_error_Some; congruence). lia.
Qed.

Lemma idx_ok_mono n m es : (n <= m)%nat -> idx_ok n es -> idx_ok m es.
Proof. intros Hnm H. eapply Forall_impl; [|exact H]. cbn beta. intros e He. lia. Qed.

Lemma parse_table_nc tbl : forall ch known, forallb leaf_ok ch = true ->
  match parse_table tbl ch known with
  | Ok (es, known') => (length known <= length known')%nat /\ idx_ok (length known') es
  | Err e => e <> ECrash
  end.
Proof.
  induction ch as [|c r IH]; intros known H; cbn [parse_table]; [split; [lia|constructor]|].
  cbn [forallb] in H. apply andb_prop in H as [Hc Hr].
  destruct (l_wf c) as [w|]; [|discriminate].
  destruct (cls_of tbl w) as [k|]; [|discriminate].
  destruct (setdefault wf_key_eqb (k, w) known) as [idx known1] eqn:Es.
  destruct (setdefault_spec _ _ _ _ _ wf_key_eqb_refl Es) as ((e1 & ->) & x & Hx & _).
  specialize (IH (known ++ e1) Hr). unfold bind.
  destruct (parse_table tbl r (known ++ e1)) as [[es' known2]|e]; [|exact IH].
  destruct IH as [L I]. rewrite app_length in L. split; [lia|]. constructor; [|exact I]. cbn [snd].
  apply nth_z_Some_lt in Hx. rewrite app_length in Hx. lia.
Qed.

Lemma parse_aseq_loop_nc tbl : forall tables adv (seqs : list tkey) known,
  forallb tab_ok tables = true -> Forall (fun k : tkey => idx_ok (length known) (fst k)) seqs ->
  match parse_aseq_loop tbl tables adv seqs known with
  | Ok p => Forall (idx_ok (length (p_wfs p))) (p_seqs p)
  | Err e => e <> ECrash
  end.
Proof.
  induction tables as [|t r IH]; intros adv seqs known H HS; cbn [parse_aseq_loop].
  - cbn [p_wfs p_seqs]. apply Forall_map. exact HS.
  - cbn [forallb] in H. apply andb_prop in H as [Ht Hr]. apply tab_ok_inv in Ht as [_ Ht].
    pose proof (parse_table_nc tbl (l_ch t) known Ht) as HP. unfold bind.
    destruct (parse_table tbl (l_ch t) known) as [[es known1]|e]; [|exact HP]. destruct HP as [L I].
    destruct (setdefault tkey_eqb (es, map l_volp (l_ch t)) seqs) as [sidx seqs'] eqn:Es.
    apply IH; [exact Hr|]. apply Forall_forall. intros x Hx.
    destruct (setdefault_In _ _ _ _ _ Es x Hx) as [Hin| ->]; [|exact I].
    rewrite Forall_forall in HS. eapply idx_ok_mono; [exact L|auto].
Qed.

Lemma Forall2_length' {A B} (P : A -> B -> Prop) l1 l2 : Forall2 P l1 l2 -> length l1 = length l2.
Proof. induction 1; cbn; auto. Qed.

Lemma calc_segments_nc c tbl p advd : Forall (idx_ok (length (p_wfs p))) (p_seqs p) -> nc (calc_segments c tbl p advd).
Proof.
  intros HI. unfold calc_segments. destruct (p_wfs p) as [|kw0 kws] eqn:Ew; [discriminate|]. rewrite <- Ew in *.
  clear Ew kw0 kws.
  apply bind_nc; [apply map_res_nc; intros kw _; destruct (nth_error tbl (snd kw)); discriminate|]. intros wds E1.
  apply bind_nc.
  { apply map_res_nc. intros wd _. unfold waveform_length. destruct (Qle_bool _ _); [|discriminate].
    destruct (_ <=? 0); discriminate. }
  intros ns _. destruct (existsb _ ns); [discriminate|]. destruct (negb _); [discriminate|].
  apply bind_nc.
  { apply map_res_nc. intros wd _. intros E. pose proof (sample_segment_nf c wd) as _.
    unfold sample_segment, bind in E.
    assert (HC : forall ch amp off tr e, channel_data wd ch amp off tr = Err e -> e <> ECrash).
    { intros ch amp off tr e. unfold channel_data. destruct ch; [|discriminate]. destruct (assoc _ _); [|congruence].
      destruct (negb _); [congruence|]. destruct (Qle_bool amp 0); [congruence|]. destruct (map_opt _ _); congruence. }
    assert (HM : forall m e, marker_data wd m = Err e -> e <> ECrash).
    { intros m e. unfold marker_data. destruct m; [|discriminate]. destruct (assoc _ _); [|congruence].
      destruct (negb _); congruence. }
    destruct (channel_data wd (c_cha c) _ _ _) eqn:Ea; [|injection E as ->; exact (HC _ _ _ _ _ Ea eq_refl)].
    destruct (channel_data wd (c_chb c) _ _ _) eqn:Eb; [|injection E as ->; exact (HC _ _ _ _ _ Eb eq_refl)].
    destruct (marker_data wd (c_ma c)) eqn:Ema; [|injection E as ->; exact (HM _ _ Ema eq_refl)].
    destruct (marker_data wd (c_mb c)) eqn:Emb; [|injection E as ->; exact (HM _ _ Emb eq_refl)]. discriminate. }
  intros bins E5. destruct (dedup_segments bins [] []) as [segs w2s] eqn:E6.
  apply bind_nc; [|discriminate].
  destruct (dedup_segments_ok _ _ _ _ _ E6) as (_ & we & Hwe & HD). cbn [app] in Hwe. subst we.
  assert (Hlen : length w2s = length (p_wfs p)).
  { apply map_res_Forall2 in E1, E5. apply Forall2_length' in E1, E5, HD. congruence. }
  apply map_res_nc. intros t Ht. apply map_res_nc. intros e He.
  rewrite Forall_forall in HI. specialize (HI t Ht). unfold idx_ok in HI. rewrite Forall_forall in HI.
  specialize (HI e He). unfold nth_z. destruct (snd e <? 0) eqn:En; [lia|].
  destruct (nth_error w2s (Z.to_nat (snd e))) eqn:Ex; [discriminate|]. apply nth_error_None in Ex. lia.
Qed.

(* ---------------------------------------------------------------------------------------------------------- *)

Lemma fab_fabl_ok n d todo r : fab n d [] todo = Ok r -> fabl n d todo = Ok r.
Proof. rewrite fab_fabl. destruct (fabl n d todo); cbn; congruence. Qed.

Theorem compile_no_crash_nn ff pf c tbl prog : nn prog = true -> compile_with ff pf c tbl prog <> Err ECrash.
Proof.
  intros P. unfold compile_with. fold (root_of prog). set (prog1 := root_of prog).
  assert (P1 : nn prog1 = true).
  { unfold prog1, root_of. destruct (_ || _); [|exact P]. apply nn_intro; [lia|cbn; now rewrite P]. }
  destruct (negb (c_nchan c =? c_cpp c)); [discriminate|].
  destruct (negb (c_nmark c =? c_cpp c)); [discriminate|].
  destruct (negb (c_nchan c =? 2)); [discriminate|].
  destruct (negb (match c_mode c with Some m => m | None => depth prog1 >? 1 end)).
  - destruct (negb (depth prog1 =? 1)) eqn:Ed; [discriminate|]. destruct (negb (balanced prog1)); [discriminate|].
    destruct (l_len prog1 >? c_max c); [discriminate|].
    assert (T : tab_ok prog1 = true) by (apply nn_depth1_tab; [exact P1|lia]).
    apply tab_ok_inv in T as [_ T]. pose proof (parse_table_nc tbl (l_ch prog1) [] T) as HP.
    unfold parse_single. apply bind_nc.
    + apply bind_nc; [|intros [es known] _; discriminate].
      destruct (parse_table tbl (l_ch prog1) []) as [[es known]|e]; [discriminate|].
      intros E. injection E as ->. now apply HP.
    + intros p Ep. apply calc_segments_nc. unfold bind in Ep.
      destruct (parse_table tbl (l_ch prog1) []) as [[es known]|e]; [|discriminate]. injection Ep as <-.
      cbn [p_wfs p_seqs]. destruct HP as [_ I]. constructor; [exact I|constructor].
  - destruct (negb (depth prog1 >? 1)); [discriminate|]. destruct (negb (l_rep prog1 =? 1)); [discriminate|].
    apply bind_nc; [intros E; apply fab_err in E; discriminate|]. intros ch1 Ef.
    assert (T1 : forallb tab_ok ch1 = true).
    { destruct prog1 as [r m w ch] eqn:E1. apply nn_inv in P1 as (_ & Pch). cbn [l_ch] in Ef.
      pose proof (fab_nn ff 2 [] ch ch1 eq_refl Pch Ef) as Pc1.
      pose proof (fabl_post _ _ _ _ (fab_fabl_ok _ _ _ _ Ef)) as Hpost.
      apply forallb_forall. intros t Ht. rewrite Forall_forall in Hpost.
      destruct (Hpost t Ht) as [[_ Hd]|[_ Hd]]; [|lia].
      apply nn_depth1_tab; [eapply forallb_forall in Pc1; eauto|lia]. }
    pose proof (prep_tab pf (c_min c) (c_max c) [] ch1 eq_refl T1) as HP.
    apply bind_nc; [destruct (prep pf (c_min c) (c_max c) [] ch1); [discriminate|]; intros E; injection E as ->; now apply HP|].
    intros ch2 Ep. rewrite Ep in HP. destruct (negb (forallb _ ch2)); [discriminate|].
    unfold parse_aseq. replace (l_ch (set_ch prog1 ch2)) with ch2 by (destruct prog1; reflexivity).
    pose proof (parse_aseq_loop_nc tbl ch2 [] [] [] HP (Forall_nil _)) as HA.
    apply bind_nc; [destruct (parse_aseq_loop tbl ch2 [] [] []); [discriminate|]; intros E; injection E as ->; now apply HA|].
    intros p Epp. rewrite Epp in HA. now apply calc_segments_nc.
Qed.

Theorem compile_no_crash ff pf c tbl prog : pos prog = true -> compile_with ff pf c tbl prog <> Err ECrash.
Proof. intros P. apply compile_no_crash_nn. now apply pos_nn. Qed.

Theorem compile_no_crash_good ff pf c tbl prog : good prog = true -> compile_with ff pf c tbl prog <> Err ECrash.
Proof. intros P. apply compile_no_crash_nn. now apply good_nn. Qed.

(* the former witness of the crash (known finding zero_count_empties_table, repaired): a good program in which a
   repetition count 0 leaves a node without children is now REJECTED with the parser's TaborException *)
Definition ex_zero : loop :=
  Loop 1 plain None
    [Loop 1 plain None [Loop 0 plain None [ex_leaf 0 1; ex_leaf 0 1];
                        Loop 0 plain None [Loop 1 plain None [ex_leaf 0 1; ex_leaf 0 1];
                                           Loop 1 plain None [ex_leaf 0 1; ex_leaf 0 1]]]].

Lemma zero_count_rejected : good ex_zero = true /\ pos ex_zero = false /\
  compile (ex_cfg 1 4) ex_tbl ex_zero = Err ENoWaveform.
Proof. split; [reflexivity|]. split; [reflexivity|]. vm_compute. reflexivity. Qed.
