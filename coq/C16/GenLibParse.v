(* C16 — python -> Gallina primitive table for the translated parsers (Gen_parse.v, generated from
   parse_aseq_program / parse_single_seq_program by translate/py2gallina_c16.py, FuncStateTranslator).
   Definitions only; hand-written, committed.  What each python construct means here:

     OrderedDict / dict            assoc list in insertion order          alookup / aset / dsetdefault
     d.setdefault(k, v)            value of k if present, else insert v   dsetdefault
     k in d, d[k]                  alookup (KeyError = Err ECrash)
     Loop.repetition_definition    (current count, volatile property)     l_repdef;  int(.) = repdef_int,
                                                                          isinstance(., int) = repdef_is_int
     _get_used_waveform(l, used)   equality class + index of the waveform used_waveform (TaborException / outside the
                                                                          modelled domain as in Model.parse_table)
     TableDescription / TableEntry (repetition_count, element, jump_flag) gdesc
     keys of volatile_parameter_positions: int | (int, int)               gpos                                      *)
From Coq Require Import ZArith List Bool.
Require Import QV.C16.Model.
Import ListNotations.
Open Scope Z_scope.

Definition repdef : Type := Z * option vprop.
Definition l_repdef (c : loop) : repdef := (l_rep c, l_volp c).
Definition repdef_int (r : repdef) : Z := fst r.
Definition is_some {A} (o : option A) : bool := match o with Some _ => true | None => false end.
Definition repdef_is_int (r : repdef) : bool := negb (is_some (snd r)).

Definition wfkey : Type := Z * nat.
Definition wfkey_eqb : wfkey -> wfkey -> bool := wf_key_eqb.

Definition used_waveform (tbl : list wfdata) (c : loop) : result wfkey :=
  match l_wf c with
  | None => Err ENoWaveform
  | Some w => match cls_of tbl w with None => Err EBadInput | Some k => Ok (k, w) end
  end.

Definition gdesc : Type := Z * Z * Z.
Definition gentry : Type := gdesc * option vprop.
Inductive gpos := PAdv (i : Z) | PSeq (i j : Z).

Definition gdesc_eqb (a b : gdesc) : bool :=
  (fst (fst a) =? fst (fst b)) && (snd (fst a) =? snd (fst b)) && (snd a =? snd b).
Definition optv_eqb (x y : option vprop) : bool :=
  match x, y with None, None => true | Some u, Some v => vprop_eqb u v | _, _ => false end.
Definition gentry_eqb (a b : gentry) : bool := gdesc_eqb (fst a) (fst b) && optv_eqb (snd a) (snd b).
Fixpoint gtable_eqb (a b : list gentry) : bool :=
  match a, b with
  | [], [] => true
  | x :: a', y :: b' => gentry_eqb x y && gtable_eqb a' b'
  | _, _ => false
  end.
Definition gpos_eqb (a b : gpos) : bool :=
  match a, b with
  | PAdv i, PAdv j => i =? j
  | PSeq i j, PSeq i' j' => (i =? i') && (j =? j')
  | _, _ => false
  end.

Section Dict.
  Context {K V : Type} (eqb : K -> K -> bool).
  Fixpoint alookup (k : K) (d : list (K * V)) : option V :=
    match d with
    | [] => None
    | (k', v) :: r => if eqb k k' then Some v else alookup k r
    end.
  (* d[k] = v: an existing key keeps its position *)
  Fixpoint aset (k : K) (v : V) (d : list (K * V)) : list (K * V) :=
    match d with
    | [] => [(k, v)]
    | (k', v') :: r => if eqb k k' then (k', v) :: r else (k', v') :: aset k v r
    end.
  Definition dsetdefault (k : K) (v : V) (d : list (K * V)) : V * list (K * V) :=
    match alookup k d with
    | Some x => (x, d)
    | None => (v, d ++ [(k, v)])
    end.
End Dict.

Record gparsed := mk_gparsed {
  g_adv : list gdesc;                      (* ParsedProgram.advanced_sequencer_table *)
  g_seqs : list (list gentry);             (* .sequencer_tables *)
  g_wfs : list wfkey;                      (* .waveforms *)
  g_vpp : list (gpos * repdef) }.          (* .volatile_parameter_positions *)
