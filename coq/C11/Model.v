(* C11 — operational model of qupulse/serialization.py: storage backends as machines over primitive, individually
   failing steps, and PulseStorage.__setitem__ / overwrite / __delitem__ with the transaction buffer.
   Definitions only (no proofs) so that the model still evaluates when a proof breaks.

   Abstract content: identifier -> document; a document is the payload of the named object itself plus the list of
   identifiers it refers to (in document order), or `Partial` (empty / truncated text that does not parse).        *)
From Coq Require Import List NArith Bool.
Import ListNotations.
Open Scope N_scope.

Definition id := N.

Inductive doc :=
| Full (payload : N) (refs : list id)
| Partial.

(* A template as seen by PulseStorage: a named object (`tag` = identity of the Python object, `payload` = its own
   data) whose serialization refers to named children `kids` (unnamed wrappers are part of the payload);
   `Bad` = a nested object the JSON encoder cannot serialize (TypeError in JSONSerializableEncoder.default).       *)
Inductive tmpl :=
| Node (nid : id) (tag payload : N) (kids : list tmpl)
| Bad.

(* ------------------------------------------------------------------------------------------------------------ *)
(* association lists with Python-dict semantics (assignment keeps the position of an existing key)                *)

Fixpoint lookup {A} (i : id) (l : list (id * A)) : option A :=
  match l with
  | [] => None
  | (j, v) :: r => if j =? i then Some v else lookup i r
  end.

Fixpoint aset {A} (i : id) (v : A) (l : list (id * A)) : list (id * A) :=
  match l with
  | [] => [(i, v)]
  | (j, w) :: r => if j =? i then (i, v) :: r else (j, w) :: aset i v r
  end.

Fixpoint adel {A} (i : id) (l : list (id * A)) : list (id * A) :=
  match l with
  | [] => []
  | (j, w) :: r => if j =? i then adel i r else (j, w) :: adel i r
  end.

Definition keys {A} (l : list (id * A)) : list id := map fst l.
Definition memb (i : id) (l : list id) : bool := existsb (N.eqb i) l.
Definition has {A} (i : id) (l : list (id * A)) : bool := memb i (keys l).

Definition store := list (id * doc).

(* ------------------------------------------------------------------------------------------------------------ *)
(* the "disk": what survives a failure.  `main` = the directory / archive / dict (None = the archive file does not
   exist); `tmpf` = the temporary document file of the repaired FilesystemBackend.put; `tmpz` = the temporary
   archive of ZipFileBackend._update.  Temporary files are never listed.                                          *)

(* `pend` = an in-place append to the archive that is physically in the file while the central directory is not
   written yet (the old directory is overwritten by the new entry: the file is not a readable archive).          *)
Record disk := { main : option store; tmpf : option doc; tmpz : option store; pend : option store }.

Definition set_main (m : option store) (d : disk) : disk :=
  {| main := m; tmpf := tmpf d; tmpz := tmpz d; pend := pend d |}.
Definition set_tmpf (t : option doc) (d : disk) : disk :=
  {| main := main d; tmpf := t; tmpz := tmpz d; pend := pend d |}.
Definition set_tmpz (z : option store) (d : disk) : disk :=
  {| main := main d; tmpf := tmpf d; tmpz := z; pend := pend d |}.

Definition view (d : disk) : store := match main d with Some s => s | None => [] end.
Definition on_main (f : store -> store) (d : disk) : disk := set_main (option_map f (main d)) d.

Inductive prim :=
(* DictBackend *)
| PDictPut (i : id) (d : doc)          (* self._cache[identifier] = data *)
| PDictDel (i : id)                    (* del self._cache[identifier] *)
(* FilesystemBackend, put as in the pinned snapshot: open(path, 'w') ; file.write(data) *)
| PFsOpenTrunc (i : id)                (* creates or truncates <i>.json *)
| PFsWrite (i : id) (d : doc)
| PFsRemove (i : id)                   (* os.remove(path) *)
(* FilesystemBackend, repaired put: open(tmp, 'w') ; write ; os.replace(tmp, path) *)
| PFsTmpCreate
| PFsTmpWrite (d : doc)
| PFsReplace (i : id)
(* ZipFileBackend *)
| PZAppendData (i : id) (d : doc)      (* ZipFile(root, 'a').writestr: the entry overwrites the central directory *)
| PZAppendDir                          (* ZipFile.close: the new central directory is written *)
| PZMkTemp                             (* tempfile.mkstemp ; os.close *)
| PZCopyExcept (i : id)                (* copy every entry but i into the temporary archive *)
| PZRemoveArchive                      (* os.remove(root) *)
| PZRename                             (* os.rename(tmp, root) *)
| PZTmpAdd (i : id) (d : doc)          (* repaired: the new entry is written into the temporary archive *)
| PZReplace                            (* repaired: os.replace(tmp, root) *)
(* clean-up code of the `except BaseException` clauses (runs after a failure that raises, not after a kill) *)
| PFsTmpRemove                         (* os.remove(tmp_path) *)
| PZTmpRemove.                         (* os.remove(tmpname) *)

Definition step (p : prim) (d : disk) : disk :=
  match p with
  | PDictPut i x => on_main (aset i x) d
  | PDictDel i => on_main (adel i) d
  | PFsOpenTrunc i => on_main (aset i Partial) d
  | PFsWrite i x => on_main (aset i x) d
  | PFsRemove i => on_main (adel i) d
  | PFsTmpCreate => set_tmpf (Some Partial) d
  | PFsTmpWrite x => set_tmpf (Some x) d
  | PFsReplace i =>
      match tmpf d with
      | Some x => set_tmpf None (on_main (aset i x) d)
      | None => d
      end
  | PZAppendData i x =>
      {| main := None; tmpf := tmpf d; tmpz := tmpz d; pend := Some (adel i (view d) ++ [(i, x)]) |}
  | PZAppendDir =>
      match pend d with
      | Some z => {| main := Some z; tmpf := tmpf d; tmpz := tmpz d; pend := None |}
      | None => d
      end
  | PZMkTemp => set_tmpz (Some []) d
  | PZCopyExcept i => set_tmpz (Some (adel i (view d))) d
  | PZRemoveArchive => set_main None d
  | PZRename | PZReplace =>
      match tmpz d with
      | Some z => set_tmpz None (set_main (Some z) d)
      | None => d
      end
  | PZTmpAdd i x => set_tmpz (option_map (fun z => adel i z ++ [(i, x)]) (tmpz d)) d
  | PFsTmpRemove => set_tmpf None d
  | PZTmpRemove => set_tmpz None d
  end.

Definition run (ps : list prim) (d : disk) : disk := fold_left (fun d p => step p d) ps d.

(* does the primitive change what a reader of the storage can see?  (temporary files are invisible) *)
Definition publishes (p : prim) : bool :=
  match p with
  | PFsTmpCreate | PFsTmpWrite _ | PZMkTemp | PZCopyExcept _ | PZTmpAdd _ _ | PFsTmpRemove | PZTmpRemove => false
  | _ => true
  end.

(* ------------------------------------------------------------------------------------------------------------ *)
(* the backends: which primitives `put(identifier, data, overwrite=True)` and `delete(identifier)` perform        *)

Inductive backend := BDict | BFs | BZip.
(* which repairs are in place: `current` is the code as it is now (checked against /repo by the correspondence on every
   run); `snapshot` is the pinned snapshot and `round1` the code after repo commit 61710b6, kept to state why the
   repairs were needed.                                                                                          *)
Record variant := { fs_put_is_atomic : bool; zip_update_is_atomic : bool; zip_new_entry_in_place : bool }.
Definition snapshot : variant := {| fs_put_is_atomic := false; zip_update_is_atomic := false; zip_new_entry_in_place := true |}.
Definition round1 : variant := {| fs_put_is_atomic := true; zip_update_is_atomic := true; zip_new_entry_in_place := true |}.
Definition repaired : variant := {| fs_put_is_atomic := true; zip_update_is_atomic := true; zip_new_entry_in_place := false |}.
Definition current : variant := repaired.

Definition put_steps (v : variant) (b : backend) (d : disk) (i : id) (x : doc) : list prim :=
  match b with
  | BDict => [PDictPut i x]
  | BFs => if fs_put_is_atomic v then [PFsTmpCreate; PFsTmpWrite x; PFsReplace i]
           else [PFsOpenTrunc i; PFsWrite i x]
  | BZip =>
      if has i (view d) || negb (zip_new_entry_in_place v) then
        if zip_update_is_atomic v then [PZMkTemp; PZCopyExcept i; PZTmpAdd i x; PZReplace]
        else [PZMkTemp; PZCopyExcept i; PZRemoveArchive; PZRename; PZAppendData i x; PZAppendDir]
      else [PZAppendData i x; PZAppendDir]
  end.

Definition del_steps (v : variant) (b : backend) (d : disk) (i : id) : list prim :=
  match b with
  | BDict => [PDictDel i]
  | BFs => [PFsRemove i]
  | BZip => if zip_update_is_atomic v then [PZMkTemp; PZCopyExcept i; PZReplace]
            else [PZMkTemp; PZCopyExcept i; PZRemoveArchive; PZRename]
  end.

(* ------------------------------------------------------------------------------------------------------------ *)
(* PulseStorage                                                                                                    *)

Definition cache := list (id * N).        (* _temporary_storage: identifier -> identity of the cached object *)
Definition txbuf := list (id * (N * doc)). (* _transaction_storage: identifier -> (object, serialization) *)

Inductive err := EClash | EUnser | EMissing.
Inductive res (A : Type) := Ok (a : A) | Err (e : err).
Arguments Ok {A} a.
Arguments Err {A} e.

Definition doc_of (n : tmpl) : doc :=
  match n with
  | Node _ _ p kids => Full p (flat_map (fun k => match k with Node i _ _ _ => [i] | Bad => [] end) kids)
  | Bad => Partial
  end.

(* `identifier in self.storage`  (PulseStorage.__contains__ : temporary storage or backend; the transaction
   storage is NOT consulted) *)
Definition in_storage (ks : list id) (c : cache) (i : id) : bool := has i c || memb i ks.

(* PulseStorage.overwrite for the object n, nested inside a running transaction: encode (which visits the
   children through JSONSerializableEncoder.default, in document order), then buffer the own entry.           *)
(* JSONSerializableEncoder.default on the children, in document order; `rec` = the nested overwrite() *)
Definition walk_kids (rec : tmpl -> txbuf -> res txbuf) (ks : list id) (c : cache)
  : list tmpl -> txbuf -> res txbuf :=
  fix go (l : list tmpl) (tx : txbuf) {struct l} : res txbuf :=
  match l with
  | [] => Ok tx
  | k :: r =>
      match k with
      | Bad => Err EUnser
      | Node ci ctg _ _ =>
          if negb (in_storage ks c ci) then
            (* self.storage[o.identifier] = o  ->  __setitem__ (both checks pass) -> overwrite *)
            match rec k tx with
            | Ok tx' => go r tx'
            | Err e => Err e
            end
          else
            (* `o is not self.storage[o.identifier]`; an object loaded from the backend is a new one *)
            match lookup ci c with
            | Some t => if t =? ctg then go r tx else Err EClash
            | None => Err EClash
            end
      end
  end.

Fixpoint collect (ks : list id) (c : cache) (n : tmpl) (tx : txbuf) {struct n} : res txbuf :=
  match n with
  | Bad => Err EUnser
  | Node i tg p kids =>
      match walk_kids (collect ks c) ks c kids tx with
      | Ok tx' => Ok (aset i (tg, doc_of n) tx')
      | Err e => Err e
      end
  end.

(* the loop `for identifier, entry in self._transaction_storage.items(): backend.put(..., overwrite=True)` *)
Fixpoint tx_steps (v : variant) (b : backend) (d : disk) (tx : txbuf) : list prim :=
  match tx with
  | [] => []
  | (i, (_, x)) :: r => let st := put_steps v b d i x in st ++ tx_steps v b (run st d) r
  end.

Fixpoint cache_update (tx : txbuf) (c : cache) : cache :=
  match tx with
  | [] => c
  | (i, (tg, _)) :: r => cache_update r (aset i tg c)
  end.

Inductive op :=
| OStore (n : tmpl)        (* storage[n.identifier] = n *)
| OOverwrite (n : tmpl)    (* storage.overwrite(n.identifier, n) *)
| ODelete (i : id)         (* del storage[i] *)
| OClear.                  (* storage.clear() / a new PulseStorage on the same backend *)

Inductive plan :=
| PErr (e : err)                              (* raises before the backend is touched *)
| PNoop (c' : cache)                          (* returns without touching the backend *)
| PSteps (steps : list prim) (c' : cache).    (* the primitives performed, and the cache after completion *)

Definition plan_of (v : variant) (b : backend) (d : disk) (c : cache) (o : op) : plan :=
  let ks := keys (view d) in
  match o with
  | OClear => PNoop []
  | ODelete i =>
      if memb i ks then PSteps (del_steps v b d i) (adel i c) else PErr EMissing
  | OOverwrite n =>
      match collect ks c n [] with
      | Ok tx => PSteps (tx_steps v b d tx) (cache_update tx c)
      | Err e => PErr e
      end
  | OStore n =>
      match n with
      | Bad => PErr EUnser
      | Node i tg _ _ =>
          match lookup i c with
          | Some t => if t =? tg then PNoop c else PErr EClash
          | None =>
              if memb i ks then PErr EClash
              else match collect ks c n [] with
                   | Ok tx => PSteps (tx_steps v b d tx) (cache_update tx c)
                   | Err e => PErr e
                   end
          end
      end
  end.

Definition steps_of (p : plan) : list prim := match p with PSteps s _ => s | _ => [] end.

(* run a history without failures *)
Fixpoint run_ops (v : variant) (b : backend) (d : disk) (c : cache) (l : list op) : disk * cache :=
  match l with
  | [] => (d, c)
  | o :: r =>
      match plan_of v b d c o with
      | PErr _ => run_ops v b d c r
      | PNoop c' => run_ops v b d c' r
      | PSteps s c' => run_ops v b (run s d) c' r
      end
  end.

Definition empty_disk : disk := {| main := Some []; tmpf := None; tmpz := None; pend := None |}.

(* what the `except BaseException` clause of the interrupted backend call does when a primitive RAISES; when the
   process is killed nothing of this runs *)
Definition cleanup_steps (b : backend) : list prim :=
  match b with BDict => [] | BFs => [PFsTmpRemove] | BZip => [PZTmpRemove] end.

Inductive crash_kind := Killed | Raised.

(* the disk after the operation was interrupted before its k-th primitive *)
Definition after_crash (ck : crash_kind) (b : backend) (steps : list prim) (k : nat) (d : disk) : disk :=
  let d' := run (firstn k steps) d in
  match ck with
  | Killed => d'
  | Raised => if Nat.ltb k (length steps) then run (cleanup_steps b) d' else d'
  end.

(* ------------------------------------------------------------------------------------------------------------ *)
(* the property's vocabulary (executable)                                                                          *)

(* every listed document is complete and every reference is listed *)
Definition closedb (s : store) : bool :=
  forallb (fun e => match snd e with
                    | Full _ refs => forallb (fun r => has r s) refs
                    | Partial => false
                    end) s.

(* loading i through a new PulseStorage: parse the document, then load every reference (fuel = recursion depth) *)
Fixpoint loadsb (fuel : nat) (s : store) (i : id) : bool :=
  match fuel with
  | O => false
  | S f => match lookup i s with
           | Some (Full _ refs) => forallb (loadsb f s) refs
           | _ => false
           end
  end.

Definition doc_eqb (a b : doc) : bool :=
  match a, b with
  | Full p r, Full q t => (p =? q) && Nat.eqb (length r) (length t) && forallb (fun xy => fst xy =? snd xy) (combine r t)
  | Partial, Partial => true
  | _, _ => false
  end.
Definition odoc_eqb (a b : option doc) : bool :=
  match a, b with
  | Some x, Some y => doc_eqb x y
  | None, None => true
  | _, _ => false
  end.

(* all named nodes of a template *)
Fixpoint nodes (n : tmpl) : list tmpl :=
  match n with
  | Bad => []
  | Node _ _ _ kids => n :: flat_map nodes kids
  end.
Definition nid_of (n : tmpl) : id := match n with Node i _ _ _ => i | Bad => 0 end.

(* guard_C11_dup_id: one identifier never names two different documents inside the template *)
Definition consistentb (n : tmpl) : bool :=
  forallb (fun a => forallb (fun b => negb (nid_of a =? nid_of b) || doc_eqb (doc_of a) (doc_of b)) (nodes n)) (nodes n).

(* the operation does not delete an entry something else refers to (quantifier of the property) *)
Definition referenced (i : id) (s : store) : bool :=
  existsb (fun e => match snd e with Full _ refs => memb i refs | Partial => false end) s.

(* guard_C11_cycle (known finding overwrite-creates-cycle): no identifier written by the transaction is reachable,
   in the storage as it was, from an identifier the new documents refer to without writing it *)
Fixpoint reachb (fuel : nat) (s : store) (from target : id) : bool :=
  (from =? target) ||
  match fuel with
  | O => false
  | S f => match lookup from s with
           | Some (Full _ refs) => existsb (fun r => reachb f s r target) refs
           | _ => false
           end
  end.

Definition no_back_refb (s : store) (tx : list (id * doc)) : bool :=
  forallb (fun e => match snd e with
                    | Full _ refs =>
                        forallb (fun r => memb r (keys tx)
                                          || forallb (fun w => negb (reachb (length s) s r w)) (keys tx)) refs
                    | Partial => true
                    end) tx.
