(* C11 — round 6: every REACHABLE reason for a rejection rejects, for EVERY template, storage and cache (no "all
   new" hypothesis).  The encoder descends into a child only when its identifier is not in the storage; a child whose
   identifier is in the storage is written as a reference if the cache holds exactly this object under it.  A defect
   is reachable (`defect`) when, on a path of such new children from the root, there is
     - an un-serializable object (Bad),
     - a child whose identifier is in the storage while the cache does not hold this very object under it (another
       object cached under it / stored but not cached),
     - a child that carries the identifier of the transaction root (R2; in particular the stored object inside its own
       replacement).
   Then store / overwrite answer PErr and nothing is performed.  Coherence: the same (identifier, identity) has the
   same value of `defect` (the same Python object).  Generalises Proofs_bad.v (Bad next to cached children).     *)
From Coq Require Import List NArith Bool Arith Lia.
Require Import QV.C11.Model QV.C11.Spec QV.C11.Proofs QV.C11.Proofs_load QV.C11.Proofs_kill QV.C11.Guard
               QV.C11.Proofs_guard QV.C11.Proofs_tight QV.C11.Repair QV.C11.Proofs_repair QV.C11.Proofs_bad
               QV.C11.Proofs_clash.
Import ListNotations.
Open Scope N_scope.

Definition cached_as (c : cache) (i : id) (tg : N) : bool :=
  match lookup i c with Some t => t =? tg | None => false end.

Definition kid_defect (root : id) (ks : list id) (c : cache) (df : tmpl -> bool) (k : tmpl) : bool :=
  match k with
  | Bad => true
  | Node ci ctg _ _ => (ci =? root) || (if in_storage ks c ci then negb (cached_as c ci ctg) else df k)
  end.

Fixpoint defect (root : id) (ks : list id) (c : cache) (n : tmpl) : bool :=
  match n with
  | Bad => true
  | Node _ _ _ kids => existsb (fun k => kid_defect root ks c (defect root ks c) k) kids
  end.

Definition coherent_defb (root : id) (ks : list id) (c : cache) (n : tmpl) : bool :=
  forallb (fun a => forallb (fun b => negb (same_obj a b)
                                      || Bool.eqb (defect root ks c a) (defect root ks c b)) (nodes n)) (nodes n).

Section DefectRejected.
  Variables (root : id) (ks : list id) (c : cache) (T : tmpl).
  Notation df := (defect root ks c).
  Hypothesis Hcoh : forall a b, In a (nodes T) -> In b (nodes T) ->
    nid_of a = nid_of b -> tag_of a = tag_of b -> df a = df b.

  Definition GD (st : tstate) : Prop :=
    forall m, In m (nodes T) -> lookup (nid_of m) (snd st) = Some (tag_of m) -> In (nid_of m) (keys (fst st)) ->
              df m = false.

  Definition PD (n : tmpl) : Prop :=
    incl (nodes n) (nodes T) -> forall st st', GD st -> Reg st -> collect2 root ks c n st = Ok st' ->
      df n = false /\ GD st' /\ Reg st' /\ Stable st st'.

  Lemma walkD : forall l, Forall PD l -> (forall k, In k l -> incl (nodes k) (nodes T)) ->
    ~ In root (kid_ids l) ->
    forall st st', GD st -> Reg st -> walk_kids2 (collect2 root ks c) ks c l st = Ok st' ->
      (forall k, In k l -> kid_defect root ks c df k = false) /\ GD st' /\ Reg st' /\ Stable st st'.
  Proof.
    induction 1 as [|k r Hk Hr IH]; intros Hin Hnr st st' HG HR Hw.
    - cbn in Hw. injection Hw as <-. split; [intros ? []|]. split; [exact HG|]. split; [exact HR|apply Stable_refl].
    - rewrite walk2_cons in Hw. destruct k as [ci ctg cp ck|]; [|discriminate].
      assert (Hkin : incl (nodes (Node ci ctg cp ck)) (nodes T)) by (apply Hin; left; reflexivity).
      assert (Hne : (ci =? root) = false).
      { apply N.eqb_neq. intros ->. apply Hnr. apply (kid_id_in root ctg cp ck). left. reflexivity. }
      assert (Hnr' : ~ In root (kid_ids r)).
      { intros H. apply Hnr. unfold kid_ids in *. cbn [flat_map]. apply in_or_app. right. exact H. }
      destruct (in_storage ks c ci) eqn:Hn; cbn [negb] in Hw.
      + destruct (lookup ci c) as [t|] eqn:El; [|discriminate].
        destruct (t =? ctg) eqn:Et; [|discriminate].
        destruct (IH (fun k Hk' => Hin k (or_intror Hk')) Hnr' st st' HG HR Hw) as (B2 & G2 & R2 & S2).
        split; [|split; [exact G2|split; [exact R2|exact S2]]].
        intros k [<-|Hk']; [|exact (B2 k Hk')].
        cbn [kid_defect]. rewrite Hne, Hn. unfold cached_as. rewrite El, Et. reflexivity.
      + destruct (collect2 root ks c (Node ci ctg cp ck) st) as [st1|] eqn:Ec; [|discriminate].
        destruct (Hk Hkin st st1 HG HR Ec) as (B1 & G1 & R1 & S1).
        destruct (IH (fun k Hk' => Hin k (or_intror Hk')) Hnr' st1 st' G1 R1 Hw) as (B2 & G2 & R2 & S2).
        split; [|split; [exact G2|split; [exact R2|eapply Stable_trans; eauto]]].
        intros k [<-|Hk']; [|exact (B2 k Hk')].
        cbn [kid_defect]. rewrite Hne, Hn. cbn [orb]. exact B1.
  Qed.

  Lemma collectD : forall n, PD n.
  Proof.
    induction n as [|i tg p kids HF] using tmpl_ind'; intros Hincl st st' HG HR Hcol.
    - discriminate.
    - set (n := Node i tg p kids) in *.
      assert (HnT : In n (nodes T)) by (apply Hincl; apply self_in_nodes).
      unfold n in Hcol. rewrite collect2_node in Hcol.
      destruct (lookup i (snd st)) as [t|] eqn:El.
      + destruct ((t =? tg) && has i (fst st)) eqn:E; [|discriminate]. injection Hcol as <-.
        apply andb_true_iff in E. destruct E as [Et Eh]. apply N.eqb_eq in Et. subst t.
        split; [|split; [exact HG|split; [exact HR|apply Stable_refl]]].
        apply (HG n HnT); [exact El|apply has_In; exact Eh].
      + set (st1 := (fst st, (i, tg) :: snd st)) in *.
        destruct (walk_kids2 (collect2 root ks c) ks c kids st1) as [st2|] eqn:Ew; [|discriminate].
        destruct (memb root (kid_ids kids)) eqn:Em; [discriminate|]. injection Hcol as <-.
        assert (Hnr : ~ In root (kid_ids kids)).
        { intros H. apply memb_In in H. congruence. }
        assert (G1 : GD st1).
        { intros m Hm Hl Hk. cbn [fst snd st1] in Hl, Hk. cbn [lookup] in Hl.
          destruct (i =? nid_of m) eqn:E; [|exact (HG m Hm Hl Hk)].
          apply N.eqb_eq in E. exfalso. apply (HR _ Hk). rewrite <- E. exact El. }
        assert (R1 : Reg st1).
        { intros j Hj. cbn [fst snd st1] in *. cbn [lookup]. destruct (i =? j); [discriminate|exact (HR j Hj)]. }
        destruct (walkD kids HF (fun k Hk => incl_tran (kid_nodes_incl i tg p kids k Hk) Hincl) Hnr st1 st2 G1 R1 Ew)
          as (B2 & G2 & R2 & (L2 & I2)).
        assert (Hbn : df n = false).
        { unfold n. cbn [defect]. destruct (existsb _ kids) eqn:E; [|reflexivity].
          apply existsb_exists in E. destruct E as (k & Hk & Hb). rewrite (B2 k Hk) in Hb. discriminate. }
        assert (Hi2 : lookup i (snd st2) = Some tg).
        { apply L2. cbn [snd st1 lookup]. rewrite N.eqb_refl. reflexivity. }
        split; [exact Hbn|]. cbn [fst snd]. split; [|split; [|split]].
        * intros m Hm Hl Hk. cbn [fst snd] in Hl, Hk. apply keys_aset_inv in Hk. destruct Hk as [E|Hk]; [|exact (G2 m Hm Hl Hk)].
          rewrite E, Hi2 in Hl. injection Hl as Ht. rewrite (Hcoh m n Hm HnT E (eq_sym Ht)). exact Hbn.
        * intros j Hj. cbn [fst snd] in *. apply keys_aset_inv in Hj. destruct Hj as [->|Hj]; [rewrite Hi2; discriminate|exact (R2 j Hj)].
        * intros j t Hl. apply L2. cbn [snd st1 lookup]. destruct (i =? j) eqn:E; [|exact Hl].
          apply N.eqb_eq in E. subst j. rewrite El in Hl. discriminate.
        * cbn [fst]. eapply incl_tran; [exact I2|]. apply (proj1 (keys_aset_incl i (tg, doc_of (Node i tg p kids)) (fst st2))).
  Qed.

  Lemma defect_collect2_err : df T = true -> exists e, collect2 root ks c T ([], []) = Err e.
  Proof.
    intros Hb. destruct (collect2 root ks c T ([], [])) as [st|e] eqn:Ec; [|exists e; reflexivity].
    destruct (collectD T (incl_refl _) ([], []) st) as (H & _); [intros ? ? ? []|intros ? []|exact Ec|].
    rewrite H in Hb. discriminate.
  Qed.
End DefectRejected.

Lemma coherent_defb_spec root ks c T : coherent_defb root ks c T = true ->
  forall a b, In a (nodes T) -> In b (nodes T) -> nid_of a = nid_of b -> tag_of a = tag_of b ->
  defect root ks c a = defect root ks c b.
Proof.
  intros H a b Ha Hb Ei Et. unfold coherent_defb in H. rewrite forallb_forall in H. specialize (H a Ha).
  rewrite forallb_forall in H. specialize (H b Hb). unfold same_obj in H. rewrite Ei, Et, !N.eqb_refl in H. cbn in H.
  apply eqb_prop in H. exact H.
Qed.

(* the statement *)
Theorem defect_rejected : forall v b d c T,
  defect (nid_of T) (keys (view d)) c T = true -> coherent_defb (nid_of T) (keys (view d)) c T = true ->
  (exists e, plan_of2 v b d c (OOverwrite T) = PErr e /\ (has_bad T = false -> e = EClash)) /\
  (lookup (nid_of T) c = None -> exists e, plan_of2 v b d c (OStore T) = PErr e /\ (has_bad T = false -> e = EClash)) /\
  forall ck k, after_crash ck b (steps_of (plan_of2 v b d c (OOverwrite T))) k d = d /\
               (lookup (nid_of T) c = None -> after_crash ck b (steps_of (plan_of2 v b d c (OStore T))) k d = d).
Proof.
  intros v b d c T Hd Hc.
  destruct (defect_collect2_err (nid_of T) (keys (view d)) c T (coherent_defb_spec _ _ _ T Hc) Hd) as (e & He).
  assert (Hk : has_bad T = false -> e = EClash).
  { intros Hb. destruct (collectK _ _ _ T _ _ He) as [->|(_ & Hb')]; [reflexivity|congruence]. }
  assert (H1 : plan_of2 v b d c (OOverwrite T) = PErr e).
  { unfold plan_of2, flush2. rewrite He. reflexivity. }
  assert (H2 : lookup (nid_of T) c = None ->
               exists e', plan_of2 v b d c (OStore T) = PErr e' /\ (has_bad T = false -> e' = EClash)).
  { intros Hi. destruct T as [i tg p kids|]; [|exists EUnser; split; [reflexivity|discriminate]].
    cbn [nid_of] in Hi, He. unfold plan_of2. rewrite Hi. destruct (memb i (keys (view d))).
    - exists EClash. split; reflexivity.
    - exists e. unfold flush2. cbn [nid_of]. rewrite He. split; [reflexivity|exact Hk]. }
  split; [exists e; split; [exact H1|exact Hk]|]. split; [exact H2|].
  intros ck k. split; [rewrite H1|intros Hi; destruct (H2 Hi) as (e' & -> & _)];
    cbn [steps_of]; unfold after_crash; rewrite firstn_nil; cbn; destruct ck; reflexivity.
Qed.

(* non-vacuity on the example storage (0 -> 1, 2 stored; 0 and 1 cached with identities 3 and 1), all next to the
   CACHED child 1 (written as a reference):
   (a) un-serializable object at depth 3 below a new child                      -> EUnser
   (b) identifier 2 is stored but not cached, at depth 2                        -> EClash
   (c) another object (identity 9) under the cached identifier 1, at depth 2    -> EClash
   (d) overwrite of 0 by a template that contains the stored object 0 at depth 2 -> EClash
   (e) without the defect the template of (b) is accepted and written                                   *)
Definition def_bad : tmpl := Node 4 1 1 [Node 1 1 1 []; Node 5 2 2 [Node 6 3 3 [Bad]]].
Definition def_stale : tmpl := Node 4 1 1 [Node 1 1 1 []; Node 5 2 2 [Node 2 7 7 []]].
Definition def_other : tmpl := Node 4 1 1 [Node 1 1 1 []; Node 5 2 2 [Node 1 9 9 []]].
Definition def_self : tmpl := Node 0 8 8 [Node 1 1 1 []; Node 5 2 2 [Node 0 3 3 []]].
Definition def_none : tmpl := Node 4 1 1 [Node 1 1 1 []; Node 5 2 2 [Node 7 7 7 []]].
Lemma defect_nonvacuous :
  let ks := keys (view (disk_of ex_store)) in
  (forall T, In T [def_bad; def_stale; def_other; def_self] ->
     defect (nid_of T) ks ex_cache T = true /\ coherent_defb (nid_of T) ks ex_cache T = true) /\
  (forall b, plan_of2 current b (disk_of ex_store) ex_cache (OOverwrite def_bad) = PErr EUnser) /\
  (forall b, plan_of2 current b (disk_of ex_store) ex_cache (OStore def_stale) = PErr EClash) /\
  (forall b, plan_of2 current b (disk_of ex_store) ex_cache (OOverwrite def_other) = PErr EClash) /\
  (forall b, plan_of2 current b (disk_of ex_store) ex_cache (OOverwrite def_self) = PErr EClash) /\
  defect 4 ks ex_cache def_none = false /\
  (forall b, exists s c', plan_of2 current b (disk_of ex_store) ex_cache (OOverwrite def_none) = PSteps s c' /\ s <> []).
Proof.
  cbv zeta. split.
  { intros T [<-|[<-|[<-|[<-|[]]]]]; split; reflexivity. }
  repeat (split; [intros b; reflexivity|]). split; [reflexivity|].
  intros b. destruct b; eexists; eexists; (split; [reflexivity|discriminate]).
Qed.
