(* C11 — recursive loadability (clause (a) at full strength): under guard_C11_dup_id and guard_C11_cycle every listed
   identifier loads after every prefix of the primitive steps.  Rank argument: in a storage where everything loads the
   load depth of an identifier strictly decreases along references, so reference chains are duplicate-free and at most
   `length s` long (pigeonhole); this makes the fuel-bounded guard `no_back_refb` complete.                      *)
From Coq Require Import List NArith Bool Lia Arith.
Require Import QV.C11.Model QV.C11.Spec QV.C11.Proofs.
Import ListNotations.
Open Scope N_scope.

(* ------------------------------------------------------------------------------------------------------------ *)
(* A. loadability as an inductive proposition                                                                     *)

Inductive Loads (s : store) : id -> Prop :=
| Loads_intro i p refs : lookup i s = Some (Full p refs) -> (forall r, In r refs -> Loads s r) -> Loads s i.

Lemma loadsb_S f s i :
  loadsb (S f) s i = match lookup i s with Some (Full _ refs) => forallb (loadsb f s) refs | _ => false end.
Proof. reflexivity. Qed.

Lemma loadsb_mono s : forall f g i, loadsb f s i = true -> (f <= g)%nat -> loadsb g s i = true.
Proof.
  induction f as [|f IH]; intros g i H Hle; [discriminate|].
  destruct g as [|g]; [lia|]. rewrite loadsb_S in *.
  destruct (lookup i s) as [[p refs|]|]; try discriminate.
  rewrite forallb_forall in *. intros r Hr. apply IH; [auto|lia].
Qed.

Lemma fuel_for_all s refs :
  (forall r, In r refs -> exists f, loadsb f s r = true) -> exists f, forallb (loadsb f s) refs = true.
Proof.
  induction refs as [|a r IH]; intros H.
  - exists 0%nat. reflexivity.
  - destruct (H a (or_introl eq_refl)) as [fa Ha]. destruct IH as [fr Hr]. { intros; apply H; right; auto. }
    exists (Nat.max fa fr). cbn [forallb]. rewrite (loadsb_mono s fa _ a Ha) by lia. cbn.
    rewrite forallb_forall in *. intros x Hx. eapply loadsb_mono; [apply Hr; auto|lia].
Qed.

Lemma loads_iff_Loads s i : loads s i <-> Loads s i.
Proof.
  split.
  - intros [f H]. revert i H. induction f as [|f IH]; intros i H; [discriminate|].
    rewrite loadsb_S in H. destruct (lookup i s) as [[p refs|]|] eqn:E; try discriminate.
    econstructor; [exact E|]. intros r Hr. apply IH. rewrite forallb_forall in H. auto.
  - induction 1 as [i p refs E _ IH]. destruct (fuel_for_all s refs IH) as [f Hf].
    exists (S f). rewrite loadsb_S, E. exact Hf.
Qed.

Lemma Loads_equiv a b i : equiv a b -> Loads a i -> Loads b i.
Proof. intros E. induction 1 as [i p refs El _ IH]. econstructor; [rewrite <- E; exact El|auto]. Qed.

Lemma all_load_equiv a b : equiv a b -> all_load a -> all_load b.
Proof.
  intros E H i Hi. apply loads_iff_Loads. apply (Loads_equiv a b); auto.
  apply loads_iff_Loads. apply H. rewrite E. auto.
Qed.

(* ------------------------------------------------------------------------------------------------------------ *)
(* B. the load depth is bounded by the number of entries (pigeonhole on a chain of strictly decreasing depths)     *)

Lemma forallb_false_ex {A} (f : A -> bool) l : forallb f l = false -> exists x, In x l /\ f x = false.
Proof.
  induction l as [|a l IH]; cbn; [discriminate|]. destruct (f a) eqn:E; cbn; intros H.
  - destruct (IH H) as (x & ? & ?); eauto.
  - eauto.
Qed.

Lemma chain s : forall f i, loadsb (S f) s i = true -> loadsb f s i = false ->
  exists l, length l = S f /\ NoDup l /\ incl l (keys s) /\ Forall (fun x => loadsb (S f) s x = true) l.
Proof.
  induction f as [|f IH]; intros i H1 H0.
  - exists [i]. split; [reflexivity|]. split; [constructor; [intros []|constructor]|]. split.
    + intros x [<-|[]]. apply lookup_keys_in. rewrite loadsb_S in H1.
      destruct (lookup i s); [discriminate|discriminate].
    + constructor; auto.
  - pose proof H1 as H1'. pose proof H0 as H0'. rewrite loadsb_S in H1, H0.
    destruct (lookup i s) as [[p refs|]|] eqn:E; try discriminate.
    destruct (forallb_false_ex _ _ H0) as (r & Hr & Hr0).
    rewrite forallb_forall in H1. pose proof (H1 r Hr) as Hr1.
    destruct (IH r Hr1 Hr0) as (l & Hl & Hnd & Hin & Hall).
    exists (i :: l). split; [cbn; lia|]. split; [|split].
    + constructor; auto. intros Hi. rewrite Forall_forall in Hall. rewrite (Hall i Hi) in H0'. discriminate.
    + intros x [<-|Hx]; [|auto]. apply lookup_keys_in. rewrite E. discriminate.
    + constructor; [exact H1'|]. rewrite Forall_forall in *. intros x Hx.
      eapply loadsb_mono; [apply Hall; auto|lia].
Qed.

Lemma loadsb_length_bound s : forall f i, loadsb f s i = true -> loadsb (length s) s i = true.
Proof.
  induction f as [|f IH]; intros i H; [discriminate|].
  destruct (loadsb f s i) eqn:E; [auto|].
  destruct (chain s f i H E) as (l & Hl & Hnd & Hin & _).
  eapply loadsb_mono; [exact H|]. rewrite <- Hl.
  replace (length s) with (length (keys s)) by (unfold keys; apply map_length).
  apply NoDup_incl_length; auto.
Qed.

(* ------------------------------------------------------------------------------------------------------------ *)
(* C. reachability; the fuel-bounded `reachb` is complete on identifiers that load                                 *)

Inductive Reach (s : store) : id -> id -> Prop :=
| Reach_refl x : Reach s x x
| Reach_step x p refs r w : lookup x s = Some (Full p refs) -> In r refs -> Reach s r w -> Reach s x w.

Lemma reachb_S f s x w :
  reachb (S f) s x w = (x =? w) || match lookup x s with
                                   | Some (Full _ refs) => existsb (fun r => reachb f s r w) refs
                                   | _ => false
                                   end.
Proof. reflexivity. Qed.

Lemma reachb_complete s : forall f x w, loadsb f s x = true -> Reach s x w -> reachb f s x w = true.
Proof.
  induction f as [|f IH]; intros x w H R; [discriminate|].
  rewrite loadsb_S in H. rewrite reachb_S.
  destruct R as [x|x p refs r w E Hr R].
  - rewrite N.eqb_refl. reflexivity.
  - rewrite E in H |- *. apply orb_true_iff. right. apply existsb_exists. exists r. split; auto.
    apply IH; auto. rewrite forallb_forall in H; auto.
Qed.

Lemma reachb_complete_len s x w : loads s x -> Reach s x w -> reachb (length s) s x w = true.
Proof. intros [f H] R. apply reachb_complete; auto. eapply loadsb_length_bound; eauto. Qed.

(* an identifier of the old storage from which nothing that the transaction writes can be reached *)
Definition Clean (s : store) (W : list id) (x : id) : Prop :=
  lookup x s <> None /\ forall w, In w W -> ~ Reach s x w.

Lemma Clean_notin s W x : Clean s W x -> ~ In x W.
Proof. intros [_ H] Hin. apply (H x Hin). constructor. Qed.

Lemma Clean_ref s W x p refs r :
  closed s -> Clean s W x -> lookup x s = Some (Full p refs) -> In r refs -> Clean s W r.
Proof.
  intros Hc [_ H] E Hr. split.
  - destruct (Hc x _ E) as (q & rs & Eq & Hrs). injection Eq as <- <-. auto.
  - intros w Hw R. apply (H w Hw). econstructor; eauto.
Qed.

(* ------------------------------------------------------------------------------------------------------------ *)
(* D. a finite template in which one identifier names one document cannot nest an identifier inside itself        *)

Definition strict (n : tmpl) : list tmpl :=
  match n with Node _ _ _ kids => flat_map nodes kids | Bad => [] end.
Definition ref_ids (kids : list tmpl) : list id :=
  flat_map (fun k => match k with Node i _ _ _ => [i] | Bad => [] end) kids.

Lemma nodes_not_bad : forall n a, In a (nodes n) -> a <> Bad.
Proof.
  induction n as [|i tg p kids HF] using tmpl_ind'; intros a Ha; [destruct Ha|].
  cbn in Ha. destruct Ha as [<-|Ha]; [discriminate|].
  apply in_flat_map in Ha. destruct Ha as (k & Hk & Ha). rewrite Forall_forall in HF. eapply HF; eauto.
Qed.

Lemma nodes_trans : forall c a b, In b (nodes c) -> In a (nodes b) -> In a (nodes c).
Proof.
  induction c as [|i tg p kids HF] using tmpl_ind'; intros a b Hb Ha; [destruct Hb|].
  cbn in Hb. destruct Hb as [<-|Hb]; [exact Ha|].
  apply in_flat_map in Hb. destruct Hb as (k & Hk & Hb). rewrite Forall_forall in HF.
  cbn. right. apply in_flat_map. exists k. split; auto. eapply HF; eauto.
Qed.

Lemma ref_ids_in kids r : In r (ref_ids kids) -> exists tg p ks, In (Node r tg p ks) kids.
Proof.
  unfold ref_ids. intros H. apply in_flat_map in H. destruct H as (k & Hk & Hr).
  destruct k as [i tg p ks|]; [|destruct Hr]. destruct Hr as [<-|[]]. eauto.
Qed.

Lemma in_ref_ids kids r tg p ks : In (Node r tg p ks) kids -> In r (ref_ids kids).
Proof. intros H. unfold ref_ids. apply in_flat_map. eexists. split; [exact H|]. cbn. auto. Qed.

Lemma node_in_nodes i tg p ks : In (Node i tg p ks) (nodes (Node i tg p ks)).
Proof. cbn. auto. Qed.

Section Tree.
  Variable NP : list tmpl.
  Hypothesis Hcons : forall a b, In a NP -> In b NP -> nid_of a = nid_of b -> doc_of a = doc_of b.

  Lemma no_self_nest : forall a, incl (nodes a) NP -> forall K, In K (strict a) -> nid_of K <> nid_of a.
  Proof.
    induction a as [|i tg p kids HF] using tmpl_ind'; intros Hin K HK; [destruct HK|].
    cbn [strict] in HK. intros Eid.
    assert (HKnp : In K NP). { apply Hin. cbn. right. exact HK. }
    assert (Hanp : In (Node i tg p kids) NP). { apply Hin. cbn. auto. }
    pose proof (Hcons _ _ HKnp Hanp Eid) as Hdoc.
    apply in_flat_map in HK. destruct HK as (K1 & HK1 & HKin).
    destruct K as [i' tg' p' kids'|]; [|exfalso; eapply nodes_not_bad; eauto].
    cbn in Eid. subst i'. cbn [doc_of] in Hdoc. injection Hdoc as Hp Hrefs.
    destruct K1 as [k1 tg1 p1 kids1|]; [|destruct HKin].
    assert (Hk1 : In k1 (ref_ids kids)) by (eapply in_ref_ids; eauto).
    unfold ref_ids in Hk1. rewrite <- Hrefs in Hk1. apply ref_ids_in in Hk1.
    destruct Hk1 as (tg2 & p2 & ks2 & HK1').
    rewrite Forall_forall in HF. specialize (HF _ HK1).
    apply (HF) with (K := Node k1 tg2 p2 ks2); [| |reflexivity].
    - intros m Hm. apply Hin. cbn. right. apply in_flat_map. eauto.
    - cbn [strict]. cbn [nodes] in HKin. destruct HKin as [E|HKin].
      + injection E as -> -> -> ->. apply in_flat_map. eexists. split; [exact HK1'|apply node_in_nodes].
      + apply in_flat_map in HKin. destruct HKin as (X & HX & HKX). apply in_flat_map. exists X. split; auto.
        eapply nodes_trans; [exact HKX|]. cbn. right. apply in_flat_map. eexists. split; [exact HK1'|apply node_in_nodes].
  Qed.
End Tree.

(* ------------------------------------------------------------------------------------------------------------ *)
(* E. every key of the transaction buffer is the top-level identifier or is not in the storage                    *)

Lemma keys_aset_inv {A} i (v : A) l j : In j (keys (aset i v l)) -> j = i \/ In j (keys l).
Proof.
  induction l as [|[k w] r IH]; cbn.
  - intros [<-|[]]; auto.
  - destruct (k =? i) eqn:E; cbn.
    + intros [<-|H]; auto.
    + intros [<-|H]; auto. destruct (IH H); auto.
Qed.

Section CollectS.
  Variables (ks : list id) (c : cache) (root : id).

  Definition InvS (tx : txbuf) : Prop := forall i, In i (keys tx) -> in_storage ks c i = false \/ i = root.
  Definition PS (n : tmpl) : Prop :=
    forall tx tx', InvS tx -> (in_storage ks c (nid_of n) = false \/ nid_of n = root) ->
      collect ks c n tx = Ok tx' -> InvS tx'.

  Lemma walk_invS : forall l, Forall PS l -> forall tx tx',
    InvS tx -> walk_kids (collect ks c) ks c l tx = Ok tx' -> InvS tx'.
  Proof.
    induction 1 as [|k r Hk Hr IH]; intros tx tx' Hi Hw.
    - cbn in Hw. injection Hw as <-. auto.
    - rewrite walk_cons in Hw. destruct k as [ci ctg cp ck|]; [|discriminate].
      destruct (negb (in_storage ks c ci)) eqn:Est.
      + destruct (collect ks c (Node ci ctg cp ck) tx) as [tx1|] eqn:Ec; [|discriminate].
        apply (IH tx1 tx'); auto. apply (Hk tx tx1); auto. left. cbn. apply negb_true_iff; auto.
      + destruct (lookup ci c) as [t|]; [|discriminate]. destruct (t =? ctg); [|discriminate].
        apply (IH tx tx'); auto.
  Qed.

  Lemma collect_invS : forall n, PS n.
  Proof.
    induction n as [|i tg p kids HF] using tmpl_ind'; intros tx tx' Hi Hroot Hc.
    - discriminate.
    - rewrite collect_node in Hc.
      destruct (walk_kids (collect ks c) ks c kids tx) as [tx1|] eqn:Ew; [|discriminate].
      injection Hc as <-. intros j Hj. apply keys_aset_inv in Hj. destruct Hj as [->|Hj].
      + exact Hroot.
      + eapply walk_invS; eauto.
  Qed.
End CollectS.

(* ------------------------------------------------------------------------------------------------------------ *)
(* F. under both guards every reference of a buffered document goes to an earlier entry or to a clean identifier   *)

Definition Good (s : store) (W : list id) (T : list (id * doc)) : Prop :=
  forall l1 i x l2, T = l1 ++ (i, x) :: l2 ->
    exists p refs, x = Full p refs /\ forall r, In r refs -> In r (keys l1) \/ Clean s W r.

Lemma Good_firstn s W T j : Good s W T -> Good s W (firstn j T).
Proof.
  intros H l1 i x l2 E. apply (H l1 i x (l2 ++ skipn j T)).
  rewrite <- (firstn_skipn j T) at 1. rewrite E, <- app_assoc. reflexivity.
Qed.

Lemma good_tx s c n tx :
  closed s -> all_load s -> (forall i, has i c = true -> lookup i s <> None) -> consistentb n = true ->
  collect (keys s) c n [] = Ok tx -> no_back_refb s (proj tx) = true ->
  NoDup (keys (proj tx)) /\ Good s (keys (proj tx)) (proj tx).
Proof.
  intros Hc Hall Hcache Hcons Hcol Hnb.
  pose proof (consistentb_spec n Hcons) as Hcs.
  destruct (collect_inv (keys s) c (nodes n)) with (n := n) (tx := @nil (id * (N * doc))) (tx' := tx)
    as ((ND & OR & EN) & _ & _); auto.
  { intros i Hi. apply lookup_keys_in. auto. }
  { apply incl_refl. }
  { split; [constructor|]. split; [apply ordered_nil|]. intros ? ? ? []. }
  assert (HS : InvS (keys s) c (nid_of n) tx).
  { apply (collect_invS (keys s) c (nid_of n) n [] tx); auto. intros ? []. }
  split; [rewrite keys_proj; exact ND|].
  intros l1 i x l2 E. destruct (OR l1 i x l2 E) as (p & refs & -> & Hr).
  exists p, refs. split; [reflexivity|]. intros r Hin.
  destruct (Hr r Hin) as [Hks|Hl1]; [|left; exact Hl1]. right.
  assert (Hent : In (i, Full p refs) (proj tx)) by (rewrite E; apply in_or_app; right; left; reflexivity).
  unfold no_back_refb in Hnb. rewrite forallb_forall in Hnb. specialize (Hnb _ Hent). cbn in Hnb.
  rewrite forallb_forall in Hnb. specialize (Hnb r Hin). apply orb_true_iff in Hnb.
  destruct Hnb as [Hmem|Hno].
  - (* r is in the storage and written by the transaction: r is the top-level identifier, nested inside itself *)
    exfalso. apply memb_In in Hmem. rewrite keys_proj in Hmem.
    destruct (HS r Hmem) as [Hst|Hroot].
    { unfold in_storage in Hst. apply orb_false_iff in Hst. destruct Hst as [_ Hst].
      apply memb_In in Hks. congruence. }
    unfold proj in Hent. apply in_map_iff in Hent. destruct Hent as ([i0 [tg0 x0]] & E0 & Hin0).
    cbn in E0. injection E0 as -> ->.
    destruct (EN i tg0 _ Hin0) as (m & Hm & Hmid & Hmdoc).
    destruct m as [im tgm pm kidsm|]; [|discriminate].
    cbn [doc_of] in Hmdoc. injection Hmdoc as _ Hrefs.
    assert (Hk : exists tg p ks, In (Node r tg p ks) kidsm).
    { apply ref_ids_in. unfold ref_ids. rewrite Hrefs. exact Hin. }
    destruct Hk as (tgr & pr & ksr & Hk).
    destruct n as [i0 tg1 p1 kids0|]; [|discriminate].
    apply (no_self_nest (nodes (Node i0 tg1 p1 kids0)) Hcs (Node i0 tg1 p1 kids0) (incl_refl _) (Node r tgr pr ksr)).
    + cbn [strict]. cbn [nodes] in Hm. destruct Hm as [Em|Hm].
      * injection Em as <- <- <- <-. apply in_flat_map. eexists. split; [exact Hk|apply node_in_nodes].
      * apply in_flat_map in Hm. destruct Hm as (X & HX & HmX). apply in_flat_map. exists X. split; auto.
        eapply nodes_trans; [exact HmX|]. cbn. right. apply in_flat_map. eexists. split; [exact Hk|apply node_in_nodes].
    + cbn. cbn in Hroot. exact Hroot.
  - split.
    + intros Hn. apply lookup_None_keys in Hn. contradiction.
    + intros w Hw R. rewrite forallb_forall in Hno. specialize (Hno w Hw). apply negb_true_iff in Hno.
      rewrite reachb_complete_len in Hno; [discriminate| |exact R].
      apply Hall. intros Hn. apply lookup_None_keys in Hn. contradiction.
Qed.

(* ------------------------------------------------------------------------------------------------------------ *)
(* G. every prefix of a good transaction keeps everything loadable                                                *)

Lemma apply_tx_app a : forall b s, apply_tx (a ++ b) s = apply_tx b (apply_tx a s).
Proof. induction a as [|[i x] r IH]; cbn; intros; auto. Qed.

Lemma apply_tx_lookup_in T l1 i x l2 s :
  T = l1 ++ (i, x) :: l2 -> NoDup (keys T) -> lookup i (apply_tx T s) = Some x.
Proof.
  intros -> ND. rewrite apply_tx_app. cbn. rewrite apply_tx_notin.
  - rewrite lookup_aset, N.eqb_refl. reflexivity.
  - unfold keys in ND. rewrite map_app in ND. cbn in ND. apply NoDup_remove_2 in ND.
    intros H. apply ND. apply in_or_app. right. exact H.
Qed.

Lemma NoDup_firstn {A} j : forall l : list A, NoDup l -> NoDup (firstn j l).
Proof.
  induction j as [|j IH]; intros l H; [constructor|]. destruct l as [|a l]; [constructor|].
  inversion H; subst. cbn. constructor; auto. intros Hin. apply H2.
  clear - Hin. revert l Hin. induction j as [|j IHj]; intros l Hin; [destruct Hin|].
  destruct l as [|b l]; [destruct Hin|]. cbn in Hin. destruct Hin as [->|Hin]; [left; auto|right; auto].
Qed.

Lemma In_firstn {A} j : forall (l : list A) x, In x (firstn j l) -> In x l.
Proof.
  induction j as [|j IH]; intros l x H; [destruct H|]. destruct l as [|a l]; [destruct H|].
  cbn in H. destruct H as [->|H]; [left; auto|right; auto].
Qed.

Section Prefix.
  Variables (s : store) (W : list id) (T : list (id * doc)).
  Hypothesis Hclosed : closed s.
  Hypothesis Hall : forall i, lookup i s <> None -> Loads s i.
  Hypothesis HND : NoDup (keys T).
  Hypothesis HW : incl (keys T) W.
  Hypothesis HG : Good s W T.

  Lemma pre_clean : forall x, Loads s x -> Clean s W x -> Loads (apply_tx T s) x.
  Proof.
    induction 1 as [x p refs E _ IH]; intros HC. econstructor.
    - rewrite apply_tx_notin; [exact E|]. intro Hin. apply (Clean_notin _ _ _ HC). apply HW; auto.
    - intros r Hr. apply IH; auto. eapply Clean_ref; eauto.
  Qed.

  Lemma pre_written : forall l1 l2, T = l1 ++ l2 -> forall i, In i (keys l1) -> Loads (apply_tx T s) i.
  Proof.
    induction l1 as [|[i x] l IH] using rev_ind; intros l2 E j Hj; [destruct Hj|].
    unfold keys in Hj. rewrite map_app in Hj. apply in_app_or in Hj.
    rewrite <- app_assoc in E. cbn in E.
    destruct Hj as [Hj|[<-|[]]].
    - apply (IH ((i, x) :: l2)); [exact E|exact Hj].
    - cbn. destruct (HG l i x l2 E) as (p & refs & -> & Hr). econstructor.
      + apply (apply_tx_lookup_in T l i (Full p refs) l2); [exact E|exact HND].
      + intros r Hin. destruct (Hr r Hin) as [H|H].
        * apply (IH ((i, Full p refs) :: l2)); auto.
        * apply pre_clean; auto. apply Hall. apply H.
  Qed.

  Lemma pre_old : forall y, Loads s y -> Loads (apply_tx T s) y.
  Proof.
    induction 1 as [y p refs E _ IH]. destruct (in_dec N.eq_dec y (keys T)) as [Hy|Hy].
    - apply (pre_written T []); [rewrite app_nil_r; auto|auto].
    - econstructor; [rewrite apply_tx_notin; eauto|auto].
  Qed.

  Lemma pre_all : forall i, lookup i (apply_tx T s) <> None -> Loads (apply_tx T s) i.
  Proof.
    intros i Hi. destruct (in_dec N.eq_dec i (keys T)) as [Hy|Hy].
    - apply (pre_written T []); [rewrite app_nil_r; auto|auto].
    - apply pre_old. apply Hall. rewrite apply_tx_notin in Hi; auto.
  Qed.
End Prefix.

Lemma prefix_all_load : forall s c n tx j,
  closed s -> all_load s -> (forall i, has i c = true -> lookup i s <> None) -> consistentb n = true ->
  collect (keys s) c n [] = Ok tx -> no_back_refb s (proj tx) = true ->
  all_load (apply_tx (firstn j (proj tx)) s).
Proof.
  intros s c n tx j Hc Hall Hcache Hcons Hcol Hnb.
  destruct (good_tx s c n tx Hc Hall Hcache Hcons Hcol Hnb) as [ND HG].
  intros i Hi. apply loads_iff_Loads.
  apply (pre_all s (keys (proj tx)) (firstn j (proj tx))); auto.
  - intros y Hy. apply loads_iff_Loads. auto.
  - unfold keys. rewrite <- firstn_map. apply NoDup_firstn. exact ND.
  - intros y Hy. unfold keys in Hy. rewrite <- firstn_map in Hy. eapply In_firstn; eauto.
  - apply Good_firstn. exact HG.
Qed.

(* ------------------------------------------------------------------------------------------------------------ *)
(* H. deleting an entry nothing refers to                                                                         *)

Lemma del_Loads s i :
  (forall j p refs, lookup j s = Some (Full p refs) -> ~ In i refs) ->
  forall y, Loads s y -> y <> i -> Loads (adel i s) y.
Proof.
  intros Hn. induction 1 as [y p refs E _ IH]; intros Hy. econstructor.
  - rewrite lookup_adel. destruct (i =? y) eqn:Ei; [apply N.eqb_eq in Ei; congruence|exact E].
  - intros r Hr. apply IH; auto. intros ->. eapply Hn; eauto.
Qed.

Lemma del_all_load s i :
  all_load s -> (forall j p refs, lookup j s = Some (Full p refs) -> ~ In i refs) -> all_load (adel i s).
Proof.
  intros Hall Hn y Hy. rewrite lookup_adel in Hy. destruct (i =? y) eqn:Ei; [congruence|].
  apply loads_iff_Loads. apply del_Loads; auto.
  - apply loads_iff_Loads. auto.
  - apply N.eqb_neq in Ei. congruence.
Qed.

(* ------------------------------------------------------------------------------------------------------------ *)
(* I. the full-strength crash-safety theorem                                                                      *)

Theorem crash_safe_full : forall v b d c o k,
  safe v b = true -> wf d c -> all_load (view d) -> op_in_scope d o -> guard_C11_cycle d c o = true ->
  all_load (view (run (firstn k (steps_of (plan_of v b d c o))) d)).
Proof.
  intros v b d c o k Hs (s & Hm & Hc & Hcache) Hall Hscope Hg.
  unfold guard_C11_cycle in Hg. unfold plan_of. rewrite (view_main _ _ Hm) in *.
  assert (Hnil : all_load (view (run (firstn k []) d))).
  { rewrite firstn_nil. cbn. rewrite (view_main _ _ Hm). exact Hall. }
  assert (Htx : forall n tx, consistentb n = true -> collect (keys s) c n [] = Ok tx ->
                             no_back_refb s (proj tx) = true ->
                             all_load (view (run (firstn k (tx_steps v b d tx)) d))).
  { intros n tx Hcons Hcol Hnb. destruct (tx_crash v b Hs tx d s k Hm) as (j & s' & Hm' & He & _).
    rewrite (view_main _ _ Hm'). eapply all_load_equiv; [apply equiv_sym; exact He|].
    eapply prefix_all_load; eauto. }
  destruct o as [n|n|i|]; cbn [op_in_scope] in Hscope.
  - destruct n as [i tg p kids|]; [|exact Hnil].
    destruct (lookup i c) as [t|]. { destruct (t =? tg); exact Hnil. }
    destruct (memb i (keys s)); [exact Hnil|].
    destruct (collect (keys s) c (Node i tg p kids) []) as [tx|e] eqn:Ec; [|exact Hnil].
    cbn [steps_of]. eapply Htx; eauto.
  - destruct (collect (keys s) c n []) as [tx|e] eqn:Ec; [|exact Hnil].
    cbn [steps_of]. eapply Htx; eauto.
  - destruct (memb i (keys s)); [|exact Hnil]. cbn [steps_of].
    destruct (del_atomic v b d s i k Hs Hm) as (s' & Hm' & Hor & _). rewrite (view_main _ _ Hm').
    destruct Hor as [E|E]; (eapply all_load_equiv; [apply equiv_sym; exact E|]); [exact Hall|].
    apply del_all_load; auto. rewrite (view_main _ _ Hm) in Hscope. exact Hscope.
  - exact Hnil.
Qed.

Theorem crash_safe_all : forall v b d c o k,
  safe v b = true -> wf d c -> all_load (view d) -> op_in_scope d o -> guard_C11_cycle d c o = true ->
  let steps := steps_of (plan_of v b d c o) in
  let d' := run (firstn k steps) d in
  (main d' <> None /\ all_load (view d')) /\
  (forall i, lookup i (view d') = lookup i (view d) \/ lookup i (view d') = lookup i (view (run steps d))) /\
  (no_publish (firstn k steps) = true -> main d' = main d).
Proof.
  intros v b d c o k Hs Hw Hall Hsc Hg. cbv zeta.
  destruct (crash_safe v b d c o k Hs Hw Hsc) as ((s' & Hm' & _) & Hb & Hc).
  split; [split|split]; auto.
  - rewrite Hm'. discriminate.
  - apply crash_safe_full; auto.
Qed.
