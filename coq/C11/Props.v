(* C11 — property theorems (statements only; proofs live in Proofs.v). *)
From Coq Require Import List NArith Bool.
Require Import QV.C11.Model QV.C11.Proofs.
Import ListNotations.
