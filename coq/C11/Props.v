(* C11 — property theorems (statements only; proofs live in Proofs.v; vocabulary in Spec.v / Model.v). *)
From Coq Require Import List NArith Bool.
Require Import QV.C11.Model QV.C11.Spec QV.C11.Proofs QV.C11.Proofs_load QV.C11.Proofs_kill QV.C11.Guard QV.C11.Proofs_guard QV.C11.Proofs_exact QV.C11.Proofs_tight QV.C11.Repair QV.C11.Proofs_repair QV.C11.Proofs_audit QV.C11.Proofs_bad QV.C11.Proofs_clash QV.C11.Proofs_defect QV.C11.Proofs_accept.
Import ListNotations.
Open Scope N_scope.

(* Crash safety of store / overwrite / delete, for every variant of the code whose backend replaces documents
   atomically, every storage only modified through PulseStorage, every cache content, every in-scope operation and
   every crash position k (k >= number of steps = the completed operation):
     (a) the archive exists, every listed document is complete and every identifier it refers to is listed,
     (b) every identifier holds its old content or the content of the completed operation,
     (c) as long as no publishing primitive ran, the storage is unchanged.
   This version needs no acyclicity guard; (a) is closedness.  Recursive loadability: C11_crash_safe below. *)
Theorem C11_crash_safe_closed : forall v b d c o k,
  safe v b = true -> wf d c -> op_in_scope d o ->
  let steps := steps_of (plan_of v b d c o) in
  let d' := run (firstn k steps) d in
  (exists s', main d' = Some s' /\ closed s') /\
  (forall i, lookup i (view d') = lookup i (view d) \/ lookup i (view d') = lookup i (view (run steps d))) /\
  (no_publish (firstn k steps) = true -> main d' = main d).
Proof. exact crash_safe. Qed.
Print Assumptions C11_crash_safe_closed.

(* the model variant that the correspondence check ties to /repo replaces atomically in all three backends *)
Theorem C11_current_code_safe : forall b, safe current b = true.
Proof. exact current_code_safe. Qed.
Print Assumptions C11_current_code_safe.

(* un-serializable nested object / identifier clash / missing key: no primitive is performed.
   DEFINITIONAL (audit, round 5): `plan` has the shape "PErr | PNoop | PSteps", so this holds by unfolding steps_of; the
   content - the code decides about these errors BEFORE the first backend call - is a property of the SHAPE of the
   model, which is tested against /repo (check_corr: OutErr <-> PErr; check_spec: a rejected operation changes nothing),
   not proved.  Kept under its name for reference; do not count it as a proof of that clause. *)
Theorem C11_error_before_write : forall v b d c o e,
  plan_of v b d c o = PErr e -> steps_of (plan_of v b d c o) = [].
Proof. exact error_before_write. Qed.
Print Assumptions C11_error_before_write.

(* the transaction buffer is duplicate-free and ordered children-before-parents (any backend) *)
Theorem C11_children_before_parents : forall (s : store) (c : cache) n tx,
  (forall i, has i c = true -> In i (keys s)) -> consistentb n = true ->
  collect (keys s) c n [] = Ok tx ->
  NoDup (keys tx) /\ ordered (keys s) (proj tx).
Proof. exact children_before_parents. Qed.
Print Assumptions C11_children_before_parents.

(* why the repairs (repo commit 61710b6) were needed: the pinned snapshot violates the statement *)
Theorem C11_snapshot_fs_refuted :
  exists d c o k, wf d c /\ op_in_scope d o /\
    ~ (exists s', main (run (firstn k (steps_of (plan_of snapshot BFs d c o))) d) = Some s' /\ closed s').
Proof. exact snapshot_fs_unsafe_a. Qed.
Print Assumptions C11_snapshot_fs_refuted.

Theorem C11_snapshot_zip_refuted :
  exists d c o k, wf d c /\ op_in_scope d o /\
    ~ (exists s', main (run (firstn k (steps_of (plan_of snapshot BZip d c o))) d) = Some s' /\ closed s').
Proof. exact snapshot_zip_unsafe_a. Qed.
Print Assumptions C11_snapshot_zip_refuted.

(* known finding dup-id-in-transaction: without guard_C11_dup_id (= op_in_scope for stores) clause (a) fails *)
Theorem C11_dup_id_refuted :
  exists b d c o k, safe current b = true /\ wf d c /\
    ~ (exists s', main (run (firstn k (steps_of (plan_of current b d c o))) d) = Some s' /\ closed s').
Proof. exact dup_id_unsafe_a. Qed.
Print Assumptions C11_dup_id_refuted.

(* known finding overwrite-creates-cycle: closedness does not give loadability; a stale cached object lets a
   completed overwrite build a reference cycle *)
Theorem C11_cycle_refuted :
  exists d c o, wf d c /\ all_load (view d) /\ op_in_scope d o /\
     exists i, lookup i (view (run (steps_of (plan_of current BDict d c o)) d)) <> None /\
               ~ loads (view (run (steps_of (plan_of current BDict d c o)) d)) i.
Proof. exact cycle_unsafe. Qed.
Print Assumptions C11_cycle_refuted.

(* FULL STRENGTH: with both guards (guard_C11_dup_id inside op_in_scope, guard_C11_cycle) every listed identifier
   LOADS (recursively, through a new PulseStorage) after every crash prefix; clauses (b) and (c) as above. *)
Theorem C11_crash_safe : forall v b d c o k,
  safe v b = true -> wf d c -> all_load (view d) -> op_in_scope d o -> guard_C11_cycle d c o = true ->
  let steps := steps_of (plan_of v b d c o) in
  let d' := run (firstn k steps) d in
  (main d' <> None /\ all_load (view d')) /\
  (forall i,lookup i (view d') = lookup i (view d) \/ lookup i (view d') = lookup i (view (run steps d))) /\
  (no_publish (firstn k steps) = true -> main d' = main d).
Proof. exact crash_safe_all. Qed.
Print Assumptions C11_crash_safe.

(* BOTH KINDS OF INTERRUPTION.  `Killed`: the process stops before the k-th primitive and nothing else runs (temporary
   files stay behind);  `Raised`: the k-th primitive raises and the `except BaseException` clean-up of the interrupted
   backend call runs.  In both cases a reader sees a storage in which everything loads, old-or-new content, and no
   change before the first publishing step; after a raise the temporary file of the backend call is gone. *)
Theorem C11_crash_safe_kill_or_raise : forall ck v b d c o k,
  safe v b = true -> wf d c -> all_load (view d) -> op_in_scope d o -> guard_C11_cycle d c o = true ->
  let steps := steps_of (plan_of v b d c o) in
  let d' := after_crash ck b steps k d in
  (main d' <> None /\ all_load (view d')) /\
  (forall i, lookup i (view d') = lookup i (view d) \/ lookup i (view d') = lookup i (view (run steps d))) /\
  (no_publish (firstn k steps) = true -> main d' = main d) /\
  (ck = Raised -> (k < length steps)%nat ->
   match b with BDict => True | BFs => tmpf d' = None | BZip => tmpz d' = None end).
Proof. exact crash_safe_kinds. Qed.
Print Assumptions C11_crash_safe_kill_or_raise.

(* HISTORIES of any length of completed operations, operations interrupted by a raise (the same PulseStorage, with
   its cache as it was, lives on) and operations interrupted by a kill (a new process with an empty cache follows;
   left-over temporary files are in the state): the invariant `wf` and "everything loads" hold at the end, provided
   every operation is in scope and passes guard_C11_cycle in the state it is started in. *)
Theorem C11_history_safe : forall v b l d c,
  safe v b = true -> wf d c -> all_load (view d) -> history_ok v b d c l ->
  wf (fst (run_events v b d c l)) (snd (run_events v b d c l)) /\ all_load (view (fst (run_events v b d c l))).
Proof. exact history_safe. Qed.
Print Assumptions C11_history_safe.

Theorem C11_history_nonvacuous :
  forall b, history_ok current b (disk_of ex_store) ex_cache ex_history /\
            (6 <= length (view (fst (run_events current b (disk_of ex_store) ex_cache ex_history))))%nat.
Proof. exact history_nonvacuous. Qed.
Print Assumptions C11_history_nonvacuous.

(* why ZipFileBackend.put must not append a new entry in place (the code after repo commit 61710b6 = `round1` did;
   repaired by repo commit 09f1282): a process killed between writestr and close leaves no readable archive *)
Theorem C11_zip_append_refuted :
  exists d c o k, wf d c /\ all_load (view d) /\ op_in_scope d o /\ guard_C11_cycle d c o = true /\
    main (after_crash Killed BZip (steps_of (plan_of round1 BZip d c o)) k d) = None.
Proof. exact zip_append_unsafe. Qed.
Print Assumptions C11_zip_append_refuted.

(* the hypotheses (and both guards) are satisfiable by a non-trivial input on every backend *)
Theorem C11_hypotheses_satisfiable :
  forall b, safe current b = true /\ wf (disk_of ex_store) ex_cache /\ op_in_scope (disk_of ex_store) (OOverwrite ex_tmpl)
            /\ (3 <= length (steps_of (plan_of current b (disk_of ex_store) ex_cache (OOverwrite ex_tmpl))))%nat
            /\ guard_C11_cycle (disk_of ex_store) ex_cache (OOverwrite ex_tmpl) = true.
Proof. exact hypotheses_satisfiable. Qed.
Print Assumptions C11_hypotheses_satisfiable.

(* ROUND 3: ONE GUARD ON THE TRANSACTION BUFFER.  guard_C11_tx (Guard.v) looks at the buffer the encoder builds, not at
   the template: its keys are duplicate free and every reference of a buffered document goes to an entry written
   earlier or to an identifier of the old storage from which nothing written is reachable.  Under this guard alone
   (no guard_C11_dup_id, no guard_C11_cycle) the three clauses hold for every crash prefix and both kinds of
   interruption ... *)
Theorem C11_crash_safe_tx : forall ck v b d c o k,
  safe v b = true -> wf d c -> all_load (view d) -> del_in_scope d o -> guard_C11_tx d c o = true ->
  let steps := steps_of (plan_of v b d c o) in
  let d' := after_crash ck b steps k d in
  (main d' <> None /\ all_load (view d')) /\
  (forall i, lookup i (view d') = lookup i (view d) \/ lookup i (view d') = lookup i (view (run steps d))) /\
  (no_publish (firstn k steps) = true -> main d' = main d) /\
  (ck = Raised -> (k < length steps)%nat ->
   match b with BDict => True | BFs => tmpf d' = None | BZip => tmpz d' = None end).
Proof. exact crash_safe_tx_kinds. Qed.
Print Assumptions C11_crash_safe_tx.

(* ... the new guard is implied by the two guards of C11_crash_safe ... *)
Theorem C11_tx_guard_weaker : forall d c o,
  wf d c -> all_load (view d) -> op_in_scope d o -> guard_C11_cycle d c o = true -> guard_C11_tx d c o = true.
Proof. exact guards_imply_tx. Qed.
Print Assumptions C11_tx_guard_weaker.

(* ... and strictly weaker: a template in which two different objects carry one identifier (outside
   guard_C11_dup_id) whose buffer is good, with at least two primitive steps on every backend *)
Theorem C11_tx_guard_strictly_weaker :
  wf (disk_of tx_ex_store) tx_ex_cache /\ all_load (view (disk_of tx_ex_store)) /\
  guard_C11_dup_id tx_ex_tmpl = false /\
  guard_C11_tx (disk_of tx_ex_store) tx_ex_cache (OOverwrite tx_ex_tmpl) = true /\
  forall b, (2 <= length (steps_of (plan_of current b (disk_of tx_ex_store) tx_ex_cache (OOverwrite tx_ex_tmpl))))%nat.
Proof. exact tx_guard_strictly_weaker. Qed.
Print Assumptions C11_tx_guard_strictly_weaker.

(* histories under the buffer guard (same events as C11_history_safe; every operation passes guard_C11_tx in the state
   it starts in, deletions only of entries nothing refers to); the hypothesis of C11_history_safe implies this one *)
Theorem C11_history_safe_tx : forall v b l d c,
  safe v b = true -> wf d c -> all_load (view d) -> history_ok_tx v b d c l ->
  wf (fst (run_events v b d c l)) (snd (run_events v b d c l)) /\ all_load (view (fst (run_events v b d c l))).
Proof. exact history_safe_tx. Qed.
Print Assumptions C11_history_safe_tx.

Theorem C11_history_tx_weaker : forall v b l d c,
  safe v b = true -> wf d c -> all_load (view d) -> history_ok v b d c l -> history_ok_tx v b d c l.
Proof. exact history_ok_weaker. Qed.
Print Assumptions C11_history_tx_weaker.

(* non-vacuity: a history (completion, raise, kill) over the template with the doubly used identifier *)
Theorem C11_history_tx_nonvacuous :
  forall b, history_ok_tx current b (disk_of tx_ex_store) tx_ex_cache tx_ex_history /\
            (4 <= length (view (fst (run_events current b (disk_of tx_ex_store) tx_ex_cache tx_ex_history))))%nat.
Proof. exact tx_history_nonvacuous. Qed.
Print Assumptions C11_history_tx_nonvacuous.

(* guard_C11_cycle IS EXACT inside guard_C11_dup_id: whenever it rejects an overwrite, the COMPLETED overwrite leaves a
   listed identifier that does not load (a reference cycle through the buffered document the guard points at).  So
   the guard excludes exactly the inputs on which the unchanged code violates the property (known finding
   overwrite-creates-cycle), nothing more. *)
Theorem C11_cycle_guard_exact : forall v b d c n,
  safe v b = true -> wf d c -> all_load (view d) -> guard_C11_dup_id n = true ->
  guard_C11_cycle d c (OOverwrite n) = false ->
  ~ all_load (view (run (steps_of (plan_of v b d c (OOverwrite n))) d)).
Proof. exact cycle_guard_exact. Qed.
Print Assumptions C11_cycle_guard_exact.

(* ... hence, inside guard_C11_dup_id, the buffer guard decides the outcome of the completed overwrite *)
Theorem C11_tx_guard_exact_consistent : forall v b d c n,
  safe v b = true -> wf d c -> all_load (view d) -> guard_C11_dup_id n = true ->
  (guard_C11_tx d c (OOverwrite n) = true <->
   all_load (view (run (steps_of (plan_of v b d c (OOverwrite n))) d))).
Proof. exact tx_guard_exact_consistent. Qed.
Print Assumptions C11_tx_guard_exact_consistent.

(* the hypotheses of the exactness theorem are satisfiable (the witness of C11_cycle_refuted) *)
Theorem C11_cycle_guard_exact_nonvacuous :
  wf (disk_of cycle_store) cycle_cache /\ guard_C11_dup_id (Node 3 5 5 [Node 2 2 2 [Node 1 1 1 []]]) = true /\
  guard_C11_cycle (disk_of cycle_store) cycle_cache cycle_op = false /\
  guard_C11_tx (disk_of cycle_store) cycle_cache cycle_op = false.
Proof. exact cycle_guard_exact_nonvacuous. Qed.
Print Assumptions C11_cycle_guard_exact_nonvacuous.

(* the cycle guard never rejects a store of a new identifier (overwrite-creates-cycle needs an overwrite of an
   identifier that is already stored) *)
Theorem C11_store_passes_cycle_guard : forall v b d c n steps c',
  wf d c -> plan_of v b d c (OStore n) = PSteps steps c' -> guard_C11_cycle d c (OStore n) = true.
Proof. exact store_passes_cycle_guard. Qed.
Print Assumptions C11_store_passes_cycle_guard.

(* ROUND 4: THE EXACT GUARD.  guard_C11_exact (Guard.v, executable on the inputs of the operation): the storage is
   completely loadable after every prefix of the buffer the encoder builds.  For every atomic variant of the code, every
   storage only modified through PulseStorage in which everything loads, every cache, every operation (deletion: of
   entries nothing refers to) and BOTH kinds of interruption at every position:
     - clauses (b) old-or-new and (c) nothing-before-the-first-publishing-step hold WITHOUT ANY GUARD (in particular
       outside guard_C11_dup_id and guard_C11_cycle);
     - clause (a) "the archive exists and every listed identifier loads" holds at every interruption point
       IF AND ONLY IF the operation passes guard_C11_exact.
   So the guard excludes exactly the inputs on which the unchanged code violates the property. *)
Theorem C11_crash_safe_exact : forall v b d c o,
  safe v b = true -> wf d c -> all_load (view d) -> del_in_scope d o ->
  let steps := steps_of (plan_of v b d c o) in
  (forall ck k, let d' := after_crash ck b steps k d in
     (forall i, lookup i (view d') = lookup i (view d) \/ lookup i (view d') = lookup i (view (run steps d))) /\
     (no_publish (firstn k steps) = true -> main d' = main d)) /\
  (guard_C11_exact d c o = true <->
   forall ck k, let d' := after_crash ck b steps k d in main d' <> None /\ all_load (view d')).
Proof. exact crash_safe_exact_kinds. Qed.
Print Assumptions C11_crash_safe_exact.

(* the buffer guard of round 3 (hence the two guards of round 2) implies the exact guard ... *)
Theorem C11_exact_guard_weaker : forall v b d c o,
  safe v b = true -> wf d c -> all_load (view d) -> del_in_scope d o ->
  guard_C11_tx d c o = true -> guard_C11_exact d c o = true.
Proof. exact tx_guard_implies_exact. Qed.
Print Assumptions C11_exact_guard_weaker.

(* ... strictly: a template (two objects named 7; the first one and its child 5, which refers to the cached object of
   the root, are replaced in the buffer; 5 stays as an orphan) outside guard_C11_tx on which nothing goes wrong, with at
   least three primitive steps on every backend *)
Theorem C11_exact_guard_strictly_weaker :
  wf (disk_of orphan_store) orphan_cache /\ all_load (view (disk_of orphan_store)) /\
  guard_C11_tx (disk_of orphan_store) orphan_cache (OOverwrite orphan_tmpl) = false /\
  guard_C11_exact (disk_of orphan_store) orphan_cache (OOverwrite orphan_tmpl) = true /\
  forall b, (3 <= length (steps_of (plan_of current b (disk_of orphan_store) orphan_cache (OOverwrite orphan_tmpl))))%nat.
Proof. exact exact_guard_strictly_weaker. Qed.
Print Assumptions C11_exact_guard_strictly_weaker.

(* the exact guard rejects the witnesses of the two known findings (C11_cycle_refuted, C11_dup_id_refuted) *)
Theorem C11_exact_guard_rejects_findings :
  guard_C11_exact (disk_of cycle_store) cycle_cache cycle_op = false /\
  guard_C11_exact (disk_of []) [] (OOverwrite dup_witness) = false.
Proof. exact exact_guard_rejects_both. Qed.
Print Assumptions C11_exact_guard_rejects_findings.

(* histories of completed / raised / killed operations under the exact guard; the hypothesis of C11_history_safe_tx
   implies this one; a history over the orphan template that the round-3 hypothesis rejects *)
Theorem C11_history_safe_exact : forall v b l d c,
  safe v b = true -> wf d c -> all_load (view d) -> history_ok_exact v b d c l ->
  wf (fst (run_events v b d c l)) (snd (run_events v b d c l)) /\ all_load (view (fst (run_events v b d c l))).
Proof. exact history_safe_exact. Qed.
Print Assumptions C11_history_safe_exact.

Theorem C11_history_exact_weaker : forall v b l d c,
  safe v b = true -> wf d c -> all_load (view d) -> history_ok_tx v b d c l -> history_ok_exact v b d c l.
Proof. exact history_ok_tx_exact. Qed.
Print Assumptions C11_history_exact_weaker.

Theorem C11_history_exact_nonvacuous :
  forall b, history_ok_exact current b (disk_of orphan_store) orphan_cache orphan_history /\
            ~ history_ok_tx current b (disk_of orphan_store) orphan_cache orphan_history /\
            (3 <= length (view (fst (run_events current b (disk_of orphan_store) orphan_cache orphan_history))))%nat.
Proof. exact orphan_history_nonvacuous. Qed.
Print Assumptions C11_history_exact_nonvacuous.

(* ROUND 4: THE REPAIR OF KNOWN FINDING dup-id-in-transaction (repo commit a5bca40).  `plan_of2` (Repair.v) is the model of
   PulseStorage.__setitem__ / overwrite as they are NOW (the correspondence check runs against it): the encoder keeps the
   objects of the running transaction (R1: a second object under a registered identifier is rejected, the same object is
   not serialized again) and rejects a replacement that contains the stored object it replaces (R2).  The theorems
   above about `plan_of` describe the code before this repair and are kept to state why it was needed.

   For the repaired code guard_C11_dup_id is GONE: under the cycle guard alone (no hypothesis on the template at all)
   the three clauses hold at every interruption point, for both kinds of interruption. *)
Theorem C11_repaired_crash_safe : forall ck v b d c o k,
  safe v b = true -> wf d c -> all_load (view d) -> del_in_scope d o -> guard2_cycle d c o = true ->
  let steps := steps_of (plan_of2 v b d c o) in
  let d' := after_crash ck b steps k d in
  (main d' <> None /\ all_load (view d')) /\
  (forall i, lookup i (view d') = lookup i (view d) \/ lookup i (view d') = lookup i (view (run steps d))) /\
  (no_publish (firstn k steps) = true -> main d' = main d) /\
  (ck = Raised -> (k < length steps)%nat ->
   match b with BDict => True | BFs => tmpf d' = None | BZip => tmpz d' = None end).
Proof. exact crash_safe2_kinds. Qed.
Print Assumptions C11_repaired_crash_safe.

(* the exact theorem for the repaired code: (b), (c) without any guard; (a) everywhere iff guard2_exact *)
Theorem C11_repaired_crash_safe_exact : forall v b d c o,
  safe v b = true -> wf d c -> all_load (view d) -> del_in_scope d o ->
  let steps := steps_of (plan_of2 v b d c o) in
  (forall ck k, let d' := after_crash ck b steps k d in
     (forall i, lookup i (view d') = lookup i (view d) \/ lookup i (view d') = lookup i (view (run steps d))) /\
     (no_publish (firstn k steps) = true -> main d' = main d)) /\
  (guard2_exact d c o = true <->
   forall ck k, let d' := after_crash ck b steps k d in main d' <> None /\ all_load (view d')).
Proof. exact crash_safe_exact2_kinds. Qed.
Print Assumptions C11_repaired_crash_safe_exact.

Theorem C11_repaired_cycle_guard_suffices : forall v b d c o,
  safe v b = true -> wf d c -> all_load (view d) -> del_in_scope d o ->
  guard2_cycle d c o = true -> guard2_exact d c o = true.
Proof. exact cycle2_implies_exact2. Qed.
Print Assumptions C11_repaired_cycle_guard_suffices.

(* the buffer of the repaired encoder: duplicate free and ordered children before parents, for EVERY template *)
Theorem C11_repaired_children_before_parents : forall (s : store) (c : cache) n st,
  (forall i, has i c = true -> lookup i s <> None) ->
  collect2 (nid_of n) (keys s) c n ([], []) = Ok st ->
  NoDup (keys (fst st)) /\ ordered (keys s) (proj (fst st)).
Proof. exact repaired_children_before_parents. Qed.
Print Assumptions C11_repaired_children_before_parents.

(* what the repair rejects (before any write): the witness of C11_dup_id_refuted and an object nested inside its own
   replacement - the model of the code before the repair performs both and is outside the exact guard there *)
Theorem C11_repair_rejects :
  (forall b, plan_of2 current b (disk_of []) [] (OOverwrite dup_witness) = PErr EClash) /\
  (forall b, plan_of2 current b (disk_of nest_store) nest_cache (OOverwrite nest_tmpl) = PErr EClash) /\
  guard_C11_exact (disk_of []) [] (OOverwrite dup_witness) = false /\
  guard_C11_exact (disk_of nest_store) nest_cache (OOverwrite nest_tmpl) = false.
Proof. exact repair_rejects. Qed.
Print Assumptions C11_repair_rejects.

(* non-vacuity: a sub-template shared three times at two depths under a stored root passes, and the repaired code
   does on it what the code did before *)
Theorem C11_repair_nonvacuous :
  wf (disk_of share_store) share_cache /\ all_load (view (disk_of share_store)) /\
  guard_C11_dup_id share_tmpl = true /\
  guard2_cycle (disk_of share_store) share_cache (OOverwrite share_tmpl) = true /\
  forall b, plan_of2 current b (disk_of share_store) share_cache (OOverwrite share_tmpl)
            = plan_of current b (disk_of share_store) share_cache (OOverwrite share_tmpl) /\
            (3 <= length (steps_of (plan_of2 current b (disk_of share_store) share_cache (OOverwrite share_tmpl))))%nat.
Proof. exact repair_nonvacuous. Qed.
Print Assumptions C11_repair_nonvacuous.

(* histories of the repaired code (completed / raised / killed operations; every operation inside guard2_exact in the
   state it starts in, deletions of entries nothing refers to) keep `wf` and "everything loads" *)
Theorem C11_repaired_history_safe : forall v b l d c,
  safe v b = true -> wf d c -> all_load (view d) -> history_ok2 v b d c l ->
  wf (fst (run_events2 v b d c l)) (snd (run_events2 v b d c l)) /\ all_load (view (fst (run_events2 v b d c l))).
Proof. exact history_safe2. Qed.
Print Assumptions C11_repaired_history_safe.

Theorem C11_repaired_history_nonvacuous :
  forall b, history_ok2 current b (disk_of share_store) share_cache share_history /\
            (4 <= length (view (fst (run_events2 current b (disk_of share_store) share_cache share_history))))%nat.
Proof. exact history2_nonvacuous. Qed.
Print Assumptions C11_repaired_history_nonvacuous.

(* ROUND 5 (audit): CLAUSE (b) IN THE WORDS OF THE SPECIFICATION.  The theorems above say "old content or the content of
   the completed operation"; check_spec (Corr.v) accepts "old content, or the document of a node of the stored template
   that carries this identifier (deletion: the deleted identifier, gone)" = new_content_P.  For the code as it is now,
   every template, every cache, both kinds of interruption at every position, no guard: *)
Theorem C11_repaired_old_or_new_content : forall v b d c o ck k i,
  safe v b = true -> wf d c -> all_load (view d) -> del_in_scope d o ->
  let d' := after_crash ck b (steps_of (plan_of2 v b d c o)) k d in
  lookup i (view d') = lookup i (view d) \/ new_content_P o i (lookup i (view d')).
Proof. exact old_or_new_content. Qed.
Print Assumptions C11_repaired_old_or_new_content.

(* whatever the repaired encoder buffers is the document of a node of the template (any template, any start state) *)
Theorem C11_repaired_buffer_from_template : forall root ks c n st,
  collect2 root ks c n ([], []) = Ok st ->
  forall j tg x, In (j, (tg, x)) (fst st) -> exists m, In m (nodes n) /\ nid_of m = j /\ doc_of m = x.
Proof. exact buffer_from_template. Qed.
Print Assumptions C11_repaired_buffer_from_template.

(* non-vacuity: the root of the shared-sub-template example holds the NEW document after the completed overwrite, the OLD
   one when the first primitive fails, and the two differ *)
Theorem C11_old_or_new_content_nonvacuous :
  forall b, lookup 0 (view (after_crash Raised b (steps_of (plan_of2 current b (disk_of share_store) share_cache (OOverwrite share_tmpl))) 99
                                        (disk_of share_store))) = Some (doc_of share_tmpl) /\
            lookup 0 (view (after_crash Raised b (steps_of (plan_of2 current b (disk_of share_store) share_cache (OOverwrite share_tmpl))) 0
                                        (disk_of share_store))) = lookup 0 share_store /\
            lookup 0 share_store <> Some (doc_of share_tmpl).
Proof. exact old_or_new_content_nonvacuous. Qed.
Print Assumptions C11_old_or_new_content_nonvacuous.

(* the known finding overwrite-creates-cycle, stated for the code AS IT IS NOW (`plan_of2`; C11_cycle_refuted above is
   about the model before the round-4 repair): a storage in which everything loads, an overwrite that is performed on
   every backend, outside guard2_cycle and outside guard2_exact, after whose completion a listed identifier does not load *)
Theorem C11_repaired_cycle_refuted :
  exists d c o, wf d c /\ all_load (view d) /\ del_in_scope d o /\
     guard2_cycle d c o = false /\ guard2_exact d c o = false /\
     (forall b, exists s c', plan_of2 current b d c o = PSteps s c' /\ (1 <= length s)%nat) /\
     exists i, lookup i (view (run (steps_of (plan_of2 current BDict d c o)) d)) <> None /\
               ~ loads (view (run (steps_of (plan_of2 current BDict d c o)) d)) i.
Proof. exact cycle_refuted2. Qed.
Print Assumptions C11_repaired_cycle_refuted.

(* the hypotheses C11_hypotheses_satisfiable does not list (audit): everything loads in the example storage; the example
   passes the buffer guard, the exact guard and the exact guard of the repaired code *)
Theorem C11_hypotheses_satisfiable_loads :
  all_load (view (disk_of ex_store)) /\
  guard_C11_tx (disk_of ex_store) ex_cache (OOverwrite ex_tmpl) = true /\
  guard_C11_exact (disk_of ex_store) ex_cache (OOverwrite ex_tmpl) = true /\
  guard2_exact (disk_of ex_store) ex_cache (OOverwrite ex_tmpl) = true.
Proof. exact hypotheses_satisfiable_loads. Qed.
Print Assumptions C11_hypotheses_satisfiable_loads.

(* ROUND 5: "an un-serializable nested object" AS A THEOREM ABOUT TEMPLATES (C11_error_before_write alone is definitional).
   For the code as it is now, every storage, cache, backend: a template all of whose named nodes are new (identifier
   neither cached nor stored - a cached child is written as a reference, its sub-tree is not looked at) and whose object
   identities are coherent (the same identifier + identity = the same Python object), with an un-serializable object
   ANYWHERE in it, is rejected by store and by overwrite, and the disk is the same disk after every interruption. *)
Theorem C11_unserializable_rejected : forall v b d c T,
  has_bad T = true -> coherentb T = true -> all_newb (keys (view d)) c T = true ->
  (exists e, plan_of2 v b d c (OOverwrite T) = PErr e) /\ (exists e, plan_of2 v b d c (OStore T) = PErr e) /\
  forall ck k, after_crash ck b (steps_of (plan_of2 v b d c (OOverwrite T))) k d = d /\
               after_crash ck b (steps_of (plan_of2 v b d c (OStore T))) k d = d.
Proof. exact unserializable_rejected. Qed.
Print Assumptions C11_unserializable_rejected.

Theorem C11_unserializable_nonvacuous :
  has_bad bad_tmpl = true /\ coherentb bad_tmpl = true /\ all_newb (keys (view (disk_of ex_store))) ex_cache bad_tmpl = true /\
  (4 <= length (nodes bad_tmpl))%nat /\
  forall b, plan_of2 current b (disk_of ex_store) ex_cache (OOverwrite bad_tmpl) = PErr EUnser.
Proof. exact unserializable_nonvacuous. Qed.
Print Assumptions C11_unserializable_nonvacuous.

(* Round 6 — the clause "an identifier clash" as a statement about TEMPLATES (until round 5 only the definition of
   collect2 said which templates clash).  For every storage, cache, backend: a template in which two DIFFERENT objects
   (different identities) carry the same identifier anywhere, whose named nodes below the root are new (the root
   identifier itself may exist: overwrite) and whose identities are coherent (the same identifier + identity = the same
   Python object = the same named objects below it), is rejected by overwrite - with EClash when nothing
   un-serializable is in it - and by store when the root identifier is new as well; the disk is the same disk after
   every interruption.  NOT covered: a clash with a cached / stored child (another object cached under the identifier,
   identifier stored but not cached), the replacement that contains the stored object it replaces (R2): tested only. *)
Theorem C11_clash_rejected : forall v b d c T,
  dup_clashb T = true -> coherent_subb T = true -> new_belowb (keys (view d)) c T = true ->
  (exists e, plan_of2 v b d c (OOverwrite T) = PErr e /\ (has_bad T = false -> e = EClash)) /\
  (in_storage (keys (view d)) c (nid_of T) = false ->
   exists e, plan_of2 v b d c (OStore T) = PErr e /\ (has_bad T = false -> e = EClash)) /\
  forall ck k, after_crash ck b (steps_of (plan_of2 v b d c (OOverwrite T))) k d = d /\
               (in_storage (keys (view d)) c (nid_of T) = false ->
                after_crash ck b (steps_of (plan_of2 v b d c (OStore T))) k d = d).
Proof. exact clash_rejected. Qed.
Print Assumptions C11_clash_rejected.

Theorem C11_clash_nonvacuous :
  dup_clashb (clash_tmpl 0) = true /\ dup_clashb (clash_tmpl 4) = true /\ has_bad (clash_tmpl 0) = false /\
  coherent_subb (clash_tmpl 0) = true /\ coherent_subb (clash_tmpl 4) = true /\
  new_belowb (keys (view (disk_of ex_store))) ex_cache (clash_tmpl 0) = true /\
  new_belowb (keys (view (disk_of ex_store))) ex_cache (clash_tmpl 4) = true /\
  in_storage (keys (view (disk_of ex_store))) ex_cache 0 = true /\
  in_storage (keys (view (disk_of ex_store))) ex_cache 4 = false /\
  (forall b, plan_of2 current b (disk_of ex_store) ex_cache (OOverwrite (clash_tmpl 0)) = PErr EClash) /\
  (forall b, plan_of2 current b (disk_of ex_store) ex_cache (OStore (clash_tmpl 4)) = PErr EClash) /\
  (forall b, exists s c', plan_of2 current b (disk_of ex_store) ex_cache
     (OOverwrite (Node 4 1 1 [Node 5 2 2 [Node 7 4 4 []]; Node 6 3 3 [Node 5 2 2 [Node 7 4 4 []]]])) = PSteps s c'
     /\ s <> []).
Proof. exact clash_nonvacuous. Qed.
Print Assumptions C11_clash_nonvacuous.

(* Round 6 — the clauses "an un-serializable nested object" and "an identifier clash" for EVERY template, storage and
   cache (no "all new" hypothesis; generalises C11_unserializable_rejected to templates with cached children).  The
   encoder descends into a child only when its identifier is not in the storage.  `defect root ks c T`: on a path of
   such new children from the root there is an un-serializable object, or a child whose identifier is in the storage
   while the cache does not hold this very object under it (another object cached under it / stored but not cached),
   or a child that carries the identifier of the transaction root (e.g. the stored object inside its own replacement).
   Then overwrite - and store unless the root object is cached, which makes store a no-op or a clash of its own -
   answer PErr (EClash when nothing un-serializable is in the template) and the disk is the same disk after every
   interruption.  `coherent_defb`: the same identifier + identity (= the same Python object) has the same value of
   `defect`.  The converse (no reachable defect and no duplicate => accepted) is NOT proved.                      *)
Theorem C11_defect_rejected : forall v b d c T,
  defect (nid_of T) (keys (view d)) c T = true -> coherent_defb (nid_of T) (keys (view d)) c T = true ->
  (exists e, plan_of2 v b d c (OOverwrite T) = PErr e /\ (has_bad T = false -> e = EClash)) /\
  (lookup (nid_of T) c = None -> exists e, plan_of2 v b d c (OStore T) = PErr e /\ (has_bad T = false -> e = EClash)) /\
  forall ck k, after_crash ck b (steps_of (plan_of2 v b d c (OOverwrite T))) k d = d /\
               (lookup (nid_of T) c = None -> after_crash ck b (steps_of (plan_of2 v b d c (OStore T))) k d = d).
Proof. exact defect_rejected. Qed.
Print Assumptions C11_defect_rejected.

Theorem C11_defect_nonvacuous :
  let ks := keys (view (disk_of ex_store)) in
  (forall T, In T [def_bad; def_stale; def_other; def_self] ->
     defect (nid_of T) ks ex_cache T = true /\ coherent_defb (nid_of T) ks ex_cache T = true) /\
  (forall b, plan_of2 current b (disk_of ex_store) ex_cache (OOverwrite def_bad) = PErr EUnser) /\
  (forall b, plan_of2 current b (disk_of ex_store) ex_cache (OStore def_stale) = PErr EClash) /\
  (forall b, plan_of2 current b (disk_of ex_store) ex_cache (OOverwrite def_other) = PErr EClash) /\
  (forall b, plan_of2 current b (disk_of ex_store) ex_cache (OOverwrite def_self) = PErr EClash) /\
  defect 4 ks ex_cache def_none = false /\
  (forall b, exists s c', plan_of2 current b (disk_of ex_store) ex_cache (OOverwrite def_none) = PSteps s c' /\ s <> []).
Proof. exact defect_nonvacuous. Qed.
Print Assumptions C11_defect_nonvacuous.

(* Round 6 — the converse: a template without reachable defect, in which no identifier names two different objects
   (`dup_clashb` false) and no named object carries the identifier of one of its ancestors (`no_nestb`; with the
   previous condition that would be an object inside itself), is ACCEPTED: overwrite - and store when the root
   identifier is new - answer a plan with steps, for every storage content and cache.  No coherence hypothesis. *)
Theorem C11_clean_accepted : forall v b d c T,
  defect (nid_of T) (keys (view d)) c T = false -> dup_clashb T = false -> no_nestb T = true ->
  (exists s c', plan_of2 v b d c (OOverwrite T) = PSteps s c') /\
  (in_storage (keys (view d)) c (nid_of T) = false -> exists s c', plan_of2 v b d c (OStore T) = PSteps s c').
Proof. exact clean_accepted. Qed.
Print Assumptions C11_clean_accepted.

(* WHICH templates are rejected before anything is written (the clauses "un-serializable nested object" and "identifier
   clash" of the statement, model side): for templates whose named nodes below the root are new, with coherent
   identities and no object inside itself, IF AND ONLY IF a defect is reachable or one identifier names two objects.
   (With cached / stored children below the root only the two implications C11_defect_rejected / C11_clean_accepted
   are proved: a duplicate below a cached child is never looked at.) *)
Theorem C11_rejected_iff : forall v b d c T,
  coherent_subb T = true -> coherent_defb (nid_of T) (keys (view d)) c T = true ->
  new_belowb (keys (view d)) c T = true -> no_nestb T = true ->
  ((exists e, plan_of2 v b d c (OOverwrite T) = PErr e) <->
   defect (nid_of T) (keys (view d)) c T = true \/ dup_clashb T = true) /\
  ((exists s c', plan_of2 v b d c (OOverwrite T) = PSteps s c') <->
   defect (nid_of T) (keys (view d)) c T = false /\ dup_clashb T = false).
Proof. exact rejected_iff. Qed.
Print Assumptions C11_rejected_iff.

Theorem C11_accepted_nonvacuous :
  let ks := keys (view (disk_of ex_store)) in
  let sh := Node 4 1 1 [Node 5 2 2 [Node 7 4 4 []]; Node 6 3 3 [Node 5 2 2 [Node 7 4 4 []]]] in
  defect 4 ks ex_cache def_none = false /\ dup_clashb def_none = false /\ no_nestb def_none = true /\
  defect 4 ks ex_cache sh = false /\ dup_clashb sh = false /\ no_nestb sh = true /\
  (forall b, exists s c', plan_of2 current b (disk_of ex_store) ex_cache (OOverwrite sh) = PSteps s c' /\ s <> []) /\
  defect 4 ks ex_cache def_stale = true /\ dup_clashb (clash_tmpl 4) = true /\
  defect 4 ks ex_cache (clash_tmpl 4) = false /\ no_nestb (clash_tmpl 4) = true.
Proof. exact accepted_nonvacuous. Qed.
Print Assumptions C11_accepted_nonvacuous.
