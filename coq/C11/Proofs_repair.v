(* C11 — round 4: the repaired encoder (Repair.v).  The buffer it builds is ALWAYS duplicate free, ordered children
   before parents and free of references to the transaction root; so guard_C11_dup_id is not needed any more and the
   cycle guard alone gives the three clauses.  The exact theorem holds for it as well.                           *)
From Coq Require Import List NArith Bool Arith Lia.
Require Import QV.C11.Model QV.C11.Spec QV.C11.Proofs QV.C11.Proofs_load QV.C11.Proofs_kill QV.C11.Guard
               QV.C11.Proofs_guard QV.C11.Proofs_tight QV.C11.Repair.
Import ListNotations.
Open Scope N_scope.

Lemma walk2_cons rec ks c k r st :
  walk_kids2 rec ks c (k :: r) st =
  match k with
  | Bad => Err EUnser
  | Node ci ctg _ _ =>
      if negb (in_storage ks c ci) then
        match rec k st with Ok st' => walk_kids2 rec ks c r st' | Err e => Err e end
      else match lookup ci c with
           | Some t => if t =? ctg then walk_kids2 rec ks c r st else Err EClash
           | None => Err EClash
           end
  end.
Proof. reflexivity. Qed.

Lemma collect2_node root ks c i tg p kids st :
  collect2 root ks c (Node i tg p kids) st =
  match lookup i (snd st) with
  | Some t => if (t =? tg) && has i (fst st) then Ok st else Err EClash
  | None =>
      match walk_kids2 (collect2 root ks c) ks c kids (fst st, (i, tg) :: snd st) with
      | Ok st' => if memb root (kid_ids kids) then Err EClash
                  else Ok (aset i (tg, doc_of (Node i tg p kids)) (fst st'), snd st')
      | Err e => Err e
      end
  end.
Proof. reflexivity. Qed.

Lemma has_cons {A} j i (v : A) l : has j ((i, v) :: l) = (j =? i) || has j l.
Proof. reflexivity. Qed.

Lemma has_In {A} j (l : list (id * A)) : has j l = true <-> In j (keys l).
Proof. unfold has. apply memb_In. Qed.

Lemma lookup_None_has {A} j (l : list (id * A)) : lookup j l = None -> has j l = false.
Proof.
  intros H. destruct (has j l) eqn:E; [|reflexivity]. apply has_lookup in E. contradiction.
Qed.

Section Collect2.
  Variables (root : id) (ks : list id) (c : cache).
  Hypothesis Hcache : forall i, has i c = true -> In i ks.

  Definition Inv2 (st : tstate) : Prop :=
    NoDup (keys (fst st)) /\ ordered ks (proj (fst st)) /\
    (forall j, In j (keys (fst st)) -> has j (snd st) = true) /\
    (forall j, In j (keys (fst st)) -> j = root \/ ~ In j ks) /\
    (forall j tg p refs, In (j, (tg, Full p refs)) (fst st) -> ~ In root refs).

  Definition Post2 (st st' : tstate) : Prop :=
    Inv2 st' /\ incl (keys (fst st)) (keys (fst st')) /\
    (forall j, has j (snd st) = true -> has j (snd st') = true) /\
    (forall j, In j (keys (fst st')) -> In j (keys (fst st)) \/ has j (snd st) = false).

  Definition P2 (n : tmpl) : Prop :=
    forall st st', (nid_of n = root \/ ~ In (nid_of n) ks) -> Inv2 st ->
      collect2 root ks c n st = Ok st' -> Post2 st st' /\ In (nid_of n) (keys (fst st')).

  Lemma Post2_refl st : Inv2 st -> Post2 st st.
  Proof. intros H. split; [exact H|]. split; [apply incl_refl|]. split; auto. Qed.

  Lemma Post2_trans a b d : Post2 a b -> Post2 b d -> Post2 a d.
  Proof.
    intros (_ & S1 & M1 & N1) (I2 & S2 & M2 & N2). split; [exact I2|]. split; [eapply incl_tran; eauto|].
    split; [auto|]. intros j Hj. destruct (N2 j Hj) as [H|H]; [auto|]. right.
    destruct (has j (snd a)) eqn:E; [|reflexivity]. rewrite (M1 j E) in H. discriminate.
  Qed.

  Lemma walk2_inv : forall l, Forall P2 l -> forall st st', Inv2 st ->
    walk_kids2 (collect2 root ks c) ks c l st = Ok st' ->
    Post2 st st' /\
    (forall ci ctg cp ck, In (Node ci ctg cp ck) l -> In ci ks \/ In ci (keys (fst st'))).
  Proof.
    induction 1 as [|k r Hk Hr IH]; intros st st' Hinv Hw.
    - cbn in Hw. injection Hw as <-. split; [apply Post2_refl; auto|]. intros ? ? ? ? [].
    - rewrite walk2_cons in Hw. destruct k as [ci ctg cp ck|]; [|discriminate].
      destruct (negb (in_storage ks c ci)) eqn:Est.
      + destruct (collect2 root ks c (Node ci ctg cp ck) st) as [st1|] eqn:Ec; [|discriminate].
        assert (Hpre : nid_of (Node ci ctg cp ck) = root \/ ~ In (nid_of (Node ci ctg cp ck)) ks).
        { right. cbn. apply negb_true_iff in Est. unfold in_storage in Est. apply orb_false_iff in Est.
          destruct Est as [_ Hm]. intros Hin. apply memb_In in Hin. congruence. }
        destruct (Hk st st1 Hpre Hinv Ec) as (Hp1 & K1).
        destruct (IH st1 st' (proj1 Hp1) Hw) as (Hp2 & K2).
        split; [eapply Post2_trans; eauto|].
        intros ci' ctg' cp' ck' [E|Hin']; [|eauto].
        injection E as <- <- <- <-. right. destruct Hp2 as (_ & S2 & _). apply S2. exact K1.
      + assert (Hks : In ci ks).
        { apply negb_false_iff in Est. unfold in_storage in Est. apply orb_true_iff in Est.
          destruct Est as [H|H]; [auto|apply memb_In; auto]. }
        assert (Hw' : walk_kids2 (collect2 root ks c) ks c r st = Ok st').
        { destruct (lookup ci c); [|discriminate]. destruct (n =? ctg); [auto|discriminate]. }
        destruct (IH st st' Hinv Hw') as (Hp2 & K2). split; [exact Hp2|].
        intros ci' ctg' cp' ck' [E|Hin']; [|eauto].
        injection E as <- <- <- <-. left; auto.
  Qed.

  Lemma collect2_inv : forall n, P2 n.
  Proof.
    induction n as [|i tg p kids HF] using tmpl_ind'; intros st st' Hpre Hinv Hcol.
    - discriminate.
    - rewrite collect2_node in Hcol. cbn [nid_of] in *.
      destruct (lookup i (snd st)) as [t|] eqn:El.
      + destruct ((t =? tg) && has i (fst st)) eqn:E; [|discriminate]. injection Hcol as <-.
        split; [apply Post2_refl; auto|]. apply andb_true_iff in E. apply has_In. apply E.
      + set (st1 := (fst st, (i, tg) :: snd st)) in *.
        destruct (walk_kids2 (collect2 root ks c) ks c kids st1) as [st2|] eqn:Ew; [|discriminate].
        destruct (memb root (kid_ids kids)) eqn:Eroot; [discriminate|]. injection Hcol as <-.
        destruct Hinv as (ND & OR & REG & KS & NR).
        assert (Hinv1 : Inv2 st1).
        { split; [exact ND|]. split; [exact OR|]. split; [|split; [exact KS|exact NR]].
          intros j Hj. cbn [snd st1]. rewrite has_cons, (REG j Hj). apply orb_true_r. }
        destruct (walk2_inv kids HF st1 st2 Hinv1 Ew) as ((I2 & S2 & M2 & N2) & K2).
        destruct I2 as (ND2 & OR2 & REG2 & KS2 & NR2).
        assert (Hreg : has i (snd st) = false) by (apply lookup_None_has; exact El).
        assert (Hi2 : ~ In i (keys (fst st2))).
        { intros Hin. destruct (N2 i Hin) as [H|H].
          - cbn [fst st1] in H. rewrite (REG i H) in Hreg. discriminate.
          - cbn [snd st1] in H. rewrite has_cons, N.eqb_refl in H. discriminate. }
        set (n := Node i tg p kids).
        assert (Hdoc : doc_of n = Full p (kid_ids kids)) by reflexivity.
        unfold Post2, Inv2. cbn [fst snd]. split; [split; [|split; [|split]]|].
        * split; [apply NoDup_keys_aset; exact ND2|]. split; [|split; [|split]].
          -- rewrite aset_notin by exact Hi2. unfold proj. rewrite map_app. cbn [map fst snd].
             change (doc_of n) with (Full p (kid_ids kids)). apply ordered_snoc; [exact OR2|].
             intros r Hr. unfold kid_ids in Hr. apply in_flat_map in Hr. destruct Hr as (k & Hk & Hrk).
             destruct k as [ci ctg cp ck|]; [|destruct Hrk].
             destruct Hrk as [<-|[]]. rewrite keys_proj. eauto.
          -- intros j Hj. apply keys_aset_inv in Hj. destruct Hj as [->|Hj]; [|auto].
             apply M2. cbn [snd st1]. rewrite has_cons, N.eqb_refl. reflexivity.
          -- intros j Hj. apply keys_aset_inv in Hj. destruct Hj as [->|Hj]; [exact Hpre|auto].
          -- intros j tg0 p0 refs Hin. apply in_aset in Hin. destruct Hin as [E|Hin]; [|eauto].
             change (doc_of n) with (Full p (kid_ids kids)) in E. injection E as _ _ _ ->. intros Hr. apply memb_In in Hr. unfold kid_ids in *. rewrite Hr in Eroot. discriminate.
        * intros j Hj. apply (proj1 (keys_aset_incl i (tg, doc_of n) (fst st2))). apply S2. exact Hj.
        * intros j Hj. apply M2. cbn [snd st1]. rewrite has_cons, Hj. apply orb_true_r.
        * intros j Hj. apply keys_aset_inv in Hj. destruct Hj as [->|Hj]; [right; exact Hreg|].
          destruct (N2 j Hj) as [H|H]; [left; exact H|right].
          cbn [snd st1] in H. rewrite has_cons in H. apply orb_false_iff in H. apply H.
        * apply (proj2 (keys_aset_incl i (tg, doc_of n) (fst st2))).
  Qed.
End Collect2.

Lemma Inv2_nil root ks : Inv2 root ks ([], []).
Proof.
  split; [constructor|]. split; [apply ordered_nil|]. split; [intros ? []|]. split; [intros ? []|].
  intros ? ? ? ? [].
Qed.

Lemma collect2_top (s : store) c n st :
  (forall i, has i c = true -> lookup i s <> None) ->
  collect2 (nid_of n) (keys s) c n ([], []) = Ok st -> Inv2 (nid_of n) (keys s) st.
Proof.
  intros Hcache Hcol.
  destruct (collect2_inv (nid_of n) (keys s) c) with (n := n) (st := (@nil (id * (N * doc)), @nil (id * N))) (st' := st)
    as ((I & _) & _); auto.
  - intros i Hi. apply lookup_keys_in. auto.
  - apply Inv2_nil.
Qed.

(* the cycle guard alone makes the buffer of the repaired encoder good *)
Lemma good_tx2 (s : store) c n st :
  all_load s -> (forall i, has i c = true -> lookup i s <> None) ->
  collect2 (nid_of n) (keys s) c n ([], []) = Ok st -> no_back_refb s (proj (fst st)) = true ->
  good_txb s (proj (fst st)) = true.
Proof.
  intros Hall Hcache Hcol Hnb. destruct (collect2_top s c n st Hcache Hcol) as (ND & OR & _ & KS & NR).
  apply Good_good_txb; [rewrite keys_proj; exact ND|].
  intros l1 i x l2 E. destruct (OR l1 i x l2 E) as (p & refs & -> & Hr).
  exists p, refs. split; [reflexivity|]. intros r Hin.
  destruct (Hr r Hin) as [Hks|Hl1]; [|left; exact Hl1]. right.
  assert (Hent : In (i, Full p refs) (proj (fst st))) by (rewrite E; apply in_or_app; right; left; reflexivity).
  unfold no_back_refb in Hnb. rewrite forallb_forall in Hnb. specialize (Hnb _ Hent). cbn in Hnb.
  rewrite forallb_forall in Hnb. specialize (Hnb r Hin). apply orb_true_iff in Hnb.
  destruct Hnb as [Hmem|Hno].
  - (* r is stored and written: it is the root, and no buffered document refers to the root *)
    exfalso. apply memb_In in Hmem. rewrite keys_proj in Hmem.
    destruct (KS r Hmem) as [Hroot|Hn]; [|contradiction].
    unfold proj in Hent. apply in_map_iff in Hent. destruct Hent as ([i0 [tg0 x0]] & E0 & Hin0).
    cbn in E0. injection E0 as -> ->. apply (NR i tg0 p refs Hin0). rewrite <- Hroot. exact Hin.
  - split.
    + intros Hn. apply lookup_None_keys in Hn. contradiction.
    + intros w Hw R. rewrite forallb_forall in Hno. specialize (Hno w Hw). apply negb_true_iff in Hno.
      rewrite reachb_complete_len in Hno; [discriminate| |exact R].
      apply Hall. intros Hn. apply lookup_None_keys in Hn. contradiction.
Qed.

Definition clauses (steps : list prim) (d : disk) (k : nat) : Prop :=
  let d' := run (firstn k steps) d in
  (main d' <> None /\ all_load (view d')) /\
  (forall i, lookup i (view d') = lookup i (view d) \/ lookup i (view d') = lookup i (view (run steps d))) /\
  (no_publish (firstn k steps) = true -> main d' = main d).

(* REPAIRED CODE: the three clauses under the cycle guard alone - no guard_C11_dup_id *)
Theorem crash_safe2 : forall v b d c o k,
  safe v b = true -> wf d c -> all_load (view d) -> del_in_scope d o -> guard2_cycle d c o = true ->
  clauses (steps_of (plan_of2 v b d c o)) d k.
Proof.
  intros v b d c o k Hs Hw Hall Hscope Hg. pose proof Hw as (s & Hm & Hc & Hcache).
  pose proof Hall as Hall0. rewrite (view_main _ _ Hm) in Hall0.
  assert (Hnil : clauses [] d k) by exact (nil_clauses d s k Hm Hall0).
  assert (Hfl : forall n, match flushed2 d c (OOverwrite n) with
                          | Some tx => no_back_refb (view d) (proj tx) = true | None => True end ->
                          clauses (steps_of (flush2 v b d c n)) d k).
  { intros n. unfold flushed2, flush2. rewrite (view_main _ _ Hm).
    destruct (collect2 (nid_of n) (keys s) c n ([], [])) as [st|e] eqn:Ec; [|intros _; exact Hnil].
    intros Hnb. cbn [steps_of]. apply (tx_clauses v b d s (fst st) k Hs Hm Hc Hall0).
    eapply good_tx2; eauto. }
  unfold guard2_cycle in Hg.
  destruct o as [n|n|i|].
  - unfold plan_of2. destruct n as [i tg p kids|]; [|exact Hnil].
    unfold flushed2 in Hg, Hfl. rewrite (view_main _ _ Hm) in *.
    destruct (lookup i c) as [t|]. { destruct (t =? tg); exact Hnil. }
    destruct (memb i (keys s)); [exact Hnil|].
    apply Hfl. destruct (collect2 _ _ _ _ _); [exact Hg|exact I].
  - unfold plan_of2. apply Hfl. destruct (flushed2 d c (OOverwrite n)); [exact Hg|exact I].
  - exact (crash_safe_tx v b d c (ODelete i) k Hs Hw Hall Hscope eq_refl).
  - exact (crash_safe_tx v b d c OClear k Hs Hw Hall Hscope eq_refl).
Qed.

Theorem crash_safe2_kinds : forall ck v b d c o k,
  safe v b = true -> wf d c -> all_load (view d) -> del_in_scope d o -> guard2_cycle d c o = true ->
  let steps := steps_of (plan_of2 v b d c o) in
  let d' := after_crash ck b steps k d in
  (main d' <> None /\ all_load (view d')) /\
  (forall i, lookup i (view d') = lookup i (view d) \/ lookup i (view d') = lookup i (view (run steps d))) /\
  (no_publish (firstn k steps) = true -> main d' = main d) /\
  (ck = Raised -> (k < length steps)%nat ->
   match b with BDict => True | BFs => tmpf d' = None | BZip => tmpz d' = None end).
Proof.
  intros ck v b d c o k Hs Hw Hall Hsc Hg. cbv zeta.
  rewrite after_crash_main, after_crash_view.
  destruct (crash_safe2 v b d c o k Hs Hw Hall Hsc Hg) as (Ha & Hb & Hc).
  split; [exact Ha|]. split; [exact Hb|]. split; [exact Hc|].
  intros -> Hk. apply raised_no_leftover. exact Hk.
Qed.

(* REPAIRED CODE: the exact theorem *)
Theorem crash_safe_exact2 : forall v b d c o,
  safe v b = true -> wf d c -> all_load (view d) -> del_in_scope d o ->
  let steps := steps_of (plan_of2 v b d c o) in
  (forall k, clause_bc steps d k) /\
  (guard2_exact d c o = true <-> forall k, clause_a steps d k).
Proof.
  intros v b d c o Hs Hw Hall Hscope. pose proof Hw as (s & Hm & Hc & Hcache).
  pose proof Hall as Hall0. rewrite (view_main _ _ Hm) in Hall0.
  pose proof (nil_exact d s Hm Hall0) as Hnil. cbv zeta.
  assert (Hfl : forall n,
    (forall k, clause_bc (steps_of (flush2 v b d c n)) d k) /\
    (match flushed2 d c (OOverwrite n) with Some tx => prefixes_loadb (view d) (proj tx) | None => true end = true
     <-> forall k, clause_a (steps_of (flush2 v b d c n)) d k)).
  { intros n. unfold flushed2, flush2. rewrite (view_main _ _ Hm).
    destruct (collect2 (nid_of n) (keys s) c n ([], [])) as [st|e] eqn:Ec; [|exact Hnil].
    cbn [steps_of]. apply tx_exact; auto.
    destruct (collect2_top s c n st Hcache Ec) as (ND & _). exact ND. }
  unfold guard2_exact.
  destruct o as [n|n|i|].
  - unfold plan_of2. destruct n as [i tg p kids|]; [|exact Hnil].
    specialize (Hfl (Node i tg p kids)). unfold flushed2 in *. rewrite (view_main _ _ Hm) in *.
    destruct (lookup i c) as [t|]. { destruct (t =? tg); exact Hnil. }
    destruct (memb i (keys s)); [exact Hnil|]. exact Hfl.
  - unfold plan_of2. exact (Hfl n).
  - apply clauses_split. intros k. exact (crash_safe_tx v b d c (ODelete i) k Hs Hw Hall Hscope eq_refl).
  - apply clauses_split. intros k. exact (crash_safe_tx v b d c OClear k Hs Hw Hall Hscope eq_refl).
Qed.

Theorem crash_safe_exact2_kinds : forall v b d c o,
  safe v b = true -> wf d c -> all_load (view d) -> del_in_scope d o ->
  let steps := steps_of (plan_of2 v b d c o) in
  (forall ck k, let d' := after_crash ck b steps k d in
     (forall i, lookup i (view d') = lookup i (view d) \/ lookup i (view d') = lookup i (view (run steps d))) /\
     (no_publish (firstn k steps) = true -> main d' = main d)) /\
  (guard2_exact d c o = true <->
   forall ck k, let d' := after_crash ck b steps k d in main d' <> None /\ all_load (view d')).
Proof.
  intros v b d c o Hs Hw Hall Hscope. cbv zeta.
  destruct (crash_safe_exact2 v b d c o Hs Hw Hall Hscope) as [Hbc Hiff]. cbv zeta in Hbc, Hiff. split.
  - intros ck k. rewrite after_crash_main, after_crash_view. exact (Hbc k).
  - rewrite Hiff. split.
    + intros H ck k. rewrite after_crash_main, after_crash_view. exact (H k).
    + intros H k. specialize (H Killed k). rewrite after_crash_main, after_crash_view in H. exact H.
Qed.

(* the cycle guard implies the exact guard for the repaired code *)
Theorem cycle2_implies_exact2 : forall v b d c o,
  safe v b = true -> wf d c -> all_load (view d) -> del_in_scope d o ->
  guard2_cycle d c o = true -> guard2_exact d c o = true.
Proof.
  intros v b d c o Hs Hw Hall Hscope Hg.
  apply (crash_safe_exact2 v b d c o Hs Hw Hall Hscope). intros k.
  destruct (crash_safe2 v b d c o k Hs Hw Hall Hscope Hg) as (Ha & _). exact Ha.
Qed.

(* what the repair rejects: the witness of C11_dup_id_refuted, and an object nested inside its own replacement; the
   unrepaired model performed both and left a listed identifier that does not load *)
Theorem repair_rejects :
  (forall b, plan_of2 current b (disk_of []) [] (OOverwrite dup_witness) = PErr EClash) /\
  (forall b, plan_of2 current b (disk_of nest_store) nest_cache (OOverwrite nest_tmpl) = PErr EClash) /\
  guard_C11_exact (disk_of []) [] (OOverwrite dup_witness) = false /\
  guard_C11_exact (disk_of nest_store) nest_cache (OOverwrite nest_tmpl) = false.
Proof. repeat split; intros; reflexivity. Qed.

(* non-vacuity: a template with a sub-template that is referenced three times at two depths, on a stored root *)
Definition share_store : store := [(0, Full 9 [1]); (1, Full 1 [])].
Definition share_cache : cache := [(0, 9); (1, 1)].
Definition share_tmpl : tmpl :=
  Node 0 2 2 [Node 6 3 3 [Node 5 4 4 [Node 1 1 1 []]]; Node 5 4 4 [Node 1 1 1 []]; Node 6 3 3 [Node 5 4 4 [Node 1 1 1 []]]].

Theorem repair_nonvacuous :
  wf (disk_of share_store) share_cache /\ all_load (view (disk_of share_store)) /\
  guard_C11_dup_id share_tmpl = true /\
  guard2_cycle (disk_of share_store) share_cache (OOverwrite share_tmpl) = true /\
  forall b, plan_of2 current b (disk_of share_store) share_cache (OOverwrite share_tmpl)
            = plan_of current b (disk_of share_store) share_cache (OOverwrite share_tmpl) /\
            (3 <= length (steps_of (plan_of2 current b (disk_of share_store) share_cache (OOverwrite share_tmpl))))%nat.
Proof.
  split; [apply wf_of_closedb with (s := share_store); reflexivity|].
  split; [apply all_loadb_spec; reflexivity|]. split; [reflexivity|]. split; [reflexivity|].
  intros []; split; try reflexivity; cbn; lia.
Qed.

(* ---- histories of the repaired code ---- *)
Definition event_state2 (v : variant) (b : backend) (d : disk) (c : cache) (e : event) : disk * cache :=
  match e with
  | EvDone o => match plan_of2 v b d c o with
                | PErr _ => (d, c)
                | PNoop c' => (d, c')
                | PSteps s c' => (run s d, c')
                end
  | EvRaise o k => (after_crash Raised b (steps_of (plan_of2 v b d c o)) k d, c)
  | EvKill o k => (after_crash Killed b (steps_of (plan_of2 v b d c o)) k d, [])
  end.

Definition event_ok2 (v : variant) (b : backend) (d : disk) (c : cache) (e : event) : Prop :=
  del_in_scope d (event_op e) /\ guard2_exact d c (event_op e) = true /\
  match e with
  | EvRaise o k => (k < length (steps_of (plan_of2 v b d c o)))%nat
  | _ => True
  end.

Fixpoint history_ok2 (v : variant) (b : backend) (d : disk) (c : cache) (l : list event) : Prop :=
  match l with
  | [] => True
  | e :: r => event_ok2 v b d c e /\
              history_ok2 v b (fst (event_state2 v b d c e)) (snd (event_state2 v b d c e)) r
  end.

Fixpoint run_events2 (v : variant) (b : backend) (d : disk) (c : cache) (l : list event) : disk * cache :=
  match l with
  | [] => (d, c)
  | e :: r => run_events2 v b (fst (event_state2 v b d c e)) (snd (event_state2 v b d c e)) r
  end.

(* plan_of2 is a rejection, a no-op that keeps the cache, the flush of some buffer, or what plan_of does *)
Lemma plan_of2_shape v b d c o :
  (exists e, plan_of2 v b d c o = PErr e) \/ plan_of2 v b d c o = PNoop c \/
  (exists tx, plan_of2 v b d c o = PSteps (tx_steps v b d tx) (cache_update tx c)) \/
  ((exists i, o = ODelete i) \/ o = OClear) /\ plan_of2 v b d c o = plan_of v b d c o.
Proof.
  assert (Hfl : forall n, (exists e, flush2 v b d c n = PErr e) \/
                          (exists tx, flush2 v b d c n = PSteps (tx_steps v b d tx) (cache_update tx c))).
  { intros n. unfold flush2. destruct (collect2 _ _ _ _ _) as [st|e]; [right|left]; eauto. }
  destruct o as [n|n|i|]; cbn [plan_of2].
  - destruct n as [i tg p kids|]; [|left; eauto].
    destruct (lookup i c) as [t|]. { destruct (t =? tg); [right; left; reflexivity|left; eauto]. }
    destruct (memb i (keys (view d))); [left; eauto|].
    destruct (Hfl (Node i tg p kids)) as [H|H]; [left; exact H|right; right; left; exact H].
  - destruct (Hfl n) as [H|H]; [left; exact H|right; right; left; exact H].
  - right. right. right. split; [left; eauto|reflexivity].
  - right. right. right. split; [right; reflexivity|reflexivity].
Qed.

Lemma exact_clause_a2 v b d c o k :
  safe v b = true -> wf d c -> all_load (view d) -> del_in_scope d o -> guard2_exact d c o = true ->
  let d' := run (firstn k (steps_of (plan_of2 v b d c o))) d in main d' <> None /\ all_load (view d').
Proof.
  intros Hs Hw Hall Hsc Hg. destruct (crash_safe_exact2 v b d c o Hs Hw Hall Hsc) as [_ Hiff].
  cbv zeta in Hiff. exact (proj1 Hiff Hg k).
Qed.

Lemma raise_keeps_cache2 v b d c o k s :
  safe v b = true -> main d = Some s ->
  (k < length (steps_of (plan_of2 v b d c o)))%nat ->
  forall i, lookup i s <> None -> lookup i (view (run (firstn k (steps_of (plan_of2 v b d c o))) d)) <> None.
Proof.
  intros Hs Hm Hk i Hi.
  destruct (plan_of2_shape v b d c o) as [(e & E)|[E|[(tx & E)|(_ & E)]]]; rewrite E in Hk |- *.
  - cbn in Hk. lia.
  - cbn in Hk. lia.
  - cbn [steps_of]. destruct (tx_crash v b Hs tx d s k Hm) as (j & s' & Hm' & He & _).
    rewrite (view_main _ _ Hm'), (He i). apply firstn_keeps. exact Hi.
  - exact (raise_keeps_cache_tx v b d c o k s Hs Hm Hk i Hi).
Qed.

Lemma done_wf2 v b d c o s' :
  safe v b = true -> wf d c ->
  main (run (steps_of (plan_of2 v b d c o)) d) = Some s' -> closed s' ->
  wf (fst (event_state2 v b d c (EvDone o))) (snd (event_state2 v b d c (EvDone o))).
Proof.
  intros Hs Hw Hm' Hc'. pose proof Hw as (s & Hm & Hc & Hcache). cbn [event_state2].
  destruct (plan_of2_shape v b d c o) as [(e & E)|[E|[(tx & E)|(_ & E)]]]; rewrite E in Hm' |- *.
  - exact Hw.
  - exact Hw.
  - cbn [steps_of fst snd] in *. exists s'. split; auto. split; auto. intros i Hi.
    destruct (tx_crash v b Hs tx d s (length (tx_steps v b d tx)) Hm) as (j & s2 & Hm2 & _ & Hf).
    rewrite firstn_all in Hm2. rewrite Hm2 in Hm'. injection Hm' as ->. rewrite (Hf (le_n _) i).
    apply apply_tx_keeps. apply has_cache_update in Hi. destruct Hi as [Hi|Hi]; [left; auto|right].
    rewrite keys_proj. exact Hi.
  - exact (done_wf_tx v b d c o s' Hs Hw Hm' Hc').
Qed.

Lemma event_invariant2 v b d c e :
  safe v b = true -> wf d c -> all_load (view d) -> event_ok2 v b d c e ->
  wf (fst (event_state2 v b d c e)) (snd (event_state2 v b d c e)) /\
  all_load (view (fst (event_state2 v b d c e))).
Proof.
  intros Hs Hw Hall (Hsc & Hg & Hk). destruct e as [o|o k|o k]; cbn [event_op] in *.
  - pose proof (exact_clause_a2 v b d c o (length (steps_of (plan_of2 v b d c o))) Hs Hw Hall Hsc Hg) as H.
    cbv zeta in H. rewrite firstn_all in H. destruct H as (Hmn & Hal).
    destruct (main_some _ Hmn) as (s' & Hm').
    assert (Hc' : closed s'). { apply all_load_closed. rewrite <- (view_main _ _ Hm'). exact Hal. }
    split; [eapply done_wf2; eauto|].
    cbn [event_state2]. destruct (plan_of2 v b d c o); cbn in *; auto.
  - cbn [event_state2 fst snd]. rewrite after_crash_view.
    destruct (exact_clause_a2 v b d c o k Hs Hw Hall Hsc Hg) as (Hmn & Hal).
    split; [|exact Hal]. destruct (main_some _ Hmn) as (s' & Hm').
    exists s'. split; [rewrite after_crash_main; exact Hm'|]. split.
    { apply all_load_closed. rewrite <- (view_main _ _ Hm'). exact Hal. }
    intros i Hi. destruct Hw as (s & Hm & _ & Hcache).
    pose proof (raise_keeps_cache2 v b d c o k s Hs Hm Hk i (Hcache i Hi)) as H.
    rewrite (view_main _ _ Hm') in H. exact H.
  - cbn [event_state2 fst snd]. rewrite after_crash_view.
    destruct (exact_clause_a2 v b d c o k Hs Hw Hall Hsc Hg) as (Hmn & Hal).
    split; [|exact Hal]. destruct (main_some _ Hmn) as (s' & Hm').
    exists s'. split; [rewrite after_crash_main; exact Hm'|]. split.
    { apply all_load_closed. rewrite <- (view_main _ _ Hm'). exact Hal. }
    intros i H. discriminate.
Qed.

Theorem history_safe2 : forall v b l d c,
  safe v b = true -> wf d c -> all_load (view d) -> history_ok2 v b d c l ->
  wf (fst (run_events2 v b d c l)) (snd (run_events2 v b d c l)) /\ all_load (view (fst (run_events2 v b d c l))).
Proof.
  intros v b. induction l as [|e r IH]; intros d c Hs Hw Hall Hok; [cbn; auto|].
  destruct Hok as [He Hr]. destruct (event_invariant2 v b d c e Hs Hw Hall He) as [Hw' Hall'].
  cbn [run_events2]. apply IH; auto.
Qed.

(* completed, raised, killed - over the template with the shared sub-template; then the witness of the old finding is
   REJECTED inside the history (an event that does nothing) *)
Definition share_history : list event :=
  [EvDone (OOverwrite share_tmpl); EvRaise (OOverwrite (Node 6 10 10 [Node 7 11 11 []])) 1;
   EvDone (OOverwrite (Node 8 12 12 [Node 9 13 13 []; Node 9 14 14 [Node 10 15 15 []]]));
   EvKill (OStore (Node 11 7 7 [Node 12 8 8 []])) 2].

Lemma history2_nonvacuous :
  forall b, history_ok2 current b (disk_of share_store) share_cache share_history /\
            (4 <= length (view (fst (run_events2 current b (disk_of share_store) share_cache share_history))))%nat.
Proof.
  intros b. split.
  - destruct b; vm_compute; repeat split; auto; lia.
  - destruct b; vm_compute; lia.
Qed.
