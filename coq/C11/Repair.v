(* C11 — round 4: PulseStorage.overwrite after the repair of known finding dup-id-in-transaction (definitions only).

   The code keeps, per transaction, the objects that are being / were serialized (`_transaction_objects`:
   identifier -> object) and the identifier the transaction was started for (`_transaction_root`):
     R1  overwrite(i, o): another object is registered under i -> RuntimeError; the same object and its entry is in
         the buffer already -> return; otherwise register, encode, buffer;
     R2  after encoding: the encoder met a named object with the identifier of the transaction root -> RuntimeError
         (only the STORED object that is being replaced can be met under that identifier: R1 excludes a new one).
   `reg` = the registry.  An object that is registered but not buffered yet is an ancestor being serialized; the same
   object cannot be met inside itself (templates are immutable trees), the model answers EClash there.            *)
From Coq Require Import List NArith Bool.
Require Import QV.C11.Model QV.C11.Spec QV.C11.Guard.
Import ListNotations.
Open Scope N_scope.

Definition kid_ids (kids : list tmpl) : list id :=
  flat_map (fun k => match k with Node i _ _ _ => [i] | Bad => [] end) kids.

Definition tstate := (txbuf * cache)%type.      (* (_transaction_storage, _transaction_objects) *)

Definition walk_kids2 (rec : tmpl -> tstate -> res tstate) (ks : list id) (c : cache)
  : list tmpl -> tstate -> res tstate :=
  fix go (l : list tmpl) (st : tstate) {struct l} : res tstate :=
  match l with
  | [] => Ok st
  | k :: r =>
      match k with
      | Bad => Err EUnser
      | Node ci ctg _ _ =>
          if negb (in_storage ks c ci) then
            match rec k st with
            | Ok st' => go r st'
            | Err e => Err e
            end
          else
            match lookup ci c with
            | Some t => if t =? ctg then go r st else Err EClash
            | None => Err EClash
            end
      end
  end.

Fixpoint collect2 (root : id) (ks : list id) (c : cache) (n : tmpl) (st : tstate) {struct n} : res tstate :=
  match n with
  | Bad => Err EUnser
  | Node i tg p kids =>
      match lookup i (snd st) with
      | Some t => if (t =? tg) && has i (fst st) then Ok st else Err EClash
      | None =>
          match walk_kids2 (collect2 root ks c) ks c kids (fst st, (i, tg) :: snd st) with
          | Ok st' => if memb root (kid_ids kids) then Err EClash
                      else Ok (aset i (tg, doc_of n) (fst st'), snd st')
          | Err e => Err e
          end
      end
  end.

Definition flush2 (v : variant) (b : backend) (d : disk) (c : cache) (n : tmpl) : plan :=
  match collect2 (nid_of n) (keys (view d)) c n ([], []) with
  | Ok st => PSteps (tx_steps v b d (fst st)) (cache_update (fst st) c)
  | Err e => PErr e
  end.

Definition plan_of2 (v : variant) (b : backend) (d : disk) (c : cache) (o : op) : plan :=
  match o with
  | OOverwrite n => flush2 v b d c n
  | OStore n =>
      match n with
      | Bad => PErr EUnser
      | Node i tg _ _ =>
          match lookup i c with
          | Some t => if t =? tg then PNoop c else PErr EClash
          | None => if memb i (keys (view d)) then PErr EClash else flush2 v b d c n
          end
      end
  | _ => plan_of v b d c o
  end.

Fixpoint run_ops2 (v : variant) (b : backend) (d : disk) (c : cache) (l : list op) : disk * cache :=
  match l with
  | [] => (d, c)
  | o :: r =>
      match plan_of2 v b d c o with
      | PErr _ => run_ops2 v b d c r
      | PNoop c' => run_ops2 v b d c' r
      | PSteps s c' => run_ops2 v b (run s d) c' r
      end
  end.

(* the buffer the repaired operation flushes, and the guards on it *)
Definition flushed2 (d : disk) (c : cache) (o : op) : option txbuf :=
  let ks := keys (view d) in
  let buf n := match collect2 (nid_of n) ks c n ([], []) with Ok st => Some (fst st) | Err _ => None end in
  match o with
  | OOverwrite n => buf n
  | OStore n =>
      match n with
      | Bad => None
      | Node i _ _ _ =>
          match lookup i c with
          | Some _ => None
          | None => if memb i ks then None else buf n
          end
      end
  | _ => None
  end.

Definition guard2_exact (d : disk) (c : cache) (o : op) : bool :=
  match flushed2 d c o with Some tx => prefixes_loadb (view d) (proj tx) | None => true end.

(* guard_C11_cycle for the repaired code: the ONLY guard that is left *)
Definition guard2_cycle (d : disk) (c : cache) (o : op) : bool :=
  match flushed2 d c o with Some tx => no_back_refb (view d) (proj tx) | None => true end.

(* root nested inside its own replacement (was accepted: the new document of 0 referred to itself through 5) *)
Definition nest_store : store := [(0, Full 9 [])].
Definition nest_cache : cache := [(0, 9)].
Definition nest_tmpl : tmpl := Node 0 1 1 [Node 5 3 3 [Node 0 9 9 []]].
