(* C11 — round 5: WHEN the repaired encoder rejects a template with an un-serializable nested object.  For every
   template all of whose named nodes are new (identifier neither cached nor stored) and whose object identities are
   coherent (the same (identifier, identity) = the same Python object = the same sub-tree, as far as "contains an
   un-serializable object" goes), on every storage, cache, backend: if an un-serializable object occurs ANYWHERE in
   it, the operation is rejected (PErr) - hence performs no primitive (C11_error_before_write).                    *)
From Coq Require Import List NArith Bool Arith Lia.
Require Import QV.C11.Model QV.C11.Spec QV.C11.Proofs QV.C11.Proofs_load QV.C11.Proofs_kill QV.C11.Guard
               QV.C11.Proofs_guard QV.C11.Proofs_tight QV.C11.Repair QV.C11.Proofs_repair.
Import ListNotations.
Open Scope N_scope.

Fixpoint has_bad (n : tmpl) : bool :=
  match n with
  | Bad => true
  | Node _ _ _ kids => existsb has_bad kids
  end.
Definition tag_of (n : tmpl) : N := match n with Node _ tg _ _ => tg | Bad => 0 end.

Definition coherentb (n : tmpl) : bool :=
  forallb (fun a => forallb (fun b => negb ((nid_of a =? nid_of b) && (tag_of a =? tag_of b))
                                      || Bool.eqb (has_bad a) (has_bad b)) (nodes n)) (nodes n).
Definition all_newb (ks : list id) (c : cache) (n : tmpl) : bool :=
  forallb (fun m => negb (in_storage ks c (nid_of m))) (nodes n).

Lemma self_in_nodes i tg p kids : In (Node i tg p kids) (nodes (Node i tg p kids)).
Proof. cbn. left. reflexivity. Qed.

Lemma kid_nodes_incl i tg p kids k : In k kids -> incl (nodes k) (nodes (Node i tg p kids)).
Proof. intros Hk m Hm. cbn [nodes]. right. apply in_flat_map. exists k. split; assumption. Qed.

Section BadRejected.
  Variables (root : id) (ks : list id) (c : cache) (T : tmpl).
  Hypothesis Hcoh : forall a b, In a (nodes T) -> In b (nodes T) ->
    nid_of a = nid_of b -> tag_of a = tag_of b -> has_bad a = has_bad b.
  Hypothesis Hnew : forall m, In m (nodes T) -> in_storage ks c (nid_of m) = false.

  Definition G (st : tstate) : Prop :=
    forall m, In m (nodes T) -> lookup (nid_of m) (snd st) = Some (tag_of m) -> In (nid_of m) (keys (fst st)) ->
              has_bad m = false.
  Definition Reg (st : tstate) : Prop := forall j, In j (keys (fst st)) -> lookup j (snd st) <> None.
  Definition Stable (st st' : tstate) : Prop :=
    (forall j t, lookup j (snd st) = Some t -> lookup j (snd st') = Some t) /\ incl (keys (fst st)) (keys (fst st')).

  Definition PB (n : tmpl) : Prop :=
    incl (nodes n) (nodes T) -> forall st st', G st -> Reg st -> collect2 root ks c n st = Ok st' ->
      has_bad n = false /\ G st' /\ Reg st' /\ Stable st st'.

  Lemma Stable_refl st : Stable st st.
  Proof. split; [auto|apply incl_refl]. Qed.
  Lemma Stable_trans a b d : Stable a b -> Stable b d -> Stable a d.
  Proof. intros (L1 & I1) (L2 & I2). split; [auto|eapply incl_tran; eauto]. Qed.

  Lemma walkB : forall l, Forall PB l -> (forall k, In k l -> incl (nodes k) (nodes T)) ->
    forall st st', G st -> Reg st -> walk_kids2 (collect2 root ks c) ks c l st = Ok st' ->
      (forall k, In k l -> has_bad k = false) /\ G st' /\ Reg st' /\ Stable st st'.
  Proof.
    induction 1 as [|k r Hk Hr IH]; intros Hin st st' HG HR Hw.
    - cbn in Hw. injection Hw as <-. split; [intros ? []|]. split; [exact HG|]. split; [exact HR|apply Stable_refl].
    - rewrite walk2_cons in Hw. destruct k as [ci ctg cp ck|]; [|discriminate].
      assert (Hkin : incl (nodes (Node ci ctg cp ck)) (nodes T)) by (apply Hin; left; reflexivity).
      assert (Hn : in_storage ks c ci = false).
      { apply (Hnew (Node ci ctg cp ck)). apply Hkin. apply self_in_nodes. }
      rewrite Hn in Hw. cbn [negb] in Hw.
      destruct (collect2 root ks c (Node ci ctg cp ck) st) as [st1|] eqn:Ec; [|discriminate].
      destruct (Hk Hkin st st1 HG HR Ec) as (B1 & G1 & R1 & S1).
      destruct (IH (fun k Hk' => Hin k (or_intror Hk')) st1 st' G1 R1 Hw) as (B2 & G2 & R2 & S2).
      split; [|split; [exact G2|split; [exact R2|eapply Stable_trans; eauto]]].
      intros k [<-|Hk']; [exact B1|exact (B2 k Hk')].
  Qed.

  Lemma collectB : forall n, PB n.
  Proof.
    induction n as [|i tg p kids HF] using tmpl_ind'; intros Hincl st st' HG HR Hcol.
    - discriminate.
    - set (n := Node i tg p kids) in *.
      assert (HnT : In n (nodes T)) by (apply Hincl; apply self_in_nodes).
      unfold n in Hcol. rewrite collect2_node in Hcol.
      destruct (lookup i (snd st)) as [t|] eqn:El.
      + destruct ((t =? tg) && has i (fst st)) eqn:E; [|discriminate]. injection Hcol as <-.
        apply andb_true_iff in E. destruct E as [Et Eh]. apply N.eqb_eq in Et. subst t.
        split; [|split; [exact HG|split; [exact HR|apply Stable_refl]]].
        apply (HG n HnT); [exact El|apply has_In; exact Eh].
      + set (st1 := (fst st, (i, tg) :: snd st)) in *.
        destruct (walk_kids2 (collect2 root ks c) ks c kids st1) as [st2|] eqn:Ew; [|discriminate].
        destruct (memb root (kid_ids kids)); [discriminate|]. injection Hcol as <-.
        assert (G1 : G st1).
        { intros m Hm Hl Hk. cbn [fst snd st1] in Hl, Hk. cbn [lookup] in Hl.
          destruct (i =? nid_of m) eqn:E; [|exact (HG m Hm Hl Hk)].
          apply N.eqb_eq in E. exfalso. apply (HR _ Hk). rewrite <- E. exact El. }
        assert (R1 : Reg st1).
        { intros j Hj. cbn [fst snd st1] in *. cbn [lookup]. destruct (i =? j); [discriminate|exact (HR j Hj)]. }
        destruct (walkB kids HF (fun k Hk => incl_tran (kid_nodes_incl i tg p kids k Hk) Hincl) st1 st2 G1 R1 Ew)
          as (B2 & G2 & R2 & (L2 & I2)).
        assert (Hbn : has_bad n = false).
        { cbn [has_bad n]. destruct (existsb has_bad kids) eqn:E; [|reflexivity].
          apply existsb_exists in E. destruct E as (k & Hk & Hb). rewrite (B2 k Hk) in Hb. discriminate. }
        assert (Hi2 : lookup i (snd st2) = Some tg).
        { apply L2. cbn [snd st1 lookup]. rewrite N.eqb_refl. reflexivity. }
        split; [exact Hbn|]. cbn [fst snd]. split; [|split; [|split]].
        * intros m Hm Hl Hk. cbn [fst snd] in Hl, Hk. apply keys_aset_inv in Hk. destruct Hk as [E|Hk]; [|exact (G2 m Hm Hl Hk)].
          rewrite E, Hi2 in Hl. injection Hl as Ht. rewrite (Hcoh m n Hm HnT E (eq_sym Ht)). exact Hbn.
        * intros j Hj. cbn [fst snd] in *. apply keys_aset_inv in Hj. destruct Hj as [->|Hj]; [rewrite Hi2; discriminate|exact (R2 j Hj)].
        * intros j t Hl. apply L2. cbn [snd st1 lookup]. destruct (i =? j) eqn:E; [|exact Hl].
          apply N.eqb_eq in E. subst j. rewrite El in Hl. discriminate.
        * cbn [fst]. eapply incl_tran; [exact I2|]. apply (proj1 (keys_aset_incl i (tg, doc_of (Node i tg p kids)) (fst st2))).
  Qed.

  Lemma bad_collect2_err : has_bad T = true -> exists e, collect2 root ks c T ([], []) = Err e.
  Proof.
    intros Hb. destruct (collect2 root ks c T ([], [])) as [st|e] eqn:Ec; [|exists e; reflexivity].
    destruct (collectB T (incl_refl _) ([], []) st) as (H & _); [intros ? ? ? []|intros ? []|exact Ec|].
    rewrite H in Hb. discriminate.
  Qed.
End BadRejected.

Lemma coherentb_spec T : coherentb T = true ->
  forall a b, In a (nodes T) -> In b (nodes T) -> nid_of a = nid_of b -> tag_of a = tag_of b -> has_bad a = has_bad b.
Proof.
  intros H a b Ha Hb Ei Et. unfold coherentb in H. rewrite forallb_forall in H. specialize (H a Ha).
  rewrite forallb_forall in H. specialize (H b Hb). rewrite Ei, Et, !N.eqb_refl in H. cbn in H.
  apply eqb_prop in H. exact H.
Qed.

Lemma all_newb_spec ks c T : all_newb ks c T = true -> forall m, In m (nodes T) -> in_storage ks c (nid_of m) = false.
Proof.
  intros H m Hm. unfold all_newb in H. rewrite forallb_forall in H. specialize (H m Hm). apply negb_true_iff in H. exact H.
Qed.

Lemma lookup_None_has_inv {A} i (l : list (id * A)) : has i l = false -> lookup i l = None.
Proof.
  intros H. destruct (lookup i l) eqn:E; [|reflexivity].
  assert (has i l = true) by (apply has_lookup; congruence). congruence.
Qed.

(* the statement: rejected, and therefore nothing is done at all *)
Theorem unserializable_rejected : forall v b d c T,
  has_bad T = true -> coherentb T = true -> all_newb (keys (view d)) c T = true ->
  (exists e, plan_of2 v b d c (OOverwrite T) = PErr e) /\ (exists e, plan_of2 v b d c (OStore T) = PErr e) /\
  forall ck k, after_crash ck b (steps_of (plan_of2 v b d c (OOverwrite T))) k d = d /\
               after_crash ck b (steps_of (plan_of2 v b d c (OStore T))) k d = d.
Proof.
  intros v b d c T Hb Hc Hn.
  destruct (bad_collect2_err (nid_of T) (keys (view d)) c T (coherentb_spec T Hc) (all_newb_spec _ _ T Hn) Hb) as (e & He).
  assert (H1 : plan_of2 v b d c (OOverwrite T) = PErr e).
  { unfold plan_of2, flush2. rewrite He. reflexivity. }
  assert (H2 : exists e', plan_of2 v b d c (OStore T) = PErr e').
  { destruct T as [i tg p kids|]; [|exists EUnser; reflexivity].
    pose proof (all_newb_spec _ _ _ Hn (Node i tg p kids) (self_in_nodes i tg p kids)) as Hi. cbn [nid_of] in Hi.
    unfold in_storage in Hi. apply orb_false_iff in Hi. destruct Hi as [Hc1 Hk1].
    exists e. unfold plan_of2. rewrite (lookup_None_has_inv i c Hc1), Hk1. unfold flush2. rewrite He. reflexivity. }
  split; [exists e; exact H1|]. split; [exact H2|].
  intros ck k. rewrite H1. destruct H2 as (e' & H2). rewrite H2. cbn [steps_of].
  unfold after_crash. rewrite firstn_nil. cbn. destruct ck; split; reflexivity.
Qed.

(* non-vacuity: a three-level template on the example storage with the un-serializable object at depth 3, behind a
   serializable sibling; coherent, all new *)
Definition bad_tmpl : tmpl := Node 4 1 1 [Node 5 2 2 []; Node 6 3 3 [Node 7 4 4 []; Node 8 5 5 [Bad]]].
Lemma unserializable_nonvacuous :
  has_bad bad_tmpl = true /\ coherentb bad_tmpl = true /\ all_newb (keys (view (disk_of ex_store))) ex_cache bad_tmpl = true /\
  (4 <= length (nodes bad_tmpl))%nat /\
  forall b, plan_of2 current b (disk_of ex_store) ex_cache (OOverwrite bad_tmpl) = PErr EUnser.
Proof. repeat split; try reflexivity. cbn; lia. Qed.
