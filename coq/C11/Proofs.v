(* C11 — proofs about the step model (Model.v).  Everything is phrased through `lookup`, so that the order of
   entries in a directory / archive / dict is irrelevant.                                                       *)
From Coq Require Import List NArith Bool Lia Arith.
Require Import QV.C11.Model.
Import ListNotations.
Open Scope N_scope.

(* ------------------------------------------------------------------------------------------------------------ *)
(* association lists                                                                                              *)

Lemma lookup_aset {A} (i j : id) (v : A) l :
  lookup j (aset i v l) = if i =? j then Some v else lookup j l.
Proof.
  induction l as [|[k w] r IH]; cbn.
  - destruct (i =? j); reflexivity.
  - destruct (k =? i) eqn:E; cbn.
    + apply N.eqb_eq in E; subst k. destruct (i =? j); reflexivity.
    + rewrite IH. destruct (k =? j) eqn:E2; [|reflexivity].
      apply N.eqb_eq in E2; subst k. rewrite N.eqb_sym, E. reflexivity.
Qed.

Lemma lookup_adel {A} (i j : id) (l : list (id * A)) :
  lookup j (adel i l) = if i =? j then None else lookup j l.
Proof.
  induction l as [|[k w] r IH]; cbn.
  - destruct (i =? j); reflexivity.
  - destruct (k =? i) eqn:E; cbn.
    + apply N.eqb_eq in E; subst k. rewrite IH. destruct (i =? j); reflexivity.
    + rewrite IH. destruct (k =? j) eqn:E2; [|reflexivity].
      apply N.eqb_eq in E2; subst k. rewrite N.eqb_sym, E. reflexivity.
Qed.

Lemma lookup_app {A} (j : id) (a b : list (id * A)) :
  lookup j (a ++ b) = match lookup j a with Some v => Some v | None => lookup j b end.
Proof.
  induction a as [|[k w] r IH]; cbn; [reflexivity|]. destruct (k =? j); auto.
Qed.

Lemma memb_In i l : memb i l = true <-> In i l.
Proof.
  unfold memb. rewrite existsb_exists. split.
  - intros [x [H E]]. apply N.eqb_eq in E. subst; auto.
  - intros H. exists i. split; auto. apply N.eqb_refl.
Qed.

Lemma lookup_None_keys {A} i (l : list (id * A)) : lookup i l = None <-> ~ In i (keys l).
Proof.
  induction l as [|[k w] r IH]; cbn; [tauto|].
  destruct (k =? i) eqn:E.
  - apply N.eqb_eq in E. subst. split; [discriminate|]. intros H; exfalso; apply H; auto.
  - apply N.eqb_neq in E. rewrite IH. tauto.
Qed.

Lemma has_lookup {A} i (l : list (id * A)) : has i l = true <-> lookup i l <> None.
Proof.
  unfold has. rewrite memb_In. destruct (lookup i l) eqn:E.
  - split; [discriminate|]. intros _.
    destruct (in_dec N.eq_dec i (keys l)) as [H|H]; auto.
    apply lookup_None_keys in H. congruence.
  - apply lookup_None_keys in E. split; [tauto|congruence].
Qed.

Lemma lookup_In {A} i (v : A) l : lookup i l = Some v -> In (i, v) l.
Proof.
  induction l as [|[k w] r IH]; cbn; [discriminate|].
  destruct (k =? i) eqn:E.
  - apply N.eqb_eq in E. intros [= ->]. subst; auto.
  - auto.
Qed.

Lemma aset_notin {A} i (v : A) l : ~ In i (keys l) -> aset i v l = l ++ [(i, v)].
Proof.
  induction l as [|[k w] r IH]; cbn; intros H; [reflexivity|].
  destruct (k =? i) eqn:E.
  - apply N.eqb_eq in E. exfalso; apply H; auto.
  - f_equal. apply IH. tauto.
Qed.

Lemma keys_aset_in {A} i (v : A) l : In i (keys l) -> keys (aset i v l) = keys l.
Proof.
  induction l as [|[k w] r IH]; cbn; intros H; [tauto|].
  destruct (k =? i) eqn:E; cbn.
  - apply N.eqb_eq in E. subst; reflexivity.
  - f_equal. apply IH. apply N.eqb_neq in E. destruct H as [H|H]; [cbn in H; congruence|auto].
Qed.

Lemma keys_aset_incl {A} i (v : A) l : incl (keys l) (keys (aset i v l)) /\ In i (keys (aset i v l)).
Proof.
  destruct (in_dec N.eq_dec i (keys l)) as [H|H].
  - rewrite keys_aset_in by auto. split; auto. apply incl_refl.
  - rewrite aset_notin by auto. unfold keys. rewrite map_app. cbn. split.
    + apply incl_appl, incl_refl.
    + apply in_or_app; right; cbn; auto.
Qed.

Lemma NoDup_snoc {A} (l : list A) x : NoDup l -> ~ In x l -> NoDup (l ++ [x]).
Proof.
  induction l as [|a r IH]; cbn; intros H Hx.
  - constructor; auto.
  - inversion H; subst. constructor.
    + intros Hin. apply in_app_or in Hin. destruct Hin as [Hin|[Hin|[]]]; [auto|]. subst. apply Hx; auto.
    + apply IH; auto.
Qed.

Lemma NoDup_keys_aset {A} i (v : A) l : NoDup (keys l) -> NoDup (keys (aset i v l)).
Proof.
  intros H. destruct (in_dec N.eq_dec i (keys l)) as [Hi|Hi].
  - rewrite keys_aset_in; auto.
  - rewrite aset_notin by auto. unfold keys. rewrite map_app. cbn.
    apply NoDup_snoc; auto.
Qed.

(* ------------------------------------------------------------------------------------------------------------ *)
(* closedness                                                                                                     *)
Require Import QV.C11.Spec.

Lemma equiv_refl s : equiv s s. Proof. intro; reflexivity. Qed.
Lemma equiv_sym a b : equiv a b -> equiv b a. Proof. intros H j; symmetry; apply H. Qed.
Lemma equiv_trans a b c : equiv a b -> equiv b c -> equiv a c.
Proof. intros H1 H2 j. rewrite H1. apply H2. Qed.

Lemma closed_equiv a b : equiv a b -> closed a -> closed b.
Proof.
  intros E H i x Hi. rewrite <- E in Hi. destruct (H i x Hi) as (p & refs & -> & Hr).
  exists p, refs. split; auto. intros r Hin. rewrite <- E. auto.
Qed.

Lemma closed_aset s i p refs :
  closed s -> (forall r, In r refs -> r = i \/ lookup r s <> None) -> closed (aset i (Full p refs) s).
Proof.
  intros H Hr j x Hj. rewrite lookup_aset in Hj. destruct (i =? j) eqn:E.
  - injection Hj as <-. exists p, refs. split; auto. intros r Hin. rewrite lookup_aset.
    destruct (i =? r) eqn:E2; [discriminate|]. destruct (Hr r Hin) as [->|]; auto.
    rewrite N.eqb_refl in E2; discriminate.
  - destruct (H j x Hj) as (q & rs & -> & Hq). exists q, rs. split; auto. intros r Hin.
    rewrite lookup_aset. destruct (i =? r); [discriminate|auto].
Qed.

Lemma closed_adel s i :
  closed s -> (forall j p refs, lookup j s = Some (Full p refs) -> ~ In i refs) -> closed (adel i s).
Proof.
  intros H Hn j x Hj. rewrite lookup_adel in Hj. destruct (i =? j) eqn:E; [discriminate|].
  destruct (H j x Hj) as (q & rs & -> & Hq). exists q, rs. split; auto. intros r Hin.
  rewrite lookup_adel. destruct (i =? r) eqn:E2; auto.
  apply N.eqb_eq in E2; subst r. exfalso. eapply Hn; eauto.
Qed.

Lemma apply_tx_equiv l : forall a b, equiv a b -> equiv (apply_tx l a) (apply_tx l b).
Proof.
  induction l as [|[i x] r IH]; cbn; intros a b E; auto.
  apply IH. intro j. rewrite !lookup_aset. destruct (i =? j); auto.
Qed.

Lemma apply_tx_notin l : forall s i, ~ In i (keys l) -> lookup i (apply_tx l s) = lookup i s.
Proof.
  induction l as [|[k x] r IH]; cbn; intros s i H; auto.
  rewrite IH by tauto. rewrite lookup_aset. destruct (k =? i) eqn:E; auto.
  apply N.eqb_eq in E. exfalso; apply H; auto.
Qed.

(* ------------------------------------------------------------------------------------------------------------ *)
(* the backends replace atomically                                                                                *)

Lemma run_app a b d : run (a ++ b) d = run b (run a d).
Proof. unfold run. apply fold_left_app. Qed.

Ltac eqv i s :=
  let j := fresh "j" in
  intro j; repeat (rewrite ?lookup_app, ?lookup_adel, ?lookup_aset); cbn;
  destruct (i =? j) eqn:?; cbn; try reflexivity; destruct (lookup j s); reflexivity.

Lemma put_atomic v b d s i x k :
  safe v b = true -> main d = Some s ->
  exists s', main (run (firstn k (put_steps v b d i x)) d) = Some s'
             /\ (equiv s' s \/ equiv s' (aset i x s))
             /\ ((length (put_steps v b d i x) <= k)%nat -> equiv s' (aset i x s)).
Proof.
  intros Hs Hm. destruct d as [m tf tz pd]; cbn in Hm; subst m.
  destruct b; cbn in Hs; unfold put_steps; try rewrite Hs.
  - destruct k as [|k]; cbn; rewrite ?firstn_nil; cbn; eexists; (split; [reflexivity|]); split.
    + left; apply equiv_refl. + intros; lia. + right; apply equiv_refl. + intros; apply equiv_refl.
  - destruct k as [|[|[|k]]]; cbn; rewrite ?firstn_nil; cbn; eexists; (split; [reflexivity|]); split;
      try (left; apply equiv_refl); try (intros; lia); try (right; apply equiv_refl); try (intros; apply equiv_refl).
  - apply andb_true_iff in Hs. destruct Hs as [Hs1 Hs2]. apply negb_true_iff in Hs2. rewrite Hs1, Hs2.
    unfold view; cbn [main negb]. rewrite orb_true_r.
    destruct k as [|[|[|[|k]]]]; cbn; rewrite ?firstn_nil; cbn; eexists; (split; [reflexivity|]); split;
      try (left; apply equiv_refl); try (intros; lia); try (right; eqv i s); try (intros; eqv i s).
Qed.

Lemma del_atomic v b d s i k :
  safe v b = true -> main d = Some s ->
  exists s', main (run (firstn k (del_steps v b d i)) d) = Some s'
             /\ (equiv s' s \/ equiv s' (adel i s))
             /\ ((length (del_steps v b d i) <= k)%nat -> equiv s' (adel i s)).
Proof.
  intros Hs Hm. destruct d as [m tf tz pd]; cbn in Hm; subst m.
  destruct b; cbn in Hs; unfold del_steps; try rewrite Hs.
  - destruct k as [|k]; cbn; rewrite ?firstn_nil; cbn; eexists; (split; [reflexivity|]); split;
      try (left; apply equiv_refl); try (intros; lia); try (right; apply equiv_refl); try (intros; apply equiv_refl).
  - destruct k as [|k]; cbn; rewrite ?firstn_nil; cbn; eexists; (split; [reflexivity|]); split;
      try (left; apply equiv_refl); try (intros; lia); try (right; apply equiv_refl); try (intros; apply equiv_refl).
  - apply andb_true_iff in Hs. destruct Hs as [Hs1 Hs2]. rewrite Hs1. unfold view; cbn [main].
    destruct k as [|[|[|k]]]; cbn; rewrite ?firstn_nil; cbn; eexists; (split; [reflexivity|]); split;
      try (left; apply equiv_refl); try (intros; lia); try (right; apply equiv_refl); try (intros; apply equiv_refl).
Qed.

(* ------------------------------------------------------------------------------------------------------------ *)
(* a crash inside the write loop leaves the effect of a prefix of the transaction buffer                          *)

Lemma tx_crash v b : safe v b = true -> forall tx d s k, main d = Some s ->
  exists j s', main (run (firstn k (tx_steps v b d tx)) d) = Some s'
               /\ equiv s' (apply_tx (firstn j (proj tx)) s)
               /\ ((length (tx_steps v b d tx) <= k)%nat -> equiv s' (apply_tx (proj tx) s)).
Proof.
  intros Hs. induction tx as [|[i [tg x]] r IH]; intros d s k Hm.
  - cbn. rewrite firstn_nil. cbn. exists 0%nat, s. repeat split; auto using equiv_refl.
  - cbn [tx_steps]. set (st := put_steps v b d i x).
    rewrite firstn_app, run_app.
    destruct (put_atomic v b d s i x k Hs Hm) as (s1 & Hm1 & Hor & Hfull). fold st in Hm1, Hfull.
    destruct (le_lt_dec (length st) k) as [Hle|Hlt].
    + specialize (Hfull Hle). pose proof (firstn_all2 st Hle) as Hall. rewrite Hall in Hm1 |- *.
      destruct (IH (run st d) s1 (k - length st)%nat Hm1) as (j & s' & Hm' & He & Hc).
      exists (S j), s'. split; [exact Hm'|]. split.
      * cbn. eapply equiv_trans; [exact He|]. apply apply_tx_equiv; auto.
      * intros Hlen. cbn. eapply equiv_trans; [apply Hc|apply apply_tx_equiv; auto].
        rewrite app_length in Hlen. lia.
    + replace (k - length st)%nat with 0%nat by lia. cbn [firstn run fold_left].
      destruct Hor as [Ho|Hn].
      * exists 0%nat, s1. split; [exact Hm1|]. split; [exact Ho|].
        intros Hlen. rewrite app_length in Hlen. lia.
      * exists 1%nat, s1. split; [exact Hm1|]. split; [cbn; exact Hn|].
        intros Hlen. rewrite app_length in Hlen. lia.
Qed.

(* children before parents: every document only refers to identifiers that are in the backend already or were
   written earlier in the same transaction *)

Lemma ordered_cons avail i x r :
  ordered avail ((i, x) :: r) ->
  (exists p refs, x = Full p refs /\ forall r0, In r0 refs -> In r0 avail) /\ ordered (i :: avail) r.
Proof.
  intros H. split.
  - destruct (H [] i x r eq_refl) as (p & refs & -> & Hr). exists p, refs. split; auto.
    intros r0 Hin. destruct (Hr r0 Hin) as [|[]]; auto.
  - intros l1 j y l2 E. destruct (H ((i, x) :: l1) j y l2) as (p & refs & -> & Hr); [cbn; congruence|].
    exists p, refs. split; auto. intros r0 Hin. destruct (Hr r0 Hin) as [Ha|Hk]; cbn; auto.
    cbn in Hk. destruct Hk; auto.
Qed.

Lemma prefix_closed : forall tx avail s j,
  closed s -> (forall a, In a avail -> lookup a s <> None) -> ordered avail tx ->
  closed (apply_tx (firstn j tx) s).
Proof.
  induction tx as [|[i x] r IH]; intros avail s j Hc Ha Ho.
  - rewrite firstn_nil. exact Hc.
  - destruct j as [|j]; [exact Hc|]. cbn.
    apply ordered_cons in Ho. destruct Ho as [(p & refs & -> & Hr) Ho].
    apply (IH (i :: avail)); auto.
    + apply closed_aset; auto.
    + intros a [<-|Hin]; rewrite lookup_aset.
      * rewrite N.eqb_refl; discriminate.
      * destruct (i =? a); [discriminate|auto].
Qed.

Lemma prefix_old_or_new : forall tx s j i0,
  NoDup (keys tx) ->
  lookup i0 (apply_tx (firstn j tx) s) = lookup i0 s \/
  lookup i0 (apply_tx (firstn j tx) s) = lookup i0 (apply_tx tx s).
Proof.
  induction tx as [|[i x] r IH]; intros s j i0 Hnd.
  - rewrite firstn_nil. auto.
  - destruct j as [|j]; [auto|]. cbn. inversion Hnd; subst.
    destruct (IH (aset i x s) j i0 H2) as [H|H]; [|auto].
    rewrite H, lookup_aset. destruct (i =? i0) eqn:E; [|auto].
    apply N.eqb_eq in E; subst i0. right.
    rewrite apply_tx_notin by auto. rewrite lookup_aset, N.eqb_refl. reflexivity.
Qed.

(* ------------------------------------------------------------------------------------------------------------ *)
(* the transaction buffer built by the encoder is duplicate-free and ordered children-before-parents              *)

Fixpoint tmpl_ind' (P : tmpl -> Prop) (HB : P Bad)
  (HN : forall i tg p kids, Forall P kids -> P (Node i tg p kids)) (n : tmpl) {struct n} : P n :=
  match n with
  | Bad => HB
  | Node i tg p kids =>
      HN i tg p kids ((fix go (l : list tmpl) : Forall P l :=
                         match l with
                         | [] => Forall_nil P
                         | k :: r => Forall_cons k (tmpl_ind' P HB HN k) (go r)
                         end) kids)
  end.

Lemma keys_proj tx : keys (proj tx) = keys tx.
Proof. unfold keys, proj. rewrite map_map. reflexivity. Qed.

Lemma snoc_split {A} (l l1 l2 : list A) e f :
  l ++ [e] = l1 ++ f :: l2 ->
  (l2 = [] /\ l = l1 /\ e = f) \/ (exists l2', l2 = l2' ++ [e] /\ l = l1 ++ f :: l2').
Proof.
  intros E. destruct l2 as [|a l2] using rev_ind.
  - left. apply app_inj_tail in E. tauto.
  - right. clear IHl2. rewrite app_comm_cons, app_assoc in E. apply app_inj_tail in E.
    destruct E as [E1 E2]. subst. eauto.
Qed.

Lemma ordered_snoc av l i p refs :
  ordered av l -> (forall r, In r refs -> In r av \/ In r (keys l)) -> ordered av (l ++ [(i, Full p refs)]).
Proof.
  intros Ho Hr l1 j y l2 E. apply snoc_split in E. destruct E as [(-> & -> & E)|(l2' & -> & ->)].
  - injection E as <- <-. exists p, refs. auto.
  - eapply Ho. reflexivity.
Qed.

Lemma proj_aset_same i tg tg0 x tx :
  lookup i tx = Some (tg0, x) -> proj (aset i (tg, x) tx) = proj tx.
Proof.
  induction tx as [|[k [t y]] r IH]; cbn; [discriminate|].
  destruct (k =? i) eqn:E.
  - intros [= -> ->]. cbn. apply N.eqb_eq in E. subst. reflexivity.
  - intros H. cbn. f_equal. auto.
Qed.

Lemma in_aset {A} i (v : A) l e : In e (aset i v l) -> e = (i, v) \/ In e l.
Proof.
  induction l as [|[k w] r IH]; cbn.
  - intros [<-|[]]; auto.
  - destruct (k =? i); cbn; intros [<-|H]; auto. destruct (IH H); auto.
Qed.

Lemma walk_cons rec ks c k r tx :
  walk_kids rec ks c (k :: r) tx =
  match k with
  | Bad => Err EUnser
  | Node ci ctg _ _ =>
      if negb (in_storage ks c ci) then
        match rec k tx with Ok tx' => walk_kids rec ks c r tx' | Err e => Err e end
      else match lookup ci c with
           | Some t => if t =? ctg then walk_kids rec ks c r tx else Err EClash
           | None => Err EClash
           end
  end.
Proof. reflexivity. Qed.

Lemma collect_node ks c i tg p kids tx :
  collect ks c (Node i tg p kids) tx =
  match walk_kids (collect ks c) ks c kids tx with
  | Ok tx' => Ok (aset i (tg, doc_of (Node i tg p kids)) tx')
  | Err e => Err e
  end.
Proof. reflexivity. Qed.

Section Collect.
  Variables (ks : list id) (c : cache) (NP : list tmpl).
  Hypothesis Hcache : forall i, has i c = true -> In i ks.
  Hypothesis Hcons : forall a b, In a NP -> In b NP -> nid_of a = nid_of b -> doc_of a = doc_of b.

  Definition Inv (tx : txbuf) : Prop :=
    NoDup (keys tx) /\ ordered ks (proj tx) /\
    (forall i tg x, In (i, (tg, x)) tx -> exists n, In n NP /\ nid_of n = i /\ doc_of n = x).

  Definition Pn (n : tmpl) : Prop :=
    forall tx tx', incl (nodes n) NP -> Inv tx -> collect ks c n tx = Ok tx' ->
      Inv tx' /\ incl (keys tx) (keys tx') /\ In (nid_of n) (keys tx').

  Lemma walk_inv : forall l, Forall Pn l -> forall tx tx',
    (forall k, In k l -> incl (nodes k) NP) -> Inv tx ->
    walk_kids (collect ks c) ks c l tx = Ok tx' ->
    Inv tx' /\ incl (keys tx) (keys tx') /\
    (forall ci ctg cp ck, In (Node ci ctg cp ck) l -> In ci ks \/ In ci (keys tx')).
  Proof.
    induction 1 as [|k r Hk Hr IH]; intros tx tx' Hin Hinv Hw.
    - cbn in Hw. injection Hw as <-. split; auto. split; [apply incl_refl|]. intros ? ? ? ? [].
    - rewrite walk_cons in Hw. destruct k as [ci ctg cp ck|]; [|discriminate].
      destruct (negb (in_storage ks c ci)) eqn:Est.
      + destruct (collect ks c (Node ci ctg cp ck) tx) as [tx1|] eqn:Ec; [|discriminate].
        destruct (Hk tx tx1) as (I1 & S1 & K1); auto. { apply Hin; cbn; auto. }
        destruct (IH tx1 tx') as (I2 & S2 & K2); auto. { intros; apply Hin; cbn; auto. }
        split; auto. split. { eapply incl_tran; eauto. }
        intros ci' ctg' cp' ck' [E|Hin']; [|eauto].
        injection E as <- <- <- <-. right. apply S2. exact K1.
      + assert (Hks : In ci ks).
        { apply negb_false_iff in Est. unfold in_storage in Est. apply orb_true_iff in Est.
          destruct Est as [H|H]; [auto|apply memb_In; auto]. }
        assert (Hw' : walk_kids (collect ks c) ks c r tx = Ok tx').
        { destruct (lookup ci c); [|discriminate]. destruct (n =? ctg); [auto|discriminate]. }
        destruct (IH tx tx') as (I2 & S2 & K2); auto. { intros; apply Hin; cbn; auto. }
        split; auto. split; auto.
        intros ci' ctg' cp' ck' [E|Hin']; [|eauto].
        injection E as <- <- <- <-. left; auto.
  Qed.

  Lemma collect_inv : forall n, Pn n.
  Proof.
    induction n as [|i tg p kids HF] using tmpl_ind'; intros tx tx' Hin Hinv Hcol.
    - discriminate.
    - rewrite collect_node in Hcol.
      destruct (walk_kids (collect ks c) ks c kids tx) as [tx1|] eqn:Ew; [|discriminate].
      injection Hcol as <-.
      destruct (walk_inv kids HF tx tx1) as ((ND & OR & EN) & S1 & K1); auto.
      { intros k Hk m Hm. apply Hin. cbn. right. apply in_flat_map. eauto. }
      set (n := Node i tg p kids).
      assert (HnNP : In n NP) by (apply Hin; cbn; auto).
      destruct (keys_aset_incl i (tg, doc_of n) tx1) as [S2 K2].
      split; [|split; [eapply incl_tran; eauto|exact K2]].
      split; [apply NoDup_keys_aset; auto|]. split.
      + destruct (in_dec N.eq_dec i (keys tx1)) as [Hi|Hi].
        * destruct (lookup i tx1) as [[tg0 x0]|] eqn:El.
          2:{ apply lookup_None_keys in El. contradiction. }
          destruct (EN i tg0 x0 (lookup_In _ _ _ El)) as (n' & Hn' & Hid & Hdoc).
          assert (H : x0 = doc_of n). { rewrite <- Hdoc. symmetry. apply Hcons; auto. }
          rewrite H in El. rewrite (proj_aset_same _ _ _ _ _ El). exact OR.
        * rewrite aset_notin by auto. unfold proj. rewrite map_app. cbn [map fst snd].
          apply ordered_snoc; auto.
          intros r Hr. apply in_flat_map in Hr. destruct Hr as (k & Hk & Hrk).
          destruct k as [ci ctg cp ck|]; [|destruct Hrk].
          destruct Hrk as [<-|[]]. rewrite keys_proj. eauto.
      + intros j t y Hj. apply in_aset in Hj. destruct Hj as [E|Hj]; [|eauto].
        injection E as -> -> ->. exists n. auto.
  Qed.
End Collect.

(* ------------------------------------------------------------------------------------------------------------ *)
(* assembling the crash-safety theorem                                                                            *)

Lemma list_eqb_combine : forall r t : list id,
  length r = length t -> forallb (fun xy => fst xy =? snd xy) (combine r t) = true -> r = t.
Proof.
  induction r as [|a r IH]; destruct t as [|b t]; cbn; intros HL H; try discriminate; auto.
  apply andb_true_iff in H. destruct H as [H1 H2]. apply N.eqb_eq in H1. subst. f_equal. apply IH; auto.
Qed.

Lemma doc_eqb_eq a b : doc_eqb a b = true -> a = b.
Proof.
  destruct a as [p r|], b as [q t|]; cbn; intros H; try discriminate; auto.
  apply andb_true_iff in H. destruct H as [H H3]. apply andb_true_iff in H. destruct H as [H1 H2].
  apply N.eqb_eq in H1. apply Nat.eqb_eq in H2. subst. f_equal. apply list_eqb_combine; auto.
Qed.

Lemma consistentb_spec n : consistentb n = true ->
  forall a b, In a (nodes n) -> In b (nodes n) -> nid_of a = nid_of b -> doc_of a = doc_of b.
Proof.
  unfold consistentb. intros H a b Ha Hb E. rewrite forallb_forall in H. specialize (H a Ha).
  rewrite forallb_forall in H. specialize (H b Hb). apply orb_true_iff in H. destruct H as [H|H].
  - apply negb_true_iff in H. apply N.eqb_neq in H. contradiction.
  - apply doc_eqb_eq; auto.
Qed.

Lemma step_nopub p d : publishes p = false -> main (step p d) = main d.
Proof. destruct p; cbn; try discriminate; reflexivity. Qed.

Lemma run_nopub : forall steps d, no_publish steps = true -> main (run steps d) = main d.
Proof.
  induction steps as [|p r IH]; intros d H; [reflexivity|].
  cbn in H. apply andb_true_iff in H. destruct H as [H1 H2]. apply negb_true_iff in H1.
  change (run (p :: r) d) with (run r (step p d)). rewrite IH by auto. apply step_nopub; auto.
Qed.

Lemma ordered_nil av : ordered av [].
Proof. intros l1 i x l2 E. destruct l1; discriminate. Qed.

Lemma lookup_keys_in {A} i (l : list (id * A)) : lookup i l <> None -> In i (keys l).
Proof.
  intros H. destruct (in_dec N.eq_dec i (keys l)); auto. apply lookup_None_keys in n. contradiction.
Qed.

(* the three clauses for one crash position *)
Definition crash_ok (d : disk) (steps : list prim) (k : nat) : Prop :=
  let d' := run (firstn k steps) d in
  (exists s', main d' = Some s' /\ closed s') /\
  (forall i, lookup i (view d') = lookup i (view d) \/ lookup i (view d') = lookup i (view (run steps d))) /\
  (no_publish (firstn k steps) = true -> main d' = main d).

Lemma crash_ok_nil d s k : main d = Some s -> closed s -> crash_ok d [] k.
Proof.
  intros Hm Hc. unfold crash_ok. rewrite firstn_nil. cbn. split; [eauto|]. split; auto.
Qed.

Lemma view_main d s : main d = Some s -> view d = s.
Proof. unfold view. intros ->. reflexivity. Qed.

Lemma crash_ok_tx v b d s c n tx k :
  safe v b = true -> main d = Some s -> closed s ->
  (forall i, has i c = true -> lookup i s <> None) -> consistentb n = true ->
  collect (keys s) c n [] = Ok tx -> crash_ok d (tx_steps v b d tx) k.
Proof.
  intros Hs Hm Hc Hcache Hcons Hcol.
  destruct (collect_inv (keys s) c (nodes n)) with (n := n) (tx := @nil (id * (N * doc))) (tx' := tx)
    as ((ND & OR & _) & _ & _); auto.
  { intros i Hi. apply lookup_keys_in. auto. }
  { apply consistentb_spec; auto. }
  { apply incl_refl. }
  { split; [constructor|]. split; [apply ordered_nil|]. intros ? ? ? []. }
  set (steps := tx_steps v b d tx).
  destruct (tx_crash v b Hs tx d s k Hm) as (j & s' & Hm' & He & _).
  destruct (tx_crash v b Hs tx d s (length steps) Hm) as (_ & sf & Hmf & _ & Hf).
  fold steps in Hm', Hmf, Hf. rewrite firstn_all in Hmf. specialize (Hf (le_n _)).
  unfold crash_ok. split; [|split].
  - exists s'. split; auto. eapply closed_equiv; [apply equiv_sym; exact He|].
    apply prefix_closed with (avail := keys s); auto.
    intros a Ha Hn. apply lookup_None_keys in Hn. contradiction.
  - intros i. rewrite (view_main _ _ Hm'), (view_main _ _ Hm), (view_main _ _ Hmf).
    rewrite (He i), (Hf i). apply prefix_old_or_new. rewrite keys_proj. exact ND.
  - apply run_nopub.
Qed.

Lemma crash_ok_del v b d s i k :
  safe v b = true -> main d = Some s -> closed s ->
  (forall j p refs, lookup j s = Some (Full p refs) -> ~ In i refs) ->
  crash_ok d (del_steps v b d i) k.
Proof.
  intros Hs Hm Hc Hn. set (steps := del_steps v b d i).
  destruct (del_atomic v b d s i k Hs Hm) as (s' & Hm' & Hor & _).
  destruct (del_atomic v b d s i (length steps) Hs Hm) as (sf & Hmf & _ & Hf).
  fold steps in Hm', Hmf, Hf. rewrite firstn_all in Hmf. specialize (Hf (le_n _)).
  unfold crash_ok. split; [|split].
  - exists s'. split; auto. destruct Hor as [E|E]; (eapply closed_equiv; [apply equiv_sym; exact E|]); auto.
    apply closed_adel; auto.
  - intros j. rewrite (view_main _ _ Hm'), (view_main _ _ Hm), (view_main _ _ Hmf).
    destruct Hor as [E|E]; rewrite (E j); [left; reflexivity|right; symmetry; apply Hf].
  - apply run_nopub.
Qed.

Theorem crash_safe : forall v b d c o k,
  safe v b = true -> wf d c -> op_in_scope d o ->
  crash_ok d (steps_of (plan_of v b d c o)) k.
Proof.
  intros v b d c o k Hs (s & Hm & Hc & Hcache) Hscope.
  unfold plan_of. rewrite (view_main _ _ Hm).
  destruct o as [n|n|i|]; cbn [op_in_scope] in Hscope.
  - destruct n as [i tg p kids|]; [|eapply crash_ok_nil; eauto].
    destruct (lookup i c) as [t|].
    { destruct (t =? tg); eapply crash_ok_nil; eauto. }
    destruct (memb i (keys s)); [eapply crash_ok_nil; eauto|].
    destruct (collect (keys s) c (Node i tg p kids) []) as [tx|e] eqn:Ec; [|eapply crash_ok_nil; eauto].
    cbn [steps_of]. eapply crash_ok_tx; eauto.
  - destruct (collect (keys s) c n []) as [tx|e] eqn:Ec; [|eapply crash_ok_nil; eauto].
    cbn [steps_of]. eapply crash_ok_tx; eauto.
  - destruct (memb i (keys s)); [|eapply crash_ok_nil; eauto].
    cbn [steps_of]. eapply crash_ok_del; eauto.
    rewrite (view_main _ _ Hm) in Hscope. exact Hscope.
  - eapply crash_ok_nil; eauto.
Qed.

Lemma children_before_parents : forall (s : store) (c : cache) n tx,
  (forall i, has i c = true -> In i (keys s)) -> consistentb n = true ->
  collect (keys s) c n [] = Ok tx ->
  NoDup (keys tx) /\ ordered (keys s) (proj tx).
Proof.
  intros s c n tx Hc Hn Hcol.
  destruct (collect_inv (keys s) c (nodes n) Hc (consistentb_spec n Hn) n [] tx) as ((ND & OR & _) & _).
  - apply incl_refl.
  - split; [constructor|]. split; [apply ordered_nil|]. intros ? ? ? [].
  - exact Hcol.
  - auto.
Qed.

(* a failure that is not a backend failure happens before the backend is touched *)
Lemma error_before_write v b d c o e : plan_of v b d c o = PErr e -> steps_of (plan_of v b d c o) = [].
Proof. intros ->. reflexivity. Qed.

(* the invariant is re-established by every completed or crashed operation: histories of any length *)
Lemma wf_preserved v b d c o k :
  safe v b = true -> wf d c -> op_in_scope d o ->
  exists s', main (run (firstn k (steps_of (plan_of v b d c o))) d) = Some s' /\ closed s'.
Proof. intros Hs Hw Ho. destruct (crash_safe v b d c o k Hs Hw Ho) as [H _]. exact H. Qed.

(* ------------------------------------------------------------------------------------------------------------ *)
(* executable closedness implies the Prop                                                                         *)

Lemma closedb_closed s : closedb s = true -> closed s.
Proof.
  unfold closedb. rewrite forallb_forall. intros H i x Hi.
  specialize (H (i, x) (lookup_In _ _ _ Hi)). cbn in H. destruct x as [p refs|]; [|discriminate].
  exists p, refs. split; auto. intros r Hr. rewrite forallb_forall in H. apply has_lookup. auto.
Qed.

Lemma wf_of_closedb d c s :
  main d = Some s -> closedb s = true -> forallb (fun e => has (fst e) s) c = true -> wf d c.
Proof.
  intros Hm Hc Hk. exists s. split; auto. split; [apply closedb_closed; auto|].
  intros i Hi. apply has_lookup. rewrite forallb_forall in Hk.
  unfold has in Hi. apply memb_In in Hi. unfold keys in Hi. apply in_map_iff in Hi.
  destruct Hi as ([j t] & <- & Hin). apply (Hk _ Hin).
Qed.

(* ------------------------------------------------------------------------------------------------------------ *)
(* witnesses                                                                                                      *)

Definition disk_of (s : store) : disk := {| main := Some s; tmpf := None; tmpz := None; pend := None |}.

(* the pinned snapshot: FilesystemBackend.put opened the document with 'w' before writing *)
Lemma snapshot_fs_unsafe :
  exists d c o k, wf d c /\ op_in_scope d o /\ ~ crash_ok d (steps_of (plan_of snapshot BFs d c o)) k.
Proof.
  exists (disk_of []), [], (OStore (Node 0 1 1 [])), 1%nat. split; [|split].
  - eapply wf_of_closedb; reflexivity.
  - reflexivity.
  - intros [(s' & Hm & Hc) _]. vm_compute in Hm. injection Hm as <-.
    destruct (Hc 0 Partial eq_refl) as (p & refs & E & _). discriminate.
Qed.

(* the pinned snapshot: ZipFileBackend._update removed the archive before renaming the copy *)
Lemma snapshot_zip_unsafe :
  exists d c o k, wf d c /\ op_in_scope d o /\ ~ crash_ok d (steps_of (plan_of snapshot BZip d c o)) k.
Proof.
  exists (disk_of [(0, Full 1 [])]), [], (OOverwrite (Node 0 2 2 [])), 3%nat. split; [|split].
  - eapply wf_of_closedb; reflexivity.
  - reflexivity.
  - intros [(s' & Hm & _) _]. vm_compute in Hm. discriminate.
Qed.

(* one identifier, two objects, in one transaction: the parent is written before its child *)
Definition dup_witness : tmpl := Node 4 4 4 [Node 5 1 1 []; Node 5 2 2 [Node 6 3 3 []]].

Lemma dup_id_unsafe :
  exists b d c o k, safe current b = true /\ wf d c /\
                    ~ crash_ok d (steps_of (plan_of current b d c o)) k.
Proof.
  exists BDict, (disk_of []), [], (OOverwrite dup_witness), 1%nat. split; [reflexivity|]. split.
  - eapply wf_of_closedb; reflexivity.
  - intros [(s' & Hm & Hc) _]. vm_compute in Hm. injection Hm as <-.
    destruct (Hc 5 (Full 2 [6]) eq_refl) as (p & refs & E & Hr). injection E as <- <-.
    apply (Hr 6); cbn; auto.
Qed.


(* the refutations, stated on clause (a) alone *)
Lemma snapshot_fs_unsafe_a :
  exists d c o k, wf d c /\ op_in_scope d o /\
    ~ (exists s', main (run (firstn k (steps_of (plan_of snapshot BFs d c o))) d) = Some s' /\ closed s').
Proof.
  exists (disk_of []), [], (OStore (Node 0 1 1 [])), 1%nat. split; [|split].
  - eapply wf_of_closedb; reflexivity.
  - reflexivity.
  - intros (s' & Hm & Hc). vm_compute in Hm. injection Hm as <-.
    destruct (Hc 0 Partial eq_refl) as (p & refs & E & _). discriminate.
Qed.

Lemma snapshot_zip_unsafe_a :
  exists d c o k, wf d c /\ op_in_scope d o /\
    ~ (exists s', main (run (firstn k (steps_of (plan_of snapshot BZip d c o))) d) = Some s' /\ closed s').
Proof.
  exists (disk_of [(0, Full 1 [])]), [], (OOverwrite (Node 0 2 2 [])), 3%nat. split; [|split].
  - eapply wf_of_closedb; reflexivity.
  - reflexivity.
  - intros (s' & Hm & _). vm_compute in Hm. discriminate.
Qed.

Lemma dup_id_unsafe_a :
  exists b d c o k, safe current b = true /\ wf d c /\
    ~ (exists s', main (run (firstn k (steps_of (plan_of current b d c o))) d) = Some s' /\ closed s').
Proof.
  exists BDict, (disk_of []), [], (OOverwrite dup_witness), 1%nat. split; [reflexivity|]. split.
  - eapply wf_of_closedb; reflexivity.
  - intros (s' & Hm & Hc). vm_compute in Hm. injection Hm as <-.
    destruct (Hc 5 (Full 2 [6]) eq_refl) as (p & refs & E & Hr). injection E as <- <-.
    apply (Hr 6); cbn; auto.
Qed.

(* a stale cached object lets overwrite() build a reference cycle: nothing loads afterwards *)
Definition cycle_store : store := [(2, Full 2 [1]); (1, Full 4 [3]); (3, Full 3 [])].
Definition cycle_cache : cache := [(2, 2); (1, 4); (3, 3)].
Definition cycle_op : op := OOverwrite (Node 3 5 5 [Node 2 2 2 [Node 1 1 1 []]]).

Lemma cycle_no_load : forall fuel,
  let s := view (run (steps_of (plan_of current BDict (disk_of cycle_store) cycle_cache cycle_op)) (disk_of cycle_store)) in
  loadsb fuel s 1 = false /\ loadsb fuel s 2 = false /\ loadsb fuel s 3 = false.
Proof.
  cbv zeta. set (s := view _). vm_compute in s. subst s.
  induction fuel as [|f (H1 & H2 & H3)]; [auto|].
  cbn [loadsb lookup N.eqb Pos.eqb forallb]. rewrite H1, H2, H3. auto.
Qed.

Lemma cycle_unsafe :
  exists d c o, wf d c /\ all_load (view d) /\ op_in_scope d o /\
     exists i, lookup i (view (run (steps_of (plan_of current BDict d c o)) d)) <> None /\
               ~ loads (view (run (steps_of (plan_of current BDict d c o)) d)) i.
Proof.
  exists (disk_of cycle_store), cycle_cache, cycle_op. split; [|split; [|split]].
  - eapply wf_of_closedb; reflexivity.
  - intros i Hi. exists 4%nat. change (lookup i cycle_store <> None) in Hi. unfold cycle_store in Hi.
    cbn [lookup] in Hi.
    destruct (2 =? i) eqn:E2; [apply N.eqb_eq in E2; subst; reflexivity|].
    destruct (1 =? i) eqn:E1; [apply N.eqb_eq in E1; subst; reflexivity|].
    destruct (3 =? i) eqn:E3; [apply N.eqb_eq in E3; subst; reflexivity|]. congruence.
  - reflexivity.
  - exists 3. split; [vm_compute; discriminate|]. intros [fuel H].
    destruct (cycle_no_load fuel) as (_ & _ & H3). cbv zeta in H3. congruence.
Qed.

(* non-vacuity: a storage with content, cached objects, and a template with new, shared and cached children *)
Definition ex_store : store := [(0, Full 3 [1; 2]); (1, Full 1 []); (2, Full 2 [])].
Definition ex_cache : cache := [(0, 3); (1, 1)].
Definition ex_tmpl : tmpl := Node 0 9 9 [Node 5 6 6 [Node 7 7 7 []]; Node 1 1 1 []; Node 5 6 6 [Node 7 7 7 []]].

Lemma hypotheses_satisfiable :
  forall b, safe current b = true /\ wf (disk_of ex_store) ex_cache /\ op_in_scope (disk_of ex_store) (OOverwrite ex_tmpl)
            /\ (3 <= length (steps_of (plan_of current b (disk_of ex_store) ex_cache (OOverwrite ex_tmpl))))%nat
            /\ guard_C11_cycle (disk_of ex_store) ex_cache (OOverwrite ex_tmpl) = true.
Proof.
  intros b. split; [destruct b; reflexivity|]. split; [eapply wf_of_closedb; reflexivity|].
  split; [reflexivity|]. split; [destruct b; vm_compute; lia|reflexivity].
Qed.
