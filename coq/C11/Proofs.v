(* C11 — proofs *)
From Coq Require Import List NArith Bool Lia.
Require Import QV.C11.Model.
Import ListNotations.
Open Scope N_scope.
