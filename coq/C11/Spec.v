(* C11 — the vocabulary of the property at the Prop level (definitions only).  Stores are compared through
   `lookup`, so the order of the entries of a directory / archive / dict does not matter.                       *)
From Coq Require Import List NArith Bool.
Require Import QV.C11.Model.
Import ListNotations.
Open Scope N_scope.

Definition equiv (a b : store) : Prop := forall j, lookup j a = lookup j b.

(* every listed document is complete (parses) and every identifier it refers to is listed *)
Definition closed (s : store) : Prop :=
  forall i x, lookup i s = Some x ->
    exists p refs, x = Full p refs /\ forall r, In r refs -> lookup r s <> None.

(* the backend replaces documents atomically in this variant of the code *)
Definition safe (v : variant) (b : backend) : bool :=
  match b with
  | BDict => true
  | BFs => fs_put_is_atomic v
  | BZip => zip_update_is_atomic v && negb (zip_new_entry_in_place v)
  end.

(* a storage that was only modified through PulseStorage: the archive exists, the contents are closed and every
   cached object is in the backend *)
Definition wf (d : disk) (c : cache) : Prop :=
  exists s, main d = Some s /\ closed s /\ forall i, has i c = true -> lookup i s <> None.

(* the quantifier of the property: templates in which one identifier names one document (guard_C11_dup_id, see
   known finding dup-id-in-transaction); deletion only of entries nothing else refers to *)
Definition op_in_scope (d : disk) (o : op) : Prop :=
  match o with
  | OStore n | OOverwrite n => consistentb n = true
  | ODelete i => forall j p refs, lookup j (view d) = Some (Full p refs) -> ~ In i refs
  | OClear => True
  end.

Definition no_publish (steps : list prim) : bool := forallb (fun p => negb (publishes p)) steps.

(* the documents of a transaction buffer written one after the other *)
Fixpoint apply_tx (tx : list (id * doc)) (s : store) : store :=
  match tx with
  | [] => s
  | (i, x) :: r => apply_tx r (aset i x s)
  end.
Definition proj (tx : txbuf) : list (id * doc) := map (fun e => (fst e, snd (snd e))) tx.

Definition guard_C11_dup_id (n : tmpl) : bool := consistentb n.

(* ---- full strength: every listed identifier loads (recursively) ---- *)
Definition loads (s : store) (i : id) : Prop := exists fuel, loadsb fuel s i = true.
Definition all_load (s : store) : Prop := forall i, lookup i s <> None -> loads s i.

Definition guard_C11_cycle (d : disk) (c : cache) (o : op) : bool :=
  match o with
  | OStore n | OOverwrite n =>
      match collect (keys (view d)) c n [] with
      | Ok tx => no_back_refb (view d) (map (fun e => (fst e, snd (snd e))) tx)
      | Err _ => true
      end
  | _ => true
  end.

(* children before parents: every document of the buffer only refers to identifiers that are available already
   (in the backend) or were written earlier in the same transaction *)
Definition ordered (avail : list id) (tx : list (id * doc)) : Prop :=
  forall l1 i x l2, tx = l1 ++ (i, x) :: l2 ->
    exists p refs, x = Full p refs /\ forall r, In r refs -> In r avail \/ In r (keys l1).
