(* C11 — correspondence cases.  One case = one backend, a failure-free history that populates the storage through one
   PulseStorage, and a final operation that was executed on the real code once without failure and once per
   primitive with that primitive failing.  The implementation's observations (backend contents read through a new
   backend object and a new PulseStorage) are part of the case.
     check_corr : the model's sequence of visible states over all crash prefixes equals the observed one
                  (up to repetition of equal neighbours: read-only primitives are not counted by the model),
                  and the model's loader agrees with the real loader on every observed state;
     check_spec : clauses (a) (b) (c) of the property on the observations alone.                                   *)
From Coq Require Import List NArith Bool.
Require Import QV.common.Util QV.C11.Model QV.C11.Spec QV.C11.Guard QV.C11.Repair.
Import ListNotations.
Open Scope N_scope.

(* what was seen after one run: is the archive file missing; the listed identifiers with their parsed documents
   (Partial = does not parse) and whether `PulseStorage(backend)[i]` returned an object *)
Record observation := { o_missing : bool; o_entries : list (id * doc * bool) }.
(* a run in which the k-th primitive raised: number of mutating primitives completed before + what was seen *)
(* seen_post: what was seen after a follow-up operation (no failure) executed on the same PulseStorage afterwards *)
Record crash_obs := { writes_before : N; seen : observation; seen_post : observation }.

Inductive outcome := OutOk | OutErr (e : err).

(* round 3: a history step is an operation or a LOAD through the PulseStorage (`storage[i]`): the identifier and,
   recursively, everything it refers to that is not cached yet is read from the backend; each gets a NEW object
   (tag = base + identifier, a convention of the harness) in the cache.  The theorems quantify over every cache, so the
   model needs no new operation: loads only move the correspondence check to another cache. *)
Inductive hop := HOp (o : op) | HLoad (i : id) (base : N).

Fixpoint load_cache (fuel : nat) (s : store) (base : N) (c : cache) (i : id) : cache :=
  match fuel with
  | O => c
  | S f =>
      if has i c then c else
      match lookup i s with
      | Some (Full _ refs) => aset i (base + i) (fold_left (fun c' r => load_cache f s base c' r) refs c)
      | _ => c
      end
  end.

Definition op_state (b : backend) (d : disk) (c : cache) (o : op) : disk * cache :=
  match plan_of2 current b d c o with
  | PErr _ => (d, c)
  | PNoop c' => (d, c')
  | PSteps s c' => (run s d, c')
  end.

Fixpoint run_hops (b : backend) (d : disk) (c : cache) (l : list hop) : disk * cache :=
  match l with
  | [] => (d, c)
  | HOp o :: r => let '(d', c') := op_state b d c o in run_hops b d' c' r
  | HLoad i base :: r => run_hops b d (load_cache (S (length (view d))) (view d) base c i) r
  end.

Inductive case :=
| CStore (b : backend) (history : list hop) (final : op)
         (before : observation) (nofault : outcome) (after : observation) (crashes : list crash_obs)
         (post : option op) (after_post : observation)
         (* kill runs: the process stopped before position k (k = 0, 1, ...; more positions than `crashes`: also
            before a written file / archive is closed); one sequence per flush mode; everything observed (and the
            follow-up operation performed) by new objects, i.e. with an empty PulseStorage cache *)
         (kills : list (list crash_obs))
| CCrash.

Definition store_of (o : observation) : store := map (fun e => (fst (fst e), snd (fst e))) (o_entries o).

Definition sub_store (a b : store) : bool := forallb (fun e => odoc_eqb (lookup (fst e) b) (Some (snd e))) a.
Definition store_eqb (a b : store) : bool := sub_store a b && sub_store b a.
Definition vis_eqb (a b : bool * store) : bool := Bool.eqb (fst a) (fst b) && store_eqb (snd a) (snd b).

Fixpoint dedup_adj (l : list (bool * store)) : list (bool * store) :=
  match l with
  | [] => []
  | x :: r => match dedup_adj r with
              | [] => [x]
              | y :: r' => if vis_eqb x y then y :: r' else x :: y :: r'
              end
  end.

Definition vis_of_disk (d : disk) : bool * store :=
  (match main d with None => true | Some _ => false end, view d).
Definition vis_of_obs (o : observation) : bool * store := (o_missing o, store_of o).

(* visible states after each prefix of the step list, k = 0 .. length *)
Fixpoint prefix_states (steps : list prim) (d : disk) : list disk :=
  match steps with
  | [] => [d]
  | p :: r => d :: prefix_states r (step p d)
  end.

Definition loader_agrees (o : observation) : bool :=
  let s := store_of o in
  forallb (fun e => Bool.eqb (loadsb (S (length s)) s (fst (fst e))) (snd e)) (o_entries o).

Definition err_eqb (a b : err) : bool :=
  match a, b with EClash, EClash | EUnser, EUnser | EMissing, EMissing => true | _, _ => false end.

Definition check_corr (c : case) : bool :=
  match c with
  | CCrash => false
  | CStore b hist fin before nofault after crashes post after_post kills =>
      let '(d0, c0) := run_hops b empty_disk [] hist in
      let pl := plan_of2 current b d0 c0 fin in
      vis_eqb (vis_of_disk d0) (vis_of_obs before)
      && (match pl, nofault with
          | PErr e, OutErr e' => err_eqb e e'
          | PNoop _, OutOk | PSteps _ _, OutOk => true
          | _, _ => false
          end)
      && list_eqb vis_eqb
           (dedup_adj (map vis_of_disk (prefix_states (steps_of pl) d0)))
           (dedup_adj (vis_of_obs before :: map (fun x => vis_of_obs (seen x)) crashes ++ [vis_of_obs after]))
      && forallb loader_agrees (before :: after :: map seen crashes)
      && forallb (fun seq =>
           list_eqb vis_eqb
             (dedup_adj (map vis_of_disk (prefix_states (steps_of pl) d0)))
             (dedup_adj (vis_of_obs before :: map (fun x => vis_of_obs (seen x)) seq ++ [vis_of_obs after]))
           && forallb loader_agrees (map seen seq)
           && match post with
              | None => true
              | Some po =>
                  forallb (fun x =>
                    existsb (fun dk => vis_eqb (vis_of_disk dk) (vis_of_obs (seen x))
                                       && vis_eqb (vis_of_disk (fst (run_ops2 current b dk [] [po])))
                                                  (vis_of_obs (seen_post x)))
                            (prefix_states (steps_of pl) d0)) seq
                  && forallb loader_agrees (map seen_post seq)
              end) kills
      && (match post with
          | None => true
          | Some po =>
              (* the follow-up operation: on the cache as it was for a failed operation, on the updated cache
                 for the completed one *)
              let c1 := match pl with PSteps _ c' | PNoop c' => c' | PErr _ => c0 end in
              vis_eqb (vis_of_disk (fst (run_ops2 current b (run (steps_of pl) d0) c1 [po]))) (vis_of_obs after_post)
              && forallb (fun x =>
                   existsb (fun dk => vis_eqb (vis_of_disk dk) (vis_of_obs (seen x))
                                      && vis_eqb (vis_of_disk (fst (run_ops2 current b dk c0 [po])))
                                                 (vis_of_obs (seen_post x)))
                           (prefix_states (steps_of pl) d0)) crashes
              && forallb loader_agrees (after_post :: map seen_post crashes)
          end)
  end.

(* ---- the property on the observations ---- *)

Definition all_load (o : observation) : bool := forallb (fun e => snd e) (o_entries o).

Definition new_content (fin : op) (i : id) (x : option doc) : bool :=
  match fin with
  | OStore n | OOverwrite n =>
      match x with
      | Some d => existsb (fun m => (nid_of m =? i) && doc_eqb (doc_of m) d) (nodes n)
      | None => false
      end
  | ODelete j => (i =? j) && match x with None => true | Some _ => false end
  | OClear => false
  end.

(* (b) every identifier that existed before holds its old or its new content *)
Definition old_or_new (fin : op) (before o : observation) : bool :=
  forallb (fun e => let i := fst e in
                    let x := lookup i (store_of o) in
                    odoc_eqb x (Some (snd e)) || new_content fin i x) (store_of before).

Definition in_scope (fin : op) (before : observation) : bool :=
  all_load before && negb (o_missing before) &&
  match fin with
  | ODelete i => negb (referenced i (store_of before))
  | _ => true
  end.

(* the clauses with the loadability test `ld` as a parameter: check_spec uses the real one; `fun _ => true` leaves
   everything BUT "every listed identifier loads" (archive present, (b) old-or-new, (c) nothing before the first write,
   a rejected operation changes nothing) - used by finding_of below *)
Definition spec_with (ld : observation -> bool) (c : case) : bool :=
  match c with
  | CCrash => false
  | CStore b hist fin before nofault after crashes post after_post kills =>
      if in_scope fin before then
        let ok (o : observation) := negb (o_missing o) && ld o && old_or_new fin before o in
        let ok_crash (x : crash_obs) :=
          ok (seen x)
          && (negb (writes_before x =? 0) || vis_eqb (vis_of_obs (seen x)) (vis_of_obs before))
          (* a later operation (same PulseStorage after a raise, a new process after a kill) keeps the storage
             usable and loadable *)
          && (match post with Some _ => negb (o_missing (seen_post x)) && ld (seen_post x) | None => true end) in
        ok after
        && forallb ok_crash crashes
        && forallb (forallb ok_crash) kills
        && (match post with Some _ => negb (all_load after) || ld after_post | None => true end)
        && (match nofault with
            | OutErr _ => vis_eqb (vis_of_obs after) (vis_of_obs before)
            | OutOk => true
            end)
      else true
  end.

Definition check_spec (c : case) : bool := spec_with all_load c.

(* ---- which known finding explains a case the specification rejects (used by `classify`, exact) ----
   A finding is "the behaviour of the unchanged code, as the model predicts it, on inputs outside a guard".  So a
   rejected case belongs to a finding iff (1) the implementation behaved exactly as the model predicts (check_corr)
   and (2) some operation of the case (history, final operation, follow-up operation in any of the states it can
   start from) is outside that guard in the model.  With (1) and all guards true the theorems C11_crash_safe /
   C11_history_safe exclude a rejection.   0 = none, 1 = dup-id-in-transaction, 2 = overwrite-creates-cycle       *)
Definition dup_guard_op (o : op) : bool :=
  match o with OStore n | OOverwrite n => consistentb n | _ => true end.

(* round 3: the buffer guard of the operation, if the operation gets as far as flushing a buffer in this state *)
(* round 4: the EXACT guard (C11_crash_safe_exact: clause (a) fails at some interruption point iff the operation is
   outside it; clauses (b), (c) need no guard) *)
Definition tx_guard_op (b : backend) (d : disk) (c : cache) (o : op) : bool := guard2_exact d c o.

(* (dup guard, cycle guard, buffer guard) over a failure-free history *)
Fixpoint hist_guards (b : backend) (d : disk) (c : cache) (l : list hop) : bool * bool * bool :=
  match l with
  | [] => (true, true, true)
  | HOp o :: r =>
      let '(d', c') := op_state b d c o in
      let '(g1, g2, g3) := hist_guards b d' c' r in
      (dup_guard_op o && g1, guard_C11_cycle d c o && g2, tx_guard_op b d c o && g3)
  | HLoad i base :: r => hist_guards b d (load_cache (S (length (view d))) (view d) base c i) r
  end.

(* A rejected case belongs to a known finding iff the implementation behaved exactly as the model predicts and some
   operation of the case is outside guard_C11_exact in the state it starts in (with all operations inside the guard,
   C11_crash_safe_exact / C11_history_safe_exact exclude the rejection; outside it clause (a) does fail in the model).
   Which finding: 1 if some template is outside guard_C11_dup_id, else 2. *)
Definition finding_of (c : case) : N :=
  match c with
  | CCrash => 0
  | CStore b hist fin before nofault after crashes post after_post kills =>
      if negb (check_corr c) then 0 else
      let '(d0, c0) := run_hops b empty_disk [] hist in
      let pl := plan_of2 current b d0 c0 fin in
      let states := prefix_states (steps_of pl) d0 in
      let c1 := match pl with PSteps _ c' | PNoop c' => c' | PErr _ => c0 end in
      let '(h1, h2, h3) := hist_guards b empty_disk [] hist in
      let post_dup := match post with Some po => negb (dup_guard_op po) | None => false end in
      let post_tx := match post with
                     | Some po => existsb (fun dk => negb (tx_guard_op b dk c0 po) || negb (tx_guard_op b dk [] po)) states
                                  || negb (tx_guard_op b (run (steps_of pl) d0) c1 po)
                     | None => false
                     end in
      (* after the repair of dup-id-in-transaction (R1, R2 in Repair.v) the encoder rejects every template in which an
         identifier names two objects: what is left outside the exact guard is overwrite-creates-cycle
         (C11_repaired_crash_safe: the cycle guard alone implies the exact guard) *)
      if h3 && tx_guard_op b d0 c0 fin && negb post_tx then 0
      (* round 5: the finding explains ONLY "a listed identifier does not load because of a reference CYCLE":
         clauses (b), (c), "archive present", "a rejected operation changes nothing" hold without any guard
         (C11_repaired_crash_safe_exact), and the buffer of the repaired encoder is ordered children before parents for
         every template (C11_repaired_children_before_parents), so no prefix state has a dangling reference or an
         incomplete document: a case that fails one of those, or whose unloadable state is not closed, is NOT it *)
      else if negb (spec_with (fun _ => true) c) then 0
      else if negb (forallb (fun o => all_load o || (negb (o_missing o) && closedb (store_of o)))
                            (after :: after_post :: map seen crashes ++ map seen_post crashes
                             ++ flat_map (fun seq => map seen seq ++ map seen_post seq) kills)) then 0
      else 2
  end.
