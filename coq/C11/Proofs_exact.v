(* C11 — guard_C11_cycle is EXACT on templates inside guard_C11_dup_id: whenever it rejects an overwrite, the
   completed overwrite leaves an identifier that is listed and does not load (round 3).

   Argument.  The guard fails: some buffered document i refers to an identifier r that is not written and from which
   a written identifier w is reachable in the old storage s.  Only the top-level identifier can be both in the
   storage and in the buffer, so w is the root.  The path r ->* root only passes unwritten identifiers (the first
   written one on it is the root), so it survives the transaction.  Every buffered entry is reachable from the root's
   entry through buffered documents (invariant of `collect`, needs consistency).  So after the transaction
   root ->* i -> r ->* root: a reference cycle through i, and nothing on a cycle loads.                             *)
From Coq Require Import List NArith Bool Lia Arith.
Require Import QV.C11.Model QV.C11.Spec QV.C11.Proofs QV.C11.Proofs_load QV.C11.Guard QV.C11.Proofs_guard.
Import ListNotations.
Open Scope N_scope.

(* ---- nothing on a reference cycle loads ---- *)
Lemma loadsb_reach s : forall x y, Reach s x y -> forall f, loadsb f s x = true -> loadsb f s y = true.
Proof.
  induction 1 as [x|x p refs r w E Hr R IH]; intros f H; [exact H|].
  destruct f as [|f]; [discriminate|]. rewrite loadsb_S, E in H. rewrite forallb_forall in H.
  eapply loadsb_mono; [apply IH; apply H; exact Hr|lia].
Qed.

Lemma no_cycle s x p refs r :
  lookup x s = Some (Full p refs) -> In r refs -> Reach s r x -> ~ loads s x.
Proof.
  intros E Hr R [f H]. revert H. induction f as [|f IH]; intros H; [discriminate|].
  pose proof H as H'. rewrite loadsb_S, E in H'. rewrite forallb_forall in H'.
  apply IH. eapply loadsb_reach; [exact R|]. apply H'. exact Hr.
Qed.

Lemma Reach_trans s a b c : Reach s a b -> Reach s b c -> Reach s a c.
Proof. induction 1; intros; auto. econstructor; eauto. Qed.

(* ---- reachability through buffered documents ---- *)
Inductive RT (T : list (id * doc)) : id -> id -> Prop :=
| RT_refl a : RT T a a
| RT_step a p refs b c : In (a, Full p refs) T -> In b refs -> RT T b c -> RT T a c.

Lemma RT_mono T T' a b : (forall e, In e T -> In e T') -> RT T a b -> RT T' a b.
Proof. intros M. induction 1; [constructor|econstructor; eauto]. Qed.

Lemma RT_trans T a b c : RT T a b -> RT T b c -> RT T a c.
Proof. induction 1; intros; auto. econstructor; eauto. Qed.

Lemma in_lookup_apply T s a x : NoDup (keys T) -> In (a, x) T -> lookup a (apply_tx T s) = Some x.
Proof.
  intros ND Hin. apply in_split in Hin. destruct Hin as (l1 & l2 & E).
  eapply apply_tx_lookup_in; eauto.
Qed.

Lemma RT_Reach T s a b : NoDup (keys T) -> RT T a b -> Reach (apply_tx T s) a b.
Proof.
  intros ND. induction 1 as [a|a p refs b c Hin Hb R IH]; [constructor|].
  econstructor; [eapply in_lookup_apply; eauto|exact Hb|exact IH].
Qed.

(* ---- every buffered entry is reachable from the entry of the node being collected ---- *)
Section Conn.
  Variables (ks : list id) (c : cache) (NP : list tmpl).
  Hypothesis Hcache : forall i, has i c = true -> In i ks.
  Hypothesis Hcons : forall a b, In a NP -> In b NP -> nid_of a = nid_of b -> doc_of a = doc_of b.

  Definition Mono (tx tx' : txbuf) : Prop := forall e, In e (proj tx) -> In e (proj tx').

  Definition Cn (n : tmpl) : Prop :=
    forall tx tx', incl (nodes n) NP -> Inv ks NP tx -> collect ks c n tx = Ok tx' ->
      Mono tx tx' /\ forall j, In j (keys tx') -> In j (keys tx) \/ RT (proj tx') (nid_of n) j.

  Lemma walk_conn : forall l, Forall Cn l -> forall tx tx',
    (forall k, In k l -> incl (nodes k) NP) -> Inv ks NP tx ->
    walk_kids (collect ks c) ks c l tx = Ok tx' ->
    Mono tx tx' /\ forall j, In j (keys tx') -> In j (keys tx) \/ exists ci, In ci (ref_ids l) /\ RT (proj tx') ci j.
  Proof.
    induction 1 as [|k r Hk Hr IH]; intros tx tx' Hin Hinv Hw.
    - cbn in Hw. injection Hw as <-. split; [intros e He; exact He|]. intros j Hj. left. exact Hj.
    - rewrite walk_cons in Hw. destruct k as [ci ctg cp ck|]; [|discriminate].
      destruct (negb (in_storage ks c ci)) eqn:Est.
      + destruct (collect ks c (Node ci ctg cp ck) tx) as [tx1|] eqn:Ec; [|discriminate].
        assert (Hk_in : incl (nodes (Node ci ctg cp ck)) NP) by (apply Hin; cbn; auto).
        destruct (Hk tx tx1 Hk_in Hinv Ec) as (M1 & C1).
        destruct (collect_inv ks c NP Hcache Hcons (Node ci ctg cp ck) tx tx1 Hk_in Hinv Ec) as (I1 & _ & _).
        destruct (IH tx1 tx') as (M2 & C2); auto. { intros; apply Hin; cbn; auto. }
        split; [intros e He; apply M2; apply M1; exact He|].
        intros j Hj. destruct (C2 j Hj) as [Hj1|(cj & Hcj & Rj)].
        * destruct (C1 j Hj1) as [Hj0|Rj]; [left; exact Hj0|]. right. exists ci. split; [cbn; auto|].
          eapply RT_mono; [exact M2|exact Rj].
        * right. exists cj. split; [cbn; auto|exact Rj].
      + assert (Hw' : walk_kids (collect ks c) ks c r tx = Ok tx').
        { destruct (lookup ci c) as [t|]; [|discriminate]. destruct (t =? ctg); [auto|discriminate]. }
        destruct (IH tx tx') as (M2 & C2); auto. { intros; apply Hin; cbn; auto. }
        split; [exact M2|]. intros j Hj. destruct (C2 j Hj) as [Hj0|(cj & Hcj & Rj)]; [left; exact Hj0|].
        right. exists cj. split; [cbn; auto|exact Rj].
  Qed.

  Lemma collect_conn : forall n, Cn n.
  Proof.
    induction n as [|i tg p kids HF] using tmpl_ind'; intros tx tx' Hin Hinv Hcol.
    - discriminate.
    - rewrite collect_node in Hcol.
      destruct (walk_kids (collect ks c) ks c kids tx) as [tx1|] eqn:Ew; [|discriminate].
      injection Hcol as <-.
      assert (Hkin : forall k, In k kids -> incl (nodes k) NP).
      { intros k Hk m Hm. apply Hin. cbn. right. apply in_flat_map. eauto. }
      destruct (walk_conn kids HF tx tx1 Hkin Hinv Ew) as (M1 & C1).
      assert (HPn : Forall (Pn ks c NP) kids).
      { apply Forall_forall. intros k _. apply collect_inv; auto. }
      destruct (walk_inv ks c NP Hcache kids HPn tx tx1 Hkin Hinv Ew) as ((ND & OR & EN) & S1 & K1).
      set (n := Node i tg p kids). fold n.
      assert (HnNP : In n NP) by (apply Hin; cbn; auto).
      (* the entries of tx1 survive the assignment of i *)
      assert (M2 : forall e, In e (proj tx1) -> In e (proj (aset i (tg, doc_of n) tx1))).
      { destruct (in_dec N.eq_dec i (keys tx1)) as [Hi|Hi].
        - destruct (lookup i tx1) as [[tg0 x0]|] eqn:El.
          2:{ apply lookup_None_keys in El. contradiction. }
          destruct (EN i tg0 x0 (lookup_In _ _ _ El)) as (n' & Hn' & Hid & Hdoc).
          assert (H : x0 = doc_of n). { rewrite <- Hdoc. symmetry. apply Hcons; auto. }
          rewrite H in El. rewrite (proj_aset_same _ _ _ _ _ El). auto.
        - rewrite aset_notin by auto. unfold proj. rewrite map_app. intros e He. apply in_or_app. left. exact He. }
      assert (Hown : In (i, doc_of n) (proj (aset i (tg, doc_of n) tx1))).
      { unfold proj. apply in_map_iff. exists (i, (tg, doc_of n)). split; [reflexivity|].
        apply lookup_In. rewrite lookup_aset, N.eqb_refl. reflexivity. }
      split; [intros e He; apply M2; apply M1; exact He|].
      intros j Hj. apply keys_aset_inv in Hj. destruct Hj as [->|Hj]; [right; constructor|].
      destruct (C1 j Hj) as [Hj0|(cj & Hcj & Rj)]; [left; exact Hj0|]. right.
      eapply RT_step with (b := cj); [exact Hown|exact Hcj|]. eapply RT_mono; [exact M2|exact Rj].
  Qed.
End Conn.

(* ---- assembling ---- *)
Lemma Reach_target_listed s : closed s -> forall x y, Reach s x y -> x <> y -> lookup y s <> None.
Proof.
  intros Hc. induction 1 as [x|x p refs r w E Hr R IH]; intros Hne; [congruence|].
  destruct (N.eq_dec r w) as [->|Hn]; [|apply IH; exact Hn].
  destruct (Hc x _ E) as (q & rs & Eq & Hrs). injection Eq as <- <-. apply Hrs. exact Hr.
Qed.

(* a path of the old storage from an unwritten identifier to w survives the transaction when w is the only written
   identifier that was listed before *)
Lemma reach_survives s T w :
  closed s -> (forall x, In x (keys T) -> lookup x s <> None -> x = w) ->
  forall x y, Reach s x y -> y = w -> ~ In x (keys T) -> Reach (apply_tx T s) x w.
Proof.
  intros Hc Honly. induction 1 as [x|x p refs r y E Hr R IH]; intros Ey Hx.
  - subst. constructor.
  - assert (Hrl : lookup r s <> None).
    { destruct (Hc x _ E) as (q & rs & Eq & Hrs). injection Eq as <- <-. apply Hrs. exact Hr. }
    econstructor; [rewrite apply_tx_notin; [exact E|exact Hx]|exact Hr|].
    destruct (in_dec N.eq_dec r (keys T)) as [Hin|Hnin].
    + rewrite (Honly r Hin Hrl). constructor.
    + apply IH; auto.
Qed.

Theorem cycle_guard_exact : forall v b d c n,
  safe v b = true -> wf d c -> all_load (view d) -> consistentb n = true ->
  guard_C11_cycle d c (OOverwrite n) = false ->
  ~ all_load (view (run (steps_of (plan_of v b d c (OOverwrite n))) d)).
Proof.
  intros v b d c n Hs (s & Hm & Hc & Hcache) Hall Hcons Hg Hfinal.
  unfold guard_C11_cycle in Hg. unfold plan_of in Hfinal. rewrite (view_main _ _ Hm) in *.
  destruct (collect (keys s) c n []) as [tx|e] eqn:Ec; [|discriminate].
  cbn [steps_of] in Hfinal.
  destruct (tx_crash v b Hs tx d s (length (tx_steps v b d tx)) Hm) as (_ & sf & Hmf & _ & Hf).
  rewrite firstn_all in Hmf. specialize (Hf (le_n _)). rewrite (view_main _ _ Hmf) in Hfinal.
  assert (Hfin : all_load (apply_tx (proj tx) s)) by (eapply all_load_equiv; eauto).
  pose proof (consistentb_spec n Hcons) as Hcs.
  assert (Hck : forall i, has i c = true -> In i (keys s)).
  { intros i Hi. apply lookup_keys_in. auto. }
  assert (Hnil : Inv (keys s) (nodes n) (@nil (id * (N * doc)))).
  { split; [constructor|]. split; [apply ordered_nil|]. intros ? ? ? []. }
  destruct (collect_inv (keys s) c (nodes n) Hck Hcs n [] tx (incl_refl _) Hnil Ec) as ((ND & OR & EN) & _ & Hroot).
  destruct (collect_conn (keys s) c (nodes n) Hck Hcs n [] tx (incl_refl _) Hnil Ec) as (_ & Conn).
  assert (HS : InvS (keys s) c (nid_of n) tx).
  { apply (collect_invS (keys s) c (nid_of n) n [] tx); auto. intros ? []. }
  assert (Honly : forall x, In x (keys (proj tx)) -> lookup x s <> None -> x = nid_of n).
  { intros x Hx Hl. rewrite keys_proj in Hx. destruct (HS x Hx) as [Hst|E]; [|exact E].
    unfold in_storage in Hst. apply orb_false_iff in Hst. destruct Hst as [_ Hst].
    assert (Hmb : memb x (keys s) = true) by (apply memb_In; apply lookup_keys_in; exact Hl).
    exfalso. rewrite Hmb in Hst. discriminate. }
  (* the failing reference *)
  unfold no_back_refb in Hg. apply forallb_false_ex in Hg. destruct Hg as ([i x] & Hent & Hx). cbn in Hx.
  destruct x as [p refs|]; [|discriminate].
  apply forallb_false_ex in Hx. destruct Hx as (r & Hr & Hrx). apply orb_false_iff in Hrx. destruct Hrx as [Hnot Hre].
  apply forallb_false_ex in Hre. destruct Hre as (w & Hw & Hrw). apply negb_false_iff in Hrw.
  apply reachb_sound in Hrw.
  assert (Hrn : ~ In r (keys (proj tx))). { intros H. apply memb_In in H. unfold proj in H. rewrite H in Hnot. discriminate. }
  assert (Hne : r <> w). { intros ->. contradiction. }
  assert (Ew : w = nid_of n). { apply Honly; auto. eapply Reach_target_listed; eauto. }
  assert (NDp : NoDup (keys (proj tx))) by (rewrite keys_proj; exact ND).
  (* r ->* root survives; root ->* i through the buffer; i -> r *)
  assert (R1 : Reach (apply_tx (proj tx) s) r (nid_of n)).
  { eapply reach_survives; eauto. }
  assert (R2 : Reach (apply_tx (proj tx) s) (nid_of n) i).
  { apply RT_Reach; auto. assert (Hi : In i (keys tx)).
    { rewrite <- keys_proj. unfold keys. apply in_map_iff. exists (i, Full p refs). auto. }
    destruct (Conn i Hi) as [[]|H]. exact H. }
  assert (Ei : lookup i (apply_tx (proj tx) s) = Some (Full p refs)) by (apply in_lookup_apply; auto).
  apply (no_cycle _ i p refs r Ei Hr (Reach_trans _ _ _ _ R1 R2)).
  apply Hfin. rewrite Ei. discriminate.
Qed.

(* inside guard_C11_dup_id the buffer guard decides whether the completed overwrite leaves everything loadable *)
Theorem tx_guard_exact_consistent : forall v b d c n,
  safe v b = true -> wf d c -> all_load (view d) -> consistentb n = true ->
  (guard_C11_tx d c (OOverwrite n) = true <->
   all_load (view (run (steps_of (plan_of v b d c (OOverwrite n))) d))).
Proof.
  intros v b d c n Hs Hw Hall Hcons. split.
  - intros Hg. pose proof (crash_safe_tx v b d c (OOverwrite n)
                             (length (steps_of (plan_of v b d c (OOverwrite n)))) Hs Hw Hall I Hg) as H.
    cbv zeta in H. rewrite firstn_all in H. apply H.
  - intros Hfin. destruct (guard_C11_tx d c (OOverwrite n)) eqn:Et; [reflexivity|].
    destruct (guard_C11_cycle d c (OOverwrite n)) eqn:Ecy.
    + rewrite (guards_imply_tx d c (OOverwrite n) Hw Hall Hcons Ecy) in Et. discriminate.
    + exfalso. eapply cycle_guard_exact; eauto.
Qed.

Lemma cycle_guard_exact_nonvacuous :
  wf (disk_of cycle_store) cycle_cache /\ consistentb (Node 3 5 5 [Node 2 2 2 [Node 1 1 1 []]]) = true /\
  guard_C11_cycle (disk_of cycle_store) cycle_cache cycle_op = false /\
  guard_C11_tx (disk_of cycle_store) cycle_cache cycle_op = false.
Proof. split; [apply wf_of_closedb with (s := cycle_store); reflexivity|]. repeat split; reflexivity. Qed.

(* the cycle guard can only reject an operation whose top-level identifier is already stored: a store of a new
   identifier always passes it (the finding overwrite-creates-cycle needs an overwrite) *)
Lemma cycle_guard_false_root s c n tx :
  closed s -> collect (keys s) c n [] = Ok tx -> no_back_refb s (proj tx) = false -> lookup (nid_of n) s <> None.
Proof.
  intros Hc Ec Hg.
  assert (HS : InvS (keys s) c (nid_of n) tx).
  { apply (collect_invS (keys s) c (nid_of n) n [] tx); auto. intros ? []. }
  unfold no_back_refb in Hg. apply forallb_false_ex in Hg. destruct Hg as ([i x] & Hent & Hx). cbn in Hx.
  destruct x as [p refs|]; [|discriminate].
  apply forallb_false_ex in Hx. destruct Hx as (r & Hr & Hrx). apply orb_false_iff in Hrx. destruct Hrx as [Hnot Hre].
  apply forallb_false_ex in Hre. destruct Hre as (w & Hw & Hrw). apply negb_false_iff in Hrw.
  apply reachb_sound in Hrw.
  assert (Hne : r <> w).
  { intros ->. apply memb_In in Hw. rewrite Hw in Hnot. discriminate. }
  pose proof (Reach_target_listed s Hc r w Hrw Hne) as Hl.
  rewrite keys_proj in Hw. destruct (HS w Hw) as [Hst|E]; [|rewrite <- E; exact Hl].
  exfalso. unfold in_storage in Hst. apply orb_false_iff in Hst. destruct Hst as [_ Hst].
  assert (Hmb : memb w (keys s) = true) by (apply memb_In; apply lookup_keys_in; exact Hl).
  rewrite Hmb in Hst. discriminate.
Qed.

Theorem store_passes_cycle_guard : forall v b d c n steps c',
  wf d c -> plan_of v b d c (OStore n) = PSteps steps c' -> guard_C11_cycle d c (OStore n) = true.
Proof.
  intros v b d c n steps c' (s & Hm & Hc & Hcache) Hp.
  unfold guard_C11_cycle. unfold plan_of in Hp. rewrite (view_main _ _ Hm) in *.
  destruct n as [i tg p kids|]; [|discriminate].
  destruct (lookup i c) as [t|]. { destruct (t =? tg); discriminate. }
  destruct (memb i (keys s)) eqn:Em; [discriminate|].
  destruct (collect (keys s) c (Node i tg p kids) []) as [tx|e] eqn:Ec; [|reflexivity].
  destruct (no_back_refb s (map (fun e => (fst e, snd (snd e))) tx)) eqn:Eg; [reflexivity|].
  exfalso. pose proof (cycle_guard_false_root s c (Node i tg p kids) tx Hc Ec Eg) as Hl. cbn in Hl.
  assert (Hmb : memb i (keys s) = true) by (apply memb_In; apply lookup_keys_in; exact Hl).
  rewrite Hmb in Em. discriminate.
Qed.
