(* C11 — one guard on the TRANSACTION BUFFER instead of the two guards on the template / the old storage
   (round 3; definitions only).

   guard_C11_dup_id (consistentb) and guard_C11_cycle (no_back_refb) are sufficient but coarse: a template in which
   two different objects carry one identifier is outside consistentb even when the buffer the encoder builds from it
   is harmless (e.g. both objects have the same sub-templates and differ in their own data only).  What the proof
   of recursive loadability really uses is a property of the buffer `collect` produced:

     good_txb s T :  the keys of T are duplicate free, every buffered document is complete, and every reference of the
                     entry at position k goes to an entry at a position < k, or to an identifier of the old storage s
                     from which no identifier written by the transaction is reachable in s.                           *)
From Coq Require Import List NArith Bool.
Require Import QV.C11.Model QV.C11.Spec.
Import ListNotations.
Open Scope N_scope.

Fixpoint nodupb (l : list id) : bool :=
  match l with
  | [] => true
  | x :: r => negb (memb x r) && nodupb r
  end.

(* `seen` = the keys written before the current entry, W = all keys the transaction writes *)
Fixpoint good_from (s : store) (W seen : list id) (T : list (id * doc)) : bool :=
  match T with
  | [] => true
  | (i, x) :: r =>
      match x with
      | Full _ refs =>
          forallb (fun q => memb q seen
                            || (has q s && forallb (fun w => negb (reachb (length s) s q w)) W)) refs
      | Partial => false
      end && good_from s W (seen ++ [i]) r
  end.

Definition good_txb (s : store) (T : list (id * doc)) : bool :=
  nodupb (keys T) && good_from s (keys T) [] T.

(* guard_C11_tx: the buffer of the operation (if the encoder gets as far as building one) is good *)
Definition guard_C11_tx (d : disk) (c : cache) (o : op) : bool :=
  match o with
  | OStore n | OOverwrite n =>
      match collect (keys (view d)) c n [] with
      | Ok tx => good_txb (view d) (proj tx)
      | Err _ => true
      end
  | _ => true
  end.

(* the part of op_in_scope that is a quantifier of the property and not a guard: deletion only of entries nothing
   else refers to *)
Definition del_in_scope (d : disk) (o : op) : Prop :=
  match o with
  | ODelete i => forall j p refs, lookup j (view d) = Some (Full p refs) -> ~ In i refs
  | _ => True
  end.

(* a template outside guard_C11_dup_id whose buffer is good: two different objects (tags 1 and 2, payloads 1 and 2)
   carry the identifier 5 *)
Definition tx_ex_store : store := [(0, Full 3 [1]); (1, Full 1 [])].
Definition tx_ex_cache : cache := [(0, 3); (1, 1)].
Definition tx_ex_tmpl : tmpl := Node 4 9 9 [Node 5 1 1 [Node 1 1 1 []]; Node 5 2 2 [Node 1 1 1 []]].

(* ------------------------------------------------------------------------------------------------------------ *)
(* round 4: the EXACT guard.  guard_C11_tx is sufficient only (outside guard_C11_dup_id an orphan entry of the buffer
   may refer to the root without harm).  What clause (a) needs, no more and no less, is that the storage is
   completely loadable after every prefix of the buffer (the backends replace documents atomically, so these are the
   only contents a reader can see): executable, on the inputs of the operation alone.                             *)
Definition all_loadb (s : store) : bool := forallb (fun i => loadsb (length s) s i) (keys s).

Fixpoint prefixes_loadb (s : store) (T : list (id * doc)) : bool :=
  all_loadb s && match T with
                 | [] => true
                 | (i, x) :: r => prefixes_loadb (aset i x s) r
                 end.

(* the buffer the operation flushes, if it gets that far (mirrors plan_of) *)
Definition flushed (d : disk) (c : cache) (o : op) : option txbuf :=
  let ks := keys (view d) in
  match o with
  | OOverwrite n => match collect ks c n [] with Ok tx => Some tx | Err _ => None end
  | OStore n =>
      match n with
      | Bad => None
      | Node i _ _ _ =>
          match lookup i c with
          | Some _ => None
          | None => if memb i ks then None
                    else match collect ks c n [] with Ok tx => Some tx | Err _ => None end
          end
      end
  | _ => None
  end.

Definition guard_C11_exact (d : disk) (c : cache) (o : op) : bool :=
  match flushed d c o with
  | Some tx => prefixes_loadb (view d) (proj tx)
  | None => true
  end.

(* outside guard_C11_tx, inside guard_C11_exact: the first object named 7 and its child 5 (which refers to the cached
   object of the root 0) are replaced in the buffer by the second object named 7; the entry 5 stays as an orphan *)
Definition orphan_store : store := [(0, Full 9 [])].
Definition orphan_cache : cache := [(0, 9)].
Definition orphan_tmpl : tmpl := Node 0 1 1 [Node 7 2 2 [Node 5 3 3 [Node 0 9 9 []]]; Node 7 4 4 []].
