(* C11 — proofs about the buffer-level guard guard_C11_tx (Guard.v):
     crash_safe_tx        the three clauses (recursive loadability, old-or-new, no change before the first publishing
                          step) for every crash prefix under guard_C11_tx alone;
     guards_imply_tx      guard_C11_dup_id /\ guard_C11_cycle  ->  guard_C11_tx   (the new guard is weaker);
     tx_guard_strictly_weaker   a template outside guard_C11_dup_id inside guard_C11_tx.                            *)
From Coq Require Import List NArith Bool Lia Arith.
Require Import QV.C11.Model QV.C11.Spec QV.C11.Proofs QV.C11.Proofs_load QV.C11.Proofs_kill QV.C11.Guard.
Import ListNotations.
Open Scope N_scope.

Lemma nodupb_NoDup l : nodupb l = true <-> NoDup l.
Proof.
  induction l as [|x r IH]; cbn.
  - split; [constructor|auto].
  - rewrite andb_true_iff, negb_true_iff, IH. split.
    + intros [Hm Hn]. constructor; auto. intros Hin. apply memb_In in Hin. congruence.
    + intros H. inversion H; subst. split; auto.
      destruct (memb x r) eqn:E; auto. apply memb_In in E. contradiction.
Qed.

Lemma reachb_sound s : forall f x w, reachb f s x w = true -> Reach s x w.
Proof.
  induction f as [|f IH]; intros x w H.
  - cbn in H. rewrite orb_false_r in H. apply N.eqb_eq in H. subst. constructor.
  - rewrite reachb_S in H. apply orb_true_iff in H. destruct H as [H|H].
    + apply N.eqb_eq in H. subst. constructor.
    + destruct (lookup x s) as [[p refs|]|] eqn:E; try discriminate.
      apply existsb_exists in H. destruct H as (r & Hr & Hrw). econstructor; eauto.
Qed.

(* the executable test of "clean" *)
Definition cleanb (s : store) (W : list id) (q : id) : bool :=
  has q s && forallb (fun w => negb (reachb (length s) s q w)) W.

Lemma cleanb_Clean s W q : all_load s -> cleanb s W q = true -> Clean s W q.
Proof.
  intros Hall H. unfold cleanb in H. apply andb_true_iff in H. destruct H as [Hh Hf].
  apply has_lookup in Hh. split; [exact Hh|].
  intros w Hw R. rewrite forallb_forall in Hf. specialize (Hf w Hw). apply negb_true_iff in Hf.
  rewrite reachb_complete_len in Hf; [discriminate| |exact R]. apply Hall. exact Hh.
Qed.

Lemma Clean_cleanb s W q : Clean s W q -> cleanb s W q = true.
Proof.
  intros [Hl Hn]. unfold cleanb. apply andb_true_iff. split; [apply has_lookup; exact Hl|].
  apply forallb_forall. intros w Hw. apply negb_true_iff.
  destruct (reachb (length s) s q w) eqn:E; auto. exfalso. apply (Hn w Hw). eapply reachb_sound; eauto.
Qed.

Lemma good_from_spec s W : all_load s -> forall T seen, good_from s W seen T = true ->
  forall l1 i x l2, T = l1 ++ (i, x) :: l2 ->
    exists p refs, x = Full p refs /\ forall r, In r refs -> In r (seen ++ keys l1) \/ Clean s W r.
Proof.
  intros Hall. induction T as [|[j y] T IH]; intros seen H l1 i x l2 E.
  - destruct l1; discriminate.
  - cbn [good_from] in H. apply andb_true_iff in H. destruct H as [Hy HT].
    destruct l1 as [|[j' y'] l1]; cbn in E.
    + injection E as -> -> ->. destruct x as [p refs|]; [|discriminate].
      exists p, refs. split; [reflexivity|]. intros r Hr. rewrite forallb_forall in Hy.
      specialize (Hy r Hr). apply orb_true_iff in Hy. destruct Hy as [Hm|Hc].
      * left. apply memb_In in Hm. cbn. rewrite app_nil_r. exact Hm.
      * right. apply cleanb_Clean; auto.
    + injection E as -> -> ->.
      destruct (IH (seen ++ [j']) HT l1 i x l2 eq_refl) as (p & refs & -> & Hr).
      exists p, refs. split; [reflexivity|]. intros r Hin. destruct (Hr r Hin) as [H|H]; [left|right; exact H].
      cbn. rewrite <- app_assoc in H. exact H.
Qed.

Lemma good_txb_Good s T : all_load s -> good_txb s T = true -> NoDup (keys T) /\ Good s (keys T) T.
Proof.
  intros Hall H. unfold good_txb in H. apply andb_true_iff in H. destruct H as [Hn Hg].
  split; [apply nodupb_NoDup; exact Hn|].
  intros l1 i x l2 E. destruct (good_from_spec s (keys T) Hall T [] Hg l1 i x l2 E) as (p & refs & -> & Hr).
  exists p, refs. split; [reflexivity|]. exact Hr.
Qed.

Lemma Good_good_from s W : forall T seen,
  (forall l1 i x l2, T = l1 ++ (i, x) :: l2 ->
     exists p refs, x = Full p refs /\ forall r, In r refs -> In r (seen ++ keys l1) \/ Clean s W r) ->
  good_from s W seen T = true.
Proof.
  induction T as [|[j y] T IH]; intros seen H; [reflexivity|].
  cbn [good_from]. apply andb_true_iff. split.
  - destruct (H [] j y T eq_refl) as (p & refs & -> & Hr). apply forallb_forall. intros r Hin.
    apply orb_true_iff. destruct (Hr r Hin) as [Hs|Hc].
    + left. apply memb_In. cbn in Hs. rewrite app_nil_r in Hs. exact Hs.
    + right. apply Clean_cleanb. exact Hc.
  - apply IH. intros l1 i x l2 E. destruct (H ((j, y) :: l1) i x l2) as (p & refs & -> & Hr); [cbn; congruence|].
    exists p, refs. split; [reflexivity|]. intros r Hin. destruct (Hr r Hin) as [Hs|Hc]; [left|right; exact Hc].
    cbn in Hs. rewrite <- app_assoc. exact Hs.
Qed.

Lemma Good_good_txb s T : NoDup (keys T) -> Good s (keys T) T -> good_txb s T = true.
Proof.
  intros Hn Hg. unfold good_txb. apply andb_true_iff. split; [apply nodupb_NoDup; exact Hn|].
  apply Good_good_from. intros l1 i x l2 E. destruct (Hg l1 i x l2 E) as (p & refs & -> & Hr).
  exists p, refs. split; [reflexivity|]. exact Hr.
Qed.

(* every prefix of a good buffer keeps everything loadable *)
Lemma good_prefix_all_load s T j :
  closed s -> all_load s -> good_txb s T = true -> all_load (apply_tx (firstn j T) s).
Proof.
  intros Hc Hall Hg. destruct (good_txb_Good s T Hall Hg) as [ND HG].
  intros i Hi. apply loads_iff_Loads.
  apply (pre_all s (keys T) (firstn j T)); auto.
  - intros y Hy. apply loads_iff_Loads. auto.
  - unfold keys. rewrite <- firstn_map. apply NoDup_firstn. exact ND.
  - intros y Hy. unfold keys in Hy. rewrite <- firstn_map in Hy. eapply In_firstn; eauto.
  - apply Good_firstn. exact HG.
Qed.

(* the three clauses for the flush of a good buffer *)
Lemma tx_clauses v b d s tx k :
  safe v b = true -> main d = Some s -> closed s -> all_load s -> good_txb s (proj tx) = true ->
  let steps := tx_steps v b d tx in
  let d' := run (firstn k steps) d in
  (main d' <> None /\ all_load (view d')) /\
  (forall i, lookup i (view d') = lookup i (view d) \/ lookup i (view d') = lookup i (view (run steps d))) /\
  (no_publish (firstn k steps) = true -> main d' = main d).
Proof.
  intros Hs Hm Hc Hall Hg. cbv zeta. set (steps := tx_steps v b d tx).
  destruct (tx_crash v b Hs tx d s k Hm) as (j & s' & Hm' & He & _).
  destruct (tx_crash v b Hs tx d s (length steps) Hm) as (_ & sf & Hmf & _ & Hf).
  fold steps in Hm', Hmf, Hf. rewrite firstn_all in Hmf. specialize (Hf (le_n _)).
  split; [split|split].
  - rewrite Hm'. discriminate.
  - rewrite (view_main _ _ Hm'). eapply all_load_equiv; [apply equiv_sym; exact He|].
    apply good_prefix_all_load; auto.
  - intros i. rewrite (view_main _ _ Hm'), (view_main _ _ Hm), (view_main _ _ Hmf).
    rewrite (He i), (Hf i). apply prefix_old_or_new.
    unfold good_txb in Hg. apply andb_true_iff in Hg. apply nodupb_NoDup. apply Hg.
  - apply run_nopub.
Qed.

Lemma nil_clauses d s k :
  main d = Some s -> all_load s ->
  let d' := run (firstn k []) d in
  (main d' <> None /\ all_load (view d')) /\
  (forall i, lookup i (view d') = lookup i (view d) \/ lookup i (view d') = lookup i (view (run [] d))) /\
  (no_publish (firstn k []) = true -> main d' = main d).
Proof.
  intros Hm Hall. cbv zeta. rewrite firstn_nil. cbn. rewrite (view_main _ _ Hm), Hm.
  split; [split; [discriminate|exact Hall]|]. split; auto.
Qed.

Theorem crash_safe_tx : forall v b d c o k,
  safe v b = true -> wf d c -> all_load (view d) -> del_in_scope d o -> guard_C11_tx d c o = true ->
  let steps := steps_of (plan_of v b d c o) in
  let d' := run (firstn k steps) d in
  (main d' <> None /\ all_load (view d')) /\
  (forall i, lookup i (view d') = lookup i (view d) \/ lookup i (view d') = lookup i (view (run steps d))) /\
  (no_publish (firstn k steps) = true -> main d' = main d).
Proof.
  intros v b d c o k Hs (s & Hm & Hc & Hcache) Hall Hscope Hg.
  pose proof Hall as Hall0. rewrite (view_main _ _ Hm) in Hall0.
  pose proof (nil_clauses d s k Hm Hall0) as Hnil. cbv zeta in Hnil. cbv zeta.
  rewrite (view_main _ _ Hm) in Hnil.
  unfold guard_C11_tx in Hg. unfold plan_of. rewrite (view_main _ _ Hm) in Hg, Hall |- *.
  destruct o as [n|n|i|]; cbn [del_in_scope] in Hscope.
  - destruct n as [i tg p kids|]; [|exact Hnil].
    destruct (lookup i c) as [t|]. { destruct (t =? tg); exact Hnil. }
    destruct (memb i (keys s)); [exact Hnil|].
    destruct (collect (keys s) c (Node i tg p kids) []) as [tx|e] eqn:Ec; [|exact Hnil].
    cbn [steps_of]. pose proof (tx_clauses v b d s tx k Hs Hm Hc Hall Hg) as H. cbv zeta in H.
    rewrite (view_main _ _ Hm) in H. exact H.
  - destruct (collect (keys s) c n []) as [tx|e] eqn:Ec; [|exact Hnil].
    cbn [steps_of]. pose proof (tx_clauses v b d s tx k Hs Hm Hc Hall Hg) as H. cbv zeta in H.
    rewrite (view_main _ _ Hm) in H. exact H.
  - assert (Hop : op_in_scope d (ODelete i)). { cbn. exact Hscope. }
    assert (Hgc : guard_C11_cycle d c (ODelete i) = true) by reflexivity.
    assert (Hw : wf d c). { exists s. auto. }
    pose proof (crash_safe_all v b d c (ODelete i) k Hs Hw) as H.
    rewrite (view_main _ _ Hm) in H. specialize (H Hall Hop Hgc). cbv zeta in H.
    unfold plan_of in H. rewrite (view_main _ _ Hm) in H. exact H.
  - exact Hnil.
Qed.

(* both kinds of interruption *)
Theorem crash_safe_tx_kinds : forall ck v b d c o k,
  safe v b = true -> wf d c -> all_load (view d) -> del_in_scope d o -> guard_C11_tx d c o = true ->
  let steps := steps_of (plan_of v b d c o) in
  let d' := after_crash ck b steps k d in
  (main d' <> None /\ all_load (view d')) /\
  (forall i, lookup i (view d') = lookup i (view d) \/ lookup i (view d') = lookup i (view (run steps d))) /\
  (no_publish (firstn k steps) = true -> main d' = main d) /\
  (ck = Raised -> (k < length steps)%nat ->
   match b with BDict => True | BFs => tmpf d' = None | BZip => tmpz d' = None end).
Proof.
  intros ck v b d c o k Hs Hw Hall Hsc Hg. cbv zeta.
  rewrite after_crash_main, after_crash_view.
  destruct (crash_safe_tx v b d c o k Hs Hw Hall Hsc Hg) as (Ha & Hb & Hc).
  split; [exact Ha|]. split; [exact Hb|]. split; [exact Hc|].
  intros -> Hk. apply raised_no_leftover. exact Hk.
Qed.

(* the two round-2 guards imply the buffer guard *)
Theorem guards_imply_tx : forall d c o,
  wf d c -> all_load (view d) -> op_in_scope d o -> guard_C11_cycle d c o = true -> guard_C11_tx d c o = true.
Proof.
  intros d c o (s & Hm & Hc & Hcache) Hall Hscope Hg.
  unfold guard_C11_cycle in Hg. unfold guard_C11_tx. rewrite (view_main _ _ Hm) in *.
  destruct o as [n|n|i|]; cbn [op_in_scope] in Hscope; auto.
  - destruct (collect (keys s) c n []) as [tx|e] eqn:Ec; auto.
    destruct (good_tx s c n tx Hc Hall Hcache Hscope Ec Hg) as [ND HG]. apply Good_good_txb; auto.
  - destruct (collect (keys s) c n []) as [tx|e] eqn:Ec; auto.
    destruct (good_tx s c n tx Hc Hall Hcache Hscope Ec Hg) as [ND HG]. apply Good_good_txb; auto.
Qed.

(* ... and not the other way round *)
Lemma tx_ex_wf : wf (disk_of tx_ex_store) tx_ex_cache.
Proof. apply wf_of_closedb with (s := tx_ex_store); reflexivity. Qed.

Lemma tx_ex_all_load : all_load (view (disk_of tx_ex_store)).
Proof.
  intros i Hi. exists 3%nat. change (lookup i tx_ex_store <> None) in Hi. unfold tx_ex_store in *.
  cbn [lookup] in Hi.
  destruct (0 =? i) eqn:E0; [apply N.eqb_eq in E0; subst; reflexivity|].
  destruct (1 =? i) eqn:E1; [apply N.eqb_eq in E1; subst; reflexivity|]. congruence.
Qed.

Theorem tx_guard_strictly_weaker :
  wf (disk_of tx_ex_store) tx_ex_cache /\ all_load (view (disk_of tx_ex_store)) /\
  guard_C11_dup_id tx_ex_tmpl = false /\
  guard_C11_tx (disk_of tx_ex_store) tx_ex_cache (OOverwrite tx_ex_tmpl) = true /\
  forall b, (2 <= length (steps_of (plan_of current b (disk_of tx_ex_store) tx_ex_cache (OOverwrite tx_ex_tmpl))))%nat.
Proof.
  split; [exact tx_ex_wf|]. split; [exact tx_ex_all_load|]. split; [reflexivity|]. split; [reflexivity|].
  intros b. destruct b; vm_compute; lia.
Qed.

(* ------------------------------------------------------------------------------------------------------------ *)
(* histories under the buffer guard                                                                               *)

Lemma all_load_closed s : all_load s -> closed s.
Proof.
  intros H i x Hi. assert (Hl : loads s i) by (apply H; rewrite Hi; discriminate).
  destruct Hl as [f Hf]. destruct f as [|f]; [discriminate|]. rewrite loadsb_S, Hi in Hf.
  destruct x as [p refs|]; [|discriminate]. exists p, refs. split; auto.
  intros r Hr. rewrite forallb_forall in Hf. specialize (Hf r Hr). destruct f as [|f]; [discriminate|].
  rewrite loadsb_S in Hf. destruct (lookup r s); [discriminate|discriminate].
Qed.

Definition event_ok_tx (v : variant) (b : backend) (d : disk) (c : cache) (e : event) : Prop :=
  del_in_scope d (event_op e) /\ guard_C11_tx d c (event_op e) = true /\
  match e with
  | EvRaise o k => (k < length (steps_of (plan_of v b d c o)))%nat
  | _ => True
  end.

Fixpoint history_ok_tx (v : variant) (b : backend) (d : disk) (c : cache) (l : list event) : Prop :=
  match l with
  | [] => True
  | e :: r => event_ok_tx v b d c e /\ history_ok_tx v b (fst (event_state v b d c e)) (snd (event_state v b d c e)) r
  end.

Lemma raise_keeps_cache_tx v b d c o k s :
  safe v b = true -> main d = Some s ->
  (k < length (steps_of (plan_of v b d c o)))%nat ->
  forall i, lookup i s <> None -> lookup i (view (run (firstn k (steps_of (plan_of v b d c o))) d)) <> None.
Proof.
  intros Hs Hm Hk i Hi. revert Hk. unfold plan_of. rewrite (view_main _ _ Hm).
  assert (Hnil : (k < length (@nil prim))%nat -> lookup i (view (run (firstn k []) d)) <> None).
  { cbn. lia. }
  assert (Htx : forall tx, lookup i (view (run (firstn k (tx_steps v b d tx)) d)) <> None).
  { intros tx. destruct (tx_crash v b Hs tx d s k Hm) as (j & s' & Hm' & He & _).
    rewrite (view_main _ _ Hm'), (He i). apply firstn_keeps. exact Hi. }
  destruct o as [n|n|i0|].
  - destruct n as [i1 tg p kids|]; [|exact Hnil].
    destruct (lookup i1 c) as [t|]. { destruct (t =? tg); exact Hnil. }
    destruct (memb i1 (keys s)); [exact Hnil|].
    destruct (collect (keys s) c (Node i1 tg p kids) []) as [tx|e]; [|exact Hnil]. intros _. apply Htx.
  - destruct (collect (keys s) c n []) as [tx|e]; [|exact Hnil]. intros _. apply Htx.
  - destruct (memb i0 (keys s)); [|exact Hnil]. cbn [steps_of]. intros Hk.
    unfold view. rewrite (run_nopub _ _ (del_prefix_nopub v b d i0 k Hs Hk)), Hm. exact Hi.
  - exact Hnil.
Qed.

(* the cache after a completed operation stays inside the backend *)
Lemma done_wf_tx v b d c o s' :
  safe v b = true -> wf d c ->
  main (run (steps_of (plan_of v b d c o)) d) = Some s' -> closed s' ->
  wf (fst (event_state v b d c (EvDone o))) (snd (event_state v b d c (EvDone o))).
Proof.
  intros Hs Hw Hm' Hc'. pose proof Hw as (s & Hm & Hc & Hcache).
  cbn [event_state]. revert Hm'. unfold plan_of. rewrite (view_main _ _ Hm).
  assert (Htx : forall tx, main (run (tx_steps v b d tx) d) = Some s' ->
                           wf (run (tx_steps v b d tx) d) (cache_update tx c)).
  { intros tx Hm'. exists s'. split; auto. split; auto. intros i Hi.
    destruct (tx_crash v b Hs tx d s (length (tx_steps v b d tx)) Hm) as (j & s2 & Hm2 & _ & Hf).
    rewrite firstn_all in Hm2. rewrite Hm2 in Hm'. injection Hm' as ->. rewrite (Hf (le_n _) i).
    apply apply_tx_keeps. apply has_cache_update in Hi. destruct Hi as [Hi|Hi]; [left; auto|right].
    rewrite keys_proj. exact Hi. }
  destruct o as [n|n|i0|].
  - destruct n as [i1 tg p kids|]; [|intros _; exact Hw].
    destruct (lookup i1 c) as [t|]. { destruct (t =? tg); intros _; exact Hw. }
    destruct (memb i1 (keys s)); [intros _; exact Hw|].
    destruct (collect (keys s) c (Node i1 tg p kids) []) as [tx|e]; [|intros _; exact Hw]. cbn. apply Htx.
  - destruct (collect (keys s) c n []) as [tx|e]; [|intros _; exact Hw]. cbn. apply Htx.
  - destruct (memb i0 (keys s)); [|intros _; exact Hw]. cbn [steps_of fst snd]. intros Hm'.
    exists s'. split; auto. split; auto. intros j Hj. apply has_adel in Hj. destruct Hj as [Hne Hj].
    destruct (del_atomic v b d s i0 (length (del_steps v b d i0)) Hs Hm) as (s2 & Hm2 & _ & Hf).
    rewrite firstn_all in Hm2. rewrite Hm2 in Hm'. injection Hm' as ->. rewrite (Hf (le_n _) j).
    rewrite lookup_adel. destruct (i0 =? j) eqn:E; [apply N.eqb_eq in E; congruence|auto].
  - intros _. cbn. eapply wf_nil_cache; eauto.
Qed.

Lemma main_some d : main d <> None -> exists s, main d = Some s.
Proof. destruct (main d) as [s|]; [eauto|congruence]. Qed.

Lemma event_invariant_tx v b d c e :
  safe v b = true -> wf d c -> all_load (view d) -> event_ok_tx v b d c e ->
  wf (fst (event_state v b d c e)) (snd (event_state v b d c e)) /\
  all_load (view (fst (event_state v b d c e))).
Proof.
  intros Hs Hw Hall (Hsc & Hg & Hk). destruct e as [o|o k|o k]; cbn [event_op] in *.
  - pose proof (crash_safe_tx v b d c o (length (steps_of (plan_of v b d c o))) Hs Hw Hall Hsc Hg) as H.
    cbv zeta in H. rewrite firstn_all in H. destruct H as ((Hmn & Hal) & _ & _).
    destruct (main_some _ Hmn) as (s' & Hm').
    assert (Hc' : closed s'). { apply all_load_closed. rewrite <- (view_main _ _ Hm'). exact Hal. }
    split; [eapply done_wf_tx; eauto|].
    cbn [event_state]. destruct (plan_of v b d c o); cbn in *; auto.
  - cbn [event_state fst snd]. rewrite after_crash_view.
    destruct (crash_safe_tx v b d c o k Hs Hw Hall Hsc Hg) as ((Hmn & Hal) & _ & _).
    split; [|exact Hal]. destruct (main_some _ Hmn) as (s' & Hm').
    exists s'. split; [rewrite after_crash_main; exact Hm'|]. split.
    { apply all_load_closed. rewrite <- (view_main _ _ Hm'). exact Hal. }
    intros i Hi. destruct Hw as (s & Hm & _ & Hcache).
    pose proof (raise_keeps_cache_tx v b d c o k s Hs Hm Hk i (Hcache i Hi)) as H.
    rewrite (view_main _ _ Hm') in H. exact H.
  - cbn [event_state fst snd]. rewrite after_crash_view.
    destruct (crash_safe_tx v b d c o k Hs Hw Hall Hsc Hg) as ((Hmn & Hal) & _ & _).
    split; [|exact Hal]. destruct (main_some _ Hmn) as (s' & Hm').
    exists s'. split; [rewrite after_crash_main; exact Hm'|]. split.
    { apply all_load_closed. rewrite <- (view_main _ _ Hm'). exact Hal. }
    intros i H. discriminate.
Qed.

Theorem history_safe_tx : forall v b l d c,
  safe v b = true -> wf d c -> all_load (view d) -> history_ok_tx v b d c l ->
  wf (fst (run_events v b d c l)) (snd (run_events v b d c l)) /\ all_load (view (fst (run_events v b d c l))).
Proof.
  intros v b. induction l as [|e r IH]; intros d c Hs Hw Hall Hok; [cbn; auto|].
  destruct Hok as [He Hr]. destruct (event_invariant_tx v b d c e Hs Hw Hall He) as [Hw' Hall'].
  cbn [run_events]. apply IH; auto.
Qed.

(* the old history hypothesis implies the new one *)
Lemma history_ok_weaker : forall v b l d c,
  safe v b = true -> wf d c -> all_load (view d) -> history_ok v b d c l -> history_ok_tx v b d c l.
Proof.
  intros v b. induction l as [|e r IH]; intros d c Hs Hw Hall Hok; [exact I|].
  destruct Hok as [He Hr]. pose proof He as (Hsc & Hg & Hk).
  destruct (event_invariant v b d c e Hs Hw Hall He) as [Hw' Hall'].
  split; [|apply IH; auto]. split; [|split; [apply guards_imply_tx; auto|exact Hk]].
  destruct (event_op e); cbn in *; auto.
Qed.

Definition tx_ex_history : list event :=
  [EvDone (OOverwrite tx_ex_tmpl); EvRaise (OOverwrite (Node 4 10 10 [Node 6 11 11 []])) 1;
   EvKill (OStore (Node 8 7 7 [Node 9 8 8 []])) 2].

Lemma tx_history_nonvacuous :
  forall b, history_ok_tx current b (disk_of tx_ex_store) tx_ex_cache tx_ex_history /\
            (4 <= length (view (fst (run_events current b (disk_of tx_ex_store) tx_ex_cache tx_ex_history))))%nat.
Proof.
  intros b. split.
  - destruct b; vm_compute; repeat split; auto; lia.
  - destruct b; vm_compute; lia.
Qed.
