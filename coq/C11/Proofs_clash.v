(* C11 — round 6: WHEN the repaired encoder rejects a template for an identifier clash.  For every template whose
   named nodes below the root are new (identifier neither cached nor stored; the root itself may exist - overwrite) and
   whose object identities are coherent (the same (identifier, identity) = the same Python object = the same named
   objects below it): if two DIFFERENT objects (different identities) carry the same identifier anywhere in it, the
   overwrite is rejected, with EClash when nothing un-serializable is in the template, and nothing is performed.
   Until round 5 "which templates clash" was only the definition of collect2.                                      *)
From Coq Require Import List NArith Bool Arith Lia.
Require Import QV.C11.Model QV.C11.Spec QV.C11.Proofs QV.C11.Proofs_load QV.C11.Proofs_kill QV.C11.Guard
               QV.C11.Proofs_guard QV.C11.Proofs_tight QV.C11.Repair QV.C11.Proofs_repair QV.C11.Proofs_bad.
Import ListNotations.
Open Scope N_scope.

Definition same_obj (a b : tmpl) : bool := (nid_of a =? nid_of b) && (tag_of a =? tag_of b).

(* the same object has the same named objects below it *)
Definition coherent_subb (n : tmpl) : bool :=
  forallb (fun a => forallb (fun b => negb (same_obj a b)
                                      || forallb (fun m => existsb (same_obj m) (nodes b)) (nodes a)) (nodes n)) (nodes n).
(* every named node with another identifier than the root is new *)
Definition new_belowb (ks : list id) (c : cache) (n : tmpl) : bool :=
  forallb (fun m => (nid_of m =? nid_of n) || negb (in_storage ks c (nid_of m))) (nodes n).
(* one identifier on two different objects *)
Definition dup_clashb (n : tmpl) : bool :=
  existsb (fun a => existsb (fun b => (nid_of a =? nid_of b) && negb (tag_of a =? tag_of b)) (nodes n)) (nodes n).

Lemma nodes_are_nodes n m : In m (nodes n) -> exists i tg p kids, m = Node i tg p kids.
Proof.
  induction n as [|i tg p kids HF] using tmpl_ind'; [intros []|].
  cbn [nodes]. intros [<-|H]; [eauto|].
  apply in_flat_map in H. destruct H as (k & Hk & Hm). rewrite Forall_forall in HF. exact (HF k Hk Hm).
Qed.

Section ClashRejected.
  Variables (root : id) (ks : list id) (c : cache) (T : tmpl).
  Hypothesis Hcoh : forall a b, In a (nodes T) -> In b (nodes T) -> nid_of a = nid_of b -> tag_of a = tag_of b ->
    forall m, In m (nodes a) -> exists m', In m' (nodes b) /\ nid_of m = nid_of m' /\ tag_of m = tag_of m'.
  Hypothesis Hnew : forall m, In m (nodes T) -> nid_of m <> root -> in_storage ks c (nid_of m) = false.

  Definition regd (st : tstate) (m : tmpl) : Prop := lookup (nid_of m) (snd st) = Some (tag_of m).
  Definition GC (st : tstate) : Prop :=
    forall m, In m (nodes T) -> regd st m -> In (nid_of m) (keys (fst st)) -> forall m', In m' (nodes m) -> regd st m'.

  Definition PC (n : tmpl) : Prop :=
    incl (nodes n) (nodes T) -> forall st st', GC st -> Reg st -> collect2 root ks c n st = Ok st' ->
      (forall m, In m (nodes n) -> regd st' m) /\ GC st' /\ Reg st' /\ Stable st st'.


  Lemma kid_id_in ci ctg cp ck l : In (Node ci ctg cp ck) l -> In ci (kid_ids l).
  Proof. intros H. unfold kid_ids. apply in_flat_map. exists (Node ci ctg cp ck). split; [exact H|left; reflexivity]. Qed.

  Lemma walkC : forall l, Forall PC l -> (forall k, In k l -> incl (nodes k) (nodes T)) ->
    ~ In root (kid_ids l) ->
    forall st st', GC st -> Reg st -> walk_kids2 (collect2 root ks c) ks c l st = Ok st' ->
      (forall k m, In k l -> In m (nodes k) -> regd st' m) /\ GC st' /\ Reg st' /\ Stable st st'.
  Proof.
    induction 1 as [|k r Hk Hr IH]; intros Hin Hnr st st' HG HR Hw.
    - cbn in Hw. injection Hw as <-. split; [intros ? ? []|]. split; [exact HG|]. split; [exact HR|apply Stable_refl].
    - rewrite walk2_cons in Hw. destruct k as [ci ctg cp ck|]; [|discriminate].
      assert (Hkin : incl (nodes (Node ci ctg cp ck)) (nodes T)) by (apply Hin; left; reflexivity).
      assert (Hn : in_storage ks c ci = false).
      { apply (Hnew (Node ci ctg cp ck)); [apply Hkin; apply self_in_nodes|].
        cbn [nid_of]. intros ->. apply Hnr. apply (kid_id_in root ctg cp ck). left. reflexivity. }
      rewrite Hn in Hw. cbn [negb] in Hw.
      destruct (collect2 root ks c (Node ci ctg cp ck) st) as [st1|] eqn:Ec; [|discriminate].
      destruct (Hk Hkin st st1 HG HR Ec) as (B1 & G1 & R1 & S1).
      assert (Hnr' : ~ In root (kid_ids r)).
      { intros H. apply Hnr. unfold kid_ids in *. cbn [flat_map]. apply in_or_app. right. exact H. }
      destruct (IH (fun k Hk' => Hin k (or_intror Hk')) Hnr' st1 st' G1 R1 Hw) as (B2 & G2 & R2 & S2).
      split; [|split; [exact G2|split; [exact R2|eapply Stable_trans; eauto]]].
      intros k m [<-|Hk'] Hm; [|exact (B2 k m Hk' Hm)].
      apply (proj1 S2). exact (B1 m Hm).
  Qed.

  Lemma collectC : forall n, PC n.
  Proof.
    induction n as [|i tg p kids HF] using tmpl_ind'; intros Hincl st st' HG HR Hcol.
    - discriminate.
    - set (n := Node i tg p kids) in *.
      assert (HnT : In n (nodes T)) by (apply Hincl; apply self_in_nodes).
      unfold n in Hcol. rewrite collect2_node in Hcol.
      destruct (lookup i (snd st)) as [t|] eqn:El.
      + destruct ((t =? tg) && has i (fst st)) eqn:E; [|discriminate]. injection Hcol as <-.
        apply andb_true_iff in E. destruct E as [Et Eh]. apply N.eqb_eq in Et. subst t.
        split; [|split; [exact HG|split; [exact HR|apply Stable_refl]]].
        apply (HG n HnT); [exact El|apply has_In; exact Eh].
      + set (st1 := (fst st, (i, tg) :: snd st)) in *.
        destruct (walk_kids2 (collect2 root ks c) ks c kids st1) as [st2|] eqn:Ew; [|discriminate].
        destruct (memb root (kid_ids kids)) eqn:Em; [discriminate|]. injection Hcol as <-.
        assert (Hnr : ~ In root (kid_ids kids)).
        { intros H. apply memb_In in H. congruence. }
        assert (Hcons : forall m, regd st m -> regd st1 m).
        { intros m Hm. unfold regd in *. cbn [snd st1 lookup]. destruct (i =? nid_of m) eqn:E; [|exact Hm].
          apply N.eqb_eq in E. rewrite <- E, El in Hm. discriminate. }
        assert (G1 : GC st1).
        { intros m Hm Hl Hk m' Hm'. cbn [fst st1] in Hk. apply Hcons. apply (HG m Hm); [|exact Hk|exact Hm'].
          unfold regd in *. cbn [snd st1 lookup] in Hl. destruct (i =? nid_of m) eqn:E; [|exact Hl].
          apply N.eqb_eq in E. exfalso. apply (HR _ Hk). rewrite <- E. exact El. }
        assert (R1 : Reg st1).
        { intros j Hj. cbn [fst snd st1] in *. cbn [lookup]. destruct (i =? j); [discriminate|exact (HR j Hj)]. }
        destruct (walkC kids HF (fun k Hk => incl_tran (kid_nodes_incl i tg p kids k Hk) Hincl) Hnr st1 st2 G1 R1 Ew)
          as (B2 & G2 & R2 & (L2 & I2)).
        assert (Hi2 : lookup i (snd st2) = Some tg).
        { apply L2. cbn [snd st1 lookup]. rewrite N.eqb_refl. reflexivity. }
        assert (Hall : forall m, In m (nodes n) -> lookup (nid_of m) (snd st2) = Some (tag_of m)).
        { intros m Hm. unfold n in Hm. cbn [nodes] in Hm. destruct Hm as [<-|Hm]; [exact Hi2|].
          apply in_flat_map in Hm. destruct Hm as (k & Hk & Hm). exact (B2 k m Hk Hm). }
        split; [exact Hall|]. cbn [fst snd]. split; [|split; [|split]].
        * intros m Hm Hl Hk m' Hm'. unfold regd in *. cbn [fst snd] in *. apply keys_aset_inv in Hk.
          destruct Hk as [E|Hk]; [|exact (G2 m Hm Hl Hk m' Hm')].
          rewrite E, Hi2 in Hl. injection Hl as Ht.
          destruct (Hcoh m n Hm HnT E (eq_sym Ht) m' Hm') as (m'' & Hm'' & Ei & Etg).
          rewrite Ei, Etg. exact (Hall m'' Hm'').
        * intros j Hj. cbn [fst snd] in *. apply keys_aset_inv in Hj. destruct Hj as [->|Hj]; [rewrite Hi2; discriminate|exact (R2 j Hj)].
        * intros j t Hl. apply L2. cbn [snd st1 lookup]. destruct (i =? j) eqn:E; [|exact Hl].
          apply N.eqb_eq in E. subst j. rewrite El in Hl. discriminate.
        * cbn [fst]. eapply incl_tran; [exact I2|]. apply (proj1 (keys_aset_incl i (tg, doc_of (Node i tg p kids)) (fst st2))).
  Qed.

  (* two different objects under one identifier: the collection cannot succeed *)
  Lemma dup_collect2_err a b : In a (nodes T) -> In b (nodes T) -> nid_of a = nid_of b -> tag_of a <> tag_of b ->
    exists e, collect2 root ks c T ([], []) = Err e.
  Proof.
    intros Ha Hb Ei Et. destruct (collect2 root ks c T ([], [])) as [st|e] eqn:Ec; [|exists e; reflexivity].
    destruct (collectC T (incl_refl _) ([], []) st) as (H & _); [intros ? ? ? []|intros ? []|exact Ec|].
    pose proof (H a Ha) as H1. pose proof (H b Hb) as H2. unfold regd in *. rewrite Ei, H2 in H1.
    injection H1 as H1. congruence.
  Qed.
End ClashRejected.

(* the error kinds of the collection: EUnser only with an un-serializable object in the template *)
Definition PK root ks c (n : tmpl) : Prop :=
  forall st e, collect2 root ks c n st = Err e -> e = EClash \/ (e = EUnser /\ has_bad n = true).

Lemma walkK root ks c : forall l, Forall (PK root ks c) l -> forall st e,
  walk_kids2 (collect2 root ks c) ks c l st = Err e -> e = EClash \/ (e = EUnser /\ existsb has_bad l = true).
Proof.
  induction 1 as [|k r Hk Hr IH]; intros st e Hw; [discriminate|].
  rewrite walk2_cons in Hw. destruct k as [ci ctg cp ck|].
  - destruct (negb (in_storage ks c ci)).
    + destruct (collect2 root ks c (Node ci ctg cp ck) st) as [st1|e1] eqn:Ec.
      * destruct (IH st1 e Hw) as [->|(-> & Hb)]; [left; reflexivity|right]. split; [reflexivity|].
        cbn [existsb]. rewrite Hb. apply orb_true_r.
      * injection Hw as <-. destruct (Hk st e1 Ec) as [->|(-> & Hb)]; [left; reflexivity|right]. split; [reflexivity|].
        cbn [existsb]. rewrite Hb. reflexivity.
    + destruct (lookup ci c) as [t|]; [|injection Hw as <-; left; reflexivity].
      destruct (t =? ctg); [|injection Hw as <-; left; reflexivity].
      destruct (IH st e Hw) as [->|(-> & Hb)]; [left; reflexivity|right]. split; [reflexivity|].
      cbn [existsb]. rewrite Hb. apply orb_true_r.
  - injection Hw as <-. right. split; reflexivity.
Qed.

Lemma collectK root ks c : forall n, PK root ks c n.
Proof.
  induction n as [|i tg p kids HF] using tmpl_ind'; intros st e Hcol.
  - cbn in Hcol. injection Hcol as <-. right. split; reflexivity.
  - rewrite collect2_node in Hcol. destruct (lookup i (snd st)) as [t|].
    + destruct ((t =? tg) && has i (fst st)); [discriminate|]. injection Hcol as <-. left. reflexivity.
    + destruct (walk_kids2 (collect2 root ks c) ks c kids (fst st, (i, tg) :: snd st)) as [st2|e2] eqn:Ew.
      * destruct (memb root (kid_ids kids)); [|discriminate]. injection Hcol as <-. left. reflexivity.
      * injection Hcol as <-. destruct (walkK root ks c kids HF _ _ Ew) as [->|(-> & Hb)]; [left; reflexivity|right].
        split; [reflexivity|exact Hb].
Qed.

Lemma coherent_subb_spec T : coherent_subb T = true ->
  forall a b, In a (nodes T) -> In b (nodes T) -> nid_of a = nid_of b -> tag_of a = tag_of b ->
  forall m, In m (nodes a) -> exists m', In m' (nodes b) /\ nid_of m = nid_of m' /\ tag_of m = tag_of m'.
Proof.
  intros H a b Ha Hb Ei Et m Hm. unfold coherent_subb in H. rewrite forallb_forall in H. specialize (H a Ha).
  rewrite forallb_forall in H. specialize (H b Hb). unfold same_obj at 1 in H. rewrite Ei, Et, !N.eqb_refl in H. cbn in H.
  rewrite forallb_forall in H. specialize (H m Hm). apply existsb_exists in H. destruct H as (m' & Hm' & E).
  unfold same_obj in E. apply andb_true_iff in E. destruct E as [E1 E2]. apply N.eqb_eq in E1, E2. eauto.
Qed.

Lemma new_belowb_spec ks c T : new_belowb ks c T = true ->
  forall m, In m (nodes T) -> nid_of m <> nid_of T -> in_storage ks c (nid_of m) = false.
Proof.
  intros H m Hm Hne. unfold new_belowb in H. rewrite forallb_forall in H. specialize (H m Hm).
  apply orb_true_iff in H. destruct H as [H|H]; [apply N.eqb_eq in H; contradiction|apply negb_true_iff in H; exact H].
Qed.

Lemma dup_clashb_spec T : dup_clashb T = true ->
  exists a b, In a (nodes T) /\ In b (nodes T) /\ nid_of a = nid_of b /\ tag_of a <> tag_of b.
Proof.
  intros H. unfold dup_clashb in H. apply existsb_exists in H. destruct H as (a & Ha & H).
  apply existsb_exists in H. destruct H as (b & Hb & H). apply andb_true_iff in H. destruct H as [E1 E2].
  apply N.eqb_eq in E1. apply negb_true_iff in E2. apply N.eqb_neq in E2. eauto 7.
Qed.

(* the statement: two different objects under one identifier => rejected, as a clash unless something is
   un-serializable as well, and nothing is done at all; store: the same when the root identifier is new as well *)
Theorem clash_rejected : forall v b d c T,
  dup_clashb T = true -> coherent_subb T = true -> new_belowb (keys (view d)) c T = true ->
  (exists e, plan_of2 v b d c (OOverwrite T) = PErr e /\ (has_bad T = false -> e = EClash)) /\
  (in_storage (keys (view d)) c (nid_of T) = false ->
   exists e, plan_of2 v b d c (OStore T) = PErr e /\ (has_bad T = false -> e = EClash)) /\
  forall ck k, after_crash ck b (steps_of (plan_of2 v b d c (OOverwrite T))) k d = d /\
               (in_storage (keys (view d)) c (nid_of T) = false ->
                after_crash ck b (steps_of (plan_of2 v b d c (OStore T))) k d = d).
Proof.
  intros v b d c T Hd Hc Hn.
  destruct (dup_clashb_spec T Hd) as (x & y & Hx & Hy & Ei & Et).
  destruct (dup_collect2_err (nid_of T) (keys (view d)) c T (coherent_subb_spec T Hc) (new_belowb_spec _ _ T Hn)
              x y Hx Hy Ei Et) as (e & He).
  assert (Hk : has_bad T = false -> e = EClash).
  { intros Hb. destruct (collectK _ _ _ T _ _ He) as [->|(_ & Hb')]; [reflexivity|congruence]. }
  assert (H1 : plan_of2 v b d c (OOverwrite T) = PErr e).
  { unfold plan_of2, flush2. rewrite He. reflexivity. }
  assert (H2 : in_storage (keys (view d)) c (nid_of T) = false -> plan_of2 v b d c (OStore T) = PErr e).
  { intros Hi. destruct T as [i tg p kids|]; [|destruct (dup_clashb_spec Bad Hd) as (? & ? & [] & _)].
    cbn [nid_of] in Hi. unfold in_storage in Hi. apply orb_false_iff in Hi. destruct Hi as [Hc1 Hk1].
    unfold plan_of2. rewrite (lookup_None_has_inv i c Hc1), Hk1. unfold flush2. rewrite He. reflexivity. }
  split; [exists e; split; [exact H1|exact Hk]|]. split; [intros Hi; exists e; split; [exact (H2 Hi)|exact Hk]|].
  intros ck k. split; [rewrite H1|intros Hi; rewrite (H2 Hi)];
    cbn [steps_of]; unfold after_crash; rewrite firstn_nil; cbn; destruct ck; reflexivity.
Qed.

(* non-vacuity on the example storage: two different new objects under identifier 7 (depths 2 and 3), the shared
   object 5 occurs twice (coherent, the second occurrence is skipped); (a) below the EXISTING cached root identifier 0
   of the example (overwrite), (b) below a new root (store and overwrite) *)
Definition clash_tmpl (r : id) : tmpl :=
  Node r 1 1 [Node 5 2 2 [Node 7 4 4 []]; Node 6 3 3 [Node 5 2 2 [Node 7 4 4 []]; Node 7 9 9 []]].
Lemma clash_nonvacuous :
  dup_clashb (clash_tmpl 0) = true /\ dup_clashb (clash_tmpl 4) = true /\ has_bad (clash_tmpl 0) = false /\
  coherent_subb (clash_tmpl 0) = true /\ coherent_subb (clash_tmpl 4) = true /\
  new_belowb (keys (view (disk_of ex_store))) ex_cache (clash_tmpl 0) = true /\
  new_belowb (keys (view (disk_of ex_store))) ex_cache (clash_tmpl 4) = true /\
  in_storage (keys (view (disk_of ex_store))) ex_cache 0 = true /\
  in_storage (keys (view (disk_of ex_store))) ex_cache 4 = false /\
  (forall b, plan_of2 current b (disk_of ex_store) ex_cache (OOverwrite (clash_tmpl 0)) = PErr EClash) /\
  (forall b, plan_of2 current b (disk_of ex_store) ex_cache (OStore (clash_tmpl 4)) = PErr EClash) /\
  (* the hypothesis matters: WITHOUT the second object under 7 the same template is accepted and written *)
  (forall b, exists s c', plan_of2 current b (disk_of ex_store) ex_cache
     (OOverwrite (Node 4 1 1 [Node 5 2 2 [Node 7 4 4 []]; Node 6 3 3 [Node 5 2 2 [Node 7 4 4 []]]])) = PSteps s c'
     /\ s <> []).
Proof.
  repeat (split; [reflexivity|]).
  intros b. destruct b; eexists; eexists; (split; [reflexivity|discriminate]).
Qed.
