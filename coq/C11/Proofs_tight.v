(* C11 — round 4: the exact guard (Guard.v, guard_C11_exact).
   Clauses (b) old-or-new and (c) nothing-before-the-first-publishing-step need NO guard at all; clause (a) "the
   archive exists and every listed identifier loads, at every interruption point" holds IF AND ONLY IF the buffer
   passes guard_C11_exact.  guard_C11_tx implies it, strictly.                                                  *)
From Coq Require Import List NArith Bool Arith Lia.
Require Import QV.C11.Model QV.C11.Spec QV.C11.Proofs QV.C11.Proofs_load QV.C11.Proofs_kill QV.C11.Guard
               QV.C11.Proofs_guard.
Import ListNotations.
Open Scope N_scope.

Lemma all_loadb_spec s : all_loadb s = true <-> all_load s.
Proof.
  unfold all_loadb, all_load. rewrite forallb_forall. split.
  - intros H i Hi. exists (length s). apply H. apply lookup_keys_in. exact Hi.
  - intros H i Hi. destruct (H i) as [f Hf].
    + intro E. apply lookup_None_keys in E. contradiction.
    + eapply loadsb_length_bound. exact Hf.
Qed.

Lemma prefixes_loadb_spec : forall T s,
  prefixes_loadb s T = true <-> forall j, all_load (apply_tx (firstn j T) s).
Proof.
  induction T as [|[i x] r IH]; intros s; cbn [prefixes_loadb].
  - rewrite andb_true_r, all_loadb_spec. split.
    + intros H j. rewrite firstn_nil. exact H.
    + intros H. exact (H 0%nat).
  - rewrite andb_true_iff, all_loadb_spec, IH. split.
    + intros [H0 H] [|j]; [exact H0|]. cbn. apply H.
    + intros H. split; [exact (H 0%nat)|]. intros j. exact (H (S j)).
Qed.

(* the transaction buffer never holds a key twice *)
Lemma walk_nodup ks c : forall l,
  Forall (fun n => forall tx tx', NoDup (keys tx) -> collect ks c n tx = Ok tx' -> NoDup (keys tx')) l ->
  forall tx tx', NoDup (keys tx) -> walk_kids (collect ks c) ks c l tx = Ok tx' -> NoDup (keys tx').
Proof.
  induction 1 as [|k r Hk Hr IH]; intros tx tx' Hn Hw.
  - cbn in Hw. injection Hw as <-. exact Hn.
  - rewrite walk_cons in Hw. destruct k as [ci ctg cp ck|]; [|discriminate].
    destruct (negb (in_storage ks c ci)).
    + destruct (collect ks c (Node ci ctg cp ck) tx) as [tx1|] eqn:Ec; [|discriminate].
      eapply IH; [|exact Hw]. eapply Hk; eauto.
    + destruct (lookup ci c) as [t|]; [|discriminate]. destruct (t =? ctg); [|discriminate].
      eapply IH; eauto.
Qed.

Lemma collect_nodup ks c : forall n tx tx',
  NoDup (keys tx) -> collect ks c n tx = Ok tx' -> NoDup (keys tx').
Proof.
  induction n as [|i tg p kids HF] using tmpl_ind'; intros tx tx' Hn Hc.
  - discriminate.
  - rewrite collect_node in Hc.
    destruct (walk_kids (collect ks c) ks c kids tx) as [tx1|] eqn:Ew; [|discriminate].
    injection Hc as <-. apply NoDup_keys_aset. eapply walk_nodup; eauto.
Qed.

(* every prefix of the buffer is what a reader sees at some interruption point (the point between two puts) *)
Lemma tx_boundary v b : safe v b = true -> forall tx d s j, main d = Some s ->
  exists k s', main (run (firstn k (tx_steps v b d tx)) d) = Some s'
               /\ equiv s' (apply_tx (firstn j (proj tx)) s).
Proof.
  intros Hs. induction tx as [|[i [tg x]] r IH]; intros d s j Hm.
  - exists 0%nat, s. cbn. rewrite firstn_nil. cbn. split; [exact Hm|apply equiv_refl].
  - destruct j as [|j].
    + exists 0%nat, s. cbn. split; [exact Hm|apply equiv_refl].
    + cbn [tx_steps]. set (st := put_steps v b d i x).
      destruct (put_atomic v b d s i x (length st) Hs Hm) as (s1 & Hm1 & _ & Hfull). fold st in Hm1, Hfull.
      rewrite firstn_all in Hm1. specialize (Hfull (le_n _)).
      destruct (IH (run st d) s1 j Hm1) as (k & s' & Hm' & He).
      exists (length st + k)%nat, s'. split.
      * rewrite firstn_app_2, run_app. exact Hm'.
      * cbn. eapply equiv_trans; [exact He|]. apply apply_tx_equiv. exact Hfull.
Qed.

Definition clause_bc (steps : list prim) (d : disk) (k : nat) : Prop :=
  let d' := run (firstn k steps) d in
  (forall i, lookup i (view d') = lookup i (view d) \/ lookup i (view d') = lookup i (view (run steps d))) /\
  (no_publish (firstn k steps) = true -> main d' = main d).

Definition clause_a (steps : list prim) (d : disk) (k : nat) : Prop :=
  let d' := run (firstn k steps) d in main d' <> None /\ all_load (view d').

Lemma tx_exact v b d s tx :
  safe v b = true -> main d = Some s -> NoDup (keys tx) ->
  (forall k, clause_bc (tx_steps v b d tx) d k) /\
  (prefixes_loadb s (proj tx) = true <-> forall k, clause_a (tx_steps v b d tx) d k).
Proof.
  intros Hs Hm Hn. set (steps := tx_steps v b d tx). split.
  - intros k. unfold clause_bc. cbv zeta.
    destruct (tx_crash v b Hs tx d s k Hm) as (j & s' & Hm' & He & _).
    destruct (tx_crash v b Hs tx d s (length steps) Hm) as (_ & sf & Hmf & _ & Hf).
    fold steps in Hm', Hmf, Hf. rewrite firstn_all in Hmf. specialize (Hf (le_n _)).
    split.
    + intros i. rewrite (view_main _ _ Hm'), (view_main _ _ Hm), (view_main _ _ Hmf).
      rewrite (He i), (Hf i). apply prefix_old_or_new. rewrite keys_proj. exact Hn.
    + apply run_nopub.
  - rewrite prefixes_loadb_spec. split.
    + intros H k. unfold clause_a. cbv zeta.
      destruct (tx_crash v b Hs tx d s k Hm) as (j & s' & Hm' & He & _). fold steps in Hm'.
      split; [rewrite Hm'; discriminate|].
      rewrite (view_main _ _ Hm'). eapply all_load_equiv; [apply equiv_sym; exact He|]. apply H.
    + intros H j. destruct (tx_boundary v b Hs tx d s j Hm) as (k & s' & Hm' & He). fold steps in Hm'.
      destruct (H k) as [_ Ha]. cbv zeta in Ha. rewrite (view_main _ _ Hm') in Ha.
      eapply all_load_equiv; [exact He|exact Ha].
Qed.

Lemma nil_exact d s :
  main d = Some s -> all_load s ->
  (forall k, clause_bc [] d k) /\ (true = true <-> forall k, clause_a [] d k).
Proof.
  intros Hm Hall. split.
  - intros k. unfold clause_bc. cbv zeta. rewrite firstn_nil. cbn. split; auto.
  - split; [|reflexivity]. intros _ k. unfold clause_a. cbv zeta. rewrite firstn_nil. cbn.
    rewrite (view_main _ _ Hm), Hm. split; [discriminate|exact Hall].
Qed.

Lemma clauses_split steps d :
  (forall k, let d' := run (firstn k steps) d in
     (main d' <> None /\ all_load (view d')) /\
     (forall i, lookup i (view d') = lookup i (view d) \/ lookup i (view d') = lookup i (view (run steps d))) /\
     (no_publish (firstn k steps) = true -> main d' = main d)) ->
  (forall k, clause_bc steps d k) /\ (true = true <-> forall k, clause_a steps d k).
Proof.
  intros H. split.
  - intros k. destruct (H k) as (_ & Hb & Hc). split; assumption.
  - split; [|reflexivity]. intros _ k. destruct (H k) as (Ha & _). exact Ha.
Qed.

(* THE EXACT THEOREM.  No guard for (b) and (c); (a) at every interruption point iff guard_C11_exact. *)
Theorem crash_safe_exact : forall v b d c o,
  safe v b = true -> wf d c -> all_load (view d) -> del_in_scope d o ->
  let steps := steps_of (plan_of v b d c o) in
  (forall k, clause_bc steps d k) /\
  (guard_C11_exact d c o = true <-> forall k, clause_a steps d k).
Proof.
  intros v b d c o Hs Hw Hall Hscope. pose proof Hw as (s & Hm & Hc & Hcache).
  pose proof Hall as Hall0. rewrite (view_main _ _ Hm) in Hall0.
  pose proof (nil_exact d s Hm Hall0) as Hnil. cbv zeta.
  destruct o as [n|n|i|].
  - unfold guard_C11_exact, flushed, plan_of. rewrite (view_main _ _ Hm).
    destruct n as [i tg p kids|]; [|exact Hnil].
    destruct (lookup i c) as [t|]. { destruct (t =? tg); exact Hnil. }
    destruct (memb i (keys s)); [exact Hnil|].
    destruct (collect (keys s) c (Node i tg p kids) []) as [tx|e] eqn:Ec; [|exact Hnil].
    cbn [steps_of]. apply tx_exact; auto. eapply collect_nodup; [|exact Ec]. constructor.
  - unfold guard_C11_exact, flushed, plan_of. rewrite (view_main _ _ Hm).
    destruct (collect (keys s) c n []) as [tx|e] eqn:Ec; [|exact Hnil].
    cbn [steps_of]. apply tx_exact; auto. eapply collect_nodup; [|exact Ec]. constructor.
  - change (guard_C11_exact d c (ODelete i)) with true. apply clauses_split.
    intros k. exact (crash_safe_tx v b d c (ODelete i) k Hs Hw Hall Hscope eq_refl).
  - change (guard_C11_exact d c OClear) with true. apply clauses_split.
    intros k. exact (crash_safe_tx v b d c OClear k Hs Hw Hall Hscope eq_refl).
Qed.

(* both kinds of interruption (a raise runs the clean-up of the interrupted backend call, which touches temporary
   files only) *)
Theorem crash_safe_exact_kinds : forall v b d c o,
  safe v b = true -> wf d c -> all_load (view d) -> del_in_scope d o ->
  let steps := steps_of (plan_of v b d c o) in
  (forall ck k, let d' := after_crash ck b steps k d in
     (forall i, lookup i (view d') = lookup i (view d) \/ lookup i (view d') = lookup i (view (run steps d))) /\
     (no_publish (firstn k steps) = true -> main d' = main d)) /\
  (guard_C11_exact d c o = true <->
   forall ck k, let d' := after_crash ck b steps k d in main d' <> None /\ all_load (view d')).
Proof.
  intros v b d c o Hs Hw Hall Hscope. cbv zeta.
  destruct (crash_safe_exact v b d c o Hs Hw Hall Hscope) as [Hbc Hiff]. cbv zeta in Hbc, Hiff. split.
  - intros ck k. rewrite after_crash_main, after_crash_view. exact (Hbc k).
  - rewrite Hiff. split.
    + intros H ck k. rewrite after_crash_main, after_crash_view. exact (H k).
    + intros H k. specialize (H Killed k). rewrite after_crash_main, after_crash_view in H. exact H.
Qed.

(* the buffer guard of round 3 implies the exact guard ... *)
Theorem tx_guard_implies_exact : forall v b d c o,
  safe v b = true -> wf d c -> all_load (view d) -> del_in_scope d o ->
  guard_C11_tx d c o = true -> guard_C11_exact d c o = true.
Proof.
  intros v b d c o Hs Hw Hall Hscope Hg.
  apply (crash_safe_exact v b d c o Hs Hw Hall Hscope). intros k.
  destruct (crash_safe_tx v b d c o k Hs Hw Hall Hscope Hg) as (Ha & _). exact Ha.
Qed.

(* ... strictly: the orphan entry *)
Lemma orphan_wf : wf (disk_of orphan_store) orphan_cache.
Proof. apply wf_of_closedb with (s := orphan_store); reflexivity. Qed.

Lemma orphan_all_load : all_load (view (disk_of orphan_store)).
Proof. apply all_loadb_spec. reflexivity. Qed.

Theorem exact_guard_strictly_weaker :
  wf (disk_of orphan_store) orphan_cache /\ all_load (view (disk_of orphan_store)) /\
  guard_C11_tx (disk_of orphan_store) orphan_cache (OOverwrite orphan_tmpl) = false /\
  guard_C11_exact (disk_of orphan_store) orphan_cache (OOverwrite orphan_tmpl) = true /\
  forall b, (3 <= length (steps_of (plan_of current b (disk_of orphan_store) orphan_cache (OOverwrite orphan_tmpl))))%nat.
Proof.
  split; [exact orphan_wf|]. split; [exact orphan_all_load|]. split; [reflexivity|]. split; [reflexivity|].
  intros []; cbn; lia.
Qed.

(* ... and the exact guard rejects the witnesses of both known findings *)
Theorem exact_guard_rejects_findings :
  guard_C11_exact (disk_of cycle_store) cycle_cache cycle_op = false.
Proof. reflexivity. Qed.

Theorem exact_guard_rejects_dup_witness :
  guard_C11_exact (disk_of []) [] (OOverwrite dup_witness) = false.
Proof. reflexivity. Qed.

(* ---- histories under the exact guard ---- *)
Lemma exact_clause_a v b d c o k :
  safe v b = true -> wf d c -> all_load (view d) -> del_in_scope d o -> guard_C11_exact d c o = true ->
  let d' := run (firstn k (steps_of (plan_of v b d c o))) d in main d' <> None /\ all_load (view d').
Proof.
  intros Hs Hw Hall Hsc Hg. destruct (crash_safe_exact v b d c o Hs Hw Hall Hsc) as [_ Hiff].
  cbv zeta in Hiff. exact (proj1 Hiff Hg k).
Qed.

Definition event_ok_exact (v : variant) (b : backend) (d : disk) (c : cache) (e : event) : Prop :=
  del_in_scope d (event_op e) /\ guard_C11_exact d c (event_op e) = true /\
  match e with
  | EvRaise o k => (k < length (steps_of (plan_of v b d c o)))%nat
  | _ => True
  end.

Fixpoint history_ok_exact (v : variant) (b : backend) (d : disk) (c : cache) (l : list event) : Prop :=
  match l with
  | [] => True
  | e :: r => event_ok_exact v b d c e /\
              history_ok_exact v b (fst (event_state v b d c e)) (snd (event_state v b d c e)) r
  end.

Lemma event_invariant_exact v b d c e :
  safe v b = true -> wf d c -> all_load (view d) -> event_ok_exact v b d c e ->
  wf (fst (event_state v b d c e)) (snd (event_state v b d c e)) /\
  all_load (view (fst (event_state v b d c e))).
Proof.
  intros Hs Hw Hall (Hsc & Hg & Hk). destruct e as [o|o k|o k]; cbn [event_op] in *.
  - pose proof (exact_clause_a v b d c o (length (steps_of (plan_of v b d c o))) Hs Hw Hall Hsc Hg) as H.
    cbv zeta in H. rewrite firstn_all in H. destruct H as (Hmn & Hal).
    destruct (main_some _ Hmn) as (s' & Hm').
    assert (Hc' : closed s'). { apply all_load_closed. rewrite <- (view_main _ _ Hm'). exact Hal. }
    split; [eapply done_wf_tx; eauto|].
    cbn [event_state]. destruct (plan_of v b d c o); cbn in *; auto.
  - cbn [event_state fst snd]. rewrite after_crash_view.
    destruct (exact_clause_a v b d c o k Hs Hw Hall Hsc Hg) as (Hmn & Hal).
    split; [|exact Hal]. destruct (main_some _ Hmn) as (s' & Hm').
    exists s'. split; [rewrite after_crash_main; exact Hm'|]. split.
    { apply all_load_closed. rewrite <- (view_main _ _ Hm'). exact Hal. }
    intros i Hi. destruct Hw as (s & Hm & _ & Hcache).
    pose proof (raise_keeps_cache_tx v b d c o k s Hs Hm Hk i (Hcache i Hi)) as H.
    rewrite (view_main _ _ Hm') in H. exact H.
  - cbn [event_state fst snd]. rewrite after_crash_view.
    destruct (exact_clause_a v b d c o k Hs Hw Hall Hsc Hg) as (Hmn & Hal).
    split; [|exact Hal]. destruct (main_some _ Hmn) as (s' & Hm').
    exists s'. split; [rewrite after_crash_main; exact Hm'|]. split.
    { apply all_load_closed. rewrite <- (view_main _ _ Hm'). exact Hal. }
    intros i H. discriminate.
Qed.

Theorem history_safe_exact : forall v b l d c,
  safe v b = true -> wf d c -> all_load (view d) -> history_ok_exact v b d c l ->
  wf (fst (run_events v b d c l)) (snd (run_events v b d c l)) /\ all_load (view (fst (run_events v b d c l))).
Proof.
  intros v b. induction l as [|e r IH]; intros d c Hs Hw Hall Hok; [cbn; auto|].
  destruct Hok as [He Hr]. destruct (event_invariant_exact v b d c e Hs Hw Hall He) as [Hw' Hall'].
  cbn [run_events]. apply IH; auto.
Qed.

Lemma history_ok_tx_exact : forall v b l d c,
  safe v b = true -> wf d c -> all_load (view d) -> history_ok_tx v b d c l -> history_ok_exact v b d c l.
Proof.
  intros v b. induction l as [|e r IH]; intros d c Hs Hw Hall Hok; [exact I|].
  destruct Hok as [He Hr]. pose proof He as (Hsc & Hg & Hk).
  destruct (event_invariant_tx v b d c e Hs Hw Hall He) as [Hw' Hall'].
  split; [|apply IH; auto]. split; [exact Hsc|]. split; [|exact Hk].
  eapply tx_guard_implies_exact; eauto.
Qed.

(* a history over the orphan template: completed, then an overwrite interrupted by a raise, then a killed store *)
Definition orphan_history : list event :=
  [EvDone (OOverwrite orphan_tmpl); EvRaise (OOverwrite (Node 7 10 10 [Node 6 11 11 []])) 1;
   EvKill (OStore (Node 8 7 7 [Node 9 8 8 []])) 2].

Lemma orphan_history_nonvacuous :
  forall b, history_ok_exact current b (disk_of orphan_store) orphan_cache orphan_history /\
            ~ history_ok_tx current b (disk_of orphan_store) orphan_cache orphan_history /\
            (3 <= length (view (fst (run_events current b (disk_of orphan_store) orphan_cache orphan_history))))%nat.
Proof.
  intros b. split; [|split].
  - destruct b; vm_compute; repeat split; auto; lia.
  - intros ((_ & Hg & _) & _). vm_compute in Hg. discriminate.
  - destruct b; vm_compute; lia.
Qed.
