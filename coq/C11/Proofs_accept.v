(* C11 — round 6: the converse of Proofs_defect.v / Proofs_clash.v.  A template without reachable defect, in which no
   identifier names two different objects and no named object carries the identifier of one of its ancestors (an
   object inside itself: impossible for immutable trees), is ACCEPTED by the repaired encoder: overwrite answers a
   plan with steps, for every storage content and cache.  With C11_defect_rejected and C11_clash_rejected this says
   which templates are rejected before the first backend call.                                                    *)
From Coq Require Import List NArith Bool Arith Lia.
Require Import QV.C11.Model QV.C11.Spec QV.C11.Proofs QV.C11.Proofs_load QV.C11.Proofs_kill QV.C11.Guard
               QV.C11.Proofs_guard QV.C11.Proofs_tight QV.C11.Repair QV.C11.Proofs_repair QV.C11.Proofs_bad
               QV.C11.Proofs_clash QV.C11.Proofs_defect.
Import ListNotations.
Open Scope N_scope.

Definition proper (n : tmpl) : list tmpl :=
  match n with Node _ _ _ kids => flat_map nodes kids | Bad => [] end.
Definition no_nestb (n : tmpl) : bool :=
  forallb (fun a => negb (memb (nid_of a) (map nid_of (proper a)))) (nodes n).

Lemma existsb_false {A} (f : A -> bool) l : existsb f l = false -> forall x, In x l -> f x = false.
Proof.
  intros H x Hx. destruct (f x) eqn:E; [|reflexivity].
  assert (existsb f l = true) by (apply existsb_exists; eauto). congruence.
Qed.

Lemma proper_incl n : incl (proper n) (nodes n).
Proof. destruct n as [i tg p kids|]; [|intros ? []]. intros m Hm. cbn [nodes]. right. exact Hm. Qed.

Section Accepted.
  Variables (root : id) (ks : list id) (c : cache) (T : tmpl).
  Notation df := (defect root ks c).
  Hypothesis Hnodup : forall a b, In a (nodes T) -> In b (nodes T) -> nid_of a = nid_of b -> tag_of a = tag_of b.
  Hypothesis Hnest : forall a m, In a (nodes T) -> In m (proper a) -> nid_of m <> nid_of a.

  (* registered = buffered or an ancestor in progress; registered identities come from the template *)
  Definition IA (st : tstate) (anc : list tmpl) : Prop :=
    forall j, lookup j (snd st) <> None -> In j (keys (fst st)) \/ exists a, In a anc /\ nid_of a = j.
  Definition Src (st : tstate) : Prop :=
    forall j t, lookup j (snd st) = Some t -> exists m, In m (nodes T) /\ nid_of m = j /\ tag_of m = t.

  Definition PA (n : tmpl) : Prop :=
    forall anc st, incl (nodes n) (nodes T) ->
      (forall a, In a anc -> In a (nodes T) /\ incl (nodes n) (proper a)) ->
      IA st anc -> Src st -> df n = false ->
      exists st', collect2 root ks c n st = Ok st' /\ IA st' anc /\ Src st'.

  Lemma walkA anc : forall l, Forall PA l -> (forall k, In k l -> incl (nodes k) (nodes T)) ->
    (forall k a, In k l -> In a anc -> In a (nodes T) /\ incl (nodes k) (proper a)) ->
    (forall k, In k l -> kid_defect root ks c df k = false) ->
    forall st, IA st anc -> Src st ->
      exists st', walk_kids2 (collect2 root ks c) ks c l st = Ok st' /\ IA st' anc /\ Src st'.
  Proof.
    induction 1 as [|k r Hk Hr IH]; intros Hin Hanc Hd st HI HS.
    - exists st. split; [reflexivity|split; assumption].
    - rewrite walk2_cons. pose proof (Hd k (or_introl eq_refl)) as Hdk.
      destruct k as [ci ctg cp ck|]; [|discriminate].
      cbn [kid_defect] in Hdk. apply orb_false_iff in Hdk. destruct Hdk as [Hne Hdk].
      assert (Hrest : forall st1, IA st1 anc -> Src st1 ->
                exists st', walk_kids2 (collect2 root ks c) ks c r st1 = Ok st' /\ IA st' anc /\ Src st').
      { intros st1 H1 H2. apply IH; auto.
        - intros k Hk'. apply Hin. right. exact Hk'.
        - intros k a Hk' Ha. apply Hanc; [right; exact Hk'|exact Ha].
        - intros k Hk'. apply Hd. right. exact Hk'. }
      destruct (in_storage ks c ci) eqn:Hn; cbn [negb].
      + apply negb_false_iff in Hdk. unfold cached_as in Hdk. destruct (lookup ci c) as [t|]; [|discriminate].
        rewrite Hdk. apply Hrest; assumption.
      + destruct (Hk anc st) as (st1 & -> & I1 & S1); auto.
        * apply Hin. left. reflexivity.
        * intros a Ha. apply Hanc; [left; reflexivity|exact Ha].
  Qed.

  Lemma collectA : forall n, PA n.
  Proof.
    induction n as [|i tg p kids HF] using tmpl_ind'; intros anc st Hincl Hanc HI HS Hd.
    - discriminate.
    - set (n := Node i tg p kids) in *.
      assert (HnT : In n (nodes T)) by (apply Hincl; apply self_in_nodes).
      unfold n. rewrite collect2_node.
      destruct (lookup i (snd st)) as [t|] eqn:El.
      + destruct (HS i t El) as (m & Hm & Emi & Emt).
        assert (Et : t = tg) by (rewrite <- Emt; exact (Hnodup m n Hm HnT Emi)). rewrite Et in *.
        rewrite N.eqb_refl. cbn [andb].
        destruct (HI i) as [Hb|(a & Ha & Ea)]; [rewrite El; discriminate| |].
        * apply has_In in Hb. rewrite Hb. exists st. split; [reflexivity|split; assumption].
        * exfalso. destruct (Hanc a Ha) as (HaT & Hsub).
          apply (Hnest a n HaT); [apply Hsub; apply self_in_nodes|]. cbn [nid_of n]. symmetry. exact Ea.
      + set (st1 := (fst st, (i, tg) :: snd st)).
        assert (Hkd : forall k, In k kids -> kid_defect root ks c df k = false).
        { unfold n in Hd. cbn [defect] in Hd. exact (existsb_false _ _ Hd). }
        assert (I1 : IA st1 (n :: anc)).
        { intros j Hj. cbn [fst snd st1 lookup] in *. destruct (i =? j) eqn:E.
          - apply N.eqb_eq in E. right. exists n. split; [left; reflexivity|exact E].
          - destruct (HI j Hj) as [H|(a & Ha & Ea)]; [left; exact H|right; exists a; split; [right; exact Ha|exact Ea]]. }
        assert (S1 : Src st1).
        { intros j t Hl. cbn [snd st1 lookup] in Hl. destruct (i =? j) eqn:E; [|exact (HS j t Hl)].
          apply N.eqb_eq in E. injection Hl as <-. exists n. split; [exact HnT|split; [exact E|reflexivity]]. }
        destruct (walkA (n :: anc) kids HF) with (st := st1) as (st2 & Ew & I2 & S2); auto.
        { intros k Hk. exact (incl_tran (kid_nodes_incl i tg p kids k Hk) Hincl). }
        { intros k a Hk [<-|Ha].
          - split; [exact HnT|]. intros m Hm. cbn [proper n]. apply in_flat_map. eauto.
          - destruct (Hanc a Ha) as (HaT & Hsub). split; [exact HaT|].
            exact (incl_tran (kid_nodes_incl i tg p kids k Hk) Hsub). }
        fold st1. rewrite Ew.
        assert (Em : memb root (kid_ids kids) = false).
        { destruct (memb root (kid_ids kids)) eqn:E; [|reflexivity]. exfalso.
          apply memb_In in E. unfold kid_ids in E. apply in_flat_map in E. destruct E as (k & Hk & Hr).
          pose proof (Hkd k Hk) as Hx. destruct k as [ci ctg cp ck|]; [|destruct Hr].
          destruct Hr as [<-|[]]. cbn [kid_defect] in Hx. rewrite N.eqb_refl in Hx. discriminate. }
        rewrite Em. eexists. split; [reflexivity|]. cbn [fst snd]. split.
        * intros j Hj. cbn [fst snd] in *. destruct (I2 j Hj) as [H|(a & [<-|Ha] & Ea)].
          -- left. apply (proj1 (keys_aset_incl i (tg, doc_of (Node i tg p kids)) (fst st2))). exact H.
          -- left. cbn [nid_of n] in Ea. subst j. apply (proj2 (keys_aset_incl i (tg, doc_of (Node i tg p kids)) (fst st2))).
          -- right. exists a. split; assumption.
        * exact S2.
  Qed.

  Lemma clean_collect2_ok : df T = false -> exists st, collect2 root ks c T ([], []) = Ok st.
  Proof.
    intros Hd. destruct (collectA T [] ([], [])) as (st & H & _); auto.
    - apply incl_refl.
    - intros a [].
    - intros j Hj. cbn in Hj. congruence.
    - intros j t Hl. discriminate.
    - exists st. exact H.
  Qed.
End Accepted.

Lemma no_dup_spec T : dup_clashb T = false ->
  forall a b, In a (nodes T) -> In b (nodes T) -> nid_of a = nid_of b -> tag_of a = tag_of b.
Proof.
  intros H a b Ha Hb Ei. unfold dup_clashb in H.
  pose proof (existsb_false _ _ H a Ha) as H1. cbn beta in H1. pose proof (existsb_false _ _ H1 b Hb) as H2.
  cbn beta in H2. rewrite Ei, N.eqb_refl in H2. cbn [andb] in H2. apply negb_false_iff in H2. apply N.eqb_eq in H2. exact H2.
Qed.

Lemma no_nestb_spec T : no_nestb T = true -> forall a m, In a (nodes T) -> In m (proper a) -> nid_of m <> nid_of a.
Proof.
  intros H a m Ha Hm E. unfold no_nestb in H. rewrite forallb_forall in H. specialize (H a Ha).
  apply negb_true_iff in H. assert (memb (nid_of a) (map nid_of (proper a)) = true); [|congruence].
  apply memb_In. rewrite <- E. apply in_map. exact Hm.
Qed.

Theorem clean_accepted : forall v b d c T,
  defect (nid_of T) (keys (view d)) c T = false -> dup_clashb T = false -> no_nestb T = true ->
  (exists s c', plan_of2 v b d c (OOverwrite T) = PSteps s c') /\
  (in_storage (keys (view d)) c (nid_of T) = false -> exists s c', plan_of2 v b d c (OStore T) = PSteps s c').
Proof.
  intros v b d c T Hd Hn Hs.
  destruct (clean_collect2_ok (nid_of T) (keys (view d)) c T (no_dup_spec T Hn) (no_nestb_spec T Hs) Hd) as (st & He).
  assert (H1 : exists s c', plan_of2 v b d c (OOverwrite T) = PSteps s c').
  { unfold plan_of2, flush2. rewrite He. eauto. }
  split; [exact H1|]. intros Hi. destruct T as [i tg p kids|]; [|discriminate].
  cbn [nid_of] in Hi, He. unfold in_storage in Hi. apply orb_false_iff in Hi. destruct Hi as [Hc1 Hk1].
  unfold plan_of2. rewrite (lookup_None_has_inv i c Hc1), Hk1. unfold flush2. cbn [nid_of]. rewrite He. eauto.
Qed.

(* non-vacuity: def_none (a cached child written as a reference, new children to depth 3) and a template with a shared
   new object; and each hypothesis matters: def_stale (reachable defect), clash_tmpl 4 (duplicate) are rejected *)
Lemma accepted_nonvacuous :
  let ks := keys (view (disk_of ex_store)) in
  let sh := Node 4 1 1 [Node 5 2 2 [Node 7 4 4 []]; Node 6 3 3 [Node 5 2 2 [Node 7 4 4 []]]] in
  defect 4 ks ex_cache def_none = false /\ dup_clashb def_none = false /\ no_nestb def_none = true /\
  defect 4 ks ex_cache sh = false /\ dup_clashb sh = false /\ no_nestb sh = true /\
  (forall b, exists s c', plan_of2 current b (disk_of ex_store) ex_cache (OOverwrite sh) = PSteps s c' /\ s <> []) /\
  defect 4 ks ex_cache def_stale = true /\ dup_clashb (clash_tmpl 4) = true /\
  defect 4 ks ex_cache (clash_tmpl 4) = false /\ no_nestb (clash_tmpl 4) = true.
Proof.
  cbv zeta. repeat (split; [reflexivity|]).
  split; [intros b; destruct b; eexists; eexists; (split; [reflexivity|discriminate])|].
  repeat split; reflexivity.
Qed.

(* which templates are rejected: for templates whose named nodes below the root are new, with coherent identities and
   no object inside itself, the overwrite is rejected IF AND ONLY IF a defect is reachable or one identifier names two
   different objects; otherwise it is a plan with steps *)
Theorem rejected_iff : forall v b d c T,
  coherent_subb T = true -> coherent_defb (nid_of T) (keys (view d)) c T = true ->
  new_belowb (keys (view d)) c T = true -> no_nestb T = true ->
  ((exists e, plan_of2 v b d c (OOverwrite T) = PErr e) <->
   defect (nid_of T) (keys (view d)) c T = true \/ dup_clashb T = true) /\
  ((exists s c', plan_of2 v b d c (OOverwrite T) = PSteps s c') <->
   defect (nid_of T) (keys (view d)) c T = false /\ dup_clashb T = false).
Proof.
  intros v b d c T Hcs Hcd Hnew Hnest.
  destruct (defect (nid_of T) (keys (view d)) c T) eqn:Ed.
  - destruct (defect_rejected v b d c T Ed Hcd) as ((e & He & _) & _).
    split; split; [intros _; left; reflexivity|intros _; eauto|intros (s & c' & H); congruence|intros (H & _); discriminate].
  - destruct (dup_clashb T) eqn:Eu.
    + destruct (clash_rejected v b d c T Eu Hcs Hnew) as ((e & He & _) & _).
      split; split; [intros _; right; reflexivity|intros _; eauto|intros (s & c' & H); congruence|intros (_ & H); discriminate].
    + destruct (clean_accepted v b d c T Ed Eu Hnest) as ((s & c' & Hs) & _).
      split; split; [intros (e & He); congruence|intros [H|H]; discriminate|intros _; split; reflexivity|intros _; eauto].
Qed.
