(* C11 — round 5 (audit): clause (b) in the vocabulary of the SPECIFICATION.  The theorems of rounds 1-4 state "old
   content or the content of the completed operation"; check_spec (Corr.v) judges "old content or the document of a
   node of the stored template with that identifier (deleted: absent)".  The link: whatever the repaired encoder
   buffers is the document of a node of the template (for EVERY template, no guard), hence the content of the completed
   operation is what the specification calls new content.  Also: small lemmas so that Props.v is `exact` only.    *)
From Coq Require Import List NArith Bool Arith Lia.
Require Import QV.C11.Model QV.C11.Spec QV.C11.Proofs QV.C11.Proofs_load QV.C11.Proofs_kill QV.C11.Guard
               QV.C11.Proofs_guard QV.C11.Proofs_tight QV.C11.Repair QV.C11.Proofs_repair.
Import ListNotations.
Open Scope N_scope.

Lemma current_code_safe : forall b, safe current b = true.
Proof. intros []; reflexivity. Qed.

Lemma repaired_children_before_parents : forall (s : store) (c : cache) n st,
  (forall i, has i c = true -> lookup i s <> None) ->
  collect2 (nid_of n) (keys s) c n ([], []) = Ok st ->
  NoDup (keys (fst st)) /\ ordered (keys s) (proj (fst st)).
Proof.
  intros s c n st Hc H. destruct (collect2_top s c n st Hc H) as (ND & OR & _). split; assumption.
Qed.

Lemma exact_guard_rejects_both :
  guard_C11_exact (disk_of cycle_store) cycle_cache cycle_op = false /\
  guard_C11_exact (disk_of []) [] (OOverwrite dup_witness) = false.
Proof. split; [exact exact_guard_rejects_findings|exact exact_guard_rejects_dup_witness]. Qed.

(* ---- every buffered document is the document of a node of the template ---- *)

Section FromTemplate.
  Variables (root : id) (ks : list id) (c : cache) (Q : id -> doc -> Prop).

  Definition bufQ (st : tstate) : Prop := forall j tg x, In (j, (tg, x)) (fst st) -> Q j x.
  Definition P3 (n : tmpl) : Prop :=
    forall st st', (forall m, In m (nodes n) -> Q (nid_of m) (doc_of m)) -> bufQ st ->
      collect2 root ks c n st = Ok st' -> bufQ st'.

  Lemma walk3 : forall l, Forall P3 l ->
    (forall k m, In k l -> In m (nodes k) -> Q (nid_of m) (doc_of m)) ->
    forall st st', bufQ st -> walk_kids2 (collect2 root ks c) ks c l st = Ok st' -> bufQ st'.
  Proof.
    induction 1 as [|k r Hk Hr IH]; intros HQ st st' Hb Hw.
    - cbn in Hw. injection Hw as <-. exact Hb.
    - rewrite walk2_cons in Hw. destruct k as [ci ctg cp ck|]; [|discriminate].
      assert (HQr : forall k m, In k r -> In m (nodes k) -> Q (nid_of m) (doc_of m)).
      { intros k m Hin. apply HQ. right. exact Hin. }
      destruct (negb (in_storage ks c ci)).
      + destruct (collect2 root ks c (Node ci ctg cp ck) st) as [st1|] eqn:Ec; [|discriminate].
        apply (IH HQr st1 st'); [|exact Hw].
        apply (Hk st st1); [|exact Hb|exact Ec]. intros m Hm. apply (HQ (Node ci ctg cp ck)); [left; reflexivity|exact Hm].
      + destruct (lookup ci c); [|discriminate]. destruct (n =? ctg); [|discriminate].
        apply (IH HQr st st'); assumption.
  Qed.

  Lemma collect3 : forall n, P3 n.
  Proof.
    induction n as [|i tg p kids HF] using tmpl_ind'; intros st st' HQ Hb Hcol.
    - discriminate.
    - rewrite collect2_node in Hcol.
      destruct (lookup i (snd st)) as [t|].
      + destruct ((t =? tg) && has i (fst st)); [|discriminate]. injection Hcol as <-. exact Hb.
      + destruct (walk_kids2 (collect2 root ks c) ks c kids (fst st, (i, tg) :: snd st)) as [st2|] eqn:Ew; [|discriminate].
        destruct (memb root (kid_ids kids)); [discriminate|]. injection Hcol as <-.
        assert (Hb2 : bufQ st2).
        { apply (walk3 kids HF) with (st := (fst st, (i, tg) :: snd st)); [|exact Hb|exact Ew].
          intros k m Hk Hm. apply HQ. cbn [nodes]. right. apply in_flat_map. exists k. split; assumption. }
        intros j tg0 x Hin. cbn [fst] in Hin. apply in_aset in Hin. destruct Hin as [E|Hin].
        * injection E as -> _ ->. apply (HQ (Node i tg p kids)). cbn [nodes]. left. reflexivity.
        * exact (Hb2 j tg0 x Hin).
  Qed.
End FromTemplate.

Lemma buffer_from_template root ks c n st :
  collect2 root ks c n ([], []) = Ok st ->
  forall j tg x, In (j, (tg, x)) (fst st) -> exists m, In m (nodes n) /\ nid_of m = j /\ doc_of m = x.
Proof.
  intros Hc. apply (collect3 root ks c (fun j x => exists m, In m (nodes n) /\ nid_of m = j /\ doc_of m = x) n ([], []) st).
  - intros m Hm. exists m. auto.
  - intros ? ? ? [].
  - exact Hc.
Qed.

Lemma apply_tx_lookup_cases T : forall s i,
  lookup i (apply_tx T s) = lookup i s \/ exists x, In (i, x) T /\ lookup i (apply_tx T s) = Some x.
Proof.
  induction T as [|[k x] r IH]; cbn [apply_tx]; intros s i; [left; reflexivity|].
  destruct (IH (aset k x s) i) as [H|(y & Hy & Hl)].
  - rewrite H, lookup_aset. destruct (k =? i) eqn:E; [|left; reflexivity].
    apply N.eqb_eq in E; subst k. right. exists x. split; [left; reflexivity|reflexivity].
  - right. exists y. split; [right; exact Hy|exact Hl].
Qed.

Lemma in_proj tx i x : In (i, x) (proj tx) -> exists tg, In (i, (tg, x)) tx.
Proof.
  unfold proj. intros H. apply in_map_iff in H. destruct H as ([j [tg y]] & E & Hin). cbn in E.
  injection E as -> ->. exists tg. exact Hin.
Qed.

(* what the specification (Corr.new_content, as a Prop) accepts as the new content of identifier i *)
Definition new_content_P (o : op) (i : id) (x : option doc) : Prop :=
  match o with
  | OStore n | OOverwrite n => exists m, In m (nodes n) /\ nid_of m = i /\ x = Some (doc_of m)
  | ODelete j => i = j /\ x = None
  | OClear => False
  end.

Lemma flush2_new_content v b d c n s i :
  safe v b = true -> main d = Some s ->
  let steps := steps_of (flush2 v b d c n) in
  lookup i (view (run steps d)) = lookup i (view d) \/
  exists m, In m (nodes n) /\ nid_of m = i /\ lookup i (view (run steps d)) = Some (doc_of m).
Proof.
  intros Hs Hm. unfold flush2. rewrite (view_main _ _ Hm).
  destruct (collect2 (nid_of n) (keys s) c n ([], [])) as [st|e] eqn:Ec; cbn [steps_of]; [|left; cbn; rewrite (view_main _ _ Hm); reflexivity].
  destruct (tx_crash v b Hs (fst st) d s (length (tx_steps v b d (fst st))) Hm) as (j & s' & Hm' & _ & Hf).
  rewrite firstn_all in Hm'. rewrite (view_main _ _ Hm'). rewrite (Hf (Nat.le_refl _) i).
  destruct (apply_tx_lookup_cases (proj (fst st)) s i) as [H|(x & Hx & Hl)]; [left; exact H|right].
  apply in_proj in Hx. destruct Hx as (tg & Hin).
  destruct (buffer_from_template _ _ _ _ _ Ec i tg x Hin) as (m & Hmn & Hid & Hdoc).
  exists m. split; [exact Hmn|]. split; [exact Hid|]. rewrite Hl, Hdoc. reflexivity.
Qed.

Lemma completed_new_content v b d c o i :
  safe v b = true -> wf d c ->
  let steps := steps_of (plan_of2 v b d c o) in
  lookup i (view (run steps d)) = lookup i (view d) \/ new_content_P o i (lookup i (view (run steps d))).
Proof.
  intros Hs (s & Hm & _). cbv zeta. destruct o as [n|n|j|].
  - unfold plan_of2. destruct n as [k tg p kids|]; [|left; reflexivity].
    destruct (lookup k c) as [t|]. { destruct (t =? tg); left; reflexivity. }
    destruct (memb k (keys (view d))); [left; reflexivity|].
    exact (flush2_new_content v b d c (Node k tg p kids) s i Hs Hm).
  - unfold plan_of2. exact (flush2_new_content v b d c n s i Hs Hm).
  - unfold plan_of2, plan_of. destruct (memb j (keys (view d))); [|left; reflexivity]. cbn [steps_of].
    destruct (del_atomic v b d s j (length (del_steps v b d j)) Hs Hm) as (s' & Hm' & _ & Hf).
    rewrite firstn_all in Hm'. rewrite (view_main _ _ Hm'), (view_main _ _ Hm). rewrite (Hf (Nat.le_refl _) i).
    rewrite lookup_adel. destruct (j =? i) eqn:E; [|left; reflexivity].
    apply N.eqb_eq in E. right. split; [symmetry; exact E|reflexivity].
  - left. reflexivity.
Qed.

(* CLAUSE (b) AS THE SPECIFICATION STATES IT, at every interruption point of both kinds, for every template, every
   cache, no guard: an identifier holds its old content, or the document of a node of the stored template that carries
   this identifier (deletion: it is the deleted identifier and it is gone). *)
Theorem old_or_new_content : forall v b d c o ck k i,
  safe v b = true -> wf d c -> all_load (view d) -> del_in_scope d o ->
  let d' := after_crash ck b (steps_of (plan_of2 v b d c o)) k d in
  lookup i (view d') = lookup i (view d) \/ new_content_P o i (lookup i (view d')).
Proof.
  intros v b d c o ck k i Hs Hw Hall Hscope. cbv zeta.
  destruct (crash_safe_exact2_kinds v b d c o Hs Hw Hall Hscope) as [Hbc _]. cbv zeta in Hbc.
  destruct (Hbc ck k) as [Hb _]. destruct (Hb i) as [H|H]; [left; exact H|].
  rewrite H. exact (completed_new_content v b d c o i Hs Hw).
Qed.

(* non-vacuity: on the shared-sub-template example the root holds NEW content after the completed overwrite and OLD
   content when the first primitive fails *)
Lemma old_or_new_content_nonvacuous :
  forall b, lookup 0 (view (after_crash Raised b (steps_of (plan_of2 current b (disk_of share_store) share_cache (OOverwrite share_tmpl))) 99
                                        (disk_of share_store))) = Some (doc_of share_tmpl) /\
            lookup 0 (view (after_crash Raised b (steps_of (plan_of2 current b (disk_of share_store) share_cache (OOverwrite share_tmpl))) 0
                                        (disk_of share_store))) = lookup 0 share_store /\
            lookup 0 share_store <> Some (doc_of share_tmpl).
Proof. intros []; repeat split; try reflexivity; discriminate. Qed.

(* ---- the known finding overwrite-creates-cycle for the code AS IT IS NOW (plan_of2) ---- *)
Lemma cycle_plan2_same :
  plan_of2 current BDict (disk_of cycle_store) cycle_cache cycle_op = plan_of current BDict (disk_of cycle_store) cycle_cache cycle_op.
Proof. reflexivity. Qed.

Lemma cycle_refuted2 :
  exists d c o, wf d c /\ all_load (view d) /\ del_in_scope d o /\
     guard2_cycle d c o = false /\ guard2_exact d c o = false /\
     (forall b, exists s c', plan_of2 current b d c o = PSteps s c' /\ (1 <= length s)%nat) /\
     exists i, lookup i (view (run (steps_of (plan_of2 current BDict d c o)) d)) <> None /\
               ~ loads (view (run (steps_of (plan_of2 current BDict d c o)) d)) i.
Proof.
  destruct cycle_unsafe as (d0 & c0 & o0 & _). clear d0 c0 o0.
  exists (disk_of cycle_store), cycle_cache, cycle_op.
  split; [eapply wf_of_closedb; reflexivity|]. split; [apply all_loadb_spec; reflexivity|].
  split; [exact I|]. split; [reflexivity|]. split; [reflexivity|].
  split; [intros []; eexists; eexists; (split; [reflexivity|cbn; lia])|].
  rewrite cycle_plan2_same. exists 3. split; [vm_compute; discriminate|]. intros [fuel H].
  destruct (cycle_no_load fuel) as (_ & _ & H3). cbv zeta in H3. congruence.
Qed.

(* the hypotheses of C11_crash_safe / C11_crash_safe_tx / C11_crash_safe_exact that C11_hypotheses_satisfiable does not
   list: everything loads in the example storage, and the example passes the buffer guard and the exact guard *)
Lemma hypotheses_satisfiable_loads :
  all_load (view (disk_of ex_store)) /\
  guard_C11_tx (disk_of ex_store) ex_cache (OOverwrite ex_tmpl) = true /\
  guard_C11_exact (disk_of ex_store) ex_cache (OOverwrite ex_tmpl) = true /\
  guard2_exact (disk_of ex_store) ex_cache (OOverwrite ex_tmpl) = true.
Proof. split; [apply all_loadb_spec; reflexivity|]. repeat split; reflexivity. Qed.
