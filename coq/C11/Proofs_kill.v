(* C11 — the two kinds of interruption (the failing primitive RAISES and the clean-up clauses run / the PROCESS IS KILLED
   and nothing else runs), the invariant over histories of completed, failed and killed operations, and why
   ZipFileBackend.put must not append in place.                                                                *)
From Coq Require Import List NArith Bool Lia Arith.
Require Import QV.C11.Model QV.C11.Spec QV.C11.Proofs QV.C11.Proofs_load.
Import ListNotations.
Open Scope N_scope.

(* ------------------------------------------------------------------------------------------------------------ *)
(* clean-up steps only touch temporary files                                                                      *)

Lemma cleanup_main b d : main (run (cleanup_steps b) d) = main d.
Proof. destruct b; reflexivity. Qed.

Lemma after_crash_main ck b steps k d : main (after_crash ck b steps k d) = main (run (firstn k steps) d).
Proof.
  unfold after_crash. destruct ck; [reflexivity|]. destruct (Nat.ltb k (length steps)); [apply cleanup_main|reflexivity].
Qed.

Lemma after_crash_view ck b steps k d : view (after_crash ck b steps k d) = view (run (firstn k steps) d).
Proof. unfold view. rewrite after_crash_main. reflexivity. Qed.

(* after a failure that raises, the temporary file of the interrupted backend call is gone *)
Lemma raised_no_leftover b steps k d :
  (k < length steps)%nat ->
  let d' := after_crash Raised b steps k d in
  match b with BDict => True | BFs => tmpf d' = None | BZip => tmpz d' = None end.
Proof.
  intros Hk. cbv zeta. unfold after_crash. apply Nat.ltb_lt in Hk. rewrite Hk. destruct b; cbn; auto.
Qed.

(* the crash-safety theorem for both kinds of interruption *)
Theorem crash_safe_kinds : forall ck v b d c o k,
  safe v b = true -> wf d c -> all_load (view d) -> op_in_scope d o -> guard_C11_cycle d c o = true ->
  let steps := steps_of (plan_of v b d c o) in
  let d' := after_crash ck b steps k d in
  (main d' <> None /\ all_load (view d')) /\
  (forall i, lookup i (view d') = lookup i (view d) \/ lookup i (view d') = lookup i (view (run steps d))) /\
  (no_publish (firstn k steps) = true -> main d' = main d) /\
  (ck = Raised -> (k < length steps)%nat ->
   match b with BDict => True | BFs => tmpf d' = None | BZip => tmpz d' = None end).
Proof.
  intros ck v b d c o k Hs Hw Hall Hsc Hg. cbv zeta.
  rewrite after_crash_main, after_crash_view.
  destruct (crash_safe_all v b d c o k Hs Hw Hall Hsc Hg) as (Ha & Hb & Hc).
  split; [exact Ha|]. split; [exact Hb|]. split; [exact Hc|].
  intros -> Hk. apply raised_no_leftover. exact Hk.
Qed.

(* ------------------------------------------------------------------------------------------------------------ *)
(* the invariant (wf + everything loads) is re-established by every completed, failed or killed operation         *)

Lemma apply_tx_keeps : forall T s i, lookup i s <> None \/ In i (keys T) -> lookup i (apply_tx T s) <> None.
Proof.
  induction T as [|[j x] r IH]; cbn; intros s i H.
  - destruct H as [H|[]]; exact H.
  - apply IH. destruct (N.eq_dec j i) as [->|Hn].
    + left. rewrite lookup_aset, N.eqb_refl. discriminate.
    + destruct H as [H|[H|H]]; [|contradiction|right; exact H].
      left. rewrite lookup_aset. destruct (j =? i) eqn:E; [discriminate|exact H].
Qed.

Lemma firstn_keeps : forall j T s i, lookup i s <> None -> lookup i (apply_tx (firstn j T) s) <> None.
Proof. intros. apply apply_tx_keeps. left. auto. Qed.

Lemma has_cache_update : forall tx c j, has j (cache_update tx c) = true -> has j c = true \/ In j (keys tx).
Proof.
  induction tx as [|[i [tg x]] r IH]; cbn; intros c j H; [left; exact H|].
  destruct (IH _ _ H) as [H1|H1]; [|right; right; exact H1].
  unfold has in H1. apply memb_In in H1. apply keys_aset_inv in H1. destruct H1 as [->|H1].
  - right. left. reflexivity.
  - left. unfold has. apply memb_In. exact H1.
Qed.

Lemma has_adel (c : cache) i j : has j (adel i c) = true -> j <> i /\ has j c = true.
Proof.
  intros H. apply has_lookup in H. rewrite lookup_adel in H. destruct (i =? j) eqn:E; [congruence|].
  apply N.eqb_neq in E. split; [congruence|]. apply has_lookup. exact H.
Qed.

Lemma del_prefix_nopub v b d i k :
  safe v b = true -> (k < length (del_steps v b d i))%nat -> no_publish (firstn k (del_steps v b d i)) = true.
Proof.
  intros Hs Hk. destruct b; cbn in Hs; unfold del_steps in *.
  - destruct k as [|k]; [reflexivity|cbn in Hk; lia].
  - destruct k as [|k]; [reflexivity|cbn in Hk; lia].
  - apply andb_true_iff in Hs. destruct Hs as [Hs1 _]. rewrite Hs1 in *.
    destruct k as [|[|[|k]]]; try reflexivity. cbn in Hk. lia.
Qed.

Inductive event :=
| EvDone (o : op)                (* the operation completes (or is rejected before the first write) *)
| EvRaise (o : op) (k : nat)     (* the k-th primitive raises; clean-up runs; the same PulseStorage lives on *)
| EvKill (o : op) (k : nat).     (* the process stops before the k-th primitive; a new process (empty cache) follows *)

Definition event_op (e : event) : op := match e with EvDone o | EvRaise o _ | EvKill o _ => o end.

Definition event_state (v : variant) (b : backend) (d : disk) (c : cache) (e : event) : disk * cache :=
  match e with
  | EvDone o => match plan_of v b d c o with
                | PErr _ => (d, c)
                | PNoop c' => (d, c')
                | PSteps s c' => (run s d, c')
                end
  | EvRaise o k => (after_crash Raised b (steps_of (plan_of v b d c o)) k d, c)
  | EvKill o k => (after_crash Killed b (steps_of (plan_of v b d c o)) k d, [])
  end.

Definition event_ok (v : variant) (b : backend) (d : disk) (c : cache) (e : event) : Prop :=
  op_in_scope d (event_op e) /\ guard_C11_cycle d c (event_op e) = true /\
  match e with
  | EvRaise o k => (k < length (steps_of (plan_of v b d c o)))%nat
  | _ => True
  end.

Fixpoint history_ok (v : variant) (b : backend) (d : disk) (c : cache) (l : list event) : Prop :=
  match l with
  | [] => True
  | e :: r => event_ok v b d c e /\ history_ok v b (fst (event_state v b d c e)) (snd (event_state v b d c e)) r
  end.

Fixpoint run_events (v : variant) (b : backend) (d : disk) (c : cache) (l : list event) : disk * cache :=
  match l with
  | [] => (d, c)
  | e :: r => run_events v b (fst (event_state v b d c e)) (snd (event_state v b d c e)) r
  end.

Lemma wf_nil_cache d c : wf d c -> wf d [].
Proof. intros (s & Hm & Hc & _). exists s. split; auto. split; auto. intros i H. discriminate. Qed.

(* the cache of the running PulseStorage stays inside the backend when an operation is interrupted by a raise *)
Lemma raise_keeps_cache v b d c o k s :
  safe v b = true -> main d = Some s -> op_in_scope d o ->
  (k < length (steps_of (plan_of v b d c o)))%nat ->
  forall i, lookup i s <> None -> lookup i (view (run (firstn k (steps_of (plan_of v b d c o))) d)) <> None.
Proof.
  intros Hs Hm Hsc Hk i Hi. revert Hk. unfold plan_of. rewrite (view_main _ _ Hm).
  assert (Hnil : (k < length (@nil prim))%nat -> lookup i (view (run (firstn k []) d)) <> None).
  { cbn. lia. }
  assert (Htx : forall tx, lookup i (view (run (firstn k (tx_steps v b d tx)) d)) <> None).
  { intros tx. destruct (tx_crash v b Hs tx d s k Hm) as (j & s' & Hm' & He & _).
    rewrite (view_main _ _ Hm'), (He i). apply firstn_keeps. exact Hi. }
  destruct o as [n|n|i0|].
  - destruct n as [i1 tg p kids|]; [|exact Hnil].
    destruct (lookup i1 c) as [t|]. { destruct (t =? tg); exact Hnil. }
    destruct (memb i1 (keys s)); [exact Hnil|].
    destruct (collect (keys s) c (Node i1 tg p kids) []) as [tx|e]; [|exact Hnil]. intros _. apply Htx.
  - destruct (collect (keys s) c n []) as [tx|e]; [|exact Hnil]. intros _. apply Htx.
  - destruct (memb i0 (keys s)); [|exact Hnil]. cbn [steps_of]. intros Hk.
    unfold view. rewrite (run_nopub _ _ (del_prefix_nopub v b d i0 k Hs Hk)), Hm. exact Hi.
  - exact Hnil.
Qed.

Lemma done_wf v b d c o :
  safe v b = true -> wf d c -> op_in_scope d o ->
  wf (fst (event_state v b d c (EvDone o))) (snd (event_state v b d c (EvDone o))).
Proof.
  intros Hs Hw Hsc. pose proof Hw as (s & Hm & Hc & Hcache).
  pose proof (crash_safe v b d c o (length (steps_of (plan_of v b d c o))) Hs Hw Hsc) as ((s' & Hm' & Hc') & _ & _).
  rewrite firstn_all in Hm'. cbn [event_state]. revert Hm'. unfold plan_of. rewrite (view_main _ _ Hm).
  assert (Htx : forall tx, main (run (tx_steps v b d tx) d) = Some s' ->
                           wf (run (tx_steps v b d tx) d) (cache_update tx c)).
  { intros tx Hm'. exists s'. split; auto. split; auto. intros i Hi.
    destruct (tx_crash v b Hs tx d s (length (tx_steps v b d tx)) Hm) as (j & s2 & Hm2 & _ & Hf).
    rewrite firstn_all in Hm2. rewrite Hm2 in Hm'. injection Hm' as ->. rewrite (Hf (le_n _) i).
    apply apply_tx_keeps. apply has_cache_update in Hi. destruct Hi as [Hi|Hi]; [left; auto|right].
    rewrite keys_proj. exact Hi. }
  destruct o as [n|n|i0|].
  - destruct n as [i1 tg p kids|]; [|intros _; exact Hw].
    destruct (lookup i1 c) as [t|]. { destruct (t =? tg); intros _; exact Hw. }
    destruct (memb i1 (keys s)); [intros _; exact Hw|].
    destruct (collect (keys s) c (Node i1 tg p kids) []) as [tx|e]; [|intros _; exact Hw]. cbn. apply Htx.
  - destruct (collect (keys s) c n []) as [tx|e]; [|intros _; exact Hw]. cbn. apply Htx.
  - destruct (memb i0 (keys s)); [|intros _; exact Hw]. cbn [steps_of fst snd]. intros Hm'.
    exists s'. split; auto. split; auto. intros j Hj. apply has_adel in Hj. destruct Hj as [Hne Hj].
    destruct (del_atomic v b d s i0 (length (del_steps v b d i0)) Hs Hm) as (s2 & Hm2 & _ & Hf).
    rewrite firstn_all in Hm2. rewrite Hm2 in Hm'. injection Hm' as ->. rewrite (Hf (le_n _) j).
    rewrite lookup_adel. destruct (i0 =? j) eqn:E; [apply N.eqb_eq in E; congruence|auto].
  - intros _. cbn. eapply wf_nil_cache; eauto.
Qed.

Lemma event_invariant v b d c e :
  safe v b = true -> wf d c -> all_load (view d) -> event_ok v b d c e ->
  wf (fst (event_state v b d c e)) (snd (event_state v b d c e)) /\
  all_load (view (fst (event_state v b d c e))).
Proof.
  intros Hs Hw Hall (Hsc & Hg & Hk). destruct e as [o|o k|o k]; cbn [event_op] in *.
  - split; [apply done_wf; auto|].
    pose proof (crash_safe_full v b d c o (length (steps_of (plan_of v b d c o))) Hs Hw Hall Hsc Hg) as H.
    rewrite firstn_all in H. cbn [event_state]. destruct (plan_of v b d c o); cbn in *; auto.
  - cbn [event_state fst snd]. rewrite after_crash_view. split; [|apply crash_safe_full; auto].
    destruct (crash_safe v b d c o k Hs Hw Hsc) as ((s' & Hm' & Hc') & _ & _).
    exists s'. split; [rewrite after_crash_main; exact Hm'|]. split; [exact Hc'|].
    intros i Hi. destruct Hw as (s & Hm & _ & Hcache).
    pose proof (raise_keeps_cache v b d c o k s Hs Hm Hsc Hk i (Hcache i Hi)) as H.
    rewrite (view_main _ _ Hm') in H. exact H.
  - cbn [event_state fst snd]. rewrite after_crash_view. split; [|apply crash_safe_full; auto].
    destruct (crash_safe v b d c o k Hs Hw Hsc) as ((s' & Hm' & Hc') & _ & _).
    exists s'. split; [rewrite after_crash_main; exact Hm'|]. split; [exact Hc'|]. intros i H. discriminate.
Qed.

Theorem history_safe : forall v b l d c,
  safe v b = true -> wf d c -> all_load (view d) -> history_ok v b d c l ->
  wf (fst (run_events v b d c l)) (snd (run_events v b d c l)) /\ all_load (view (fst (run_events v b d c l))).
Proof.
  intros v b. induction l as [|e r IH]; intros d c Hs Hw Hall Hok; [cbn; auto|].
  destruct Hok as [He Hr]. destruct (event_invariant v b d c e Hs Hw Hall He) as [Hw' Hall'].
  cbn [run_events]. apply IH; auto.
Qed.

(* ------------------------------------------------------------------------------------------------------------ *)
(* why a new archive entry must not be appended in place (the code after repo commit 61710b6 still did):          *)
(* the process stops after the entry data overwrote the central directory: no archive, every entry lost            *)

Lemma zip_append_unsafe :
  exists d c o k, wf d c /\ all_load (view d) /\ op_in_scope d o /\ guard_C11_cycle d c o = true /\
    main (after_crash Killed BZip (steps_of (plan_of round1 BZip d c o)) k d) = None.
Proof.
  exists (disk_of [(0, Full 1 [])]), [], (OStore (Node 5 1 1 [])), 1%nat.
  split; [eapply wf_of_closedb; reflexivity|]. split.
  - intros i Hi. exists 1%nat. change (lookup i [(0, Full 1 [])] <> None) in Hi. cbn [lookup] in Hi.
    destruct (0 =? i) eqn:E; [apply N.eqb_eq in E; subst; reflexivity|congruence].
  - split; [reflexivity|]. split; reflexivity.
Qed.

(* non-vacuity of the history theorem: a completed store, a store killed half-way, a failed overwrite, a clear *)
Definition ex_history : list event :=
  [EvDone (OStore (Node 3 1 1 [Node 4 2 2 []])); EvKill (OStore (Node 5 3 3 [Node 6 4 4 []; Node 7 5 5 []])) 5;
   EvRaise (OOverwrite (Node 3 6 6 [Node 8 7 7 []])) 1; EvDone OClear; EvDone (OStore (Node 9 8 8 []))].

Lemma history_nonvacuous :
  forall b, history_ok current b (disk_of ex_store) ex_cache ex_history /\
            (6 <= length (view (fst (run_events current b (disk_of ex_store) ex_cache ex_history))))%nat.
Proof.
  intros b. split.
  - destruct b; vm_compute; repeat split; auto; lia.
  - destruct b; vm_compute; lia.
Qed.
